(* C01 layers 4+5 composed for YEARLY: the days that survive one pass of the loop.
   filter_loop_correct: running the filter loop over the YEARLY day set replaces exactly the rejected
   indices by None (and reports `filtered` iff some index was rejected) -- for any rejection
   function, by induction over the day list (no bound).
   yearly_pass_days_correct: hence, for a YEARLY rule of the families covered by
   day_filter_correct_guarded / _yearly_nth_guarded, the surviving day indices of the pass with
   cursor year y are exactly the days of that calendar year accepted by RRSpec.day_ok -- the day
   part of RRSpec.cands_coarse for the period (the k-th year after the start's year). *)
From Coq Require Import ZArith List Bool Lia ZifyBool.
From V Require Import base.Cal gen.RrTables rr.RRBase rr.RRNorm rr.RRMasks rr.RRIter rr.RRSpec
  rr.RROverlay rr.RRWeekCal rr.RRWeekFinal rr.RRDaysetThm rr.RRFilterThm rr.RRFilterSpec rr.RRGateThm rr.RRTimesetThm rr.RRWeekTop rr.RREasterThm.
Import ListNotations.
Open Scope Z_scope.

Lemma set_nat_app {A} (pre : list A) x rest v :
  set_nat (pre ++ x :: rest) (length pre) v = pre ++ v :: rest.
Proof. induction pre as [|h t IH]; cbn [app length set_nat]; [reflexivity|]. rewrite IH. reflexivity. Qed.

Lemma py_set_app {A} (pre : list A) x rest v :
  py_set (pre ++ x :: rest) (Z.of_nat (length pre)) v = Ok (pre ++ v :: rest).
Proof.
  unfold py_set, zlen. rewrite app_length. cbn [length].
  replace (Z.of_nat (length pre) <? 0) with false by lia.
  replace (Z.of_nat (length pre) <? 0) with false by lia.
  replace (Z.of_nat (length pre + S (length rest)) <=? Z.of_nat (length pre)) with false by lia.
  cbn [orb]. rewrite Nat2Z.id. rewrite set_nat_app. reflexivity.
Qed.

Section Filter.
Variables (rl : rule) (ii : iinfo) (rej : Z -> bool).

Definition mark (i : Z) : option Z := if rej i then None else Some i.

(* invariant: `pre` = the already processed indices 0..a-1 (marked), the rest still Some *)
Lemma filter_loop_inv n : forall a pre f,
  Z.of_nat (length pre) = a ->
  (forall i, a <= i < a + Z.of_nat n -> day_rejected rl ii i = Ok (rej i)) ->
  filter_loop rl ii (map Some (zrange_nat a n)) (pre ++ map Some (zrange_nat a n)) f =
  Ok (pre ++ map mark (zrange_nat a n), f || existsb rej (zrange_nat a n)).
Proof.
  induction n as [|n IH]; intros a pre f Hl Hr; cbn [zrange_nat map filter_loop existsb].
  - rewrite orb_false_r. reflexivity.
  - rewrite (Hr a ltac:(lia)). cbn [bind]. subst a. set (a := Z.of_nat (length pre)) in *.
    destruct (rej a) eqn:Ra.
    + unfold a at 3. rewrite py_set_app. cbn [bind]. fold a.
      replace (pre ++ None :: map Some (zrange_nat (a + 1) n))
        with ((pre ++ [None]) ++ map Some (zrange_nat (a + 1) n)) by (rewrite <- app_assoc; reflexivity).
      rewrite (IH (a + 1) (pre ++ [None]) true).
      * rewrite <- app_assoc. cbn [app]. unfold mark at 2. rewrite Ra. cbn [orb]. rewrite orb_true_r. reflexivity.
      * rewrite app_length. cbn [length]. lia.
      * intros i Hi. apply Hr. lia.
    + replace (pre ++ Some a :: map Some (zrange_nat (a + 1) n))
        with ((pre ++ [Some a]) ++ map Some (zrange_nat (a + 1) n)) by (rewrite <- app_assoc; reflexivity).
      rewrite (IH (a + 1) (pre ++ [Some a]) f).
      * rewrite <- app_assoc. cbn [app]. unfold mark at 2. rewrite Ra. cbn [orb]. reflexivity.
      * rewrite app_length. cbn [length]. lia.
      * intros i Hi. apply Hr. lia.
Qed.

Theorem filter_loop_correct : forall ylen, 0 <= ylen ->
  (forall i, 0 <= i < ylen -> day_rejected rl ii i = Ok (rej i)) ->
  let ds := map Some (zrange 0 ylen) in
  filter_loop rl ii (py_slice ds 0 ylen) ds false =
  Ok (map mark (zrange 0 ylen), existsb rej (zrange 0 ylen)).
Proof.
  intros ylen Hy Hr ds.
  assert (L : zlen ds = ylen).
  { unfold ds, zlen, zrange. rewrite map_length, zrange_nat_length. lia. }
  pose proof (py_slice_all ds) as P. rewrite L in P. rewrite P. unfold ds, zrange.
  pose proof (filter_loop_inv (Z.to_nat (ylen - 0)) 0 [] false eq_refl) as Q.
  cbn [app orb] in Q. apply Q. intros i Hi. apply Hr. lia.
Qed.

Lemma somes_map_mark l : somes (map mark l) = filter (fun i => negb (rej i)) l.
Proof.
  induction l as [|x t IH]; cbn [map somes filter]; [reflexivity|].
  unfold mark at 1. destruct (rej x); cbn [negb somes]; rewrite IH; reflexivity.
Qed.
End Filter.

Lemma filter_ext' {A} (f g : A -> bool) l : (forall x, f x = g x) -> filter f l = filter g l.
Proof. intros H. induction l as [|x t IH]; cbn [filter]; [reflexivity|]. rewrite H, IH. reflexivity. Qed.

Lemma zrange_nat_shift n : forall a b, zrange_nat (a + b) n = map (fun i => a + i) (zrange_nat b n).
Proof.
  induction n as [|n IH]; intros a b; cbn [zrange_nat map]; [reflexivity|].
  f_equal. replace (a + b + 1) with (a + (b + 1)) by lia. apply IH.
Qed.

Lemma zrange_shift a n : zrange a (a + n) = map (fun i => a + i) (zrange 0 n).
Proof.
  unfold zrange. replace (a + n - a) with (n - 0) by lia.
  rewrite <- (zrange_nat_shift (Z.to_nat (n - 0)) a 0). replace (a + 0) with a by lia. reflexivity.
Qed.

Lemma filter_map_comm {A B} (g : A -> B) (p : B -> bool) l :
  filter p (map g l) = map g (filter (fun x => p (g x)) l).
Proof.
  induction l as [|x t IH]; cbn [map filter]; [reflexivity|].
  destruct (p (g x)); cbn [map]; rewrite IH; reflexivity.
Qed.

(* one pass of a YEARLY rule (day-selecting parts: BYMONTH, BYMONTHDAY, BYYEARDAY, plain BYDAY,
   guarded BYWEEKNO, BYEASTER in 1583..4098): the ordinals of the surviving days are exactly the days
   of calendar year y that RRSpec.day_ok accepts, in order *)
Theorem yearly_pass_days_correct : forall r rl y month ii,
  normalize r = Ok rl -> spec_wf r = true -> r_freq r = YEARLY -> plain_only r = true ->
  all_opt (r_byweekno r) weekno_safe = true ->
  (r_byeaster r = None \/ 1583 <= y <= 4098) ->
  1 <= y <= 9999 -> rebuild rl ii_init y month = Ok ii ->
  exists ds ds' f,
    getdayset rl ii y month 1 = Ok (ds, 0, year_len y) /\
    filter_loop rl ii (py_slice ds 0 (year_len y)) ds false = Ok (ds', f) /\
    map (fun i => yearordinal ii + i) (somes (py_slice ds' 0 (year_len y))) =
    filter (day_ok r) (zrange (jan1 y) (jan1 (y + 1))).
Proof.
  intros r rl y month ii HN HW Hfr Hp Hs He Hy HR.
  pose proof (rebuild_ii_for rl y month ii ltac:(lia) HR) as F.
  pose proof (normalize_freq r rl HN) as Nfr. rewrite Hfr in Nfr.
  assert (YL : 365 <= year_len y <= 366) by (unfold year_len; destruct (is_leap y); lia).
  set (rej := fun i => negb (day_ok r (jan1 y + i))).
  assert (HRj : forall i, 0 <= i < year_len y -> day_rejected rl ii i = Ok (rej i)).
  { intros i Hi. apply (day_filter_correct_guarded r rl y month ii i HN HW Hp Hs He Hy HR Hi). }
  exists (map Some (zrange 0 (year_len y))), (map (mark rej) (zrange 0 (year_len y))),
         (existsb rej (zrange 0 (year_len y))).
  split.
  - unfold getdayset. rewrite Nfr. change (YEARLY =? YEARLY) with true. cbv iota.
    unfold ydayset. rewrite (f_ylen ii y F). reflexivity.
  - split.
    + apply (filter_loop_correct rl ii rej (year_len y) ltac:(lia) HRj).
    + assert (L : zlen (map (mark rej) (zrange 0 (year_len y))) = year_len y).
      { unfold zlen, zrange. rewrite map_length, zrange_nat_length. lia. }
      pose proof (py_slice_all (map (mark rej) (zrange 0 (year_len y)))) as P. rewrite L in P. rewrite P.
      rewrite somes_map_mark. rewrite (f_yo ii y F).
      rewrite (filter_ext' (fun i => negb (rej i)) (fun i => day_ok r (jan1 y + i)))
        by (intros x; unfold rej; apply negb_involutive).
      rewrite <- (filter_map_comm (fun i => jan1 y + i) (day_ok r)).
      f_equal. rewrite jan1_succ. symmetry. apply zrange_shift.
Qed.

(* ------------------------------------------------------------------ the output phase of a pass *)
Lemma gate_list_app rl a : forall b cnt out,
  gate_list rl (a ++ b) cnt out =
  (let '(o1, c1, s1) := gate_list rl a cnt out in
   match s1 with Some _ => (o1, c1, s1) | None => gate_list rl b c1 o1 end).
Proof.
  induction a as [|x t IH]; intros b cnt out; cbn [app gate_list].
  - reflexivity.
  - destruct (gate_one rl x cnt out) as [[o1 c1] s1]. destruct s1 as [tm|]; [reflexivity|]. apply IH.
Qed.

(* without BYSETPOS the days x times loop (888-904) is the gate applied to the candidate list
   [(day, time) | day <- surviving days, time <- timeset], as long as every day is a valid ordinal *)
Theorem out_days_is_gate : forall rl yo ts sl cnt out,
  (forall i, In i (somes sl) -> from_ordinal (yo + i) = Ok (yo + i)) ->
  out_days rl yo sl ts cnt out =
  gate_list rl (flat_map (fun i => map (fun t => (yo + i, t)) ts) (somes sl)) cnt out.
Proof.
  intros rl yo ts sl. induction sl as [|d t IH]; intros cnt out Hv; cbn [out_days somes flat_map gate_list].
  - reflexivity.
  - destruct d as [i|]; cbn [somes flat_map]; [|apply IH; exact Hv].
    rewrite (Hv i (or_introl eq_refl)). rewrite gate_list_app.
    destruct (gate_list rl (map (fun s => (yo + i, s)) ts) cnt out) as [[o1 c1] s1].
    destruct s1 as [tm|]; [reflexivity|]. apply IH. intros j Hj. apply Hv. right. exact Hj.
Qed.

Lemma In_zrange_nat_bounds n : forall a x, In x (zrange_nat a n) -> a <= x < a + Z.of_nat n.
Proof.
  induction n as [|n IHn]; intros a x H; [destruct H|]. cbn [zrange_nat In] in H.
  destruct H as [<-|H]; [lia|]. specialize (IHn (a + 1) x H). lia.
Qed.

Lemma flat_map_map' {A B C} (f : B -> list C) (g : A -> B) l :
  flat_map f (map g l) = flat_map (fun x => f (g x)) l.
Proof. induction l as [|x t IH]; cbn [map flat_map]; [reflexivity|]. rewrite IH. reflexivity. Qed.

(* one pass of a YEARLY rule without BYSETPOS: what reaches the until/dtstart/count gate is
   [(o, t) | o <- days of year y accepted by RRSpec.day_ok, t <- the rule's time set], in order *)
Theorem yearly_pass_candidates : forall r rl y month ii ts cnt out,
  normalize r = Ok rl -> spec_wf r = true -> r_freq r = YEARLY -> plain_only r = true ->
  all_opt (r_byweekno r) weekno_safe = true ->
  (r_byeaster r = None \/ 1583 <= y <= 4098) ->
  1 <= y <= 9999 -> rebuild rl ii_init y month = Ok ii ->
  exists ds ds' f,
    getdayset rl ii y month 1 = Ok (ds, 0, year_len y) /\
    filter_loop rl ii (py_slice ds 0 (year_len y)) ds false = Ok (ds', f) /\
    out_days rl (yearordinal ii) (py_slice ds' 0 (year_len y)) ts cnt out =
    gate_list rl (flat_map (fun o => map (fun t => (o, t)) ts)
                           (filter (day_ok r) (zrange (jan1 y) (jan1 (y + 1))))) cnt out.
Proof.
  intros r rl y month ii ts cnt out HN HW Hfr Hp Hs He Hy HR.
  destruct (yearly_pass_days_correct r rl y month ii HN HW Hfr Hp Hs He Hy HR) as (ds & ds' & f & E1 & E2 & E3).
  exists ds, ds', f. split; [exact E1|]. split; [exact E2|].
  pose proof (rebuild_ii_for rl y month ii ltac:(lia) HR) as F.
  rewrite out_days_is_gate.
  - f_equal. rewrite <- E3. rewrite flat_map_map'. reflexivity.
  - intros i Hi.
    assert (Hin : In (yearordinal ii + i) (filter (day_ok r) (zrange (jan1 y) (jan1 (y + 1))))).
    { rewrite <- E3. apply in_map. exact Hi. }
    apply filter_In in Hin. destruct Hin as [Hin _].
    assert (R : jan1 y <= yearordinal ii + i < jan1 (y + 1)).
    { unfold zrange in Hin. pose proof (In_zrange_nat_bounds _ _ _ Hin) as R0.
      rewrite jan1_succ in R0 |- *.
      assert (YL : 365 <= year_len y <= 366) by (unfold year_len; destruct (is_leap y); lia). lia. }
    unfold from_ordinal.
    assert (B1 : 1 <= jan1 y).
    { rewrite jan1_eq. assert (days_before_year 1 <= days_before_year y) by (apply days_before_year_mono; lia).
      change (days_before_year 1) with 0 in *. lia. }
    assert (B2 : jan1 (y + 1) <= max_ord + 1).
    { rewrite jan1_eq. assert (days_before_year (y + 1) <= days_before_year 10000) by (apply days_before_year_mono; lia).
      change (days_before_year 10000) with 3652059 in *. unfold max_ord. lia. }
    replace ((1 <=? yearordinal ii + i) && (yearordinal ii + i <=? max_ord)) with true by lia. reflexivity.
Qed.

(* one pass of a YEARLY rule without BYSETPOS, end to end: the instants the pass adds to the output
   are what the SPECIFICATION's take adds for the candidates
   [(o, t) | o <- days of year y accepted by day_ok, t <- time set] that are not before the start *)
Theorem yearly_pass_yields : forall r rl y month ii ts cnt out,
  normalize r = Ok rl -> spec_wf r = true -> r_freq r = YEARLY -> plain_only r = true ->
  all_opt (r_byweekno r) weekno_safe = true ->
  (r_byeaster r = None \/ 1583 <= y <= 4098) ->
  1 <= y <= 9999 -> rebuild rl ii_init y month = Ok ii ->
  exists ds ds' f,
    getdayset rl ii y month 1 = Ok (ds, 0, year_len y) /\
    filter_loop rl ii (py_slice ds 0 (year_len y)) ds false = Ok (ds', f) /\
    fst (fst (out_days rl (yearordinal ii) (py_slice ds' 0 (year_len y)) ts cnt out)) =
    fst (fst (sp_take r
      (filter (inst_le (sp_start r))
         (flat_map (fun o => map (fun t => (o, t)) ts)
                   (filter (day_ok r) (zrange (jan1 y) (jan1 (y + 1)))))) cnt out)).
Proof.
  intros r rl y month ii ts cnt out HN HW Hfr Hp Hs He Hy HR.
  destruct (yearly_pass_candidates r rl y month ii ts cnt out HN HW Hfr Hp Hs He Hy HR)
    as (ds & ds' & f & E1 & E2 & E3).
  exists ds, ds', f. split; [exact E1|]. split; [exact E2|]. rewrite E3.
  assert (V : valid_ymd (r_y r) (r_m r) (r_d r) = true).
  { unfold spec_wf in HW.
    repeat match type of HW with _ && _ = true =>
      let H := fresh "W" in apply andb_true_iff in HW; destruct HW as [HW H] end. assumption. }
  destruct (normalize_start_until r rl HN V) as (S1 & S2 & _).
  apply (gate_list_items rl r S1 S2).
Qed.

Lemma flat_map_filter {A B} (p : A -> bool) (f : A -> list B) l :
  flat_map (fun a => if p a then f a else []) l = flat_map f (filter p l).
Proof.
  induction l as [|a t IH]; cbn [flat_map filter]; [reflexivity|].
  destruct (p a); cbn [flat_map app]; rewrite IH; reflexivity.
Qed.

(* ONE PASS OF THE MODEL = ONE STEP OF THE SPECIFICATION (YEARLY, no BYSETPOS, guarded family):
   the instants pass k adds to the output are what RRSpec.spec_loop's body adds for period k *)
Theorem yearly_pass_is_spec_step : forall r rl k month ii ts cnt out,
  normalize r = Ok rl -> spec_wf r = true -> r_freq r = YEARLY -> plain_only r = true ->
  r_bysetpos r = None ->
  all_opt (r_byweekno r) weekno_safe = true ->
  let y := r_y r + k * r_interval r in
  (r_byeaster r = None \/ 1583 <= y <= 4098) ->
  1 <= y <= 9999 -> rebuild rl ii_init y month = Ok ii -> timeset rl = Some ts ->
  exists ds ds' f,
    getdayset rl ii y month 1 = Ok (ds, 0, year_len y) /\
    filter_loop rl ii (py_slice ds 0 (year_len y)) ds false = Ok (ds', f) /\
    fst (fst (out_days rl (yearordinal ii) (py_slice ds' 0 (year_len y)) ts cnt out)) =
    fst (fst (sp_take r (step_items r k) cnt out)).
Proof.
  intros r rl k month ii ts cnt out HN HW Hfr Hp Hsp Hs y He Hy HR HT.
  destruct (yearly_pass_yields r rl y month ii ts cnt out HN HW Hfr Hp Hs He Hy HR)
    as (ds & ds' & f & E1 & E2 & E3).
  exists ds, ds', f. split; [exact E1|]. split; [exact E2|]. rewrite E3. f_equal. f_equal. f_equal.
  assert (TS : ts = period_times r 0).
  { pose proof (timeset_is_spec r rl HN HW ltac:(rewrite Hfr; reflexivity)) as Q. rewrite HT in Q.
    injection Q as Q. exact Q. }
  unfold step_items, is_coarse, select_pos. rewrite Hfr, Hsp. change (YEARLY <=? DAILY) with true. cbv iota.
  f_equal. unfold cands_coarse, period_days. rewrite Hfr. change (YEARLY =? YEARLY) with true. cbv iota.
  fold y. fold (jan1 y). fold (jan1 (y + 1)).
  assert (B1 : 1 <= jan1 y).
  { rewrite jan1_eq. assert (days_before_year 1 <= days_before_year y) by (apply days_before_year_mono; lia).
    change (days_before_year 1) with 0 in *. lia. }
  assert (B2 : jan1 (y + 1) <= max_ord + 1).
  { rewrite jan1_eq. assert (days_before_year (y + 1) <= days_before_year 10000) by (apply days_before_year_mono; lia).
    change (days_before_year 10000) with 3652059 in *. unfold max_ord. lia. }
  replace (Z.max (jan1 y) 1) with (jan1 y) by lia.
  replace (Z.min (jan1 (y + 1) - 1) max_ord + 1) with (jan1 (y + 1)) by lia.
  rewrite <- TS. symmetry. apply flat_map_filter.
Qed.

(* toward the induction over passes: for rules without nth weekdays, rebuild() on the iterinfo of
   an earlier YEAR gives the same result as rebuild() on the initial iterinfo (everything the model
   reads is recomputed when the year changes) *)
Theorem rebuild_from_previous_year : forall rl ii y month,
  opt_neqb (lastyear ii) y = true -> truthy (bynweekday rl) = false -> nwdaymask ii = None ->
  (truthy (byeaster rl) = true \/ eastermask ii = None) ->
  rebuild rl ii y month = rebuild rl ii_init y month.
Proof.
  intros rl ii y month HL TN HN HE. unfold rebuild. rewrite HL, TN.
  change (lastyear ii_init) with (@None Z). change (opt_neqb None y) with true. cbv iota. cbn [andb].
  destruct (date_ord y 1 1) as [yo|e]; cbn [bind]; [|reflexivity].
  destruct (if 365 + (if is_leap y then 1 else 0) =? 365 then _ else _) as [[[mm mdm] nmdm] mr].
  destruct (if negb (truthy (byweekno rl)) then _ else _) as [wno|e]; cbn [bind]; [|reflexivity].
  cbn [nwdaymask eastermask yearordinal yearlen nextyearlen yearweekday mmask mrange mdaymask nmdaymask
       wdaymask wnomask].
  rewrite HN. change (nwdaymask ii_init) with (@None (list Z)).
  destruct (truthy (byeaster rl)) eqn:TE.
  - destruct (RRMasks.easter_ord y) as [eo|e]; cbn [bind]; [|reflexivity].
    destruct (if y <? T_MAXYEAR then _ else _) as [ne|e]; cbn [bind]; [|reflexivity].
    destruct (build_eastermask _ _ _ _); cbn [bind]; reflexivity.
  - destruct HE as [HE|HE]; [discriminate HE|]. rewrite HE. reflexivity.
Qed.

(* rebuild() never raises for rules without nth weekdays: years 2..9999 (1583..4098 with BYEASTER),
   any BYWEEKNO list -- no IndexError, no ValueError *)
Theorem rebuild_succeeds : forall rl y month,
  1 <= y <= 9999 -> 0 <= wkst rl <= 6 -> truthy (bynweekday rl) = false ->
  (truthy (byeaster rl) = false \/ 1583 <= y <= 4098) ->
  exists ii', rebuild rl ii_init y month = Ok ii'.
Proof.
  intros rl y month Hy Hk TN HE. unfold rebuild.
  change (lastyear ii_init) with (@None Z). change (opt_neqb None y) with true. cbv iota.
  unfold date_ord. assert (V : valid_ymd y 1 1 = true) by (unfold valid_ymd; change (dim y 1) with 31; lia).
  rewrite V. cbn [bind]. fold (jan1 y). rewrite !year_len_365.
  destruct (if year_len y =? 365 then _ else _) as [[[mm mdm] nmdm] mr].
  assert (W : exists wno,
     (if negb (truthy (byweekno rl)) then Ok None
      else do m <- build_wnomask y (year_len y) (year_len (y + 1)) (weekday_of_ord (jan1 y)) (wkst rl)
                     (py_from T_WDAYMASK (weekday_of_ord (jan1 y))) (opt_list (byweekno rl));
           Ok (Some m)) = Ok wno).
  { destruct (negb (truthy (byweekno rl))); [eexists; reflexivity|].
    destruct (wnomask_no_index_error_calendar y (wkst rl) (opt_list (byweekno rl)) Hk) as (m & Em).
    cbv zeta in Em. rewrite Em. cbn [bind]. eexists; reflexivity. }
  destruct W as (wno & Ew). rewrite Ew. cbn [bind]. rewrite TN. cbn [andb bind yearordinal yearlen].
  destruct (truthy (byeaster rl)) eqn:TE.
  - destruct HE as [HE|HE]; [discriminate HE|].
    rewrite (easter_ord_is_spec y ltac:(lia)). cbn [bind].
    unfold T_MAXYEAR. replace (y <? 9999) with true by lia.
    rewrite (easter_ord_is_spec (y + 1) ltac:(lia)). cbn [bind].
    destruct (eastermask_fold_correct (easter_ord_spec y - jan1 y) (Some (easter_ord_spec (y + 1) - jan1 y))
                (year_len y) (opt_list (byeaster rl))
                ltac:(unfold year_len; destruct (is_leap y); lia)) as (m & Em & _).
    rewrite Em. cbn [bind]. eexists; reflexivity.
  - eexists; reflexivity.
Qed.
