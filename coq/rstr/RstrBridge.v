(* Bridge from C13's rule state to C01's model: rstr's constructor model `ctor` (the hand model of
   rrule.__init__ that the C13 theorems are about) and rr's `RRNorm.normalize` (the model C01's theorems
   are about, proved equal to the code regenerated from rrule.__init__ by rcache, C01_gen_init_is_model)
   agree on EVERY start and keyword record the constructor accepts.  Consequently "equal rstr rule state"
   implies "equal RRNorm rule", hence equal results of every function of that rule -- in particular of
   `RRIter.iterate rl limit fuel`, C01's iteration function, which is not imported here so that this file
   depends only on the hand-written RRBase / RRNorm and not on the regenerated tables -- and the round trip
   theorem of C13 becomes a statement about occurrences inside C01's model.
   `raw_of` generalises link/LinkChain.raw_of_kw (one rule family, no UNTIL) to all keyword records. *)
From Coq Require Import ZArith List Bool Lia.
From V Require Import base.Cal rstr.RstrPrim rstr.RstrModel rstr.RstrSpec rstr.RstrThmStr rstr.RstrThmCtor rstr.RstrThmWf.
From V Require rstr.RstrThmDate.
From V Require rr.RRBase rr.RRNorm.
Import ListNotations.
Open Scope Z_scope.

(* until as rr's model carries it: (ordinal, second of day, microsecond) *)
Definition until_raw (u : dt) : Z * Z * Z :=
  (ord_of_ymd (dy u) (dmo u) (dd u), dh u * 3600 + dmi u * 60 + ds u, dus u).

(* the argument record of rr's model read off rstr's keyword record and start *)
Definition raw_of (ev : env) (st : dt) (kw : kwargs) : option RRNorm.raw :=
  match k_freq kw with
  | None => None
  | Some f =>
    Some (RRNorm.mkRaw f false (dy st) (dmo st) (dd st) (dh st) (dmi st) (ds st)
            (match k_interval kw with Some i => i | None => 1 end)
            (match k_wkst kw with Some w => w | None => e_fwd ev end)
            (k_count kw) (option_map until_raw (k_until kw))
            (match k_until kw with Some u => negb (Bool.eqb (aware st) (aware u)) | None => false end)
            (k_bysetpos kw) (k_bymonth kw) (k_bymonthday kw) (k_byyearday kw) (k_byeaster kw) (k_byweekno kw)
            (option_map (map wd_pair) (k_byweekday kw)) (k_byhour kw) (k_byminute kw) (k_bysecond kw))
  end.

Definition triples (hs ms ss : list Z) : list (Z * Z * Z) :=
  flat_map (fun h => flat_map (fun m => map (fun s => (h, m, s)) ss) ms) hs.

(* rstr's rule state as rr's rule record (what _iter reads) *)
Definition rule_of (r : rule) : RRNorm.rule :=
  RRNorm.mkRule (r_freq r) (r_interval r) (r_wkst r) (r_count r) (option_map until_raw (r_until r))
    (dy (r_dtstart r)) (dmo (r_dtstart r)) (dd (r_dtstart r)) (dh (r_dtstart r)) (dmi (r_dtstart r)) (ds (r_dtstart r))
    (r_bysetpos r) (r_bymonth r) (r_byyearday r) (r_byeaster r) (r_bymonthday r) (r_bynmonthday r)
    (r_byweekno r) (r_byweekday r) (r_bynweekday r) (r_byhour r) (r_byminute r) (r_bysecond r)
    (if 4 <=? r_freq r then None
     else Some (RRBase.sortZ (map (fun hms => let '(h, m, s) := hms in h * 3600 + m * 60 + s)
                                  (triples (olist (r_byhour r)) (olist (r_byminute r)) (olist (r_bysecond r)))))).

(* ---- the two developments wrote the same sorting functions ---- *)
Lemma insu_eq x : forall l, RRBase.insert_uniq x l = insu x l.
Proof. induction l as [|h t IH]; [reflexivity|]. cbn. rewrite IH. reflexivity. Qed.
Lemma sortu_eq : forall l, RRBase.sort_set l = sortu l.
Proof.
  unfold RRBase.sort_set, sortu. induction l as [|x l IH]; [reflexivity|]. cbn [fold_right]. rewrite IH. apply insu_eq.
Qed.
Lemma ins_eq x : forall l, RRBase.insertZ x l = ins x l.
Proof. induction l as [|h t IH]; [reflexivity|]. cbn. rewrite IH. reflexivity. Qed.
Lemma sort_eq : forall l, RRBase.sortZ l = sort l.
Proof.
  unfold RRBase.sortZ, sort. induction l as [|x l IH]; [reflexivity|]. cbn [fold_right]. rewrite IH. apply ins_eq.
Qed.
Lemma insp_eq x : forall l, RRBase.insert_uniq_pair x l = insp x l.
Proof. induction l as [|h t IH]; [reflexivity|]. cbn. rewrite IH. reflexivity. Qed.
Lemma sortp_eq : forall l, RRBase.sort_set_pair l = sortp l.
Proof.
  unfold RRBase.sort_set_pair, sortp. induction l as [|x l IH]; [reflexivity|]. cbn [fold_right]. rewrite IH. apply insp_eq.
Qed.

Lemma isplain_pair fq w : isplain fq w = ((snd (wd_pair w) =? 0) || (1 <? fq)).
Proof. unfold isplain, wd_pair. destruct (wn w); reflexivity. Qed.

Lemma split_weekday_eq fq : forall l,
  RRNorm.split_weekday fq (map wd_pair l) =
  (map wday (filter (isplain fq) l), map wd_pair (filter (fun w => negb (isplain fq w)) l)).
Proof.
  induction l as [|w l IH]; [reflexivity|]. cbn [map filter]. unfold RRNorm.split_weekday in *. cbn [fold_right].
  rewrite IH. cbn [fst snd]. change RRBase.MONTHLY with 1. rewrite (isplain_pair fq w).
  assert (E : wd_pair w = (wday w, snd (wd_pair w))) by reflexivity.
  rewrite E at 1. cbv beta iota. destruct ((snd (wd_pair w) =? 0) || (1 <? fq)); cbn [negb map]; [reflexivity|].
  rewrite <- E. reflexivity.
Qed.

Lemma setpos_eq l : negb (RRNorm.setpos_ok l) = existsb bad_setpos l.
Proof.
  induction l as [|p l IH]; [reflexivity|]. cbn [RRNorm.setpos_ok forallb existsb].
  fold (RRNorm.setpos_ok l). rewrite negb_andb, IH. unfold bad_setpos. f_equal.
  destruct (p =? 0), (-366 <=? p), (p <=? 366); reflexivity.
Qed.

Lemma construct_eq i s l b :
  RRNorm.construct_byset i s l b =
  match construct_byset i s l b with Some c => RRBase.Ok c | None => RRBase.Err RRBase.EValue end.
Proof. unfold RRNorm.construct_byset, construct_byset. cbv zeta. destruct (filter _ l); reflexivity. Qed.

(* one of the three time parts *)
Lemma sub_byset_norm fq this i s given base rh oh : sub_byset fq this i s given base = Ok (rh, oh) ->
  match given with
  | None => if fq <? this then RRBase.Ok (Some [s]) else RRBase.Ok None
  | Some l => if fq =? this then RRBase.bind (RRNorm.construct_byset i s l base) (fun c => RRBase.Ok (Some (RRBase.sort_set c)))
              else RRBase.Ok (Some (RRBase.sort_set l))
  end = RRBase.Ok rh.
Proof.
  unfold sub_byset. destruct given as [l|].
  - destruct (fq =? this).
    + rewrite construct_eq. destruct (construct_byset i s l base); [|discriminate].
      intro H. injection H as <- _. cbn. rewrite sortu_eq. reflexivity.
    + intro H. injection H as <- _. rewrite sortu_eq. reflexivity.
  - intro H. injection H as <- _. destruct (fq <? this); reflexivity.
Qed.

(* no datetime.time() fails: the product of the three lists is the time set *)
Lemma time_ok h m s : (0 <=? h) && (h <=? 23) = true -> (0 <=? m) && (m <=? 59) = true -> (0 <=? s) && (s <=? 59) = true ->
  RRNorm.mk_time h m s = RRBase.Ok (h * 3600 + m * 60 + s).
Proof. intros. unfold RRNorm.mk_time, RRBase.valid_hms. replace (_ && _) with true by lia. reflexivity. Qed.

Lemma map_res_all {A B} (f : A -> RRBase.res B) (g : A -> B) : forall l,
  (forall x, In x l -> f x = RRBase.Ok (g x)) -> RRNorm.map_res f l = RRBase.Ok (map g l).
Proof.
  induction l as [|x l IH]; intro H; [reflexivity|]. cbn [RRNorm.map_res map].
  rewrite (H x (or_introl eq_refl)). cbn [RRBase.bind]. rewrite IH by (intros y Hy; apply H; right; exact Hy). reflexivity.
Qed.

Lemma time_product_ok fq hs ms ss : bad_time fq hs ms ss = false -> fq <? 4 = true ->
  RRNorm.time_product hs ms ss =
  RRBase.Ok (map (fun hms => let '(h, m, s) := hms in h * 3600 + m * 60 + s) (triples hs ms ss)).
Proof.
  intros B F. unfold RRNorm.time_product. fold (triples hs ms ss). apply map_res_all.
  intros [[h m] s] Hin. unfold triples in Hin.
  apply in_flat_map in Hin as [h' [Hh Hin]]. apply in_flat_map in Hin as [m' [Hm Hin]].
  apply in_map_iff in Hin as [s' [E Hs]]. injection E as -> -> ->.
  unfold bad_time in B. rewrite F in B. cbn [andb] in B.
  destruct hs as [|h0 ht]; [contradiction|]. destruct ms as [|m0 mt]; [contradiction|]. destruct ss as [|s0 st]; [contradiction|].
  cbn [isnil negb andb] in B. apply orb_false_iff in B as [B Bs]. apply orb_false_iff in B as [Bh Bm].
  assert (G : forall lim l x, existsb (fun x => negb ((0 <=? x) && (x <=? lim))) l = false -> In x l ->
              (0 <=? x) && (x <=? lim) = true).
  { intros lim l x E I0. destruct ((0 <=? x) && (x <=? lim)) eqn:C; [reflexivity|].
    assert (T : existsb (fun x => negb ((0 <=? x) && (x <=? lim))) l = true)
      by (apply existsb_exists; exists x; split; [exact I0|rewrite C; reflexivity]).
    rewrite T in E. discriminate. }
  apply time_ok; [apply (G 23 _ _ Bh Hh)|apply (G 59 _ _ Bm Hm)|apply (G 59 _ _ Bs Hs)].
Qed.

(* ---- the bridge ---- *)
Lemma memZ_zero l : RRBase.memZ 0 l = existsb (fun x => x =? 0) l.
Proof. unfold RRBase.memZ. induction l as [|x l IH]; [reflexivity|]. cbn [existsb]. rewrite IH, Z.eqb_sym. reflexivity. Qed.

(* dd st <> 0: the start is a date (rr's model applies the BYMONTHDAY=0 test of 55654b4 also to the day
   taken from the start; real starts have a day >= 1) *)
Theorem ctor_is_normalize ev st kw r : ctor ev (Some st) kw = Ok r -> dd st <> 0 ->
  exists raw, raw_of ev st kw = Some raw /\ RRNorm.normalize raw = RRBase.Ok (rule_of r).
Proof.
  intros H Hd0. pose proof (ctor_zero_check ev st kw r H) as Hzc.
  destruct (ctor_inv ev st kw r H) as
    [fq [rm [om [ry [oy [re [oe [rp [rn [omd [rw [ow [rwd [rnwd [owd [rh [oh [rmi [omi [rs [os Hx]]]]]]]]]]]]]]]]]]]]].
  cbv zeta in Hx.
  destruct Hx as [Hf [Hu [Hs [Hm [Hy [He [Hmd [Hw [Hwd [Hh [Hmi [Hsec [Hb Hr]]]]]]]]]]]]].
  unfold raw_of. rewrite Hf. eexists. split; [reflexivity|].
  unfold RRNorm.normalize.
  cbn [RRNorm.r_freq RRNorm.r_isdate RRNorm.r_y RRNorm.r_m RRNorm.r_d RRNorm.r_H RRNorm.r_M RRNorm.r_S
       RRNorm.r_interval RRNorm.r_wkst RRNorm.r_count RRNorm.r_until RRNorm.r_tzmix RRNorm.r_bysetpos
       RRNorm.r_bymonth RRNorm.r_bymonthday RRNorm.r_byyearday RRNorm.r_byeaster RRNorm.r_byweekno
       RRNorm.r_byweekday RRNorm.r_byhour RRNorm.r_byminute RRNorm.r_bysecond].
  cbv zeta. cbv beta iota.
  (* until / tz mix *)
  assert (Hu' : negb (RRNorm.is_none (option_map until_raw (k_until kw))) &&
                match k_until kw with Some u => negb (Bool.eqb (aware st) (aware u)) | None => false end = false).
  { destruct (k_until kw); [|reflexivity]. cbn. exact Hu. }
  rewrite Hu'.
  (* bysetpos *)
  assert (Hs' : negb (match k_bysetpos kw with None => true | Some l => RRNorm.setpos_ok l end) = false).
  { destruct (k_bysetpos kw) as [l|]; [|reflexivity]. rewrite setpos_eq. exact Hs. }
  rewrite Hs'.
  assert (Nd : RRNorm.is_none (k_byweekno kw) && RRNorm.is_none (k_byyearday kw) && RRNorm.is_none (k_bymonthday kw) &&
               RRNorm.is_none (option_map (map wd_pair) (k_byweekday kw)) && RRNorm.is_none (k_byeaster kw) = nodayparts kw).
  { unfold nodayparts. destruct (k_byweekno kw), (k_byyearday kw), (k_bymonthday kw), (k_byweekday kw), (k_byeaster kw); reflexivity. }
  rewrite Nd. change RRBase.YEARLY with 0. change RRBase.MONTHLY with 1. change RRBase.WEEKLY with 2.
  change RRBase.HOURLY with 4. change RRBase.MINUTELY with 5. change RRBase.SECONDLY with 6.
  (* the three time parts *)
  cbn [dh dmi ds zero_us] in Hh, Hmi, Hsec.
  rewrite (sub_byset_norm _ _ _ _ _ _ _ _ Hh). cbn [RRBase.bind].
  rewrite (sub_byset_norm _ _ _ _ _ _ _ _ Hmi). cbn [RRBase.bind].
  rewrite (sub_byset_norm _ _ _ _ _ _ _ _ Hsec). cbn [RRBase.bind].
  (* the day parts *)
  assert (Em : option_map RRBase.sort_set
                 (if nodayparts kw && (fq =? 0) && RRNorm.is_none (k_bymonth kw) then Some [dmo st] else k_bymonth kw) = rm).
  { unfold c_month in Hm. cbn [dmo zero_us] in Hm.
    replace (RRNorm.is_none (k_bymonth kw)) with (isNone (k_bymonth kw)) by (destruct (k_bymonth kw); reflexivity).
    destruct (nodayparts kw && (fq =? 0) && isNone (k_bymonth kw)).
    - injection Hm as <- _. reflexivity.
    - destruct (k_bymonth kw) as [l|]; injection Hm as <- _; [cbn; rewrite sortu_eq|]; reflexivity. }
  assert (Ey : option_map RRBase.sort_set (k_byyearday kw) = ry).
  { unfold c_sortu in Hy. destruct (k_byyearday kw) as [l|]; injection Hy as <- _; [cbn; rewrite sortu_eq|]; reflexivity. }
  assert (Ee : option_map RRBase.sortZ (k_byeaster kw) = re).
  { unfold c_sort in He. destruct (k_byeaster kw) as [l|]; injection He as <- _; [cbn; rewrite sort_eq|]; reflexivity. }
  assert (Ewn : option_map RRBase.sort_set (k_byweekno kw) = rw).
  { unfold c_sortu in Hw. destruct (k_byweekno kw) as [l|]; injection Hw as <- _; [cbn; rewrite sortu_eq|]; reflexivity. }
  assert (Emd : let md := RRBase.sort_set (RRNorm.opt_list
                   (if nodayparts kw && ((fq =? 0) || (fq =? 1)) then Some [dd st] else k_bymonthday kw)) in
                (filter (fun x => 0 <? x) md, filter (fun x => x <? 0) md) = (rp, rn)).
  { unfold c_mday in Hmd. cbn [dd zero_us] in Hmd. cbv zeta.
    replace (nodayparts kw && (fq =? 0) || nodayparts kw && (fq =? 1)) with (nodayparts kw && ((fq =? 0) || (fq =? 1))) in Hmd
      by (destruct (nodayparts kw), (fq =? 0), (fq =? 1); reflexivity).
    destruct (nodayparts kw && ((fq =? 0) || (fq =? 1))).
    - injection Hmd as <- <- _. cbn [RRNorm.opt_list]. rewrite sortu_eq. reflexivity.
    - destruct (k_bymonthday kw) as [l|]; injection Hmd as <- <- _; cbn [RRNorm.opt_list]; [rewrite sortu_eq|]; reflexivity. }
  cbv zeta in Emd. injection Emd as Ep En.
  rewrite Em, Ey, Ee, Ewn, Ep, En.
  (* byweekday *)
  match goal with |- (let '(a, b) := ?X in _) = _ => assert (Ewd : X = (rwd, rnwd)) end.
  { unfold c_wday in Hwd. cbn [dy dmo dd zero_us] in Hwd.
    assert (G : forall l : list wd,
      (let '(plain, nth) := RRNorm.split_weekday fq (map wd_pair l) in
       if negb (RRNorm.nonempty (RRBase.sort_set plain)) then (None, Some (RRBase.sort_set_pair nth))
       else if negb (RRNorm.nonempty (RRBase.sort_set_pair nth)) then (Some (RRBase.sort_set plain), None)
            else (Some (RRBase.sort_set plain), Some (RRBase.sort_set_pair nth))) =
      (match sortu (map wday (filter (isplain fq) l)) with [] => None | _ => Some (sortu (map wday (filter (isplain fq) l))) end,
       match sortu (map wday (filter (isplain fq) l)) with
       | [] => Some (sortp (map wd_pair (filter (fun w => negb (isplain fq w)) l)))
       | _ => match sortp (map wd_pair (filter (fun w => negb (isplain fq w)) l)) with
              | [] => None | _ => Some (sortp (map wd_pair (filter (fun w => negb (isplain fq w)) l))) end
       end)).
    { intro l. rewrite split_weekday_eq. cbv beta iota. rewrite sortu_eq, sortp_eq.
      destruct (sortu _) as [|p0 pt]; [reflexivity|]. cbn [RRNorm.nonempty negb].
      destruct (sortp _); reflexivity. }
    destruct (nodayparts kw && (fq =? 2)).
    - change [(Cal.weekday (dy st) (dmo st) (dd st), 0)] with (map wd_pair [mkwd (Cal.weekday (dy st) (dmo st) (dd st)) None]).
      rewrite G. injection Hwd as <- <- _. reflexivity.
    - destruct (k_byweekday kw) as [l|]; cbn [option_map].
      + rewrite G. injection Hwd as <- <- _. reflexivity.
      + injection Hwd as <- <- _. reflexivity. }
  rewrite Ewd. cbv beta iota.
  (* BYMONTHDAY = 0 *)
  assert (Ez : RRBase.memZ 0 (RRNorm.opt_list (if nodayparts kw && ((fq =? 0) || (fq =? 1)) then Some [dd st]
                                                  else k_bymonthday kw)) = false).
  { rewrite memZ_zero. destruct (nodayparts kw && ((fq =? 0) || (fq =? 1))).
    - cbn. replace (dd st =? 0) with false by lia. reflexivity.
    - destruct (k_bymonthday kw); [exact Hzc|reflexivity]. }
  rewrite Ez. cbn [RRBase.bind].
  (* the time set *)
  subst r. unfold rule_of.
  cbn [r_freq r_interval r_wkst r_count r_until r_dtstart r_bysetpos r_bymonth r_byyearday r_byeaster r_bymonthday
       r_bynmonthday r_byweekno r_byweekday r_bynweekday r_byhour r_byminute r_bysecond dy dmo dd dh dmi ds zero_us].
  destruct (4 <=? fq) eqn:F4; cbn [RRBase.bind].
  - reflexivity.
  - assert (F : fq <? 4 = true) by lia.
    replace (RRNorm.opt_list rh) with (olist rh) by (destruct rh; reflexivity).
    replace (RRNorm.opt_list rmi) with (olist rmi) by (destruct rmi; reflexivity).
    replace (RRNorm.opt_list rs) with (olist rs) by (destruct rs; reflexivity).
    rewrite (time_product_ok fq _ _ _ Hb F). reflexivity.
Qed.

(* equal rstr rule state => equal RRNorm rule => equal occurrences of C01's iteration function *)
Corollary same_state_same_occurrences ev st kw st' kw' r :
  ctor ev (Some st) kw = Ok r -> ctor ev (Some st') kw' = Ok r -> dd st <> 0 -> dd st' <> 0 ->
  exists raw raw' rl rl',
    raw_of ev st kw = Some raw /\ raw_of ev st' kw' = Some raw' /\
    RRNorm.normalize raw = RRBase.Ok rl /\ RRNorm.normalize raw' = RRBase.Ok rl' /\ rl = rl' /\
    forall (A : Type) (iterate : RRNorm.rule -> A), iterate rl = iterate rl'.
Proof.
  intros H H' D D'. destruct (ctor_is_normalize ev st kw r H D) as [raw [E N]].
  destruct (ctor_is_normalize ev st' kw' r H' D') as [raw' [E' N']].
  exists raw, raw', (rule_of r), (rule_of r). repeat split; assumption.
Qed.

(* the round trip in C01's model: the rule built from (st, kw), and the rule rrulestr(str(rule)) returns --
   state r2, built by the constructor from the start and the recorded arguments written by __str__
   (str_roundtrip_text) -- normalise to the same RRNorm rule, so every function of that rule -- C01's iteration function RRIter.iterate rl limit fuel, which C01's
   headline theorems equate with the specification's sequence on their domain -- yields the same for both *)
Theorem str_roundtrip_occurrences ev o st kw r :
  ctor ev (Some st) kw = Ok r -> 0 <= e_fwd ev <= 6 -> (e_fwd ev = 0 \/ r_wkst r <> 0) ->
  wf_args kw = true -> wf_start_kw st kw = true ->
  o_forceset o = false -> o_compatible o = false -> o_ignoretz o = false -> o_unfold o = false ->
  exists r2 raw raw2 rl rl2,
    parse_rfc ev o (to_str r) = RRule (o_cache o) r2 /\
    raw_of ev st kw = Some raw /\ raw_of ev (r_dtstart r) (kw_of_rule r) = Some raw2 /\
    ctor ev (Some (r_dtstart r)) (kw_of_rule r) = Ok r2 /\
    RRNorm.normalize raw = RRBase.Ok rl /\ RRNorm.normalize raw2 = RRBase.Ok rl2 /\
    rl = rule_of r /\ rl2 = rule_of r2 /\
    forall (A : Type) (iterate : RRNorm.rule -> A), iterate rl = iterate rl2.
Proof.
  intros H Hr Hf Ha Hw Ho1 Ho2 Ho3 Ho4.
  pose proof (str_roundtrip_args ev o st kw r H Hr Hf Ha Hw Ho1 Ho2 Ho3 Ho4) as P.
  pose proof (ctor_idem ev st kw r H Hf Ha) as H'.
  assert (D : dd st <> 0).
  { unfold wf_start_kw in Hw. do 5 (apply andb_true_iff in Hw as [Hw ?]).
    match goal with V : valid_dt st = true |- _ => destruct (RstrThmDate.valid_dt_bounds st V) as [_ [_ [_ [? _]]]] end. lia. }
  assert (D' : dd (r_dtstart r) <> 0).
  { destruct (ctor_inv ev st kw r H) as
      [fq [rm [om [ry [oy [re [oe [rp [rn [omd [rw [ow [rwd [rnwd [owd [rh [oh [rmi [omi [rs [os Hx]]]]]]]]]]]]]]]]]]]]].
    cbv zeta in Hx. destruct Hx as [_ [_ [_ [_ [_ [_ [_ [_ [_ [_ [_ [_ [_ Hrr]]]]]]]]]]]]]. subst r. exact D. }
  destruct (ctor_is_normalize ev st kw r H D) as [raw [E N]].
  destruct (ctor_is_normalize ev _ _ r H' D') as [raw' [E' N']].
  exists r, raw, raw', (rule_of r), (rule_of r). repeat split; assumption.
Qed.

(* non-vacuity: WEEKLY, interval 2, wkst SU, BYDAY TU,TH, count 5, from 1997-09-02 09:00 *)
Example bridge_example :
  let ev := mkenv 0 (mkdt 2000 1 1 0 0 0 0 0) in
  let st := mkdt 1997 9 2 9 0 0 0 0 in
  let kw := mkkw (Some 2) (Some 2) (Some 6) (Some 5) None None None None None None None
                 (Some [mkwd 1 None; mkwd 3 None]) None None None in
  exists r raw rl, ctor ev (Some st) kw = Ok r /\ raw_of ev st kw = Some raw /\
    RRNorm.normalize raw = RRBase.Ok rl /\ rl = rule_of r /\
    RRNorm.byweekday rl = Some [1; 3] /\ RRNorm.wkst rl = 6 /\ RRNorm.timeset rl = Some [32400].
Proof.
  cbv zeta. eexists. eexists. eexists. split; [vm_compute; reflexivity|]. split; [vm_compute; reflexivity|].
  split; [vm_compute; reflexivity|]. split; [vm_compute; reflexivity|]. vm_compute. repeat split; reflexivity.
Qed.
