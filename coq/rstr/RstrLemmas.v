(* Lemmas about the string primitives: split / join, upper, int printing and parsing. *)
From Coq Require Import ZArith List Bool Lia ZifyBool.
From V Require Import rstr.RstrPrim.
Import ListNotations.
Open Scope Z_scope.

Lemma leqb_eq a : forall b, leqb a b = true <-> a = b.
Proof.
  induction a as [|x a IH]; intros [|y b]; cbn; split; intro H; try discriminate; try reflexivity.
  - apply andb_true_iff in H as [H1 H2]. apply Z.eqb_eq in H1. apply IH in H2. congruence.
  - inversion H; subst. rewrite Z.eqb_refl. cbn. apply IH. reflexivity.
Qed.

Lemma leqb_refl a : leqb a a = true.
Proof. apply leqb_eq. reflexivity. Qed.

(* ---- has_char ---- *)
Lemma has_char_app c a b : has_char c (a ++ b) = has_char c a || has_char c b.
Proof. unfold has_char. apply existsb_app. Qed.

Lemma has_char_false c s : Forall (fun x => x <> c) s -> has_char c s = false.
Proof.
  unfold has_char. induction 1 as [|x s Hx _ IH]; cbn; [reflexivity|].
  rewrite IH. destruct (Z.eqb_spec x c); [contradiction|reflexivity].
Qed.

Lemma has_char_cons c x s : has_char c (x :: s) = (x =? c) || has_char c s.
Proof. reflexivity. Qed.

(* ---- split_on ---- *)
Lemma split_on_nosep c s : has_char c s = false -> split_on c s = [s].
Proof.
  induction s as [|x s IH]; cbn; [reflexivity|].
  intro H. apply orb_false_iff in H as [H1 H2]. rewrite H1. rewrite (IH H2). reflexivity.
Qed.

Lemma split_on_app c a b : has_char c a = false -> split_on c (a ++ c :: b) = a :: split_on c b.
Proof.
  induction a as [|x a IH]; cbn.
  - intros _. rewrite Z.eqb_refl. reflexivity.
  - intro H. apply orb_false_iff in H as [H1 H2]. rewrite H1. rewrite (IH H2). reflexivity.
Qed.

Lemma split_join c l : l <> [] -> Forall (fun s => has_char c s = false) l ->
  split_on c (join [c] l) = l.
Proof.
  induction l as [|x l IH]; [congruence|]. intros _ H. inversion H as [|? ? Hx Hl]; subst.
  destruct l as [|y l'].
  - cbn. apply split_on_nosep. exact Hx.
  - change (join [c] (x :: y :: l')) with (x ++ [c] ++ join [c] (y :: l')).
    cbn [app]. rewrite split_on_app by exact Hx. rewrite IH; [reflexivity|discriminate|exact Hl].
Qed.

Lemma split1_app c a b : has_char c a = false -> split1 c (a ++ c :: b) = Some (a, b).
Proof.
  induction a as [|x a IH]; cbn.
  - intros _. rewrite Z.eqb_refl. reflexivity.
  - intro H. apply orb_false_iff in H as [H1 H2]. rewrite H1. rewrite (IH H2). reflexivity.
Qed.

Lemma split1_none c s : has_char c s = false -> split1 c s = None.
Proof.
  induction s as [|x s IH]; cbn; [reflexivity|].
  intro H. apply orb_false_iff in H as [H1 H2]. rewrite H1. rewrite (IH H2). reflexivity.
Qed.

(* ---- upper ---- *)
Lemma upper_id s : Forall (fun c => is_lower c = false) s -> upper s = s.
Proof.
  unfold upper. induction 1 as [|x s Hx _ IH]; cbn [map]; [reflexivity|].
  rewrite IH. unfold upc. rewrite Hx. reflexivity.
Qed.

Lemma upper_app a b : upper (a ++ b) = upper a ++ upper b.
Proof. apply map_app. Qed.

Lemma upc_idem c : upc (upc c) = upc c.
Proof.
  unfold upc, is_lower. destruct ((97 <=? c) && (c <=? 122)) eqn:E.
  - replace ((97 <=? c - 32) && (c - 32 <=? 122)) with false; [reflexivity|].
    symmetry. apply andb_false_iff. apply andb_true_iff in E as [E1 E2]. left. lia.
  - rewrite E. reflexivity.
Qed.

Lemma upper_idem s : upper (upper s) = upper s.
Proof. unfold upper. rewrite map_map. apply map_ext. intro; apply upc_idem. Qed.

(* ---- the alphabet of value atoms: digits, upper-case letters, '+', '-' ---- *)
Definition atomc (c : Z) : bool := is_digit c || is_upper c || (c =? 43) || (c =? 45).

Lemma atomc_not c x : atomc c = true ->
  In x [59; 61; 44; 58; 40; 41; 10; 13; 32; 9; 95] -> c <> x.
Proof.
  unfold atomc, is_digit, is_upper. intros H Hin.
  cbn in Hin. lia.
Qed.

Lemma atomc_not_lower c : atomc c = true -> is_lower c = false.
Proof. unfold atomc, is_digit, is_upper, is_lower. lia. Qed.

Lemma atomc_not_space c : atomc c = true -> is_space c = false.
Proof. unfold atomc, is_digit, is_upper, is_space. lia. Qed.

Lemma atoms_no_char x s : Forall (fun c => atomc c = true) s ->
  In x [59; 61; 44; 58; 40; 41; 10; 13; 32; 9; 95] -> has_char x s = false.
Proof.
  intros H Hin. apply has_char_false. eapply Forall_impl; [|exact H].
  intros c Hc. cbn beta in Hc. apply atomc_not; assumption.
Qed.

Lemma atoms_upper s : Forall (fun c => atomc c = true) s -> upper s = s.
Proof.
  intro H. apply upper_id. eapply Forall_impl; [|exact H]. intros c Hc. apply atomc_not_lower, Hc.
Qed.

(* ---- decimal digits ---- *)
Lemma digs_atoms f : forall n, 0 <= n -> Forall (fun c => is_digit c = true) (digs f n).
Proof.
  induction f as [|f IH]; intros n Hn; cbn [digs]; [constructor|].
  destruct (n <? 10) eqn:E.
  - constructor; [|constructor]. unfold is_digit. lia.
  - apply Forall_app. split.
    + apply IH. apply Z.div_pos; lia.
    + constructor; [|constructor]. unfold is_digit.
      pose proof (Z.mod_pos_bound n 10). lia.
Qed.

Lemma nat_digits_digits n : Forall (fun c => is_digit c = true) (nat_digits n).
Proof.
  destruct n; cbn; try (constructor; [reflexivity|constructor]).
  apply digs_atoms. lia.
Qed.

Lemma nat_digits_nonempty n : nat_digits n <> [].
Proof.
  destruct n as [|p|p]; cbn; try discriminate.
  destruct (Pos.size_nat p) eqn:E; [destruct p; discriminate|].
  cbn. destruct (Z.pos p <? 10); [discriminate|].
  intro H. apply app_eq_nil in H as [_ H]. discriminate.
Qed.

(* int_body over a run of digits *)
Lemma int_body_digit acc b c r : is_digit c = true ->
  int_body acc b (c :: r) = int_body (acc * 10 + (c - 48)) true r.
Proof. intro H. cbn. rewrite H. reflexivity. Qed.

Lemma int_body_digs f : forall n acc b rest, 1 <= n < 2 ^ Z.of_nat f ->
  exists k, 0 <= k /\ int_body acc b (digs f n ++ rest) = int_body (acc * 10 ^ k + n) true rest.
Proof.
  induction f as [|f IH]; intros n acc b rest Hn.
  - cbn in Hn. lia.
  - cbn [digs]. destruct (n <? 10) eqn:E.
    + exists 1. split; [lia|]. cbn [app]. rewrite int_body_digit by (unfold is_digit; lia).
      f_equal; lia.
    + assert (Hd : 1 <= n / 10 < 2 ^ Z.of_nat f).
      { rewrite Nat2Z.inj_succ, Z.pow_succ_r in Hn by lia.
        split; [apply Z.div_le_lower_bound; lia|apply Z.div_lt_upper_bound; lia]. }
      destruct (IH (n / 10) acc b ((48 + n mod 10) :: rest) Hd) as [k [Hk Hk2]].
      exists (k + 1). split; [lia|].
      rewrite <- app_assoc. cbn [app]. rewrite Hk2.
      pose proof (Z.mod_pos_bound n 10).
      rewrite int_body_digit by (unfold is_digit; lia).
      f_equal. rewrite Z.pow_add_r by lia. pose proof (Z.div_mod n 10). lia.
Qed.

Lemma pos_lt_pow2_size p : Z.pos p < 2 ^ Z.of_nat (Pos.size_nat p).
Proof.
  induction p; cbn [Pos.size_nat]; rewrite ?Nat2Z.inj_succ, ?Z.pow_succ_r by lia.
  - rewrite Pos2Z.inj_xI. lia.
  - rewrite Pos2Z.inj_xO. lia.
  - cbn. lia.
Qed.

Lemma int_body_nat_digits n acc b rest : 0 <= n ->
  exists k, 0 <= k /\ int_body acc b (nat_digits n ++ rest) = int_body (acc * 10 ^ k + n) true rest.
Proof.
  intro Hn. destruct n as [|p|p]; [| |lia].
  - exists 1. split; [lia|]. cbn [nat_digits app]. rewrite int_body_digit by reflexivity. f_equal; lia.
  - cbn [nat_digits]. apply int_body_digs. split; [lia|].
    apply pos_lt_pow2_size.
Qed.
