(* compatible=True (forces unfold and forceset, adds the start to the rdates) at text level. *)
From Coq Require Import ZArith List Bool Lia ZifyBool.
From V Require Import base.Cal rstr.RstrPrim rstr.RstrLemmas rstr.RstrModel rstr.RstrSpec
  rstr.RstrThmTop rstr.RstrThmSet rstr.RstrThmFold.
Import ListNotations.
Open Scope Z_scope.

Lemma fold_line_nil s : forall i, fold_line [] i s = s.
Proof. induction s as [|c s IH]; intro i; [reflexivity|]. cbn [fold_line mem_nat andb app]. rewrite IH. reflexivity. Qed.

Lemma unfold_plain_lines ls : Forall okseg ls -> get_lines true (join [10] ls) = ls.
Proof.
  intro H. rewrite <- (unfold_fold_lines [] ls H) at 2.
  rewrite (map_ext (fold_line [] 0) (fun s => s)) by (intro; apply fold_line_nil). rewrite map_id. reflexivity.
Qed.

(* with unfold (or compatible): a multi-line text yields the set of its members; compatible adds
   the start as an rdate; a single rule line becomes a one-rule set *)
Theorem set_assembly_unfold ev o short its rr xr :
  its <> [] -> forallb wf_item its = true -> o_ignoretz o = false ->
  (o_unfold o || o_compatible o) = true ->
  (o_forceset o || o_compatible o || (1 <? Z.of_nat (List.length (rules_of its))) || negb (isnil (rdates_of its))
   || negb (isnil (exrules_of its)) || negb (isnil (exdates_of its))) = true ->
  parse_rules ev false (start_of its (o_dtstart o)) (rules_of its) = Ok rr ->
  parse_rules ev false (start_of its (o_dtstart o)) (exrules_of its) = Ok xr ->
  parse_rfc ev o (join [10] (map (render_item short) its)) =
  RSet (o_cache o) rr
       (concat (rdates_of its) ++
        (if o_compatible o then match start_of its (o_dtstart o) with Some d => [d] | None => [] end else []))
       xr (exdates_of its).
Proof.
  intros Hne Hw Hi Hu Hset Hrr Hxr.
  set (ls := map (render_item short) its).
  assert (Hls : Forall (fun l => Forall (fun c => linec c = true) l /\ l <> []) ls).
  { unfold ls. apply Forall_forall. intros l Hl. apply in_map_iff in Hl as [it [<- Hit]].
    apply render_item_line. rewrite forallb_forall in Hw. apply Hw, Hit. }
  assert (Ht : Forall (fun c => txtc c = true) (join [10] ls)).
  { apply join_lines_chars. eapply Forall_impl; [|exact Hls]. intros l [H _]. exact H. }
  assert (Hlu : map upper ls = ls).
  { apply lines_upper. eapply Forall_impl; [|exact Hls]. intros l [H _]. exact H. }
  unfold parse_rfc. rewrite (txt_ascii _ Ht). cbn [negb].
  assert (Hok : Forall okseg ls).
  { eapply Forall_impl; [|exact Hls]. intros l [H1 H2]. split; [exact H2|apply linec_nosp, H1]. }
  assert (Hstrip : isnil (strip (join [10] ls)) = false).
  { destruct ls as [|l ls'] eqn:E; [unfold ls in E; destruct its; [congruence|discriminate]|].
    inversion Hls as [|? ? [Hl1 Hl2] _]; subst.
    destruct ls' as [|l2 ls2].
    - cbn [join]. rewrite <- (app_nil_r l). apply strip_nonnil_app; [exact Hl2|apply linec_nosp, Hl1].
    - change (join [10] (l :: l2 :: ls2)) with (l ++ 10 :: join [10] (l2 :: ls2)).
      apply strip_nonnil_app; [exact Hl2|apply linec_nosp, Hl1]. }
  rewrite Hstrip. rewrite Hu. rewrite (unfold_plain_lines ls Hok). rewrite Hlu, (txt_upper _ Ht).
  unfold parse_lines.
  assert (Hsc : shortcut (o_forceset o || o_compatible o) (join [10] ls) ls = false).
  { unfold shortcut. destruct (o_forceset o || o_compatible o) eqn:Ef; [reflexivity|]. cbn [negb andb].
    try rewrite Ef in Hset. cbn [orb] in Hset.
    destruct its as [|it [|it2 its']]; [congruence| |].
    - unfold ls. cbn [map List.length Z.of_nat Pos.of_succ_nat Z.eqb Pos.eqb andb join].
      destruct it as [v|v|ds|ds|d]; cbn in Hset; try discriminate; cbn [render_item];
        rewrite has_char_app; cbn [has_char existsb Z.eqb Pos.eqb orb negb];
        rewrite ?orb_true_r; reflexivity.
    - unfold ls. cbn [map List.length]. rewrite !Nat2Z.inj_succ.
      replace (Z.succ (Z.succ (Z.of_nat (List.length (map (render_item short) its')))) =? 1) with false by lia.
      reflexivity. }
  rewrite Hsc.
  apply (set_assembly ev o (tzid_findall (join [10] ls)) short its rr xr Hw Hi); assumption.
Qed.
