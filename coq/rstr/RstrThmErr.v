(* Error classes of the rrulestr model: unknown / malformed parts give ValueError; the only other
   classes are TypeError (no FREQ part) and IndexError (no RRULE line) -- findings F-C13-a/b. *)
From Coq Require Import String ZArith List Bool Lia ZifyBool.
From V Require Import base.Cal rstr.RstrPrim rstr.RstrLemmas rstr.RstrModel rstr.RstrSpec.
Import ListNotations.
Open Scope Z_scope.

Definition known_names : list str :=
  [s_INTERVAL; s_COUNT; s_FREQ; s_UNTIL; s_WKST; s_BYWEEKDAY; s_BYDAY] ++ list_names.

Definition known (name : str) : bool := existsb (fun n => leqb name n) known_names.

(* _handle_<name> does not exist: AttributeError; caught in _parse_rfc_rrule -> ValueError *)
Definition catch_pair {A} (r : res A) : res A := catch (catch r [EAttr] EValue) [EKey; EValue] EValue.

Theorem unknown_part_attributeerror ig name value kw : known name = false -> handle ig name value kw = Err EAttr.
Proof.
  unfold known, known_names. cbn [app existsb list_names]. intro H.
  repeat (apply orb_false_iff in H as [? H]).
  unfold handle.
  repeat match goal with E : leqb name ?s = false |- context [leqb name ?s] => rewrite E end.
  cbn [orb list_index list_names].
  repeat match goal with E : leqb name ?s = false |- context [leqb name ?s] => rewrite E end.
  reflexivity.
Qed.

Theorem unknown_part_valueerror ig name value kw : known name = false ->
  catch_pair (handle ig name value kw) = Err EValue.
Proof. intro H. rewrite (unknown_part_attributeerror ig name value kw H). reflexivity. Qed.

Definition ev_or_unmodelled (e : err) : Prop := e = EValue \/ e = EUnmodelled.
(* the classes a handler can raise: exactly those _parse_rfc_rrule catches (or the input left the model) *)
Definition handler_class (e : err) : Prop := e = EValue \/ e = EKey \/ e = EAttr \/ e = EUnmodelled.

Lemma split_on_two c : forall x, has_char c x = true -> exists w a t, split_on c x = w :: a :: t.
Proof.
  induction x as [|y r IH]; [discriminate|]. cbn [has_char existsb split_on]. destruct (y =? c) eqn:E.
  - intros _. destruct r as [|z r']; cbn [split_on]; [do 3 eexists; reflexivity|].
    destruct (z =? c); [do 3 eexists; reflexivity|].
    destruct (split_on c r'); do 3 eexists; reflexivity.
  - cbn [orb]. intro H. destruct (IH H) as [w [a [t Hs]]]. fold (has_char c r) in H. rewrite Hs.
    do 3 eexists. reflexivity.
Qed.

Lemma mk_wd_class_vk w n e : mk_wd_class w n = Some e -> e = EValue \/ e = EKey.
Proof.
  unfold mk_wd_class. destruct (wday_of w); [|intro H; inversion H; auto].
  destruct n as [[| |]|]; intro H; inversion H; auto.
Qed.

Lemma parse_wd_class_vk x e : parse_wd_class x = Some e -> e = EValue \/ e = EKey.
Proof.
  unfold parse_wd_class. destruct (has_char 40 x) eqn:Hc.
  - destruct (split_on_two 40 x Hc) as [w [a [t ->]]].
    destruct (py_int (removelast a)); [apply mk_wd_class_vk|intro H; inversion H; auto].
  - destruct (isnil x); [intro H; inversion H; auto|]. cbv zeta.
    destruct (isnil (if isnil (snd (span is_signdigit x)) then removelast x else fst (span is_signdigit x)));
      [apply mk_wd_class_vk|].
    destruct (py_int _); [apply mk_wd_class_vk|intro H; inversion H; auto].
Qed.

Lemma first_class_vk : forall l, first_class l = EValue \/ first_class l = EKey.
Proof.
  induction l as [|x l IH]; [left; reflexivity|]. cbn [first_class].
  destruct (parse_wd_class x) eqn:E; [apply (parse_wd_class_vk _ _ E)|exact IH].
Qed.

Lemma handle_err ig name value kw e : handle ig name value kw = Err e -> handler_class e.
Proof.
  unfold handle, handler_class.
  destruct (leqb name s_INTERVAL); [destruct (py_int value); intro H; inversion H; auto|].
  destruct (leqb name s_COUNT); [destruct (py_int value); intro H; inversion H; auto|].
  destruct (leqb name s_FREQ); [destruct (freq_of value); intro H; inversion H; auto|].
  destruct (leqb name s_UNTIL); [destruct (parse_date ig value); intro H; inversion H; auto|].
  destruct (leqb name s_WKST); [destruct (wday_of value); intro H; inversion H; auto|].
  destruct (leqb name s_BYWEEKDAY || leqb name s_BYDAY).
  { destruct (wd_list value); intro H; inversion H.
    unfold wd_list_class. destruct (first_class_vk (split_on 44 value)) as [-> | ->]; auto. }
  destruct (list_index name list_names 0); [destruct (int_list value)|]; intro H; inversion H; auto.
Qed.

Lemma catch_pair_err {A} (r : res A) e : (forall e', r = Err e' -> handler_class e') ->
  catch_pair r = Err e -> ev_or_unmodelled e.
Proof.
  intros Hc. destruct r as [a|e']; [discriminate|].
  destruct (Hc e' eq_refl) as [-> | [-> | [-> | ->]]]; cbn; intro H; inversion H; subst;
    [left|left|left|right]; reflexivity.
Qed.

(* a pair that does not split into name=value, or whose name is unknown: ValueError; no rule part
   ever produces another class than ValueError (or leaves the modelled date forms): every class a
   handler raises is one of those the two except clauses of _parse_rfc_rrule turn into ValueError *)
Theorem handle_pairs_err ig : forall ps kw e, handle_pairs ig ps kw = Err e -> ev_or_unmodelled e.
Proof.
  induction ps as [|p ps IH]; intros kw e H; [discriminate|].
  cbn [handle_pairs] in H.
  destruct (split_on 61 p) as [|a [|b [|c t]]]; try (inversion H; left; reflexivity).
  fold (catch_pair (handle ig (upper a) (upper b) kw)) in H.
  destruct (catch_pair (handle ig (upper a) (upper b) kw)) as [kw'|e'] eqn:E.
  - apply (IH kw' e H).
  - inversion H; subst. apply (catch_pair_err _ _ (handle_err ig (upper a) (upper b) kw) E).
Qed.

Lemma catch_pair_ok {A} (r : res A) a : catch_pair r = Ok a -> r = Ok a.
Proof.
  destruct r as [x|e]; [intro H; exact H|]. unfold catch_pair, catch.
  destruct e; cbn; discriminate.
Qed.

Theorem handle_pairs_ok_known ig : forall ps kw kw', handle_pairs ig ps kw = Ok kw' ->
  Forall (fun p => exists name value, split_on 61 p = [name; value] /\ known (upper name) = true) ps.
Proof.
  induction ps as [|p ps IH]; intros kw kw' H; [constructor|].
  cbn [handle_pairs] in H.
  destruct (split_on 61 p) as [|a [|b [|c t]]] eqn:Es; try discriminate.
  fold (catch_pair (handle ig (upper a) (upper b) kw)) in H.
  destruct (catch_pair (handle ig (upper a) (upper b) kw)) as [k1|e'] eqn:E; [|discriminate].
  constructor; [|apply (IH k1 kw' H)].
  exists a, b. split; [exact Es|].
  destruct (known (upper a)) eqn:K; [reflexivity|].
  rewrite (unknown_part_valueerror ig _ _ _ K) in E. discriminate.
Qed.

Theorem parse_rrule_kw_err ig line e : parse_rrule_kw ig line = Err e -> ev_or_unmodelled e.
Proof.
  unfold parse_rrule_kw, rrule_value.
  destruct (has_char 58 line).
  - destruct (split_on 58 line) as [|a [|b [|c t]]]; try (intro H; inversion H; left; reflexivity).
    destruct (leqb a s_RRULE); [apply handle_pairs_err|intro H; inversion H; left; reflexivity].
  - apply handle_pairs_err.
Qed.

Lemma sub_byset_err fq this i s k b e : sub_byset fq this i s k b = Err e -> e = EValue.
Proof.
  unfold sub_byset. destruct k; [|discriminate]. destruct (fq =? this); [|discriminate].
  destruct (construct_byset i s l b); [discriminate|]. intro H; inversion H; reflexivity.
Qed.

Lemma first_some_time_class : forall (l : list (option err)), match first_some l with Some e => In (@Some err e) l | None => True end.
Proof.
  induction l as [|[x|] l IH]; cbn [first_some]; [exact I|left; reflexivity|].
  destruct (first_some l); [right; exact IH|exact I].
Qed.

Lemma timeset_class_vo hs ms ss : timeset_class hs ms ss = EValue \/ timeset_class hs ms ss = EOverflow.
Proof.
  unfold timeset_class.
  pose proof (first_some_time_class (flat_map (fun h => flat_map (fun m => map (fun s => time_class h m s) ss) ms) hs)) as F.
  destruct (first_some _) as [e|]; [|left; reflexivity].
  apply in_flat_map in F as [h [_ F]]. apply in_flat_map in F as [m [_ F]]. apply in_map_iff in F as [s0 [F _]].
  unfold time_class in F. destruct (huge_int h || huge_int m || huge_int s0); [inversion F; right; reflexivity|].
  destruct (_ && _); inversion F. left; reflexivity.
Qed.

(* the constructor: TypeError exactly when freq is missing, otherwise ValueError, or OverflowError
   from datetime.time() for an hour / minute / second beyond 32 bits *)
Theorem ctor_err ev st kw e : ctor ev st kw = Err e ->
  (e = EType /\ k_freq kw = None) \/ ((e = EValue \/ e = EOverflow) /\ k_freq kw <> None).
Proof.
  unfold ctor. destruct (k_freq kw) as [fq|]; [|intro H; inversion H; left; split; reflexivity].
  cbv zeta. intro H. right. split; [|discriminate].
  repeat match type of H with
  | (if bad_time _ _ _ _ then _ else _) = _ => destruct (bad_time _ _ _ _); [inversion H; apply timeset_class_vo|]
  | (if ?b then _ else _) = _ => destruct b; [inversion H; left; reflexivity|]
  | (let '(_, _) := ?x in _) = _ => destruct x
  | (match sub_byset ?a ?b ?c ?d ?k ?f with _ => _ end) = _ =>
      let E := fresh "E" in destruct (sub_byset a b c d k f) as [[? ?]|?] eqn:E;
      [|apply sub_byset_err in E; inversion H; subst; left; reflexivity]
  end.
  discriminate.
Qed.

(* a rule line never fails with another class than ValueError: a missing FREQ part is caught before
   the constructor is called ("missing FREQ"), the constructor's OverflowError by the except clause *)
Theorem parse_rule_err ev ig line st e : parse_rule ev ig line st = Err e -> ev_or_unmodelled e.
Proof.
  unfold parse_rule. destruct (parse_rrule_kw ig line) as [kw|e'] eqn:E.
  - destruct (isNone (k_freq kw)) eqn:F; intro H; [inversion H; left; reflexivity|].
    destruct (ctor ev st kw) as [r|e'] eqn:C; [discriminate|].
    apply ctor_err in C as [[_ Hf]|[[-> | ->] _]]; [rewrite Hf in F; discriminate| |];
      cbn in H; inversion H; left; reflexivity.
  - intro H. inversion H; subst. apply (parse_rrule_kw_err _ _ _ E).
Qed.

Lemma parse_rules_err ev ig st : forall l e, parse_rules ev ig st l = Err e -> ev_or_unmodelled e.
Proof.
  induction l as [|x l IH]; intros e H; [discriminate|]. cbn [parse_rules] in H.
  destruct (parse_rule ev ig x st) eqn:E; [|inversion H; subst; apply (parse_rule_err _ _ _ _ _ E)].
  destruct (parse_rules ev ig st l) eqn:E2; [discriminate|]. inversion H; subst. apply IH. reflexivity.
Qed.

Lemma pdv_parms_err o names : forall parms tz vf e, pdv_parms o names parms tz vf = Err e -> e = EValue.
Proof.
  induction parms as [|p r IH]; intros tz vf e H; [discriminate|]. cbn [pdv_parms] in H.
  destruct (startswith s_TZIDeq p).
  - destruct (after_last_tzid p); [destruct (tzid_lookup names s)|]; apply IH in H; exact H.
  - destruct (leqb p s_VALUE_DT || leqb p s_VALUE_D).
    + destruct vf; [inversion H; reflexivity|apply IH in H; exact H].
    + inversion H; reflexivity.
Qed.

Lemma pdv_dates_err ig tz : forall l e, pdv_dates ig tz l = Err e -> ev_or_unmodelled e.
Proof.
  induction l as [|x l IH]; intros e H; [discriminate|]. cbn [pdv_dates] in H.
  destruct (parse_date ig x); [|inversion H; left; reflexivity|inversion H; left; reflexivity|inversion H; right; reflexivity].
  destruct (negb (tz =? 0) && negb (dtz d =? 0)); [inversion H; left; reflexivity|].
  destruct (pdv_dates ig tz l) eqn:E; [discriminate|]. inversion H; subst. apply IH. reflexivity.
Qed.

Lemma parse_date_value_err o names v parms e : parse_date_value o names v parms = Err e -> ev_or_unmodelled e.
Proof.
  unfold parse_date_value. destruct (pdv_parms o names parms 0 false) eqn:E.
  - apply pdv_dates_err.
  - intro H. inversion H; subst. apply pdv_parms_err in E. left. exact E.
Qed.

Lemma parse_rdates_err ig : forall l e, parse_rdates ig l = Err e -> ev_or_unmodelled e.
Proof.
  induction l as [|x l IH]; intros e H; [discriminate|]. cbn [parse_rdates] in H.
  destruct (pdv_dates ig 0 (split_on 44 x)) eqn:E; [|inversion H; subst; apply (pdv_dates_err _ _ _ _ E)].
  destruct (parse_rdates ig l) eqn:E2; [discriminate|]. inversion H; subst. apply IH. reflexivity.
Qed.

Lemma do_line_err o names line a e : do_line o names line a = Err e -> ev_or_unmodelled e.
Proof.
  unfold do_line. destruct (isnil line); [discriminate|].
  destruct (split_on 59 _) as [|pname parms]; [intro H; inversion H; left; reflexivity|].
  repeat match goal with
  | |- context [if ?b then _ else _] => destruct b
  end;
  try (destruct parms; intro H; inversion H; left; reflexivity);
  try (intro H; inversion H; left; reflexivity).
  - destruct (parse_date_value o names _ parms) eqn:E; intro H; inversion H; subst.
    apply (parse_date_value_err _ _ _ _ _ E).
  - destruct (parse_date_value o names _ parms) as [[|d [|d2 t]]|] eqn:E; intro H; inversion H; subst;
      try (left; reflexivity). apply (parse_date_value_err _ _ _ _ _ E).
Qed.

Lemma do_lines_err o names : forall lines a e, do_lines o names lines a = Err e -> ev_or_unmodelled e.
Proof.
  induction lines as [|l r IH]; intros a e H; [discriminate|]. cbn [do_lines] in H.
  destruct (do_line o names l a) eqn:E; [apply (IH _ _ H)|inversion H; subst; apply (do_line_err _ _ _ _ _ E)].
Qed.

(* unknown or malformed text: whatever rrulestr is given (within the modelled fragment), an error
   is a ValueError -- never TypeError / IndexError / KeyError / AttributeError *)
Theorem rrulestr_error_classes ev o s e : parse_rfc ev o s = RErr e -> ev_or_unmodelled e.
Proof.
  unfold parse_rfc. destruct (negb (forallb is_ascii s)); [intro H; inversion H; right; reflexivity|].
  destruct (isnil (strip s)); [intro H; inversion H; left; reflexivity|].
  unfold parse_lines. destruct (shortcut _ _ _).
  - destruct (map upper _) as [|l0 t]; [intro H; inversion H; left; reflexivity|].
    destruct (parse_rule ev (o_ignoretz o) l0 (o_dtstart o)) eqn:E; intro H; inversion H; subst.
    apply (parse_rule_err _ _ _ _ _ E).
  - unfold general. destruct (do_lines _ _ _ _) as [a|e'] eqn:E;
      [|intro H; inversion H; subst; apply (do_lines_err _ _ _ _ _ E)].
    unfold assemble. match goal with |- (if ?b then _ else _) = _ -> _ => destruct b end.
    + destruct (parse_rules ev (o_ignoretz o) (a_start a) (a_rr a)) eqn:E1;
        [|intro H; inversion H; subst; apply (parse_rules_err _ _ _ _ _ E1)].
      destruct (parse_rdates (o_ignoretz o) (a_rd a)) eqn:E2;
        [|intro H; inversion H; subst; apply (parse_rdates_err _ _ _ E2)].
      destruct (parse_rules ev (o_ignoretz o) (a_start a) (a_xr a)) eqn:E3;
        [discriminate|intro H; inversion H; subst; apply (parse_rules_err _ _ _ _ _ E3)].
    + destruct (a_rr a) as [|v t]; [intro H; inversion H; left; reflexivity|].
      destruct (parse_rule ev (o_ignoretz o) v (a_start a)) eqn:E4; intro H; inversion H; subst.
      apply (parse_rule_err _ _ _ _ _ E4).
Qed.

(* formerly findings F-C13-a / F-C13-b (TypeError / IndexError), fixed by ec791d5 / a8bd79d *)
Example missing_freq_valueerror :
  parse_rfc (mkenv 0 (mkdt 2000 1 1 0 0 0 0 0)) (mkopts None false false false false false [])
            (zs "RRULE:COUNT=3") = RErr EValue.
Proof. vm_compute. reflexivity. Qed.

Example no_rrule_valueerror :
  parse_rfc (mkenv 0 (mkdt 2000 1 1 0 0 0 0 0)) (mkopts None false false false false false [])
            (zs "DTSTART:20000101") = RErr EValue.
Proof. vm_compute. reflexivity. Qed.

(* examples of the ValueError classes *)
Example err_unknown_part : parse_rrule_kw false (zs "FREQ=DAILY;X=1") = Err EValue. Proof. reflexivity. Qed.
Example err_no_equals : parse_rrule_kw false (zs "FREQ=DAILY;") = Err EValue. Proof. reflexivity. Qed.
Example err_two_equals : parse_rrule_kw false (zs "FREQ=DAILY;COUNT=1=2") = Err EValue. Proof. reflexivity. Qed.
Example err_bad_int : parse_rrule_kw false (zs "FREQ=DAILY;COUNT=1.5") = Err EValue. Proof. reflexivity. Qed.
Example err_bad_freq : parse_rrule_kw false (zs "FREQ=NEVER") = Err EValue. Proof. reflexivity. Qed.
(* the classes before the except clauses *)
Example cls_bad_freq : handle false (zs "FREQ") (zs "NEVER") kw_empty = Err EKey. Proof. reflexivity. Qed.
Example cls_unknown : handle false (zs "BYFOO") (zs "1") kw_empty = Err EAttr. Proof. reflexivity. Qed.
Example cls_byday_key : handle false (zs "BYDAY") (zs "1XX") kw_empty = Err EKey. Proof. reflexivity. Qed.
Example cls_byday_zero : handle false (zs "BYDAY") (zs "0MO") kw_empty = Err EValue. Proof. reflexivity. Qed.
Example cls_until_overflow : parse_date_res false (zs "99999999999999999999") = Err EOverflow
  /\ handle false (zs "UNTIL") (zs "99999999999999999999") kw_empty = Err EValue. Proof. split; reflexivity. Qed.
Example cls_time_overflow :
  ctor (mkenv 0 (mkdt 2000 1 1 0 0 0 0 0)) None (set_list 6 [99999999999999999999] (set_freq 3 kw_empty)) = Err EOverflow
  /\ parse_rule (mkenv 0 (mkdt 2000 1 1 0 0 0 0 0)) false (zs "FREQ=DAILY;BYHOUR=99999999999999999999") None = Err EValue.
Proof. split; vm_compute; reflexivity. Qed.
Example err_byday_zero : parse_rrule_kw false (zs "FREQ=DAILY;BYDAY=0MO") = Err EValue. Proof. reflexivity. Qed.
Example err_byday_empty : parse_rrule_kw false (zs "FREQ=DAILY;BYDAY=") = Err EValue. Proof. reflexivity. Qed.
Example err_until_range : parse_rrule_kw false (zs "FREQ=DAILY;UNTIL=20001301") = Err EValue. Proof. reflexivity. Qed.
Example err_wrong_property : parse_rrule_kw false (zs "FOO:FREQ=DAILY") = Err EValue. Proof. reflexivity. Qed.
Example known_ex : known (zs "BYSETPOS") = true /\ known (zs "BYFOO") = false. Proof. split; reflexivity. Qed.

(* ---- letter case ---- *)
(* upper-casing commutes with the way the text is cut into lines *)
Lemma upc_space c : is_space (upc c) = is_space c.
Proof. unfold upc, is_space, is_lower. destruct ((97 <=? c) && (c <=? 122)) eqn:E; lia. Qed.
Lemma upc_lb c : is_lb (upc c) = is_lb c.
Proof. unfold upc, is_lb, is_lower. destruct ((97 <=? c) && (c <=? 122)) eqn:E; lia. Qed.
Lemma upc_eqb c x : x < 65 \/ 90 < x -> (x < 97 \/ 122 < x) -> (upc c =? x) = (c =? x).
Proof. unfold upc, is_lower. intros. destruct ((97 <=? c) && (c <=? 122)) eqn:E; lia. Qed.

Lemma words_upper s : words (upper s) = map upper (words s).
Proof.
  induction s as [|c r IH]; [reflexivity|]. cbn [upper map words]. fold (upper r).
  rewrite upc_space, IH. destruct (is_space c); [reflexivity|].
  destruct r as [|c2 r']; [reflexivity|]. cbn [upper map]. fold (upper r'). rewrite upc_space.
  destruct (is_space c2); [reflexivity|]. destruct (words (c2 :: r')); reflexivity.
Qed.

Lemma slines_upper : forall s b, slines b (upper s) = map upper (slines b s).
Proof.
  induction s as [|c r IH]; intro b; [reflexivity|]. cbn [upper map slines]. fold (upper r).
  rewrite upc_lb, !(upc_eqb c) by lia. destruct (b && (c =? 10)); [apply IH|].
  destruct (is_lb c); [cbn [map]; rewrite IH; reflexivity|].
  rewrite IH. destruct (slines false r); reflexivity.
Qed.

Lemma lstrip_upper s : lstrip (upper s) = upper (lstrip s).
Proof.
  induction s as [|c r IH]; [reflexivity|]. cbn [upper map lstrip]. fold (upper r). rewrite upc_space.
  destruct (is_space c); [exact IH|reflexivity].
Qed.

Lemma rstrip_upper s : rstrip (upper s) = upper (rstrip s).
Proof. unfold rstrip, upper. rewrite <- map_rev. fold (upper (rev s)). rewrite lstrip_upper. unfold upper. rewrite map_rev. reflexivity. Qed.

Lemma strip_upper s : strip (upper s) = upper (strip s).
Proof. unfold strip. rewrite lstrip_upper, rstrip_upper. reflexivity. Qed.

Lemma unfold_lines_upper : forall raw kept,
  unfold_lines (map upper raw) (map upper kept) = map upper (unfold_lines raw kept).
Proof.
  induction raw as [|x r IH]; intro kept.
  - cbn [map unfold_lines]. unfold upper. rewrite <- map_rev. reflexivity.
  - cbn [map unfold_lines]. rewrite rstrip_upper. destruct (rstrip x) as [|c t]; [apply IH|].
    cbn [upper map]. fold (upper t). destruct kept as [|prev k'].
    + apply (IH [x]).
    + cbn [map]. rewrite (upc_eqb c 32) by lia. destruct (c =? 32).
      * rewrite <- upper_app. apply (IH ((prev ++ t) :: k')).
      * apply (IH (x :: prev :: k')).
Qed.

Lemma get_lines_upper u s : get_lines u (upper s) = map upper (get_lines u s).
Proof.
  unfold get_lines. destruct u.
  - unfold splitlines. rewrite slines_upper. apply (unfold_lines_upper _ []).
  - apply words_upper.
Qed.

Lemma isnil_upper s : isnil (upper s) = isnil s.
Proof. destruct s; reflexivity. Qed.

Lemma upc_ascii c : is_ascii (upc c) = is_ascii c.
Proof. unfold upc, is_ascii, is_lower. destruct ((97 <=? c) && (c <=? 122)) eqn:E; lia. Qed.

Lemma forallb_map_upc s : forallb is_ascii (map upc s) = forallb is_ascii s.
Proof. induction s as [|c r IH]; [reflexivity|]. cbn [map forallb]. rewrite upc_ascii, IH. reflexivity. Qed.

(* rrulestr upper-cases everything except the TZID names: texts that agree after upper-casing and
   carry the same TZID names are read identically *)
Theorem case_invariance ev o s s' : upper s = upper s' ->
  tzid_findall (join [10] (get_lines (o_unfold o || o_compatible o) s)) =
  tzid_findall (join [10] (get_lines (o_unfold o || o_compatible o) s')) ->
  parse_rfc ev o s = parse_rfc ev o s'.
Proof.
  intros H1 H2. unfold parse_rfc.
  assert (A : forallb is_ascii s = forallb is_ascii s').
  { rewrite <- (forallb_map_upc s), <- (forallb_map_upc s'). fold (upper s). fold (upper s'). rewrite H1. reflexivity. }
  assert (B : isnil (strip s) = isnil (strip s')).
  { rewrite <- (isnil_upper (strip s)), <- (isnil_upper (strip s')), <- !strip_upper, H1. reflexivity. }
  rewrite A, B, H2, H1. rewrite <- !get_lines_upper, H1. reflexivity.
Qed.

Lemma loc_upc c : upc (loc c) = upc c.
Proof. unfold upc, loc, is_lower, is_upper. destruct ((65 <=? c) && (c <=? 90)) eqn:E.
  - replace ((97 <=? c + 32) && (c + 32 <=? 122)) with true by lia.
    replace ((97 <=? c) && (c <=? 122)) with false by lia. lia.
  - reflexivity.
Qed.

Lemma case_text_upper mask : forall cur s, upper (case_text mask cur s) = upper s.
Proof.
  intros cur s. revert cur. induction s as [|c s IH]; intro cur; [destruct cur; reflexivity|].
  cbn [case_text]. destruct cur as [|b m].
  - destruct mask as [|b m]; [reflexivity|]. cbn [upper map]. fold (upper (case_text (b :: m) m s)).
    rewrite IH. destruct b; [rewrite loc_upc|]; reflexivity.
  - cbn [upper map]. fold (upper (case_text mask m s)). rewrite IH. destruct b; [rewrite loc_upc|]; reflexivity.
Qed.

Lemma loc_ascii c : is_ascii (loc c) = is_ascii c.
Proof. unfold loc, is_ascii, is_upper. destruct ((65 <=? c) && (c <=? 90)) eqn:E; lia. Qed.

Lemma case_text_ascii mask : forall cur s, forallb is_ascii (case_text mask cur s) = forallb is_ascii s.
Proof.
  intros cur s. revert cur. induction s as [|c s IH]; intro cur; [destruct cur; reflexivity|].
  cbn [case_text]. destruct cur as [|b m].
  - destruct mask as [|b m]; [reflexivity|]. cbn [forallb]. rewrite IH. destruct b; [rewrite loc_ascii|]; reflexivity.
  - cbn [forallb]. rewrite IH. destruct b; [rewrite loc_ascii|]; reflexivity.
Qed.

(* any lower/upper-casing of a text is read like the text itself, provided the TZID names (which
   keep their case and are looked up verbatim) come out the same, e.g. when there is none *)
Theorem spelling_case ev o mask s :
  tzid_findall (join [10] (get_lines (o_unfold o || o_compatible o) (case_text mask mask s))) =
  tzid_findall (join [10] (get_lines (o_unfold o || o_compatible o) s)) ->
  parse_rfc ev o (case_text mask mask s) = parse_rfc ev o s.
Proof. intro H. apply case_invariance; [apply case_text_upper|exact H]. Qed.
