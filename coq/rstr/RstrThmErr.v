(* Error classes of the rrulestr model: unknown / malformed parts give ValueError; the only other
   classes are TypeError (no FREQ part) and IndexError (no RRULE line) -- findings F-C13-a/b. *)
From Coq Require Import String ZArith List Bool Lia ZifyBool.
From V Require Import base.Cal rstr.RstrPrim rstr.RstrLemmas rstr.RstrModel rstr.RstrSpec.
Import ListNotations.
Open Scope Z_scope.

Definition known_names : list str :=
  [s_INTERVAL; s_COUNT; s_FREQ; s_UNTIL; s_WKST; s_BYWEEKDAY; s_BYDAY] ++ list_names.

Definition known (name : str) : bool := existsb (fun n => leqb name n) known_names.

(* _handle_<name> does not exist: AttributeError -> ValueError *)
Theorem unknown_part_valueerror ig name value kw : known name = false -> handle ig name value kw = Err EValue.
Proof.
  unfold known, known_names. cbn [app existsb list_names]. intro H.
  repeat (apply orb_false_iff in H as [? H]).
  unfold handle.
  repeat match goal with E : leqb name ?s = false |- context [leqb name ?s] => rewrite E end.
  cbn [orb list_index list_names].
  repeat match goal with E : leqb name ?s = false |- context [leqb name ?s] => rewrite E end.
  reflexivity.
Qed.

Definition ev_or_unmodelled (e : err) : Prop := e = EValue \/ e = EUnmodelled.

Lemma handle_err ig name value kw e : handle ig name value kw = Err e -> ev_or_unmodelled e.
Proof.
  unfold handle, ev_or_unmodelled.
  repeat match goal with
  | |- context [if ?b then _ else _] => destruct b
  | |- context [match ?x with _ => _ end] => destruct x
  end; intro H; inversion H; auto.
Qed.

(* a pair that does not split into name=value, or whose name is unknown: ValueError; no rule part
   ever produces another class than ValueError (or leaves the modelled date forms) *)
Theorem handle_pairs_err ig : forall ps kw e, handle_pairs ig ps kw = Err e -> ev_or_unmodelled e.
Proof.
  induction ps as [|p ps IH]; intros kw e H; [discriminate|].
  cbn [handle_pairs] in H.
  destruct (split_on 61 p) as [|a [|b [|c t]]]; try (inversion H; left; reflexivity).
  destruct (handle ig (upper a) (upper b) kw) as [kw'|e'] eqn:E.
  - apply (IH kw' e H).
  - inversion H; subst. apply (handle_err _ _ _ _ _ E).
Qed.

Theorem handle_pairs_ok_known ig : forall ps kw kw', handle_pairs ig ps kw = Ok kw' ->
  Forall (fun p => exists name value, split_on 61 p = [name; value] /\ known (upper name) = true) ps.
Proof.
  induction ps as [|p ps IH]; intros kw kw' H; [constructor|].
  cbn [handle_pairs] in H.
  destruct (split_on 61 p) as [|a [|b [|c t]]] eqn:Es; try discriminate.
  destruct (handle ig (upper a) (upper b) kw) as [k1|e'] eqn:E; [|discriminate].
  constructor; [|apply (IH k1 kw' H)].
  exists a, b. split; [exact Es|].
  destruct (known (upper a)) eqn:K; [reflexivity|].
  rewrite (unknown_part_valueerror ig _ _ _ K) in E. discriminate.
Qed.

Theorem parse_rrule_kw_err ig line e : parse_rrule_kw ig line = Err e -> ev_or_unmodelled e.
Proof.
  unfold parse_rrule_kw, rrule_value.
  destruct (has_char 58 line).
  - destruct (split_on 58 line) as [|a [|b [|c t]]]; try (intro H; inversion H; left; reflexivity).
    destruct (leqb a s_RRULE); [apply handle_pairs_err|intro H; inversion H; left; reflexivity].
  - apply handle_pairs_err.
Qed.

Lemma sub_byset_err fq this i s k b e : sub_byset fq this i s k b = Err e -> e = EValue.
Proof.
  unfold sub_byset. destruct k; [|discriminate]. destruct (fq =? this); [|discriminate].
  destruct (construct_byset i s l b); [discriminate|]. intro H; inversion H; reflexivity.
Qed.

(* the constructor: TypeError exactly when freq is missing, otherwise ValueError *)
Theorem ctor_err ev st kw e : ctor ev st kw = Err e ->
  (e = EType /\ k_freq kw = None) \/ (e = EValue /\ k_freq kw <> None).
Proof.
  unfold ctor. destruct (k_freq kw) as [fq|]; [|intro H; inversion H; left; split; reflexivity].
  cbv zeta. intro H. right. split; [|discriminate].
  repeat match type of H with
  | (if ?b then _ else _) = _ => destruct b; [inversion H; reflexivity|]
  | (let '(_, _) := ?x in _) = _ => destruct x
  | (match sub_byset ?a ?b ?c ?d ?k ?f with _ => _ end) = _ =>
      let E := fresh "E" in destruct (sub_byset a b c d k f) as [[? ?]|?] eqn:E;
      [|apply sub_byset_err in E; inversion H; subst; reflexivity]
  end.
  discriminate.
Qed.

(* a rule line: ValueError, or TypeError exactly when the parts are fine but FREQ is missing *)
Theorem parse_rule_err ev ig line st e : parse_rule ev ig line st = Err e ->
  ev_or_unmodelled e \/ (e = EType /\ exists kw, parse_rrule_kw ig line = Ok kw /\ k_freq kw = None).
Proof.
  unfold parse_rule. destruct (parse_rrule_kw ig line) as [kw|e'] eqn:E.
  - intro H. apply ctor_err in H as [[-> Hf]|[-> _]].
    + right. split; [reflexivity|]. exists kw. split; [reflexivity|exact Hf].
    + left. left. reflexivity.
  - intro H. inversion H; subst. left. apply (parse_rrule_kw_err _ _ _ E).
Qed.

(* the two deviations from "malformed text raises ValueError", as the model sees them *)
Theorem malformed_valueerror_refuted_missing_freq :
  parse_rfc (mkenv 0 (mkdt 2000 1 1 0 0 0 0 0)) (mkopts None false false false false false [])
            (zs "RRULE:COUNT=3") = RErr EType.
Proof. vm_compute. reflexivity. Qed.

Theorem malformed_valueerror_refuted_no_rrule :
  parse_rfc (mkenv 0 (mkdt 2000 1 1 0 0 0 0 0)) (mkopts None false false false false false [])
            (zs "DTSTART:20000101") = RErr EIndex.
Proof. vm_compute. reflexivity. Qed.

(* examples of the ValueError classes *)
Example err_unknown_part : parse_rrule_kw false (zs "FREQ=DAILY;X=1") = Err EValue. Proof. reflexivity. Qed.
Example err_no_equals : parse_rrule_kw false (zs "FREQ=DAILY;") = Err EValue. Proof. reflexivity. Qed.
Example err_two_equals : parse_rrule_kw false (zs "FREQ=DAILY;COUNT=1=2") = Err EValue. Proof. reflexivity. Qed.
Example err_bad_int : parse_rrule_kw false (zs "FREQ=DAILY;COUNT=1.5") = Err EValue. Proof. reflexivity. Qed.
Example err_bad_freq : parse_rrule_kw false (zs "FREQ=NEVER") = Err EValue. Proof. reflexivity. Qed.
Example err_byday_zero : parse_rrule_kw false (zs "FREQ=DAILY;BYDAY=0MO") = Err EValue. Proof. reflexivity. Qed.
Example err_byday_empty : parse_rrule_kw false (zs "FREQ=DAILY;BYDAY=") = Err EValue. Proof. reflexivity. Qed.
Example err_until_range : parse_rrule_kw false (zs "FREQ=DAILY;UNTIL=20001301") = Err EValue. Proof. reflexivity. Qed.
Example err_wrong_property : parse_rrule_kw false (zs "FOO:FREQ=DAILY") = Err EValue. Proof. reflexivity. Qed.
Example known_ex : known (zs "BYSETPOS") = true /\ known (zs "BYFOO") = false. Proof. split; reflexivity. Qed.

(* ---- letter case ---- *)
(* rrulestr upper-cases the whole text first: texts that agree after upper-casing (and in their
   TZID names, which are looked up verbatim) are read identically *)
Theorem case_invariance ev o s s' : upper s = upper s' -> tzid_findall s = tzid_findall s' ->
  forallb is_ascii s = forallb is_ascii s' -> parse_rfc ev o s = parse_rfc ev o s'.
Proof. intros H1 H2 H3. unfold parse_rfc. rewrite H1, H2, H3. reflexivity. Qed.

Lemma loc_upc c : upc (loc c) = upc c.
Proof. unfold upc, loc, is_lower, is_upper. destruct ((65 <=? c) && (c <=? 90)) eqn:E.
  - replace ((97 <=? c + 32) && (c + 32 <=? 122)) with true by lia.
    replace ((97 <=? c) && (c <=? 122)) with false by lia. lia.
  - reflexivity.
Qed.

Lemma case_text_upper mask : forall cur s, upper (case_text mask cur s) = upper s.
Proof.
  intros cur s. revert cur. induction s as [|c s IH]; intro cur; [destruct cur; reflexivity|].
  cbn [case_text]. destruct cur as [|b m].
  - destruct mask as [|b m]; [reflexivity|]. cbn [upper map]. fold (upper (case_text (b :: m) m s)).
    rewrite IH. destruct b; [rewrite loc_upc|]; reflexivity.
  - cbn [upper map]. fold (upper (case_text mask m s)). rewrite IH. destruct b; [rewrite loc_upc|]; reflexivity.
Qed.

Lemma loc_ascii c : is_ascii (loc c) = is_ascii c.
Proof. unfold loc, is_ascii, is_upper. destruct ((65 <=? c) && (c <=? 90)) eqn:E; lia. Qed.

Lemma case_text_ascii mask : forall cur s, forallb is_ascii (case_text mask cur s) = forallb is_ascii s.
Proof.
  intros cur s. revert cur. induction s as [|c s IH]; intro cur; [destruct cur; reflexivity|].
  cbn [case_text]. destruct cur as [|b m].
  - destruct mask as [|b m]; [reflexivity|]. cbn [forallb]. rewrite IH. destruct b; [rewrite loc_ascii|]; reflexivity.
  - cbn [forallb]. rewrite IH. destruct b; [rewrite loc_ascii|]; reflexivity.
Qed.

(* any lower/upper-casing of a text without TZID parameters is read like the text itself *)
Theorem spelling_case ev o mask s : tzid_findall s = [] -> tzid_findall (case_text mask mask s) = [] ->
  parse_rfc ev o (case_text mask mask s) = parse_rfc ev o s.
Proof.
  intros H1 H2. apply case_invariance.
  - apply case_text_upper.
  - rewrite H1, H2. reflexivity.
  - apply case_text_ascii.
Qed.
