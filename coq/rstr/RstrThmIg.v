(* ignoretz=True: the same keyword arguments with the zone of UNTIL dropped. *)
From Coq Require Import String ZArith List Bool Lia ZifyBool.
From V Require Import base.Cal rstr.RstrPrim rstr.RstrLemmas rstr.RstrModel rstr.RstrSpec.
Import ListNotations.
Open Scope Z_scope.

Definition untz (d : dt) : dt := mkdt (dy d) (dmo d) (dd d) (dh d) (dmi d) (ds d) (dus d) 0.
Definition untz_kw (k : kwargs) : kwargs :=
  mkkw (k_freq k) (k_interval k) (k_wkst k) (k_count k)
       (match k_until k with Some u => Some (untz u) | None => None end)
       (k_bysetpos k) (k_bymonth k) (k_bymonthday k) (k_byyearday k) (k_byeaster k) (k_byweekno k)
       (k_byweekday k) (k_byhour k) (k_byminute k) (k_bysecond k).

Lemma mk_date_ig y mo d h mi s z :
  mk_date true y mo d h mi s z =
  match mk_date false y mo d h mi s z with DOk x => DOk (untz x) | r => r end.
Proof.
  unfold mk_date. destruct (valid_ymd y mo d && (h <=? 23) && (mi <=? 59) && (s <=? 59)); [|reflexivity].
  destruct z; reflexivity.
Qed.

Lemma parse_date_ig s :
  parse_date true s = match parse_date false s with DOk x => DOk (untz x) | r => r end.
Proof.
  unfold parse_date. destruct (overlong_digits s); [reflexivity|]. unfold parse_date_compact.
  do 17 (destruct s as [|? s];
         [first [reflexivity
                | match goal with |- context [if ?b then _ else _] => destruct b end;
                  [apply mk_date_ig|reflexivity]]|]).
  reflexivity.
Qed.

Lemma handle_untz name value kw kw' : handle false name value kw = Ok kw' ->
  handle true name value (untz_kw kw) = Ok (untz_kw kw').
Proof.
  unfold handle.
  repeat match goal with
  | |- context [if ?b then _ else _] => destruct b
  end;
  try (destruct (py_int value); intro H; inversion H; subst; reflexivity);
  try (destruct (freq_of value); intro H; inversion H; subst; reflexivity);
  try (destruct (wday_of value); intro H; inversion H; subst; reflexivity);
  try (destruct (wd_list value); intro H; inversion H; subst; reflexivity).
  - rewrite parse_date_ig. destruct (parse_date false value); intro H; inversion H; subst. reflexivity.
  - destruct (list_index name list_names 0) as [i|]; [|discriminate].
    destruct (int_list value); intro H; inversion H; subst.
    unfold set_list, untz_kw. cbn. reflexivity.
Qed.

Lemma handle_pairs_untz : forall ps kw kw', handle_pairs false ps kw = Ok kw' ->
  handle_pairs true ps (untz_kw kw) = Ok (untz_kw kw').
Proof.
  induction ps as [|p ps IH]; intros kw kw' H.
  - inversion H; subst. reflexivity.
  - cbn [handle_pairs] in *. destruct (split_on 61 p) as [|a [|b [|c t]]]; try discriminate.
    destruct (handle false (upper a) (upper b) kw) as [k1|e1] eqn:E; [|destruct e1; discriminate].
    rewrite (handle_untz _ _ _ _ E). cbn [catch] in *. apply IH, H.
Qed.

(* ignoretz=True reads the same rule parts; only UNTIL loses its zone *)
Theorem ignoretz_kw line k : parse_rrule_kw false line = Ok k -> parse_rrule_kw true line = Ok (untz_kw k).
Proof.
  unfold parse_rrule_kw. destruct (rrule_value line); [|discriminate].
  intro H. apply (handle_pairs_untz _ kw_empty k H).
Qed.

Example ex_ignoretz :
  parse_rrule_kw true (zs "FREQ=DAILY;UNTIL=20000101T000000Z"%string) =
  Ok (mkkw (Some 3) None None None (Some (mkdt 2000 1 1 0 0 0 0 0)) None None None None None None None None None None)
  /\ parse_rrule_kw false (zs "FREQ=DAILY;UNTIL=20000101T000000Z"%string) =
  Ok (mkkw (Some 3) None None None (Some (mkdt 2000 1 1 0 0 0 0 1)) None None None None None None None None None None).
Proof. split; reflexivity. Qed.
