(* The regenerated _parse_date, _parse_date_value and _parse_rfc (coq/gen/RstrGen.v) equal the hand
   model (parse_date via g_parse, parse_date_value, parse_rfc). *)
From Coq Require Import ZArith List Bool Lia ZifyBool.
From V Require Import base.Cal rstr.RstrPrim rstr.RstrLemmas rstr.RstrModel rstr.RstrSpec rstr.RstrThmErr
  rstr.RstrGenBase gen.RstrGen rstr.RstrGenThm.
Import ListNotations.
Open Scope Z_scope.

(* ================================================================================================
   _parse_rfc *)

(* gen_rule = parse_rule *)
Lemma gres_g_of_res {A} (r : res A) : gres_res (g_of_res r) = r.
Proof. destruct r as [a|[]]; reflexivity. Qed.
(* the except clause around rrule(...) *)
Lemma gres_catch_overflow {A} (r : res A) :
  gres_res (gcatchs (g_of_res r) [([XOverflow], XValue)]) = catch r [EOverflow] EValue.
Proof. destruct r as [a|[]]; reflexivity. Qed.

Lemma gen_rule_spec ev ig line st : gres_res (gen_rule ev ig line st) = parse_rule ev ig line st.
Proof.
  unfold gen_rule. rewrite gen_parse_rule_spec. pose proof (gen_parse_rfc_rrule_spec ig line) as S.
  destruct (gen_parse_rfc_rrule ig line) as [kw|e]; cbn [gbind].
  - apply gres_catch_overflow.
  - destruct e; reflexivity.
Qed.

(* ================================================================================================
   _parse_date, _parse_date_value *)
Lemma gen_parse_date_spec ig x : gres_res (gen_parse_date ig x) = parse_date_method ig x.
Proof. unfold gen_parse_date, g_parse, parse_date_method, parse_date_res. destruct (parse_date ig x); reflexivity. Qed.

Lemma gen_parse_date_cases ig x : gen_parse_date ig x =
  match parse_date ig x with DOk d => GOk d | DBad => GExc XValue | DOv => GExc XValue | DUn => GExc XUnm end.
Proof. unfold gen_parse_date, g_parse. destruct (parse_date ig x); reflexivity. Qed.

Lemma startswith_after_last p : startswith s_TZIDeq p = true -> after_last_tzid p <> None.
Proof.
  destruct p as [|c r]; [discriminate|]. intro H. cbn [after_last_tzid].
  destruct (after_last_tzid r); [discriminate|]. rewrite H. discriminate.
Qed.

Definition gen_pdv_parm (o : opts) (rule_tzids : list str) (st10 : Z * bool) (parm2 : str) : gres (Z * bool) :=
  let '(TZID3, value_found4) := st10 in (if startswith [84; 90; 73; 68; 61] parm2 then (match tzid_lookup rule_tzids (split_last_tzid parm2) with Some tzkey5 => (let TZID6 := (tz_get (o_tzids o) tzkey5) in GOk (TZID6, value_found4)) | None => GOk (TZID3, value_found4) end) else (if negb (leqb parm2 [86; 65; 76; 85; 69; 61; 68; 65; 84; 69; 45; 84; 73; 77; 69] || leqb parm2 [86; 65; 76; 85; 69; 61; 68; 65; 84; 69]) then GExc XValue else (if value_found4 then GExc XValue else (let value_found7 := true in GOk (TZID3, value_found7))))).

Lemma gen_pdv_parms_spec o names : forall parms tz vf,
  gbind (gfoldM (gen_pdv_parm o names) parms (tz, vf)) (fun st => GOk (fst st)) = g_of_res (pdv_parms o names parms tz vf).
Proof.
  induction parms as [|p r IH]; intros tz vf; [reflexivity|]. cbn [gfoldM pdv_parms]. unfold gen_pdv_parm at 1.
  cbv zeta. change [84; 90; 73; 68; 61] with s_TZIDeq.
  change [86; 65; 76; 85; 69; 61; 68; 65; 84; 69; 45; 84; 73; 77; 69] with s_VALUE_DT.
  change [86; 65; 76; 85; 69; 61; 68; 65; 84; 69] with s_VALUE_D.
  destruct (startswith s_TZIDeq p) eqn:S.
  - apply startswith_after_last in S. unfold split_last_tzid.
    destruct (after_last_tzid p) as [key|]; [|congruence].
    destruct (tzid_lookup names key); cbn [gbind]; apply IH.
  - destruct (leqb p s_VALUE_DT || leqb p s_VALUE_D); cbn [negb]; [|reflexivity].
    destruct vf; [reflexivity|]. cbn [gbind]. apply IH.
Qed.

Definition gen_pdv_date (o : opts) (TZID8 : Z) (st20 : list dt) (datestr12 : str) : gres (list dt) :=
  let 'datevals13 := st20 in gbind (gen_parse_date (o_ignoretz o) datestr12) (fun t14 => (let date15 := t14 in (if negb (TZID8 =? 0) then (if (dtz date15 =? 0) then (let date16 := (dt_with_tz date15 TZID8) in (let datevals17 := datevals13 ++ [date16] in GOk datevals17)) else GExc XValue) else (let datevals18 := datevals13 ++ [date15] in GOk datevals18)))).

Lemma gen_pdv_dates_spec o tz : forall l acc,
  gfoldM (gen_pdv_date o tz) l acc = gbind (g_of_res (pdv_dates (o_ignoretz o) tz l)) (fun t => GOk (acc ++ t)).
Proof.
  induction l as [|x l IH]; intro acc; cbn [gfoldM pdv_dates]; [cbn; rewrite app_nil_r; reflexivity|].
  unfold gen_pdv_date at 1. rewrite gen_parse_date_cases.
  destruct (parse_date (o_ignoretz o) x) as [d| | |]; cbn [gbind g_of_res]; try reflexivity. cbv zeta.
  destruct (tz =? 0) eqn:Z0; cbn [negb andb gbind].
  - rewrite IH. destruct (pdv_dates (o_ignoretz o) tz l) as [t|[]]; cbn [g_of_res gbind]; try reflexivity.
    rewrite <- app_assoc. reflexivity.
  - destruct (dtz d =? 0); cbn [negb gbind]; [|reflexivity].
    rewrite IH. unfold dt_with_tz. destruct (pdv_dates (o_ignoretz o) tz l) as [t|[]]; cbn [g_of_res gbind]; try reflexivity.
    rewrite <- app_assoc. reflexivity.
Qed.

Definition gen_parse_date_value' (o : opts) (rule_tzids : list str) (date_value : str) (parms : list str) : gres (list dt) :=
  gbind (gfoldM (gen_pdv_parm o rule_tzids) parms (0, false)) (fun st11 => let '(TZID8, value_found9) := st11 in
    gbind (gfoldM (gen_pdv_date o TZID8) (split_on 44 date_value) []) (fun st21 => GOk st21)).
Lemma gen_parse_date_value_unfold o n v p : gen_parse_date_value o n v p = gen_parse_date_value' o n v p.
Proof. reflexivity. Qed.

Theorem gen_parse_date_value_spec o names v parms :
  gen_parse_date_value o names v parms = g_of_res (parse_date_value o names v parms).
Proof.
  rewrite gen_parse_date_value_unfold. unfold gen_parse_date_value', parse_date_value.
  pose proof (gen_pdv_parms_spec o names parms 0 false) as P.
  destruct (gfoldM (gen_pdv_parm o names) parms (0, false)) as [[tz vf]|e]; cbn [gbind fst] in *.
  - destruct (pdv_parms o names parms 0 false) as [t|e]; [|destruct e; discriminate].
    cbn [g_of_res] in P. injection P as ->. rewrite gen_pdv_dates_spec.
    destruct (pdv_dates (o_ignoretz o) t (split_on 44 v)) as [ds|[]]; reflexivity.
  - destruct (pdv_parms o names parms 0 false) as [t|e0]; [discriminate|]. destruct e0; cbn [g_of_res] in *; injection P as ->; reflexivity.
Qed.

(* generic: a fold that appends one computed element per item is a monadic map *)
Lemma gfold_append {A B} (f : A -> gres B) : forall l acc,
  gfoldM (fun st x => gbind (f x) (fun t => GOk (st ++ [t]))) l acc = gbind (gmapM f l) (fun r => GOk (acc ++ r)).
Proof.
  induction l as [|x l IH]; intro acc; cbn [gfoldM gmapM gbind]; [rewrite app_nil_r; reflexivity|].
  destruct (f x) as [y|e]; cbn [gbind]; [|reflexivity]. rewrite IH.
  destruct (gmapM f l); cbn [gbind]; [rewrite <- app_assoc; reflexivity|reflexivity].
Qed.

Lemma gfold_append_pure {A} : forall (l acc : list A),
  gfoldM (fun st x => GOk (st ++ [x])) l acc = GOk (acc ++ l).
Proof.
  induction l as [|x l IH]; intro acc; cbn [gfoldM gbind]; [rewrite app_nil_r; reflexivity|].
  rewrite IH, <- app_assoc. reflexivity.
Qed.

(* rules of a set *)
Lemma gmap_rules_spec ev ig st : forall vals,
  gres_res (gmapM (fun v => gen_rule ev ig v st) vals) = parse_rules ev ig st vals.
Proof.
  induction vals as [|v vals IH]; [reflexivity|]. cbn [gmapM parse_rules].
  rewrite <- (gen_rule_spec ev ig v st). destruct (gen_rule ev ig v st) as [r|e]; cbn [gbind gres_res].
  - rewrite <- IH. destruct (gmapM _ vals) as [t|[]]; reflexivity.
  - destruct e; reflexivity.
Qed.

(* dates of an RDATE value *)
Lemma gmap_dates_spec ig : forall l,
  gres_res (gmapM (gen_parse_date ig) l) = pdv_dates ig 0 l.
Proof.
  induction l as [|x l IH]; [reflexivity|]. cbn [gmapM pdv_dates]. rewrite gen_parse_date_cases.
  destruct (parse_date ig x); cbn [gbind gres_res]; try reflexivity.
  cbn [Z.eqb negb andb]. rewrite <- IH. destruct (gmapM _ l) as [t|[]]; reflexivity.
Qed.

(* ---- the property loop ---- *)
Lemma split1_has c : forall s, has_char c s = true -> exists a b, split1 c s = Some (a, b).
Proof.
  induction s as [|x s IH]; [discriminate|]. cbn [has_char existsb split1]. destruct (x =? c) eqn:E.
  - intros _. do 2 eexists. reflexivity.
  - cbn [orb]. intro H. destruct (IH H) as [a [b Hab]]. rewrite Hab. do 2 eexists. reflexivity.
Qed.

Definition gen_line (o : opts) (names4 : list str)
  (st36 : list str * list str * list str * list dt * option dt) (line9 : str) :=
  let '(rrulevals10, rdatevals11, exrulevals12, exdatevals13, dtstart14) := st36 in (if negb (negb (isnil line9)) then GOk (rrulevals10, rdatevals11, exrulevals12, exdatevals13, dtstart14) else (match (if negb (has_char 58 line9) then Some ([82; 82; 85; 76; 69], line9) else split1 58 line9) with Some (name15, value16) => (let parms17 := (split_on 59 name15) in (if negb (negb (isnil parms17)) then GExc XValue else gbind (g_nth parms17 0) (fun t18 => (let name19 := t18 in (let parms20 := (tl parms17) in (if leqb name19 [82; 82; 85; 76; 69] then (if isnil parms20 then (let rrulevals21 := rrulevals10 ++ [value16] in GOk (rrulevals21, rdatevals11, exrulevals12, exdatevals13, dtstart14)) else GExc XValue) else (if leqb name19 [82; 68; 65; 84; 69] then (if forallb (fun parm22 => negb (negb (leqb parm22 [86; 65; 76; 85; 69; 61; 68; 65; 84; 69; 45; 84; 73; 77; 69]))) parms20 then (let rdatevals23 := rdatevals11 ++ [value16] in GOk (rrulevals10, rdatevals23, exrulevals12, exdatevals13, dtstart14)) else GExc XValue) else (if leqb name19 [69; 88; 82; 85; 76; 69] then (if isnil parms20 then (let exrulevals24 := exrulevals12 ++ [value16] in GOk (rrulevals10, rdatevals11, exrulevals24, exdatevals13, dtstart14)) else GExc XValue) else (if leqb name19 [69; 88; 68; 65; 84; 69] then gbind (gen_parse_date_value o names4 value16 parms20) (fun t25 => (let exdatevals26 := exdatevals13 ++ t25 in GOk (rrulevals10, rdatevals11, exrulevals12, exdatevals26, dtstart14))) else (if leqb name19 [68; 84; 83; 84; 65; 82; 84] then gbind (gen_parse_date_value o names4 value16 parms20) (fun t27 => (let dtvals28 := t27 in (if negb ((Z.of_nat (List.length dtvals28)) =? 1) then GExc XValue else gbind (g_nth dtvals28 0) (fun t29 => (let dtstart30 := (Some t29) in GOk (rrulevals10, rdatevals11, exrulevals12, exdatevals13, dtstart30)))))) else GExc XValue)))))))))) | None => GExc XValue end)).

Definition exc_err (e : gexc) : err := err_of_gexc e.

Lemma forallb_negneg {A} (f : A -> bool) l : forallb (fun p => negb (negb (f p))) l = forallb f l.
Proof. induction l as [|x l IH]; [reflexivity|]. cbn. rewrite negb_involutive, IH. reflexivity. Qed.

Lemma gen_line_spec o names rr rd xr xd st line :
  match gen_line o names (rr, rd, xr, xd, st) line with
  | GOk (a, b, c, d, e) => do_line o names line (mkacc rr rd xr xd st) = Ok (mkacc a b c d e)
  | GExc e => do_line o names line (mkacc rr rd xr xd st) = Err (exc_err e)
  end.
Proof.
  unfold gen_line, do_line. cbv beta iota zeta. rewrite negb_involutive.
  destruct (isnil line); [reflexivity|].
  assert (G : forall nm value,
    match
      (if negb (negb (isnil (split_on 59 nm))) then GExc XValue
       else gbind (g_nth (split_on 59 nm) 0) (fun t18 : str =>
         if leqb t18 [82; 82; 85; 76; 69] then
           if isnil (tl (split_on 59 nm)) then GOk (rr ++ [value], rd, xr, xd, st) else GExc XValue
         else if leqb t18 [82; 68; 65; 84; 69] then
           if forallb (fun parm22 : str => negb (negb (leqb parm22 [86; 65; 76; 85; 69; 61; 68; 65; 84; 69; 45; 84; 73; 77; 69])))
                (tl (split_on 59 nm))
           then GOk (rr, rd ++ [value], xr, xd, st) else GExc XValue
         else if leqb t18 [69; 88; 82; 85; 76; 69] then
           if isnil (tl (split_on 59 nm)) then GOk (rr, rd, xr ++ [value], xd, st) else GExc XValue
         else if leqb t18 [69; 88; 68; 65; 84; 69] then
           gbind (gen_parse_date_value o names value (tl (split_on 59 nm)))
             (fun t25 => GOk (rr, rd, xr, xd ++ t25, st))
         else if leqb t18 [68; 84; 83; 84; 65; 82; 84] then
           gbind (gen_parse_date_value o names value (tl (split_on 59 nm)))
             (fun t27 => if negb (Z.of_nat (List.length t27) =? 1) then GExc XValue
                         else gbind (g_nth t27 0) (fun t29 => GOk (rr, rd, xr, xd, Some t29)))
         else GExc XValue))
    with
    | GOk (a, b, c, d, e) =>
        match split_on 59 nm with
        | [] => Err EValue
        | pname :: parms =>
            if leqb pname s_RRULE
            then match parms with [] => Ok (mkacc (rr ++ [value]) rd xr xd st) | _ :: _ => Err EValue end
            else if leqb pname s_RDATE
            then if forallb (fun p => leqb p s_VALUE_DT) parms then Ok (mkacc rr (rd ++ [value]) xr xd st) else Err EValue
            else if leqb pname s_EXRULE
            then match parms with [] => Ok (mkacc rr rd (xr ++ [value]) xd st) | _ :: _ => Err EValue end
            else if leqb pname s_EXDATE
            then match parse_date_value o names value parms with
                 | Ok ds => Ok (mkacc rr rd xr (xd ++ ds) st) | Err e0 => Err e0 end
            else if leqb pname s_DTSTART
            then match parse_date_value o names value parms with
                 | Ok [d0] => Ok (mkacc rr rd xr xd (Some d0)) | Ok _ => Err EValue | Err e0 => Err e0 end
            else Err EValue
        end = Ok (mkacc a b c d e)
    | GExc e =>
        match split_on 59 nm with
        | [] => Err EValue
        | pname :: parms =>
            if leqb pname s_RRULE
            then match parms with [] => Ok (mkacc (rr ++ [value]) rd xr xd st) | _ :: _ => Err EValue end
            else if leqb pname s_RDATE
            then if forallb (fun p => leqb p s_VALUE_DT) parms then Ok (mkacc rr (rd ++ [value]) xr xd st) else Err EValue
            else if leqb pname s_EXRULE
            then match parms with [] => Ok (mkacc rr rd (xr ++ [value]) xd st) | _ :: _ => Err EValue end
            else if leqb pname s_EXDATE
            then match parse_date_value o names value parms with
                 | Ok ds => Ok (mkacc rr rd xr (xd ++ ds) st) | Err e0 => Err e0 end
            else if leqb pname s_DTSTART
            then match parse_date_value o names value parms with
                 | Ok [d0] => Ok (mkacc rr rd xr xd (Some d0)) | Ok _ => Err EValue | Err e0 => Err e0 end
            else Err EValue
        end = Err (exc_err e)
    end).
  { intros nm value. rewrite negb_involutive.
    destruct (split_on 59 nm) as [|pname parms]; [reflexivity|]. cbn [isnil g_nth nth_error gbind tl].
    change [82; 82; 85; 76; 69] with s_RRULE.
    change [82; 68; 65; 84; 69] with s_RDATE. change [69; 88; 82; 85; 76; 69] with s_EXRULE.
    change [69; 88; 68; 65; 84; 69] with s_EXDATE. change [68; 84; 83; 84; 65; 82; 84] with s_DTSTART.
    change [86; 65; 76; 85; 69; 61; 68; 65; 84; 69; 45; 84; 73; 77; 69] with s_VALUE_DT.
    rewrite !gen_parse_date_value_spec.
    destruct (leqb pname s_RRULE); [destruct parms; reflexivity|].
    destruct (leqb pname s_RDATE); [rewrite forallb_negneg; destruct (forallb _ parms); reflexivity|].
    destruct (leqb pname s_EXRULE); [destruct parms; reflexivity|].
    destruct (leqb pname s_EXDATE).
    { destruct (parse_date_value o names value parms) as [ds|e] eqn:E; [reflexivity|].
      apply parse_date_value_err in E as [-> | ->]; reflexivity. }
    destruct (leqb pname s_DTSTART); [|reflexivity].
    destruct (parse_date_value o names value parms) as [ds|e] eqn:E.
    - destruct ds as [|d [|d2 t]]; [reflexivity|reflexivity|].
      cbn [g_of_res gbind List.length]. replace (Z.of_nat (S (S (List.length t))) =? 1) with false by lia. reflexivity.
    - apply parse_date_value_err in E as [-> | ->]; reflexivity. }
  destruct (has_char 58 line) eqn:H58; cbn [negb].
  - destruct (split1_has 58 line H58) as [a [b E]]. rewrite E. cbn [fst snd]. apply G.
  - rewrite (split1_none 58 line H58). cbn [fst snd]. apply G.
Qed.


Lemma gen_lines_spec o names : forall lines rr rd xr xd st,
  match gfoldM (gen_line o names) lines (rr, rd, xr, xd, st) with
  | GOk (a, b, c, d, e) => do_lines o names lines (mkacc rr rd xr xd st) = Ok (mkacc a b c d e)
  | GExc e => do_lines o names lines (mkacc rr rd xr xd st) = Err (exc_err e)
  end.
Proof.
  induction lines as [|l r IH]; intros rr rd xr xd st; [reflexivity|]. cbn [gfoldM do_lines].
  pose proof (gen_line_spec o names rr rd xr xd st l) as S.
  destruct (gen_line o names (rr, rd, xr, xd, st) l) as [[[[[a b] c] d] e]|e]; cbn [gbind].
  - rewrite S. apply IH.
  - rewrite S. reflexivity.
Qed.

(* ---- set assembly ---- *)
Definition gen_asm (ev : env) (o : opts) (forceset1 : bool)
  (st37 : list str * list str * list str * list dt * option dt) : gres result :=
  let '(rrulevals31, rdatevals32, exrulevals33, exdatevals34, dtstart35) := st37 in (if ((forceset1) || (1 <? (Z.of_nat (List.length rrulevals31))) || (negb (isnil rdatevals32)) || (negb (isnil exrulevals33)) || (negb (isnil exdatevals34))) then gbind (gfoldM (fun st43 value38 => let 'rset_rr39 := st43 in gbind (gen_rule ev (o_ignoretz o) value38 dtstart35) (fun t40 => (let rs41 := rset_rr39 ++ [t40] in GOk rs41))) rrulevals31 []) (fun st44 => let 'rset_rr42 := st44 in gbind (gfoldM (fun st55 value45 => let 'rset_rd46 := st55 in gbind (gfoldM (fun st52 datestr47 => let 'rset_rd48 := st52 in gbind (gen_parse_date (o_ignoretz o) datestr47) (fun t49 => (let rs50 := rset_rd48 ++ [t49] in GOk rs50))) (split_on 44 value45) rset_rd46) (fun st53 => let 'rset_rd51 := st53 in GOk rset_rd51)) rdatevals32 []) (fun st56 => let 'rset_rd54 := st56 in gbind (gfoldM (fun st62 value57 => let 'rset_xr58 := st62 in gbind (gen_rule ev (o_ignoretz o) value57 dtstart35) (fun t59 => (let rs60 := rset_xr58 ++ [t59] in GOk rs60))) exrulevals33 []) (fun st63 => let 'rset_xr61 := st63 in gbind (gfoldM (fun st68 value64 => let 'rset_xd65 := st68 in (let rs66 := rset_xd65 ++ [value64] in GOk rs66)) exdatevals34 []) (fun st69 => let 'rset_xd67 := st69 in (if ((o_compatible o)) then match dtstart35 with Some dtstart70 => (let rs71 := rset_rd54 ++ [dtstart70] in GOk (RSet (o_cache o) rset_rr42 rs71 rset_xr61 rset_xd67)) | None => GOk (RSet (o_cache o) rset_rr42 rset_rd54 rset_xr61 rset_xd67) end else GOk (RSet (o_cache o) rset_rr42 rset_rd54 rset_xr61 rset_xd67)))))) else (if negb (negb (isnil rrulevals31)) then GExc XValue else gbind (g_nth rrulevals31 0) (fun t72 => gbind (gen_rule ev (o_ignoretz o) t72 dtstart35) (fun t73 => GOk (RRule (o_cache o) t73))))).

Lemma gbind_ret {A} (r : gres A) : gbind r (fun x => GOk x) = r.
Proof. destruct r; reflexivity. Qed.

Lemma rdates_fold ig : forall l acc,
  gres_res (gfoldM (fun st55 value45 => gbind (gfoldM (fun st52 datestr47 => gbind (gen_parse_date ig datestr47)
       (fun t49 => GOk (st52 ++ [t49]))) (split_on 44 value45) st55) (fun st53 => GOk st53)) l acc)
  = match parse_rdates ig l with Ok ds => Ok (acc ++ ds) | Err e => Err e end.
Proof.
  induction l as [|v l IH]; intro acc; cbn [gfoldM parse_rdates]; [rewrite app_nil_r; reflexivity|].
  rewrite gbind_ret. rewrite (gfold_append (gen_parse_date ig)). rewrite <- gmap_dates_spec.
  destruct (gmapM (gen_parse_date ig) (split_on 44 v)) as [ds|e]; cbn [gbind gres_res].
  - rewrite IH. destruct (parse_rdates ig l); [rewrite app_assoc; reflexivity|reflexivity].
  - destruct e; reflexivity.
Qed.

Lemma rules_fold ev ig st : forall l,
  gres_res (gfoldM (fun st43 value38 => gbind (gen_rule ev ig value38 st) (fun t40 => GOk (st43 ++ [t40]))) l [])
  = parse_rules ev ig st l.
Proof.
  intro l. rewrite (gfold_append (fun v => gen_rule ev ig v st)). rewrite <- gmap_rules_spec.
  destruct (gmapM _ l) as [t|[]]; reflexivity.
Qed.

Definition result_res (x : res result) : result := match x with Ok r => r | Err e => RErr e end.

Lemma gen_asm_spec ev o fs rr rd xr xd st :
  result_of_gres (gen_asm ev o fs (rr, rd, xr, xd, st)) = assemble ev o fs (mkacc rr rd xr xd st).
Proof.
  unfold gen_asm, assemble. cbv beta iota zeta. cbn [a_rr a_rd a_xr a_xd a_start].
  destruct (fs || (1 <? Z.of_nat (List.length rr)) || negb (isnil rd) || negb (isnil xr) || negb (isnil xd)).
  - pose proof (rules_fold ev (o_ignoretz o) st rr) as R1.
    destruct (gfoldM _ rr []) as [rrs|e1]; cbn [gbind]; cbn [gres_res] in R1; rewrite <- R1;
      [|destruct e1; reflexivity].
    pose proof (rdates_fold (o_ignoretz o) rd []) as R2.
    destruct (gfoldM _ rd []) as [rds|e2]; cbn [gbind]; cbn [gres_res] in R2.
    + destruct (parse_rdates (o_ignoretz o) rd) as [ds|e]; [|discriminate]. inversion R2; subst. cbn [app].
      pose proof (rules_fold ev (o_ignoretz o) st xr) as R3.
      destruct (gfoldM _ xr []) as [xrs|e3]; cbn [gbind]; cbn [gres_res] in R3; rewrite <- R3;
        [|destruct e3; reflexivity].
      rewrite gfold_append_pure. cbn [gbind app].
      destruct (o_compatible o); [destruct st|]; cbn [result_of_gres]; rewrite ?app_nil_r; reflexivity.
    + destruct (parse_rdates (o_ignoretz o) rd) as [ds|e]; [destruct e2; discriminate|].
      destruct e2; inversion R2; reflexivity.
  - rewrite negb_involutive. destruct rr as [|v t]; [reflexivity|]. cbn [isnil g_nth nth_error gbind].
    rewrite <- gen_rule_spec. destruct (gen_rule ev (o_ignoretz o) v st) as [r|[]]; reflexivity.
Qed.

(* ---- the whole method ---- *)
Definition gen_parse_rfc' (ev : env) (o : opts) (s : str) : gres result :=
  (let forceset1 := (if (o_compatible o) then true else (o_forceset o)) in let unfold2 := (if (o_compatible o) then true else (o_unfold o)) in (if negb (negb (isnil (strip s))) then GExc XValue else (let lines3 := (if unfold2 then unfold_lines (splitlines s) [] else words s) in (let names4 := tzid_findall (join [10] lines3) in (let lines5 := (map upper lines3) in (let s6 := (upper s) in (if ((negb (forceset1)) && ((Z.of_nat (List.length lines5)) =? 1) && (((negb (has_char 58 s6)) || (startswith [82; 82; 85; 76; 69; 58] s6)))) then gbind (g_nth lines5 0) (fun t7 => gbind (gen_rule ev (o_ignoretz o) t7 (o_dtstart o)) (fun t8 => GOk (RRule (o_cache o) t8))) else gbind (gfoldM (gen_line o names4) lines5 ([], [], [], [], (o_dtstart o))) (gen_asm ev o forceset1)))))))).

Lemma gen_parse_rfc_unfold ev o s : gen_parse_rfc ev o s = gen_parse_rfc' ev o s.
Proof. reflexivity. Qed.

Theorem gen_parse_rfc_spec ev o s : forallb is_ascii s = true ->
  result_of_gres (gen_parse_rfc ev o s) = parse_rfc ev o s.
Proof.
  intro Ha. rewrite gen_parse_rfc_unfold. unfold parse_rfc. rewrite Ha. cbn [negb]. unfold gen_parse_rfc'. cbv zeta.
  rewrite negb_involutive.
  replace (if o_compatible o then true else o_forceset o) with (o_forceset o || o_compatible o)
    by (destruct (o_compatible o), (o_forceset o); reflexivity).
  replace (if o_compatible o then true else o_unfold o) with (o_unfold o || o_compatible o)
    by (destruct (o_compatible o), (o_unfold o); reflexivity).
  destruct (isnil (strip s)); [reflexivity|].
  unfold get_lines, parse_lines, shortcut.
  set (lines0 := if o_unfold o || o_compatible o then unfold_lines (splitlines s) [] else words s).
  set (names := tzid_findall (join [10] lines0)). set (lines := map upper lines0).
  set (fs := o_forceset o || o_compatible o).
  change [82; 82; 85; 76; 69; 58] with s_RRULEc.
  destruct (negb fs && (Z.of_nat (List.length lines) =? 1) && (negb (has_char 58 (upper s)) || startswith s_RRULEc (upper s))) eqn:SC.
  - destruct lines as [|l0 t]; [cbn in SC; rewrite andb_false_r in SC; discriminate|].
    cbn [g_nth nth_error gbind]. rewrite <- gen_rule_spec.
    destruct (gen_rule ev (o_ignoretz o) l0 (o_dtstart o)) as [r|[]]; reflexivity.
  - unfold general.
    pose proof (gen_lines_spec o names lines [] [] [] [] (o_dtstart o)) as L.
    destruct (gfoldM (gen_line o names) lines ([], [], [], [], o_dtstart o)) as [[[[[a b] c] d] e]|e]; cbn [gbind].
    + rewrite L. apply gen_asm_spec.
    + rewrite L. destruct e; reflexivity.
Qed.

Theorem gen_error_classes ev o s e : forallb is_ascii s = true ->
  gen_parse_rfc ev o s = GExc e -> e = XValue \/ e = XUnm.
Proof.
  intros Ha H. pose proof (gen_parse_rfc_spec ev o s Ha) as S. rewrite H in S. cbn [result_of_gres] in S.
  symmetry in S. apply rrulestr_error_classes in S as [S|S]; destruct e; try discriminate; auto.
Qed.
