(* wf_rule follows from conditions on the constructor's arguments: str_roundtrip with hypotheses on
   (start, keyword arguments) only. *)
From Coq Require Import ZArith List Bool Lia ZifyBool.
From V Require Import base.Cal rstr.RstrPrim rstr.RstrLemmas rstr.RstrModel rstr.RstrSpec
  rstr.RstrThmSort rstr.RstrThmStr rstr.RstrThmCtor rstr.RstrThmFinal.
Import ListNotations.
Open Scope Z_scope.

(* the rule space of the round trip: naive valid start, RFC ranges for freq / wkst / weekdays,
   naive until in whole seconds *)
Definition wf_start_kw (st : dt) (kw : kwargs) : bool :=
  valid_dt st && (dtz st =? 0)
  && match k_freq kw with Some f => (0 <=? f) && (f <=? 6) | None => false end
  && match k_wkst kw with Some w => (0 <=? w) && (w <=? 6) | None => true end
  && match k_until kw with Some u => valid_dt u && (dus u =? 0) && (dtz u =? 0) | None => true end
  && match k_byweekday kw with Some l => forallb wf_wd l | None => true end.

Lemma nonempty_ovals {A} (o : oent A) : nonempty (ovals o) = true.
Proof. destruct o as [| |[|x t]]; reflexivity. Qed.

Lemma valid_zero_us d : valid_dt d = true -> valid_dt (zero_us d) = true.
Proof. intro H. exact H. Qed.

Lemma c_wday_wf derive fq w0 k a b o : c_wday derive fq w0 k = (a, b, o) ->
  match k with Some l => forallb wf_wd l = true | None => True end ->
  match ovals o with Some l => forallb wf_wd l = true | None => True end.
Proof.
  unfold c_wday. destruct derive.
  - intros H _. inversion H; subst. exact I.
  - destruct k as [l|]; intros H Hl; inversion H; subst; [|exact I].
    set (plain := sortu (map wday (filter (isplain fq) l))).
    set (nth := sortp (map wd_pair (filter (fun w => negb (isplain fq w)) l))).
    assert (G : forallb wf_wd (map (fun x => mkwd x None) plain ++
                               map (fun p => mkwd (fst p) (Some (snd p))) nth) = true).
    { rewrite forallb_forall in Hl. apply forallb_forall. intros w Hw. apply in_app_or in Hw as [Hw|Hw].
      - apply in_map_iff in Hw as [x [<- Hx]]. unfold plain in Hx. apply sortu_In in Hx.
        apply in_map_iff in Hx as [w0' [<- Hin]]. apply filter_In in Hin as [Hin _].
        specialize (Hl w0' Hin). unfold wf_wd in *. cbn [wday wn].
        apply andb_true_iff in Hl as [Hl _]. rewrite Hl. reflexivity.
      - apply in_map_iff in Hw as [[x y] [<- Hp]]. unfold nth in Hp. apply sortp_In in Hp.
        apply in_map_iff in Hp as [w0' [Hw0 Hin]]. apply filter_In in Hin as [Hin Hnp].
        specialize (Hl w0' Hin). unfold wd_pair in Hw0. inversion Hw0; subst.
        unfold wf_wd in *. cbn [wday wn fst snd]. apply andb_true_iff in Hl as [Hl Hn]. rewrite Hl.
        unfold isplain in Hnp. destruct (wn w0') as [m|]; [|discriminate]. exact Hn. }
    destruct (map (fun x => mkwd x None) plain ++ map (fun p => mkwd (fst p) (Some (snd p))) nth) as [|x t] eqn:E;
      [exact I|]. cbn [ovals]. exact G.
Qed.

Theorem ctor_wf_rule ev st kw r : ctor ev (Some st) kw = Ok r -> 0 <= e_fwd ev <= 6 ->
  wf_start_kw st kw = true -> wf_rule r = true.
Proof.
  intros H Hfwd Hw.
  destruct (ctor_inv ev st kw r H) as
    [fq [rm [om [ry [oy [re [oe [rp [rn [omd [rw [ow [rwd [rnwd [owd [rh [oh [rmi [omi [rs [os Hx]]]]]]]]]]]]]]]]]]]]].
  cbv zeta in Hx.
  destruct Hx as [Hf [Hu [Hs [Hm [Hy [He [Hmd [Hwn [Hwd [Hh [Hmi [Hsec [Hb Hr]]]]]]]]]]]]].
  unfold wf_start_kw in Hw. do 5 (apply andb_true_iff in Hw as [Hw ?]).
  rewrite Hf in *.
  subst r. unfold wf_rule. cbn [r_dtstart r_until].
  assert (W : wf_kw (kw_of_rule (mkrule (zero_us st) fq (match k_interval kw with Some i => i | None => 1 end)
             (match k_wkst kw with Some w => w | None => e_fwd ev end) (k_count kw) (k_until kw)
             (k_bysetpos kw) rm rp rn ry re rw rwd rnwd rh rmi rs
             (match k_bysetpos kw with Some (x :: r) => OVals (x :: r) | _ => OAbsent end)
             om omd oy oe ow owd oh omi os)) = true).
  { unfold wf_kw, kw_of_rule.
    cbn [k_freq k_interval k_wkst k_count k_until k_bysetpos k_bymonth k_bymonthday k_byyearday k_byeaster
         k_byweekno k_byweekday k_byhour k_byminute k_bysecond r_freq r_interval r_wkst r_count r_until
         og_bysetpos og_bymonth og_bymonthday og_byyearday og_byeaster og_byweekno og_byweekday og_byhour
         og_byminute og_bysecond].
    rewrite !nonempty_ovals. rewrite !andb_true_r.
    apply andb_true_iff; split; [apply andb_true_iff; split; [apply andb_true_iff; split|]|].
    - assumption.
    - destruct (k_wkst kw) as [w|].
      + destruct (w =? 0); [reflexivity|assumption].
      + destruct (e_fwd ev =? 0); [reflexivity|lia].
    - destruct (k_until kw) as [u|]; [|reflexivity].
      do 2 (apply andb_true_iff in H1 as [H1 ?]). rewrite H1. replace (dus u =? 0) with true by lia.
      replace (dtz u =? 0) with true by lia. reflexivity.
    - pose proof (c_wday_wf _ _ _ _ _ _ _ Hwd) as G.
      assert (G0 : match k_byweekday kw with Some l => forallb wf_wd l = true | None => True end)
        by (destruct (k_byweekday kw); [assumption|exact I]).
      specialize (G G0). destruct (ovals owd) as [[|x t]|] eqn:Eo; [|exact G|reflexivity].
      pose proof (nonempty_ovals owd) as N. rewrite Eo in N. discriminate. }
  rewrite W.
  assert (V : valid_dt (zero_us st) = true) by (apply valid_zero_us; assumption).
  rewrite V. cbn [dus dtz zero_us]. replace (dtz st =? 0) with true by lia.
  destruct (k_until kw) as [u|]; [|reflexivity].
  do 2 (apply andb_true_iff in H1 as [H1 ?]). cbn. lia.
Qed.

(* str_roundtrip with hypotheses on the arguments only *)
Theorem str_roundtrip_args ev o st kw r :
  ctor ev (Some st) kw = Ok r -> 0 <= e_fwd ev <= 6 -> (e_fwd ev = 0 \/ r_wkst r <> 0) ->
  wf_args kw = true -> wf_start_kw st kw = true ->
  o_forceset o = false -> o_compatible o = false -> o_ignoretz o = false -> o_unfold o = false ->
  parse_rfc ev o (to_str r) = RRule (o_cache o) r.
Proof.
  intros H Hrange Hfwd Ha Hw. apply (str_roundtrip ev o st kw r H Hfwd Ha). apply (ctor_wf_rule ev st kw r H Hrange Hw).
Qed.

Example ex_wf_start_kw : wf_start_kw st_ex kw_ex = true. Proof. reflexivity. Qed.
