(* ignoretz=True at whole-text level: every member of a multi-line text is read naive. *)
From Coq Require Import String ZArith List Bool Lia ZifyBool.
From V Require Import base.Cal rstr.RstrPrim rstr.RstrLemmas rstr.RstrModel rstr.RstrSpec
  rstr.RstrThmInt rstr.RstrThmWd rstr.RstrThmDate rstr.RstrThmParts rstr.RstrThmTop rstr.RstrThmSet rstr.RstrThmIg.
Import ListNotations.
Open Scope Z_scope.

Lemma parse_date_dt_spell_ig short d : wf_date d = true -> parse_date true (dt_spell short d) = DOk (untz d).
Proof.
  intro H. destruct (wf_date_props d H) as [Hv [Hus Htz]].
  rewrite parse_date_ig, (parse_date_dt_spell short d Hv Hus Htz). reflexivity.
Qed.

Lemma pdv_dates_spell_ig short : forall ds, forallb wf_date ds = true ->
  pdv_dates true 0 (map (dt_spell short) ds) = Ok (map untz ds).
Proof.
  induction ds as [|d ds IH]; intro H; [reflexivity|]. cbn [forallb] in H. apply andb_true_iff in H as [Hd Hds].
  cbn [map pdv_dates]. rewrite (parse_date_dt_spell_ig short d Hd).
  cbn [Z.eqb negb andb]. rewrite (IH Hds). reflexivity.
Qed.

Lemma pdv_dates_text_ig short ds : negb (isnil ds) = true -> forallb wf_date ds = true ->
  pdv_dates true 0 (split_on 44 (dates_text short ds)) = Ok (map untz ds).
Proof.
  intros Hn Hw. rewrite dates_text_split by (destruct ds; [discriminate|discriminate]).
  apply pdv_dates_spell_ig, Hw.
Qed.

(* what the property loop collects under ignoretz: the same members, zones dropped *)
Definition collect1_ig (short : bool) (it : item) (a : acc) : acc :=
  match it with
  | IExDate ds => mkacc (a_rr a) (a_rd a) (a_xr a) (a_xd a ++ map untz ds) (a_start a)
  | IStart d => mkacc (a_rr a) (a_rd a) (a_xr a) (a_xd a) (Some (untz d))
  | _ => collect1 short it a
  end.
Definition collect_ig (short : bool) (its : list item) (a : acc) : acc :=
  fold_left (fun a it => collect1_ig short it a) its a.

Theorem do_line_item_ig o names short it a : wf_item it = true -> o_ignoretz o = true ->
  do_line o names (render_item short it) a = Ok (collect1_ig short it a).
Proof.
  intros Hw Hi. destruct it as [v|v|ds|ds|d]; cbn [render_item collect1_ig collect1 wf_item] in *;
    rewrite do_line_named by (try reflexivity; discriminate).
  - reflexivity.
  - reflexivity.
  - reflexivity.
  - apply andb_true_iff in Hw as [Hn Hd].
    change (split_on 59 s_EXDATE) with [s_EXDATE]. cbv iota.
    change (leqb s_EXDATE s_RRULE) with false. change (leqb s_EXDATE s_RDATE) with false.
    change (leqb s_EXDATE s_EXRULE) with false. change (leqb s_EXDATE s_EXDATE) with true. cbv iota.
    unfold parse_date_value. cbn [pdv_parms]. rewrite Hi. rewrite (pdv_dates_text_ig short ds Hn Hd). reflexivity.
  - change (split_on 59 s_DTSTART) with [s_DTSTART]. cbv iota.
    change (leqb s_DTSTART s_RRULE) with false. change (leqb s_DTSTART s_RDATE) with false.
    change (leqb s_DTSTART s_EXRULE) with false. change (leqb s_DTSTART s_EXDATE) with false.
    change (leqb s_DTSTART s_DTSTART) with true. cbv iota.
    unfold parse_date_value. cbn [pdv_parms]. rewrite Hi.
    rewrite split_on_nosep by (apply atoms_no_char; [apply dt_spell_atoms|cbn; tauto]).
    cbn [pdv_dates]. rewrite (parse_date_dt_spell_ig short d Hw). cbn [Z.eqb negb andb]. reflexivity.
Qed.

Theorem do_lines_items_ig o names short : forall its a, forallb wf_item its = true -> o_ignoretz o = true ->
  do_lines o names (map (render_item short) its) a = Ok (collect_ig short its a).
Proof.
  induction its as [|it its IH]; intros a Hw Hi; [reflexivity|].
  cbn [forallb] in Hw. apply andb_true_iff in Hw as [H1 H2].
  cbn [map do_lines]. rewrite (do_line_item_ig o names short it a H1 Hi). apply IH; assumption.
Qed.

Lemma parse_rdates_texts_ig short : forall dss,
  Forall (fun ds => negb (isnil ds) = true /\ forallb wf_date ds = true) dss ->
  parse_rdates true (map (dates_text short) dss) = Ok (map untz (concat dss)).
Proof.
  induction 1 as [|ds dss [Hn Hw] _ IH]; [reflexivity|].
  cbn [map parse_rdates concat]. rewrite (pdv_dates_text_ig short ds Hn Hw). rewrite IH. rewrite map_app. reflexivity.
Qed.

Lemma start_of_untz its st :
  fold_left (fun s it => match it with IStart d => Some (untz d) | _ => s end) its (option_map untz st)
  = option_map untz (start_of its st).
Proof.
  revert st. induction its as [|it its IH]; intro st; [reflexivity|].
  cbn [fold_left start_of]. destruct it; try apply IH. apply (IH (Some d)).
Qed.

Lemma collect_roles_ig short : forall its a,
  collect_ig short its a =
  mkacc (a_rr a ++ rules_of its) (a_rd a ++ map (dates_text short) (rdates_of its))
        (a_xr a ++ exrules_of its) (a_xd a ++ map untz (exdates_of its))
        (fold_left (fun s it => match it with IStart d => Some (untz d) | _ => s end) its (a_start a)).
Proof.
  induction its as [|it its IH]; intro a.
  - cbn. rewrite !app_nil_r. destruct a; reflexivity.
  - unfold collect_ig in *. cbn [fold_left]. rewrite IH.
    destruct it; cbn [collect1_ig collect1 a_rr a_rd a_xr a_xd a_start rules_of exrules_of rdates_of exdates_of
                      flat_map fold_left map app]; rewrite ?map_app, <- ?app_assoc; reflexivity.
Qed.

(* ignoretz=True: the set has the same members by role; every date (RDATE, EXDATE, the start handed to
   the rules and added by compatible) is the naive reading, and every rule line is parsed with
   ignoretz (C13_ignoretz_kw: the same parts, UNTIL without its zone) *)
Theorem set_assembly_ignoretz ev o names short its rr xr :
  forallb wf_item its = true -> o_ignoretz o = true ->
  match o_dtstart o with Some d => dtz d = 0 | None => True end ->
  let fs := o_forceset o || o_compatible o in
  let start := option_map untz (start_of its (o_dtstart o)) in
  (fs || (1 <? Z.of_nat (List.length (rules_of its))) || negb (isnil (rdates_of its))
   || negb (isnil (exrules_of its)) || negb (isnil (exdates_of its))) = true ->
  parse_rules ev true start (rules_of its) = Ok rr ->
  parse_rules ev true start (exrules_of its) = Ok xr ->
  general ev o fs names (map (render_item short) its) =
  RSet (o_cache o) rr
       (map untz (concat (rdates_of its)) ++
        (if o_compatible o then match start with Some d => [d] | None => [] end else []))
       xr (map untz (exdates_of its)).
Proof.
  intros Hw Hi Hst fs start Hc Hrr Hxr. unfold general. rewrite (do_lines_items_ig o names short its _ Hw Hi).
  rewrite collect_roles_ig. cbn [a_rr a_rd a_xr a_xd a_start app].
  assert (Es : fold_left (fun s it => match it with IStart d => Some (untz d) | _ => s end) its (o_dtstart o) = start).
  { unfold start. rewrite <- start_of_untz. f_equal. destruct (o_dtstart o) as [d|]; [|reflexivity].
    cbn [option_map]. unfold untz. rewrite <- Hst. destruct d; reflexivity. }
  rewrite Es.
  assert (Hrd : Forall (fun ds => negb (isnil ds) = true /\ forallb wf_date ds = true) (rdates_of its)).
  { clear -Hw. induction its as [|it its IH]; [constructor|].
    cbn [forallb] in Hw. apply andb_true_iff in Hw as [H1 H2].
    destruct it; cbn [rdates_of flat_map app]; try (apply IH, H2).
    constructor; [|apply IH, H2]. cbn [wf_item] in H1. apply andb_true_iff in H1. exact H1. }
  erewrite assemble_set; cbn [a_rr a_rd a_xr a_xd a_start]; rewrite ?Hi.
  - reflexivity.
  - rewrite <- Hc. f_equal. f_equal. f_equal.
    + destruct (rdates_of its); reflexivity.
    + destruct (exdates_of its); reflexivity.
  - exact Hrr.
  - apply parse_rdates_texts_ig, Hrd.
  - exact Hxr.
Qed.

(* ... and from the text *)
Theorem set_assembly_text_ignoretz ev o short its rr xr :
  its <> [] -> forallb wf_item its = true ->
  o_ignoretz o = true -> o_compatible o = false -> o_unfold o = false ->
  match o_dtstart o with Some d => dtz d = 0 | None => True end ->
  let start := option_map untz (start_of its (o_dtstart o)) in
  (o_forceset o || (1 <? Z.of_nat (List.length (rules_of its))) || negb (isnil (rdates_of its))
   || negb (isnil (exrules_of its)) || negb (isnil (exdates_of its))) = true ->
  parse_rules ev true start (rules_of its) = Ok rr ->
  parse_rules ev true start (exrules_of its) = Ok xr ->
  parse_rfc ev o (join [10] (map (render_item short) its)) =
  RSet (o_cache o) rr (map untz (concat (rdates_of its))) xr (map untz (exdates_of its)).
Proof.
  intros Hne Hw Hi Hc Hu Hst start Hset Hrr Hxr. rewrite (text_general ev o short its Hne Hw Hc Hu Hset).
  pose proof (set_assembly_ignoretz ev o (tzid_findall (join [10] (map (render_item short) its))) short its rr xr
                Hw Hi Hst) as S.
  cbv zeta in S. rewrite Hc in S. rewrite !orb_false_r in S. specialize (S Hset Hrr Hxr).
  rewrite S. rewrite app_nil_r. reflexivity.
Qed.

(* a member rule under ignoretz: the parts of the line, UNTIL naive, then the constructor *)
Theorem parse_rule_ignoretz ev line st k : parse_rrule_kw false line = Ok k ->
  parse_rule ev true line st =
  (if isNone (k_freq k) then Err EValue else catch (ctor ev st (untz_kw k)) [EOverflow] EValue).
Proof. intro H. unfold parse_rule. rewrite (ignoretz_kw line k H). reflexivity. Qed.

(* non-vacuity: zoned members, read naive *)
Definition zd (day h tz : Z) : dt := mkdt 1997 9 day h 0 0 0 tz.
Definition ig_items : list item :=
  [IStart (zd 2 9 1); IRule (zs "FREQ=DAILY;UNTIL=19970910T090000Z"%string); IExRule (zs "FREQ=WEEKLY;UNTIL=19971001T000000Z"%string);
   IRDate [zd 20 9 1; zd 21 0 0]; IExDate [zd 4 9 1]].
Example ex_set_ignoretz : exists rr xr,
  parse_rfc (mkenv 0 (zd 1 0 0)) (mkopts None false false false false true [])
            (join [10] (map (render_item false) ig_items))
  = RSet false rr [zd 20 9 0; zd 21 0 0] xr [zd 4 9 0] /\ List.length rr = 1%nat /\ List.length xr = 1%nat /\
  forallb wf_item ig_items = true.
Proof.
  destruct (parse_rfc (mkenv 0 (zd 1 0 0)) (mkopts None false false false false true [])
            (join [10] (map (render_item false) ig_items))) as [| c rr rd xr xd |] eqn:E;
    vm_compute in E; try discriminate.
  injection E as <- <- <- <- <-. do 2 eexists. repeat split.
Qed.
