(* sorted(set(l)) and sorted(l): results are sorted, sorting a sorted list changes nothing. *)
From Coq Require Import ZArith List Bool Lia ZifyBool.
From V Require Import rstr.RstrPrim rstr.RstrModel.
Import ListNotations.
Open Scope Z_scope.

Section Generic.
  Variable A : Type.
  Variable ltb eqb : A -> A -> bool.
  Hypothesis eqb_eq : forall a b, eqb a b = true -> a = b.
  Hypothesis lt_trans : forall a b c, ltb a b = true -> ltb b c = true -> ltb a c = true.
  Hypothesis lt_total : forall a b, ltb a b = false -> eqb a b = false -> ltb b a = true.

  Fixpoint insg (x : A) (l : list A) : list A :=
    match l with
    | [] => [x]
    | y :: r => if ltb x y then x :: l else if eqb x y then l else y :: insg x r
    end.
  Definition sortg (l : list A) : list A := fold_right insg [] l.

  Fixpoint ssg (l : list A) : Prop :=
    match l with [] => True | x :: r => (forall y, In y r -> ltb x y = true) /\ ssg r end.

  Lemma insg_In x l y : In y (insg x l) -> y = x \/ In y l.
  Proof.
    induction l as [|z l IH]; cbn.
    - intros [H|[]]; auto.
    - destruct (ltb x z); [cbn; intros [H|[H|H]]; auto|].
      destruct (eqb x z); [cbn; intros [H|H]; auto|].
      cbn. intros [H|H]; auto. apply IH in H as [H|H]; auto.
  Qed.

  Lemma sortg_In l y : In y (sortg l) -> In y l.
  Proof.
    induction l as [|x l IH]; cbn; [auto|]. intro H. apply insg_In in H as [H|H]; auto.
  Qed.

  Lemma insg_ss x l : ssg l -> ssg (insg x l).
  Proof.
    induction l as [|z l IH]; intro H; cbn.
    - split; [intros y []|exact I].
    - destruct H as [Hz Hl]. destruct (ltb x z) eqn:E1.
      + split; [|split; assumption]. intros y [<-|Hy]; [exact E1|].
        apply (lt_trans x z y E1 (Hz y Hy)).
      + destruct (eqb x z) eqn:E2; [split; assumption|].
        split; [|apply IH, Hl]. intros y Hy. apply insg_In in Hy as [->|Hy]; [|apply Hz, Hy].
        apply lt_total; [exact E1|exact E2].
  Qed.

  Lemma sortg_ss l : ssg (sortg l).
  Proof. induction l as [|x l IH]; cbn; [exact I|apply insg_ss, IH]. Qed.

  Lemma insg_head x l : ssg (x :: l) -> insg x l = x :: l.
  Proof.
    destruct l as [|y r]; [reflexivity|]. intros [H _]. cbn. rewrite (H y (or_introl eq_refl)). reflexivity.
  Qed.

  Lemma ss_sortg l : ssg l -> sortg l = l.
  Proof.
    induction l as [|x l IH]; intro H; [reflexivity|].
    cbn [sortg fold_right]. fold (sortg l). rewrite IH by apply H. apply insg_head, H.
  Qed.

  Lemma sortg_idem l : sortg (sortg l) = sortg l.
  Proof. apply ss_sortg, sortg_ss. Qed.

  Lemma insg_nonnil x l : insg x l <> [].
  Proof. destruct l as [|y r]; cbn; [discriminate|]. destruct (ltb x y); [discriminate|]. destruct (eqb x y); discriminate. Qed.

  Lemma sortg_nonnil l : l <> [] -> sortg l <> [].
  Proof. destruct l; [congruence|]. intros _. apply insg_nonnil. Qed.

  Lemma ss_filter p l : ssg l -> ssg (filter p l).
  Proof.
    induction l as [|x l IH]; intro H; [exact I|]. destruct H as [Hx Hl]. cbn.
    destruct (p x); [|apply IH, Hl]. split; [|apply IH, Hl].
    intros y Hy. apply filter_In in Hy as [Hy _]. apply Hx, Hy.
  Qed.

  Lemma insg_app_gt x a b : (forall y, In y a -> ltb y x = true) ->
    (forall y, In y a -> ltb x y = false /\ eqb x y = false) -> insg x (a ++ b) = a ++ insg x b.
  Proof.
    induction a as [|z a IH]; intros H1 H2; [reflexivity|].
    cbn. destruct (H2 z (or_introl eq_refl)) as [E1 E2]. rewrite E1, E2.
    rewrite IH; [reflexivity| |]; intros y Hy; [apply H1|apply H2]; right; exact Hy.
  Qed.
End Generic.

(* ---- instances ---- *)
Lemma insu_insg x l : insu x l = insg Z Z.ltb Z.eqb x l.
Proof. induction l as [|y l IH]; cbn; [reflexivity|]. rewrite IH. reflexivity. Qed.
Lemma sortu_sortg l : sortu l = sortg Z Z.ltb Z.eqb l.
Proof. induction l as [|x l IH]; cbn; [reflexivity|]. rewrite insu_insg. unfold sortu in IH. rewrite IH. reflexivity. Qed.

Definition ssorted := ssg Z Z.ltb.

Lemma Zeqb_eq a b : (a =? b) = true -> a = b. Proof. lia. Qed.
Lemma Zlt_trans a b c : (a <? b) = true -> (b <? c) = true -> (a <? c) = true. Proof. lia. Qed.
Lemma Zlt_total a b : (a <? b) = false -> (a =? b) = false -> (b <? a) = true. Proof. lia. Qed.

Lemma sortu_In l y : In y (sortu l) -> In y l.
Proof. rewrite sortu_sortg. apply sortg_In. Qed.
Lemma sortu_ssorted l : ssorted (sortu l).
Proof. rewrite sortu_sortg. apply sortg_ss; first [apply Zlt_trans|apply Zlt_total|apply Zeqb_eq]. Qed.
Lemma ssorted_sortu l : ssorted l -> sortu l = l.
Proof. rewrite sortu_sortg. apply ss_sortg. Qed.
Lemma sortu_idem l : sortu (sortu l) = sortu l.
Proof. apply ssorted_sortu, sortu_ssorted. Qed.
Lemma sortu_nonnil l : l <> [] -> sortu l <> [].
Proof. rewrite sortu_sortg. apply sortg_nonnil. Qed.
Lemma ssorted_filter p l : ssorted l -> ssorted (filter p l).
Proof. apply ss_filter. Qed.

Lemma insp_insg x l : insp x l = insg (Z * Z) pair_lt pair_eq x l.
Proof. induction l as [|y l IH]; cbn; [reflexivity|]. rewrite IH. reflexivity. Qed.
Lemma sortp_sortg l : sortp l = sortg (Z * Z) pair_lt pair_eq l.
Proof. induction l as [|x l IH]; cbn; [reflexivity|]. rewrite insp_insg. unfold sortp in IH. rewrite IH. reflexivity. Qed.

Lemma pair_eq_eq a b : pair_eq a b = true -> a = b.
Proof. destruct a, b. unfold pair_eq. cbn. intro H. f_equal; lia. Qed.
Lemma pair_lt_trans a b c : pair_lt a b = true -> pair_lt b c = true -> pair_lt a c = true.
Proof. destruct a, b, c. unfold pair_lt. cbn. lia. Qed.
Lemma pair_lt_total a b : pair_lt a b = false -> pair_eq a b = false -> pair_lt b a = true.
Proof. destruct a, b. unfold pair_lt, pair_eq. cbn. lia. Qed.

Lemma sortp_In l y : In y (sortp l) -> In y l.
Proof. rewrite sortp_sortg. apply sortg_In. Qed.
Lemma sortp_idem l : sortp (sortp l) = sortp l.
Proof.
  rewrite !sortp_sortg. apply sortg_idem; first [apply pair_lt_trans|apply pair_lt_total|apply pair_eq_eq].
Qed.
Lemma sortp_nonnil l : l <> [] -> sortp l <> [].
Proof. rewrite sortp_sortg. apply sortg_nonnil. Qed.

(* sorted() keeping duplicates *)
Fixpoint wsorted (l : list Z) : Prop :=
  match l with [] => True | x :: r => (forall y, In y r -> x <= y) /\ wsorted r end.

Lemma ins_In x l y : In y (ins x l) -> y = x \/ In y l.
Proof.
  induction l as [|z l IH]; cbn; [intros [H|[]]; auto|].
  destruct (x <=? z); cbn; [intros [H|[H|H]]; auto|]. intros [H|H]; auto. apply IH in H as [H|H]; auto.
Qed.

Lemma ins_wsorted x l : wsorted l -> wsorted (ins x l).
Proof.
  induction l as [|z l IH]; intro H; cbn; [split; [intros y []|exact I]|].
  destruct H as [Hz Hl]. destruct (x <=? z) eqn:E.
  - split; [|split; assumption]. intros y [<-|Hy]; [lia|]. pose proof (Hz y Hy). lia.
  - split; [|apply IH, Hl]. intros y Hy. apply ins_In in Hy as [->|Hy]; [lia|apply Hz, Hy].
Qed.

Lemma sort_wsorted l : wsorted (sort l).
Proof. induction l as [|x l IH]; cbn; [exact I|apply ins_wsorted, IH]. Qed.

Lemma wsorted_sort l : wsorted l -> sort l = l.
Proof.
  induction l as [|x l IH]; intro H; [reflexivity|]. destruct H as [Hx Hl].
  cbn [sort fold_right]. fold (sort l). rewrite IH by exact Hl.
  destruct l as [|y r]; [reflexivity|]. cbn. pose proof (Hx y (or_introl eq_refl)).
  replace (x <=? y) with true by lia. reflexivity.
Qed.

Lemma sort_idem l : sort (sort l) = sort l.
Proof. apply wsorted_sort, sort_wsorted. Qed.

Lemma sort_nonnil l : l <> [] -> sort l <> [].
Proof.
  destruct l as [|x l]; [congruence|]. intros _. cbn. destruct (fold_right ins [] l) as [|y r]; cbn; [discriminate|].
  destruct (x <=? y); discriminate.
Qed.

(* sorted(set(pos ++ neg)) puts the negatives first *)
Lemma sortu_pos_neg pos neg : ssorted pos -> ssorted neg ->
  (forall a b, In a neg -> In b pos -> a < b) -> sortu (pos ++ neg) = neg ++ pos.
Proof.
  intros Hp Hn Hc. unfold sortu. rewrite fold_right_app. fold (sortu neg). rewrite (ssorted_sortu neg Hn).
  induction pos as [|p ps IH]; [cbn; rewrite app_nil_r; reflexivity|].
  destruct Hp as [Hp1 Hp2]. cbn [fold_right]. rewrite IH.
  - rewrite insu_insg. rewrite insg_app_gt.
    + f_equal. rewrite <- insu_insg. rewrite insu_insg. apply insg_head. split; assumption.
    + intros y Hy. pose proof (Hc y p Hy (or_introl eq_refl)). lia.
    + intros y Hy. pose proof (Hc y p Hy (or_introl eq_refl)). lia.
  - exact Hp2.
  - intros a b Ha Hb. apply Hc; [exact Ha|right; exact Hb].
Qed.

(* filtering commutes with sorted(set()) *)
Lemma filter_insu p x : forall s, ssorted s ->
  filter p (insu x s) = if p x then insu x (filter p s) else filter p s.
Proof.
  induction s as [|y r IH]; intro Hs.
  - cbn. destruct (p x); reflexivity.
  - destruct Hs as [Hy Hr]. cbn [insu]. destruct (x <? y) eqn:E1.
    + cbn [filter]. destruct (p x) eqn:Px; [|reflexivity].
      destruct (p y) eqn:Py.
      * cbn [insu]. rewrite E1. reflexivity.
      * rewrite insu_insg. symmetry. apply insg_head. split; [|apply ss_filter, Hr].
        intros z Hz. apply filter_In in Hz as [Hz _]. specialize (Hy z Hz). lia.
    + destruct (x =? y) eqn:E2.
      * assert (x = y) by lia. subst y. cbn [filter]. destruct (p x) eqn:Px; [|reflexivity].
        cbn [insu]. rewrite E1, E2. reflexivity.
      * cbn [filter]. rewrite (IH Hr). destruct (p y) eqn:Py; destruct (p x) eqn:Px; try reflexivity.
        cbn [insu]. rewrite E1, E2. reflexivity.
Qed.

Lemma filter_sortu p l : filter p (sortu l) = sortu (filter p l).
Proof.
  induction l as [|x l IH]; [reflexivity|].
  change (sortu (x :: l)) with (insu x (sortu l)). rewrite filter_insu by apply sortu_ssorted.
  rewrite IH. cbn [filter]. destruct (p x); reflexivity.
Qed.

