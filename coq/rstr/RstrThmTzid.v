(* TZID parameter of DTSTART / EXDATE (partial: the collection of TZID names from the raw text by
   the regular expression is a hypothesis here; it is exercised by the correspondence check). *)
From Coq Require Import String ZArith List Bool Lia ZifyBool.
From V Require Import base.Cal rstr.RstrPrim rstr.RstrLemmas rstr.RstrModel rstr.RstrSpec
  rstr.RstrThmInt rstr.RstrThmWd rstr.RstrThmDate rstr.RstrThmTop.
Import ListNotations.
Open Scope Z_scope.

Lemma startswith_tzid_eq s : startswith s_TZIDeq s = true -> has_char 61 s = true.
Proof.
  change s_TZIDeq with [84; 90; 73; 68; 61].
  destruct s as [|a [|b [|c [|d [|e r]]]]]; cbn [startswith andb]; intro H;
    try discriminate H; try (rewrite ?andb_false_r in H; discriminate H).
  repeat (apply andb_true_iff in H; destruct H as [? H]).
  assert (e = 61) by lia. subst. unfold has_char. cbn [existsb]. rewrite Z.eqb_refl, !orb_true_r. reflexivity.
Qed.

Lemma after_last_none s : has_char 61 s = false -> after_last_tzid s = None.
Proof.
  induction s as [|x s IH]; intro H; [reflexivity|].
  cbn [after_last_tzid]. assert (H' : has_char 61 s = false).
  { cbn in H. apply orb_false_iff in H as [_ H]. exact H. }
  rewrite (IH H'). destruct (startswith s_TZIDeq (x :: s)) eqn:E; [|reflexivity].
  apply startswith_tzid_eq in E. congruence.
Qed.

Lemma alt_step x r : after_last_tzid (x :: r) =
  match after_last_tzid r with
  | Some y => Some y
  | None => if startswith s_TZIDeq (x :: r) then Some (skipn 5 (x :: r)) else None
  end.
Proof. reflexivity. Qed.

Lemma startswith_hd x r : x <> 84 -> startswith s_TZIDeq (x :: r) = false.
Proof.
  intro H. change s_TZIDeq with [84; 90; 73; 68; 61]. cbn [startswith].
  replace (84 =? x) with false by lia. reflexivity.
Qed.

Lemma after_last_tzid_name nm : has_char 61 nm = false -> after_last_tzid (s_TZIDeq ++ nm) = Some nm.
Proof.
  intro H. pose proof (after_last_none nm H) as N.
  change (s_TZIDeq ++ nm) with (84 :: 90 :: 73 :: 68 :: 61 :: nm).
  assert (A1 : after_last_tzid (61 :: nm) = None) by (rewrite alt_step, N, startswith_hd by lia; reflexivity).
  assert (A2 : after_last_tzid (68 :: 61 :: nm) = None) by (rewrite alt_step, A1, startswith_hd by lia; reflexivity).
  assert (A3 : after_last_tzid (73 :: 68 :: 61 :: nm) = None) by (rewrite alt_step, A2, startswith_hd by lia; reflexivity).
  assert (A4 : after_last_tzid (90 :: 73 :: 68 :: 61 :: nm) = None) by (rewrite alt_step, A3, startswith_hd by lia; reflexivity).
  rewrite alt_step, A4.
  assert (S : startswith s_TZIDeq (84 :: 90 :: 73 :: 68 :: 61 :: nm) = true).
  { change s_TZIDeq with [84; 90; 73; 68; 61]. cbn [startswith]. rewrite !Z.eqb_refl. reflexivity. }
  rewrite S. reflexivity.
Qed.

(* a TZID parameter whose name was collected resolves through tzids and is applied to naive values *)
Theorem tzid_param_partial o names name tag short d :
  has_char 61 (upper name) = false ->
  tzid_lookup names (upper name) = Some name -> tz_get (o_tzids o) name = tag -> tag <> 0 ->
  o_ignoretz o = false ->
  valid_dt d = true -> dus d = 0 -> dtz d = 0 ->
  parse_date_value o names (dt_spell short d) [s_TZIDeq ++ upper name] =
  Ok [mkdt (dy d) (dmo d) (dd d) (dh d) (dmi d) (ds d) (dus d) tag].
Proof.
  intros H61 Hl Hg Ht Hi Hv Hus Htz. unfold parse_date_value. cbn [pdv_parms].
  assert (S : startswith s_TZIDeq (s_TZIDeq ++ upper name) = true).
  { change s_TZIDeq with [84; 90; 73; 68; 61]. cbn [app startswith]. rewrite !Z.eqb_refl. reflexivity. }
  rewrite S. rewrite (after_last_tzid_name _ H61). rewrite Hl. rewrite Hg.
  rewrite Hi. rewrite split_on_nosep by (apply atoms_no_char; [apply dt_spell_atoms|cbn; tauto]).
  cbn [pdv_dates]. rewrite (parse_date_dt_spell short d Hv Hus (or_introl Htz)).
  rewrite Htz. replace (tag =? 0) with false by lia. cbn [negb andb Z.eqb]. reflexivity.
Qed.

(* with a zone already in the value (Z): "DTSTART/EXDATE specifies multiple timezone" -> ValueError *)
Theorem tzid_param_twice_valueerror o names name tag short d :
  has_char 61 (upper name) = false ->
  tzid_lookup names (upper name) = Some name -> tz_get (o_tzids o) name = tag -> tag <> 0 ->
  o_ignoretz o = false ->
  valid_dt d = true -> dus d = 0 -> dtz d = 1 ->
  parse_date_value o names (dt_spell short d) [s_TZIDeq ++ upper name] = Err EValue.
Proof.
  intros H61 Hl Hg Ht Hi Hv Hus Htz. unfold parse_date_value. cbn [pdv_parms].
  assert (S : startswith s_TZIDeq (s_TZIDeq ++ upper name) = true).
  { change s_TZIDeq with [84; 90; 73; 68; 61]. cbn [app startswith]. rewrite !Z.eqb_refl. reflexivity. }
  rewrite S. rewrite (after_last_tzid_name _ H61). rewrite Hl. rewrite Hg.
  rewrite Hi. rewrite split_on_nosep by (apply atoms_no_char; [apply dt_spell_atoms|cbn; tauto]).
  cbn [pdv_dates]. rewrite (parse_date_dt_spell short d Hv Hus (or_intror Htz)).
  rewrite Htz. replace (tag =? 0) with false by lia. reflexivity.
Qed.

Example ex_tzid : 
  let name := zs "Europe/Berlin"%string in
  tzid_findall (zs "DTSTART;TZID=Europe/Berlin:19970902T090000
RRULE:FREQ=DAILY"%string) = [name] /\ tzid_lookup [name] (upper name) = Some name /\ has_char 61 (upper name) = false.
Proof. vm_compute. repeat split. Qed.
