(* set assembly: a multi-line text yields exactly the listed members in their roles. *)
From Coq Require Import String ZArith List Bool Lia ZifyBool.
From V Require Import base.Cal rstr.RstrPrim rstr.RstrLemmas rstr.RstrModel rstr.RstrSpec
  rstr.RstrThmInt rstr.RstrThmWd rstr.RstrThmDate rstr.RstrThmParts rstr.RstrThmTop.
Import ListNotations.
Open Scope Z_scope.

Inductive item :=
| IRule (v : str) | IExRule (v : str) | IRDate (ds : list dt) | IExDate (ds : list dt) | IStart (d : dt).

Definition dates_text (short : bool) (ds : list dt) : str := join [44] (map (dt_spell short) ds).

Definition render_item (short : bool) (it : item) : str :=
  match it with
  | IRule v => s_RRULE ++ 58 :: v
  | IExRule v => s_EXRULE ++ 58 :: v
  | IRDate ds => s_RDATE ++ 58 :: dates_text short ds
  | IExDate ds => s_EXDATE ++ 58 :: dates_text short ds
  | IStart d => s_DTSTART ++ 58 :: dt_spell short d
  end.

Definition wf_date (d : dt) : bool := valid_dt d && (dus d =? 0) && ((dtz d =? 0) || (dtz d =? 1)).

Definition wf_item (it : item) : bool :=
  match it with
  | IRule v | IExRule v => forallb linec v
  | IRDate ds | IExDate ds => negb (isnil ds) && forallb wf_date ds
  | IStart d => wf_date d
  end.

(* what the property loop must collect *)
Definition collect1 (short : bool) (it : item) (a : acc) : acc :=
  match it with
  | IRule v => mkacc (a_rr a ++ [v]) (a_rd a) (a_xr a) (a_xd a) (a_start a)
  | IExRule v => mkacc (a_rr a) (a_rd a) (a_xr a ++ [v]) (a_xd a) (a_start a)
  | IRDate ds => mkacc (a_rr a) (a_rd a ++ [dates_text short ds]) (a_xr a) (a_xd a) (a_start a)
  | IExDate ds => mkacc (a_rr a) (a_rd a) (a_xr a) (a_xd a ++ ds) (a_start a)
  | IStart d => mkacc (a_rr a) (a_rd a) (a_xr a) (a_xd a) (Some d)
  end.
Definition collect (short : bool) (its : list item) (a : acc) : acc :=
  fold_left (fun a it => collect1 short it a) its a.

Lemma wf_date_props d : wf_date d = true -> valid_dt d = true /\ dus d = 0 /\ (dtz d = 0 \/ dtz d = 1).
Proof. unfold wf_date. intro H. do 2 (apply andb_true_iff in H as [H ?]). repeat split; [assumption|lia|lia]. Qed.

Lemma pdv_dates_spell short : forall ds, forallb wf_date ds = true ->
  pdv_dates false 0 (map (dt_spell short) ds) = Ok ds.
Proof.
  induction ds as [|d ds IH]; intro H; [reflexivity|]. cbn [forallb] in H. apply andb_true_iff in H as [Hd Hds].
  destruct (wf_date_props d Hd) as [Hv [Hus Htz]].
  cbn [map pdv_dates]. rewrite (parse_date_dt_spell short d Hv Hus Htz).
  cbn [Z.eqb negb andb]. rewrite (IH Hds). reflexivity.
Qed.

Lemma dates_text_split short ds : ds <> [] ->
  split_on 44 (dates_text short ds) = map (dt_spell short) ds.
Proof.
  intro H. unfold dates_text. apply split_join.
  - destruct ds; [congruence|discriminate].
  - apply Forall_forall. intros s Hs. apply in_map_iff in Hs as [d [<- _]].
    apply atoms_no_char; [apply dt_spell_atoms|cbn; tauto].
Qed.

Lemma pdv_dates_text short ds : negb (isnil ds) = true -> forallb wf_date ds = true ->
  pdv_dates false 0 (split_on 44 (dates_text short ds)) = Ok ds.
Proof.
  intros Hn Hw. rewrite dates_text_split by (destruct ds; [discriminate|discriminate]).
  apply pdv_dates_spell, Hw.
Qed.

Lemma do_line_named o names nm value a : has_char 58 nm = false -> nm <> [] ->
  do_line o names (nm ++ 58 :: value) a =
  match split_on 59 nm with
  | [] => Err EValue
  | pname :: parms =>
      if leqb pname s_RRULE then
        match parms with
        | [] => Ok (mkacc (a_rr a ++ [value]) (a_rd a) (a_xr a) (a_xd a) (a_start a))
        | _ => Err EValue
        end
      else if leqb pname s_RDATE then
        if forallb (fun p => leqb p s_VALUE_DT) parms
        then Ok (mkacc (a_rr a) (a_rd a ++ [value]) (a_xr a) (a_xd a) (a_start a))
        else Err EValue
      else if leqb pname s_EXRULE then
        match parms with
        | [] => Ok (mkacc (a_rr a) (a_rd a) (a_xr a ++ [value]) (a_xd a) (a_start a))
        | _ => Err EValue
        end
      else if leqb pname s_EXDATE then
        match parse_date_value o names value parms with
        | Err e => Err e
        | Ok ds => Ok (mkacc (a_rr a) (a_rd a) (a_xr a) (a_xd a ++ ds) (a_start a))
        end
      else if leqb pname s_DTSTART then
        match parse_date_value o names value parms with
        | Err e => Err e
        | Ok [d] => Ok (mkacc (a_rr a) (a_rd a) (a_xr a) (a_xd a) (Some d))
        | Ok _ => Err EValue
        end
      else Err EValue
  end.
Proof.
  intros H58 Hne. unfold do_line. rewrite isnil_app_cons. rewrite split1_app by exact H58. reflexivity.
Qed.

Theorem do_line_item o names short it a : wf_item it = true -> o_ignoretz o = false ->
  do_line o names (render_item short it) a = Ok (collect1 short it a).
Proof.
  intros Hw Hi. destruct it as [v|v|ds|ds|d]; cbn [render_item collect1 wf_item] in *;
    rewrite do_line_named by (try reflexivity; discriminate).
  - reflexivity.
  - reflexivity.
  - reflexivity.
  - apply andb_true_iff in Hw as [Hn Hd].
    change (split_on 59 s_EXDATE) with [s_EXDATE]. cbv iota. 
    change (leqb s_EXDATE s_RRULE) with false. change (leqb s_EXDATE s_RDATE) with false.
    change (leqb s_EXDATE s_EXRULE) with false. change (leqb s_EXDATE s_EXDATE) with true. cbv iota.
    unfold parse_date_value. cbn [pdv_parms]. rewrite Hi. rewrite (pdv_dates_text short ds Hn Hd). reflexivity.
  - change (split_on 59 s_DTSTART) with [s_DTSTART]. cbv iota.
    change (leqb s_DTSTART s_RRULE) with false. change (leqb s_DTSTART s_RDATE) with false.
    change (leqb s_DTSTART s_EXRULE) with false. change (leqb s_DTSTART s_EXDATE) with false.
    change (leqb s_DTSTART s_DTSTART) with true. cbv iota.
    destruct (wf_date_props d Hw) as [Hv [Hus Htz]].
    rewrite (pdv_one o names [] (dt_spell short d) d eq_refl Hi (dt_spell_atoms short d)
               (parse_date_dt_spell short d Hv Hus Htz)). reflexivity.
Qed.

Theorem do_lines_items o names short : forall its a, forallb wf_item its = true -> o_ignoretz o = false ->
  do_lines o names (map (render_item short) its) a = Ok (collect short its a).
Proof.
  induction its as [|it its IH]; intros a Hw Hi; [reflexivity|].
  cbn [forallb] in Hw. apply andb_true_iff in Hw as [H1 H2].
  cbn [map do_lines]. rewrite (do_line_item o names short it a H1 Hi). apply IH; assumption.
Qed.

(* RDATE values are parsed when the set is built *)
Lemma parse_rdates_texts short : forall dss, Forall (fun ds => negb (isnil ds) = true /\ forallb wf_date ds = true) dss ->
  parse_rdates false (map (dates_text short) dss) = Ok (concat dss).
Proof.
  induction 1 as [|ds dss [Hn Hw] _ IH]; [reflexivity|].
  cbn [map parse_rdates concat]. rewrite (pdv_dates_text short ds Hn Hw). rewrite IH. reflexivity.
Qed.

(* set assembly after the property loop: with the collected members, the result is the set with
   exactly these rules, rdates (plus the start when compatible), exrules and exdates *)
Theorem assemble_set ev o fs a rr xr rd :
  (fs || (1 <? Z.of_nat (List.length (a_rr a))) || negb (isnil (a_rd a)) || negb (isnil (a_xr a))
   || negb (isnil (a_xd a))) = true ->
  parse_rules ev (o_ignoretz o) (a_start a) (a_rr a) = Ok rr ->
  parse_rdates (o_ignoretz o) (a_rd a) = Ok rd ->
  parse_rules ev (o_ignoretz o) (a_start a) (a_xr a) = Ok xr ->
  assemble ev o fs a =
  RSet (o_cache o) rr (rd ++ (if o_compatible o then match a_start a with Some d => [d] | None => [] end else []))
       xr (a_xd a).
Proof. intros Hc H1 H2 H3. unfold assemble. rewrite Hc, H1, H2, H3. reflexivity. Qed.

(* members of the collected accumulator, by role *)
Definition rules_of (its : list item) : list str :=
  flat_map (fun it => match it with IRule v => [v] | _ => [] end) its.
Definition exrules_of (its : list item) : list str :=
  flat_map (fun it => match it with IExRule v => [v] | _ => [] end) its.
Definition rdates_of (its : list item) : list (list dt) :=
  flat_map (fun it => match it with IRDate ds => [ds] | _ => [] end) its.
Definition exdates_of (its : list item) : list dt :=
  flat_map (fun it => match it with IExDate ds => ds | _ => [] end) its.
Definition start_of (its : list item) (st : option dt) : option dt :=
  fold_left (fun s it => match it with IStart d => Some d | _ => s end) its st.

Lemma collect_roles short : forall its a,
  collect short its a =
  mkacc (a_rr a ++ rules_of its) (a_rd a ++ map (dates_text short) (rdates_of its))
        (a_xr a ++ exrules_of its) (a_xd a ++ exdates_of its) (start_of its (a_start a)).
Proof.
  induction its as [|it its IH]; intro a.
  - cbn. rewrite !app_nil_r. destruct a; reflexivity.
  - unfold collect in *. cbn [fold_left]. rewrite IH.
    destruct it; cbn [collect1 a_rr a_rd a_xr a_xd a_start rules_of exrules_of rdates_of exdates_of start_of
                      flat_map fold_left map app]; rewrite <- ?app_assoc; reflexivity.
Qed.

Theorem set_assembly ev o names short its rr xr :
  forallb wf_item its = true -> o_ignoretz o = false ->
  let fs := o_forceset o || o_compatible o in
  (fs || (1 <? Z.of_nat (List.length (rules_of its))) || negb (isnil (rdates_of its))
   || negb (isnil (exrules_of its)) || negb (isnil (exdates_of its))) = true ->
  parse_rules ev false (start_of its (o_dtstart o)) (rules_of its) = Ok rr ->
  parse_rules ev false (start_of its (o_dtstart o)) (exrules_of its) = Ok xr ->
  general ev o fs names (map (render_item short) its) =
  RSet (o_cache o) rr
       (concat (rdates_of its) ++
        (if o_compatible o then match start_of its (o_dtstart o) with Some d => [d] | None => [] end else []))
       xr (exdates_of its).
Proof.
  intros Hw Hi fs Hc Hrr Hxr. unfold general. rewrite (do_lines_items o names short its _ Hw Hi).
  rewrite collect_roles. cbn [a_rr a_rd a_xr a_xd a_start app].
  assert (Hrd : Forall (fun ds => negb (isnil ds) = true /\ forallb wf_date ds = true) (rdates_of its)).
  { clear -Hw. induction its as [|it its IH]; [constructor|].
    cbn [forallb] in Hw. apply andb_true_iff in Hw as [H1 H2].
    destruct it; cbn [rdates_of flat_map app]; try (apply IH, H2).
    constructor; [|apply IH, H2]. cbn [wf_item] in H1. apply andb_true_iff in H1. exact H1. }
  erewrite assemble_set; cbn [a_rr a_rd a_xr a_xd a_start]; rewrite ?Hi.
  - reflexivity.
  - rewrite <- Hc. f_equal. f_equal. f_equal.
    destruct (rdates_of its); reflexivity.
  - exact Hrr.
  - apply parse_rdates_texts, Hrd.
  - exact Hxr.
Qed.

(* ---- from the text: lines separated by newlines ---- *)
Lemma words_cons a rest : a <> [] -> nosp a -> words (a ++ 10 :: rest) = a :: words rest.
Proof.
  intros Ha Na. induction a as [|c a IH]; [congruence|]. inversion Na as [|? ? Hc Na']; subst.
  cbn [app words]. rewrite Hc. destruct a as [|c2 a'].
  - cbn [app]. change (is_space 10) with true. cbv iota. cbn [words]. change (is_space 10) with true.
    reflexivity.
  - inversion Na' as [|? ? Hc2 _]; subst. cbn [app]. rewrite Hc2.
    cbn [app] in IH. rewrite IH by (try discriminate; assumption). reflexivity.
Qed.

Lemma words_join ls : Forall (fun l => l <> [] /\ nosp l) ls -> words (join [10] ls) = ls.
Proof.
  induction 1 as [|l ls [Hl Hn] _ IH]; [reflexivity|].
  destruct ls as [|l2 ls'].
  - cbn [join]. apply words_one; assumption.
  - change (join [10] (l :: l2 :: ls')) with (l ++ 10 :: join [10] (l2 :: ls')).
    rewrite words_cons by assumption. rewrite IH. reflexivity.
Qed.

Lemma render_item_line short it : wf_item it = true ->
  Forall (fun c => linec c = true) (render_item short it) /\ render_item short it <> [].
Proof.
  intro H. split; [|destruct it; discriminate].
  destruct it as [v|v|ds|ds|d]; cbn [render_item wf_item] in *.
  - apply Forall_app; split; [repeat constructor|]. constructor; [reflexivity|].
    apply Forall_forall. rewrite forallb_forall in H. exact H.
  - apply Forall_app; split; [repeat constructor|]. constructor; [reflexivity|].
    apply Forall_forall. rewrite forallb_forall in H. exact H.
  - apply Forall_app; split; [repeat constructor|]. constructor; [reflexivity|].
    apply valc_linec. unfold dates_text. apply join_forall; [reflexivity|].
    apply Forall_forall. intros s Hs. apply in_map_iff in Hs as [d [<- _]]. apply atoms_vals, dt_spell_atoms.
  - apply Forall_app; split; [repeat constructor|]. constructor; [reflexivity|].
    apply valc_linec. unfold dates_text. apply join_forall; [reflexivity|].
    apply Forall_forall. intros s Hs. apply in_map_iff in Hs as [d [<- _]]. apply atoms_vals, dt_spell_atoms.
  - apply Forall_app; split; [repeat constructor|]. constructor; [reflexivity|].
    apply valc_linec, atoms_vals, dt_spell_atoms.
Qed.

Lemma join_lines_chars ls : Forall (fun l => Forall (fun c => linec c = true) l) ls ->
  Forall (fun c => txtc c = true) (join [10] ls).
Proof.
  intro H. apply join_forall; [reflexivity|]. eapply Forall_impl; [|exact H]. intros l Hl. apply linec_txtc, Hl.
Qed.

Lemma lines_upper ls : Forall (fun l => Forall (fun c => linec c = true) l) ls -> map upper ls = ls.
Proof.
  induction 1 as [|l ls Hl _ IH]; [reflexivity|]. cbn [map]. rewrite IH, (txt_upper l (linec_txtc l Hl)). reflexivity.
Qed.

(* a multi-line text that makes a set goes through the property loop (whatever ignoretz is) *)
Lemma text_general ev o short its :
  its <> [] -> forallb wf_item its = true -> o_compatible o = false -> o_unfold o = false ->
  (o_forceset o || (1 <? Z.of_nat (List.length (rules_of its))) || negb (isnil (rdates_of its))
   || negb (isnil (exrules_of its)) || negb (isnil (exdates_of its))) = true ->
  parse_rfc ev o (join [10] (map (render_item short) its)) =
  general ev o (o_forceset o) (tzid_findall (join [10] (map (render_item short) its))) (map (render_item short) its).
Proof.
  intros Hne Hw Hc Hu Hset.
  set (ls := map (render_item short) its).
  assert (Hls : Forall (fun l => Forall (fun c => linec c = true) l /\ l <> []) ls).
  { unfold ls. apply Forall_forall. intros l Hl. apply in_map_iff in Hl as [it [<- Hit]].
    apply render_item_line. rewrite forallb_forall in Hw. apply Hw, Hit. }
  assert (Ht : Forall (fun c => txtc c = true) (join [10] ls)).
  { apply join_lines_chars. eapply Forall_impl; [|exact Hls]. intros l [H _]. exact H. }
  assert (Hlu : map upper ls = ls).
  { apply lines_upper. eapply Forall_impl; [|exact Hls]. intros l [H _]. exact H. }
  unfold parse_rfc. rewrite (txt_ascii _ Ht). cbn [negb].
  assert (Hw2 : words (join [10] ls) = ls).
  { apply words_join. eapply Forall_impl; [|exact Hls]. intros l [H1 H2]. split; [exact H2|apply linec_nosp, H1]. }
  assert (Hstrip : isnil (strip (join [10] ls)) = false).
  { destruct ls as [|l ls'] eqn:E; [unfold ls in E; destruct its; [congruence|discriminate]|].
    inversion Hls as [|? ? [Hl1 Hl2] _]; subst.
    destruct ls' as [|l2 ls2].
    - cbn [join]. rewrite <- (app_nil_r l). apply strip_nonnil_app; [exact Hl2|apply linec_nosp, Hl1].
    - change (join [10] (l :: l2 :: ls2)) with (l ++ 10 :: join [10] (l2 :: ls2)).
      apply strip_nonnil_app; [exact Hl2|apply linec_nosp, Hl1]. }
  rewrite Hstrip. rewrite Hc, Hu. cbn [orb]. unfold get_lines. rewrite Hw2, Hlu, (txt_upper _ Ht).
  unfold parse_lines. rewrite Hc, !orb_false_r.
  assert (Hsc : shortcut (o_forceset o) (join [10] ls) ls = false).
  { unfold shortcut. destruct (o_forceset o); [reflexivity|]. cbn [negb andb].
    destruct its as [|it [|it2 its']]; [congruence| |].
    - (* a single line that makes a set is not an RRULE line *)
      cbn [orb] in Hset. unfold ls. cbn [map List.length Z.of_nat Pos.of_succ_nat Z.eqb Pos.eqb andb join].
      destruct it as [v|v|ds|ds|d]; cbn in Hset; try discriminate; cbn [render_item];
        rewrite has_char_app; cbn [has_char existsb Z.eqb Pos.eqb orb negb];
        rewrite ?orb_true_r; reflexivity.
    - unfold ls. cbn [map List.length]. rewrite !Nat2Z.inj_succ.
      replace (Z.succ (Z.succ (Z.of_nat (List.length (map (render_item short) its')))) =? 1) with false by lia.
      reflexivity. }
  rewrite Hsc. reflexivity.
Qed.

(* rrulestr on a multi-line text: exactly the listed members, in their roles *)
Theorem set_assembly_text ev o short its rr xr :
  its <> [] -> forallb wf_item its = true ->
  o_ignoretz o = false -> o_compatible o = false -> o_unfold o = false ->
  (o_forceset o || (1 <? Z.of_nat (List.length (rules_of its))) || negb (isnil (rdates_of its))
   || negb (isnil (exrules_of its)) || negb (isnil (exdates_of its))) = true ->
  parse_rules ev false (start_of its (o_dtstart o)) (rules_of its) = Ok rr ->
  parse_rules ev false (start_of its (o_dtstart o)) (exrules_of its) = Ok xr ->
  parse_rfc ev o (join [10] (map (render_item short) its)) =
  RSet (o_cache o) rr (concat (rdates_of its)) xr (exdates_of its).
Proof.
  intros Hne Hw Hi Hc Hu Hset Hrr Hxr. rewrite (text_general ev o short its Hne Hw Hc Hu Hset).
  pose proof (set_assembly ev o (tzid_findall (join [10] (map (render_item short) its))) short its rr xr Hw Hi) as S.
  cbv zeta in S. rewrite Hc in S. rewrite !orb_false_r in S. specialize (S Hset Hrr Hxr).
  rewrite S. rewrite app_nil_r. reflexivity.
Qed.

(* non-vacuity: a five-line set *)
Definition ex_d (day h : Z) : dt := mkdt 1997 9 day h 0 0 0 0.
Definition ex_items : list item :=
  [IExDate [ex_d 4 9]; IStart (ex_d 2 9); IRule (zs "FREQ=DAILY;COUNT=5"%string); IRDate [ex_d 20 9; ex_d 21 0];
   IExRule (zs "FREQ=WEEKLY;COUNT=2;BYDAY=WE"%string)].
Example ex_set_assembly : exists rr xr,
  forallb wf_item ex_items = true /\
  parse_rules (mkenv 0 (ex_d 1 0)) false (start_of ex_items None) (rules_of ex_items) = Ok rr /\
  parse_rules (mkenv 0 (ex_d 1 0)) false (start_of ex_items None) (exrules_of ex_items) = Ok xr /\
  List.length rr = 1%nat /\ List.length xr = 1%nat /\
  parse_rfc (mkenv 0 (ex_d 1 0)) (mkopts None false false false false false [])
            (join [10] (map (render_item true) ex_items))
  = RSet false rr [ex_d 20 9; ex_d 21 0] xr [ex_d 4 9].
Proof.
  destruct (parse_rules (mkenv 0 (ex_d 1 0)) false (start_of ex_items None) (rules_of ex_items)) as [rr|] eqn:E1;
    [|vm_compute in E1; discriminate].
  destruct (parse_rules (mkenv 0 (ex_d 1 0)) false (start_of ex_items None) (exrules_of ex_items)) as [xr|] eqn:E2;
    [|vm_compute in E2; discriminate].
  exists rr, xr. split; [reflexivity|]. split; [reflexivity|]. split; [reflexivity|].
  vm_compute in E1. vm_compute in E2. injection E1 as <-. injection E2 as <-.
  split; [reflexivity|]. split; [reflexivity|]. vm_compute. reflexivity.
Qed.
