(* Vocabulary of the code regenerated from class _iterinfo of /repo/src/dateutil/rrule.py by
   harness/gen_rr_masks.py (coq/gen/RRMasksGen.v), beyond RRBase / RRNorm / RRMasks: the call-table
   entries that are not already named there.  Definitions only. *)
From Coq Require Import ZArith List Bool.
From V Require Import base.Cal gen.EasterGen rr.RRBase.
Import ListNotations.
Open Scope Z_scope.

(* `for x in t` over an optional tuple: TypeError when t is None *)
Definition giter {A : Type} (o : option (list A)) : res (list A) :=
  match o with Some l => Ok l | None => Err EType end.

(* `x in t` for an optional tuple: TypeError when t is None *)
Definition mem_opt (x : Z) (o : option (list Z)) : res bool :=
  match o with Some l => Ok (memZ x l) | None => Err EType end.

(* easter.easter(year) with the default method, as a proleptic ordinal (.toordinal()); the function
   is regenerated from easter.py (gen.EasterGen); ValueError outside its domain *)
Definition g_easter_ord (year : Z) : res Z :=
  match easter_gen year easter_default_method with
  | Some (y, m, d) => Ok (ord_of_ymd y m d)
  | None => Err EValue
  end.
