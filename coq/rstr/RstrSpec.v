(* Executable SPEC for C13, written independently of the parser's algorithm:
   - `parts_of_kw`   the RFC 5545 rule parts that express a set of keyword arguments;
   - `spell`         every textual spelling of (start, keyword arguments) the property names:
                     order of parts, letter case, BYDAY/BYWEEKDAY, '+1MO' / '1MO' / 'MO(+1)' / 'MO(1)',
                     '+' on positive list members, UNTIL as DATE, inline DTSTART (with VALUE=,
                     TZID=, Z) or start passed as dtstart=, "RRULE:" prefix or bare value, folded lines;
   - `norm_kw`       what "same rule" means at the level of constructor arguments.
   The property: rrulestr (spell c start kw) constructs rrule(dtstart=start, **kw). *)
From Coq Require Import String ZArith List Bool.
From V Require Import base.Cal rstr.RstrPrim rstr.RstrModel.
Import ListNotations.
Open Scope Z_scope.

Inductive part :=
| PFreq (f : Z) | PInterval (n : Z) | PWkst (w : Z) | PCount (n : Z) | PUntil (d : dt)
| PList (i : Z) (l : list Z)        (* i = 0..8, index into list_names *)
| PWd (l : list wd).

(* key of a part = which keyword it sets; two parts with different keys commute *)
Definition part_key (p : part) : Z :=
  match p with
  | PFreq _ => 0 | PInterval _ => 1 | PWkst _ => 2 | PCount _ => 3 | PUntil _ => 4
  | PList i _ => 5 + i | PWd _ => 14
  end.

Definition apply_part (p : part) (k : kwargs) : kwargs :=
  match p with
  | PFreq f => set_freq f k
  | PInterval n => set_interval n k
  | PWkst w => set_wkst w k
  | PCount n => set_count n k
  | PUntil d => set_until d k
  | PList i l => set_list i l k
  | PWd l => set_byweekday l k
  end.

Definition kw_of_parts (ps : list part) : kwargs := fold_left (fun k p => apply_part p k) ps kw_empty.

Definition opt_part {A} (f : A -> part) (o : option A) : list part :=
  match o with Some x => [f x] | None => [] end.

(* the parts in the order rrule.__str__ uses *)
Definition parts_of_kw (k : kwargs) : list part :=
  opt_part PFreq (k_freq k) ++ opt_part PInterval (k_interval k) ++ opt_part PWkst (k_wkst k)
  ++ opt_part PCount (k_count k) ++ opt_part PUntil (k_until k)
  ++ opt_part (PList 0) (k_bysetpos k) ++ opt_part (PList 1) (k_bymonth k)
  ++ opt_part (PList 2) (k_bymonthday k) ++ opt_part (PList 3) (k_byyearday k)
  ++ opt_part (PList 5) (k_byweekno k) ++ opt_part PWd (k_byweekday k)
  ++ opt_part (PList 6) (k_byhour k) ++ opt_part (PList 7) (k_byminute k)
  ++ opt_part (PList 8) (k_bysecond k) ++ opt_part (PList 4) (k_byeaster k).

(* ---- spelling choices ---- *)
Record choice := mkchoice {
  c_plus : bool;            (* '+' in front of positive list members *)
  c_wdname : bool;          (* BYWEEKDAY instead of BYDAY *)
  c_styles : list Z;        (* per BYDAY member: 0 '+1MO', 1 '1MO', 2 'MO(+1)', 3 'MO(1)' *)
  c_dshort : bool;          (* UNTIL / DTSTART at naive midnight written as DATE 'YYYYMMDD' *)
  c_perm : list nat;        (* order of the parts (a permutation of 0..n-1, else ignored) *)
  c_prefix : bool;          (* 'RRULE:' in front of the value *)
  c_inline : Z;             (* 0: start passed as dtstart=; 1: 'DTSTART:' line; 2: with ;VALUE=DATE-TIME (or DATE) *)
  c_folds : list nat;       (* positions where a line is folded ("\n " inserted); needs unfold *)
  c_case : list bool }.     (* letters to write in lower case (cyclic mask) *)

Definition str_int_c (plus : bool) (n : Z) : str :=
  if plus && (0 <? n) then 43 :: str_of_int n else str_of_int n.

Definition wd_spell (style : Z) (w : wd) : str :=
  match wn w with
  | None => wd_name (wday w)
  | Some n =>
    if style =? 0 then fmt_plus n ++ wd_name (wday w)
    else if style =? 1 then str_of_int n ++ wd_name (wday w)
    else if style =? 2 then wd_name (wday w) ++ [40] ++ fmt_plus n ++ [41]
    else wd_name (wday w) ++ [40] ++ str_of_int n ++ [41]
  end.

Fixpoint wds_spell (styles : list Z) (l : list wd) : list str :=
  match l with
  | [] => []
  | w :: r => wd_spell (hd 0 styles) w :: wds_spell (tl styles) r
  end.

Definition fmt_date (d : dt) : str := d4 (dy d) ++ d2 (dmo d) ++ d2 (dd d).

Definition is_midnight (d : dt) : bool := (dh d =? 0) && (dmi d =? 0) && (ds d =? 0) && (dtz d =? 0).

Definition dt_spell (short : bool) (d : dt) : str :=
  if short && is_midnight d then fmt_date d
  else fmt_dt d ++ (if dtz d =? 1 then [90] else []).

Definition render_part (c : choice) (p : part) : str :=
  match p with
  | PFreq f => s_FREQ ++ eq_c ++ freq_name f
  | PInterval n => s_INTERVAL ++ eq_c ++ str_of_int n
  | PWkst w => s_WKST ++ eq_c ++ wd_name w
  | PCount n => s_COUNT ++ eq_c ++ str_of_int n
  | PUntil d => s_UNTIL ++ eq_c ++ dt_spell (c_dshort c) d
  | PList i l => nth (Z.to_nat i) list_names [] ++ eq_c ++ join [44] (map (str_int_c (c_plus c)) l)
  | PWd l => (if c_wdname c then s_BYWEEKDAY else s_BYDAY) ++ eq_c ++ join [44] (wds_spell (c_styles c) l)
  end.

(* executable permutation check *)
Fixpoint mem_nat (x : nat) (l : list nat) : bool :=
  match l with [] => false | y :: r => Nat.eqb x y || mem_nat x r end.
Fixpoint nodup_nat (l : list nat) : bool :=
  match l with [] => true | x :: r => negb (mem_nat x r) && nodup_nat r end.
Definition is_perm (n : nat) (p : list nat) : bool :=
  Nat.eqb (List.length p) n && forallb (fun i => Nat.ltb i n) p && nodup_nat p.

Definition permute {A} (d : A) (p : list nat) (l : list A) : list A :=
  if is_perm (List.length l) p then map (fun i => nth i l d) p else l.

Definition spell_value (c : choice) (k : kwargs) : str :=
  join [59] (map (render_part c) (permute (PCount 0) (c_perm c) (parts_of_kw k))).

Fixpoint case_text (mask cur : list bool) (s : str) : str :=
  match s with
  | [] => []
  | ch :: r =>
    match cur with
    | [] => match mask with
            | [] => ch :: r
            | b :: m => (if b then loc ch else ch) :: case_text mask m r
            end
    | b :: m => (if b then loc ch else ch) :: case_text mask m r
    end
  end.

Definition s_TZIDparm : str := Eval compute in zs ";TZID="%string.
Definition s_VALUEDTparm : str := Eval compute in zs ";VALUE=DATE-TIME"%string.
Definition s_VALUEDparm : str := Eval compute in zs ";VALUE=DATE"%string.

(* the DTSTART line for an inline start; tzname = the TZID to write for a zone tag >= 2 *)
Definition dtstart_line (c : choice) (tzname : str) (d : dt) : str :=
  let short := c_dshort c && is_midnight d in
  s_DTSTART
  ++ (if c_inline c =? 2 then (if short then s_VALUEDparm else s_VALUEDTparm) else [])
  ++ (if 2 <=? dtz d then s_TZIDparm ++ tzname else [])
  ++ [58] ++ dt_spell (c_dshort c) d.

(* the lines of a spelling: optional DTSTART line, then the rule line *)
Definition spell_lines (c : choice) (tzname : str) (start : option dt) (k : kwargs) : list str :=
  (match start with
   | Some d => if c_inline c =? 0 then [] else [dtstart_line c tzname d]
   | None => []
   end)
  ++ [(if c_prefix c then s_RRULEc else []) ++ spell_value c k].

Definition spell_plain (c : choice) (tzname : str) (start : option dt) (k : kwargs) : str :=
  join [10] (spell_lines c tzname start k).

(* a line folded before the listed positions (counted within the line, never before its first
   character): "\n " inserted *)
Fixpoint fold_line (ps : list nat) (i : nat) (s : str) : str :=
  match s with
  | [] => []
  | ch :: r => (if mem_nat i ps && negb (i =? 0)%nat then [10; 32] else []) ++ ch :: fold_line ps (S i) r
  end.

Definition spell (c : choice) (tzname : str) (start : option dt) (k : kwargs) : str :=
  case_text (c_case c) (c_case c) (join [10] (map (fold_line (c_folds c) 0) (spell_lines c tzname start k))).

(* the options that go with a spelling *)
Definition spell_opts (c : choice) (start : option dt) (o : opts) : opts :=
  mkopts (if c_inline c =? 0 then start else o_dtstart o) (o_cache o)
         (o_unfold o || negb (isnil (c_folds c))) (o_forceset o) (o_compatible o) (o_ignoretz o)
         (o_tzids o).

(* ---- well-formed keyword arguments: what an RFC rule can say ---- *)
Definition valid_dt (d : dt) : bool :=
  valid_ymd (dy d) (dmo d) (dd d) && (0 <=? dh d) && (dh d <=? 23) && (0 <=? dmi d) && (dmi d <=? 59)
  && (0 <=? ds d) && (ds d <=? 59).

Definition wf_wd (w : wd) : bool :=
  (0 <=? wday w) && (wday w <=? 6) && match wn w with Some n => negb (n =? 0) | None => true end.

Definition nonempty {A} (o : option (list A)) : bool :=
  match o with Some [] => false | _ => true end.

Definition wf_kw (k : kwargs) : bool :=
  match k_freq k with Some f => (0 <=? f) && (f <=? 6) | None => false end
  && match k_wkst k with Some w => (0 <=? w) && (w <=? 6) | None => true end
  && match k_until k with Some u => valid_dt u && (dus u =? 0) && ((dtz u =? 0) || (dtz u =? 1)) | None => true end
  && nonempty (k_bysetpos k) && nonempty (k_bymonth k) && nonempty (k_bymonthday k)
  && nonempty (k_byyearday k) && nonempty (k_byeaster k) && nonempty (k_byweekno k)
  && nonempty (k_byhour k) && nonempty (k_byminute k) && nonempty (k_bysecond k)
  && match k_byweekday k with Some [] => false | Some l => forallb wf_wd l | None => true end.
