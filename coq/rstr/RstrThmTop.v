(* Top level: rrulestr on every plain spelling; rrulestr (str rule). *)
From Coq Require Import ZArith List Bool Lia ZifyBool Permutation.
From V Require Import base.Cal rstr.RstrPrim rstr.RstrLemmas rstr.RstrModel rstr.RstrSpec
  rstr.RstrThmInt rstr.RstrThmWd rstr.RstrThmDate rstr.RstrThmParts rstr.RstrThmKw rstr.RstrThmSpell.
Import ListNotations.
Open Scope Z_scope.

(* ---- words / strip on text without blanks ---- *)
Definition nosp (s : str) : Prop := Forall (fun c => is_space c = false) s.

Lemma words_one a : a <> [] -> nosp a -> words a = [a].
Proof.
  induction a as [|c a IH]; [congruence|]. intros _ H. inversion H as [|? ? Hc Ha]; subst.
  cbn [words]. rewrite Hc. destruct a as [|c2 a']; [reflexivity|].
  inversion Ha as [|? ? Hc2 _]; subst. rewrite Hc2. rewrite IH by (try discriminate; assumption). reflexivity.
Qed.

Lemma words_two a b : a <> [] -> b <> [] -> nosp a -> nosp b -> words (a ++ 10 :: b) = [a; b].
Proof.
  intros Ha Hb Na Nb. induction a as [|c a IH]; [congruence|]. inversion Na as [|? ? Hc Na']; subst.
  cbn [app words]. rewrite Hc. destruct a as [|c2 a'].
  - cbn [app]. change (is_space 10) with true. cbv iota. cbn [words]. change (is_space 10) with true.
    cbv iota. rewrite words_one by assumption. reflexivity.
  - inversion Na' as [|? ? Hc2 _]; subst. cbn [app]. rewrite Hc2.
    cbn [app] in IH. rewrite IH by (try discriminate; assumption). reflexivity.
Qed.

Lemma lstrip_nonempty l : (exists x, In x l /\ is_space x = false) -> lstrip l <> [].
Proof.
  induction l as [|y l IH]; intros [x [Hin Hx]]; [contradiction|].
  cbn [lstrip]. destruct (is_space y) eqn:E; [|discriminate].
  apply IH. exists x. split; [|exact Hx]. destruct Hin as [->|Hin]; [congruence|exact Hin].
Qed.

Lemma strip_nonnil c r : is_space c = false -> isnil (strip (c :: r)) = false.
Proof.
  intro Hc. unfold strip, rstrip. cbn [lstrip]. rewrite Hc.
  assert (H : lstrip (rev (c :: r)) <> []).
  { apply lstrip_nonempty. exists c. split; [apply in_rev; rewrite rev_involutive; left; reflexivity|exact Hc]. }
  destruct (lstrip (rev (c :: r))) as [|x l] eqn:E; [congruence|].
  cbn [rev]. destruct (rev l); reflexivity.
Qed.

Lemma strip_nonnil_app a b : a <> [] -> nosp a -> isnil (strip (a ++ b)) = false.
Proof.
  intros Ha Hn. destruct a as [|c r]; [congruence|]. inversion Hn; subst.
  cbn [app]. apply strip_nonnil. assumption.
Qed.

(* ---- alphabets ---- *)
Definition linec (c : Z) : bool := valc c || (c =? 61) || (c =? 59) || (c =? 58).
Definition txtc (c : Z) : bool := linec c || (c =? 10).

Lemma linec_props c : linec c = true -> is_space c = false /\ is_lower c = false /\ is_ascii c = true.
Proof.
  unfold linec, valc, atomc, is_digit, is_upper, is_space, is_lower, is_ascii. lia.
Qed.

Lemma txtc_props c : txtc c = true -> is_lower c = false /\ is_ascii c = true.
Proof.
  unfold txtc, linec, valc, atomc, is_digit, is_upper, is_lower, is_ascii. lia.
Qed.

Lemma valc_linec s : Forall (fun c => valc c = true) s -> Forall (fun c => linec c = true) s.
Proof. intro H. eapply Forall_impl; [|exact H]. intros c Hc. unfold linec. rewrite Hc. reflexivity. Qed.

Lemma linec_nosp s : Forall (fun c => linec c = true) s -> nosp s.
Proof. intro H. eapply Forall_impl; [|exact H]. intros c Hc. apply linec_props, Hc. Qed.

Lemma txt_upper s : Forall (fun c => txtc c = true) s -> upper s = s.
Proof. intro H. apply upper_id. eapply Forall_impl; [|exact H]. intros c Hc. apply txtc_props, Hc. Qed.

Lemma txt_ascii s : Forall (fun c => txtc c = true) s -> forallb is_ascii s = true.
Proof. intro H. apply forallb_forall. rewrite Forall_forall in H. intros c Hc. apply txtc_props, H, Hc. Qed.

Lemma linec_txtc s : Forall (fun c => linec c = true) s -> Forall (fun c => txtc c = true) s.
Proof. intro H. eapply Forall_impl; [|exact H]. intros c Hc. unfold txtc. rewrite Hc. reflexivity. Qed.

(* the rule value of a spelling: characters, no ':' *)
Lemma spell_value_chars c k : wf_kw k = true ->
  Forall (fun ch => linec ch = true) (spell_value c k) /\ has_char 58 (spell_value c k) = false
  /\ spell_value c k <> [].
Proof.
  intro H. destruct (parts_wf k H) as [Hwf Hne]. unfold spell_value.
  pose proof (permute_perm (PCount 0) (c_perm c) (parts_of_kw k)) as HP.
  set (ps := permute (PCount 0) (c_perm c) (parts_of_kw k)) in *.
  assert (Hps : forall p, In p ps -> wf_part p = true).
  { intros p Hp. rewrite forallb_forall in Hwf. apply Hwf.
    eapply Permutation_in; [apply Permutation_sym, HP|exact Hp]. }
  assert (Hall : Forall (fun ch => valc ch = true \/ ch = 61 \/ ch = 59) (join [59] (map (render_part c) ps))).
  { apply join_forall; [right; right; reflexivity|].
    apply Forall_forall. intros s Hs. apply in_map_iff in Hs as [p [<- Hp]].
    eapply Forall_impl; [|apply render_chars, Hps, Hp]. intros a [?|?]; [left|right; left]; assumption. }
  split; [|split].
  - eapply Forall_impl; [|exact Hall]. intros a [Ha|[->| ->]]; [unfold linec; rewrite Ha|..]; reflexivity.
  - apply has_char_false. eapply Forall_impl; [|exact Hall].
    intros a [Ha|[->| ->]]; [|lia|lia]. apply valc_not; [exact Ha|cbn; tauto].
  - destruct ps as [|p ps'] eqn:E.
    + apply Permutation_sym, Permutation_nil in HP. contradiction.
    + destruct (render_handle c p (Hps p (or_introl eq_refl))) as [name [value [Er _]]].
      cbn [map]. destruct (map (render_part c) ps'); cbn [join]; rewrite Er; destruct name; discriminate.
Qed.

Lemma wf_kw_freq k : wf_kw k = true -> isNone (k_freq k) = false.
Proof. unfold wf_kw. destruct (k_freq k); [reflexivity|discriminate]. Qed.

(* ---- no DTSTART line: the start comes from dtstart= (or is absent) ---- *)
(* what the keyword construction rrule(dtstart=start, **k) gives; when it fails, the class rrulestr
   reports: the constructor's OverflowError (an hour / minute / second beyond 32 bits) becomes a
   ValueError in _parse_rfc_rrule (fb1f638), every other class is passed on *)
Definition single (ev : env) (cache : bool) (start : option dt) (k : kwargs) : result :=
  match catch (ctor ev start k) [EOverflow] EValue with Ok r => RRule cache r | Err e => RErr e end.
Lemma single_ok ev cache start k r : ctor ev start k = Ok r -> single ev cache start k = RRule cache r.
Proof. unfold single. intros ->. reflexivity. Qed.

Theorem rrulestr_value ev o c k : wf_kw k = true ->
  o_forceset o = false -> o_compatible o = false -> o_ignoretz o = false -> o_unfold o = false ->
  parse_rfc ev o ((if c_prefix c then s_RRULEc else []) ++ spell_value c k) = single ev (o_cache o) (o_dtstart o) k.
Proof.
  intros Hk Hf Hc Hi Hu. destruct (spell_value_chars c k Hk) as [Hch [H58 Hne]].
  set (v := spell_value c k) in *.
  set (t := (if c_prefix c then s_RRULEc else []) ++ v).
  assert (Hpre : Forall (fun ch => linec ch = true) t).
  { apply Forall_app; split; [|exact Hch]. destruct (c_prefix c); repeat constructor. }
  assert (Hnn : t <> []).
  { unfold t. destruct (c_prefix c); [discriminate|exact Hne]. }
  unfold parse_rfc. rewrite (txt_ascii _ (linec_txtc _ Hpre)). cbn [negb].
  rewrite <- (app_nil_r t) at 1. rewrite strip_nonnil_app by (try assumption; apply linec_nosp, Hpre).
  rewrite Hc, Hu. cbn [orb].
  unfold get_lines. rewrite words_one by (try assumption; apply linec_nosp, Hpre).
  cbn [map]. rewrite (txt_upper _ (linec_txtc _ Hpre)).
  unfold parse_lines. rewrite Hf, Hc. cbn [orb].
  unfold shortcut. cbn [negb List.length andb Z.of_nat Pos.of_succ_nat Z.eqb Pos.eqb].
  assert (Hs : negb (has_char 58 t) || startswith s_RRULEc t = true).
  { unfold t. destruct (c_prefix c); cbn [app]; [rewrite orb_true_iff; right; reflexivity|].
    rewrite H58. reflexivity. }
  rewrite Hs. unfold parse_rule, single. rewrite Hi.
  assert (Hkw : parse_rrule_kw false t = Ok k).
  { unfold t. destruct (c_prefix c).
    - unfold parse_rrule_kw, rrule_value.
      change (s_RRULEc ++ v) with (s_RRULE ++ 58 :: v).
      rewrite has_char_app. cbn [has_char existsb Z.eqb orb].
      replace (has_char 58 s_RRULE || true) with true by (rewrite orb_true_r; reflexivity).
      rewrite split_on_app by reflexivity. rewrite split_on_nosep by exact H58.
      change (leqb s_RRULE s_RRULE) with true. cbv iota.
      pose proof (spell_value_parse c k Hk) as P. unfold parse_rrule_kw, rrule_value in P.
      fold v in P. rewrite H58 in P. exact P.
    - cbn [app]. apply spell_value_parse, Hk. }
  rewrite Hkw. rewrite (wf_kw_freq k Hk). reflexivity.
Qed.

(* ---- the property loop on the two lines DTSTART / RRULE ---- *)
Lemma do_line_DTSTART o names nm parms value a :
  split_on 59 nm = s_DTSTART :: parms -> has_char 58 nm = false ->
  do_line o names (nm ++ 58 :: value) a =
  match parse_date_value o names value parms with
  | Err e => Err e
  | Ok [d] => Ok (mkacc (a_rr a) (a_rd a) (a_xr a) (a_xd a) (Some d))
  | Ok _ => Err EValue
  end.
Proof.
  intros Hs H58. unfold do_line. rewrite isnil_app_cons. rewrite split1_app by exact H58.
  cbn [fst snd]. rewrite Hs. reflexivity.
Qed.

Lemma do_line_RRULE o names value a : 
  do_line o names (s_RRULEc ++ value) a =
  Ok (mkacc (a_rr a ++ [value]) (a_rd a) (a_xr a) (a_xd a) (a_start a)).
Proof.
  unfold do_line. change (s_RRULEc ++ value) with (s_RRULE ++ 58 :: value).
  rewrite isnil_app_cons. rewrite split1_app by reflexivity. reflexivity.
Qed.

Lemma do_line_bare o names value a : value <> [] -> has_char 58 value = false ->
  do_line o names value a =
  Ok (mkacc (a_rr a ++ [value]) (a_rd a) (a_xr a) (a_xd a) (a_start a)).
Proof.
  intros Hne H58. unfold do_line. destruct value as [|x v]; [congruence|]. cbn [isnil].
  rewrite split1_none by exact H58. reflexivity.
Qed.

Lemma pdv_one o names parms value d : pdv_parms o names parms 0 false = Ok 0 ->
  o_ignoretz o = false -> Forall (fun c => atomc c = true) value -> parse_date false value = DOk d ->
  parse_date_value o names value parms = Ok [d].
Proof.
  intros Hp Hi Hv Hd. unfold parse_date_value. rewrite Hp, Hi.
  rewrite split_on_nosep by (apply atoms_no_char; [exact Hv|cbn; tauto]).
  cbn [pdv_dates]. rewrite Hd. cbn [Z.eqb negb andb]. reflexivity.
Qed.

(* the parameters a DTSTART line may carry (without TZID) *)
Definition dt_parms (c : choice) (d : dt) : list str :=
  if c_inline c =? 2 then (if c_dshort c && is_midnight d then [s_VALUE_D] else [s_VALUE_DT]) else [].

Lemma dtstart_line_shape c d : dtz d = 0 \/ dtz d = 1 ->
  exists nm, dtstart_line c [] d = nm ++ 58 :: dt_spell (c_dshort c) d /\
    split_on 59 nm = s_DTSTART :: dt_parms c d /\ has_char 58 nm = false /\
    Forall (fun ch => linec ch = true) nm /\ nm <> [] /\
    forall o names, pdv_parms o names (dt_parms c d) 0 false = Ok 0.
Proof.
  intro Htz. unfold dtstart_line, dt_parms.
  replace (2 <=? dtz d) with false by lia.
  destruct (c_inline c =? 2); [destruct (c_dshort c && is_midnight d)|].
  - exists (s_DTSTART ++ s_VALUEDparm). rewrite <- !app_assoc. cbn [app].
    split; [reflexivity|split; [reflexivity|split; [reflexivity|split; [repeat constructor|split; [discriminate|reflexivity]]]]].
  - exists (s_DTSTART ++ s_VALUEDTparm). rewrite <- !app_assoc. cbn [app].
    split; [reflexivity|split; [reflexivity|split; [reflexivity|split; [repeat constructor|split; [discriminate|reflexivity]]]]].
  - exists s_DTSTART. cbn [app].
    split; [reflexivity|split; [reflexivity|split; [reflexivity|split; [repeat constructor|split; [discriminate|reflexivity]]]]].
Qed.

Theorem rrulestr_dtstart_line ev o c d k : wf_kw k = true ->
  valid_dt d = true -> dus d = 0 -> (dtz d = 0 \/ dtz d = 1) ->
  o_forceset o = false -> o_compatible o = false -> o_ignoretz o = false -> o_unfold o = false ->
  parse_rfc ev o (dtstart_line c [] d ++ [10] ++ (if c_prefix c then s_RRULEc else []) ++ spell_value c k)
  = single ev (o_cache o) (Some d) k.
Proof.
  intros Hk Hv Hus Htz Hf Hc Hi Hu. destruct (spell_value_chars c k Hk) as [Hch [H58 Hne]].
  set (v := spell_value c k) in *.
  destruct (dtstart_line_shape c d Htz) as [nm [El [Hsp [Hn58 [Hnm [Hnmne Hpp]]]]]].
  rewrite El. set (dv := dt_spell (c_dshort c) d).
  assert (Hdv : Forall (fun ch => atomc ch = true) dv) by apply dt_spell_atoms.
  set (l1 := nm ++ 58 :: dv). set (l2 := (if c_prefix c then s_RRULEc else []) ++ v).
  assert (H1 : Forall (fun ch => linec ch = true) l1).
  { apply Forall_app; split; [exact Hnm|]. constructor; [reflexivity|]. apply valc_linec, atoms_vals, Hdv. }
  assert (H2 : Forall (fun ch => linec ch = true) l2).
  { apply Forall_app; split; [|exact Hch]. destruct (c_prefix c); repeat constructor. }
  assert (N1 : l1 <> []) by (unfold l1; destruct nm; discriminate).
  assert (N2 : l2 <> []) by (unfold l2; destruct (c_prefix c); [discriminate|exact Hne]).
  change (l1 ++ [10] ++ l2) with (l1 ++ 10 :: l2).
  assert (Ht : Forall (fun ch => txtc ch = true) (l1 ++ 10 :: l2)).
  { apply Forall_app; split; [apply linec_txtc, H1|]. constructor; [reflexivity|apply linec_txtc, H2]. }
  unfold parse_rfc. rewrite (txt_ascii _ Ht). cbn [negb].
  rewrite strip_nonnil_app by (try assumption; apply linec_nosp, H1).
  rewrite Hc, Hu. cbn [orb].
  unfold get_lines. rewrite words_two by (try assumption; apply linec_nosp; assumption).
  cbn [map]. rewrite (txt_upper _ Ht), (txt_upper _ (linec_txtc _ H1)), (txt_upper _ (linec_txtc _ H2)).
  unfold parse_lines. rewrite Hf, Hc. cbn [orb].
  unfold shortcut. cbn [negb List.length andb Z.of_nat Pos.of_succ_nat Z.eqb Pos.eqb Pos.succ].
  unfold general. cbn [do_lines].
  unfold l1 at 1. rewrite (do_line_DTSTART _ _ nm (dt_parms c d) dv _ Hsp Hn58).
  rewrite (pdv_one o _ _ dv d (Hpp o _) Hi Hdv (parse_date_dt_spell _ d Hv Hus Htz)).
  cbn [a_rr a_rd a_xr a_xd a_start].
  assert (L2 : forall names a, do_line o names l2 a =
                         Ok (mkacc (a_rr a ++ [v]) (a_rd a) (a_xr a) (a_xd a) (a_start a))).
  { intros names a. unfold l2. destruct (c_prefix c); [apply do_line_RRULE|].
    cbn [app]. apply do_line_bare; assumption. }
  rewrite L2. cbn [a_rr a_rd a_xr a_xd a_start app].
  unfold assemble. cbn [a_rr a_rd a_xr a_xd a_start List.length isnil negb orb Z.of_nat Pos.of_succ_nat Z.ltb Z.compare Pos.compare Pos.compare_cont].
  unfold parse_rule, single. rewrite Hi. fold v. unfold v. rewrite (spell_value_parse c k Hk).
  rewrite (wf_kw_freq k Hk). reflexivity.
Qed.
