(* Python string / int primitives used by rrule.__str__ and _rrulestr (ASCII alphabet).
   Strings are lists of code points.  Model file: definitions only. *)
From Coq Require Import ZArith List Bool String Ascii.
Import ListNotations.
Open Scope Z_scope.

Definition str := list Z.

Fixpoint zs (s : string) : str :=
  match s with
  | EmptyString => []
  | String a r => Z.of_N (N_of_ascii a) :: zs r
  end.

Fixpoint leqb (a b : str) : bool :=
  match a, b with
  | [], [] => true
  | x :: a', y :: b' => (x =? y) && leqb a' b'
  | _, _ => false
  end.

Definition isnil {A} (l : list A) : bool := match l with [] => true | _ => false end.

(* ---- character classes (ASCII; measured on CPython 3.12 by harness/rstr_prims) ---- *)
(* str.split(), str.strip(), str.rstrip(): \t \n \v \f \r \x1c..\x1f and space *)
Definition is_space (c : Z) : bool := ((9 <=? c) && (c <=? 13)) || ((28 <=? c) && (c <=? 32)).
(* int(): \t \n \v \f \r and space only *)
Definition is_space_int (c : Z) : bool := ((9 <=? c) && (c <=? 13)) || (c =? 32).
(* str.splitlines(): \n \v \f \r \x1c \x1d \x1e (and the pair \r\n) *)
Definition is_lb (c : Z) : bool := ((10 <=? c) && (c <=? 13)) || ((28 <=? c) && (c <=? 30)).
Definition is_digit (c : Z) : bool := (48 <=? c) && (c <=? 57).
Definition is_lower (c : Z) : bool := (97 <=? c) && (c <=? 122).
Definition is_upper (c : Z) : bool := (65 <=? c) && (c <=? 90).

Definition upc (c : Z) : Z := if is_lower c then c - 32 else c.
Definition loc (c : Z) : Z := if is_upper c then c + 32 else c.
Definition upper (s : str) : str := map upc s.
Definition lower (s : str) : str := map loc s.

Fixpoint lstrip (s : str) : str :=
  match s with
  | c :: r => if is_space c then lstrip r else s
  | [] => []
  end.
Definition rstrip (s : str) : str := rev (lstrip (rev s)).
Definition strip (s : str) : str := rstrip (lstrip s).

(* str.split() with no argument *)
Fixpoint words (s : str) : list str :=
  match s with
  | [] => []
  | c :: r =>
    let ws := words r in
    if is_space c then ws
    else match r with
         | [] => [[c]]
         | c2 :: _ => if is_space c2 then [c] :: ws
                      else match ws with w :: t => (c :: w) :: t | [] => [[c]] end
         end
  end.

(* str.splitlines(); skiplf = the previous character was \r *)
Fixpoint slines (skiplf : bool) (s : str) : list str :=
  match s with
  | [] => []
  | c :: r =>
    if skiplf && (c =? 10) then slines false r
    else if is_lb c then [] :: slines (c =? 13) r
    else match slines false r with h :: t => (c :: h) :: t | [] => [[c]] end
  end.
Definition splitlines (s : str) : list str := slines false s.

(* s.split(c) for a one-character separator: always a non-empty list *)
Fixpoint split_on (c : Z) (s : str) : list str :=
  match s with
  | [] => [[]]
  | x :: r =>
    if x =? c then [] :: split_on c r
    else match split_on c r with h :: t => (x :: h) :: t | [] => [[x]] end
  end.

(* s.split(c, 1) when c occurs: (before, after) *)
Fixpoint split1 (c : Z) (s : str) : option (str * str) :=
  match s with
  | [] => None
  | x :: r => if x =? c then Some ([], r)
              else match split1 c r with Some (a, b) => Some (x :: a, b) | None => None end
  end.

Definition has_char (c : Z) (s : str) : bool := existsb (fun x => x =? c) s.

Fixpoint startswith (p s : str) : bool :=
  match p, s with
  | [], _ => true
  | x :: p', y :: s' => (x =? y) && startswith p' s'
  | _ :: _, [] => false
  end.

Fixpoint join (sep : str) (l : list str) : str :=
  match l with
  | [] => []
  | [x] => x
  | x :: r => x ++ sep ++ join sep r
  end.

(* parm.split('TZID=')[-1] for a parm that contains 'TZID=' : the text after the last
   occurrence ('TZID=' cannot overlap itself, so left-to-right non-overlapping = all). *)
Definition s_TZIDeq : str := zs "TZID=".
Fixpoint after_last_tzid (s : str) : option str :=
  match s with
  | [] => None
  | _ :: r => match after_last_tzid r with
              | Some x => Some x
              | None => if startswith s_TZIDeq s then Some (skipn 5 s) else None
              end
  end.

(* span of a prefix satisfying p *)
Fixpoint span (p : Z -> bool) (s : str) : str * str :=
  match s with
  | [] => ([], [])
  | c :: r => if p c then let '(a, b) := span p r in (c :: a, b) else ([], s)
  end.

(* re.findall('(?i)TZID=(?P<name>[^:;]+)[:;]', s) (5fe9b57): leftmost non-overlapping matches; the
   literal part matches in any letter case (ASCII).  At a position that starts with 'TZID=' the
   greedy [^:;]+ takes the whole run of characters other than ':' and ';'; it matches iff that run
   is non-empty and a ':' or ';' follows (no shorter run can be followed by one).  After a match the scan resumes behind the ':' (skip
   counter). *)
Fixpoint startswith_ci (p s : str) : bool :=
  match p, s with
  | [], _ => true
  | x :: p', y :: s' => (x =? upc y) && startswith_ci p' s'
  | _ :: _, [] => false
  end.

Fixpoint tzid_scan (skip : nat) (s : str) : list str :=
  match s with
  | [] => []
  | _ :: r =>
    match skip with
    | S k => tzid_scan k r
    | O =>
      if startswith_ci s_TZIDeq s then
        let '(name, after) := span (fun c => negb ((c =? 58) || (c =? 59))) (skipn 5 s) in
        match name, after with
        | _ :: _, _ :: _ => name :: tzid_scan (4 + List.length name + 1)%nat r
        | _, _ => tzid_scan O r
        end
      else tzid_scan O r
    end
  end.
Definition tzid_findall (s : str) : list str := tzid_scan O s.

(* dict(map(lambda x: (x.upper(), x), names))[key] : the last name whose upper() is key *)
Definition tzid_lookup (names : list str) (key : str) : option str :=
  find (fun n => leqb (upper n) key) (rev names).

(* ---- int(s) for ASCII strings: surrounding whitespace, optional sign, digits with single
   underscores between digits ---- *)
Fixpoint int_body (acc : Z) (prevd : bool) (s : str) : option Z :=
  match s with
  | [] => if prevd then Some acc else None
  | c :: r => if is_digit c then int_body (acc * 10 + (c - 48)) true r
              else if (c =? 95) && prevd then int_body acc false r
              else None
  end.
Fixpoint lstrip_int (s : str) : str :=
  match s with
  | c :: r => if is_space_int c then lstrip_int r else s
  | [] => []
  end.
Definition strip_int (s : str) : str := rev (lstrip_int (rev (lstrip_int s))).
Definition py_int (s : str) : option Z :=
  match strip_int s with
  | [] => None
  | c :: r =>
    if c =? 43 then int_body 0 false r
    else if c =? 45 then match int_body 0 false r with Some v => Some (- v) | None => None end
    else int_body 0 false (c :: r)
  end.

(* ---- str(int), '{:+d}', fixed-width fields ---- *)
Fixpoint digs (fuel : nat) (n : Z) : str :=
  match fuel with
  | O => []
  | S f => if n <? 10 then [48 + n] else digs f (n / 10) ++ [48 + n mod 10]
  end.
Definition nat_digits (n : Z) : str :=
  match n with
  | Zpos p => digs (Pos.size_nat p) n
  | _ => [48]
  end.
Definition str_of_int (n : Z) : str :=
  if n <? 0 then 45 :: nat_digits (- n) else nat_digits n.
Definition fmt_plus (n : Z) : str :=
  if n <? 0 then 45 :: nat_digits (- n) else 43 :: nat_digits n.

Definition d2 (n : Z) : str := [48 + (n / 10) mod 10; 48 + n mod 10].
Definition d4 (n : Z) : str := [48 + (n / 1000) mod 10; 48 + (n / 100) mod 10; 48 + (n / 10) mod 10; 48 + n mod 10].
Definition dval (c : Z) : Z := c - 48.
