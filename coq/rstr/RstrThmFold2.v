(* Folded spelling at top level: with unfold=True a DTSTART + RRULE text folded at any positions
   is read like the unfolded text. *)
From Coq Require Import ZArith List Bool Lia ZifyBool.
From V Require Import base.Cal rstr.RstrPrim rstr.RstrLemmas rstr.RstrModel rstr.RstrSpec
  rstr.RstrThmInt rstr.RstrThmWd rstr.RstrThmDate rstr.RstrThmParts rstr.RstrThmSpell rstr.RstrThmTop
  rstr.RstrThmSet rstr.RstrThmFold rstr.RstrThmErr rstr.RstrThmFinal.
Import ListNotations.
Open Scope Z_scope.

(* the property loop + assembly on the two lines *)
Lemma general_two ev o names c d k : wf_kw k = true ->
  valid_dt d = true -> dus d = 0 -> (dtz d = 0 \/ dtz d = 1) ->
  o_forceset o = false -> o_compatible o = false -> o_ignoretz o = false ->
  general ev o false names [dtstart_line c [] d; (if c_prefix c then s_RRULEc else []) ++ spell_value c k]
  = single ev (o_cache o) (Some d) k.
Proof.
  intros Hk Hv Hus Htz Hf Hc Hi. destruct (spell_value_chars c k Hk) as [Hch [H58 Hne]].
  set (v := spell_value c k) in *.
  destruct (dtstart_line_shape c d Htz) as [nm [El [Hsp [Hn58 [Hnm [Hnmne Hpp]]]]]].
  rewrite El. set (dv := dt_spell (c_dshort c) d).
  assert (Hdv : Forall (fun ch => atomc ch = true) dv) by apply dt_spell_atoms.
  unfold general. cbn [do_lines].
  rewrite (do_line_DTSTART _ _ nm (dt_parms c d) dv _ Hsp Hn58).
  rewrite (pdv_one o _ _ dv d (Hpp o _) Hi Hdv (parse_date_dt_spell _ d Hv Hus Htz)).
  cbn [a_rr a_rd a_xr a_xd a_start].
  assert (L2 : forall a, do_line o names ((if c_prefix c then s_RRULEc else []) ++ v) a =
                         Ok (mkacc (a_rr a ++ [v]) (a_rd a) (a_xr a) (a_xd a) (a_start a))).
  { intro a. destruct (c_prefix c); [apply do_line_RRULE|].
    cbn [app]. apply do_line_bare; assumption. }
  rewrite L2. cbn [a_rr a_rd a_xr a_xd a_start app].
  unfold assemble. cbn [a_rr a_rd a_xr a_xd a_start List.length isnil negb orb Z.of_nat Pos.of_succ_nat Z.ltb Z.compare Pos.compare Pos.compare_cont].
  unfold parse_rule, single. rewrite Hi. fold v. unfold v. rewrite (spell_value_parse c k Hk).
  rewrite (wf_kw_freq k Hk). reflexivity.
Qed.

(* characters of folded lines *)
Definition ftxtc (c : Z) : bool := txtc c || (c =? 32).

Lemma ftxtc_props c : ftxtc c = true -> is_lower c = false /\ is_ascii c = true.
Proof.
  unfold ftxtc, txtc, linec, valc, atomc, is_digit, is_upper, is_lower, is_ascii. lia.
Qed.

Lemma fold_line_chars ps : forall s i, Forall (fun c => linec c = true) s ->
  Forall (fun c => ftxtc c = true) (fold_line ps i s).
Proof.
  induction s as [|ch s IH]; intros i H; [constructor|]. inversion H as [|? ? Hc Hs]; subst.
  cbn [fold_line]. apply Forall_app; split.
  - destruct (mem_nat i ps && negb (i =? 0)%nat); repeat constructor.
  - constructor; [unfold ftxtc, txtc; rewrite Hc; reflexivity|apply IH, Hs].
Qed.

Lemma fold_line_head ps c t : fold_line ps 0 (c :: t) = c :: fold_line ps 1 t.
Proof. cbn [fold_line]. rewrite andb_false_r. reflexivity. Qed.

Theorem rrulestr_folded ev o c d k ps : wf_kw k = true ->
  valid_dt d = true -> dus d = 0 -> (dtz d = 0 \/ dtz d = 1) ->
  o_forceset o = false -> o_compatible o = false -> o_ignoretz o = false -> o_unfold o = true ->
  parse_rfc ev o (join [10] (map (fold_line ps 0)
     [dtstart_line c [] d; (if c_prefix c then s_RRULEc else []) ++ spell_value c k]))
  = single ev (o_cache o) (Some d) k.
Proof.
  intros Hk Hv Hus Htz Hf Hc Hi Hu. destruct (spell_value_chars c k Hk) as [Hch [H58 Hne]].
  destruct (dtstart_line_shape c d Htz) as [nm [El [Hsp [Hn58 [Hnm [Hnmne Hpp]]]]]].
  set (l1 := dtstart_line c [] d). set (l2 := (if c_prefix c then s_RRULEc else []) ++ spell_value c k).
  assert (H1 : Forall (fun ch => linec ch = true) l1).
  { unfold l1. rewrite El. apply Forall_app; split; [exact Hnm|]. constructor; [reflexivity|].
    apply valc_linec, atoms_vals, dt_spell_atoms. }
  assert (H2 : Forall (fun ch => linec ch = true) l2).
  { apply Forall_app; split; [|exact Hch]. destruct (c_prefix c); repeat constructor. }
  assert (N1 : l1 <> []) by (unfold l1; rewrite El; destruct nm; discriminate).
  assert (N2 : l2 <> []) by (unfold l2; destruct (c_prefix c); [discriminate|exact Hne]).
  assert (Hok : Forall okseg [l1; l2]).
  { constructor; [split; [exact N1|apply linec_nosp, H1]|constructor; [split; [exact N2|apply linec_nosp, H2]|constructor]]. }
  set (s := join [10] (map (fold_line ps 0) [l1; l2])).
  assert (Ht : Forall (fun ch => ftxtc ch = true) s).
  { unfold s. cbn [map join]. apply Forall_app; split; [apply fold_line_chars, H1|].
    constructor; [reflexivity|]. apply fold_line_chars, H2. }
  assert (Hup : upper s = s).
  { apply upper_id. eapply Forall_impl; [|exact Ht]. intros ch Hch'. apply ftxtc_props, Hch'. }
  assert (Has : forallb is_ascii s = true).
  { apply forallb_forall. rewrite Forall_forall in Ht. intros ch Hin. apply ftxtc_props, Ht, Hin. }
  unfold parse_rfc. rewrite Has. cbn [negb].
  assert (Hst : isnil (strip s) = false).
  { unfold s. cbn [map join]. destruct l1 as [|c0 t1] eqn:E1; [congruence|].
    rewrite fold_line_head. cbn [app]. apply strip_nonnil.
    inversion H1 as [|? ? Hc0 _]; subst. apply linec_props, Hc0. }
  rewrite Hst. rewrite Hc, Hu. cbn [orb]. rewrite Hup. unfold s. rewrite (unfold_fold_lines ps [l1; l2] Hok).
  cbn [map]. rewrite (txt_upper l1 (linec_txtc l1 H1)), (txt_upper l2 (linec_txtc l2 H2)).
  unfold parse_lines. rewrite Hf, Hc. cbn [orb].
  unfold shortcut. cbn [negb List.length andb Z.of_nat Pos.of_succ_nat Z.eqb Pos.eqb Pos.succ].
  apply general_two; assumption.
Qed.

(* spelling_invariance, all choices at once (inline DTSTART): order of parts, BYDAY forms, signs,
   DATE / DATE-TIME / Z, VALUE= parameter, RRULE: prefix, folding, letter case.  The two TZID-name
   side conditions say that the text has no TZID parameter (they hold by computation for any
   concrete text; TZID spellings are covered by the differential check only). *)
Theorem spelling_invariance ev o c d k : wf_kw k = true ->
  valid_dt d = true -> dus d = 0 -> (dtz d = 0 \/ dtz d = 1) -> c_inline c <> 0 ->
  o_forceset o = false -> o_compatible o = false -> o_ignoretz o = false -> o_unfold o = true ->
  let folded := join [10] (map (fold_line (c_folds c) 0) (spell_lines c [] (Some d) k)) in
  tzid_findall (join [10] (get_lines true (case_text (c_case c) (c_case c) folded))) =
  tzid_findall (join [10] (get_lines true folded)) ->
  parse_rfc ev o (spell c [] (Some d) k) = single ev (o_cache o) (Some d) k.
Proof.
  intros Hk Hv Hus Htz Hin Hf Hc Hi Hu folded T1. unfold spell. fold folded.
  rewrite (RstrThmErr.spelling_case ev o (c_case c) folded); [|rewrite Hu; exact T1].
  unfold folded, spell_lines. replace (c_inline c =? 0) with false by lia. cbn [app].
  apply rrulestr_folded; assumption.
Qed.

Example ex_spelling_invariance :
  let c := mkchoice true true [2; 1; 3] true [6; 0; 3; 1; 7; 5; 2; 4]%nat true 2 [4; 17; 30]%nat [true; false; true] in
  let d := mkdt 1997 9 2 9 0 0 0 1 in
  let k := RstrThmFinal.kw_ex in
  let folded := join [10] (map (fold_line (c_folds c) 0) (spell_lines c [] (Some d) k)) in
  tzid_findall (join [10] (get_lines true (case_text (c_case c) (c_case c) folded))) =
  tzid_findall (join [10] (get_lines true folded)) /\ c_inline c <> 0.
Proof. vm_compute. split; [reflexivity|discriminate]. Qed.
