(* The compact date forms written by __str__ / allowed by RFC 5545 are read back exactly. *)
From Coq Require Import ZArith List Bool Lia ZifyBool.
From V Require Import base.Cal rstr.RstrPrim rstr.RstrLemmas rstr.RstrModel rstr.RstrSpec.
Import ListNotations.
Open Scope Z_scope.
Ltac Zify.zify_post_hook ::= Z.to_euclidean_division_equations.

Lemma is_digit_48mod x : is_digit (48 + x mod 10) = true.
Proof. unfold is_digit. lia. Qed.

Lemma n4_d4 y : 0 <= y <= 9999 ->
  n4 (48 + (y / 1000) mod 10) (48 + (y / 100) mod 10) (48 + (y / 10) mod 10) (48 + y mod 10) = y.
Proof. intro H. unfold n4, dval. lia. Qed.

Lemma n2_d2 n : 0 <= n <= 99 -> n2 (48 + (n / 10) mod 10) (48 + n mod 10) = n.
Proof. intro H. unfold n2, dval. lia. Qed.

Lemma valid_dt_bounds d : valid_dt d = true ->
  valid_ymd (dy d) (dmo d) (dd d) = true /\ 1 <= dy d <= 9999 /\ 1 <= dmo d <= 12 /\ 1 <= dd d <= 31 /\
  0 <= dh d <= 23 /\ 0 <= dmi d <= 59 /\ 0 <= ds d <= 59.
Proof.
  unfold valid_dt. intro H.
  do 6 (apply andb_true_iff in H as [H ?]).
  split; [exact H|]. unfold valid_ymd in H.
  do 5 (apply andb_true_iff in H as [H ?]).
  pose proof (dim_pos (dy d) (dmo d)). lia.
Qed.

(* the compact forms are never "overlong digit strings" *)
Lemma not_overlong_T s : In 84 s -> overlong_digits s = false.
Proof.
  intro H. unfold overlong_digits. replace (forallb is_digit s) with false; [rewrite andb_false_r; reflexivity|].
  symmetry. apply not_true_is_false. intro F. rewrite forallb_forall in F. specialize (F 84 H). discriminate.
Qed.
Lemma not_overlong_short s : (List.length s < 15)%nat -> overlong_digits s = false.
Proof. intro H. unfold overlong_digits. replace (15 <=? Z.of_nat (List.length s)) with false by lia. reflexivity. Qed.
Lemma parse_date_compact_eq ig s : overlong_digits s = false -> parse_date ig s = parse_date_compact ig s.
Proof. intro H. unfold parse_date. rewrite H. reflexivity. Qed.

Lemma mk_date_ok ig d z : valid_dt d = true -> dus d = 0 ->
  mk_date ig (dy d) (dmo d) (dd d) (dh d) (dmi d) (ds d) z =
  DOk (mkdt (dy d) (dmo d) (dd d) (dh d) (dmi d) (ds d) 0 (if z && negb ig then 1 else 0)).
Proof.
  intros Hv _. destruct (valid_dt_bounds d Hv) as [Hy [? [? [? [? [? ?]]]]]].
  unfold mk_date. rewrite Hy.
  replace (dh d <=? 23) with true by lia. replace (dmi d <=? 59) with true by lia.
  replace (ds d <=? 59) with true by lia. reflexivity.
Qed.

Lemma parse_date_fmt_dt ig d : valid_dt d = true -> dus d = 0 -> dtz d = 0 ->
  parse_date ig (fmt_dt d) = DOk d.
Proof.
  intros Hv Hus Htz. destruct (valid_dt_bounds d Hv) as [Hy [? [? [? [? [? ?]]]]]].
  unfold fmt_dt, d4, d2. cbn [app]. rewrite parse_date_compact_eq by (apply not_overlong_T; cbn [In]; auto 20).
  unfold parse_date_compact. cbv beta iota.
  cbn [forallb]. rewrite !is_digit_48mod. cbn [andb]. rewrite Z.eqb_refl.
  rewrite n4_d4, !n2_d2 by lia. rewrite mk_date_ok by assumption.
  destruct d; cbn in *; subst; reflexivity.
Qed.

Lemma parse_date_fmt_dt_z d : valid_dt d = true -> dus d = 0 -> dtz d = 1 ->
  parse_date false (fmt_dt d ++ [90]) = DOk d.
Proof.
  intros Hv Hus Htz. destruct (valid_dt_bounds d Hv) as [Hy [? [? [? [? [? ?]]]]]].
  unfold fmt_dt, d4, d2. cbn [app]. rewrite parse_date_compact_eq by (apply not_overlong_T; cbn [In]; auto 20).
  unfold parse_date_compact. cbv beta iota.
  cbn [forallb]. rewrite !is_digit_48mod. cbn [andb]. rewrite !Z.eqb_refl. cbn [andb].
  rewrite n4_d4, !n2_d2 by lia. rewrite mk_date_ok by assumption.
  destruct d; cbn in *; subst; reflexivity.
Qed.

Lemma parse_date_fmt_date ig d : valid_dt d = true -> dus d = 0 -> is_midnight d = true ->
  parse_date ig (fmt_date d) = DOk d.
Proof.
  intros Hv Hus Hm. destruct (valid_dt_bounds d Hv) as [Hy [? [? [? [? [? ?]]]]]].
  unfold is_midnight in Hm. repeat (apply andb_true_iff in Hm as [Hm ?]).
  unfold fmt_date, d4, d2. cbn [app]. rewrite parse_date_compact_eq by (apply not_overlong_short; cbn; lia).
  unfold parse_date_compact. cbv beta iota.
  cbn [forallb]. rewrite !is_digit_48mod. cbn [andb].
  rewrite n4_d4, !n2_d2 by lia.
  assert (E0 : dh d = 0) by lia. assert (E1 : dmi d = 0) by lia. assert (E2 : ds d = 0) by lia.
  assert (E3 : dtz d = 0) by lia.
  pose proof (mk_date_ok ig d false Hv Hus) as M. rewrite E0, E1, E2 in M. rewrite M.
  destruct d; cbn in *; subst; reflexivity.
Qed.

(* what UNTIL / DTSTART values look like *)
Theorem parse_date_dt_spell short d : valid_dt d = true -> dus d = 0 -> (dtz d = 0 \/ dtz d = 1) ->
  parse_date false (dt_spell short d) = DOk d.
Proof.
  intros Hv Hus Htz. unfold dt_spell. destruct (short && is_midnight d) eqn:E.
  - apply andb_true_iff in E as [_ E]. apply parse_date_fmt_date; assumption.
  - destruct Htz as [Htz|Htz]; rewrite Htz.
    + change (0 =? 1) with false. rewrite app_nil_r. apply parse_date_fmt_dt; assumption.
    + change (1 =? 1) with true. apply parse_date_fmt_dt_z; assumption.
Qed.

Lemma d_chars_digits d : Forall (fun c => is_digit c = true) (fmt_date d) /\
  Forall (fun c => atomc c = true) (fmt_dt d).
Proof.
  split.
  - unfold fmt_date, d4, d2. cbn [app]. repeat constructor; apply is_digit_48mod.
  - unfold fmt_dt, d4, d2. cbn [app].
    repeat (constructor; [first [reflexivity | unfold atomc; rewrite is_digit_48mod; reflexivity]|]).
    constructor.
Qed.

Lemma dt_spell_atoms short d : Forall (fun c => atomc c = true) (dt_spell short d).
Proof.
  unfold dt_spell. destruct (short && is_midnight d).
  - destruct (d_chars_digits d) as [H _]. eapply Forall_impl; [|exact H].
    intros c Hc. unfold atomc. rewrite Hc. reflexivity.
  - apply Forall_app. split; [apply d_chars_digits|]. destruct (dtz d =? 1); repeat constructor.
Qed.
