(* str(rule) is one of the spellings of the rule's recorded arguments; rrulestr reads it back. *)
From Coq Require Import ZArith List Bool Lia ZifyBool Permutation.
From V Require Import base.Cal rstr.RstrPrim rstr.RstrLemmas rstr.RstrModel rstr.RstrSpec
  rstr.RstrThmInt rstr.RstrThmWd rstr.RstrThmDate rstr.RstrThmParts rstr.RstrThmKw rstr.RstrThmSpell
  rstr.RstrThmTop.
Import ListNotations.
Open Scope Z_scope.

Definition ovals {A} (o : oent A) : option (list A) :=
  match o with OVals (x :: t) => Some (x :: t) | _ => None end.

(* the keyword arguments that str(rule) spells: the recorded original parts *)
Definition kw_of_rule (r : rule) : kwargs :=
  mkkw (Some (r_freq r)) (if r_interval r =? 1 then None else Some (r_interval r))
       (if r_wkst r =? 0 then None else Some (r_wkst r)) (r_count r) (r_until r)
       (ovals (og_bysetpos r)) (ovals (og_bymonth r)) (ovals (og_bymonthday r)) (ovals (og_byyearday r))
       (ovals (og_byeaster r)) (ovals (og_byweekno r)) (ovals (og_byweekday r))
       (ovals (og_byhour r)) (ovals (og_byminute r)) (ovals (og_bysecond r)).

(* the spelling rrule.__str__ chooses *)
Definition c_str : choice := mkchoice false false [] false [] true 1 [] [].

Definition wf_rule (r : rule) : bool :=
  valid_dt (r_dtstart r) && (dus (r_dtstart r) =? 0) && (dtz (r_dtstart r) =? 0)
  && wf_kw (kw_of_rule r)
  && match r_until r with Some u => dtz u =? 0 | None => true end.

Lemma permute_nil {A} (d : A) l : permute d [] l = l.
Proof. destruct l; reflexivity. Qed.

Lemma wds_spell_nil l : wds_spell [] l = map (wd_spell 0) l.
Proof. induction l as [|w l IH]; [reflexivity|]. cbn [wds_spell map hd tl]. rewrite IH. reflexivity. Qed.

Lemma wd_str_spell w : wf_wd w = true -> wd_str w = wd_spell 0 w.
Proof.
  unfold wf_wd, wd_str, wd_spell. destruct (wn w) as [n|]; [|reflexivity].
  intro H. replace (n =? 0) with false by lia. reflexivity.
Qed.

Lemma part_ints_render i o : 0 <= i <= 8 ->
  part_ints (nth (Z.to_nat i) list_names []) o = map (render_part c_str) (opt_part (PList i) (ovals o)).
Proof. intros _. destruct o as [| |[|x t]]; reflexivity. Qed.

Lemma part_wds_render o : match ovals o with Some l => forallb wf_wd l = true | None => True end ->
  part_wds s_BYDAY o = map (render_part c_str) (opt_part PWd (ovals o)).
Proof.
  destruct o as [| |[|x t]]; try reflexivity. cbn [ovals].
  intro H. assert (E : wds_spell [] (x :: t) = map wd_str (x :: t)).
  { rewrite wds_spell_nil. symmetry. apply map_ext_in. intros w Hw.
    apply wd_str_spell. rewrite forallb_forall in H. apply H, Hw. }
  change (part_wds s_BYDAY (OVals (x :: t))) with [s_BYDAY ++ eq_c ++ join [44] (map wd_str (x :: t))].
  change (map (render_part c_str) (opt_part PWd (Some (x :: t))))
    with [s_BYDAY ++ eq_c ++ join [44] (wds_spell [] (x :: t))].
  rewrite E. reflexivity.
Qed.

Lemma to_str_spell r : wf_rule r = true ->
  to_str r = dtstart_line c_str [] (r_dtstart r) ++ [10] ++ s_RRULEc ++ spell_value c_str (kw_of_rule r).
Proof.
  unfold wf_rule. intro H. do 4 (apply andb_true_iff in H as [H ?]).
  assert (Ez : dtz (r_dtstart r) = 0) by lia.
  unfold to_str, dtstart_line, dt_spell. cbn [c_str c_inline c_dshort andb]. rewrite Ez.
  change (1 =? 2) with false. change (2 <=? 0) with false. change (0 =? 1) with false.
  cbn [app]. rewrite app_nil_r. rewrite <- !app_assoc. cbn [app].
  change s_DTSTARTc with (s_DTSTART ++ [58]). rewrite <- !app_assoc. cbn [app].
  do 3 f_equal. unfold spell_value. cbn [c_perm c_str]. rewrite permute_nil.
  do 2 f_equal. unfold str_parts, parts_of_kw, kw_of_rule.
  cbn [k_freq k_interval k_wkst k_count k_until k_bysetpos k_bymonth k_bymonthday k_byyearday k_byeaster
       k_byweekno k_byweekday k_byhour k_byminute k_bysecond].
  rewrite !map_app.
  apply (f_equal (join [59])).
  repeat (apply (f_equal2 (@app str))).
  - reflexivity.
  - destruct (r_interval r =? 1); reflexivity.
  - destruct (r_wkst r =? 0); reflexivity.
  - destruct (r_count r); reflexivity.
  - destruct (r_until r) as [u|]; [|reflexivity]. cbn [opt_part map render_part c_str c_dshort].
    unfold dt_spell. cbn [andb]. replace (dtz u =? 1) with false by lia. rewrite app_nil_r. reflexivity.
  - apply (part_ints_render 0); lia.
  - apply (part_ints_render 1); lia.
  - apply (part_ints_render 2); lia.
  - apply (part_ints_render 3); lia.
  - apply (part_ints_render 5); lia.
  - apply part_wds_render. unfold wf_kw, kw_of_rule in H1.
    cbn [k_freq k_interval k_wkst k_count k_until k_bysetpos k_bymonth k_bymonthday k_byyearday k_byeaster
       k_byweekno k_byweekday k_byhour k_byminute k_bysecond] in H1.
    apply andb_true_iff in H1 as [_ H1]. destruct (ovals (og_byweekday r)) as [[|x t]|]; [discriminate|exact H1|exact I].
  - apply (part_ints_render 6); lia.
  - apply (part_ints_render 7); lia.
  - apply (part_ints_render 8); lia.
  - apply (part_ints_render 4); lia.
Qed.

(* rrulestr(str(rule)) calls the constructor with the recorded original arguments and the start *)
Theorem str_roundtrip_text ev o r : wf_rule r = true ->
  o_forceset o = false -> o_compatible o = false -> o_ignoretz o = false -> o_unfold o = false ->
  parse_rfc ev o (to_str r) = single ev (o_cache o) (Some (r_dtstart r)) (kw_of_rule r).
Proof.
  intros Hr Hf Hc Hi Hu. rewrite (to_str_spell r Hr).
  unfold wf_rule in Hr. do 4 (apply andb_true_iff in Hr as [Hr ?]).
  apply (rrulestr_dtstart_line ev o c_str); try assumption; lia.
Qed.
