(* The code regenerated from class _iterinfo of rrule.py (coq/gen/RRMasksGen.v, by
   harness/gen_rr_masks.py) equals the hand model coq/rr/RRMasks.v, for all inputs. *)
From Coq Require Import ZArith List Bool Lia.
From V Require Import base.Cal gen.RrTables gen.EasterGen rr.RRBase rr.RRNorm rr.RRMasks
  rstr.RRMasksGenBase gen.RRMasksGen.
Import ListNotations.
Open Scope Z_scope.

(* ---------------------------------------------------------------- generic *)
Lemma bind_ok_r {A} (r : res A) : bind r (fun x => Ok x) = r.
Proof. destruct r; reflexivity. Qed.

Lemma bind_congr {A B} (r1 r2 : res A) (k1 k2 : A -> res B) :
  r1 = r2 -> (forall x, k1 x = k2 x) -> bind r1 k1 = bind r2 k2.
Proof. intros -> H. destruct r2; cbn [bind]; auto. Qed.

Lemma bind_assoc {A B C} (r : res A) (f : A -> res B) (g : B -> res C) :
  bind (bind r f) g = bind r (fun x => bind (f x) g).
Proof. destruct r; reflexivity. Qed.

Lemma fold_res_ext {A B} (f g : B -> A -> res B) :
  (forall b a, f b a = g b a) -> forall l b, fold_res f l b = fold_res g l b.
Proof.
  intros H. induction l as [|a l IH]; intro b; cbn [fold_res]; [reflexivity|].
  rewrite H. destruct (g b a); cbn [bind]; auto.
Qed.

Lemma giter_iter_opt o : giter o = iter_opt o.
Proof. destruct o; reflexivity. Qed.

Lemma g_easter_ord_spec y : g_easter_ord y = easter_ord y.
Proof. reflexivity. Qed.

(* ---------------------------------------------------------------- week-number mask *)
Lemma loop2_spec rl ii wdm : forall n mask i,
  bind (gen_rebuild_loop2 rl ii wdm n (mask, i)) (fun st => let '(m, _) := st in Ok m)
  = mark_week n wdm (wkst rl) mask i.
Proof.
  induction n as [|n IH]; intros mask i; cbn [gen_rebuild_loop2 mark_week]; [reflexivity|].
  destruct (py_set mask i 1) as [m'|e]; cbn [bind]; [|reflexivity].
  destruct (py_nth wdm (i + 1)) as [w|e]; cbn [bind]; [|reflexivity].
  destruct (w =? wkst rl); [reflexivity|apply IH].
Qed.

Lemma loop3_spec rl ii wdm : forall n mask i,
  bind (gen_rebuild_loop3 rl ii wdm n (mask, i)) (fun st => let '(m, _) := st in Ok m)
  = mark_week n wdm (wkst rl) mask i.
Proof.
  induction n as [|n IH]; intros mask i; cbn [gen_rebuild_loop3 mark_week]; [reflexivity|].
  destruct (py_set mask i 1) as [m'|e]; cbn [bind]; [|reflexivity].
  destruct (py_nth wdm (i + 1)) as [w|e]; cbn [bind]; [|reflexivity].
  destruct (w =? wkst rl); [reflexivity|apply IH].
Qed.

Lemma loop1_spec rl ii wdm fw no1 nw mask n :
  gen_rebuild_loop1 rl ii wdm fw no1 nw mask n =
  (let n' := if n <? 0 then n + nw + 1 else n in
   if negb ((0 <? n') && (n' <=? nw)) then Ok mask else
   let i := if 1 <? n' then
              (let i0 := no1 + (n' - 1) * 7 in
               if negb (no1 =? fw) then i0 - (7 - fw) else i0)
            else no1 in
   mark_week 7 wdm (wkst rl) mask i).
Proof.
  unfold gen_rebuild_loop1. cbv zeta. rewrite Z.add_assoc.
  destruct (negb _); [reflexivity|]. apply loop2_spec.
Qed.

Lemma loop4_spec rl ii mask i : gen_rebuild_loop4 rl ii mask i = py_set mask i 1.
Proof. unfold gen_rebuild_loop4. apply bind_ok_r. Qed.

Lemma if2_spec rl ii ylen wdm fw no1 nw mask b :
  gen_rebuild_if2 rl ii ylen wdm fw no1 nw mask b =
  (if b then
     let i0 := no1 + nw * 7 in
     let i := if negb (no1 =? fw) then i0 - (7 - fw) else i0 in
     if i <? ylen then mark_week 7 wdm (wkst rl) mask i else Ok mask
   else Ok mask).
Proof.
  unfold gen_rebuild_if2. cbv zeta. destruct b; [|reflexivity].
  destruct (_ <? ylen); [apply loop3_spec|reflexivity].
Qed.

Lemma if1_spec rl ii year ywd no1 mask bwn : byweekno rl = Some bwn ->
  gen_rebuild_if1 rl ii year ywd no1 mask =
  (let lylen := 365 + (if is_leap (year - 1) then 1 else 0) in
   let wk := wkst rl in
   if negb (no1 =? 0) then
    let lnumweeks :=
      (if negb (memZ (-1) bwn) then
         let lyearweekday := (ywd - lylen) mod 7 in
         let lno1wkst := (7 - lyearweekday + wk) mod 7 in
         if 4 <=? lno1wkst then 52 + ((lylen + (lyearweekday - wk) mod 7) mod 7) / 4
         else (let lwyearlen := lylen - lno1wkst in lwyearlen / 7 + (lwyearlen mod 7) / 4)
       else -1) in
    if memZ lnumweeks bwn then
      fold_res (fun mask i => py_set mask i 1) (zrange 0 no1) mask
    else Ok mask
  else Ok mask).
Proof.
  intro B. unfold gen_rebuild_if1. rewrite B. cbn [mem_opt bind]. cbv zeta.
  destruct (negb (no1 =? 0)); [|reflexivity].
  change (- 1) with (-1).
  destruct (negb (memZ (-1) bwn)).
  - destruct (4 <=? _); (destruct (memZ _ bwn); [|reflexivity]);
      apply fold_res_ext; intros; apply loop4_spec.
  - destruct (memZ (-1) bwn); [|reflexivity]. apply fold_res_ext; intros; apply loop4_spec.
Qed.

Lemma if3_spec rl ii year ylen nylen ywd wdm :
  gen_rebuild_if3 rl ii year ylen nylen ywd wdm =
  if negb (truthy (byweekno rl)) then Ok None
  else bind (build_wnomask year ylen nylen ywd (wkst rl) wdm (opt_list (byweekno rl)))
            (fun m => Ok (Some m)).
Proof.
  unfold gen_rebuild_if3. destruct (byweekno rl) as [[|n0 bw]|] eqn:B; cbn [truthy negb]; try reflexivity.
  cbn [opt_list giter bind mem_opt]. set (bwn := n0 :: bw) in *.
  unfold build_wnomask, build_wnomask_core. cbv zeta.
  set (fw := (7 - ywd + wkst rl) mod 7).
  assert (L1 : forall no1 nw m0,
    fold_res (gen_rebuild_loop1 rl ii wdm fw no1 nw) bwn m0 =
    fold_res (fun mask n =>
      if negb ((0 <? (if n <? 0 then n + nw + 1 else n)) && ((if n <? 0 then n + nw + 1 else n) <=? nw))
      then Ok mask
      else mark_week 7 wdm (wkst rl) mask
             (if 1 <? (if n <? 0 then n + nw + 1 else n)
              then if negb (no1 =? fw) then no1 + ((if n <? 0 then n + nw + 1 else n) - 1) * 7 - (7 - fw)
                   else no1 + ((if n <? 0 then n + nw + 1 else n) - 1) * 7
              else no1)) bwn m0).
  { intros. apply fold_res_ext. intros. rewrite loop1_spec. reflexivity. }
  destruct (4 <=? fw) eqn:F; cbv beta iota; rewrite L1, bind_assoc;
    (apply bind_congr; [reflexivity|]); intro mask1; rewrite bind_assoc;
    (match goal with |- bind (if ?b then Ok true else Ok ?c) _ = _ =>
       replace (if b then Ok true else Ok c) with (@Ok bool (b || c)) by (destruct b; reflexivity) end);
    cbn [bind]; rewrite if2_spec; cbv zeta;
    (apply bind_congr; [reflexivity|]); intro mask2;
    rewrite (if1_spec _ _ _ _ _ _ _ B); cbv zeta; reflexivity.
Qed.

(* ---------------------------------------------------------------- nth-weekday mask *)
Lemma loop7_spec rl ii wdm first last mask wn :
  gen_rebuild_loop7 rl ii wdm first last mask wn =
  (let '(wday, n) := wn in
      if n <? 0 then
        let i := last + (n + 1) * 7 in
        if i <? first then Ok mask else
        do w <- py_nth wdm i;
        let i := i - (w - wday) mod 7 in
        if (first <=? i) && (i <=? last) then py_set mask i 1 else Ok mask
      else
        let i := first + (n - 1) * 7 in
        if last <? i then Ok mask else
        do w <- py_nth wdm i;
        let i := i + (7 - w + wday) mod 7 in
        if (first <=? i) && (i <=? last) then py_set mask i 1 else Ok mask).
Proof.
  unfold gen_rebuild_loop7. destruct wn as [wday n]. cbv zeta.
  destruct (n <? 0).
  - destruct (_ <? first); [reflexivity|]. apply bind_congr; [reflexivity|]. intro w. apply bind_ok_r.
  - destruct (last <? _); [reflexivity|]. apply bind_congr; [reflexivity|]. intro w. apply bind_ok_r.
Qed.

Lemma loop6_spec rl ii wdm mask rg pairs : bynweekday rl = Some pairs ->
  gen_rebuild_loop6 rl ii wdm mask rg = nwd_range wdm pairs mask rg.
Proof.
  intro B. unfold gen_rebuild_loop6, nwd_range. rewrite B. cbn [giter bind].
  destruct rg as [|first [|last0 [|x t]]]; try reflexivity. cbv zeta.
  rewrite bind_ok_r. apply fold_res_ext. intros mask' wn. rewrite loop7_spec. reflexivity.
Qed.

Lemma last_indep {A} : forall (l : list A) x d d', last (x :: l) d = last (x :: l) d'.
Proof. induction l as [|y l IH]; intros x d d'; [reflexivity|]. cbn [last] in *. apply (IH y). Qed.

Lemma loop5_spec rl ii mr : forall l acc mo,
  fold_res (gen_rebuild_loop5 rl ii mr) l (acc, mo) =
  Ok (acc ++ map (fun m => py_slice mr (m - 1) (m + 1)) l, last l mo).
Proof.
  induction l as [|m l IH]; intros acc mo; cbn [fold_res map last]; [rewrite app_nil_r; reflexivity|].
  unfold gen_rebuild_loop5 at 1. cbv zeta. cbn [bind]. rewrite IH, <- app_assoc. cbn [app].
  destruct l; [reflexivity|]. f_equal. f_equal. apply last_indep.
Qed.

Lemma if5_spec rl ii month ylen mr :
  gen_rebuild_if5 rl ii month ylen mr =
  Ok (let '(ranges, month') :=
         if freq rl =? YEARLY then
           if truthy (bymonth rl) then
             (map (fun m => py_slice mr (m - 1) (m + 1)) (opt_list (bymonth rl)),
              last (opt_list (bymonth rl)) month)
           else ([[0; ylen]], month)
         else if freq rl =? MONTHLY then ([py_slice mr (month - 1) (month + 1)], month)
         else ([], month) in (month', ranges)).
Proof.
  unfold gen_rebuild_if5, gen_rebuild_if4. change T_YEARLY with YEARLY. change T_MONTHLY with MONTHLY.
  destruct (freq rl =? YEARLY).
  - destruct (bymonth rl) as [[|m0 l]|]; cbn [truthy]; try reflexivity.
    cbn [giter bind opt_list]. rewrite loop5_spec. reflexivity.
  - cbv zeta. destruct (freq rl =? MONTHLY); reflexivity.
Qed.

Lemma if7_spec rl ii year month ylen wdm mr :
  gen_rebuild_if7 rl ii year month ylen wdm mr =
  bind (if truthy (bynweekday rl) && (opt_neqb (lastmonth ii) month || opt_neqb (lastyear ii) year) then
       let '(ranges, month') :=
         if freq rl =? YEARLY then
           if truthy (bymonth rl) then
             (map (fun m => py_slice mr (m - 1) (m + 1)) (opt_list (bymonth rl)),
              last (opt_list (bymonth rl)) month)
           else ([[0; ylen]], month)
         else if freq rl =? MONTHLY then ([py_slice mr (month - 1) (month + 1)], month)
         else ([], month) in
       if nonempty ranges then
         do m <- fold_res (nwd_range wdm (opt_list (bynweekday rl))) ranges (py_repeat 0 ylen);
         Ok (Some m, month')
       else Ok (nwdaymask ii, month')
     else Ok (nwdaymask ii, month))
    (fun r2 => Ok (snd r2, fst r2)).
Proof.
  unfold gen_rebuild_if7. destruct (bynweekday rl) as [[|p0 pl]|] eqn:B; cbn [truthy andb]; try reflexivity.
  destruct (opt_neqb (lastmonth ii) month || opt_neqb (lastyear ii) year); [|reflexivity].
  rewrite if5_spec. cbn [bind opt_list].
  match goal with |- context [let '(_, _) := ?X in (_, _)] => destruct X as [ranges month'] end.
  cbv beta iota zeta. destruct (nonempty ranges); [|reflexivity].
  rewrite !bind_assoc. apply bind_congr; [|reflexivity].
  apply fold_res_ext. intros. apply (loop6_spec _ _ _ _ _ _ B).
Qed.

(* ---------------------------------------------------------------- easter mask *)
Lemma loop8_spec rl ii ylen eyday mask offset :
  gen_rebuild_loop8 rl ii ylen eyday mask offset =
  if (0 <=? eyday + offset) && (eyday + offset <? ylen) then py_set mask (eyday + offset) 1 else Ok mask.
Proof. unfold gen_rebuild_loop8. apply bind_ok_r. Qed.

Lemma loop9_spec rl ii ylen e2 mask offset :
  gen_rebuild_loop9 rl ii ylen e2 mask offset =
  if (ylen <=? e2 + offset) && (e2 + offset <? ylen + 7) then py_set mask (e2 + offset) 1 else Ok mask.
Proof. unfold gen_rebuild_loop9. apply bind_ok_r. Qed.

Lemma zlen_set_nat {A} : forall (l : list A) n v, zlen (set_nat l n v) = zlen l.
Proof.
  unfold zlen. induction l as [|h t IH]; intros n v; [reflexivity|]. destruct n; cbn [set_nat length]; [reflexivity|].
  specialize (IH n v). lia.
Qed.

(* the first loop only writes inside the mask: it cannot raise *)
Lemma easter_first_total eyday ylen : forall offs mask, ylen <= zlen mask ->
  exists m', fold_res (fun mask offset =>
              if (0 <=? eyday + offset) && (eyday + offset <? ylen)
              then py_set mask (eyday + offset) 1 else Ok mask) offs mask = Ok m' /\ zlen m' = zlen mask.
Proof.
  induction offs as [|o offs IH]; intros mask L; cbn [fold_res]; [eauto|].
  destruct ((0 <=? eyday + o) && (eyday + o <? ylen)) eqn:C; cbn [bind].
  - unfold py_set. replace (eyday + o <? 0) with false by lia.
    replace ((eyday + o <? 0) || (zlen mask <=? eyday + o)) with false by lia. cbn [bind].
    destruct (IH (set_nat mask (Z.to_nat (eyday + o)) 1)) as [m' [E Z']]; [rewrite zlen_set_nat; exact L|].
    exists m'. split; [exact E|]. rewrite Z', zlen_set_nat. reflexivity.
  - apply IH. exact L.
Qed.

Lemma zlen_py_repeat {A} (v : A) n : zlen (py_repeat v n) = Z.max 0 n.
Proof. unfold zlen, py_repeat. rewrite repeat_length. lia. Qed.

Lemma if6_spec rl ii year ylen yord :
  gen_rebuild_if6 rl ii year ylen yord =
  (if truthy (byeaster rl) then
       do eo <- easter_ord year;
       let eyday := eo - yord in
       do ne <- (if year <? T_MAXYEAR then do eo2 <- easter_ord (year + 1); Ok (Some (eo2 - yord))
                 else Ok None);
       do m <- build_eastermask eyday ne ylen (opt_list (byeaster rl));
       Ok (Some m)
     else Ok (eastermask ii)).
Proof.
  unfold gen_rebuild_if6. destruct (byeaster rl) as [[|o0 ol]|] eqn:B; cbn [truthy]; try reflexivity.
  cbn [opt_list giter bind]. cbv zeta. rewrite g_easter_ord_spec.
  destruct (easter_ord year) as [eo|e]; cbn [bind]; [|reflexivity].
  unfold build_eastermask.
  destruct (easter_first_total (eo - yord) ylen (o0 :: ol) (py_repeat 0 (ylen + 7))) as [m1 [E1 _]];
    [rewrite zlen_py_repeat; lia|].
  rewrite (fold_res_ext _ _ (loop8_spec rl ii ylen (eo - yord))), E1. cbn [bind].
  destruct (year <? T_MAXYEAR); cbn [bind].
  - rewrite g_easter_ord_spec. destruct (easter_ord (year + 1)) as [eo2|e]; cbn [bind]; [|reflexivity].
    rewrite ?E1. cbn [bind]. rewrite (fold_res_ext _ _ (loop9_spec rl ii ylen (eo2 - yord))). reflexivity.
  - rewrite ?E1. reflexivity.
Qed.

(* ---------------------------------------------------------------- rebuild *)
Lemma iinfo_eta ii : ii = mkII (lastyear ii) (lastmonth ii) (yearlen ii) (nextyearlen ii) (yearordinal ii)
  (yearweekday ii) (mmask ii) (mrange ii) (mdaymask ii) (nmdaymask ii) (wdaymask ii) (wnomask ii)
  (nwdaymask ii) (eastermask ii).
Proof. destruct ii; reflexivity. Qed.

(* the part after the year block, for an arbitrary result of that block *)
Lemma rebuild_rest rl ii year month ylen nylen yord ywd mm mr mdm nmdm wdm wno K c :
  (forall x, K x = Ok x) -> c = opt_neqb (lastyear ii) year ->
  bind (gen_rebuild_if7 rl ii year month ylen wdm mr) (fun st175 : Z * option (list Z) =>
    let '(v_month176, s_nwdaymask177) := st175 in
    bind (gen_rebuild_if6 rl ii year ylen yord) (fun st203 : option (list Z) =>
      K (mkII (Some year) (Some v_month176) ylen nylen yord ywd mm mr mdm nmdm wdm wno s_nwdaymask177 st203)))
  =
  let ii1 := mkII (lastyear ii) (lastmonth ii) ylen nylen yord ywd mm mr mdm nmdm wdm wno
                  (nwdaymask ii) (eastermask ii) in
  do r2 <-
    (if truthy (bynweekday rl) && (opt_neqb (lastmonth ii) month || c) then
       let '(ranges, month') :=
         if freq rl =? YEARLY then
           if truthy (bymonth rl) then
             (map (fun m => py_slice (mrange ii1) (m - 1) (m + 1)) (opt_list (bymonth rl)),
              last (opt_list (bymonth rl)) month)
           else ([[0; yearlen ii1]], month)
         else if freq rl =? MONTHLY then ([py_slice (mrange ii1) (month - 1) (month + 1)], month)
         else ([], month) in
       if nonempty ranges then
         do m <- fold_res (nwd_range (wdaymask ii1) (opt_list (bynweekday rl))) ranges
                          (py_repeat 0 (yearlen ii1));
         Ok (Some m, month')
       else Ok (nwdaymask ii1, month')
     else Ok (nwdaymask ii1, month));
  let '(nwd, month') := r2 in
  do em <-
    (if truthy (byeaster rl) then
       do eo <- easter_ord year;
       let eyday := eo - yearordinal ii1 in
       do ne <- (if year <? T_MAXYEAR then do eo2 <- easter_ord (year + 1); Ok (Some (eo2 - yearordinal ii1))
                 else Ok None);
       do m <- build_eastermask eyday ne (yearlen ii1) (opt_list (byeaster rl));
       Ok (Some m)
     else Ok (eastermask ii1));
  Ok (mkII (Some year) (Some month') (yearlen ii1) (nextyearlen ii1) (yearordinal ii1)
           (yearweekday ii1) (mmask ii1) (mrange ii1) (mdaymask ii1) (nmdaymask ii1) (wdaymask ii1)
           (wnomask ii1) nwd em).
Proof.
  intros HK ->. cbv zeta.
  cbn [lastyear lastmonth yearlen nextyearlen yearordinal yearweekday mmask mrange mdaymask nmdaymask
       wdaymask wnomask nwdaymask eastermask].
  rewrite if7_spec, bind_assoc. apply bind_congr; [reflexivity|]. intros [nwd mo]. cbn [bind fst snd].
  rewrite if6_spec. apply bind_congr; [reflexivity|]. intro em. apply HK.
Qed.

Theorem gen_rebuild_spec rl ii year month : gen_rebuild rl ii year month = rebuild rl ii year month.
Proof.
  unfold gen_rebuild, rebuild, gen_rebuild_if8.
  destruct (opt_neqb (lastyear ii) year) eqn:C.
  - cbv zeta. destruct (date_ord year 1 1) as [yord|e]; cbn [bind]; [|reflexivity].
    set (ylen := 365 + (if is_leap year then 1 else 0)).
    set (nylen := 365 + (if is_leap (year + 1) then 1 else 0)).
    destruct (ylen =? 365); cbv beta iota; rewrite if3_spec, !bind_assoc;
      (destruct (negb (truthy (byweekno rl)));
       [|rewrite !bind_assoc; destruct (build_wnomask _ _ _ _ _ _ _) as [m|e]; [|reflexivity]]);
      cbn [bind]; apply (rebuild_rest rl ii year month); auto.
  - cbn [bind]. destruct ii as [ly lm yl nyl yo yw mm mr mdm nmdm wdm wno nwd em].
    apply (rebuild_rest rl (mkII ly lm yl nyl yo yw mm mr mdm nmdm wdm wno nwd em) year month); auto.
Qed.

(* ---------------------------------------------------------------- day sets *)
Theorem gen_ydayset_spec rl ii y m d : gen_ydayset rl ii y m d = ydayset ii.
Proof. reflexivity. Qed.

Lemma mloop_spec rl ii ds i : gen_mdayset_loop1 rl ii ds i = py_set ds i (Some i).
Proof. unfold gen_mdayset_loop1. apply bind_ok_r. Qed.

Theorem gen_mdayset_spec rl ii y m d : gen_mdayset rl ii y m d = mdayset ii m.
Proof.
  unfold gen_mdayset, mdayset. cbv zeta.
  destruct (py_slice (mrange ii) (m - 1) (m + 1)) as [|st [|en [|x t]]]; try reflexivity.
  apply bind_congr; [|reflexivity]. apply fold_res_ext. intros. apply mloop_spec.
Qed.

Lemma wloop_spec rl ii : forall n ds i,
  gen_wdayset_loop1 rl ii n (ds, i) = wday_loop n (wdaymask ii) (wkst rl) (yearordinal ii) ds i.
Proof.
  induction n as [|n IH]; intros ds i; cbn [gen_wdayset_loop1 wday_loop]; [reflexivity|].
  destruct (py_set ds i (Some i)) as [ds'|e]; cbn [bind]; [|reflexivity].
  destruct (py_nth (wdaymask ii) (i + 1)) as [w|e]; cbn [bind]; [|reflexivity].
  destruct (w =? wkst rl); [reflexivity|].
  destruct (max_ord <? yearordinal ii + (i + 1)); [reflexivity|apply IH].
Qed.

Theorem gen_wdayset_spec rl ii y m d : gen_wdayset rl ii y m d = wdayset rl ii y m d.
Proof.
  unfold gen_wdayset, wdayset. cbv zeta. apply bind_congr; [reflexivity|]. intro o.
  rewrite wloop_spec. apply bind_congr; [reflexivity|]. intros [ds i]. reflexivity.
Qed.

Theorem gen_ddayset_spec rl ii y m d : gen_ddayset rl ii y m d = ddayset ii y m d.
Proof. reflexivity. Qed.

(* ---------------------------------------------------------------- time sets *)
Lemma fold_append_map {A} (f : A -> res Z) : forall l acc,
  fold_res (fun st x => bind (f x) (fun t => Ok (st ++ [t]))) l acc
  = bind (map_res f l) (fun r => Ok (acc ++ r)).
Proof.
  induction l as [|x l IH]; intro acc; cbn [fold_res map_res bind]; [rewrite app_nil_r; reflexivity|].
  destruct (f x) as [t|e]; cbn [bind]; [|reflexivity]. rewrite IH.
  destruct (map_res f l); cbn [bind]; [rewrite <- app_assoc; reflexivity|reflexivity].
Qed.

Theorem gen_mtimeset_spec rl ii h m s : gen_mtimeset rl ii h m s = mtimeset rl h m.
Proof.
  unfold gen_mtimeset, mtimeset. rewrite giter_iter_opt. apply bind_congr; [reflexivity|]. intro ss.
  rewrite (fold_res_ext _ (fun st x => bind (mk_time h m x) (fun t => Ok (st ++ [t]))))
    by (intros; reflexivity).
  rewrite fold_append_map. destruct (map_res _ ss); reflexivity.
Qed.

Lemma hloop_inner rl ii h mi : forall ss acc,
  fold_res (gen_htimeset_loop2 rl ii h mi) ss acc
  = bind (map_res (fun s => mk_time h mi s) ss) (fun r => Ok (acc ++ r)).
Proof.
  intros. rewrite (fold_res_ext _ (fun st x => bind (mk_time h mi x) (fun t => Ok (st ++ [t]))))
    by (intros; reflexivity). apply fold_append_map.
Qed.

Lemma hloop_outer rl ii h : forall ms acc,
  fold_res (gen_htimeset_loop1 rl ii h) ms acc
  = bind (map_res (fun m => do ss <- iter_opt (bysecond rl); map_res (fun s => mk_time h m s) ss) ms)
         (fun ts => Ok (acc ++ concat ts)).
Proof.
  induction ms as [|m ms IH]; intro acc; cbn [fold_res map_res bind concat]; [rewrite app_nil_r; reflexivity|].
  unfold gen_htimeset_loop1 at 1. rewrite giter_iter_opt.
  destruct (iter_opt (bysecond rl)) as [ss|e]; cbn [bind]; [|reflexivity].
  rewrite bind_ok_r, hloop_inner.
  destruct (map_res (fun s => mk_time h m s) ss) as [r|e]; cbn [bind]; [|reflexivity].
  rewrite IH. destruct (map_res _ ms); cbn [bind concat]; [rewrite app_assoc; reflexivity|reflexivity].
Qed.

Theorem gen_htimeset_spec rl ii h m s : gen_htimeset rl ii h m s = htimeset rl h.
Proof.
  unfold gen_htimeset, htimeset. rewrite giter_iter_opt. apply bind_congr; [reflexivity|]. intro ms.
  rewrite hloop_outer. destruct (map_res _ ms); reflexivity.
Qed.

Theorem gen_stimeset_spec rl ii h m s : gen_stimeset rl ii h m s = stimeset h m s.
Proof. reflexivity. Qed.

(* ---------------------------------------------------------------- non-vacuity *)
(* YEARLY from 2024-01-01, BYWEEKNO (1, -1), BYDAY +1MO, BYEASTER 0: the first rebuild (year 2025) *)
Definition rl0 : rule :=
  mkRule YEARLY 1 0 None None 2024 1 1 0 0 0 None None None (Some [0]) [] [] (Some [1; -1]) None
         (Some [(0, 1)]) None None None (Some [0]).

Theorem gen_rebuild_example :
  exists ii', gen_rebuild rl0 ii_init 2025 1 = Ok ii' /\ yearlen ii' = 365 /\ yearweekday ii' = 2 /\
              (exists m, wnomask ii' = Some m /\ firstn 6 m = [1; 1; 1; 1; 1; 0] /\ nth 362 m 0 = 1) /\
              (exists m, nwdaymask ii' = Some m /\ nth 5 m 0 = 1 /\ nth 12 m 0 = 0) /\
              (exists m, eastermask ii' = Some m /\ nth 109 m 0 = 1).
Proof.
  eexists. split; [vm_compute; reflexivity|]. cbn [yearlen yearweekday wnomask nwdaymask eastermask].
  repeat split; eexists; (split; [reflexivity|]); vm_compute; repeat split; reflexivity.
Qed.
