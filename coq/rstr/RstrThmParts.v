(* Every rendered rule part is read back by its _handle_* function; a ';'-joined list of parts
   gives the keyword dictionary built from those parts. *)
From Coq Require Import ZArith List Bool Lia ZifyBool.
From V Require Import base.Cal rstr.RstrPrim rstr.RstrLemmas rstr.RstrModel rstr.RstrSpec
  rstr.RstrThmInt rstr.RstrThmWd rstr.RstrThmDate.
Import ListNotations.
Open Scope Z_scope.
Ltac inlist := cbn; repeat (first [left; reflexivity | right]).

Definition wf_part (p : part) : bool :=
  match p with
  | PFreq f => (0 <=? f) && (f <=? 6)
  | PWkst w => (0 <=? w) && (w <=? 6)
  | PInterval _ | PCount _ => true
  | PUntil d => valid_dt d && (dus d =? 0) && ((dtz d =? 0) || (dtz d =? 1))
  | PList i l => (0 <=? i) && (i <=? 8) && negb (isnil l)
  | PWd l => negb (isnil l) && forallb wf_wd l
  end.

Lemma join_forall (P : Z -> Prop) sep l : P sep -> Forall (Forall P) l -> Forall P (join [sep] l).
Proof.
  intros Hs. induction 1 as [|x l Hx Hl IH]; [constructor|].
  destruct l as [|y l']; [exact Hx|].
  change (join [sep] (x :: y :: l')) with (x ++ [sep] ++ join [sep] (y :: l')).
  apply Forall_app; split; [exact Hx|]. constructor; [exact Hs|exact IH].
Qed.

(* the handlers, by name *)
Lemma handle_INTERVAL ig v kw : handle ig s_INTERVAL v kw =
  match py_int v with Some n => Ok (set_interval n kw) | None => Err EValue end.
Proof. reflexivity. Qed.
Lemma handle_COUNT ig v kw : handle ig s_COUNT v kw =
  match py_int v with Some n => Ok (set_count n kw) | None => Err EValue end.
Proof. reflexivity. Qed.
Lemma handle_FREQ ig v kw : handle ig s_FREQ v kw =
  match freq_of v with Some f => Ok (set_freq f kw) | None => Err EKey end.
Proof. reflexivity. Qed.
Lemma handle_WKST ig v kw : handle ig s_WKST v kw =
  match wday_of v with Some w => Ok (set_wkst w kw) | None => Err EKey end.
Proof. reflexivity. Qed.
Lemma handle_UNTIL ig v kw : handle ig s_UNTIL v kw =
  match parse_date ig v with
  | DOk d => Ok (set_until d kw) | DBad => Err EValue | DOv => Err EValue | DUn => Err EUnmodelled end.
Proof. reflexivity. Qed.
Lemma handle_BYDAY ig v kw : handle ig s_BYDAY v kw =
  match wd_list v with Some l => Ok (set_byweekday l kw) | None => Err (wd_list_class v) end.
Proof. reflexivity. Qed.
Lemma handle_BYWEEKDAY ig v kw : handle ig s_BYWEEKDAY v kw =
  match wd_list v with Some l => Ok (set_byweekday l kw) | None => Err (wd_list_class v) end.
Proof. reflexivity. Qed.
Lemma handle_list ig i v kw : 0 <= i <= 8 ->
  handle ig (nth (Z.to_nat i) list_names []) v kw =
  match int_list v with Some l => Ok (set_list i l kw) | None => Err EValue end.
Proof.
  intro H. assert (C : i = 0 \/ i = 1 \/ i = 2 \/ i = 3 \/ i = 4 \/ i = 5 \/ i = 6 \/ i = 7 \/ i = 8) by lia.
  destruct C as [->|[->|[->|[->|[->|[->|[->|[->| ->]]]]]]]]; reflexivity.
Qed.

Lemma list_name_chars i : 0 <= i <= 8 ->
  has_char 61 (nth (Z.to_nat i) list_names []) = false /\
  Forall (fun ch => valc ch = true) (nth (Z.to_nat i) list_names []).
Proof.
  intro H. assert (C : i = 0 \/ i = 1 \/ i = 2 \/ i = 3 \/ i = 4 \/ i = 5 \/ i = 6 \/ i = 7 \/ i = 8) by lia.
  destruct C as [->|[->|[->|[->|[->|[->|[->|[->| ->]]]]]]]]; (split; [reflexivity|repeat constructor]).
Qed.

Lemma render_handle c p : wf_part p = true ->
  exists name value, render_part c p = name ++ 61 :: value
    /\ has_char 61 name = false /\ Forall (fun ch => valc ch = true) name
    /\ Forall (fun ch => valc ch = true) value
    /\ forall kw, handle false name value kw = Ok (apply_part p kw).
Proof.
  intro H. destruct p as [f|n|w|n|d|i l|l]; cbn [wf_part] in H.
  - assert (C : f = 0 \/ f = 1 \/ f = 2 \/ f = 3 \/ f = 4 \/ f = 5 \/ f = 6) by lia.
    exists s_FREQ, (freq_name f).
    destruct C as [->|[->|[->|[->|[->|[->| ->]]]]]];
      (split; [reflexivity|split; [reflexivity|split; [repeat constructor|split; [repeat constructor|reflexivity]]]]).
  - exists s_INTERVAL, (str_of_int n).
    split; [reflexivity|split; [reflexivity|split; [repeat constructor|split]]].
    + apply atoms_vals, str_of_int_atoms.
    + intro kw. rewrite handle_INTERVAL, py_int_str_of_int. reflexivity.
  - assert (C : w = 0 \/ w = 1 \/ w = 2 \/ w = 3 \/ w = 4 \/ w = 5 \/ w = 6) by lia.
    exists s_WKST, (wd_name w).
    destruct C as [->|[->|[->|[->|[->|[->| ->]]]]]];
      (split; [reflexivity|split; [reflexivity|split; [repeat constructor|split; [repeat constructor|reflexivity]]]]).
  - exists s_COUNT, (str_of_int n).
    split; [reflexivity|split; [reflexivity|split; [repeat constructor|split]]].
    + apply atoms_vals, str_of_int_atoms.
    + intro kw. rewrite handle_COUNT, py_int_str_of_int. reflexivity.
  - apply andb_true_iff in H as [H Htz]. apply andb_true_iff in H as [Hv Hus].
    exists s_UNTIL, (dt_spell (c_dshort c) d).
    split; [reflexivity|split; [reflexivity|split; [repeat constructor|split]]].
    + apply atoms_vals, dt_spell_atoms.
    + intro kw. rewrite handle_UNTIL, parse_date_dt_spell by (try assumption; lia). reflexivity.
  - apply andb_true_iff in H as [Hi Hl].
    destruct (list_name_chars i ltac:(lia)) as [N1 N2].
    exists (nth (Z.to_nat i) list_names []), (join [44] (map (str_int_c (c_plus c)) l)).
    split; [reflexivity|split; [exact N1|split; [exact N2|split]]].
    + apply join_forall; [reflexivity|]. apply Forall_forall. intros s Hs.
      apply in_map_iff in Hs as [n [<- _]]. apply atoms_vals, str_int_c_atoms.
    + intro kw. rewrite handle_list by lia. rewrite int_list_render; [reflexivity|].
      destruct l; [discriminate|discriminate].
  - apply andb_true_iff in H as [Hl Hw].
    exists (if c_wdname c then s_BYWEEKDAY else s_BYDAY), (join [44] (wds_spell (c_styles c) l)).
    split; [reflexivity|split; [destruct (c_wdname c); reflexivity|split; [destruct (c_wdname c); repeat constructor|split]]].
    + apply join_forall; [reflexivity|]. eapply Forall_impl; [|apply wds_spell_chars, Hw].
      intros s [Hs _]. exact Hs.
    + intro kw. assert (Hne : l <> []) by (destruct l; [discriminate|discriminate]).
      destruct (c_wdname c); [rewrite handle_BYWEEKDAY|rewrite handle_BYDAY];
        rewrite wd_list_render by assumption; reflexivity.
Qed.

Lemma render_chars c p : wf_part p = true -> Forall (fun ch => valc ch = true \/ ch = 61) (render_part c p).
Proof.
  intro H. destruct (render_handle c p H) as [name [value [E [_ [Hn [Hv _]]]]]]. rewrite E.
  apply Forall_app; split.
  - eapply Forall_impl; [|exact Hn]. tauto.
  - constructor; [right; reflexivity|]. eapply Forall_impl; [|exact Hv]. tauto.
Qed.

Lemma render_no_char x c p : wf_part p = true -> In x [59; 58; 10; 13; 32; 9] ->
  has_char x (render_part c p) = false.
Proof.
  intros H Hin. apply has_char_false. eapply Forall_impl; [|apply render_chars, H].
  intros ch [Hc| ->].
  - apply valc_not; [exact Hc|]. cbn in *. tauto.
  - cbn in Hin. lia.
Qed.

Lemma handle_pairs_parts c : forall ps kw, forallb wf_part ps = true ->
  handle_pairs false (map (render_part c) ps) kw = Ok (fold_left (fun k p => apply_part p k) ps kw).
Proof.
  induction ps as [|p ps IH]; intros kw H; [reflexivity|].
  cbn [forallb] in H. apply andb_true_iff in H as [Hp Hps].
  destruct (render_handle c p Hp) as [name [value [E [N1 [N2 [V Hh]]]]]].
  cbn [map handle_pairs fold_left]. rewrite E.
  rewrite split_on_app by exact N1.
  rewrite split_on_nosep by (apply vals_no_char; [exact V|inlist]).
  rewrite (vals_upper name N2), (vals_upper value V). rewrite Hh. apply IH, Hps.
Qed.

Theorem parse_rrule_kw_parts c ps : ps <> [] -> forallb wf_part ps = true ->
  parse_rrule_kw false (join [59] (map (render_part c) ps)) = Ok (kw_of_parts ps).
Proof.
  intros Hne H. unfold parse_rrule_kw, rrule_value.
  assert (Hall : Forall (fun s => Forall (fun ch => valc ch = true \/ ch = 61) s) (map (render_part c) ps)).
  { apply Forall_forall. intros s Hs. apply in_map_iff in Hs as [p [<- Hp]].
    apply render_chars. rewrite forallb_forall in H. apply H, Hp. }
  assert (H58 : has_char 58 (join [59] (map (render_part c) ps)) = false).
  { apply has_char_false.
    eapply Forall_impl; [|apply (join_forall (fun ch => valc ch = true \/ ch = 61 \/ ch = 59) 59)].
    - intros ch [Hc|[->| ->]]; [|lia|lia]. apply valc_not; [exact Hc|inlist].
    - right; right; reflexivity.
    - eapply Forall_impl; [|exact Hall]. intros s Hs. eapply Forall_impl; [|exact Hs]. intros a [?|?]; [left|right; left]; assumption. }
  rewrite H58. rewrite split_join.
  - apply handle_pairs_parts, H.
  - destruct ps; [congruence|discriminate].
  - apply Forall_forall. intros s Hs. apply in_map_iff in Hs as [p [<- Hp]].
    apply render_no_char; [|inlist]. rewrite forallb_forall in H. apply H, Hp.
Qed.
