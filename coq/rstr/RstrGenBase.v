(* Vocabulary of the code regenerated from /repo/src/dateutil/rrule.py by harness/gen_rstr.py
   (coq/gen/RstrGen.v): an exception monad with one constructor per Python exception class, and
   the Python operations of the translator's call table expressed with the primitives of
   RstrPrim / RstrModel.  Definitions only. *)
From Coq Require Import String ZArith List Bool.
From V Require Import base.Cal rstr.RstrPrim rstr.RstrModel.
Import ListNotations.
Open Scope Z_scope.

Inductive gexc := XValue | XKey | XAttr | XIndex | XOverflow | XType | XUnm.
(* XUnm is not a Python exception: the input left the modelled fragment (date forms) *)
Definition gexc_eqb (a b : gexc) : bool :=
  match a, b with
  | XValue, XValue | XKey, XKey | XAttr, XAttr | XIndex, XIndex | XOverflow, XOverflow | XType, XType
  | XUnm, XUnm => true
  | _, _ => false
  end.

Inductive gres (A : Type) : Type := GOk (a : A) | GExc (e : gexc).
Arguments GOk {A} a.
Arguments GExc {A} e.
Definition gbind {A B : Type} (r : gres A) (f : A -> gres B) : gres B :=
  match r with GOk a => f a | GExc e => GExc e end.

Fixpoint gmapM {A B : Type} (f : A -> gres B) (l : list A) : gres (list B) :=
  match l with
  | [] => GOk []
  | x :: r => gbind (f x) (fun y => gbind (gmapM f r) (fun t => GOk (y :: t)))
  end.
Fixpoint gfoldM {A S : Type} (f : S -> A -> gres S) (l : list A) (s : S) : gres S :=
  match l with
  | [] => GOk s
  | x :: r => gbind (f s x) (fun s' => gfoldM f r s')
  end.

(* try: r  except (classes): raise e' *)
Definition gcatch {A : Type} (r : gres A) (classes : list gexc) (e' : gexc) : gres A :=
  match r with
  | GExc e => if existsb (gexc_eqb e) classes then GExc e' else GExc e
  | ok => ok
  end.

(* try: r  except C1: raise e1  except C2: raise e2 ... (the first matching clause) *)
Fixpoint handle_exc (e : gexc) (hs : list (list gexc * gexc)) : gexc :=
  match hs with
  | [] => e
  | (cls, e') :: r => if existsb (gexc_eqb e) cls then e' else handle_exc e r
  end.
Definition gcatchs {A : Type} (r : gres A) (hs : list (list gexc * gexc)) : gres A :=
  match r with GExc e => GExc (handle_exc e hs) | ok => ok end.

(* ---- call table ---- *)
Definition g_int (s : str) : gres Z := match py_int s with Some n => GOk n | None => GExc XValue end.
Fixpoint g_lookup (tbl : list (str * Z)) (k : str) : gres Z :=      (* dict[k]: KeyError *)
  match tbl with
  | [] => GExc XKey
  | (n, v) :: r => if leqb n k then GOk v else g_lookup r k
  end.
Definition g_nth {A : Type} (l : list A) (i : nat) : gres A :=        (* list[i]: IndexError *)
  match nth_error l i with Some x => GOk x | None => GExc XIndex end.
(* weekdays[idx](n): tuple index, then weekday.__call__ (n == 0 raises ValueError) *)
Definition g_weekday (idx : Z) (n : option Z) : gres wd :=
  if (0 <=? idx) && (idx <=? 6) then
    match n with Some 0 => GExc XValue | _ => GOk (mkwd idx n) end
  else GExc XIndex.
(* parser.parse(value, ignoretz=..., tzinfos=...) on the compact date forms *)
Definition g_parse (ig : bool) (s : str) : gres dt :=
  match parse_date ig s with DOk d => GOk d | DBad => GExc XValue | DOv => GExc XOverflow | DUn => GExc XUnm end.

(* parm.split('TZID=')[-1]: the text after the last 'TZID=', the whole string when there is none *)
Definition split_last_tzid (s : str) : str :=
  match after_last_tzid s with Some x => x | None => s end.
(* d.replace(tzinfo=t) *)
Definition dt_with_tz (d : dt) (t : Z) : dt := mkdt (dy d) (dmo d) (dd d) (dh d) (dmi d) (ds d) (dus d) t.

(* for i in range(len(x)): if x[i] not in set: break   -- the value of i afterwards (x non-empty) *)
Fixpoint first_not_in (set x : str) : option nat :=
  match x with
  | [] => None
  | c :: r => if has_char c set then option_map S (first_not_in set r) else Some O
  end.
Definition scan_idx (set x : str) : nat :=
  match first_not_in set x with Some i => i | None => (List.length x - 1)%nat end.

(* rrkwargs[key] = value with a computed key (name.lower()) *)
Definition lower_names : list str := map lower list_names.
Definition kw_set_int (key : str) (n : Z) (kw : kwargs) : gres kwargs :=
  if leqb key (lower s_INTERVAL) then GOk (set_interval n kw)
  else if leqb key (lower s_COUNT) then GOk (set_count n kw)
  else GExc XUnm.
Definition kw_set_list (key : str) (l : list Z) (kw : kwargs) : gres kwargs :=
  match list_index key lower_names 0 with
  | Some i => GOk (set_list i l kw)
  | None => GExc XUnm
  end.

(* to the hand model's result type: every Python exception class that reaches the caller of
   _parse_rfc_rrule is a ValueError there *)
Definition err_of_gexc (e : gexc) : err :=
  match e with
  | XValue => EValue | XKey => EKey | XAttr => EAttr | XIndex => EIndex | XOverflow => EOverflow
  | XType => EType | XUnm => EUnmodelled
  end.
Definition gexc_of_err (e : err) : gexc :=
  match e with
  | EValue => XValue | EKey => XKey | EAttr => XAttr | EIndex => XIndex | EOverflow => XOverflow
  | EType => XType | EUnmodelled => XUnm
  end.
(* class-preserving (one to one) *)
Definition gres_res {A : Type} (r : gres A) : res A :=
  match r with
  | GOk a => Ok a
  | GExc e => Err (err_of_gexc e)
  end.

(* results of hand-modelled (AST-pinned) methods called from translated code *)
Definition g_of_res {A : Type} (r : res A) : gres A :=
  match r with
  | Ok a => GOk a
  | Err e => GExc (gexc_of_err e)
  end.

(* what rrulestr returns / raises *)
Definition result_of_gres (r : gres result) : result :=
  match r with
  | GOk x => x
  | GExc e => RErr (err_of_gexc e)
  end.
