(* The constructor applied to a rule's recorded original arguments rebuilds the same rule. *)
From Coq Require Import ZArith List Bool Lia ZifyBool.
From V Require Import base.Cal rstr.RstrPrim rstr.RstrLemmas rstr.RstrModel rstr.RstrSpec
  rstr.RstrThmSort rstr.RstrThmStr.
Import ListNotations.
Open Scope Z_scope.

Lemma ovals_vals {A} (l : list A) : l <> [] -> ovals (OVals l) = Some l.
Proof. destruct l; [congruence|reflexivity]. Qed.

Lemma nonempty_some {A} (l : list A) : nonempty (Some l) = true -> l <> [].
Proof. destruct l; [discriminate|discriminate]. Qed.

Lemma filter_all {A} (p : A -> bool) l : (forall x, In x l -> p x = true) -> filter p l = l.
Proof.
  induction l as [|x l IH]; intro H; [reflexivity|]. cbn. rewrite (H x (or_introl eq_refl)).
  rewrite IH; [reflexivity|]. intros y Hy. apply H. right. exact Hy.
Qed.

Lemma filter_none {A} (p : A -> bool) l : (forall x, In x l -> p x = false) -> filter p l = [].
Proof.
  induction l as [|x l IH]; intro H; [reflexivity|]. cbn. rewrite (H x (or_introl eq_refl)).
  apply IH. intros y Hy. apply H. right. exact Hy.
Qed.

(* ---- bymonth ---- *)
Lemma c_month_idem y m0 k rm om : c_month y m0 k = (rm, om) -> nonempty k = true ->
  c_month y m0 (ovals om) = (rm, om).
Proof.
  unfold c_month. destruct (y && isNone k) eqn:E.
  - intros H _. inversion H; subst. cbn [ovals isNone]. apply andb_true_iff in E as [-> _]. reflexivity.
  - destruct k as [l|]; intros H Hn; inversion H; subst.
    + rewrite ovals_vals by (apply sortu_nonnil, nonempty_some, Hn).
      cbn [isNone]. rewrite andb_false_r. rewrite sortu_idem. reflexivity.
    + cbn [ovals isNone] in *. rewrite E. reflexivity.
Qed.

(* ---- byyearday / byweekno / byeaster ---- *)
Lemma c_sortu_idem k r o : c_sortu k = (r, o) -> nonempty k = true ->
  c_sortu (ovals o) = (r, o) /\ isNone (ovals o) = isNone k.
Proof.
  unfold c_sortu. destruct k as [l|]; intros H Hn; inversion H; subst.
  - rewrite ovals_vals by (apply sortu_nonnil, nonempty_some, Hn). rewrite sortu_idem. split; reflexivity.
  - split; reflexivity.
Qed.

Lemma c_sort_idem k r o : c_sort k = (r, o) -> nonempty k = true ->
  c_sort (ovals o) = (r, o) /\ isNone (ovals o) = isNone k.
Proof.
  unfold c_sort. destruct k as [l|]; intros H Hn; inversion H; subst.
  - rewrite ovals_vals by (apply sort_nonnil, nonempty_some, Hn). rewrite sort_idem. split; reflexivity.
  - split; reflexivity.
Qed.

(* ---- bymonthday ---- *)
Definition nozero (k : option (list Z)) : bool :=
  match k with Some l => forallb (fun x => negb (x =? 0)) l | None => true end.

Lemma c_mday_idem derive d0 k p n o : c_mday derive d0 k = (p, n, o) ->
  (derive = true -> isNone k = true) -> nonempty k = true -> nozero k = true ->
  c_mday derive d0 (ovals o) = (p, n, o) /\ isNone (ovals o) = isNone k.
Proof.
  unfold c_mday. destruct derive.
  - intros H Hd _ _. inversion H; subst. cbn [ovals isNone]. rewrite Hd by reflexivity. split; reflexivity.
  - intros H _ Hn Hz. destruct k as [l|]; inversion H; subst; [|split; reflexivity].
    set (s := sortu l) in *.
    set (pos := filter (fun x => 0 <? x) s). set (neg := filter (fun x => x <? 0) s).
    assert (Hs : ssorted s) by apply sortu_ssorted.
    assert (Hpos : forall x, In x pos -> 0 < x) by (intros x Hx; apply filter_In in Hx as [_ Hx]; lia).
    assert (Hneg : forall x, In x neg -> x < 0) by (intros x Hx; apply filter_In in Hx as [_ Hx]; lia).
    assert (Hne : pos ++ neg <> []).
    { assert (Hsn : s <> []) by (apply sortu_nonnil, nonempty_some, Hn).
      destruct s as [|x t] eqn:Es; [congruence|].
      assert (Hx : x <> 0).
      { cbn [nozero] in Hz. rewrite forallb_forall in Hz.
        assert (In x l) by (apply sortu_In; fold s; rewrite Es; left; reflexivity).
        specialize (Hz x H0). lia. }
      unfold pos, neg. cbn [filter]. destruct (0 <? x) eqn:E1; [discriminate|].
      destruct (x <? 0) eqn:E2; [|lia]. intro F. apply app_eq_nil in F as [_ F]. discriminate. }
    rewrite ovals_vals by exact Hne.
    rewrite (sortu_pos_neg pos neg).
    + rewrite !filter_app.
      rewrite (filter_none (fun x => 0 <? x) neg) by (intros x Hx; apply Hneg in Hx; lia).
      rewrite (filter_all (fun x => 0 <? x) pos) by (intros x Hx; apply Hpos in Hx; lia).
      rewrite (filter_all (fun x => x <? 0) neg) by (intros x Hx; apply Hneg in Hx; lia).
      rewrite (filter_none (fun x => x <? 0) pos) by (intros x Hx; apply Hpos in Hx; lia).
      cbn [app]. rewrite app_nil_r. split; reflexivity.
    + apply ssorted_filter, Hs.
    + apply ssorted_filter, Hs.
    + intros a b Ha Hb. apply Hneg in Ha. apply Hpos in Hb. lia.
Qed.

(* ---- byweekday ---- *)
Definition wd_nz (k : option (list wd)) : bool :=
  match k with
  | Some l => forallb (fun w => match wn w with Some n => negb (n =? 0) | None => true end) l
  | None => true
  end.

Lemma map_id_ext {A} (f : A -> A) l : (forall x, f x = x) -> map f l = l.
Proof. intro H. rewrite (map_ext f (fun x => x)) by exact H. apply map_id. Qed.

Lemma c_wday_idem derive fq w0 k a b o : c_wday derive fq w0 k = (a, b, o) ->
  (derive = true -> isNone k = true) -> nonempty k = true -> wd_nz k = true ->
  c_wday derive fq w0 (ovals o) = (a, b, o) /\ isNone (ovals o) = isNone k.
Proof.
  unfold c_wday. destruct derive.
  - intros H Hd _ _. inversion H; subst. cbn [ovals isNone]. rewrite Hd by reflexivity. split; reflexivity.
  - intros H _ Hn Hz. destruct k as [l|]; [|inversion H; subst; split; reflexivity].
    set (plain := sortu (map wday (filter (isplain fq) l))) in *.
    set (nth := sortp (map wd_pair (filter (fun w => negb (isplain fq w)) l))) in *.
    set (P := map (fun x => mkwd x None) plain) in *.
    set (N := map (fun p => mkwd (fst p) (Some (snd p))) nth) in *.
    inversion H; subst a b o. clear H.
    assert (HN : forall w, In w N -> isplain fq w = false).
    { intros w Hw. unfold N in Hw. apply in_map_iff in Hw as [[x y] [<- Hp]].
      unfold nth in Hp. apply sortp_In in Hp. apply in_map_iff in Hp as [w0' [Hw0 Hin]].
      apply filter_In in Hin as [Hin Hnp]. unfold wd_pair in Hw0. inversion Hw0; subst.
      unfold isplain in *. cbn [wn fst snd]. destruct (wn w0') as [m|]; [|discriminate].
      apply negb_true_iff in Hnp. exact Hnp. }
    assert (HP : forall w, In w P -> isplain fq w = true).
    { intros w Hw. unfold P in Hw. apply in_map_iff in Hw as [x [<- _]]. reflexivity. }
    assert (Hne : P ++ N <> []).
    { assert (Hl : l <> []) by (apply nonempty_some, Hn).
      destruct l as [|w l'] eqn:El; [congruence|].
      destruct (isplain fq w) eqn:Ew.
      - assert (Q : plain <> []).
        { unfold plain. apply sortu_nonnil. cbn [filter]. rewrite Ew. discriminate. }
        unfold P. destruct plain; [congruence|discriminate].
      - assert (Q : nth <> []).
        { unfold nth. apply sortp_nonnil. cbn [filter]. rewrite Ew. discriminate. }
        unfold N. destruct nth; [congruence|]. intro F. apply app_eq_nil in F as [_ F]. discriminate. }
    rewrite ovals_vals by exact Hne.
    rewrite !filter_app.
    rewrite (filter_all (isplain fq) P HP).
    rewrite (filter_none (isplain fq) N HN).
    rewrite (filter_none (fun w => negb (isplain fq w)) P) by (intros w Hw; rewrite (HP w Hw); reflexivity).
    rewrite (filter_all (fun w => negb (isplain fq w)) N) by (intros w Hw; rewrite (HN w Hw); reflexivity).
    rewrite app_nil_r. cbn [app].
    assert (E1 : map wday P = plain).
    { unfold P. rewrite map_map. apply map_id_ext. reflexivity. }
    assert (E2 : map wd_pair N = nth).
    { unfold N. rewrite map_map. apply map_id_ext. intros [x y]. reflexivity. }
    assert (E3 : sortu plain = plain) by (unfold plain; apply sortu_idem).
    assert (E4 : sortp nth = nth) by (unfold nth; apply sortp_idem).
    rewrite E1, E2, !E3, !E4. split; reflexivity.
Qed.

(* ---- byhour / byminute / bysecond ---- *)
Lemma sub_byset_idem fq this interval start k base r o :
  sub_byset fq this interval start k base = Ok (r, o) -> nonempty k = true ->
  sub_byset fq this interval start (ovals o) base = Ok (r, o).
Proof.
  unfold sub_byset. destruct k as [l|]; [|intros H _; inversion H; subst; reflexivity].
  destruct (fq =? this) eqn:E.
  - unfold construct_byset. cbv zeta.
    set (P := fun num => (0 <=? num) && (num <? base) && ((Z.gcd interval base =? 1) || ((num - start) mod Z.gcd interval base =? 0))).
    destruct (filter P l) as [|x c] eqn:Ec; [discriminate|].
    assert (Hcc : x :: c <> []) by discriminate. remember (x :: c) as cc eqn:Ecc. clear Ecc.
    intros H Hn. injection H as Hr Ho. subst r o.
    rewrite ovals_vals by (apply sortu_nonnil, nonempty_some, Hn).
    rewrite (filter_sortu P l), Ec.
    assert (Hne : sortu cc <> []) by (apply sortu_nonnil, Hcc).
    destruct (sortu cc) as [|y t] eqn:Es; [congruence|]. rewrite <- Es. rewrite !sortu_idem. reflexivity.
  - intros H Hn. inversion H; subst.
    rewrite ovals_vals by (apply sortu_nonnil, nonempty_some, Hn). rewrite sortu_idem. reflexivity.
Qed.

(* ---- the whole constructor ---- *)
Definition nodayparts (kw : kwargs) : bool :=
  isNone (k_byweekno kw) && isNone (k_byyearday kw) && isNone (k_bymonthday kw)
  && isNone (k_byweekday kw) && isNone (k_byeaster kw).

Definition zero_us (d : dt) : dt := mkdt (dy d) (dmo d) (dd d) (dh d) (dmi d) (ds d) 0 (dtz d).

Lemma ctor_eq ev st kw fq rm om ry oy re oe rp rn omd rw ow rwd rnwd owd rh oh rmi omi rs os :
  k_freq kw = Some fq ->
  let start := zero_us st in
  let interval := match k_interval kw with Some i => i | None => 1 end in
  match k_until kw with Some u => negb (Bool.eqb (aware start) (aware u)) | None => false end = false ->
  match k_bysetpos kw with Some l => existsb bad_setpos l | None => false end = false ->
  match k_bymonthday kw with Some l => existsb (fun x => x =? 0) l | None => false end = false ->
  c_month (nodayparts kw && (fq =? 0)) (dmo start) (k_bymonth kw) = (rm, om) ->
  c_sortu (k_byyearday kw) = (ry, oy) ->
  c_sort (k_byeaster kw) = (re, oe) ->
  c_mday (nodayparts kw && (fq =? 0) || nodayparts kw && (fq =? 1)) (dd start) (k_bymonthday kw) = (rp, rn, omd) ->
  c_sortu (k_byweekno kw) = (rw, ow) ->
  c_wday (nodayparts kw && (fq =? 2)) fq (Cal.weekday (dy start) (dmo start) (dd start)) (k_byweekday kw)
    = (rwd, rnwd, owd) ->
  sub_byset fq 4 interval (dh start) (k_byhour kw) 24 = Ok (rh, oh) ->
  sub_byset fq 5 interval (dmi start) (k_byminute kw) 60 = Ok (rmi, omi) ->
  sub_byset fq 6 interval (ds start) (k_bysecond kw) 60 = Ok (rs, os) ->
  bad_time fq (olist rh) (olist rmi) (olist rs) = false ->
  ctor ev (Some st) kw =
  Ok (mkrule start fq interval (match k_wkst kw with Some w => w | None => e_fwd ev end) (k_count kw) (k_until kw)
             (k_bysetpos kw) rm rp rn ry re rw rwd rnwd rh rmi rs
             (match k_bysetpos kw with Some (x :: r) => OVals (x :: r) | _ => OAbsent end)
             om omd oy oe ow owd oh omi os).
Proof.
  intros Hf start interval Hu Hs Hz Hm Hy He Hmd Hw Hwd Hh Hmi Hsec Hb.
  unfold ctor. rewrite Hf. cbv zeta.
  fold (zero_us st). fold start. fold interval. rewrite Hu, Hs, Hz.
  fold (nodayparts kw). rewrite Hm, Hy, He, Hmd, Hw, Hwd, Hh, Hmi, Hsec, Hb. reflexivity.
Qed.

(* the converse: what a successful construction tells *)
Lemma ctor_inv ev st kw r : ctor ev (Some st) kw = Ok r ->
  exists fq rm om ry oy re oe rp rn omd rw ow rwd rnwd owd rh oh rmi omi rs os,
  let start := zero_us st in
  let interval := match k_interval kw with Some i => i | None => 1 end in
  k_freq kw = Some fq /\
  match k_until kw with Some u => negb (Bool.eqb (aware start) (aware u)) | None => false end = false /\
  match k_bysetpos kw with Some l => existsb bad_setpos l | None => false end = false /\
  c_month (nodayparts kw && (fq =? 0)) (dmo start) (k_bymonth kw) = (rm, om) /\
  c_sortu (k_byyearday kw) = (ry, oy) /\
  c_sort (k_byeaster kw) = (re, oe) /\
  c_mday (nodayparts kw && (fq =? 0) || nodayparts kw && (fq =? 1)) (dd start) (k_bymonthday kw) = (rp, rn, omd) /\
  c_sortu (k_byweekno kw) = (rw, ow) /\
  c_wday (nodayparts kw && (fq =? 2)) fq (Cal.weekday (dy start) (dmo start) (dd start)) (k_byweekday kw)
    = (rwd, rnwd, owd) /\
  sub_byset fq 4 interval (dh start) (k_byhour kw) 24 = Ok (rh, oh) /\
  sub_byset fq 5 interval (dmi start) (k_byminute kw) 60 = Ok (rmi, omi) /\
  sub_byset fq 6 interval (ds start) (k_bysecond kw) 60 = Ok (rs, os) /\
  bad_time fq (olist rh) (olist rmi) (olist rs) = false /\
  r = mkrule start fq interval (match k_wkst kw with Some w => w | None => e_fwd ev end) (k_count kw) (k_until kw)
             (k_bysetpos kw) rm rp rn ry re rw rwd rnwd rh rmi rs
             (match k_bysetpos kw with Some (x :: r) => OVals (x :: r) | _ => OAbsent end)
             om omd oy oe ow owd oh omi os.
Proof.
  unfold ctor. destruct (k_freq kw) as [fq|]; [|discriminate]. cbv zeta.
  fold (zero_us st). fold (nodayparts kw).
  destruct (match k_until kw with Some u => negb (Bool.eqb (aware (zero_us st)) (aware u)) | None => false end) eqn:Eu;
    [discriminate|].
  destruct (match k_bysetpos kw with Some l => existsb bad_setpos l | None => false end) eqn:Es; [discriminate|].
  destruct (match k_bymonthday kw with Some l => existsb (fun x => x =? 0) l | None => false end) eqn:Ez; [discriminate|].
  destruct (c_month _ _ _) as [rm om] eqn:Em.
  destruct (c_sortu (k_byyearday kw)) as [ry oy] eqn:Ey.
  destruct (c_sort _) as [re oe] eqn:Ee.
  destruct (c_mday _ _ _) as [[rp rn] omd] eqn:Emd.
  destruct (c_sortu (k_byweekno kw)) as [rw ow] eqn:Ew.
  destruct (c_wday _ _ _ _) as [[rwd rnwd] owd] eqn:Ewd.
  destruct (sub_byset fq 4 _ _ _ _) as [[rh oh]|] eqn:Eh; [|discriminate].
  destruct (sub_byset fq 5 _ _ _ _) as [[rmi omi]|] eqn:Emi; [|discriminate].
  destruct (sub_byset fq 6 _ _ _ _) as [[rs os]|] eqn:Esec; [|discriminate].
  destruct (bad_time _ _ _ _) eqn:Eb; [discriminate|].
  intro H. injection H as <-.
  exists fq, rm, om, ry, oy, re, oe, rp, rn, omd, rw, ow, rwd, rnwd, owd, rh, oh, rmi, omi, rs, os.
  cbv zeta. repeat split; assumption.
Qed.

Lemma c_mday_nozero derive d0 k p n o : c_mday derive d0 k = (p, n, o) ->
  match ovals o with Some l => existsb (fun x => x =? 0) l | None => false end = false.
Proof.
  unfold c_mday. cbv zeta. intro H. injection H as _ _ <-.
  destruct derive; [reflexivity|]. destruct k as [l|]; [|reflexivity]. cbn [ovals].
  destruct (filter (fun x => 0 <? x) (sortu l) ++ filter (fun x => x <? 0) (sortu l)) as [|y t] eqn:E; [reflexivity|].
  rewrite <- E. apply not_true_is_false. intro F. apply existsb_exists in F as [x [Hin Hx]].
  apply in_app_or in Hin as [Hin|Hin]; apply filter_In in Hin as [_ Hc]; lia.
Qed.

(* BYMONTHDAY=0 is rejected by the constructor (55654b4) *)
Lemma ctor_zero_check ev st kw r : ctor ev (Some st) kw = Ok r -> match k_bymonthday kw with Some l => existsb (fun x => x =? 0) l | None => false end = false.
Proof.
  unfold ctor. destruct (k_freq kw) as [fq|]; [|discriminate]. cbv zeta.
  destruct (match k_until kw with Some u => _ | None => false end); [discriminate|].
  destruct (match k_bysetpos kw with Some l => existsb bad_setpos l | None => false end); [discriminate|].
  destruct (match k_bymonthday kw with Some l => existsb (fun x => x =? 0) l | None => false end); [discriminate|reflexivity].
Qed.
Lemma ctor_nozero ev st kw r : ctor ev (Some st) kw = Ok r -> nozero (k_bymonthday kw) = true.
Proof.
  intro H. apply ctor_zero_check in H. unfold nozero. destruct (k_bymonthday kw) as [l|]; [|reflexivity].
  induction l as [|x l IH]; [reflexivity|]. cbn [existsb forallb] in *. apply orb_false_iff in H as [H1 H2].
  rewrite H1, (IH H2). reflexivity.
Qed.

Definition wf_args (kw : kwargs) : bool :=
  nonempty (k_bysetpos kw) && nonempty (k_bymonth kw) && nonempty (k_bymonthday kw)
  && nonempty (k_byyearday kw) && nonempty (k_byeaster kw) && nonempty (k_byweekno kw)
  && nonempty (k_byhour kw) && nonempty (k_byminute kw) && nonempty (k_bysecond kw)
  && nonempty (k_byweekday kw) && wd_nz (k_byweekday kw).

Lemma zero_us_idem d : zero_us (zero_us d) = zero_us d.
Proof. reflexivity. Qed.

Lemma ovals_setpos (k : option (list Z)) : nonempty k = true ->
  ovals (match k with Some (x :: r) => OVals (x :: r) | _ => OAbsent end) = k.
Proof. destruct k as [[|x t]|]; [discriminate|reflexivity|reflexivity]. Qed.

(* rule -> recorded arguments -> constructor = the same rule *)
Theorem ctor_idem ev st kw r : ctor ev (Some st) kw = Ok r -> (e_fwd ev = 0 \/ r_wkst r <> 0) -> wf_args kw = true ->
  ctor ev (Some (r_dtstart r)) (kw_of_rule r) = Ok r.
Proof.
  intros H Hfwd Hwf.
  destruct (ctor_inv ev st kw r H) as
    [fq [rm [om [ry [oy [re [oe [rp [rn [omd [rw [ow [rwd [rnwd [owd [rh [oh [rmi [omi [rs [os Hx]]]]]]]]]]]]]]]]]]]]].
  cbv zeta in Hx.
  destruct Hx as [Hf [Hu [Hs [Hm [Hy [He [Hmd [Hw [Hwd [Hh [Hmi [Hsec [Hb Hr]]]]]]]]]]]]].
  pose proof (ctor_nozero ev st kw r H) as Hnz. pose proof (ctor_zero_check ev st kw r H) as Hzc.
  unfold wf_args in Hwf. do 10 (apply andb_true_iff in Hwf as [Hwf ?]).
  set (start := zero_us st) in *.
  set (interval := match k_interval kw with Some i => i | None => 1 end) in *.
  set (wkst := match k_wkst kw with Some w => w | None => e_fwd ev end) in *.
  (* the day-part options of the recorded arguments are None exactly when the given ones were *)
  destruct (c_sortu_idem _ _ _ Hy ltac:(assumption)) as [Hy2 Ny].
  destruct (c_sort_idem _ _ _ He ltac:(assumption)) as [He2 Ne].
  destruct (c_sortu_idem _ _ _ Hw ltac:(assumption)) as [Hw2 Nw].
  assert (Dmd : (nodayparts kw && (fq =? 0) || nodayparts kw && (fq =? 1)) = true -> isNone (k_bymonthday kw) = true).
  { unfold nodayparts. intro D. destruct (isNone (k_bymonthday kw)); [reflexivity|].
    rewrite !andb_false_r in D. cbn in D. discriminate. }
  assert (Dwd : (nodayparts kw && (fq =? 2)) = true -> isNone (k_byweekday kw) = true).
  { unfold nodayparts. intro D. destruct (isNone (k_byweekday kw)); [reflexivity|].
    rewrite !andb_false_r in D. cbn in D. discriminate. }
  destruct (c_mday_idem _ _ _ _ _ _ Hmd Dmd ltac:(assumption) ltac:(assumption)) as [Hmd2 Nmd].
  destruct (c_wday_idem _ _ _ _ _ _ _ Hwd Dwd ltac:(assumption) ltac:(assumption)) as [Hwd2 Nwd].
  pose proof (c_month_idem _ _ _ _ _ Hm ltac:(assumption)) as Hm2.
  pose proof (sub_byset_idem _ _ _ _ _ _ _ _ Hh ltac:(assumption)) as Hh2.
  pose proof (sub_byset_idem _ _ _ _ _ _ _ _ Hmi ltac:(assumption)) as Hmi2.
  pose proof (sub_byset_idem _ _ _ _ _ _ _ _ Hsec ltac:(assumption)) as Hsec2.
  subst r. cbn [r_dtstart]. cbn [r_wkst] in Hfwd. fold wkst in Hfwd.
  assert (Ei : match k_interval (kw_of_rule (mkrule start fq interval wkst (k_count kw) (k_until kw)
             (k_bysetpos kw) rm rp rn ry re rw rwd rnwd rh rmi rs
             (match k_bysetpos kw with Some (x :: r) => OVals (x :: r) | _ => OAbsent end)
             om omd oy oe ow owd oh omi os)) with Some i => i | None => 1 end = interval).
  { cbn [kw_of_rule k_interval r_interval]. destruct (interval =? 1) eqn:E; [lia|reflexivity]. }
  assert (Ew : match k_wkst (kw_of_rule (mkrule start fq interval wkst (k_count kw) (k_until kw)
             (k_bysetpos kw) rm rp rn ry re rw rwd rnwd rh rmi rs
             (match k_bysetpos kw with Some (x :: r) => OVals (x :: r) | _ => OAbsent end)
             om omd oy oe ow owd oh omi os)) with Some w => w | None => e_fwd ev end = wkst).
  { cbn [kw_of_rule k_wkst r_wkst]. destruct (wkst =? 0) eqn:E; [lia|reflexivity]. }
  assert (End : nodayparts (kw_of_rule (mkrule start fq interval wkst (k_count kw) (k_until kw)
             (k_bysetpos kw) rm rp rn ry re rw rwd rnwd rh rmi rs
             (match k_bysetpos kw with Some (x :: r) => OVals (x :: r) | _ => OAbsent end)
             om omd oy oe ow owd oh omi os)) = nodayparts kw).
  { unfold nodayparts. cbn [kw_of_rule k_byweekno k_byyearday k_bymonthday k_byweekday k_byeaster
      og_byweekno og_byyearday og_bymonthday og_byweekday og_byeaster].
    rewrite Nw, Ny, Nmd, Nwd, Ne. reflexivity. }
  erewrite ctor_eq.
  - rewrite Ei, Ew. cbn [kw_of_rule k_count k_until k_bysetpos r_count r_until og_bysetpos].
    rewrite ovals_setpos by assumption. unfold start. rewrite zero_us_idem. reflexivity.
  - reflexivity.
  - cbn [kw_of_rule k_until r_until]. unfold start. rewrite zero_us_idem. exact Hu.
  - cbn [kw_of_rule k_bysetpos og_bysetpos]. rewrite ovals_setpos by assumption. exact Hs.
  - cbn [kw_of_rule k_bymonthday og_bymonthday]. apply (c_mday_nozero _ _ _ _ _ _ Hmd).
  - rewrite End. cbn [kw_of_rule k_bymonth og_bymonth]. unfold start. rewrite zero_us_idem. exact Hm2.
  - cbn [kw_of_rule k_byyearday og_byyearday]. exact Hy2.
  - cbn [kw_of_rule k_byeaster og_byeaster]. exact He2.
  - rewrite End. cbn [kw_of_rule k_bymonthday og_bymonthday]. unfold start. rewrite zero_us_idem. exact Hmd2.
  - cbn [kw_of_rule k_byweekno og_byweekno]. exact Hw2.
  - rewrite End. cbn [kw_of_rule k_byweekday og_byweekday]. unfold start. rewrite zero_us_idem. exact Hwd2.
  - rewrite Ei. cbn [kw_of_rule k_byhour og_byhour]. unfold start. rewrite zero_us_idem. exact Hh2.
  - rewrite Ei. cbn [kw_of_rule k_byminute og_byminute]. unfold start. rewrite zero_us_idem. exact Hmi2.
  - rewrite Ei. cbn [kw_of_rule k_bysecond og_bysecond]. unfold start. rewrite zero_us_idem. exact Hsec2.
  - exact Hb.
Qed.
