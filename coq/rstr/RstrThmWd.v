(* BYDAY / BYWEEKDAY members: every spelling is read back as the same weekday(n). *)
From Coq Require Import ZArith List Bool Lia ZifyBool.
From V Require Import base.Cal rstr.RstrPrim rstr.RstrLemmas rstr.RstrModel rstr.RstrSpec rstr.RstrThmInt.
Import ListNotations.
Open Scope Z_scope.

Lemma wd_name_cases i : 0 <= i <= 6 ->
  exists a b, wd_name i = [a; b] /\ is_upper a = true /\ is_upper b = true /\ wday_of [a; b] = Some i.
Proof.
  intro H. assert (C : i = 0 \/ i = 1 \/ i = 2 \/ i = 3 \/ i = 4 \/ i = 5 \/ i = 6) by lia.
  destruct C as [->|[->|[->|[->|[->|[->| ->]]]]]]; cbn; do 2 eexists; repeat split.
Qed.

Lemma span_app p a b : Forall (fun c => p c = true) a ->
  match b with [] => True | c :: _ => p c = false end -> span p (a ++ b) = (a, b).
Proof.
  induction 1 as [|x a Hx _ IH]; intro Hb.
  - destruct b as [|c r]; cbn; [reflexivity|]. rewrite Hb. reflexivity.
  - cbn. rewrite Hx. rewrite (IH Hb). reflexivity.
Qed.

Lemma isnil_app_cons {A} (l : list A) x r : isnil (l ++ x :: r) = false.
Proof. destruct l; reflexivity. Qed.

Lemma signdigit_not40 c : is_signdigit c = true -> c <> 40.
Proof. unfold is_signdigit, is_digit. lia. Qed.

Lemma upper_not_signdigit c : is_upper c = true -> is_signdigit c = false.
Proof. unfold is_signdigit, is_digit, is_upper. lia. Qed.

Lemma mk_wd_ok a b i n : wday_of [a; b] = Some i ->
  match n with Some m => m <> 0 | None => True end -> mk_wd [a; b] n = Some (mkwd i n).
Proof.
  intros Hw Hn. unfold mk_wd. rewrite Hw. destruct n as [m|]; [|reflexivity].
  destruct m; [congruence|reflexivity|reflexivity].
Qed.

(* sign/digit prefix followed by the two letters *)
Lemma parse_wd_prefix pre a b : Forall (fun c => is_signdigit c = true) pre ->
  is_upper a = true -> is_upper b = true ->
  parse_wd (pre ++ [a; b]) =
  if isnil pre then mk_wd [a; b] None
  else match py_int pre with Some n => mk_wd [a; b] (Some n) | None => None end.
Proof.
  intros Hp Ha Hb. unfold parse_wd.
  assert (H40 : has_char 40 (pre ++ [a; b]) = false).
  { rewrite has_char_app. rewrite (has_char_false 40 pre).
    - cbn. unfold is_upper in *. lia.
    - eapply Forall_impl; [|exact Hp]. intros c; apply signdigit_not40. }
  rewrite H40. rewrite isnil_app_cons.
  rewrite (span_app is_signdigit pre [a; b] Hp (upper_not_signdigit a Ha)).
  cbn [fst snd isnil]. reflexivity.
Qed.

Lemma signdigit_of_atoms_digits s : Forall (fun c => is_digit c = true) s ->
  Forall (fun c => is_signdigit c = true) s.
Proof. intro H. eapply Forall_impl; [|exact H]. intros c Hc. unfold is_signdigit. rewrite Hc. lia. Qed.

Lemma fmt_plus_signdigit n : Forall (fun c => is_signdigit c = true) (fmt_plus n).
Proof.
  unfold fmt_plus. destruct (n <? 0); (constructor; [reflexivity|]);
    apply signdigit_of_atoms_digits, nat_digits_digits.
Qed.

Lemma str_of_int_signdigit n : Forall (fun c => is_signdigit c = true) (str_of_int n).
Proof.
  unfold str_of_int. destruct (n <? 0).
  - constructor; [reflexivity|]. apply signdigit_of_atoms_digits, nat_digits_digits.
  - apply signdigit_of_atoms_digits, nat_digits_digits.
Qed.

Lemma fmt_plus_nonnil n : isnil (fmt_plus n) = false.
Proof. unfold fmt_plus. destruct (n <? 0); reflexivity. Qed.

Lemma str_of_int_nonnil n : isnil (str_of_int n) = false.
Proof.
  unfold str_of_int. destruct (n <? 0); [reflexivity|].
  pose proof (nat_digits_nonempty n). destruct (nat_digits n); [congruence|reflexivity].
Qed.

(* 'MO(+1)' / 'MO(1)' *)
Lemma parse_wd_paren body a b : Forall (fun c => atomc c = true) body ->
  is_upper a = true -> is_upper b = true ->
  parse_wd ([a; b] ++ [40] ++ body ++ [41]) =
  match py_int body with Some n => mk_wd [a; b] (Some n) | None => None end.
Proof.
  intros Hbody Ha Hb. unfold parse_wd.
  assert (H40 : has_char 40 ([a; b] ++ [40] ++ body ++ [41]) = true).
  { rewrite has_char_app. cbn. rewrite !orb_true_r. reflexivity. }
  rewrite H40.
  change ([a; b] ++ [40] ++ body ++ [41]) with ([a; b] ++ 40 :: (body ++ [41])).
  rewrite split_on_app by (cbn; unfold is_upper in *; lia).
  rewrite split_on_nosep.
  - rewrite removelast_last. reflexivity.
  - rewrite has_char_app. rewrite (atoms_no_char 40 body Hbody) by (cbn; tauto). reflexivity.
Qed.

Theorem parse_wd_spell style w : wf_wd w = true -> parse_wd (wd_spell style w) = Some w.
Proof.
  intro Hw. unfold wf_wd in Hw. destruct w as [i n]. cbn [wday wn] in Hw.
  apply andb_true_iff in Hw as [Hi Hn]. apply andb_true_iff in Hi as [Hi1 Hi2].
  destruct (wd_name_cases i ltac:(lia)) as [a [b [Hnm [Ha [Hb Hwd]]]]].
  unfold wd_spell. cbn [wn wday]. rewrite Hnm. destruct n as [n|].
  - assert (Hn0 : n <> 0) by lia.
    destruct (style =? 0); [|destruct (style =? 1); [|destruct (style =? 2)]].
    + rewrite parse_wd_prefix by (try apply fmt_plus_signdigit; assumption).
      rewrite fmt_plus_nonnil, py_int_fmt_plus. apply mk_wd_ok; assumption.
    + rewrite parse_wd_prefix by (try apply str_of_int_signdigit; assumption).
      rewrite str_of_int_nonnil, py_int_str_of_int. apply mk_wd_ok; assumption.
    + rewrite parse_wd_paren by (try apply fmt_plus_atoms; assumption).
      rewrite py_int_fmt_plus. apply mk_wd_ok; assumption.
    + rewrite parse_wd_paren by (try apply str_of_int_atoms; assumption).
      rewrite py_int_str_of_int. apply mk_wd_ok; assumption.
  - change [a; b] with ([] ++ [a; b]). rewrite parse_wd_prefix by (try constructor; assumption).
    cbn [isnil app]. apply mk_wd_ok; [assumption|exact I].
Qed.

(* alphabet of a spelled member: atoms and parentheses *)
Definition valc (c : Z) : bool := atomc c || (c =? 44) || (c =? 40) || (c =? 41).

Lemma valc_not c x : valc c = true -> In x [59; 61; 58; 10; 13; 32; 9; 95] -> c <> x.
Proof. unfold valc, atomc, is_digit, is_upper. intros H Hin. cbn in Hin. lia. Qed.

Lemma valc_not_lower c : valc c = true -> is_lower c = false.
Proof. unfold valc, atomc, is_digit, is_upper, is_lower. lia. Qed.

Lemma vals_no_char x s : Forall (fun c => valc c = true) s ->
  In x [59; 61; 58; 10; 13; 32; 9; 95] -> has_char x s = false.
Proof.
  intros H Hin. apply has_char_false. eapply Forall_impl; [|exact H].
  intros c Hc. cbn beta in Hc. apply valc_not; assumption.
Qed.

Lemma vals_upper s : Forall (fun c => valc c = true) s -> upper s = s.
Proof.
  intro H. apply upper_id. eapply Forall_impl; [|exact H]. intros c Hc. apply valc_not_lower, Hc.
Qed.

Lemma atoms_vals s : Forall (fun c => atomc c = true) s -> Forall (fun c => valc c = true) s.
Proof. intro H. eapply Forall_impl; [|exact H]. intros c Hc. unfold valc. rewrite Hc. reflexivity. Qed.

Lemma wd_spell_chars style w : wf_wd w = true ->
  Forall (fun c => valc c = true) (wd_spell style w) /\ has_char 44 (wd_spell style w) = false.
Proof.
  intro Hw. unfold wf_wd in Hw. destruct w as [i n]. cbn [wday wn] in Hw.
  apply andb_true_iff in Hw as [Hi Hn]. apply andb_true_iff in Hi as [Hi1 Hi2].
  destruct (wd_name_cases i ltac:(lia)) as [a [b [Hnm [Ha [Hb Hwd]]]]].
  assert (Hab : Forall (fun c => atomc c = true) [a; b]).
  { repeat constructor; unfold atomc; [rewrite Ha|rewrite Hb]; lia. }
  assert (Hp : Forall (fun c => atomc c = true) [40] -> False) by (intro H; inversion H; discriminate).
  unfold wd_spell. cbn [wn wday]. rewrite Hnm.
  assert (G : forall body, Forall (fun c => atomc c = true) body ->
     (Forall (fun c => valc c = true) (body ++ [a; b]) /\ has_char 44 (body ++ [a; b]) = false) /\
     (Forall (fun c => valc c = true) ([a; b] ++ [40] ++ body ++ [41]) /\
      has_char 44 ([a; b] ++ [40] ++ body ++ [41]) = false)).
  { intros body Hbody. repeat split.
    - apply atoms_vals. apply Forall_app; split; assumption.
    - apply atoms_no_char; [apply Forall_app; split; assumption|cbn; tauto].
    - apply Forall_app; split; [apply atoms_vals, Hab|].
      constructor; [reflexivity|]. apply Forall_app; split; [apply atoms_vals, Hbody|].
      constructor; [reflexivity|constructor].
    - rewrite !has_char_app. rewrite (atoms_no_char 44 [a; b] Hab) by (cbn; tauto).
      rewrite (atoms_no_char 44 body Hbody) by (cbn; tauto). reflexivity. }
  destruct n as [n|].
  - destruct (style =? 0); [|destruct (style =? 1); [|destruct (style =? 2)]].
    + apply (G (fmt_plus n) (fmt_plus_atoms n)).
    + apply (G (str_of_int n) (str_of_int_atoms n)).
    + apply (G (fmt_plus n) (fmt_plus_atoms n)).
    + apply (G (str_of_int n) (str_of_int_atoms n)).
  - split; [apply atoms_vals, Hab|apply atoms_no_char; [exact Hab|cbn; tauto]].
Qed.

Lemma wds_spell_parse styles : forall l, forallb wf_wd l = true ->
  map parse_wd (wds_spell styles l) = map Some l.
Proof.
  intro l. revert styles. induction l as [|w l IH]; intros styles H; cbn; [reflexivity|].
  cbn in H. apply andb_true_iff in H as [Hw Hl].
  rewrite parse_wd_spell by exact Hw. rewrite IH by exact Hl. reflexivity.
Qed.

Lemma wds_spell_chars styles : forall l, forallb wf_wd l = true ->
  Forall (fun s => Forall (fun c => valc c = true) s /\ has_char 44 s = false) (wds_spell styles l).
Proof.
  intro l. revert styles. induction l as [|w l IH]; intros styles H; cbn; [constructor|].
  cbn in H. apply andb_true_iff in H as [Hw Hl].
  constructor; [apply wd_spell_chars, Hw|apply IH, Hl].
Qed.

Lemma wds_spell_nonnil styles l : l <> [] -> wds_spell styles l <> [].
Proof. destruct l; [congruence|discriminate]. Qed.

Theorem wd_list_render styles l : l <> [] -> forallb wf_wd l = true ->
  wd_list (join [44] (wds_spell styles l)) = Some l.
Proof.
  intros Hl Hw. unfold wd_list. rewrite split_join.
  - rewrite wds_spell_parse by exact Hw. apply opt_all_map_some.
  - apply wds_spell_nonnil, Hl.
  - eapply Forall_impl; [|apply wds_spell_chars, Hw]. intros s [_ H]. exact H.
Qed.
