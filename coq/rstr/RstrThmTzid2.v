(* The TZID names collected by re.findall('TZID=(?P<name>[^:]+):', text) from a spelled text with a
   TZID parameter on the DTSTART line: exactly that name. *)
From Coq Require Import String ZArith List Bool Lia ZifyBool.
From V Require Import base.Cal rstr.RstrPrim rstr.RstrLemmas rstr.RstrModel rstr.RstrSpec
  rstr.RstrThmInt rstr.RstrThmWd rstr.RstrThmDate rstr.RstrThmParts rstr.RstrThmSpell rstr.RstrThmTop
  rstr.RstrThmTzid rstr.RstrThmSet rstr.RstrThmFold rstr.RstrThmFold2.
Import ListNotations.
Open Scope Z_scope.

(* ---- Part A: the scan ---- *)
Definition namec_b (c : Z) : bool :=
  is_ascii c && negb (is_space c) && negb (c =? 58) && negb (c =? 59) && negb (c =? 61).

(* the name of a TZID parameter ends at the first ':' or ';' (5fe9b57) *)
Definition nodelim (s : str) : bool := negb (has_char 58 s) && negb (has_char 59 s).

Lemma span_colon x d r : nodelim x = true -> d = 58 \/ d = 59 ->
  span (fun c => negb ((c =? 58) || (c =? 59))) (x ++ d :: r) = (x, d :: r).
Proof.
  unfold nodelim. induction x as [|c x IH]; intros H Hd.
  - cbn [app span]. replace ((d =? 58) || (d =? 59)) with true by lia. reflexivity.
  - unfold has_char in H. cbn [existsb] in H.
    assert (H1 : (c =? 58) = false) by (destruct (c =? 58); [cbn in H; discriminate|reflexivity]).
    assert (H2 : (c =? 59) = false).
    { destruct (c =? 59); [|reflexivity]. cbn in H. rewrite andb_false_r in H. discriminate. }
    cbn [app span]. rewrite H1, H2. cbn [orb negb]. rewrite IH; [reflexivity| |exact Hd].
    rewrite H1, H2 in H. exact H.
Qed.

(* no 'T' immediately followed by 'Z' *)
Fixpoint noTZ (s : str) : bool :=
  match s with
  | x :: r => match r with
              | y :: _ => negb ((x =? 84) && (y =? 90)) && noTZ r
              | [] => true
              end
  | [] => true
  end.

Lemma noTZ_tail x r : noTZ (x :: r) = true -> noTZ r = true.
Proof. cbn [noTZ]. destruct r; [reflexivity|]. intro H. apply andb_true_iff in H as [_ H]. exact H. Qed.

Lemma sw_pair x y r : startswith_ci s_TZIDeq (x :: y :: r) = true -> upc x = 84 /\ upc y = 90.
Proof.
  change s_TZIDeq with [84; 90; 73; 68; 61]. cbn [startswith_ci]. intro H.
  apply andb_true_iff in H as [H1 H]. apply andb_true_iff in H as [H2 _]. lia.
Qed.

Definition nolower (s : str) : Prop := Forall (fun c => is_lower c = false) s.

Lemma upc_nolower c : is_lower c = false -> upc c = c.
Proof. unfold upc. intros ->. reflexivity. Qed.

(* without lower-case letters the case-insensitive test sees "TZ" only where it is written *)
Lemma noTZ_startswith s : nolower s -> noTZ s = true -> startswith_ci s_TZIDeq s = false.
Proof.
  intros Hl H. destruct s as [|x [|y r]]; [reflexivity| |].
  { change s_TZIDeq with [84; 90; 73; 68; 61]. cbn [startswith_ci]. apply andb_false_r. }
  destruct (startswith_ci s_TZIDeq (x :: y :: r)) eqn:E; [|reflexivity].
  apply sw_pair in E as [E1 E2]. inversion Hl as [|? ? Hx Hl']; subst. inversion Hl' as [|? ? Hy _]; subst.
  rewrite (upc_nolower x Hx) in E1. rewrite (upc_nolower y Hy) in E2. subst.
  cbn [noTZ] in H. rewrite !Z.eqb_refl in H. discriminate.
Qed.

Lemma scan_step x r : startswith_ci s_TZIDeq (x :: r) = false -> tzid_scan O (x :: r) = tzid_scan O r.
Proof. intro H. cbn [tzid_scan]. rewrite H. reflexivity. Qed.

Lemma scan_noTZ : forall s k, nolower s -> noTZ s = true -> tzid_scan k s = [].
Proof.
  induction s as [|x r IH]; intros k Hl H; [destruct k; reflexivity|].
  pose proof (noTZ_tail x r H) as Hr. inversion Hl as [|? ? _ Hlr]; subst. destruct k as [|k].
  - rewrite scan_step by (apply noTZ_startswith; assumption). apply IH; assumption.
  - cbn [tzid_scan]. apply IH; assumption.
Qed.

Lemma scan_prefix : forall pre tail, nolower pre -> noTZ (pre ++ [84]) = true ->
  tzid_scan O (pre ++ 84 :: 90 :: tail) = tzid_scan O (84 :: 90 :: tail).
Proof.
  induction pre as [|x pre IH]; intros tail Hl H; [reflexivity|].
  inversion Hl as [|? ? Hx Hl']; subst.
  cbn [app]. rewrite scan_step.
  - apply IH; [exact Hl'|]. cbn [app] in H. apply (noTZ_tail x _ H).
  - destruct pre as [|y pre'].
    + cbn [app]. destruct (startswith_ci s_TZIDeq (x :: 84 :: 90 :: tail)) eqn:E; [|reflexivity].
      apply sw_pair in E as [_ E]. discriminate.
    + cbn [app]. destruct (startswith_ci s_TZIDeq (x :: y :: pre' ++ 84 :: 90 :: tail)) eqn:E; [|reflexivity].
      apply sw_pair in E as [E1 E2]. inversion Hl' as [|? ? Hy _]; subst.
      rewrite (upc_nolower x Hx) in E1. rewrite (upc_nolower y Hy) in E2. subst.
      cbn [app noTZ] in H. rewrite !Z.eqb_refl in H. discriminate.
Qed.

Lemma scan_skip : forall a b, tzid_scan (List.length a) (a ++ b) = tzid_scan O b.
Proof.
  induction a as [|x a IH]; intro b; [reflexivity|].
  cbn [List.length app tzid_scan]. apply IH.
Qed.

Lemma scan_hit x r name after : startswith_ci s_TZIDeq (x :: r) = true ->
  span (fun c => negb ((c =? 58) || (c =? 59))) (skipn 5 (x :: r)) = (name, after) -> name <> [] -> after <> [] ->
  tzid_scan O (x :: r) = name :: tzid_scan (4 + List.length name + 1) r.
Proof.
  intros H1 H2 H3 H4. cbn [tzid_scan]. rewrite H1, H2.
  destruct name; [congruence|]. destruct after; [congruence|]. reflexivity.
Qed.

Theorem tzid_findall_one_d pre name d rest : nolower pre -> noTZ (pre ++ [84]) = true -> name <> [] ->
  nodelim name = true -> d = 58 \/ d = 59 -> nolower rest -> noTZ rest = true ->
  tzid_findall (pre ++ s_TZIDeq ++ name ++ d :: rest) = [name].
Proof.
  intros Hlp Hpre Hne H58 Hd Hlr Hrest. unfold tzid_findall.
  change (s_TZIDeq ++ name ++ d :: rest) with (84 :: 90 :: (73 :: 68 :: 61 :: name ++ d :: rest)).
  rewrite scan_prefix by assumption.
  assert (S : startswith_ci s_TZIDeq (84 :: 90 :: 73 :: 68 :: 61 :: name ++ d :: rest) = true).
  { change s_TZIDeq with [84; 90; 73; 68; 61]. cbn [startswith_ci]. reflexivity. }
  rewrite (scan_hit 84 (90 :: 73 :: 68 :: 61 :: name ++ d :: rest) name (d :: rest) S);
    [|cbn [skipn]; apply span_colon; assumption|exact Hne|discriminate].
  assert (L : (4 + List.length name + 1)%nat = List.length (90 :: 73 :: 68 :: 61 :: name ++ [d])).
  { cbn [List.length]. rewrite app_length. cbn [List.length]. lia. }
  replace (90 :: 73 :: 68 :: 61 :: name ++ d :: rest) with ((90 :: 73 :: 68 :: 61 :: name ++ [d]) ++ rest)
    by (cbn [app]; rewrite <- app_assoc; reflexivity).
  rewrite L.
  rewrite scan_skip. rewrite (scan_noTZ rest O Hlr Hrest). reflexivity.
Qed.

Theorem tzid_findall_one pre name rest : nolower pre -> noTZ (pre ++ [84]) = true -> name <> [] ->
  nodelim name = true -> nolower rest -> noTZ rest = true ->
  tzid_findall (pre ++ s_TZIDeq ++ name ++ 58 :: rest) = [name].
Proof. intros. apply tzid_findall_one_d; auto. Qed.

Lemma namec_nodelim name : (forall x, In x name -> namec_b x = true) -> nodelim name = true.
Proof.
  intro H. unfold nodelim. rewrite !has_char_false; [reflexivity| |];
    apply Forall_forall; intros x Hx; specialize (H x Hx); unfold namec_b, is_ascii, is_space in H; lia.
Qed.

(* ---- Part B: a spelled date value and rule line never contain "TZ" ---- *)
Lemma noTZ_no84 s : Forall (fun c => c <> 84) s -> noTZ s = true.
Proof.
  induction 1 as [|x r Hx Hr IH]; [reflexivity|]. cbn [noTZ]. destruct r as [|y r']; [reflexivity|].
  rewrite IH. replace (x =? 84) with false by lia. reflexivity.
Qed.

Lemma noTZ_no84_app a b : Forall (fun c => c <> 84) a -> noTZ b = true -> noTZ (a ++ b) = true.
Proof.
  induction 1 as [|x r Hx Hr IH]; intro Hb; [exact Hb|].
  cbn [app noTZ]. rewrite (IH Hb). destruct (r ++ b); [reflexivity|].
  replace (x =? 84) with false by lia. reflexivity.
Qed.

Lemma noTZ_app_sep a sep b : sep <> 84 -> sep <> 90 -> noTZ a = true -> noTZ b = true ->
  noTZ (a ++ sep :: b) = true.
Proof.
  intros H1 H2 Ha Hb. induction a as [|x r IH].
  - cbn [app noTZ]. rewrite Hb. destruct b; [reflexivity|]. replace (sep =? 84) with false by lia. reflexivity.
  - pose proof (noTZ_tail x r Ha) as Hr. cbn [app noTZ]. rewrite (IH Hr).
    destruct r as [|y r'].
    + cbn [app]. replace (sep =? 90) with false by lia. rewrite andb_false_r. reflexivity.
    + cbn [app]. cbn [noTZ] in Ha. apply andb_true_iff in Ha as [Ha _]. rewrite Ha. reflexivity.
Qed.

Lemma noTZ_join sep l : sep <> 84 -> sep <> 90 -> Forall (fun s => noTZ s = true) l -> noTZ (join [sep] l) = true.
Proof.
  intros H1 H2. induction 1 as [|x l Hx Hl IH]; [reflexivity|].
  destruct l as [|y l']; [exact Hx|].
  change (join [sep] (x :: y :: l')) with (x ++ sep :: join [sep] (y :: l')).
  apply noTZ_app_sep; assumption.
Qed.

Lemma digits_no84 s : Forall (fun c => is_digit c = true) s -> Forall (fun c => c <> 84) s.
Proof. intro H. eapply Forall_impl; [|exact H]. intros c Hc. unfold is_digit in Hc. lia. Qed.

Lemma str_of_int_no84 n : Forall (fun c => c <> 84) (str_of_int n).
Proof.
  unfold str_of_int. destruct (n <? 0).
  - constructor; [lia|]. apply digits_no84, nat_digits_digits.
  - apply digits_no84, nat_digits_digits.
Qed.

Lemma fmt_plus_no84 n : Forall (fun c => c <> 84) (fmt_plus n).
Proof. unfold fmt_plus. destruct (n <? 0); (constructor; [lia|]); apply digits_no84, nat_digits_digits. Qed.

Lemma str_int_c_no84 plus n : Forall (fun c => c <> 84) (str_int_c plus n).
Proof.
  unfold str_int_c. destruct (plus && (0 <? n)); [constructor; [lia|]|]; apply str_of_int_no84.
Qed.

Lemma d2_no84 n : Forall (fun c => c <> 84) (d2 n).
Proof. unfold d2. repeat constructor; pose proof (Z.mod_pos_bound (n / 10) 10); pose proof (Z.mod_pos_bound n 10); lia. Qed.

Lemma d4_no84 n : Forall (fun c => c <> 84) (d4 n).
Proof.
  unfold d4. repeat constructor;
    pose proof (Z.mod_pos_bound (n / 1000) 10); pose proof (Z.mod_pos_bound (n / 100) 10);
    pose proof (Z.mod_pos_bound (n / 10) 10); pose proof (Z.mod_pos_bound n 10); lia.
Qed.

Lemma dt_spell_noTZ short d : noTZ (dt_spell short d) = true.
Proof.
  unfold dt_spell. destruct (short && is_midnight d).
  - apply noTZ_no84. unfold fmt_date. repeat (apply Forall_app; split); first [apply d4_no84|apply d2_no84].
  - unfold fmt_dt. rewrite <- !app_assoc. cbn [app].
    apply noTZ_no84_app; [apply d4_no84|]. apply noTZ_no84_app; [apply d2_no84|].
    apply noTZ_no84_app; [apply d2_no84|].
    (* 'T' followed by a digit *)
    unfold d2 at 1. cbn [app noTZ].
    assert (N : noTZ ((48 + dh d mod 10 :: d2 (dmi d) ++ d2 (ds d) ++ (if dtz d =? 1 then [90] else []))) = true).
    { apply noTZ_no84. constructor; [pose proof (Z.mod_pos_bound (dh d) 10); lia|].
      apply Forall_app; split; [apply d2_no84|]. apply Forall_app; split; [apply d2_no84|].
      destruct (dtz d =? 1); repeat constructor; lia. }
    cbn [app] in *. 
    pose proof (Z.mod_pos_bound (dh d / 10) 10).
    replace (48 + (dh d / 10) mod 10 =? 90) with false by lia. rewrite andb_false_r. cbn [negb andb].
    replace (48 + (dh d / 10) mod 10 =? 84) with false by lia. cbn [andb negb]. exact N.
Qed.

Lemma wd_name_noTZ i : 0 <= i <= 6 -> noTZ (wd_name i) = true /\ exists a b, wd_name i = [a; b].
Proof.
  intro H. assert (C : i = 0 \/ i = 1 \/ i = 2 \/ i = 3 \/ i = 4 \/ i = 5 \/ i = 6) by lia.
  destruct C as [->|[->|[->|[->|[->|[->| ->]]]]]]; (split; [reflexivity|do 2 eexists; reflexivity]).
Qed.

Lemma wd_spell_noTZ style w : wf_wd w = true -> noTZ (wd_spell style w) = true.
Proof.
  intro Hw. unfold wf_wd in Hw. destruct w as [i n]. cbn [wday wn] in Hw.
  apply andb_true_iff in Hw as [Hi _]. destruct (wd_name_noTZ i ltac:(lia)) as [Hn _].
  unfold wd_spell. cbn [wn wday]. destruct n as [n|]; [|exact Hn].
  destruct (style =? 0); [|destruct (style =? 1); [|destruct (style =? 2)]].
  - apply noTZ_no84_app; [apply fmt_plus_no84|exact Hn].
  - apply noTZ_no84_app; [apply str_of_int_no84|exact Hn].
  - apply noTZ_app_sep; [lia|lia|exact Hn|]. apply noTZ_no84. apply Forall_app; split; [apply fmt_plus_no84|].
    repeat constructor; lia.
  - apply noTZ_app_sep; [lia|lia|exact Hn|]. apply noTZ_no84. apply Forall_app; split; [apply str_of_int_no84|].
    repeat constructor; lia.
Qed.

Lemma wds_spell_noTZ styles : forall l, forallb wf_wd l = true ->
  Forall (fun s => noTZ s = true) (wds_spell styles l).
Proof.
  intro l. revert styles. induction l as [|w l IH]; intros styles H; cbn [wds_spell]; [constructor|].
  cbn [forallb] in H. apply andb_true_iff in H as [Hw Hl].
  constructor; [apply wd_spell_noTZ, Hw|apply IH, Hl].
Qed.

Lemma render_part_noTZ c p : wf_part p = true -> noTZ (render_part c p) = true.
Proof.
  intro H. destruct p as [f|n|w|n|d|i l|l]; cbn [wf_part render_part] in *.
  - assert (C : f = 0 \/ f = 1 \/ f = 2 \/ f = 3 \/ f = 4 \/ f = 5 \/ f = 6) by lia.
    destruct C as [->|[->|[->|[->|[->|[->| ->]]]]]]; reflexivity.
  - apply noTZ_app_sep; [lia|lia|reflexivity|apply noTZ_no84, str_of_int_no84].
  - assert (C : w = 0 \/ w = 1 \/ w = 2 \/ w = 3 \/ w = 4 \/ w = 5 \/ w = 6) by lia.
    destruct C as [->|[->|[->|[->|[->|[->| ->]]]]]]; reflexivity.
  - apply noTZ_app_sep; [lia|lia|reflexivity|apply noTZ_no84, str_of_int_no84].
  - apply noTZ_app_sep; [lia|lia|reflexivity|apply dt_spell_noTZ].
  - apply andb_true_iff in H as [Hi _].
    assert (C : i = 0 \/ i = 1 \/ i = 2 \/ i = 3 \/ i = 4 \/ i = 5 \/ i = 6 \/ i = 7 \/ i = 8) by lia.
    assert (Hv : noTZ (join [44] (map (str_int_c (c_plus c)) l)) = true).
    { apply noTZ_join; [lia|lia|]. apply Forall_forall. intros s Hs. apply in_map_iff in Hs as [n [<- _]].
      apply noTZ_no84, str_int_c_no84. }
    destruct C as [->|[->|[->|[->|[->|[->|[->|[->| ->]]]]]]]]; (apply noTZ_app_sep; [lia|lia|reflexivity|exact Hv]).
  - apply andb_true_iff in H as [_ Hw].
    assert (Hv : noTZ (join [44] (wds_spell (c_styles c) l)) = true).
    { apply noTZ_join; [lia|lia|apply wds_spell_noTZ, Hw]. }
    destruct (c_wdname c); (apply noTZ_app_sep; [lia|lia|reflexivity|exact Hv]).
Qed.

Lemma spell_value_noTZ c k : wf_kw k = true -> noTZ (spell_value c k) = true.
Proof.
  intro H. destruct (parts_wf k H) as [Hwf _]. unfold spell_value.
  pose proof (permute_perm (PCount 0) (c_perm c) (parts_of_kw k)) as HP.
  apply noTZ_join; [lia|lia|]. apply Forall_forall. intros s Hs. apply in_map_iff in Hs as [p [<- Hp]].
  apply render_part_noTZ. rewrite forallb_forall in Hwf. apply Hwf.
  eapply Permutation.Permutation_in; [apply Permutation.Permutation_sym, HP|exact Hp].
Qed.

(* the part of the text behind 'DTSTART;TZID=<name>:' *)
Theorem rest_noTZ c d k : wf_kw k = true ->
  noTZ (dt_spell (c_dshort c) d ++ 10 :: (if c_prefix c then s_RRULEc else []) ++ spell_value c k) = true.
Proof.
  intro H. apply noTZ_app_sep; [lia|lia|apply dt_spell_noTZ|].
  destruct (c_prefix c); [|apply spell_value_noTZ, H].
  change (s_RRULEc ++ spell_value c k) with (s_RRULE ++ 58 :: spell_value c k).
  apply noTZ_app_sep; [lia|lia|reflexivity|apply spell_value_noTZ, H].
Qed.

(* ---- Part C: rrulestr on 'DTSTART;TZID=<name>:<value>' + rule line ---- *)
Definition namec (c : Z) : bool := namec_b c.

Lemma namec_upc c : namec c = true ->
  is_ascii (upc c) = true /\ is_space (upc c) = false /\ is_lower (upc c) = false /\
  upc c <> 58 /\ upc c <> 59 /\ upc c <> 61.
Proof.
  unfold namec, namec_b, upc, is_ascii, is_space, is_lower. intro H.
  destruct ((97 <=? c) && (c <=? 122)) eqn:E; lia.
Qed.

Lemma general_second ev o names l1 c k d : wf_kw k = true ->
  (forall a, do_line o names l1 a = Ok (mkacc (a_rr a) (a_rd a) (a_xr a) (a_xd a) (Some d))) ->
  o_compatible o = false -> o_ignoretz o = false ->
  general ev o false names [l1; (if c_prefix c then s_RRULEc else []) ++ spell_value c k]
  = single ev (o_cache o) (Some d) k.
Proof.
  intros Hk H1 Hc Hi. destruct (spell_value_chars c k Hk) as [Hch [H58 Hne]].
  set (v := spell_value c k) in *.
  unfold general. cbn [do_lines]. rewrite H1. cbn [a_rr a_rd a_xr a_xd a_start].
  assert (L2 : forall a, do_line o names ((if c_prefix c then s_RRULEc else []) ++ v) a =
                         Ok (mkacc (a_rr a ++ [v]) (a_rd a) (a_xr a) (a_xd a) (a_start a))).
  { intro a. destruct (c_prefix c); [apply do_line_RRULE|].
    cbn [app]. apply do_line_bare; assumption. }
  rewrite L2. cbn [a_rr a_rd a_xr a_xd a_start app].
  unfold assemble. cbn [a_rr a_rd a_xr a_xd a_start List.length isnil negb orb Z.of_nat Pos.of_succ_nat Z.ltb Z.compare Pos.compare Pos.compare_cont].
  unfold parse_rule, single. rewrite Hi. fold v. unfold v. rewrite (spell_value_parse c k Hk).
  rewrite (wf_kw_freq k Hk). reflexivity.
Qed.

Definition with_tz (d : dt) (tag : Z) : dt := mkdt (dy d) (dmo d) (dd d) (dh d) (dmi d) (ds d) (dus d) tag.

(* inline DTSTART with a TZID parameter: the start is the value in the zone tzids gives for the
   name (as written in the text; the lookup key is the upper-cased name) *)
Theorem rrulestr_tzid ev o c d k name tag : wf_kw k = true ->
  valid_dt d = true -> dus d = 0 -> dtz d = 0 ->
  name <> [] -> forallb namec name = true -> tz_get (o_tzids o) name = tag -> tag <> 0 ->
  o_forceset o = false -> o_compatible o = false -> o_ignoretz o = false -> o_unfold o = false ->
  parse_rfc ev o (s_DTSTART ++ s_TZIDparm ++ name ++ 58 :: dt_spell (c_dshort c) d ++ 10 ::
                  (if c_prefix c then s_RRULEc else []) ++ spell_value c k)
  = single ev (o_cache o) (Some (with_tz d tag)) k.
Proof.
  intros Hk Hv Hus Htz Hne Hnm Hg Ht Hf Hc Hi Hu.
  destruct (spell_value_chars c k Hk) as [Hch [H58 Hvne]].
  set (dv := dt_spell (c_dshort c) d). set (l2 := (if c_prefix c then s_RRULEc else []) ++ spell_value c k).
  assert (Hdv : Forall (fun ch => atomc ch = true) dv) by apply dt_spell_atoms.
  assert (H2 : Forall (fun ch => linec ch = true) l2).
  { apply Forall_app; split; [|exact Hch]. destruct (c_prefix c); repeat constructor. }
  assert (N2 : l2 <> []) by (unfold l2; destruct (c_prefix c); [discriminate|exact Hvne]).
  rewrite forallb_forall in Hnm.
  assert (Hun : Forall (fun ch => is_ascii ch = true /\ is_space ch = false /\ is_lower ch = false /\
                                  ch <> 58 /\ ch <> 59 /\ ch <> 61) (upper name)).
  { apply Forall_forall. intros ch Hin. unfold upper in Hin. apply in_map_iff in Hin as [x [<- Hx]].
    apply namec_upc, Hnm, Hx. }
  (* the text, its TZID names, its upper-casing *)
  set (T := s_DTSTART ++ s_TZIDparm ++ name ++ 58 :: dv ++ 10 :: l2).
  assert (Hnames : tzid_findall T = [name]).
  { unfold T. change (s_DTSTART ++ s_TZIDparm ++ name ++ 58 :: dv ++ 10 :: l2)
      with ((s_DTSTART ++ [59]) ++ s_TZIDeq ++ name ++ 58 :: (dv ++ 10 :: l2)).
    apply tzid_findall_one; [repeat constructor|reflexivity|exact Hne| | |apply rest_noTZ, Hk].
    2: { apply Forall_app; split.
         - eapply Forall_impl; [|exact Hdv]. intros ch Hc'. apply valc_not_lower. unfold valc. rewrite Hc'. reflexivity.
         - constructor; [reflexivity|]. eapply Forall_impl; [|exact H2]. intros ch Hc'. apply linec_props, Hc'. }
    apply namec_nodelim. exact Hnm. }
  assert (Hasc : forallb is_ascii T = true).
  { unfold T. rewrite !forallb_app. cbn [forallb]. rewrite !forallb_app. cbn [forallb].
    assert (A1 : forallb is_ascii name = true).
    { apply forallb_forall. intros x Hx. specialize (Hnm x Hx). unfold namec, namec_b, is_ascii, is_space in *. lia. }
    assert (A2 : forallb is_ascii dv = true) by (apply txt_ascii, linec_txtc, valc_linec, atoms_vals, Hdv).
    assert (A3 : forallb is_ascii l2 = true) by (apply txt_ascii, linec_txtc, H2).
    rewrite A1, A2, A3. reflexivity. }
  set (l1 := s_DTSTART ++ 59 :: s_TZIDeq ++ upper name ++ 58 :: dv).
  assert (Hup : upper T = l1 ++ 10 :: l2).
  { unfold T, l1. rewrite !upper_app. cbn [upper map] .
    change (map upc (58 :: dv ++ 10 :: l2)) with (upc 58 :: upper (dv ++ 10 :: l2)).
    rewrite upper_app. change (upper (10 :: l2)) with (upc 10 :: upper l2).
    rewrite (txt_upper dv) by (apply linec_txtc, valc_linec, atoms_vals, Hdv).
    rewrite (txt_upper l2) by (apply linec_txtc, H2).
    change (upper s_DTSTART) with s_DTSTART. change (upper s_TZIDparm) with (59 :: s_TZIDeq).
    change (upc 58) with 58. change (upc 10) with 10.
    rewrite <- !app_assoc. cbn [app]. rewrite <- !app_assoc. reflexivity. }
  (* the first line in its original case *)
  set (L1 := s_DTSTART ++ s_TZIDparm ++ name ++ 58 :: dv).
  assert (ET : T = L1 ++ 10 :: l2).
  { unfold T, L1. rewrite <- !app_assoc. cbn [app]. rewrite <- ?app_assoc. reflexivity. }
  assert (SL1 : nosp L1).
  { unfold L1. apply Forall_app; split; [repeat constructor|]. apply Forall_app; split; [repeat constructor|].
    apply Forall_app; split.
    - apply Forall_forall. intros x Hx. specialize (Hnm x Hx). unfold namec, namec_b in Hnm.
      destruct (is_space x); [|reflexivity]. rewrite !andb_false_r in Hnm. cbn in Hnm. discriminate.
    - constructor; [reflexivity|]. apply linec_nosp, valc_linec, atoms_vals, Hdv. }
  assert (NL1 : L1 <> []) by discriminate.
  assert (Hup1 : upper L1 = l1).
  { unfold L1, l1. rewrite !upper_app. cbn [upper map].
    fold (upper dv).
    rewrite (txt_upper dv) by (apply linec_txtc, valc_linec, atoms_vals, Hdv).
    change (upper s_DTSTART) with s_DTSTART. change (upper s_TZIDparm) with (59 :: s_TZIDeq).
    change (upc 58) with 58. reflexivity. }
  unfold parse_rfc. fold T. rewrite Hasc. cbn [negb].
  rewrite ET in Hnames, Hup. rewrite ET.
  rewrite strip_nonnil_app by assumption.
  rewrite Hc, Hu. cbn [orb]. unfold get_lines.
  rewrite words_two by (try assumption; apply linec_nosp, H2).
  change (join [10] [L1; l2]) with (L1 ++ 10 :: l2). rewrite Hnames, Hup.
  cbn [map]. rewrite Hup1, (txt_upper l2 (linec_txtc l2 H2)).
  unfold parse_lines. rewrite Hf, Hc. cbn [orb].
  unfold shortcut. cbn [negb List.length andb Z.of_nat Pos.of_succ_nat Z.eqb Pos.eqb Pos.succ].
  apply general_second; try assumption.
  intro a. unfold l1.
  change (s_DTSTART ++ 59 :: s_TZIDeq ++ upper name ++ 58 :: dv)
    with ((s_DTSTART ++ 59 :: s_TZIDeq ++ upper name) ++ 58 :: dv) at 1.
  assert (U58 : has_char 58 (upper name) = false).
  { apply has_char_false. eapply Forall_impl; [|exact Hun]. intros ch Hc'. apply Hc'. }
  assert (U59 : has_char 59 (upper name) = false).
  { apply has_char_false. eapply Forall_impl; [|exact Hun]. intros ch Hc'. apply Hc'. }
  assert (U61 : has_char 61 (upper name) = false).
  { apply has_char_false. eapply Forall_impl; [|exact Hun]. intros ch Hc'. apply Hc'. }
  rewrite (do_line_DTSTART o [name] (s_DTSTART ++ 59 :: s_TZIDeq ++ upper name) [s_TZIDeq ++ upper name] dv a).
  - unfold dv. rewrite (RstrThmTzid.tzid_param_partial o [name] name tag (c_dshort c) d U61); try assumption.
    + reflexivity.
    + unfold tzid_lookup. cbn [rev app find]. rewrite leqb_refl. reflexivity.
  - rewrite split_on_app by reflexivity. rewrite split_on_nosep; [reflexivity|].
    rewrite has_char_app, U59. reflexivity.
  - rewrite has_char_app. change (59 :: s_TZIDeq ++ upper name) with ((59 :: s_TZIDeq) ++ upper name).
    rewrite has_char_app, U58. reflexivity.
Qed.

Example ex_tzid_name : forallb namec (zs "America/Argentina/ComodRivadavia"%string) = true /\
  forallb namec (zs "Etc/GMT+5"%string) = true /\ forallb namec (zs "bad name"%string) = false.
Proof. repeat split; reflexivity. Qed.

(* ---- the same with folded lines (the TZID names are collected after unfolding, e7ff56b) ---- *)
Lemma tzid_two_lines ev o c d k name tag S : wf_kw k = true ->
  valid_dt d = true -> dus d = 0 -> dtz d = 0 ->
  forallb namec name = true -> tz_get (o_tzids o) name = tag -> tag <> 0 ->
  o_forceset o = false -> o_compatible o = false -> o_ignoretz o = false ->
  parse_lines ev o [name] S
    [s_DTSTART ++ 59 :: s_TZIDeq ++ upper name ++ 58 :: dt_spell (c_dshort c) d;
     (if c_prefix c then s_RRULEc else []) ++ spell_value c k]
  = single ev (o_cache o) (Some (with_tz d tag)) k.
Proof.
  intros Hk Hv Hus Htz Hnm Hg Ht Hf Hc Hi.
  set (dv := dt_spell (c_dshort c) d).
  rewrite forallb_forall in Hnm.
  assert (Hun : Forall (fun ch => is_ascii ch = true /\ is_space ch = false /\ is_lower ch = false /\
                                  ch <> 58 /\ ch <> 59 /\ ch <> 61) (upper name)).
  { apply Forall_forall. intros ch Hin. unfold upper in Hin. apply in_map_iff in Hin as [x [<- Hx]].
    apply namec_upc, Hnm, Hx. }
  unfold parse_lines. rewrite Hf, Hc. cbn [orb].
  unfold shortcut. cbn [negb List.length andb Z.of_nat Pos.of_succ_nat Z.eqb Pos.eqb Pos.succ].
  apply general_second; try assumption.
  intro a.
  change (s_DTSTART ++ 59 :: s_TZIDeq ++ upper name ++ 58 :: dv)
    with ((s_DTSTART ++ 59 :: s_TZIDeq ++ upper name) ++ 58 :: dv).
  assert (U58 : has_char 58 (upper name) = false).
  { apply has_char_false. eapply Forall_impl; [|exact Hun]. intros ch Hc'. apply Hc'. }
  assert (U59 : has_char 59 (upper name) = false).
  { apply has_char_false. eapply Forall_impl; [|exact Hun]. intros ch Hc'. apply Hc'. }
  assert (U61 : has_char 61 (upper name) = false).
  { apply has_char_false. eapply Forall_impl; [|exact Hun]. intros ch Hc'. apply Hc'. }
  rewrite (do_line_DTSTART o [name] (s_DTSTART ++ 59 :: s_TZIDeq ++ upper name) [s_TZIDeq ++ upper name] dv a).
  - unfold dv. rewrite (RstrThmTzid.tzid_param_partial o [name] name tag (c_dshort c) d U61); try assumption.
    + reflexivity.
    + unfold tzid_lookup. cbn [rev app find]. rewrite leqb_refl. reflexivity.
  - rewrite split_on_app by reflexivity. rewrite split_on_nosep; [reflexivity|].
    rewrite has_char_app, U59. reflexivity.
  - rewrite has_char_app. change (59 :: s_TZIDeq ++ upper name) with ((59 :: s_TZIDeq) ++ upper name).
    rewrite has_char_app, U58. reflexivity.
Qed.

Theorem rrulestr_tzid_folded ev o c d k name tag ps : wf_kw k = true ->
  valid_dt d = true -> dus d = 0 -> dtz d = 0 ->
  name <> [] -> forallb namec name = true -> tz_get (o_tzids o) name = tag -> tag <> 0 ->
  o_forceset o = false -> o_compatible o = false -> o_ignoretz o = false -> o_unfold o = true ->
  parse_rfc ev o (join [10] (map (fold_line ps 0)
     [s_DTSTART ++ s_TZIDparm ++ name ++ 58 :: dt_spell (c_dshort c) d;
      (if c_prefix c then s_RRULEc else []) ++ spell_value c k]))
  = single ev (o_cache o) (Some (with_tz d tag)) k.
Proof.
  intros Hk Hv Hus Htz Hne Hnm Hg Ht Hf Hc Hi Hu.
  destruct (spell_value_chars c k Hk) as [Hch [H58 Hvne]].
  set (dv := dt_spell (c_dshort c) d). set (l2 := (if c_prefix c then s_RRULEc else []) ++ spell_value c k).
  set (L1 := s_DTSTART ++ s_TZIDparm ++ name ++ 58 :: dv).
  assert (Hdv : Forall (fun ch => atomc ch = true) dv) by apply dt_spell_atoms.
  assert (H2 : Forall (fun ch => linec ch = true) l2).
  { apply Forall_app; split; [|exact Hch]. destruct (c_prefix c); repeat constructor. }
  assert (N2 : l2 <> []) by (unfold l2; destruct (c_prefix c); [discriminate|exact Hvne]).
  pose proof Hnm as Hnm'. rewrite forallb_forall in Hnm.
  (* every character of the first line is ASCII and not a blank *)
  assert (C1 : Forall (fun ch => is_ascii ch = true /\ is_space ch = false) L1).
  { unfold L1. apply Forall_app; split; [repeat constructor|]. apply Forall_app; split; [repeat constructor|].
    apply Forall_app; split.
    - apply Forall_forall. intros x Hx. specialize (Hnm x Hx). unfold namec, namec_b in Hnm.
      destruct (is_ascii x), (is_space x); cbn in Hnm; try discriminate. split; reflexivity.
    - constructor; [split; reflexivity|]. eapply Forall_impl; [|exact Hdv]. intros ch Hc'.
      destruct (linec_props ch) as [P1 [_ P3]]; [unfold linec, valc; rewrite Hc'; reflexivity|]. split; assumption. }
  assert (C2 : Forall (fun ch => is_ascii ch = true /\ is_space ch = false) l2).
  { eapply Forall_impl; [|exact H2]. intros ch Hc'. destruct (linec_props ch Hc') as [P1 [_ P3]]. split; assumption. }
  assert (NL1 : L1 <> []) by discriminate.
  assert (Hok : Forall okseg [L1; l2]).
  { constructor; [split; [exact NL1|eapply Forall_impl; [|exact C1]; intros ch Hc'; apply Hc']|].
    constructor; [split; [exact N2|eapply Forall_impl; [|exact C2]; intros ch Hc'; apply Hc']|constructor]. }
  set (F := join [10] (map (fold_line ps 0) [L1; l2])).
  assert (FA : forall s i, Forall (fun ch => is_ascii ch = true /\ is_space ch = false) s ->
                           forallb is_ascii (fold_line ps i s) = true).
  { induction s as [|ch s IH]; intros i Hs; [reflexivity|]. inversion Hs as [|? ? [A _] Hs']; subst.
    cbn [fold_line]. rewrite forallb_app. cbn [forallb]. rewrite A, (IH (S i) Hs').
    destruct (mem_nat i ps && negb (i =? 0)%nat); reflexivity. }
  assert (Has : forallb is_ascii F = true).
  { unfold F. cbn [map join]. rewrite forallb_app. cbn [app forallb]. rewrite (FA L1 0%nat C1), (FA l2 0%nat C2). reflexivity. }
  assert (Hst : isnil (strip F) = false).
  { unfold F. cbn [map join]. destruct L1 as [|c0 t1] eqn:E1; [congruence|].
    rewrite fold_line_head. cbn [app]. apply strip_nonnil. inversion C1 as [|? ? [_ Hc0] _]; subst. exact Hc0. }
  unfold parse_rfc. rewrite Has. cbn [negb]. rewrite Hst. rewrite Hu. cbn [orb].
  unfold F. rewrite (unfold_fold_lines ps [L1; l2] Hok).
  change (join [10] [L1; l2]) with (L1 ++ 10 :: l2).
  assert (Hnames : tzid_findall (L1 ++ 10 :: l2) = [name]).
  { unfold L1. rewrite <- !app_assoc. cbn [app]. rewrite <- ?app_assoc.
    change (s_DTSTART ++ s_TZIDparm ++ name ++ 58 :: dv ++ 10 :: l2)
      with ((s_DTSTART ++ [59]) ++ s_TZIDeq ++ name ++ 58 :: (dv ++ 10 :: l2)).
    apply tzid_findall_one; [repeat constructor|reflexivity|exact Hne| | |apply rest_noTZ, Hk].
    2: { apply Forall_app; split.
         - eapply Forall_impl; [|exact Hdv]. intros ch Hc'. apply valc_not_lower. unfold valc. rewrite Hc'. reflexivity.
         - constructor; [reflexivity|]. eapply Forall_impl; [|exact H2]. intros ch Hc'. apply linec_props, Hc'. }
    apply namec_nodelim. exact Hnm. }
  rewrite Hnames. cbn [map].
  assert (Hup1 : upper L1 = s_DTSTART ++ 59 :: s_TZIDeq ++ upper name ++ 58 :: dv).
  { unfold L1. rewrite !upper_app. cbn [upper map]. fold (upper dv).
    rewrite (txt_upper dv) by (apply linec_txtc, valc_linec, atoms_vals, Hdv).
    change (upper s_DTSTART) with s_DTSTART. change (upper s_TZIDparm) with (59 :: s_TZIDeq).
    change (upc 58) with 58. reflexivity. }
  rewrite Hup1, (txt_upper l2 (linec_txtc l2 H2)).
  apply tzid_two_lines; assumption.
Qed.
