(* Keyword dictionaries: the parts of a dictionary rebuild it, in any order. *)
From Coq Require Import ZArith List Bool Lia ZifyBool Permutation.
From V Require Import base.Cal rstr.RstrPrim rstr.RstrLemmas rstr.RstrModel rstr.RstrSpec.
Import ListNotations.
Open Scope Z_scope.

Notation fapply := (fun k p => apply_part p k).

Lemma fold_opt_freq o v1 v2 v3 v4 v5 v6 v7 v8 v9 v10 v11 v12 v13 v14 :
  fold_left fapply (opt_part PFreq o) (mkkw None v1 v2 v3 v4 v5 v6 v7 v8 v9 v10 v11 v12 v13 v14) = mkkw o v1 v2 v3 v4 v5 v6 v7 v8 v9 v10 v11 v12 v13 v14.
Proof. destruct o; reflexivity. Qed.

Lemma fold_opt_interval o v0 v2 v3 v4 v5 v6 v7 v8 v9 v10 v11 v12 v13 v14 :
  fold_left fapply (opt_part PInterval o) (mkkw v0 None v2 v3 v4 v5 v6 v7 v8 v9 v10 v11 v12 v13 v14) = mkkw v0 o v2 v3 v4 v5 v6 v7 v8 v9 v10 v11 v12 v13 v14.
Proof. destruct o; reflexivity. Qed.

Lemma fold_opt_wkst o v0 v1 v3 v4 v5 v6 v7 v8 v9 v10 v11 v12 v13 v14 :
  fold_left fapply (opt_part PWkst o) (mkkw v0 v1 None v3 v4 v5 v6 v7 v8 v9 v10 v11 v12 v13 v14) = mkkw v0 v1 o v3 v4 v5 v6 v7 v8 v9 v10 v11 v12 v13 v14.
Proof. destruct o; reflexivity. Qed.

Lemma fold_opt_count o v0 v1 v2 v4 v5 v6 v7 v8 v9 v10 v11 v12 v13 v14 :
  fold_left fapply (opt_part PCount o) (mkkw v0 v1 v2 None v4 v5 v6 v7 v8 v9 v10 v11 v12 v13 v14) = mkkw v0 v1 v2 o v4 v5 v6 v7 v8 v9 v10 v11 v12 v13 v14.
Proof. destruct o; reflexivity. Qed.

Lemma fold_opt_until o v0 v1 v2 v3 v5 v6 v7 v8 v9 v10 v11 v12 v13 v14 :
  fold_left fapply (opt_part PUntil o) (mkkw v0 v1 v2 v3 None v5 v6 v7 v8 v9 v10 v11 v12 v13 v14) = mkkw v0 v1 v2 v3 o v5 v6 v7 v8 v9 v10 v11 v12 v13 v14.
Proof. destruct o; reflexivity. Qed.

Lemma fold_opt_bysetpos o v0 v1 v2 v3 v4 v6 v7 v8 v9 v10 v11 v12 v13 v14 :
  fold_left fapply (opt_part (PList 0) o) (mkkw v0 v1 v2 v3 v4 None v6 v7 v8 v9 v10 v11 v12 v13 v14) = mkkw v0 v1 v2 v3 v4 o v6 v7 v8 v9 v10 v11 v12 v13 v14.
Proof. destruct o; reflexivity. Qed.

Lemma fold_opt_bymonth o v0 v1 v2 v3 v4 v5 v7 v8 v9 v10 v11 v12 v13 v14 :
  fold_left fapply (opt_part (PList 1) o) (mkkw v0 v1 v2 v3 v4 v5 None v7 v8 v9 v10 v11 v12 v13 v14) = mkkw v0 v1 v2 v3 v4 v5 o v7 v8 v9 v10 v11 v12 v13 v14.
Proof. destruct o; reflexivity. Qed.

Lemma fold_opt_bymonthday o v0 v1 v2 v3 v4 v5 v6 v8 v9 v10 v11 v12 v13 v14 :
  fold_left fapply (opt_part (PList 2) o) (mkkw v0 v1 v2 v3 v4 v5 v6 None v8 v9 v10 v11 v12 v13 v14) = mkkw v0 v1 v2 v3 v4 v5 v6 o v8 v9 v10 v11 v12 v13 v14.
Proof. destruct o; reflexivity. Qed.

Lemma fold_opt_byyearday o v0 v1 v2 v3 v4 v5 v6 v7 v9 v10 v11 v12 v13 v14 :
  fold_left fapply (opt_part (PList 3) o) (mkkw v0 v1 v2 v3 v4 v5 v6 v7 None v9 v10 v11 v12 v13 v14) = mkkw v0 v1 v2 v3 v4 v5 v6 v7 o v9 v10 v11 v12 v13 v14.
Proof. destruct o; reflexivity. Qed.

Lemma fold_opt_byeaster o v0 v1 v2 v3 v4 v5 v6 v7 v8 v10 v11 v12 v13 v14 :
  fold_left fapply (opt_part (PList 4) o) (mkkw v0 v1 v2 v3 v4 v5 v6 v7 v8 None v10 v11 v12 v13 v14) = mkkw v0 v1 v2 v3 v4 v5 v6 v7 v8 o v10 v11 v12 v13 v14.
Proof. destruct o; reflexivity. Qed.

Lemma fold_opt_byweekno o v0 v1 v2 v3 v4 v5 v6 v7 v8 v9 v11 v12 v13 v14 :
  fold_left fapply (opt_part (PList 5) o) (mkkw v0 v1 v2 v3 v4 v5 v6 v7 v8 v9 None v11 v12 v13 v14) = mkkw v0 v1 v2 v3 v4 v5 v6 v7 v8 v9 o v11 v12 v13 v14.
Proof. destruct o; reflexivity. Qed.

Lemma fold_opt_byweekday o v0 v1 v2 v3 v4 v5 v6 v7 v8 v9 v10 v12 v13 v14 :
  fold_left fapply (opt_part PWd o) (mkkw v0 v1 v2 v3 v4 v5 v6 v7 v8 v9 v10 None v12 v13 v14) = mkkw v0 v1 v2 v3 v4 v5 v6 v7 v8 v9 v10 o v12 v13 v14.
Proof. destruct o; reflexivity. Qed.

Lemma fold_opt_byhour o v0 v1 v2 v3 v4 v5 v6 v7 v8 v9 v10 v11 v13 v14 :
  fold_left fapply (opt_part (PList 6) o) (mkkw v0 v1 v2 v3 v4 v5 v6 v7 v8 v9 v10 v11 None v13 v14) = mkkw v0 v1 v2 v3 v4 v5 v6 v7 v8 v9 v10 v11 o v13 v14.
Proof. destruct o; reflexivity. Qed.

Lemma fold_opt_byminute o v0 v1 v2 v3 v4 v5 v6 v7 v8 v9 v10 v11 v12 v14 :
  fold_left fapply (opt_part (PList 7) o) (mkkw v0 v1 v2 v3 v4 v5 v6 v7 v8 v9 v10 v11 v12 None v14) = mkkw v0 v1 v2 v3 v4 v5 v6 v7 v8 v9 v10 v11 v12 o v14.
Proof. destruct o; reflexivity. Qed.

Lemma fold_opt_bysecond o v0 v1 v2 v3 v4 v5 v6 v7 v8 v9 v10 v11 v12 v13 :
  fold_left fapply (opt_part (PList 8) o) (mkkw v0 v1 v2 v3 v4 v5 v6 v7 v8 v9 v10 v11 v12 v13 None) = mkkw v0 v1 v2 v3 v4 v5 v6 v7 v8 v9 v10 v11 v12 v13 o.
Proof. destruct o; reflexivity. Qed.

Theorem kw_of_parts_of_kw k : kw_of_parts (parts_of_kw k) = k.
Proof.
  destruct k as [v0 v1 v2 v3 v4 v5 v6 v7 v8 v9 v10 v11 v12 v13 v14].
  unfold kw_of_parts, parts_of_kw, kw_empty.
  cbn [k_freq k_interval k_wkst k_count k_until k_bysetpos k_bymonth k_bymonthday k_byyearday k_byeaster
       k_byweekno k_byweekday k_byhour k_byminute k_bysecond].
  rewrite !fold_left_app.
  rewrite fold_opt_freq.
  rewrite fold_opt_interval.
  rewrite fold_opt_wkst.
  rewrite fold_opt_count.
  rewrite fold_opt_until.
  rewrite fold_opt_bysetpos.
  rewrite fold_opt_bymonth.
  rewrite fold_opt_bymonthday.
  rewrite fold_opt_byyearday.
  rewrite fold_opt_byweekno.
  rewrite fold_opt_byweekday.
  rewrite fold_opt_byhour.
  rewrite fold_opt_byminute.
  rewrite fold_opt_bysecond.
  rewrite fold_opt_byeaster.
  reflexivity.
Qed.

(* ---- one optional part per key ---- *)
Definition kget (j : Z) (k : kwargs) : option part :=
  if j =? 0 then option_map PFreq (k_freq k)
  else if j =? 1 then option_map PInterval (k_interval k)
  else if j =? 2 then option_map PWkst (k_wkst k)
  else if j =? 3 then option_map PCount (k_count k)
  else if j =? 4 then option_map PUntil (k_until k)
  else if j =? 5 then option_map (PList 0) (k_bysetpos k)
  else if j =? 6 then option_map (PList 1) (k_bymonth k)
  else if j =? 7 then option_map (PList 2) (k_bymonthday k)
  else if j =? 8 then option_map (PList 3) (k_byyearday k)
  else if j =? 9 then option_map (PList 4) (k_byeaster k)
  else if j =? 10 then option_map (PList 5) (k_byweekno k)
  else if j =? 11 then option_map (PList 6) (k_byhour k)
  else if j =? 12 then option_map (PList 7) (k_byminute k)
  else if j =? 13 then option_map (PList 8) (k_bysecond k)
  else if j =? 14 then option_map PWd (k_byweekday k)
  else None.

Definition keyok (p : part) : Prop := match p with PList i _ => 0 <= i <= 8 | _ => True end.

Ltac jcases j :=
  let C := fresh "C" in
  assert (C : j < 0 \/ j = 0 \/ j = 1 \/ j = 2 \/ j = 3 \/ j = 4 \/ j = 5 \/ j = 6 \/ j = 7 \/ j = 8 \/ j = 9
              \/ j = 10 \/ j = 11 \/ j = 12 \/ j = 13 \/ j = 14 \/ j > 14) by lia;
  repeat (destruct C as [C|C]).

Lemma kget_out j k : j < 0 \/ j > 14 -> kget j k = None.
Proof.
  intro H. unfold kget.
  repeat match goal with |- context [j =? ?n] => replace (j =? n) with false by lia end.
  reflexivity.
Qed.

Lemma kget_apply_same p k : keyok p -> kget (part_key p) (apply_part p k) = Some p.
Proof.
  destruct p as [f|n|w|n|d|i l|l]; cbn [keyok part_key apply_part]; intro H; try reflexivity.
  assert (C : i = 0 \/ i = 1 \/ i = 2 \/ i = 3 \/ i = 4 \/ i = 5 \/ i = 6 \/ i = 7 \/ i = 8) by lia.
  destruct C as [->|[->|[->|[->|[->|[->|[->|[->| ->]]]]]]]]; reflexivity.
Qed.

Lemma kget_apply_other p k j : j <> part_key p -> kget j (apply_part p k) = kget j k.
Proof.
  intro Hj. jcases j; try (rewrite !kget_out by lia; reflexivity); subst j;
  destruct p as [f|n|w|n|d|i l|l]; cbn [part_key apply_part] in *; try reflexivity; try lia;
  unfold kget, set_list; cbn [Z.eqb k_freq k_interval k_wkst k_count k_until k_bysetpos k_bymonth k_bymonthday
     k_byyearday k_byeaster k_byweekno k_byweekday k_byhour k_byminute k_bysecond];
  repeat match goal with |- context [i =? ?n] => replace (i =? n) with false by lia end; reflexivity.
Qed.

Lemma option_map_inj {A B} (f : A -> B) (o o' : option A) :
  (forall x y, f x = f y -> x = y) -> option_map f o = option_map f o' -> o = o'.
Proof.
  intros Hf H. destruct o, o'; cbn in H; try discriminate; [|reflexivity].
  inversion H as [H1]. apply Hf in H1. congruence.
Qed.

Lemma kw_ext k k' : (forall j, 0 <= j <= 14 -> kget j k = kget j k') -> k = k'.
Proof.
  intro H.
  pose proof (H 0 ltac:(lia)) as H0. pose proof (H 1 ltac:(lia)) as H1. pose proof (H 2 ltac:(lia)) as H2.
  pose proof (H 3 ltac:(lia)) as H3. pose proof (H 4 ltac:(lia)) as H4. pose proof (H 5 ltac:(lia)) as H5.
  pose proof (H 6 ltac:(lia)) as H6. pose proof (H 7 ltac:(lia)) as H7. pose proof (H 8 ltac:(lia)) as H8.
  pose proof (H 9 ltac:(lia)) as H9. pose proof (H 10 ltac:(lia)) as H10. pose proof (H 11 ltac:(lia)) as H11.
  pose proof (H 12 ltac:(lia)) as H12. pose proof (H 13 ltac:(lia)) as H13. pose proof (H 14 ltac:(lia)) as H14.
  clear H. destruct k as [a0 a1 a2 a3 a4 a5 a6 a7 a8 a9 a10 a11 a12 a13 a14]. destruct k' as [b0 b1 b2 b3 b4 b5 b6 b7 b8 b9 b10 b11 b12 b13 b14]. unfold kget in *.
  cbn [Z.eqb k_freq k_interval k_wkst k_count k_until k_bysetpos k_bymonth k_bymonthday
     k_byyearday k_byeaster k_byweekno k_byweekday k_byhour k_byminute k_bysecond] in *.
  apply option_map_inj in H0; [|intros ? ? E; inversion E; reflexivity].
  apply option_map_inj in H1; [|intros ? ? E; inversion E; reflexivity].
  apply option_map_inj in H2; [|intros ? ? E; inversion E; reflexivity].
  apply option_map_inj in H3; [|intros ? ? E; inversion E; reflexivity].
  apply option_map_inj in H4; [|intros ? ? E; inversion E; reflexivity].
  apply option_map_inj in H5; [|intros ? ? E; inversion E; reflexivity].
  apply option_map_inj in H6; [|intros ? ? E; inversion E; reflexivity].
  apply option_map_inj in H7; [|intros ? ? E; inversion E; reflexivity].
  apply option_map_inj in H8; [|intros ? ? E; inversion E; reflexivity].
  apply option_map_inj in H9; [|intros ? ? E; inversion E; reflexivity].
  apply option_map_inj in H10; [|intros ? ? E; inversion E; reflexivity].
  apply option_map_inj in H11; [|intros ? ? E; inversion E; reflexivity].
  apply option_map_inj in H12; [|intros ? ? E; inversion E; reflexivity].
  apply option_map_inj in H13; [|intros ? ? E; inversion E; reflexivity].
  apply option_map_inj in H14; [|intros ? ? E; inversion E; reflexivity].
  subst. reflexivity.
Qed.

Definition keyis (j : Z) (p : part) : bool := part_key p =? j.

Lemma fold_kget j : forall ps k, NoDup (map part_key ps) -> Forall keyok ps ->
  kget j (fold_left fapply ps k) =
  match find (keyis j) ps with Some p => Some p | None => kget j k end.
Proof.
  induction ps as [|p ps IH]; intros k Hnd Hok; [reflexivity|].
  cbn [fold_left find map] in *. inversion Hnd as [|? ? Hnotin Hnd']; subst.
  inversion Hok as [|? ? Hp Hok']; subst.
  rewrite IH by assumption. unfold keyis at 2. destruct (Z.eqb_spec (part_key p) j) as [E|E].
  - assert (Hf : find (keyis j) ps = None).
    { destruct (find (keyis j) ps) as [q|] eqn:F; [|reflexivity].
      apply find_some in F as [Hin Hk]. unfold keyis in Hk. apply Z.eqb_eq in Hk.
      exfalso. apply Hnotin. rewrite E, <- Hk. apply in_map, Hin. }
    rewrite Hf. rewrite <- E. apply kget_apply_same, Hp.
  - destruct (find (keyis j) ps); [reflexivity|]. apply kget_apply_other. congruence.
Qed.

Lemma find_perm j ps ps' : Permutation ps ps' -> NoDup (map part_key ps) ->
  find (keyis j) ps = find (keyis j) ps'.
Proof.
  intros HP Hnd.
  assert (Hnd' : NoDup (map part_key ps')) by (eapply Permutation_NoDup; [apply Permutation_map, HP|exact Hnd]).
  assert (U : forall l q, NoDup (map part_key l) -> In q l -> part_key q = j -> find (keyis j) l = Some q).
  { induction l as [|x l IHl]; intros q Hn Hin Hk; [contradiction|].
    cbn [find map] in *. inversion Hn as [|? ? Hx Hn2]; subst. unfold keyis at 1.
    destruct Hin as [->|Hin].
    - rewrite Z.eqb_refl. reflexivity.
    - destruct (Z.eqb_spec (part_key x) (part_key q)) as [E|E].
      + exfalso. apply Hx. rewrite E. apply in_map, Hin.
      + apply IHl; [assumption|assumption|reflexivity]. }
  destruct (find (keyis j) ps) as [q|] eqn:F.
  - apply find_some in F as [Hin Hk]. unfold keyis in Hk. apply Z.eqb_eq in Hk.
    symmetry. apply U; [exact Hnd'|eapply Permutation_in; eassumption|exact Hk].
  - destruct (find (keyis j) ps') as [q|] eqn:F'; [|reflexivity].
    apply find_some in F' as [Hin Hk].
    pose proof (find_none _ _ F q (Permutation_in q (Permutation_sym HP) Hin)) as Hn. congruence.
Qed.

Theorem kw_of_parts_perm ps ps' : Permutation ps ps' -> NoDup (map part_key ps) -> Forall keyok ps ->
  kw_of_parts ps' = kw_of_parts ps.
Proof.
  intros HP Hnd Hok. apply kw_ext. intros j _. unfold kw_of_parts.
  rewrite !fold_kget; try assumption.
  - rewrite (find_perm j ps ps' HP Hnd). reflexivity.
  - eapply Permutation_NoDup; [apply Permutation_map, HP|exact Hnd].
  - eapply Permutation_Forall; eassumption.
Qed.
