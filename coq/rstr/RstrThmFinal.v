(* str_roundtrip, its guards (with refuting witnesses), error classes, case invariance. *)
From Coq Require Import String ZArith List Bool Lia ZifyBool.
From V Require Import base.Cal rstr.RstrPrim rstr.RstrLemmas rstr.RstrModel rstr.RstrSpec
  rstr.RstrThmParts rstr.RstrThmSpell rstr.RstrThmTop rstr.RstrThmStr rstr.RstrThmCtor.
Import ListNotations.
Open Scope Z_scope.

(* rrulestr(str(rule)) rebuilds the rule: same start, same derived BY-fields, same recorded
   arguments.  Guards: calendar.firstweekday() = 0 or the rule's week start is not MO (exactly the
   complement of F-C13-c: __str__ omits WKST only when it is 0); no empty BY tuples and no 0 in BYMONTHDAY
   (wf_args); naive start and until, whole seconds, RFC value ranges (wf_rule). *)
Theorem str_roundtrip ev o st kw r :
  ctor ev (Some st) kw = Ok r -> (e_fwd ev = 0 \/ r_wkst r <> 0) -> wf_args kw = true -> wf_rule r = true ->
  o_forceset o = false -> o_compatible o = false -> o_ignoretz o = false -> o_unfold o = false ->
  parse_rfc ev o (to_str r) = RRule (o_cache o) r.
Proof.
  intros H Hfwd Hwf Hr Hf Hc Hi Hu. rewrite (str_roundtrip_text ev o r Hr Hf Hc Hi Hu).
  unfold single. rewrite (ctor_idem ev st kw r H Hfwd Hwf). reflexivity.
Qed.

(* str() ignores the microsecond of until *)
Definition trunc_until (r : rule) : rule :=
  mkrule (r_dtstart r) (r_freq r) (r_interval r) (r_wkst r) (r_count r)
         (match r_until r with Some u => Some (zero_us u) | None => None end)
         (r_bysetpos r) (r_bymonth r) (r_bymonthday r) (r_bynmonthday r) (r_byyearday r) (r_byeaster r)
         (r_byweekno r) (r_byweekday r) (r_bynweekday r) (r_byhour r) (r_byminute r) (r_bysecond r)
         (og_bysetpos r) (og_bymonth r) (og_bymonthday r) (og_byyearday r) (og_byeaster r) (og_byweekno r)
         (og_byweekday r) (og_byhour r) (og_byminute r) (og_bysecond r).

Lemma to_str_trunc r : to_str (trunc_until r) = to_str r.
Proof.
  unfold to_str, str_parts, trunc_until. cbn [r_dtstart r_freq r_interval r_wkst r_count r_until
    og_bysetpos og_bymonth og_bymonthday og_byyearday og_byeaster og_byweekno og_byweekday og_byhour
    og_byminute og_bysecond].
  destruct (r_until r); reflexivity.
Qed.

Definition kw_trunc (kw : kwargs) : kwargs :=
  mkkw (k_freq kw) (k_interval kw) (k_wkst kw) (k_count kw)
       (match k_until kw with Some u => Some (zero_us u) | None => None end)
       (k_bysetpos kw) (k_bymonth kw) (k_bymonthday kw) (k_byyearday kw) (k_byeaster kw) (k_byweekno kw)
       (k_byweekday kw) (k_byhour kw) (k_byminute kw) (k_bysecond kw).

Lemma ctor_trunc ev st kw r : ctor ev (Some st) kw = Ok r -> ctor ev (Some st) (kw_trunc kw) = Ok (trunc_until r).
Proof.
  intro H.
  destruct (ctor_inv ev st kw r H) as
    [fq [rm [om [ry [oy [re [oe [rp [rn [omd [rw [ow [rwd [rnwd [owd [rh [oh [rmi [omi [rs [os Hx]]]]]]]]]]]]]]]]]]]]].
  cbv zeta in Hx.
  destruct Hx as [Hf [Hu [Hs [Hm [Hy [He [Hmd [Hw [Hwd [Hh [Hmi [Hsec [Hb Hr]]]]]]]]]]]]].
  pose proof (ctor_zero_check ev st kw r H) as Hz.
  subst r. erewrite ctor_eq; try eassumption.
  - unfold trunc_until, kw_trunc. cbn. reflexivity.
  - cbn [kw_trunc k_until]. destruct (k_until kw) as [u|]; [|reflexivity]. exact Hu.
Qed.

(* with a fractional until: the re-read rule is the rule with until truncated to whole seconds
   (occurrences have microsecond 0, so the occurrence set is the same) *)
Theorem str_roundtrip_until_us ev o st kw r :
  ctor ev (Some st) kw = Ok r -> (e_fwd ev = 0 \/ r_wkst r <> 0) -> wf_args kw = true -> wf_rule (trunc_until r) = true ->
  o_forceset o = false -> o_compatible o = false -> o_ignoretz o = false -> o_unfold o = false ->
  parse_rfc ev o (to_str r) = RRule (o_cache o) (trunc_until r).
Proof.
  intros H Hfwd Hwf Hr Hf Hc Hi Hu. rewrite <- to_str_trunc.
  apply (str_roundtrip ev o st (kw_trunc kw)); try assumption.
  apply ctor_trunc, H.
Qed.

(* ---- the guards are necessary: witnesses ---- *)
Definition d2000 : dt := mkdt 2000 1 1 0 0 0 0 0.
Definition o_default : opts := mkopts None false false false false false [].
Definition ev0 : env := mkenv 0 d2000.

(* F-C13-c: calendar.firstweekday() = 6, rule built with wkst=MO *)
Definition kw_wkst : kwargs :=
  mkkw (Some 2) (Some 2) (Some 0) (Some 6) None None None None None None None
       (Some [mkwd 6 None; mkwd 0 None]) None None None.
Theorem str_roundtrip_firstweekday_refuted : exists ev st kw r,
  ctor ev (Some st) kw = Ok r /\ e_fwd ev <> 0 /\ r_wkst r = 0 /\ wf_args kw = true /\ wf_rule r = true /\
  parse_rfc ev o_default (to_str r) <> RRule false r.
Proof.
  exists (mkenv 6 d2000), d2000, kw_wkst.
  destruct (ctor (mkenv 6 d2000) (Some d2000) kw_wkst) as [r|] eqn:E; [|vm_compute in E; discriminate].
  exists r. split; [reflexivity|]. vm_compute in E. injection E as <-.
  split; [discriminate|]. split; [reflexivity|]. split; [reflexivity|]. split; [reflexivity|]. vm_compute. discriminate.
Qed.

(* ... and only then: with calendar.firstweekday() = 6 the same rule with wkst=TU, or with no wkst
   argument at all (the rule gets wkst=SU and __str__ writes it), does round-trip *)
Definition kw_wkst_tu : kwargs :=
  mkkw (Some 2) (Some 2) (Some 1) (Some 6) None None None None None None None
       (Some [mkwd 6 None; mkwd 0 None]) None None None.
Definition kw_wkst_none : kwargs :=
  mkkw (Some 2) (Some 2) None (Some 6) None None None None None None None
       (Some [mkwd 6 None; mkwd 0 None]) None None None.
Example str_roundtrip_firstweekday_other_wkst :
  (exists r, ctor (mkenv 6 d2000) (Some d2000) kw_wkst_tu = Ok r /\ r_wkst r = 1 /\
             parse_rfc (mkenv 6 d2000) o_default (to_str r) = RRule false r) /\
  (exists r, ctor (mkenv 6 d2000) (Some d2000) kw_wkst_none = Ok r /\ r_wkst r = 6 /\
             parse_rfc (mkenv 6 d2000) o_default (to_str r) = RRule false r).
Proof. split; eexists; (split; [vm_compute; reflexivity|]); split; vm_compute; reflexivity. Qed.

(* empty BY tuple (outside the rule space): rrule(YEARLY, bymonth=()) *)
Definition kw_empty_month : kwargs :=
  mkkw (Some 0) None None (Some 3) None None (Some []) None None None None None None None None.
Theorem str_roundtrip_empty_tuple_refuted : exists st kw r,
  ctor ev0 (Some st) kw = Ok r /\ wf_args kw = false /\ parse_rfc ev0 o_default (to_str r) <> RRule false r.
Proof.
  exists d2000, kw_empty_month.
  destruct (ctor ev0 (Some d2000) kw_empty_month) as [r|] eqn:E; [|vm_compute in E; discriminate].
  exists r. split; [reflexivity|]. vm_compute in E. injection E as <-.
  split; [reflexivity|]. vm_compute. discriminate.
Qed.

(* aware start (outside the property): the zone is not written *)
Definition kw_daily : kwargs :=
  mkkw (Some 3) None None (Some 3) None None None None None None None None None None None.
Theorem str_roundtrip_aware_refuted : exists st kw r,
  ctor ev0 (Some st) kw = Ok r /\ dtz st = 1 /\ parse_rfc ev0 o_default (to_str r) <> RRule false r.
Proof.
  exists (mkdt 2000 1 1 0 0 0 0 1), kw_daily.
  destruct (ctor ev0 (Some (mkdt 2000 1 1 0 0 0 0 1)) kw_daily) as [r|] eqn:E; [|vm_compute in E; discriminate].
  exists r. split; [reflexivity|]. vm_compute in E. injection E as <-.
  split; [reflexivity|]. vm_compute. discriminate.
Qed.

(* ---- non-vacuity ---- *)
Definition kw_ex : kwargs :=
  mkkw (Some 1) (Some 2) (Some 6) None (Some (mkdt 2003 12 31 23 59 59 0 0))
       (Some [3; -1]) (Some [12; 1; 12]) None None None None
       (Some [mkwd 0 (Some 1); mkwd 4 (Some (-1)); mkwd 2 None]) (Some [18; 9]) None None.
Definition st_ex : dt := mkdt 999 2 28 9 30 15 123456 0.

Example ex_wf_kw : wf_kw kw_ex = true. Proof. reflexivity. Qed.
Example ex_wf_args : wf_args kw_ex = true. Proof. reflexivity. Qed.
Example ex_ctor : exists r, ctor ev0 (Some st_ex) kw_ex = Ok r /\ wf_rule r = true /\
  to_str r = zs "DTSTART:09990228T093015
RRULE:FREQ=MONTHLY;INTERVAL=2;WKST=SU;UNTIL=20031231T235959;BYSETPOS=3,-1;BYMONTH=1,12;BYDAY=WE,+1MO,-1FR;BYHOUR=9,18"%string.
Proof.
  destruct (ctor ev0 (Some st_ex) kw_ex) as [r|] eqn:E; [|vm_compute in E; discriminate].
  exists r. split; [reflexivity|]. vm_compute in E. injection E as <-. split; vm_compute; reflexivity.
Qed.
Example ex_wf_part : wf_part (PWd [mkwd 0 (Some 1); mkwd 6 None]) = true. Proof. reflexivity. Qed.
Example ex_spelling : 
  parse_rrule_kw false (spell_value (mkchoice true true [2; 1; 3] true [6; 0; 3; 1; 7; 5; 2; 4]%nat false 0 [] []) kw_ex) = Ok kw_ex.
Proof. vm_compute. reflexivity. Qed.
