(* Model of rrule.__str__, the argument processing of rrule.__init__ (the part that fixes
   `_original_rule` and the derived BY-fields), and _rrulestr (_parse_rfc, _parse_rfc_rrule,
   _parse_date_value, the _handle_* family) of /repo/src/dateutil/rrule.py.
   Strings are lists of ASCII code points.  Definitions only; theorems are in RstrThm*.v.

   Exception classes (one constructor each):
     EValue  = ValueError (incl. parser.ParserError, a subclass)
     EType   = TypeError  (rrule() called without freq; since ec791d5 not reachable through rrulestr)
     EIndex  = IndexError (unused since a8bd79d: "no RRULE line found" is a ValueError)
     EUnmodelled = the input leaves the modelled fragment (non-ASCII text, or a date value that
                   is not of the compact forms YYYYMMDD[THHMMSS[Z]]: those go through the generic
                   parser, which is another area's model).  Never compared with the code. *)
From Coq Require Import String ZArith List Bool.
From V Require Import base.Cal rstr.RstrPrim.
Import ListNotations.
Open Scope Z_scope.

(* one constructor per Python exception class (EUnmodelled is not an exception: the input left the
   modelled fragment) *)
Inductive err := EValue | EType | EIndex | EKey | EAttr | EOverflow | EUnmodelled.
Inductive res (A : Type) := Ok (a : A) | Err (e : err).
Arguments Ok {A} a.
Arguments Err {A} e.

(* datetime: fields, microsecond, tz tag: 0 naive, 1 tz.UTC, >= 2 an opaque zone tag *)
Record dt := mkdt { dy : Z; dmo : Z; dd : Z; dh : Z; dmi : Z; ds : Z; dus : Z; dtz : Z }.
(* weekday object: weekday index and n (None or non-zero int) *)
Record wd := mkwd { wday : Z; wn : option Z }.

(* ---------------------------------------------------------------------------------- *)
(* string constants *)
Definition s_FREQ : str := Eval compute in zs "FREQ"%string.
Definition s_INTERVAL : str := Eval compute in zs "INTERVAL"%string.
Definition s_COUNT : str := Eval compute in zs "COUNT"%string.
Definition s_UNTIL : str := Eval compute in zs "UNTIL"%string.
Definition s_WKST : str := Eval compute in zs "WKST"%string.
Definition s_BYSETPOS : str := Eval compute in zs "BYSETPOS"%string.
Definition s_BYMONTH : str := Eval compute in zs "BYMONTH"%string.
Definition s_BYMONTHDAY : str := Eval compute in zs "BYMONTHDAY"%string.
Definition s_BYYEARDAY : str := Eval compute in zs "BYYEARDAY"%string.
Definition s_BYEASTER : str := Eval compute in zs "BYEASTER"%string.
Definition s_BYWEEKNO : str := Eval compute in zs "BYWEEKNO"%string.
Definition s_BYHOUR : str := Eval compute in zs "BYHOUR"%string.
Definition s_BYMINUTE : str := Eval compute in zs "BYMINUTE"%string.
Definition s_BYSECOND : str := Eval compute in zs "BYSECOND"%string.
Definition s_BYWEEKDAY : str := Eval compute in zs "BYWEEKDAY"%string.
Definition s_BYDAY : str := Eval compute in zs "BYDAY"%string.
Definition s_RRULE : str := Eval compute in zs "RRULE"%string.
Definition s_RRULEc : str := Eval compute in zs "RRULE:"%string.
Definition s_RDATE : str := Eval compute in zs "RDATE"%string.
Definition s_EXRULE : str := Eval compute in zs "EXRULE"%string.
Definition s_EXDATE : str := Eval compute in zs "EXDATE"%string.
Definition s_DTSTART : str := Eval compute in zs "DTSTART"%string.
Definition s_DTSTARTc : str := Eval compute in zs "DTSTART:"%string.
Definition s_VALUE_DT : str := Eval compute in zs "VALUE=DATE-TIME"%string.
Definition s_VALUE_D : str := Eval compute in zs "VALUE=DATE"%string.

Definition freq_names : list str :=
  Eval compute in map zs ["YEARLY"; "MONTHLY"; "WEEKLY"; "DAILY"; "HOURLY"; "MINUTELY"; "SECONDLY"]%string.
Definition wd_names : list str :=
  Eval compute in map zs ["MO"; "TU"; "WE"; "TH"; "FR"; "SA"; "SU"]%string.

(* index of a key in a list of names (dict lookup of _freq_map / _weekday_map) *)
Fixpoint index_of (k : str) (l : list str) (i : Z) : option Z :=
  match l with
  | [] => None
  | x :: r => if leqb x k then Some i else index_of k r (i + 1)
  end.
Definition freq_of (s : str) : option Z := index_of s freq_names 0.
Definition wday_of (s : str) : option Z := index_of s wd_names 0.
Definition freq_name (f : Z) : str := nth (Z.to_nat f) freq_names [].
Definition wd_name (w : Z) : str := nth (Z.to_nat w) wd_names [].

(* ---------------------------------------------------------------------------------- *)
(* keyword arguments collected by _parse_rfc_rrule (a dict: later parts overwrite) *)
Record kwargs := mkkw {
  k_freq : option Z; k_interval : option Z; k_wkst : option Z; k_count : option Z;
  k_until : option dt;
  k_bysetpos : option (list Z); k_bymonth : option (list Z); k_bymonthday : option (list Z);
  k_byyearday : option (list Z); k_byeaster : option (list Z); k_byweekno : option (list Z);
  k_byweekday : option (list wd);
  k_byhour : option (list Z); k_byminute : option (list Z); k_bysecond : option (list Z) }.

Definition kw_empty : kwargs :=
  mkkw None None None None None None None None None None None None None None None.

Definition set_freq v k := mkkw (Some v) (k_interval k) (k_wkst k) (k_count k) (k_until k) (k_bysetpos k) (k_bymonth k) (k_bymonthday k) (k_byyearday k) (k_byeaster k) (k_byweekno k) (k_byweekday k) (k_byhour k) (k_byminute k) (k_bysecond k).
Definition set_interval v k := mkkw (k_freq k) (Some v) (k_wkst k) (k_count k) (k_until k) (k_bysetpos k) (k_bymonth k) (k_bymonthday k) (k_byyearday k) (k_byeaster k) (k_byweekno k) (k_byweekday k) (k_byhour k) (k_byminute k) (k_bysecond k).
Definition set_wkst v k := mkkw (k_freq k) (k_interval k) (Some v) (k_count k) (k_until k) (k_bysetpos k) (k_bymonth k) (k_bymonthday k) (k_byyearday k) (k_byeaster k) (k_byweekno k) (k_byweekday k) (k_byhour k) (k_byminute k) (k_bysecond k).
Definition set_count v k := mkkw (k_freq k) (k_interval k) (k_wkst k) (Some v) (k_until k) (k_bysetpos k) (k_bymonth k) (k_bymonthday k) (k_byyearday k) (k_byeaster k) (k_byweekno k) (k_byweekday k) (k_byhour k) (k_byminute k) (k_bysecond k).
Definition set_until v k := mkkw (k_freq k) (k_interval k) (k_wkst k) (k_count k) (Some v) (k_bysetpos k) (k_bymonth k) (k_bymonthday k) (k_byyearday k) (k_byeaster k) (k_byweekno k) (k_byweekday k) (k_byhour k) (k_byminute k) (k_bysecond k).
Definition set_byweekday v k := mkkw (k_freq k) (k_interval k) (k_wkst k) (k_count k) (k_until k) (k_bysetpos k) (k_bymonth k) (k_bymonthday k) (k_byyearday k) (k_byeaster k) (k_byweekno k) (Some v) (k_byhour k) (k_byminute k) (k_bysecond k).
(* the nine integer-list parts, by index 0..8 in the order BYSETPOS BYMONTH BYMONTHDAY BYYEARDAY
   BYEASTER BYWEEKNO BYHOUR BYMINUTE BYSECOND *)
Definition set_list (i : Z) (v : list Z) (k : kwargs) : kwargs :=
  mkkw (k_freq k) (k_interval k) (k_wkst k) (k_count k) (k_until k)
       (if i =? 0 then Some v else k_bysetpos k) (if i =? 1 then Some v else k_bymonth k)
       (if i =? 2 then Some v else k_bymonthday k) (if i =? 3 then Some v else k_byyearday k)
       (if i =? 4 then Some v else k_byeaster k) (if i =? 5 then Some v else k_byweekno k)
       (k_byweekday k)
       (if i =? 6 then Some v else k_byhour k) (if i =? 7 then Some v else k_byminute k)
       (if i =? 8 then Some v else k_bysecond k).
Definition list_names : list str :=
  [s_BYSETPOS; s_BYMONTH; s_BYMONTHDAY; s_BYYEARDAY; s_BYEASTER; s_BYWEEKNO; s_BYHOUR; s_BYMINUTE; s_BYSECOND].

(* ---------------------------------------------------------------------------------- *)
(* parser.parse restricted to the compact forms YYYYMMDD, YYYYMMDDTHHMMSS, YYYYMMDDTHHMMSSZ
   (token sequences [8 digits], [8 digits; T; 6 digits], [...; Z] of the generic parser:
   year/month/day taken positionally because the year is labelled, HHMMSS because ymd is
   already full, 'Z' a UTC zone name; datetime() range checks -> ValueError). *)
(* DBad = ValueError (ParserError), DOv = OverflowError, DUn = outside the modelled forms.
   DOv: a string of 15 or more digits that does not start with '0' is one numeric token read as a year
   above INT_MAX: datetime raises OverflowError (checked against parser.parse in the date stream). *)
Inductive dres := DOk (d : dt) | DBad | DOv | DUn.
Definition overlong_digits (s : str) : bool :=
  (15 <=? Z.of_nat (List.length s)) && forallb is_digit s && negb (match s with c :: _ => c =? 48 | [] => true end).

Definition n2 (a b : Z) : Z := 10 * dval a + dval b.
Definition n4 (a b c d : Z) : Z := 1000 * dval a + 100 * dval b + 10 * dval c + dval d.

Definition mk_date (ignoretz : bool) (y mo d h mi s : Z) (z : bool) : dres :=
  if valid_ymd y mo d && (h <=? 23) && (mi <=? 59) && (s <=? 59)
  then DOk (mkdt y mo d h mi s 0 (if z && negb ignoretz then 1 else 0))
  else DBad.

Definition parse_date_compact (ignoretz : bool) (s : str) : dres :=
  match s with
  | [a; b; c; d; e; f; g; h] =>
    if forallb is_digit s then mk_date ignoretz (n4 a b c d) (n2 e f) (n2 g h) 0 0 0 false else DUn
  | [a; b; c; d; e; f; g; h; t; i; j; k; l; m; n] =>
    if forallb is_digit [a; b; c; d; e; f; g; h; i; j; k; l; m; n] && (t =? 84)
    then mk_date ignoretz (n4 a b c d) (n2 e f) (n2 g h) (n2 i j) (n2 k l) (n2 m n) false else DUn
  | [a; b; c; d; e; f; g; h; t; i; j; k; l; m; n; z] =>
    if forallb is_digit [a; b; c; d; e; f; g; h; i; j; k; l; m; n] && (t =? 84) && (z =? 90)
    then mk_date ignoretz (n4 a b c d) (n2 e f) (n2 g h) (n2 i j) (n2 k l) (n2 m n) true else DUn
  | _ => DUn
  end.
Definition parse_date (ignoretz : bool) (s : str) : dres :=
  if overlong_digits s then DOv else parse_date_compact ignoretz s.

(* ---------------------------------------------------------------------------------- *)
(* _handle_* *)
Fixpoint opt_all {A} (l : list (option A)) : option (list A) :=
  match l with
  | [] => Some []
  | None :: _ => None
  | Some x :: r => match opt_all r with Some t => Some (x :: t) | None => None end
  end.

(* _handle_int_list: [int(x) for x in value.split(',')] *)
Definition int_list (value : str) : option (list Z) := opt_all (map py_int (split_on 44 value)).

Definition is_signdigit (c : Z) : bool := (c =? 43) || (c =? 45) || is_digit c.

(* one member of BYDAY / BYWEEKDAY.  None = KeyError / ValueError (both become ValueError) *)
Definition mk_wd (w : str) (n : option Z) : option wd :=
  match wday_of w with
  | None => None
  | Some i => match n with
              | Some 0 => None                  (* weekday(n=0) raises ValueError *)
              | _ => Some (mkwd i n)
              end
  end.

Definition parse_wd (x : str) : option wd :=
  if has_char 40 x then
    (* 'TH(+1)': splt = wday.split('('); w = splt[0]; n = int(splt[1][:-1]) *)
    match split_on 40 x with
    | w :: a :: _ => match py_int (removelast a) with
                     | Some n => mk_wd w (Some n)
                     | None => None
                     end
    | _ => None
    end
  else if isnil x then None                     (* "Invalid (empty) BYDAY specification." *)
  else
    (* i = first index whose char is not in '+-0123456789', else len-1 *)
    let pp := span is_signdigit x in
    let ns := if isnil (snd pp) then removelast x else fst pp in
    let w := if isnil (snd pp) then skipn (List.length x - 1) x else snd pp in
    if isnil ns then mk_wd w None
    else match py_int ns with
         | Some n => mk_wd w (Some n)
         | None => None
         end.

Definition wd_list (value : str) : option (list wd) := opt_all (map parse_wd (split_on 44 value)).

(* the exception class of a BYDAY value that is not accepted: per member, in order: int() -> ValueError,
   then self._weekday_map[w] -> KeyError, then weekday(n=0) -> ValueError; the empty member -> ValueError *)
Definition mk_wd_class (w : str) (n : option Z) : option err :=
  match wday_of w with
  | None => Some EKey
  | Some _ => match n with Some 0 => Some EValue | _ => None end
  end.
Definition parse_wd_class (x : str) : option err :=
  if has_char 40 x then
    match split_on 40 x with
    | w :: a :: _ => match py_int (removelast a) with
                     | Some n => mk_wd_class w (Some n)
                     | None => Some EValue
                     end
    | _ => Some EIndex                            (* unreachable: x contains '(' *)
    end
  else if isnil x then Some EValue
  else
    let pp := span is_signdigit x in
    let ns := if isnil (snd pp) then removelast x else fst pp in
    let w := if isnil (snd pp) then skipn (List.length x - 1) x else snd pp in
    if isnil ns then mk_wd_class w None
    else match py_int ns with
         | Some n => mk_wd_class w (Some n)
         | None => Some EValue
         end.
Fixpoint first_class (l : list str) : err :=
  match l with
  | [] => EValue                                  (* not used: some member fails *)
  | x :: r => match parse_wd_class x with Some e => e | None => first_class r end
  end.
Definition wd_list_class (value : str) : err := first_class (split_on 44 value).

(* options of rrulestr() that the model covers *)
Record opts := mkopts {
  o_dtstart : option dt; o_cache : bool; o_unfold : bool; o_forceset : bool;
  o_compatible : bool; o_ignoretz : bool;
  o_tzids : list (str * Z)       (* tzids as a mapping name -> zone tag (0 / absent = None) *) }.

Fixpoint list_index (name : str) (l : list str) (i : Z) : option Z :=
  match l with
  | [] => None
  | x :: r => if leqb name x then Some i else list_index name r (i + 1)
  end.

(* try: r  except (c1, c2, ..): raise e' *)
Definition catch {A} (r : res A) (classes : list err) (e' : err) : res A :=
  match r with
  | Err e => if existsb (fun c => match c, e with
                                  | EValue, EValue | EType, EType | EIndex, EIndex | EKey, EKey
                                  | EAttr, EAttr | EOverflow, EOverflow | EUnmodelled, EUnmodelled => true
                                  | _, _ => false end) classes then Err e' else Err e
  | ok => ok
  end.

(* parser.parse(value, ignoretz=..) as an exception-raising call *)
Definition parse_date_res (ignoretz : bool) (value : str) : res dt :=
  match parse_date ignoretz value with
  | DOk d => Ok d | DBad => Err EValue | DOv => Err EOverflow | DUn => Err EUnmodelled end.

(* self._parse_date(datestr, ignoretz, tzinfos): except OverflowError: raise ValueError *)
Definition parse_date_method (ignoretz : bool) (value : str) : res dt :=
  catch (parse_date_res ignoretz value) [EOverflow] EValue.

(* getattr(self, "_handle_" + name)(rrkwargs, name, value): each handler raises its own class --
   int() ValueError, the dict lookups KeyError, an unknown name AttributeError; _handle_UNTIL turns
   (ValueError, OverflowError) of the parser into ValueError *)
Definition handle (ignoretz : bool) (name value : str) (kw : kwargs) : res kwargs :=
  if leqb name s_INTERVAL then
    match py_int value with Some n => Ok (set_interval n kw) | None => Err EValue end
  else if leqb name s_COUNT then
    match py_int value with Some n => Ok (set_count n kw) | None => Err EValue end
  else if leqb name s_FREQ then
    match freq_of value with Some f => Ok (set_freq f kw) | None => Err EKey end
  else if leqb name s_UNTIL then
    match parse_date ignoretz value with
    | DOk d => Ok (set_until d kw) | DBad => Err EValue
    | DOv => Err EValue                 (* except (ValueError, OverflowError): raise ValueError *)
    | DUn => Err EUnmodelled end
  else if leqb name s_WKST then
    match wday_of value with Some w => Ok (set_wkst w kw) | None => Err EKey end
  else if leqb name s_BYWEEKDAY || leqb name s_BYDAY then
    match wd_list value with Some l => Ok (set_byweekday l kw) | None => Err (wd_list_class value) end
  else match list_index name list_names 0 with
       | Some i => match int_list value with Some l => Ok (set_list i l kw) | None => Err EValue end
       | None => Err EAttr
       end.

(* for pair in value.split(';'): name, value = pair.split('='); upper both; handle *)
Fixpoint handle_pairs (ignoretz : bool) (pairs : list str) (kw : kwargs) : res kwargs :=
  match pairs with
  | [] => Ok kw
  | p :: r =>
    match split_on 61 p with
    | [name; value] =>
      (* except AttributeError: raise ValueError   except (KeyError, ValueError): raise ValueError *)
      match catch (catch (handle ignoretz (upper name) (upper value) kw) [EAttr] EValue) [EKey; EValue] EValue with
      | Ok kw' => handle_pairs ignoretz r kw'
      | Err e => Err e
      end
    | _ => Err EValue        (* unpacking error: ValueError *)
    end
  end.

(* first half of _parse_rfc_rrule: the rrkwargs dict *)
Definition rrule_value (line : str) : res str :=
  if has_char 58 line then
    match split_on 58 line with
    | [name; value] => if leqb name s_RRULE then Ok value else Err EValue
    | _ => Err EValue
    end
  else Ok line.

Definition parse_rrule_kw (ignoretz : bool) (line : str) : res kwargs :=
  match rrule_value line with
  | Err e => Err e
  | Ok value => handle_pairs ignoretz (split_on 59 value) kw_empty
  end.

(* ---------------------------------------------------------------------------------- *)
(* rrule.__init__: the argument processing (lines 431-701), without the iteration state *)

(* _original_rule[key]: absent / None (derived from the start, not re-emitted) / the tuple *)
Inductive oent (A : Type) := OAbsent | ONone | OVals (l : list A).
Arguments OAbsent {A}.
Arguments ONone {A}.
Arguments OVals {A} l.

Record rule := mkrule {
  r_dtstart : dt; r_freq : Z; r_interval : Z; r_wkst : Z; r_count : option Z; r_until : option dt;
  r_bysetpos : option (list Z); r_bymonth : option (list Z);
  r_bymonthday : list Z; r_bynmonthday : list Z;
  r_byyearday : option (list Z); r_byeaster : option (list Z); r_byweekno : option (list Z);
  r_byweekday : option (list Z); r_bynweekday : option (list (Z * Z));
  r_byhour : option (list Z); r_byminute : option (list Z); r_bysecond : option (list Z);
  og_bysetpos : oent Z; og_bymonth : oent Z; og_bymonthday : oent Z; og_byyearday : oent Z;
  og_byeaster : oent Z; og_byweekno : oent Z; og_byweekday : oent wd;
  og_byhour : oent Z; og_byminute : oent Z; og_bysecond : oent Z }.

(* sorted(l) (insertion sort keeps duplicates) and sorted(set(l)) *)
Fixpoint ins (x : Z) (l : list Z) : list Z :=
  match l with
  | [] => [x]
  | y :: r => if x <=? y then x :: l else y :: ins x r
  end.
Definition sort (l : list Z) : list Z := fold_right ins [] l.
Fixpoint insu (x : Z) (l : list Z) : list Z :=
  match l with
  | [] => [x]
  | y :: r => if x <? y then x :: l else if x =? y then l else y :: insu x r
  end.
Definition sortu (l : list Z) : list Z := fold_right insu [] l.
(* sorted(set of pairs)), lexicographic *)
Definition pair_lt (a b : Z * Z) : bool := (fst a <? fst b) || ((fst a =? fst b) && (snd a <? snd b)).
Definition pair_eq (a b : Z * Z) : bool := (fst a =? fst b) && (snd a =? snd b).
Fixpoint insp (x : Z * Z) (l : list (Z * Z)) : list (Z * Z) :=
  match l with
  | [] => [x]
  | y :: r => if pair_lt x y then x :: l else if pair_eq x y then l else y :: insp x r
  end.
Definition sortp (l : list (Z * Z)) : list (Z * Z) := fold_right insp [] l.

Definition isNone {A} (o : option A) : bool := match o with None => true | _ => false end.

(* __construct_byset(start, byxxx, base): None = ValueError (empty set) *)
Definition construct_byset (interval start : Z) (byxxx : list Z) (base : Z) : option (list Z) :=
  let g := Z.gcd interval base in
  (* members outside 0..base-1 can never match and are skipped (e1e7505) *)
  let l := filter (fun num => (0 <=? num) && (num <? base) && ((g =? 1) || ((num - start) mod g =? 0))) byxxx in
  match l with [] => None | _ => Some l end.

Definition bad_setpos (p : Z) : bool := (p =? 0) || negb ((-366 <=? p) && (p <=? 366)).

(* environment: calendar.firstweekday() and datetime.now() (fields; used only without a start) *)
Record env := mkenv { e_fwd : Z; e_now : dt }.

Definition aware (d : dt) : bool := negb (dtz d =? 0).

Definition sub_byset (fq this : Z) (interval start : Z) (given : option (list Z)) (base : Z)
  : res (option (list Z) * oent Z) :=
  match given with
  | None => Ok (if fq <? this then Some [start] else None, OAbsent)
  | Some l =>
    if fq =? this then
      match construct_byset interval start l base with
      | None => Err EValue
      | Some c => Ok (Some (sortu c), OVals (sortu l))      (* recorded as given (5b59678) *)
      end
    else Ok (Some (sortu l), OVals (sortu l))
  end.

(* bymonth: derived from the start (YEARLY without day parts and without BYMONTH) or sorted(set()) *)
Definition c_month (derive : bool) (m0 : Z) (k : option (list Z)) : option (list Z) * oent Z :=
  if derive && isNone k then (Some [m0], ONone)
  else match k with Some l => (Some (sortu l), OVals (sortu l)) | None => (None, OAbsent) end.

(* byyearday, byweekno: sorted(set()); byeaster: sorted() *)
Definition c_sortu (k : option (list Z)) : option (list Z) * oent Z :=
  match k with Some l => (Some (sortu l), OVals (sortu l)) | None => (None, OAbsent) end.
Definition c_sort (k : option (list Z)) : option (list Z) * oent Z :=
  match k with Some l => (Some (sort l), OVals (sort l)) | None => (None, OAbsent) end.

(* bymonthday / bynmonthday *)
Definition c_mday (derive : bool) (d0 : Z) (k : option (list Z)) : list Z * list Z * oent Z :=
  let given := if derive then Some [d0] else k in
  let pos := match given with Some l => filter (fun x => 0 <? x) (sortu l) | None => [] end in
  let neg := match given with Some l => filter (fun x => x <? 0) (sortu l) | None => [] end in
  (pos, neg, if derive then ONone else match given with Some _ => OVals (pos ++ neg) | None => OAbsent end).

(* byweekday / bynweekday *)
Definition isplain (fq : Z) (w : wd) : bool :=
  match wn w with None => true | Some n => (n =? 0) || (1 <? fq) end.
Definition wd_pair (w : wd) : Z * Z := (wday w, match wn w with Some n => n | None => 0 end).
Definition c_wday (derive : bool) (fq w0 : Z) (k : option (list wd))
  : option (list Z) * option (list (Z * Z)) * oent wd :=
  let given := if derive then Some [mkwd w0 None] else k in
  match given with
  | None => (None, None, if derive then ONone else OAbsent)
  | Some l =>
    let plain := sortu (map wday (filter (isplain fq) l)) in
    let nth := sortp (map wd_pair (filter (fun w => negb (isplain fq w)) l)) in
    (match plain with [] => None | _ => Some plain end,
     match plain with [] => Some nth | _ => match nth with [] => None | _ => Some nth end end,
     if derive then ONone
     else OVals (map (fun x => mkwd x None) plain ++ map (fun p => mkwd (fst p) (Some (snd p))) nth))
  end.

(* timeset: datetime.time(hour, minute, second) raises ValueError out of range *)
Definition bad_time (fq : Z) (hs ms ss : list Z) : bool :=
  let bad lim l := existsb (fun x => negb ((0 <=? x) && (x <=? lim))) l in
  (fq <? 4) && negb (isnil hs) && negb (isnil ms) && negb (isnil ss)
  && (bad 23 hs || bad 59 ms || bad 59 ss).

Definition olist (o : option (list Z)) : list Z := match o with Some l => l | None => [] end.

(* the class of the first failing datetime.time(hour, minute, second) of the nested loops: the three
   arguments are converted to C int first (OverflowError beyond 32 bits), then range-checked (ValueError) *)
Definition huge_int (x : Z) : bool := (x <? -2147483648) || (2147483647 <? x).
Definition time_class (h m s : Z) : option err :=
  if huge_int h || huge_int m || huge_int s then Some EOverflow
  else if (0 <=? h) && (h <=? 23) && (0 <=? m) && (m <=? 59) && (0 <=? s) && (s <=? 59) then None
  else Some EValue.
Fixpoint first_some {A} (l : list (option A)) : option A :=
  match l with [] => None | Some x :: _ => Some x | None :: r => first_some r end.
Definition timeset_class (hs ms ss : list Z) : err :=
  match first_some (flat_map (fun h => flat_map (fun m => map (fun s => time_class h m s) ss) ms) hs) with
  | Some e => e
  | None => EValue                 (* not used: bad_time holds *)
  end.

Definition ctor (ev : env) (dtstart : option dt) (kw : kwargs) : res rule :=
  match k_freq kw with
  | None => Err EType                 (* rrule() missing required argument 'freq' *)
  | Some fq =>
    let until := k_until kw in
    let start0 := match dtstart with
                  | Some d => d
                  | None => match until with
                            | Some u => if aware u then
                                          let n := e_now ev in
                                          mkdt (dy n) (dmo n) (dd n) (dh n) (dmi n) (ds n) 0 (dtz u)
                                        else e_now ev
                            | None => e_now ev
                            end
                  end in
    let start := mkdt (dy start0) (dmo start0) (dd start0) (dh start0) (dmi start0) (ds start0) 0 (dtz start0) in
    let interval := match k_interval kw with Some i => i | None => 1 end in
    if match until with Some u => negb (Bool.eqb (aware start) (aware u)) | None => false end
    then Err EValue else
    let wkst := match k_wkst kw with Some w => w | None => e_fwd ev end in
    (* bysetpos *)
    if match k_bysetpos kw with Some l => existsb bad_setpos l | None => false end
    then Err EValue else
    let o_setpos := match k_bysetpos kw with Some (x :: r) => OVals (x :: r) | _ => OAbsent end in
    (* `if 0 in bymonthday: raise ValueError` (55654b4); every failure before the time set is a ValueError,
       so the place of this test among them is not observable *)
    if match k_bymonthday kw with Some l => existsb (fun x => x =? 0) l | None => false end
    then Err EValue else
    (* defaults derived from the start *)
    let nodayparts := isNone (k_byweekno kw) && isNone (k_byyearday kw) && isNone (k_bymonthday kw)
                      && isNone (k_byweekday kw) && isNone (k_byeaster kw) in
    let yearly := nodayparts && (fq =? 0) in
    let monthly := nodayparts && (fq =? 1) in
    let weekly := nodayparts && (fq =? 2) in
    let '(r_month, o_month) := c_month yearly (dmo start) (k_bymonth kw) in
    let '(r_yday, o_yday) := c_sortu (k_byyearday kw) in
    let '(r_easter, o_easter) := c_sort (k_byeaster kw) in
    let '(r_mday, r_nmday, o_mday) := c_mday (yearly || monthly) (dd start) (k_bymonthday kw) in
    let '(r_weekno, o_weekno) := c_sortu (k_byweekno kw) in
    let '(r_wday, r_nwday, o_wday) :=
        c_wday weekly fq (Cal.weekday (dy start) (dmo start) (dd start)) (k_byweekday kw) in
    match sub_byset fq 4 interval (dh start) (k_byhour kw) 24 with
    | Err e => Err e
    | Ok (r_hour, o_hour) =>
    match sub_byset fq 5 interval (dmi start) (k_byminute kw) 60 with
    | Err e => Err e
    | Ok (r_minute, o_minute) =>
    match sub_byset fq 6 interval (ds start) (k_bysecond kw) 60 with
    | Err e => Err e
    | Ok (r_second, o_second) =>
      if bad_time fq (olist r_hour) (olist r_minute) (olist r_second)
      then Err (timeset_class (olist r_hour) (olist r_minute) (olist r_second))
      else Ok (mkrule start fq interval wkst (k_count kw) until
                      (k_bysetpos kw) r_month r_mday r_nmday r_yday r_easter r_weekno
                      r_wday r_nwday r_hour r_minute r_second
                      o_setpos o_month o_mday o_yday o_easter o_weekno o_wday o_hour o_minute o_second)
    end end end
  end.

(* ---------------------------------------------------------------------------------- *)
(* rrule.__str__ *)
Definition fmt_dt (d : dt) : str :=
  d4 (dy d) ++ d2 (dmo d) ++ d2 (dd d) ++ [84] ++ d2 (dh d) ++ d2 (dmi d) ++ d2 (ds d).

Definition wd_str (w : wd) : str :=
  match wn w with
  | Some n => if n =? 0 then wd_name (wday w) else fmt_plus n ++ wd_name (wday w)
  | None => wd_name (wday w)
  end.

Definition eq_c : str := [61].
Definition part_ints (name : str) (o : oent Z) : list str :=
  match o with
  | OVals (x :: r) => [name ++ eq_c ++ join [44] (map str_of_int (x :: r))]
  | _ => []
  end.
Definition part_wds (name : str) (o : oent wd) : list str :=
  match o with
  | OVals (x :: r) => [name ++ eq_c ++ join [44] (map wd_str (x :: r))]
  | _ => []
  end.

Definition str_parts (r : rule) : list str :=
  [s_FREQ ++ eq_c ++ freq_name (r_freq r)]
  ++ (if r_interval r =? 1 then [] else [s_INTERVAL ++ eq_c ++ str_of_int (r_interval r)])
  ++ (if r_wkst r =? 0 then [] else [s_WKST ++ eq_c ++ wd_name (r_wkst r)])
  ++ (match r_count r with Some c => [s_COUNT ++ eq_c ++ str_of_int c] | None => [] end)
  ++ (match r_until r with Some u => [s_UNTIL ++ eq_c ++ fmt_dt u] | None => [] end)
  ++ part_ints s_BYSETPOS (og_bysetpos r)
  ++ part_ints s_BYMONTH (og_bymonth r)
  ++ part_ints s_BYMONTHDAY (og_bymonthday r)
  ++ part_ints s_BYYEARDAY (og_byyearday r)
  ++ part_ints s_BYWEEKNO (og_byweekno r)
  ++ part_wds s_BYDAY (og_byweekday r)
  ++ part_ints s_BYHOUR (og_byhour r)
  ++ part_ints s_BYMINUTE (og_byminute r)
  ++ part_ints s_BYSECOND (og_bysecond r)
  ++ part_ints s_BYEASTER (og_byeaster r).

Definition to_str (r : rule) : str :=
  s_DTSTARTc ++ fmt_dt (r_dtstart r) ++ [10] ++ s_RRULEc ++ join [59] (str_parts r).

(* ---------------------------------------------------------------------------------- *)
(* _parse_date_value *)
Fixpoint tz_get (m : list (str * Z)) (k : str) : Z :=
  match m with
  | [] => 0
  | (n, t) :: r => if leqb n k then t else tz_get r k
  end.

(* the parameter loop: returns TZID (0 = None) *)
Fixpoint pdv_parms (o : opts) (names : list str) (parms : list str) (tzid : Z) (vf : bool) : res Z :=
  match parms with
  | [] => Ok tzid
  | p :: r =>
    if startswith s_TZIDeq p then
      match after_last_tzid p with
      | None => pdv_parms o names r tzid vf       (* unreachable: p starts with TZID= *)
      | Some key =>
        match tzid_lookup names key with
        | None => pdv_parms o names r tzid vf     (* KeyError: continue *)
        | Some nm => pdv_parms o names r (tz_get (o_tzids o) nm) vf
        end
      end
    else if leqb p s_VALUE_DT || leqb p s_VALUE_D then
      if vf then Err EValue else pdv_parms o names r tzid true
    else Err EValue
  end.

Fixpoint pdv_dates (ignoretz : bool) (tzid : Z) (l : list str) : res (list dt) :=
  match l with
  | [] => Ok []
  | x :: r =>
    match parse_date ignoretz x with
    | DUn => Err EUnmodelled
    | DBad => Err EValue
    | DOv => Err EValue             (* self._parse_date: except OverflowError: raise ValueError *)
    | DOk d =>
      if negb (tzid =? 0) && negb (dtz d =? 0) then Err EValue   (* multiple timezone *)
      else
        let d' := if tzid =? 0 then d
                  else mkdt (dy d) (dmo d) (dd d) (dh d) (dmi d) (ds d) (dus d) tzid in
        match pdv_dates ignoretz tzid r with
        | Ok t => Ok (d' :: t)
        | Err e => Err e
        end
    end
  end.

Definition parse_date_value (o : opts) (names : list str) (value : str) (parms : list str) : res (list dt) :=
  match pdv_parms o names parms 0 false with
  | Err e => Err e
  | Ok tzid => pdv_dates (o_ignoretz o) tzid (split_on 44 value)
  end.

(* ---------------------------------------------------------------------------------- *)
(* _parse_rfc *)

(* the unfold loop over s.splitlines(); kept lines in reverse order *)
Fixpoint unfold_lines (raw : list str) (kept : list str) : list str :=
  match raw with
  | [] => rev kept
  | x :: r =>
    let line := rstrip x in
    match line with
    | [] => unfold_lines r kept
    | c :: t =>
      match kept with
      | prev :: k' => if c =? 32 then unfold_lines r ((prev ++ t) :: k') else unfold_lines r (x :: kept)
      | [] => unfold_lines r (x :: kept)
      end
    end
  end.

Record acc := mkacc { a_rr : list str; a_rd : list str; a_xr : list str; a_xd : list dt;
                      a_start : option dt }.

(* one line of the property loop *)
Definition do_line (o : opts) (names : list str) (line : str) (a : acc) : res acc :=
  if isnil line then Ok a else
    let nv := match split1 58 line with
              | None => (s_RRULE, line)
              | Some (n, v) => (n, v)
              end in
    let value := snd nv in
    match split_on 59 (fst nv) with
    | [] => Err EValue
    | pname :: parms =>
      if leqb pname s_RRULE then
        match parms with
        | [] => Ok (mkacc (a_rr a ++ [value]) (a_rd a) (a_xr a) (a_xd a) (a_start a))
        | _ => Err EValue
        end
      else if leqb pname s_RDATE then
        if forallb (fun p => leqb p s_VALUE_DT) parms
        then Ok (mkacc (a_rr a) (a_rd a ++ [value]) (a_xr a) (a_xd a) (a_start a))
        else Err EValue
      else if leqb pname s_EXRULE then
        match parms with
        | [] => Ok (mkacc (a_rr a) (a_rd a) (a_xr a ++ [value]) (a_xd a) (a_start a))
        | _ => Err EValue
        end
      else if leqb pname s_EXDATE then
        match parse_date_value o names value parms with
        | Err e => Err e
        | Ok ds => Ok (mkacc (a_rr a) (a_rd a) (a_xr a) (a_xd a ++ ds) (a_start a))
        end
      else if leqb pname s_DTSTART then
        match parse_date_value o names value parms with
        | Err e => Err e
        | Ok [d] => Ok (mkacc (a_rr a) (a_rd a) (a_xr a) (a_xd a) (Some d))
        | Ok _ => Err EValue
        end
      else Err EValue
    end.

Fixpoint do_lines (o : opts) (names : list str) (lines : list str) (a : acc) : res acc :=
  match lines with
  | [] => Ok a
  | l :: r => match do_line o names l a with
              | Ok a' => do_lines o names r a'
              | Err e => Err e
              end
  end.

Definition parse_rule (ev : env) (ignoretz : bool) (line : str) (dtstart : option dt) : res rule :=
  match parse_rrule_kw ignoretz line with
  | Err e => Err e
  | Ok kw => if isNone (k_freq kw) then Err EValue      (* "missing FREQ" *)
             else catch (ctor ev dtstart kw) [EOverflow] EValue   (* except OverflowError: raise ValueError *)
  end.

Fixpoint parse_rules (ev : env) (ignoretz : bool) (dtstart : option dt) (l : list str) : res (list rule) :=
  match l with
  | [] => Ok []
  | x :: r => match parse_rule ev ignoretz x dtstart with
              | Err e => Err e
              | Ok q => match parse_rules ev ignoretz dtstart r with
                        | Ok t => Ok (q :: t)
                        | Err e => Err e
                        end
              end
  end.

(* for value in rdatevals: for datestr in value.split(','): parser.parse(datestr) *)
Fixpoint parse_rdates (ignoretz : bool) (l : list str) : res (list dt) :=
  match l with
  | [] => Ok []
  | v :: r => match pdv_dates ignoretz 0 (split_on 44 v) with
              | Err e => Err e
              | Ok ds => match parse_rdates ignoretz r with
                         | Ok t => Ok (ds ++ t)
                         | Err e => Err e
                         end
              end
  end.

Inductive result :=
| RRule (cache : bool) (r : rule)
| RSet (cache : bool) (rr : list rule) (rd : list dt) (xr : list rule) (xd : list dt)
| RErr (e : err).

Definition is_ascii (c : Z) : bool := (0 <=? c) && (c <=? 127).

(* set assembly / single rule, after the property loop *)
Definition assemble (ev : env) (o0 : opts) (forceset : bool) (a : acc) : result :=
  let ig := o_ignoretz o0 in
  if forceset || (1 <? Z.of_nat (List.length (a_rr a))) || negb (isnil (a_rd a))
     || negb (isnil (a_xr a)) || negb (isnil (a_xd a)) then
    match parse_rules ev ig (a_start a) (a_rr a) with
    | Err e => RErr e
    | Ok rr =>
      match parse_rdates ig (a_rd a) with
      | Err e => RErr e
      | Ok rd =>
        match parse_rules ev ig (a_start a) (a_xr a) with
        | Err e => RErr e
        | Ok xr =>
          RSet (o_cache o0) rr
               (rd ++ (if o_compatible o0 then match a_start a with Some d => [d] | None => [] end else []))
               xr (a_xd a)
        end
      end
    end
  else
    match a_rr a with
    | [] => RErr EValue                      (* "no RRULE line found" *)
    | v :: _ => match parse_rule ev ig v (a_start a) with
                | Ok r => RRule (o_cache o0) r
                | Err e => RErr e
                end
    end.

Definition general (ev : env) (o0 : opts) (forceset : bool) (names : list str) (lines : list str) : result :=
  match do_lines o0 names lines (mkacc [] [] [] [] (o_dtstart o0)) with
  | Err e => RErr e
  | Ok a => assemble ev o0 forceset a
  end.

Definition get_lines (unfold : bool) (s : str) : list str :=
  if unfold then unfold_lines (splitlines s) [] else words s.

Definition shortcut (forceset : bool) (s : str) (lines : list str) : bool :=
  negb forceset && (Z.of_nat (List.length lines) =? 1)
  && (negb (has_char 58 s) || startswith s_RRULEc s).

(* the part of _parse_rfc after the lines are known: s = the upper-cased text, lines = the
   upper-cased lines, names = the TZID names found in the lines before upper-casing *)
Definition parse_lines (ev : env) (o0 : opts) (names : list str) (s : str) (lines : list str) : result :=
  let forceset := o_forceset o0 || o_compatible o0 in
  if shortcut forceset s lines then
    match lines with
    | l0 :: _ => match parse_rule ev (o_ignoretz o0) l0 (o_dtstart o0) with
                 | Ok r => RRule (o_cache o0) r
                 | Err e => RErr e
                 end
    | [] => RErr EValue                     (* unreachable: len(lines) == 1 *)
    end
  else general ev o0 forceset names lines.

Definition parse_rfc (ev : env) (o0 : opts) (s0 : str) : result :=
  if negb (forallb is_ascii s0) then RErr EUnmodelled
  else if isnil (strip s0) then RErr EValue           (* "empty string" *)
  else
    let lines0 := get_lines (o_unfold o0 || o_compatible o0) s0 in
    parse_lines ev o0 (tzid_findall (join [10] lines0)) (upper s0) (map upper lines0).
