(* Theorems about the rrulestr / __str__ model: error classes. *)
From Coq Require Import ZArith List Bool Lia.
From V Require Import base.Cal rstr.RstrPrim rstr.RstrModel rstr.RstrSpec.
Import ListNotations.
Open Scope Z_scope.

Lemma empty_valueerror ev o : parse_rfc ev o [] = RErr EValue.
Proof. reflexivity. Qed.
