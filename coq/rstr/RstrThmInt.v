(* int() o str() = id, '{:+d}', integer lists, weekday spellings. *)
From Coq Require Import ZArith List Bool Lia ZifyBool.
From V Require Import base.Cal rstr.RstrPrim rstr.RstrLemmas rstr.RstrModel rstr.RstrSpec.
Import ListNotations.
Open Scope Z_scope.

Lemma lstrip_int_id s : Forall (fun c => is_space_int c = false) s -> lstrip_int s = s.
Proof. destruct 1 as [|x s Hx _]; cbn; [reflexivity|]. rewrite Hx. reflexivity. Qed.

Lemma strip_int_id s : Forall (fun c => is_space_int c = false) s -> strip_int s = s.
Proof.
  intro H. unfold strip_int. rewrite (lstrip_int_id s H).
  rewrite lstrip_int_id; [apply rev_involutive|].
  apply Forall_rev. exact H.
Qed.

Lemma digit_not_space_int c : is_digit c = true -> is_space_int c = false.
Proof. unfold is_digit, is_space_int. lia. Qed.

Lemma digits_not_space_int s : Forall (fun c => is_digit c = true) s ->
  Forall (fun c => is_space_int c = false) s.
Proof. intro H. eapply Forall_impl; [|exact H]. intros c; apply digit_not_space_int. Qed.

Lemma int_body_all (b : bool) n : 0 <= n -> int_body 0 b (nat_digits n) = Some n.
Proof.
  intro Hn. destruct (int_body_nat_digits n 0 b [] Hn) as [k [_ Hk]].
  rewrite app_nil_r in Hk. rewrite Hk. cbn. f_equal; lia.
Qed.

(* digits, optionally after a sign *)
Lemma py_int_digits n : 0 <= n -> py_int (nat_digits n) = Some n.
Proof.
  intro Hn. unfold py_int. rewrite strip_int_id by (apply digits_not_space_int, nat_digits_digits).
  pose proof (nat_digits_digits n) as Hd. pose proof (nat_digits_nonempty n) as Hne.
  pose proof (int_body_all false n Hn) as Hb.
  destruct (nat_digits n) as [|c r]; [congruence|].
  inversion Hd as [|? ? Hc _]; subst.
  replace (c =? 43) with false by (unfold is_digit in Hc; lia).
  replace (c =? 45) with false by (unfold is_digit in Hc; lia).
  exact Hb.
Qed.

Lemma py_int_plus n : 0 <= n -> py_int (43 :: nat_digits n) = Some n.
Proof.
  intro Hn. unfold py_int. rewrite strip_int_id.
  - cbn [Z.eqb]. change (43 =? 43) with true. cbv iota. apply (int_body_all false n Hn).
  - constructor; [reflexivity|]. apply digits_not_space_int, nat_digits_digits.
Qed.

Lemma py_int_minus n : 0 <= n -> py_int (45 :: nat_digits n) = Some (- n).
Proof.
  intro Hn. unfold py_int. rewrite strip_int_id.
  - change (45 =? 43) with false. change (45 =? 45) with true. cbv iota.
    rewrite (int_body_all false n Hn). reflexivity.
  - constructor; [reflexivity|]. apply digits_not_space_int, nat_digits_digits.
Qed.

Theorem py_int_str_of_int n : py_int (str_of_int n) = Some n.
Proof.
  unfold str_of_int. destruct (n <? 0) eqn:E.
  - rewrite py_int_minus by lia. f_equal; lia.
  - apply py_int_digits. lia.
Qed.

Theorem py_int_fmt_plus n : py_int (fmt_plus n) = Some n.
Proof.
  unfold fmt_plus. destruct (n <? 0) eqn:E.
  - rewrite py_int_minus by lia. f_equal; lia.
  - apply py_int_plus. lia.
Qed.

Theorem py_int_str_int_c plus n : py_int (str_int_c plus n) = Some n.
Proof.
  unfold str_int_c. destruct (plus && (0 <? n)) eqn:E.
  - apply andb_true_iff in E as [_ E]. unfold str_of_int.
    replace (n <? 0) with false by lia. apply py_int_plus. lia.
  - apply py_int_str_of_int.
Qed.

(* alphabet facts *)
Lemma digits_atoms s : Forall (fun c => is_digit c = true) s -> Forall (fun c => atomc c = true) s.
Proof. intro H. eapply Forall_impl; [|exact H]. intros c Hc. unfold atomc. rewrite Hc. reflexivity. Qed.

Lemma str_of_int_atoms n : Forall (fun c => atomc c = true) (str_of_int n).
Proof.
  unfold str_of_int. destruct (n <? 0).
  - constructor; [reflexivity|]. apply digits_atoms, nat_digits_digits.
  - apply digits_atoms, nat_digits_digits.
Qed.

Lemma fmt_plus_atoms n : Forall (fun c => atomc c = true) (fmt_plus n).
Proof.
  unfold fmt_plus. destruct (n <? 0); (constructor; [reflexivity|]); apply digits_atoms, nat_digits_digits.
Qed.

Lemma str_int_c_atoms plus n : Forall (fun c => atomc c = true) (str_int_c plus n).
Proof.
  unfold str_int_c. destruct (plus && (0 <? n)).
  - constructor; [reflexivity|]. apply str_of_int_atoms.
  - apply str_of_int_atoms.
Qed.

(* ---- integer lists ---- *)
Lemma opt_all_map_some {A} (l : list A) : opt_all (map Some l) = Some l.
Proof. induction l as [|x l IH]; cbn; [reflexivity|]. rewrite IH. reflexivity. Qed.

Theorem int_list_render plus l : l <> [] ->
  int_list (join [44] (map (str_int_c plus) l)) = Some l.
Proof.
  intro Hl. unfold int_list. rewrite split_join.
  - rewrite map_map. rewrite (map_ext _ Some) by (intro; apply py_int_str_int_c).
    apply opt_all_map_some.
  - destruct l; [congruence|discriminate].
  - apply Forall_forall. intros s Hs. apply in_map_iff in Hs as [n [<- _]].
    apply atoms_no_char; [apply str_int_c_atoms|cbn; tauto].
Qed.
