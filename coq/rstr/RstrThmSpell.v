(* spelling_invariance at the level of the rule value: every spelling of a set of keyword
   arguments (order of parts, BYDAY forms, '+' signs, UNTIL as DATE) is read back as exactly
   those keyword arguments. *)
From Coq Require Import ZArith List Bool Lia ZifyBool Permutation.
From V Require Import base.Cal rstr.RstrPrim rstr.RstrLemmas rstr.RstrModel rstr.RstrSpec
  rstr.RstrThmInt rstr.RstrThmWd rstr.RstrThmDate rstr.RstrThmParts rstr.RstrThmKw.
Import ListNotations.
Open Scope Z_scope.

(* ---- permute is a permutation ---- *)
Lemma mem_nat_in x l : mem_nat x l = true <-> In x l.
Proof.
  induction l as [|y l IH]; cbn; [split; [discriminate|tauto]|].
  rewrite orb_true_iff, Nat.eqb_eq, IH. split; intros [H|H]; auto.
Qed.

Lemma nodup_nat_NoDup l : nodup_nat l = true -> NoDup l.
Proof.
  induction l as [|x l IH]; cbn; [constructor|].
  intro H. apply andb_true_iff in H as [H1 H2]. constructor; [|apply IH, H2].
  intro Hin. apply mem_nat_in in Hin. rewrite Hin in H1. discriminate.
Qed.

Lemma map_nth_seq {A} (d : A) l : map (fun i => nth i l d) (seq 0 (List.length l)) = l.
Proof.
  induction l as [|x l IH]; [reflexivity|].
  cbn [List.length seq map nth]. f_equal. rewrite <- seq_shift, map_map. exact IH.
Qed.

Lemma permute_perm {A} (d : A) p l : Permutation l (permute d p l).
Proof.
  unfold permute. destruct (is_perm (List.length l) p) eqn:E; [|apply Permutation_refl].
  unfold is_perm in E. apply andb_true_iff in E as [E E3]. apply andb_true_iff in E as [E1 E2].
  apply Nat.eqb_eq in E1. apply nodup_nat_NoDup in E3.
  assert (HP : Permutation p (seq 0 (List.length l))).
  { apply NoDup_Permutation_bis; [exact E3|rewrite seq_length; lia|].
    intros i Hi. apply in_seq. rewrite forallb_forall in E2. apply E2 in Hi.
    apply Nat.ltb_lt in Hi. lia. }
  rewrite <- (map_nth_seq d l) at 1. apply Permutation_sym, Permutation_map, HP.
Qed.

(* ---- keys of parts_of_kw are distinct ---- *)
Fixpoint incr (m : Z) (l : list Z) : bool :=
  match l with [] => true | x :: r => (m <=? x) && incr (x + 1) r end.

Lemma incr_weaken l : forall m m', m' <= m -> incr m l = true -> incr m' l = true.
Proof.
  destruct l as [|x r]; intros m m' H; cbn; [auto|].
  intro E. apply andb_true_iff in E as [E1 E2]. rewrite E2. lia.
Qed.

Lemma incr_lb l : forall m x, incr m l = true -> In x l -> m <= x.
Proof.
  induction l as [|y r IH]; intros m x E Hin; [contradiction|].
  cbn in E. apply andb_true_iff in E as [E1 E2]. destruct Hin as [->|Hin]; [lia|].
  pose proof (IH (y + 1) x E2 Hin). lia.
Qed.

Lemma incr_NoDup l : forall m, incr m l = true -> NoDup l.
Proof.
  induction l as [|x r IH]; intros m E; [constructor|].
  cbn in E. apply andb_true_iff in E as [E1 E2]. constructor; [|apply (IH _ E2)].
  intro Hin. pose proof (incr_lb r (x + 1) x E2 Hin). lia.
Qed.

Lemma incr_opt {A} (F : A -> part) (o : option A) k m rest :
  (forall x, part_key (F x) = k) -> m <= k -> incr (k + 1) rest = true ->
  incr m (map part_key (opt_part F o) ++ rest) = true.
Proof.
  intros HF Hm Hr. destruct o as [x|]; cbn [opt_part map app].
  - cbn [incr]. rewrite HF. rewrite Hr. lia.
  - apply (incr_weaken rest (k + 1)); [lia|exact Hr].
Qed.

(* parts_of_kw lists BYWEEKNO / BYDAY / BYHOUR.. before BYEASTER: keys in the order of
   rrule.__str__, which is not the numeric order; NoDup is shown through a renumbering *)
Definition rank (k : Z) : Z :=
  if k =? 9 then 14 else if k =? 10 then 9 else if k =? 14 then 10
  else if k =? 11 then 11 else if k =? 12 then 12 else if k =? 13 then 13 else k.

Lemma rank_inj a b : 0 <= a <= 14 -> 0 <= b <= 14 -> rank a = rank b -> a = b.
Proof.
  intros Ha Hb. unfold rank.
  repeat match goal with |- context [?x =? ?n] => destruct (Z.eqb_spec x n) end; lia.
Qed.

Lemma incr_opt_rank {A} (F : A -> part) (o : option A) r m rest :
  (forall x, rank (part_key (F x)) = r) -> m <= r -> incr (r + 1) rest = true ->
  incr m (map rank (map part_key (opt_part F o)) ++ rest) = true.
Proof.
  intros HF Hm Hr. destruct o as [x|]; cbn [opt_part map app].
  - cbn [incr]. rewrite HF. rewrite Hr. lia.
  - apply (incr_weaken rest (r + 1)); [lia|exact Hr].
Qed.

Lemma parts_keys_nodup k : NoDup (map part_key (parts_of_kw k)).
Proof.
  assert (H : incr 0 (map rank (map part_key (parts_of_kw k ++ []))) = true).
  { unfold parts_of_kw. rewrite <- !app_assoc. rewrite !map_app.
    apply (incr_opt_rank _ _ 0); [intro; reflexivity|lia|].
    apply (incr_opt_rank _ _ 1); [intro; reflexivity|lia|].
    apply (incr_opt_rank _ _ 2); [intro; reflexivity|lia|].
    apply (incr_opt_rank _ _ 3); [intro; reflexivity|lia|].
    apply (incr_opt_rank _ _ 4); [intro; reflexivity|lia|].
    apply (incr_opt_rank _ _ 5); [intro; reflexivity|lia|].
    apply (incr_opt_rank _ _ 6); [intro; reflexivity|lia|].
    apply (incr_opt_rank _ _ 7); [intro; reflexivity|lia|].
    apply (incr_opt_rank _ _ 8); [intro; reflexivity|lia|].
    apply (incr_opt_rank _ _ 9); [intro; reflexivity|lia|].
    apply (incr_opt_rank _ _ 10); [intro; reflexivity|lia|].
    apply (incr_opt_rank _ _ 11); [intro; reflexivity|lia|].
    apply (incr_opt_rank _ _ 12); [intro; reflexivity|lia|].
    apply (incr_opt_rank _ _ 13); [intro; reflexivity|lia|].
    apply (incr_opt_rank _ _ 14); [intro; reflexivity|lia|].
    reflexivity. }
  rewrite app_nil_r in H. apply incr_NoDup in H.
  eapply NoDup_map_inv. exact H.
Qed.

Lemma parts_keyok k : Forall keyok (parts_of_kw k).
Proof.
  unfold parts_of_kw. repeat (apply Forall_app; split);
    match goal with |- Forall _ (opt_part _ ?o) => destruct o; cbn [opt_part]; repeat constructor; cbn; lia end.
Qed.

Lemma opt_forallb {A} (F : A -> part) (o : option A) :
  match o with Some x => wf_part (F x) = true | None => True end ->
  forallb wf_part (opt_part F o) = true.
Proof. destruct o; cbn; [intro H; rewrite H; reflexivity|reflexivity]. Qed.

Lemma nonempty_isnil {A} (l : list A) : nonempty (Some l) = true -> negb (isnil l) = true.
Proof. destruct l; [discriminate|reflexivity]. Qed.

Lemma parts_wf k : wf_kw k = true -> forallb wf_part (parts_of_kw k) = true /\ parts_of_kw k <> [].
Proof.
  unfold wf_kw. intro H.
  do 12 (apply andb_true_iff in H as [H ?]).
  split.
  - unfold parts_of_kw. rewrite !forallb_app.
    repeat (apply andb_true_iff; split); apply opt_forallb.
    + destruct (k_freq k); [exact H|exact I].
    + destruct (k_interval k); [reflexivity|exact I].
    + destruct (k_wkst k); [assumption|exact I].
    + destruct (k_count k); [reflexivity|exact I].
    + destruct (k_until k); [|exact I]. cbn [wf_part]. assumption.
    + destruct (k_bysetpos k) as [l|]; [|exact I]. cbn [wf_part]. rewrite nonempty_isnil by assumption. reflexivity.
    + destruct (k_bymonth k) as [l|]; [|exact I]. cbn [wf_part]. rewrite nonempty_isnil by assumption. reflexivity.
    + destruct (k_bymonthday k) as [l|]; [|exact I]. cbn [wf_part]. rewrite nonempty_isnil by assumption. reflexivity.
    + destruct (k_byyearday k) as [l|]; [|exact I]. cbn [wf_part]. rewrite nonempty_isnil by assumption. reflexivity.
    + destruct (k_byweekno k) as [l|]; [|exact I]. cbn [wf_part]. rewrite nonempty_isnil by assumption. reflexivity.
    + destruct (k_byweekday k) as [l|]; [|exact I]. cbn [wf_part]. destruct l; [discriminate|]. cbn [isnil negb andb]. assumption.
    + destruct (k_byhour k) as [l|]; [|exact I]. cbn [wf_part]. rewrite nonempty_isnil by assumption. reflexivity.
    + destruct (k_byminute k) as [l|]; [|exact I]. cbn [wf_part]. rewrite nonempty_isnil by assumption. reflexivity.
    + destruct (k_bysecond k) as [l|]; [|exact I]. cbn [wf_part]. rewrite nonempty_isnil by assumption. reflexivity.
    + destruct (k_byeaster k) as [l|]; [|exact I]. cbn [wf_part]. rewrite nonempty_isnil by assumption. reflexivity.
  - unfold parts_of_kw. destruct (k_freq k); [discriminate|discriminate].
Qed.

(* T1: every spelling of the rule value is read back as the keyword arguments it spells *)
Theorem spell_value_parse c k : wf_kw k = true -> parse_rrule_kw false (spell_value c k) = Ok k.
Proof.
  intro H. destruct (parts_wf k H) as [Hwf Hne]. unfold spell_value.
  pose proof (permute_perm (PCount 0) (c_perm c) (parts_of_kw k)) as HP.
  rewrite parse_rrule_kw_parts.
  - rewrite (kw_of_parts_perm _ _ HP (parts_keys_nodup k) (parts_keyok k)).
    rewrite kw_of_parts_of_kw. reflexivity.
  - intro E. rewrite E in HP. apply Permutation_sym, Permutation_nil in HP. contradiction.
  - apply forallb_forall. intros p Hp. rewrite forallb_forall in Hwf. apply Hwf.
    eapply Permutation_in; [apply Permutation_sym, HP|exact Hp].
Qed.
