(* Folded lines: unfolding (splitlines + the unfold loop of _parse_rfc) recovers the lines. *)
From Coq Require Import String ZArith List Bool Lia ZifyBool.
From V Require Import base.Cal rstr.RstrPrim rstr.RstrLemmas rstr.RstrModel rstr.RstrSpec rstr.RstrThmTop rstr.RstrThmSet.
Import ListNotations.
Open Scope Z_scope.

(* a line written on several physical lines: segment, then "\n " + segment ... *)
Definition pieces (segs : list str) : list str :=
  match segs with [] => [] | s1 :: ss => s1 :: map (cons 32) ss end.

Definition okseg (s : str) : Prop := s <> [] /\ nosp s.

Lemma is_lb_space c : is_lb c = true -> is_space c = true.
Proof. unfold is_lb, is_space. lia. Qed.

Definition nolb (s : str) : Prop := Forall (fun c => is_lb c = false) s.

Lemma nosp_nolb s : nosp s -> nolb s.
Proof.
  intro H. eapply Forall_impl; [|exact H]. intros c Hc. destruct (is_lb c) eqn:E; [|reflexivity].
  apply is_lb_space in E. congruence.
Qed.

(* ---- splitlines ---- *)
Lemma slines_nolb s : nolb s -> s <> [] -> slines false s = [s].
Proof.
  induction s as [|c s IH]; intros H Hne; [congruence|]. inversion H as [|? ? Hc Hs]; subst.
  cbn [slines andb]. rewrite Hc. destruct s as [|c2 s']; [reflexivity|].
  rewrite IH by (try discriminate; assumption). reflexivity.
Qed.

Lemma slines_app s rest : nolb s -> slines false (s ++ 10 :: rest) = s :: slines false rest.
Proof.
  induction s as [|c s IH]; intro H.
  - reflexivity.
  - inversion H as [|? ? Hc Hs]; subst. cbn [app slines andb]. rewrite Hc. rewrite (IH Hs). reflexivity.
Qed.

Lemma splitlines_join ps : Forall (fun p => p <> [] /\ nolb p) ps -> splitlines (join [10] ps) = ps.
Proof.
  unfold splitlines. induction 1 as [|p ps [Hp Hn] _ IH]; [reflexivity|].
  destruct ps as [|p2 ps'].
  - cbn [join]. apply slines_nolb; assumption.
  - change (join [10] (p :: p2 :: ps')) with (p ++ 10 :: join [10] (p2 :: ps')).
    rewrite slines_app by exact Hn. rewrite IH. reflexivity.
Qed.

(* ---- join of joins ---- *)
Lemma join_cons_head (c : Z) s ps : join [10] ((c :: s) :: ps) = c :: join [10] (s :: ps).
Proof. destruct ps; reflexivity. Qed.

Lemma join_fold_pieces segs : join [10; 32] segs = join [10] (pieces segs).
Proof.
  destruct segs as [|s1 ss]; [reflexivity|]. cbn [pieces]. revert s1.
  induction ss as [|s2 ss IH]; intro s1; [reflexivity|].
  change (join [10; 32] (s1 :: s2 :: ss)) with (s1 ++ [10; 32] ++ join [10; 32] (s2 :: ss)).
  cbn [map]. change (join [10] (s1 :: (32 :: s2) :: map (cons 32) ss))
    with (s1 ++ [10] ++ join [10] ((32 :: s2) :: map (cons 32) ss)).
  rewrite join_cons_head. rewrite IH. reflexivity.
Qed.

Lemma join_concat (gs : list (list str)) : Forall (fun g => g <> []) gs ->
  join [10] (map (join [10]) gs) = join [10] (concat gs).
Proof.
  induction 1 as [|g gs Hg Hgs IH]; [reflexivity|].
  destruct gs as [|g2 gs'].
  - cbn [map join concat]. rewrite app_nil_r. reflexivity.
  - change (join [10] (map (join [10]) (g :: g2 :: gs')))
      with (join [10] g ++ [10] ++ join [10] (map (join [10]) (g2 :: gs'))).
    rewrite IH. change (concat (g :: g2 :: gs')) with (g ++ concat (g2 :: gs')).
    assert (J : forall a b, a <> [] -> b <> [] -> join [10] (a ++ b) = join [10] a ++ [10] ++ join [10] b).
    { clear. induction a as [|x a IHa]; intros b Ha Hb; [congruence|].
      destruct a as [|y a'].
      - cbn [app]. destruct b; [congruence|reflexivity].
      - change (join [10] ((x :: y :: a') ++ b)) with (x ++ [10] ++ join [10] ((y :: a') ++ b)).
        rewrite IHa by (try discriminate; assumption).
        change (join [10] (x :: y :: a')) with (x ++ [10] ++ join [10] (y :: a')).
        rewrite <- !app_assoc. reflexivity. }
    assert (R : concat (g2 :: gs') <> []).
    { inversion Hgs as [|? ? Hg2 _]; subst. cbn [concat]. intro E. apply app_eq_nil in E as [E _]. congruence. }
    rewrite (J g (concat (g2 :: gs')) Hg R). reflexivity.
Qed.

(* ---- the unfold loop ---- *)
Lemma rstrip_ok s : okseg s -> rstrip s = s.
Proof.
  intros [Hne Hn]. destruct (exists_last Hne) as [a [c E]]. subst s.
  unfold rstrip. rewrite rev_app_distr. cbn [rev app lstrip].
  apply Forall_app in Hn as [_ Hc]. inversion Hc as [|? ? Hc' _]; subst. rewrite Hc'.
  cbn [rev]. rewrite rev_involutive. reflexivity.
Qed.

Lemma rstrip_sp_seg s : okseg s -> rstrip (32 :: s) = 32 :: s.
Proof.
  intros [Hne Hn]. destruct (exists_last Hne) as [a [c E]]. subst s.
  apply Forall_app in Hn as [_ Hc]. inversion Hc as [|? ? Hc' _]; subst.
  unfold rstrip. cbn [rev]. rewrite rev_app_distr. cbn [rev app lstrip]. rewrite Hc'.
  cbn [rev]. rewrite rev_app_distr. cbn [rev app]. rewrite rev_involutive. reflexivity.
Qed.

Lemma unfold_conts ss : Forall okseg ss -> forall rest prev k,
  unfold_lines (map (cons 32) ss ++ rest) (prev :: k) = unfold_lines rest ((prev ++ concat ss) :: k).
Proof.
  induction 1 as [|s ss Hs _ IH]; intros rest prev k.
  - cbn. rewrite app_nil_r. reflexivity.
  - cbn [map app unfold_lines]. rewrite (rstrip_sp_seg s Hs). rewrite Z.eqb_refl.
    rewrite IH. cbn [concat]. rewrite app_assoc. reflexivity.
Qed.

Lemma unfold_group segs : segs <> [] -> Forall okseg segs -> forall rest kept,
  unfold_lines (pieces segs ++ rest) kept = unfold_lines rest (concat segs :: kept).
Proof.
  intros Hne H rest kept. destruct segs as [|s1 ss]; [congruence|]. inversion H as [|? ? H1 Hss]; subst.
  pose proof (rstrip_ok s1 H1) as R.
  destruct H1 as [Hn1 Hsp]. destruct s1 as [|c t]; [congruence|].
  inversion Hsp as [|? ? Hc _]; subst.
  assert (E32 : (c =? 32) = false).
  { destruct (Z.eqb_spec c 32) as [->|]; [discriminate Hc|reflexivity]. }
  assert (G : unfold_lines (map (cons 32) ss ++ rest) ((c :: t) :: kept)
              = unfold_lines rest (((c :: t) ++ concat ss) :: kept)) by apply (unfold_conts ss Hss).
  cbn [pieces app unfold_lines]. rewrite R. rewrite E32.
  destruct kept as [|p k]; cbv iota; cbn [concat]; cbn [concat] in G; exact G.
Qed.

Lemma unfold_groups : forall gs kept, Forall (fun segs => segs <> [] /\ Forall okseg segs) gs ->
  unfold_lines (concat (map pieces gs)) kept = rev kept ++ map (@concat Z) gs.
Proof.
  induction gs as [|g gs IH]; intros kept H.
  - cbn. rewrite app_nil_r. reflexivity.
  - inversion H as [|? ? [Hne Hg] Hgs]; subst. cbn [map concat].
    rewrite (unfold_group g Hne Hg). rewrite IH by exact Hgs. cbn [rev]. rewrite <- app_assoc. reflexivity.
Qed.

(* every way of cutting the lines into non-empty segments is undone *)
Theorem unfold_segments gs : Forall (fun segs => segs <> [] /\ Forall okseg segs) gs ->
  get_lines true (join [10] (map (join [10; 32]) gs)) = map (@concat Z) gs.
Proof.
  intro H. unfold get_lines.
  rewrite (map_ext _ (fun segs => join [10] (pieces segs))) by (intro; apply join_fold_pieces).
  rewrite <- (map_map pieces (join [10])).
  rewrite join_concat.
  - rewrite splitlines_join.
    + rewrite unfold_groups by exact H. reflexivity.
    + apply Forall_forall. intros p Hp. apply in_concat in Hp as [g [Hg Hp]].
      apply in_map_iff in Hg as [segs [<- Hs]]. rewrite Forall_forall in H. destruct (H segs Hs) as [Hne Hok].
      destruct segs as [|s1 ss]; [contradiction|]. inversion Hok as [|? ? [H1 H1n] Hss]; subst.
      cbn [pieces] in Hp. destruct Hp as [<-|Hp]; [split; [exact H1|apply nosp_nolb, H1n]|].
      apply in_map_iff in Hp as [s [<- Hs2]]. rewrite Forall_forall in Hss. destruct (Hss s Hs2) as [_ Hn].
      split; [discriminate|]. constructor; [reflexivity|apply nosp_nolb, Hn].
  - apply Forall_forall. intros g Hg. apply in_map_iff in Hg as [segs [<- Hs]].
    rewrite Forall_forall in H. destruct (H segs Hs) as [Hne _]. destruct segs; [congruence|discriminate].
Qed.

(* fold_line of the spec: the cut points give segments *)
Lemma fold_line_segments ps : forall s i, s <> [] -> nosp s ->
  exists segs, segs <> [] /\ Forall okseg segs /\ concat segs = s /\
    fold_line ps i s = (if mem_nat i ps && negb (i =? 0)%nat then [10; 32] else []) ++ join [10; 32] segs.
Proof.
  induction s as [|ch s IH]; intros i Hne Hn; [congruence|]. inversion Hn as [|? ? Hch Hs]; subst.
  destruct s as [|ch2 s'].
  - exists [[ch]]. split; [discriminate|]. split; [repeat constructor; [discriminate|exact Hch]|].
    split; [reflexivity|reflexivity].
  - destruct (IH (S i) ltac:(discriminate) Hs) as [segs [Hsn [Hok [Hc Hf]]]].
    cbn [fold_line]. cbn [fold_line] in Hf. rewrite Hf.
    destruct segs as [|hd tl]; [congruence|]. inversion Hok as [|? ? [Hh1 Hh2] Htl]; subst.
    destruct (mem_nat (S i) ps && negb (S i =? 0)%nat).
    + exists ([ch] :: hd :: tl). split; [discriminate|].
      split; [constructor; [split; [discriminate|repeat constructor; exact Hch]|exact Hok]|].
      split; [cbn [concat app] in *; rewrite Hc; reflexivity|]. reflexivity.
    + exists ((ch :: hd) :: tl). split; [discriminate|].
      split; [constructor; [split; [discriminate|constructor; assumption]|exact Htl]|].
      split; [cbn [concat app] in *; rewrite Hc; reflexivity|].
      cbn [app]. destruct tl; reflexivity.
Qed.

(* folded lines with unfold: the lines of the text folded at any positions are the lines *)
Theorem unfold_fold_lines ps ls : Forall okseg ls ->
  get_lines true (join [10] (map (fold_line ps 0) ls)) = ls.
Proof.
  intro H.
  assert (G : exists gs, Forall (fun segs => segs <> [] /\ Forall okseg segs) gs /\
                         map (fold_line ps 0) ls = map (join [10; 32]) gs /\ map (@concat Z) gs = ls).
  { induction H as [|l ls [Hne Hn] _ [gs [G1 [G2 G3]]]]; [exists []; repeat split; constructor|].
    destruct (fold_line_segments ps l 0%nat Hne Hn) as [segs [S1 [S2 [S3 S4]]]].
    exists (segs :: gs). split; [constructor; [split; assumption|exact G1]|].
    split; cbn [map]; [rewrite G2, S4; rewrite andb_false_r; reflexivity|rewrite G3, S3; reflexivity]. }
  destruct G as [gs [G1 [G2 G3]]]. rewrite G2. rewrite unfold_segments by exact G1. exact G3.
Qed.

(* and without folding the same lines come out of split() *)

(* with unfold=True the folded text has the lines that split() finds in the unfolded text *)
Theorem folded_lines ps ls : Forall okseg ls ->
  get_lines true (join [10] (map (fold_line ps 0) ls)) = get_lines false (join [10] ls).
Proof.
  intro H. rewrite (unfold_fold_lines ps ls H). unfold get_lines. symmetry.
  apply RstrThmSet.words_join. eapply Forall_impl; [|exact H]. intros l [H1 H2]. split; assumption.
Qed.

Example ex_folded :
  get_lines true (join [10] (map (fold_line [3; 9; 10]%nat 0) [zs "DTSTART:19970902T090000"%string; zs "RRULE:FREQ=DAILY"%string]))
  = [zs "DTSTART:19970902T090000"%string; zs "RRULE:FREQ=DAILY"%string].
Proof. vm_compute. reflexivity. Qed.
