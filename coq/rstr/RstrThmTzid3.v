(* TZID parameter, general form: keyword in any letter case (395419a), an optional VALUE=DATE-TIME
   parameter before it, on DTSTART and on EXDATE lines.  A TZID parameter FOLLOWED by another
   parameter is lost (finding F-C13-f): witness below. *)
From Coq Require Import String ZArith List Bool Lia ZifyBool.
From V Require Import base.Cal rstr.RstrPrim rstr.RstrLemmas rstr.RstrModel rstr.RstrSpec
  rstr.RstrThmInt rstr.RstrThmWd rstr.RstrThmDate rstr.RstrThmParts rstr.RstrThmSpell rstr.RstrThmTop
  rstr.RstrThmTzid rstr.RstrThmSet rstr.RstrThmTzid2.
Import ListNotations.
Open Scope Z_scope.

(* ---- the scan with the keyword in any case ---- *)
Definition kwd_ok (k0 k1 k2 k3 : Z) : Prop := upc k0 = 84 /\ upc k1 = 90 /\ upc k2 = 73 /\ upc k3 = 68.

Lemma scan_prefix_kw : forall pre k0 tail, nolower pre -> noTZ (pre ++ [84]) = true -> upc k0 = 84 ->
  tzid_scan O (pre ++ k0 :: tail) = tzid_scan O (k0 :: tail).
Proof.
  induction pre as [|x pre IH]; intros k0 tail Hl H Hk; [reflexivity|].
  inversion Hl as [|? ? Hx Hl']; subst.
  cbn [app]. rewrite scan_step.
  - apply IH; [exact Hl'| |exact Hk]. cbn [app] in H. apply (noTZ_tail x _ H).
  - destruct pre as [|y pre'].
    + cbn [app]. destruct (startswith_ci s_TZIDeq (x :: k0 :: tail)) eqn:E; [|reflexivity].
      apply sw_pair in E as [_ E]. lia.
    + cbn [app]. destruct (startswith_ci s_TZIDeq (x :: y :: pre' ++ k0 :: tail)) eqn:E; [|reflexivity].
      apply sw_pair in E as [E1 E2]. inversion Hl' as [|? ? Hy _]; subst.
      rewrite (upc_nolower x Hx) in E1. rewrite (upc_nolower y Hy) in E2. subst.
      cbn [app noTZ] in H. rewrite !Z.eqb_refl in H. discriminate.
Qed.

Theorem tzid_findall_kw pre k0 k1 k2 k3 name d rest : nolower pre -> noTZ (pre ++ [84]) = true ->
  kwd_ok k0 k1 k2 k3 -> name <> [] -> nodelim name = true -> d = 58 \/ d = 59 -> nolower rest -> noTZ rest = true ->
  tzid_findall (pre ++ [k0; k1; k2; k3; 61] ++ name ++ d :: rest) = [name].
Proof.
  intros Hlp Hpre [K0 [K1 [K2 K3]]] Hne H58 Hd Hlr Hrest. unfold tzid_findall.
  change ([k0; k1; k2; k3; 61] ++ name ++ d :: rest) with (k0 :: k1 :: k2 :: k3 :: 61 :: name ++ d :: rest).
  rewrite scan_prefix_kw by assumption.
  assert (S : startswith_ci s_TZIDeq (k0 :: k1 :: k2 :: k3 :: 61 :: name ++ d :: rest) = true).
  { change s_TZIDeq with [84; 90; 73; 68; 61]. cbn [startswith_ci]. rewrite K0, K1, K2, K3. reflexivity. }
  rewrite (scan_hit k0 (k1 :: k2 :: k3 :: 61 :: name ++ d :: rest) name (d :: rest) S);
    [|cbn [skipn]; apply span_colon; assumption|exact Hne|discriminate].
  assert (L : (4 + List.length name + 1)%nat = List.length (k1 :: k2 :: k3 :: 61 :: name ++ [d])).
  { cbn [List.length]. rewrite app_length. cbn [List.length]. lia. }
  replace (k1 :: k2 :: k3 :: 61 :: name ++ d :: rest) with ((k1 :: k2 :: k3 :: 61 :: name ++ [d]) ++ rest)
    by (cbn [app]; rewrite <- app_assoc; reflexivity).
  rewrite L. rewrite scan_skip. rewrite (scan_noTZ rest O Hlr Hrest). reflexivity.
Qed.

(* ---- the parameter loop ---- *)
Lemma pdv_parms_tzid o names name tag vf : has_char 61 (upper name) = false ->
  tzid_lookup names (upper name) = Some name -> tz_get (o_tzids o) name = tag ->
  pdv_parms o names [s_TZIDeq ++ upper name] 0 vf = Ok tag.
Proof.
  intros H61 Hl Hg. cbn [pdv_parms].
  assert (S : startswith s_TZIDeq (s_TZIDeq ++ upper name) = true).
  { change s_TZIDeq with [84; 90; 73; 68; 61]. cbn [app startswith]. rewrite !Z.eqb_refl. reflexivity. }
  rewrite S, (after_last_tzid_name _ H61), Hl, Hg. reflexivity.
Qed.

(* optional VALUE=DATE-TIME in front of the TZID parameter *)
Definition vparms (vp : bool) : list str := if vp then [s_VALUE_DT] else [].
Definition vtext (vp : bool) : str := if vp then s_VALUEDTparm else [].

Lemma pdv_parms_v_tzid o names name tag vp : has_char 61 (upper name) = false ->
  tzid_lookup names (upper name) = Some name -> tz_get (o_tzids o) name = tag ->
  pdv_parms o names (vparms vp ++ [s_TZIDeq ++ upper name]) 0 false = Ok tag.
Proof.
  intros H61 Hl Hg. destruct vp; cbn [vparms app].
  - change (pdv_parms o names (s_VALUE_DT :: [s_TZIDeq ++ upper name]) 0 false)
      with (pdv_parms o names [s_TZIDeq ++ upper name] 0 true).
    apply pdv_parms_tzid; assumption.
  - apply pdv_parms_tzid; assumption.
Qed.

Definition naive_date (d : dt) : bool := valid_dt d && (dus d =? 0) && (dtz d =? 0).

Lemma pdv_dates_tz short tag : tag <> 0 -> forall ds, forallb naive_date ds = true ->
  pdv_dates false tag (map (dt_spell short) ds) = Ok (map (fun d => with_tz d tag) ds).
Proof.
  intros Ht. induction ds as [|d ds IH]; intro H; [reflexivity|]. cbn [forallb] in H.
  apply andb_true_iff in H as [Hd Hds]. unfold naive_date in Hd.
  apply andb_true_iff in Hd as [Hd Hz]. apply andb_true_iff in Hd as [Hd Hu].
  assert (Eu : dus d = 0) by lia. assert (Ez : dtz d = 0) by lia.
  cbn [map pdv_dates]. rewrite (parse_date_dt_spell short d Hd Eu (or_introl Ez)).
  replace (dtz d =? 0) with true by lia. replace (tag =? 0) with false by lia. cbn [negb andb].
  rewrite (IH Hds). reflexivity.
Qed.

Lemma upper_name_props name : forallb namec name = true ->
  has_char 58 (upper name) = false /\ has_char 59 (upper name) = false /\ has_char 61 (upper name) = false /\
  nosp (upper name) /\ Forall (fun ch => is_lower ch = false /\ is_ascii ch = true) (upper name).
Proof.
  intro H. rewrite forallb_forall in H.
  assert (Hun : Forall (fun ch => is_ascii ch = true /\ is_space ch = false /\ is_lower ch = false /\
                                  ch <> 58 /\ ch <> 59 /\ ch <> 61) (upper name)).
  { apply Forall_forall. intros ch Hin. unfold upper in Hin. apply in_map_iff in Hin as [x [<- Hx]].
    apply namec_upc, H, Hx. }
  repeat split; try (apply has_char_false); eapply Forall_impl; try exact Hun; intros ch Hc; try apply Hc.
  split; apply Hc.
Qed.

(* ---- EXDATE;[VALUE=DATE-TIME;]TZID=<name>:<values> : the values in that zone ---- *)
Theorem do_line_exdate_tzid o names name tag vp short ds a :
  forallb namec name = true -> tzid_lookup names (upper name) = Some name ->
  tz_get (o_tzids o) name = tag -> tag <> 0 -> o_ignoretz o = false ->
  ds <> [] -> forallb naive_date ds = true ->
  do_line o names (s_EXDATE ++ vtext vp ++ 59 :: s_TZIDeq ++ upper name ++ 58 :: dates_text short ds) a =
  Ok (mkacc (a_rr a) (a_rd a) (a_xr a) (a_xd a ++ map (fun d => with_tz d tag) ds) (a_start a)).
Proof.
  intros Hnm Hl Hg Ht Hi Hne Hds.
  destruct (upper_name_props name Hnm) as [U58 [U59 [U61 _]]].
  set (nm := s_EXDATE ++ vtext vp ++ 59 :: s_TZIDeq ++ upper name).
  assert (E : s_EXDATE ++ vtext vp ++ 59 :: s_TZIDeq ++ upper name ++ 58 :: dates_text short ds
              = nm ++ 58 :: dates_text short ds).
  { unfold nm. destruct vp; cbn [vtext app]; rewrite <- ?app_assoc; cbn [app]; rewrite <- ?app_assoc; reflexivity. }
  rewrite E. rewrite do_line_named.
  - assert (Sp : split_on 59 nm = s_EXDATE :: vparms vp ++ [s_TZIDeq ++ upper name]).
    { unfold nm. destruct vp; cbn [vtext vparms app].
      + change (s_EXDATE ++ s_VALUEDTparm ++ 59 :: s_TZIDeq ++ upper name)
          with (s_EXDATE ++ 59 :: (s_VALUE_DT ++ 59 :: (s_TZIDeq ++ upper name))).
        rewrite split_on_app by reflexivity. rewrite split_on_app by reflexivity.
        rewrite split_on_nosep; [reflexivity|]. rewrite has_char_app, U59. reflexivity.
      + rewrite split_on_app by reflexivity. rewrite split_on_nosep; [reflexivity|].
        rewrite has_char_app, U59. reflexivity. }
    rewrite Sp.
    change (leqb s_EXDATE s_RRULE) with false. change (leqb s_EXDATE s_RDATE) with false.
    change (leqb s_EXDATE s_EXRULE) with false. change (leqb s_EXDATE s_EXDATE) with true. cbv iota.
    unfold parse_date_value. rewrite (pdv_parms_v_tzid o names name tag vp U61 Hl Hg). rewrite Hi.
    rewrite dates_text_split by exact Hne. rewrite (pdv_dates_tz short tag Ht ds Hds). reflexivity.
  - unfold nm. destruct vp; cbn [vtext]; rewrite !has_char_app;
      change (59 :: s_TZIDeq ++ upper name) with ((59 :: s_TZIDeq) ++ upper name); rewrite has_char_app, U58; reflexivity.
  - unfold nm. discriminate.
Qed.

(* ---- DTSTART;[VALUE=DATE-TIME;]tzid=<name>:<value> + rule line, keyword in any case ---- *)
Lemma tzid_two_lines_v ev o c d k name tag vp S : wf_kw k = true ->
  valid_dt d = true -> dus d = 0 -> dtz d = 0 ->
  forallb namec name = true -> tz_get (o_tzids o) name = tag -> tag <> 0 ->
  o_forceset o = false -> o_compatible o = false -> o_ignoretz o = false ->
  parse_lines ev o [name] S
    [s_DTSTART ++ vtext vp ++ 59 :: s_TZIDeq ++ upper name ++ 58 :: dt_spell (c_dshort c) d;
     (if c_prefix c then s_RRULEc else []) ++ spell_value c k]
  = single ev (o_cache o) (Some (with_tz d tag)) k.
Proof.
  intros Hk Hv Hus Htz Hnm Hg Ht Hf Hc Hi.
  set (dv := dt_spell (c_dshort c) d).
  destruct (upper_name_props name Hnm) as [U58 [U59 [U61 _]]].
  unfold parse_lines. rewrite Hf, Hc. cbn [orb].
  unfold shortcut. cbn [negb List.length andb Z.of_nat Pos.of_succ_nat Z.eqb Pos.eqb Pos.succ].
  apply general_second; try assumption.
  intro a. set (nm := s_DTSTART ++ vtext vp ++ 59 :: s_TZIDeq ++ upper name).
  assert (E : s_DTSTART ++ vtext vp ++ 59 :: s_TZIDeq ++ upper name ++ 58 :: dv = nm ++ 58 :: dv).
  { unfold nm. destruct vp; cbn [vtext app]; rewrite <- ?app_assoc; cbn [app]; rewrite <- ?app_assoc; reflexivity. }
  rewrite E.
  rewrite (do_line_DTSTART o [name] nm (vparms vp ++ [s_TZIDeq ++ upper name]) dv a).
  - unfold parse_date_value. rewrite (pdv_parms_v_tzid o [name] name tag vp U61); [| |exact Hg].
    + rewrite Hi. unfold dv. rewrite split_on_nosep by (apply atoms_no_char; [apply dt_spell_atoms|cbn; tauto]).
      cbn [pdv_dates]. rewrite (parse_date_dt_spell (c_dshort c) d Hv Hus (or_introl Htz)).
      rewrite Htz. replace (tag =? 0) with false by lia. cbn [negb andb Z.eqb]. destruct vp; reflexivity.
    + unfold tzid_lookup. cbn [rev app find]. rewrite leqb_refl. reflexivity.
  - unfold nm. destruct vp; cbn [vtext vparms app].
    + change (s_DTSTART ++ s_VALUEDTparm ++ 59 :: s_TZIDeq ++ upper name)
        with (s_DTSTART ++ 59 :: (s_VALUE_DT ++ 59 :: (s_TZIDeq ++ upper name))).
      rewrite split_on_app by reflexivity. rewrite split_on_app by reflexivity.
      rewrite split_on_nosep; [reflexivity|]. rewrite has_char_app, U59. reflexivity.
    + rewrite split_on_app by reflexivity. rewrite split_on_nosep; [reflexivity|].
      rewrite has_char_app, U59. reflexivity.
  - unfold nm. destruct vp; cbn [vtext]; rewrite !has_char_app;
      change (59 :: s_TZIDeq ++ upper name) with ((59 :: s_TZIDeq) ++ upper name); rewrite has_char_app, U58; reflexivity.
Qed.

Theorem rrulestr_tzid_general ev o c d k name tag vp k0 k1 k2 k3 : wf_kw k = true ->
  valid_dt d = true -> dus d = 0 -> dtz d = 0 ->
  name <> [] -> forallb namec name = true -> tz_get (o_tzids o) name = tag -> tag <> 0 ->
  kwd_ok k0 k1 k2 k3 ->
  o_forceset o = false -> o_compatible o = false -> o_ignoretz o = false -> o_unfold o = false ->
  parse_rfc ev o (s_DTSTART ++ vtext vp ++ 59 :: [k0; k1; k2; k3; 61] ++ name ++ 58 :: dt_spell (c_dshort c) d
                  ++ 10 :: (if c_prefix c then s_RRULEc else []) ++ spell_value c k)
  = single ev (o_cache o) (Some (with_tz d tag)) k.
Proof.
  intros Hk Hv Hus Htz Hne Hnm Hg Ht HK Hf Hc Hi Hu.
  destruct (spell_value_chars c k Hk) as [Hch [H58 Hvne]].
  set (dv := dt_spell (c_dshort c) d). set (l2 := (if c_prefix c then s_RRULEc else []) ++ spell_value c k).
  set (L1 := s_DTSTART ++ vtext vp ++ 59 :: [k0; k1; k2; k3; 61] ++ name ++ 58 :: dv).
  assert (Hdv : Forall (fun ch => atomc ch = true) dv) by apply dt_spell_atoms.
  assert (H2 : Forall (fun ch => linec ch = true) l2).
  { apply Forall_app; split; [|exact Hch]. destruct (c_prefix c); repeat constructor. }
  assert (N2 : l2 <> []) by (unfold l2; destruct (c_prefix c); [discriminate|exact Hvne]).
  pose proof Hnm as Hnm'. rewrite forallb_forall in Hnm.
  destruct HK as [K0 [K1 [K2 K3]]].
  assert (KC : Forall (fun ch => is_ascii ch = true /\ is_space ch = false) [k0; k1; k2; k3; 61]).
  { repeat constructor; unfold upc, is_lower, is_ascii, is_space in *;
      repeat match goal with H : (if ?b then _ else _) = _ |- _ => destruct b eqn:? end; lia. }
  assert (C1 : Forall (fun ch => is_ascii ch = true /\ is_space ch = false) L1).
  { unfold L1. apply Forall_app; split; [repeat constructor|]. apply Forall_app; split; [destruct vp; repeat constructor|].
    constructor; [split; reflexivity|]. apply Forall_app; split; [exact KC|]. apply Forall_app; split.
    - apply Forall_forall. intros x Hx. specialize (Hnm x Hx). unfold namec, namec_b in Hnm.
      destruct (is_ascii x), (is_space x); cbn in Hnm; try discriminate. split; reflexivity.
    - constructor; [split; reflexivity|]. eapply Forall_impl; [|exact Hdv]. intros ch Hc'.
      destruct (linec_props ch) as [P1 [_ P3]]; [unfold linec, valc; rewrite Hc'; reflexivity|]. split; assumption. }
  assert (NL1 : L1 <> []) by discriminate.
  assert (SL1 : nosp L1) by (eapply Forall_impl; [|exact C1]; intros ch Hc'; apply Hc').
  set (T := L1 ++ 10 :: l2).
  assert (Hasc : forallb is_ascii T = true).
  { unfold T. rewrite forallb_app. cbn [forallb]. rewrite (txt_ascii l2 (linec_txtc l2 H2)).
    replace (forallb is_ascii L1) with true; [reflexivity|]. symmetry. apply forallb_forall.
    rewrite Forall_forall in C1. intros x Hx. apply C1, Hx. }
  assert (Hnames : tzid_findall T = [name]).
  { unfold T, L1.
    assert (E : (s_DTSTART ++ vtext vp ++ 59 :: [k0; k1; k2; k3; 61] ++ name ++ 58 :: dv) ++ 10 :: l2
                = (s_DTSTART ++ vtext vp ++ [59]) ++ [k0; k1; k2; k3; 61] ++ name ++ 58 :: (dv ++ 10 :: l2)).
    { destruct vp; cbn [vtext app]; rewrite <- ?app_assoc; cbn [app]; rewrite <- ?app_assoc; cbn [app];
        rewrite <- ?app_assoc; reflexivity. }
    rewrite E. apply tzid_findall_kw; try (split; [|split; [|split]]; assumption);
      [destruct vp; repeat constructor|destruct vp; reflexivity|exact Hne| |left; reflexivity| |apply rest_noTZ, Hk].
    2: { apply Forall_app; split.
         - eapply Forall_impl; [|exact Hdv]. intros ch Hc'. apply valc_not_lower. unfold valc. rewrite Hc'. reflexivity.
         - constructor; [reflexivity|]. eapply Forall_impl; [|exact H2]. intros ch Hc'. apply linec_props, Hc'. }
    apply namec_nodelim. exact Hnm. }
  assert (Hup1 : upper L1 = s_DTSTART ++ vtext vp ++ 59 :: s_TZIDeq ++ upper name ++ 58 :: dv).
  { unfold L1. rewrite !upper_app. cbn [upper map]. cbn [app map]. rewrite !map_app. cbn [map].
    fold (upper dv). fold (upper name).
    rewrite (txt_upper dv) by (apply linec_txtc, valc_linec, atoms_vals, Hdv).
    rewrite K0, K1, K2, K3.
    change (upper s_DTSTART) with s_DTSTART. change (upc 59) with 59. change (upc 61) with 61. change (upc 58) with 58.
    destruct vp; reflexivity. }
  assert (ET : s_DTSTART ++ vtext vp ++ 59 :: [k0; k1; k2; k3; 61] ++ name ++ 58 :: dv ++ 10 :: l2 = T).
  { unfold T, L1. destruct vp; cbn [vtext app]; rewrite <- ?app_assoc; cbn [app]; rewrite <- ?app_assoc; reflexivity. }
  rewrite ET.
  unfold parse_rfc. rewrite Hasc. cbn [negb]. unfold T.
  rewrite strip_nonnil_app by assumption.
  rewrite Hc, Hu. cbn [orb]. unfold get_lines.
  rewrite words_two by (try assumption; apply linec_nosp, H2).
  change (join [10] [L1; l2]) with (L1 ++ 10 :: l2). fold T. rewrite Hnames.
  cbn [map]. rewrite Hup1, (txt_upper l2 (linec_txtc l2 H2)).
  apply tzid_two_lines_v; assumption.
Qed.

(* formerly finding F-C13-f (fixed by 5fe9b57): a TZID parameter followed by another parameter keeps
   its zone, like VALUE before TZID *)
Example tzid_followed_by_parameter :
  let o := mkopts None false false false false false [(zs "Europe/Berlin", 3)] in
  let ev := mkenv 0 (mkdt 2000 1 1 0 0 0 0 0) in
  (exists r, parse_rfc ev o (zs "DTSTART;VALUE=DATE-TIME;TZID=Europe/Berlin:19970902T090000
RRULE:FREQ=DAILY;COUNT=2") = RRule false r /\ dtz (r_dtstart r) = 3) /\
  (exists r, parse_rfc ev o (zs "DTSTART;TZID=Europe/Berlin;VALUE=DATE-TIME:19970902T090000
RRULE:FREQ=DAILY;COUNT=2") = RRule false r /\ dtz (r_dtstart r) = 3) /\
  (exists xd, parse_rfc ev o (zs "EXDATE;TZID=Europe/Berlin;VALUE=DATE-TIME:19970902T090000") = RSet false [] [] [] xd
              /\ map dtz xd = [3]).
Proof. vm_compute. repeat split; eexists; split; reflexivity. Qed.

Example ex_kwd : kwd_ok 116 122 73 100 /\ kwd_ok 84 90 73 68. Proof. repeat split. Qed.

(* ---- TZID followed by VALUE=DATE-TIME (the order that 5fe9b57 repaired) ---- *)
Lemma pdv_parms_tzid_v o names name tag : has_char 61 (upper name) = false ->
  tzid_lookup names (upper name) = Some name -> tz_get (o_tzids o) name = tag ->
  pdv_parms o names [s_TZIDeq ++ upper name; s_VALUE_DT] 0 false = Ok tag.
Proof.
  intros H61 Hl Hg. cbn [pdv_parms].
  assert (S : startswith s_TZIDeq (s_TZIDeq ++ upper name) = true).
  { change s_TZIDeq with [84; 90; 73; 68; 61]. cbn [app startswith]. rewrite !Z.eqb_refl. reflexivity. }
  rewrite S, (after_last_tzid_name _ H61), Hl, Hg. reflexivity.
Qed.

Lemma tzid_two_lines_after ev o c d k name tag S : wf_kw k = true ->
  valid_dt d = true -> dus d = 0 -> dtz d = 0 ->
  forallb namec name = true -> tz_get (o_tzids o) name = tag -> tag <> 0 ->
  o_forceset o = false -> o_compatible o = false -> o_ignoretz o = false ->
  parse_lines ev o [name] S
    [s_DTSTART ++ 59 :: s_TZIDeq ++ upper name ++ s_VALUEDTparm ++ 58 :: dt_spell (c_dshort c) d;
     (if c_prefix c then s_RRULEc else []) ++ spell_value c k]
  = single ev (o_cache o) (Some (with_tz d tag)) k.
Proof.
  intros Hk Hv Hus Htz Hnm Hg Ht Hf Hc Hi.
  set (dv := dt_spell (c_dshort c) d).
  destruct (upper_name_props name Hnm) as [U58 [U59 [U61 _]]].
  unfold parse_lines. rewrite Hf, Hc. cbn [orb].
  unfold shortcut. cbn [negb List.length andb Z.of_nat Pos.of_succ_nat Z.eqb Pos.eqb Pos.succ].
  apply general_second; try assumption.
  intro a. set (nm := s_DTSTART ++ 59 :: s_TZIDeq ++ upper name ++ s_VALUEDTparm).
  assert (E : s_DTSTART ++ 59 :: s_TZIDeq ++ upper name ++ s_VALUEDTparm ++ 58 :: dv = nm ++ 58 :: dv).
  { unfold nm. rewrite <- ?app_assoc. cbn [app]. rewrite <- ?app_assoc. reflexivity. }
  rewrite E.
  rewrite (do_line_DTSTART o [name] nm [s_TZIDeq ++ upper name; s_VALUE_DT] dv a).
  - unfold parse_date_value. rewrite (pdv_parms_tzid_v o [name] name tag U61); [| |exact Hg].
    + rewrite Hi. unfold dv. rewrite split_on_nosep by (apply atoms_no_char; [apply dt_spell_atoms|cbn; tauto]).
      cbn [pdv_dates]. rewrite (parse_date_dt_spell (c_dshort c) d Hv Hus (or_introl Htz)).
      rewrite Htz. replace (tag =? 0) with false by lia. cbn [negb andb Z.eqb]. reflexivity.
    + unfold tzid_lookup. cbn [rev app find]. rewrite leqb_refl. reflexivity.
  - unfold nm. rewrite split_on_app by reflexivity.
    change (s_TZIDeq ++ upper name ++ s_VALUEDTparm) with (s_TZIDeq ++ upper name ++ 59 :: s_VALUE_DT).
    rewrite app_assoc. rewrite split_on_app by (rewrite has_char_app, U59; reflexivity).
    rewrite split_on_nosep by reflexivity. reflexivity.
  - unfold nm. rewrite !has_char_app.
    change (59 :: s_TZIDeq ++ upper name ++ s_VALUEDTparm) with ((59 :: s_TZIDeq) ++ upper name ++ s_VALUEDTparm).
    rewrite !has_char_app, U58. reflexivity.
Qed.

Theorem rrulestr_tzid_value_after ev o c d k name tag k0 k1 k2 k3 : wf_kw k = true ->
  valid_dt d = true -> dus d = 0 -> dtz d = 0 ->
  name <> [] -> forallb namec name = true -> tz_get (o_tzids o) name = tag -> tag <> 0 ->
  kwd_ok k0 k1 k2 k3 ->
  o_forceset o = false -> o_compatible o = false -> o_ignoretz o = false -> o_unfold o = false ->
  parse_rfc ev o (s_DTSTART ++ 59 :: [k0; k1; k2; k3; 61] ++ name ++ s_VALUEDTparm ++ 58 :: dt_spell (c_dshort c) d
                  ++ 10 :: (if c_prefix c then s_RRULEc else []) ++ spell_value c k)
  = single ev (o_cache o) (Some (with_tz d tag)) k.
Proof.
  intros Hk Hv Hus Htz Hne Hnm Hg Ht HK Hf Hc Hi Hu.
  destruct (spell_value_chars c k Hk) as [Hch [H58 Hvne]].
  set (dv := dt_spell (c_dshort c) d). set (l2 := (if c_prefix c then s_RRULEc else []) ++ spell_value c k).
  set (L1 := s_DTSTART ++ 59 :: [k0; k1; k2; k3; 61] ++ name ++ s_VALUEDTparm ++ 58 :: dv).
  assert (Hdv : Forall (fun ch => atomc ch = true) dv) by apply dt_spell_atoms.
  assert (H2 : Forall (fun ch => linec ch = true) l2).
  { apply Forall_app; split; [|exact Hch]. destruct (c_prefix c); repeat constructor. }
  assert (N2 : l2 <> []) by (unfold l2; destruct (c_prefix c); [discriminate|exact Hvne]).
  pose proof Hnm as Hnm'. rewrite forallb_forall in Hnm.
  pose proof HK as HK'. destruct HK as [K0 [K1 [K2 K3]]].
  assert (KC : Forall (fun ch => is_ascii ch = true /\ is_space ch = false) [k0; k1; k2; k3; 61]).
  { repeat constructor; unfold upc, is_lower, is_ascii, is_space in *;
      repeat match goal with H : (if ?b then _ else _) = _ |- _ => destruct b eqn:? end; lia. }
  assert (C1 : Forall (fun ch => is_ascii ch = true /\ is_space ch = false) L1).
  { unfold L1. apply Forall_app; split; [repeat constructor|].
    constructor; [split; reflexivity|]. apply Forall_app; split; [exact KC|]. apply Forall_app; split.
    - apply Forall_forall. intros x Hx. specialize (Hnm x Hx). unfold namec, namec_b in Hnm.
      destruct (is_ascii x), (is_space x); cbn in Hnm; try discriminate. split; reflexivity.
    - apply Forall_app; split; [repeat constructor|].
      constructor; [split; reflexivity|]. eapply Forall_impl; [|exact Hdv]. intros ch Hc'.
      destruct (linec_props ch) as [P1 [_ P3]]; [unfold linec, valc; rewrite Hc'; reflexivity|]. split; assumption. }
  assert (NL1 : L1 <> []) by discriminate.
  assert (SL1 : nosp L1) by (eapply Forall_impl; [|exact C1]; intros ch Hc'; apply Hc').
  set (T := L1 ++ 10 :: l2).
  assert (Hasc : forallb is_ascii T = true).
  { unfold T. rewrite forallb_app. cbn [forallb]. rewrite (txt_ascii l2 (linec_txtc l2 H2)).
    replace (forallb is_ascii L1) with true; [reflexivity|]. symmetry. apply forallb_forall.
    rewrite Forall_forall in C1. intros x Hx. apply C1, Hx. }
  assert (Hrest : nolower (dv ++ 10 :: l2)).
  { apply Forall_app; split.
    - eapply Forall_impl; [|exact Hdv]. intros ch Hc'. apply valc_not_lower. unfold valc. rewrite Hc'. reflexivity.
    - constructor; [reflexivity|]. eapply Forall_impl; [|exact H2]. intros ch Hc'. apply linec_props, Hc'. }
  assert (Hnames : tzid_findall T = [name]).
  { unfold T, L1.
    assert (E : (s_DTSTART ++ 59 :: [k0; k1; k2; k3; 61] ++ name ++ s_VALUEDTparm ++ 58 :: dv) ++ 10 :: l2
                = (s_DTSTART ++ [59]) ++ [k0; k1; k2; k3; 61] ++ name ++ 59 :: (s_VALUE_DT ++ 58 :: (dv ++ 10 :: l2))).
    { rewrite <- ?app_assoc. cbn [app]. rewrite <- ?app_assoc. cbn [app]. rewrite <- ?app_assoc. reflexivity. }
    rewrite E. apply tzid_findall_kw; try exact HK';
      [repeat constructor|reflexivity|exact Hne|apply namec_nodelim; exact Hnm|right; reflexivity| |].
    - apply Forall_app; split; [repeat constructor|]. constructor; [reflexivity|exact Hrest].
    - apply noTZ_app_sep; [lia|lia|reflexivity|apply rest_noTZ, Hk]. }
  assert (Hup1 : upper L1 = s_DTSTART ++ 59 :: s_TZIDeq ++ upper name ++ s_VALUEDTparm ++ 58 :: dv).
  { unfold L1. rewrite !upper_app. cbn [upper map]. cbn [app map]. rewrite !map_app. cbn [map].
    fold (upper dv). fold (upper name).
    rewrite (txt_upper dv) by (apply linec_txtc, valc_linec, atoms_vals, Hdv).
    rewrite K0, K1, K2, K3.
    change (upper s_DTSTART) with s_DTSTART. change (upc 59) with 59. change (upc 61) with 61. change (upc 58) with 58.
    change (map upc s_VALUEDTparm) with s_VALUEDTparm. reflexivity. }
  assert (ET : s_DTSTART ++ 59 :: [k0; k1; k2; k3; 61] ++ name ++ s_VALUEDTparm ++ 58 :: dv ++ 10 :: l2 = T).
  { unfold T, L1. rewrite <- ?app_assoc. cbn [app]. rewrite <- ?app_assoc. cbn [app]. rewrite <- ?app_assoc. reflexivity. }
  rewrite ET.
  unfold parse_rfc. rewrite Hasc. cbn [negb]. unfold T.
  rewrite strip_nonnil_app by assumption.
  rewrite Hc, Hu. cbn [orb]. unfold get_lines.
  rewrite words_two by (try assumption; apply linec_nosp, H2).
  change (join [10] [L1; l2]) with (L1 ++ 10 :: l2). fold T. rewrite Hnames.
  cbn [map]. rewrite Hup1, (txt_upper l2 (linec_txtc l2 H2)).
  apply tzid_two_lines_after; assumption.
Qed.
