(* The code regenerated from /repo (coq/gen/RstrGen.v) equals the hand model, for all inputs. *)
From Coq Require Import ZArith List Bool Lia ZifyBool.
From V Require Import base.Cal rstr.RstrPrim rstr.RstrLemmas rstr.RstrModel rstr.RstrSpec rstr.RstrThmErr
  rstr.RstrGenBase gen.RstrGen.
Import ListNotations.
Open Scope Z_scope.

(* ---- tables ---- *)
Lemma tbl_freq_map_spec v : g_lookup tbl_freq_map v = match freq_of v with Some f => GOk f | None => GExc XKey end.
Proof.
  unfold tbl_freq_map, freq_of, freq_names. cbn [g_lookup index_of Z.add].
  repeat match goal with |- context [leqb ?a v] => destruct (leqb a v) end; reflexivity.
Qed.

Lemma tbl_weekday_map_spec v : g_lookup tbl_weekday_map v = match wday_of v with Some f => GOk f | None => GExc XKey end.
Proof.
  unfold tbl_weekday_map, wday_of, wd_names. cbn [g_lookup index_of Z.add].
  repeat match goal with |- context [leqb ?a v] => destruct (leqb a v) end; reflexivity.
Qed.

Lemma wday_of_range v i : wday_of v = Some i -> 0 <= i <= 6.
Proof.
  unfold wday_of, wd_names. cbn [index_of Z.add].
  repeat match goal with |- context [leqb ?a v] => destruct (leqb a v) end; intro H; inversion H; lia.
Qed.

(* ---- monadic map vs opt_all ---- *)
Definition gopt {A} (r : gres A) : option A := match r with GOk a => Some a | GExc _ => None end.

Lemma gmapM_opt_all {A B} (f : A -> gres B) (g : A -> option B) l :
  (forall x, gopt (f x) = g x) -> gopt (gmapM f l) = opt_all (map g l).
Proof.
  intro H. induction l as [|x l IH]; [reflexivity|]. cbn [gmapM map opt_all].
  rewrite <- (H x). destruct (f x) as [y|e]; cbn [gbind gopt]; [|reflexivity].
  rewrite <- IH. destruct (gmapM f l); reflexivity.
Qed.

Lemma g_int_opt s : gopt (g_int s) = py_int s.
Proof. unfold g_int. destruct (py_int s); reflexivity. Qed.

(* ---- the handlers ---- *)
Lemma gen_int_list_spec value : 
  gopt (gmapM (fun x1 => gbind (g_int x1) (fun t2 => GOk t2)) (split_on 44 value)) = int_list value.
Proof.
  unfold int_list. apply gmapM_opt_all. intro x. unfold g_int. destruct (py_int x); reflexivity.
Qed.

(* the index scan of _handle_BYWEEKDAY against the hand model's span *)
Definition sdset : str := [43; 45; 48; 49; 50; 51; 52; 53; 54; 55; 56; 57].
Lemma signdigit_set c : is_signdigit c = has_char c sdset.
Proof. unfold is_signdigit, is_digit, has_char, sdset. cbn [existsb]. lia. Qed.

Lemma first_not_in_span : forall x,
  match first_not_in sdset x with
  | Some i => snd (span is_signdigit x) <> [] /\ firstn i x = fst (span is_signdigit x) /\ skipn i x = snd (span is_signdigit x)
  | None => snd (span is_signdigit x) = []
  end.
Proof.
  induction x as [|c r IH]; [reflexivity|]. cbn [first_not_in span]. rewrite <- signdigit_set.
  destruct (is_signdigit c) eqn:E.
  - destruct (span is_signdigit r) as [a b] eqn:Es. destruct (first_not_in sdset r) as [i|]; cbn [option_map fst snd] in *.
    + destruct IH as [H1 [H2 H3]]. cbn [firstn skipn]. rewrite H2, H3. repeat split; assumption.
    + exact IH.
  - cbn [fst snd firstn skipn]. repeat split. discriminate.
Qed.

Definition gen_wd_elem (wday1 : str) : gres wd :=
  (if has_char 40 wday1 then (let splt2 := (split_on 40 wday1) in gbind (g_nth splt2 0) (fun t3 => (let w4 := t3 in gbind (g_nth splt2 1) (fun t5 => gbind (g_int (removelast t5)) (fun t6 => (let n7 := t6 in gbind (g_lookup tbl_weekday_map w4) (fun t8 => gbind (g_weekday t8 (Some n7)) (fun t9 => GOk t9)))))))) else (if negb (isnil wday1) then (let i10 := scan_idx [43; 45; 48; 49; 50; 51; 52; 53; 54; 55; 56; 57] wday1 in (let n11 := (if isnil (firstn i10 wday1) then None else Some (firstn i10 wday1)) in (let w12 := (skipn i10 wday1) in (match n11 with Some n13 => gbind (g_int n13) (fun t14 => (let n15 := t14 in gbind (g_lookup tbl_weekday_map w12) (fun t16 => gbind (g_weekday t16 (Some n15)) (fun t17 => GOk t17)))) | None => gbind (g_lookup tbl_weekday_map w12) (fun t18 => gbind (g_weekday t18 None) (fun t19 => GOk t19)) end)))) else GExc XValue)).

Definition gcls (o : option err) : gexc := match o with Some e => gexc_of_err e | None => XValue end.

Lemma lookup_weekday_mk w n :
  gbind (g_lookup tbl_weekday_map w) (fun t => gbind (g_weekday t n) (fun t' => GOk t')) =
  match mk_wd w n with Some x => GOk x | None => GExc (gcls (mk_wd_class w n)) end.
Proof.
  rewrite tbl_weekday_map_spec. unfold mk_wd, mk_wd_class. destruct (wday_of w) as [i|] eqn:E; [|reflexivity].
  cbn [gbind]. unfold g_weekday. pose proof (wday_of_range w i E).
  replace ((0 <=? i) && (i <=? 6)) with true by lia.
  destruct n as [[| |]|]; reflexivity.
Qed.

(* one member, with the exception class *)
Lemma gen_wd_elem_spec x :
  gen_wd_elem x = match parse_wd x with Some w => GOk w | None => GExc (gcls (parse_wd_class x)) end.
Proof.
  unfold gen_wd_elem, parse_wd, parse_wd_class. destruct (has_char 40 x).
  - cbv zeta. unfold g_nth. destruct (split_on 40 x) as [|w [|a t]]; try reflexivity. cbn [nth_error gbind].
    unfold g_int. destruct (py_int (removelast a)) as [n|]; [|reflexivity]. cbn [gbind]. apply lookup_weekday_mk.
  - destruct (isnil x) eqn:En; [reflexivity|]. cbn [negb]. cbv zeta. fold sdset.
    unfold scan_idx. pose proof (first_not_in_span x) as F.
    destruct (first_not_in sdset x) as [i|].
    + destruct F as [F1 [F2 F3]]. rewrite F2, F3.
      destruct (snd (span is_signdigit x)) as [|b0 bt] eqn:Eb; [congruence|]. cbn [isnil].
      destruct (fst (span is_signdigit x)) as [|a0 at'] eqn:Ea; cbn [isnil].
      * apply lookup_weekday_mk.
      * unfold g_int. destruct (py_int (a0 :: at')); [|reflexivity]. cbn [gbind]. apply lookup_weekday_mk.
    + rewrite F. cbn [isnil].
      replace (firstn (List.length x - 1) x) with (removelast x)
        by (rewrite removelast_firstn_len; f_equal; lia).
      destruct (removelast x) as [|a0 at'] eqn:Ea; cbn [isnil].
      * apply lookup_weekday_mk.
      * unfold g_int. destruct (py_int (a0 :: at')); [|reflexivity]. cbn [gbind]. apply lookup_weekday_mk.
Qed.

(* the member is rejected exactly when the class function names a class *)
Lemma mk_wd_consistent w n : mk_wd w n = None <-> mk_wd_class w n <> None.
Proof.
  unfold mk_wd, mk_wd_class. destruct (wday_of w); [|split; [discriminate|reflexivity]].
  destruct n as [[| |]|]; split; try discriminate; try reflexivity; intro H; congruence.
Qed.
Lemma parse_wd_consistent x : parse_wd x = None <-> parse_wd_class x <> None.
Proof.
  unfold parse_wd, parse_wd_class. destruct (has_char 40 x).
  - destruct (split_on 40 x) as [|w [|a t]]; try (split; [discriminate|reflexivity]).
    destruct (py_int (removelast a)); [apply mk_wd_consistent|split; [discriminate|reflexivity]].
  - destruct (isnil x); [split; [discriminate|reflexivity]|]. cbv zeta.
    destruct (isnil _); [apply mk_wd_consistent|].
    destruct (py_int _); [apply mk_wd_consistent|split; [discriminate|reflexivity]].
Qed.

Lemma gmapM_wd : forall l,
  gmapM gen_wd_elem l = match opt_all (map parse_wd l) with Some ws => GOk ws | None => GExc (gexc_of_err (first_class l)) end.
Proof.
  induction l as [|x l IH]; [reflexivity|]. cbn [gmapM map opt_all first_class]. rewrite gen_wd_elem_spec.
  pose proof (parse_wd_consistent x) as C.
  destruct (parse_wd x) as [w|]; cbn [gbind].
  - destruct (parse_wd_class x) as [e|]; [exfalso; assert (D : Some w = None) by (apply C; discriminate); discriminate|].
    rewrite IH. destruct (opt_all (map parse_wd l)); reflexivity.
  - destruct (parse_wd_class x) as [e|]; [reflexivity|]. exfalso. apply (proj1 C eq_refl). reflexivity.
Qed.

Lemma gen_handle_BYWEEKDAY_spec ig name value kw :
  gres_res (gen_handle_BYWEEKDAY ig name value kw) =
  match wd_list value with Some l => Ok (set_byweekday l kw) | None => Err (wd_list_class value) end.
Proof.
  unfold gen_handle_BYWEEKDAY. fold gen_wd_elem. rewrite gmapM_wd. unfold wd_list, wd_list_class.
  destruct (opt_all (map parse_wd (split_on 44 value))); cbn [gbind gres_res]; [reflexivity|].
  destruct (first_class (split_on 44 value)); reflexivity.
Qed.

Lemma gmapM_int : forall l,
  gmapM (fun x1 => gbind (g_int x1) (fun t2 => GOk t2)) l =
  match opt_all (map py_int l) with Some t => GOk t | None => GExc XValue end.
Proof.
  induction l as [|x l IH]; [reflexivity|]. cbn [gmapM map opt_all]. unfold g_int at 1.
  destruct (py_int x); cbn [gbind]; [|reflexivity]. rewrite IH. destruct (opt_all (map py_int l)); reflexivity.
Qed.

(* ---- the dispatch table ---- *)
Lemma gen_int_spec ig name value kw n :
  kw_set_int (lower name) = (fun m k => GOk (n m k)) ->
  gres_res (gen_handle_int ig name value kw) = match py_int value with Some m => Ok (n m kw) | None => Err EValue end.
Proof. intro H. unfold gen_handle_int, g_int. rewrite H. destruct (py_int value); reflexivity. Qed.

Lemma gen_list_spec ig name value kw i :
  kw_set_list (lower name) = (fun l k => GOk (set_list i l k)) ->
  gres_res (gen_handle_int_list ig name value kw) =
  match int_list value with Some l => Ok (set_list i l kw) | None => Err EValue end.
Proof.
  intro H. unfold gen_handle_int_list. rewrite H. rewrite gmapM_int. unfold int_list.
  destruct (opt_all (map py_int (split_on 44 value))); reflexivity.
Qed.

Ltac names_unfold := unfold s_INTERVAL, s_COUNT, s_FREQ, s_UNTIL, s_WKST, s_BYWEEKDAY, s_BYDAY, s_BYSETPOS, s_BYMONTH,
  s_BYMONTHDAY, s_BYYEARDAY, s_BYEASTER, s_BYWEEKNO, s_BYHOUR, s_BYMINUTE, s_BYSECOND in *.

Lemma disp_known ig name value kw : RstrThmErr.known name = true ->
  gres_res (gen_dispatch ig name value kw) = handle ig name value kw.
Proof.
  unfold RstrThmErr.known, RstrThmErr.known_names. cbn [existsb app list_names]. intro K.
  repeat (apply orb_true_iff in K as [K|K]); try discriminate; apply leqb_eq in K; subst name.
  - change (gen_dispatch ig s_INTERVAL value kw) with (gen_handle_int ig s_INTERVAL value kw).
    rewrite (gen_int_spec ig s_INTERVAL value kw set_interval) by reflexivity. reflexivity.
  - change (gen_dispatch ig s_COUNT value kw) with (gen_handle_int ig s_COUNT value kw).
    rewrite (gen_int_spec ig s_COUNT value kw set_count) by reflexivity. reflexivity.
  - change (gen_dispatch ig s_FREQ value kw) with (gen_handle_FREQ ig s_FREQ value kw).
    unfold gen_handle_FREQ. rewrite tbl_freq_map_spec.
    change (handle ig s_FREQ value kw) with (match freq_of value with Some f => Ok (set_freq f kw) | None => Err EKey end).
    destruct (freq_of value); reflexivity.
  - change (gen_dispatch ig s_UNTIL value kw) with (gen_handle_UNTIL ig s_UNTIL value kw).
    unfold gen_handle_UNTIL, g_parse.
    change (handle ig s_UNTIL value kw) with (match parse_date ig value with
      | DOk d => Ok (set_until d kw) | DBad => Err EValue | DOv => Err EValue | DUn => Err EUnmodelled end).
    destruct (parse_date ig value); reflexivity.
  - change (gen_dispatch ig s_WKST value kw) with (gen_handle_WKST ig s_WKST value kw).
    unfold gen_handle_WKST. rewrite tbl_weekday_map_spec.
    change (handle ig s_WKST value kw) with (match wday_of value with Some f => Ok (set_wkst f kw) | None => Err EKey end).
    destruct (wday_of value); reflexivity.
  - change (gen_dispatch ig s_BYWEEKDAY value kw) with (gen_handle_BYWEEKDAY ig s_BYWEEKDAY value kw).
    change (handle ig s_BYWEEKDAY value kw) with (match wd_list value with Some l => Ok (set_byweekday l kw) | None => Err (wd_list_class value) end).
    apply gen_handle_BYWEEKDAY_spec.
  - change (gen_dispatch ig s_BYDAY value kw) with (gen_handle_BYWEEKDAY ig s_BYDAY value kw).
    change (handle ig s_BYDAY value kw) with (match wd_list value with Some l => Ok (set_byweekday l kw) | None => Err (wd_list_class value) end).
    apply gen_handle_BYWEEKDAY_spec.
  - change (gen_dispatch ig s_BYSETPOS value kw) with (gen_handle_int_list ig s_BYSETPOS value kw).
    rewrite (gen_list_spec ig s_BYSETPOS value kw 0) by reflexivity. reflexivity.
  - change (gen_dispatch ig s_BYMONTH value kw) with (gen_handle_int_list ig s_BYMONTH value kw).
    rewrite (gen_list_spec ig s_BYMONTH value kw 1) by reflexivity. reflexivity.
  - change (gen_dispatch ig s_BYMONTHDAY value kw) with (gen_handle_int_list ig s_BYMONTHDAY value kw).
    rewrite (gen_list_spec ig s_BYMONTHDAY value kw 2) by reflexivity. reflexivity.
  - change (gen_dispatch ig s_BYYEARDAY value kw) with (gen_handle_int_list ig s_BYYEARDAY value kw).
    rewrite (gen_list_spec ig s_BYYEARDAY value kw 3) by reflexivity. reflexivity.
  - change (gen_dispatch ig s_BYEASTER value kw) with (gen_handle_int_list ig s_BYEASTER value kw).
    rewrite (gen_list_spec ig s_BYEASTER value kw 4) by reflexivity. reflexivity.
  - change (gen_dispatch ig s_BYWEEKNO value kw) with (gen_handle_int_list ig s_BYWEEKNO value kw).
    rewrite (gen_list_spec ig s_BYWEEKNO value kw 5) by reflexivity. reflexivity.
  - change (gen_dispatch ig s_BYHOUR value kw) with (gen_handle_int_list ig s_BYHOUR value kw).
    rewrite (gen_list_spec ig s_BYHOUR value kw 6) by reflexivity. reflexivity.
  - change (gen_dispatch ig s_BYMINUTE value kw) with (gen_handle_int_list ig s_BYMINUTE value kw).
    rewrite (gen_list_spec ig s_BYMINUTE value kw 7) by reflexivity. reflexivity.
  - change (gen_dispatch ig s_BYSECOND value kw) with (gen_handle_int_list ig s_BYSECOND value kw).
    rewrite (gen_list_spec ig s_BYSECOND value kw 8) by reflexivity. reflexivity.
Qed.

Lemma disp_unknown ig name value kw : RstrThmErr.known name = false ->
  leqb name [105; 110; 116] = false -> leqb name [105; 110; 116; 95; 108; 105; 115; 116] = false ->
  gen_dispatch ig name value kw = GExc XAttr.
Proof.
  unfold RstrThmErr.known, RstrThmErr.known_names. cbn [existsb app list_names]. intros K H1 H2.
  repeat (apply orb_false_iff in K as [? K]). names_unfold.
  unfold gen_dispatch.
  repeat match goal with E : leqb name ?s = false |- context [leqb name ?s] => rewrite E end.
  reflexivity.
Qed.

(* names that reach the dispatch are upper-cased: they are never the lower-case method names
   _handle_int / _handle_int_list *)
Lemma upper_not_lowercase n s c : In c s -> is_lower c = true -> leqb (upper n) s = false.
Proof.
  intros Hin Hl. destruct (leqb (upper n) s) eqn:E; [|reflexivity]. apply leqb_eq in E. subst s.
  unfold upper in Hin. apply in_map_iff in Hin as [x [<- _]].
  unfold upc in Hl. destruct (is_lower x) eqn:Ex; [|congruence].
  unfold is_lower in *. lia.
Qed.

Theorem gen_dispatch_spec ig n value kw :
  gres_res (gen_dispatch ig (upper n) value kw) = handle ig (upper n) value kw.
Proof.
  destruct (RstrThmErr.known (upper n)) eqn:K; [apply disp_known, K|].
  rewrite (disp_unknown ig (upper n) value kw K).
  - rewrite (unknown_part_attributeerror ig (upper n) value kw K). reflexivity.
  - apply (upper_not_lowercase n _ 105); [left; reflexivity|reflexivity].
  - apply (upper_not_lowercase n _ 105); [left; reflexivity|reflexivity].
Qed.

(* ---- _parse_rfc_rrule ---- *)
Definition gen_step (ig : bool) (rrkwargs4 : kwargs) (pair3 : str) : gres kwargs :=
  (match (split_on 61 pair3) with [name5; value6] => (let name7 := (upper name5) in (let value8 := (upper value6) in gbind (gcatchs (gbind (gen_dispatch ig name7 value8 rrkwargs4) (fun rrkwargs9 => GOk rrkwargs9)) [([XAttr], XValue); ([XKey; XValue], XValue)]) (fun rrkwargs10 => GOk rrkwargs10))) | _ => GExc XValue end).

Lemma gen_step_spec ig kw p :
  gres_res (gen_step ig kw p) =
  match split_on 61 p with [n; v] => catch_pair (handle ig (upper n) (upper v) kw) | _ => Err EValue end.
Proof.
  unfold gen_step. destruct (split_on 61 p) as [|a [|b [|c t]]]; try reflexivity. cbv zeta.
  rewrite <- gen_dispatch_spec. destruct (gen_dispatch ig (upper a) (upper b) kw) as [k|[]]; reflexivity.
Qed.

Lemma gen_fold_spec ig : forall pairs kw,
  gres_res (gfoldM (gen_step ig) pairs kw) = handle_pairs ig pairs kw.
Proof.
  induction pairs as [|p r IH]; intro kw; [reflexivity|]. cbn [gfoldM handle_pairs].
  pose proof (gen_step_spec ig kw p) as S. unfold catch_pair in S.
  destruct (gen_step ig kw p) as [k|e] eqn:E; cbn [gbind].
  - cbn [gres_res] in S. destruct (split_on 61 p) as [|a [|b [|c t]]]; try discriminate.
    rewrite <- S. apply IH.
  - destruct (split_on 61 p) as [|a [|b [|c t]]]; try (rewrite S; reflexivity).
    rewrite <- S. destruct e; reflexivity.
Qed.

(* the dictionary _parse_rfc_rrule hands to rrule(): the hand model's parse_rrule_kw followed by the
   "missing FREQ" test *)
Theorem gen_parse_rfc_rrule_spec ig line :
  gres_res (gen_parse_rfc_rrule ig line) =
  match parse_rrule_kw ig line with
  | Ok kw => if isNone (k_freq kw) then Err EValue else Ok kw
  | Err e => Err e
  end.
Proof.
  unfold gen_parse_rfc_rrule, parse_rrule_kw, rrule_value. fold (gen_step ig).
  assert (T : forall v, gres_res (gbind (gfoldM (gen_step ig) (split_on 59 v) kw_empty)
                                   (fun k => if isNone (k_freq k) then GExc XValue else GOk k))
                        = match handle_pairs ig (split_on 59 v) kw_empty with
                          | Ok kw => if isNone (k_freq kw) then Err EValue else Ok kw
                          | Err e => Err e end).
  { intro v. rewrite <- gen_fold_spec. destruct (gfoldM (gen_step ig) (split_on 59 v) kw_empty) as [k|[]]; cbn [gbind gres_res];
      try reflexivity. destruct (isNone (k_freq k)); reflexivity. }
  destruct (has_char 58 line).
  - destruct (split_on 58 line) as [|a [|b [|c t]]]; try reflexivity.
    change [82; 82; 85; 76; 69] with s_RRULE. destruct (leqb a s_RRULE); [apply T|reflexivity].
  - cbv zeta. apply T.
Qed.

(* and with the constructor (call table: rrule(dtstart=, cache=, **rrkwargs) = ctor): the rule *)
Theorem gen_parse_rule_spec ev ig line st :
  parse_rule ev ig line st =
  match gres_res (gen_parse_rfc_rrule ig line) with
  | Ok kw => catch (ctor ev st kw) [EOverflow] EValue      (* except OverflowError: raise ValueError *)
  | Err e => Err e end.
Proof.
  rewrite gen_parse_rfc_rrule_spec. unfold parse_rule. destruct (parse_rrule_kw ig line) as [kw|e]; [|reflexivity].
  destruct (isNone (k_freq kw)) eqn:F; [reflexivity|reflexivity].
Qed.

(* ---- rrule.__str__ ---- *)
Lemma map_id' {A} (l : list A) : map (fun v => v) l = l.
Proof. induction l; cbn; congruence. Qed.

Theorem gen_to_str_spec r : gen_to_str r = to_str r.
Proof.
  unfold gen_to_str, to_str, str_parts, fmt_dt, part_ints, part_wds.
  change tblFREQNAMES with freq_names. fold (freq_name (r_freq r)).
  destruct (og_byweekday r) as [| |l].
  - cbn [app join]. rewrite <- !app_assoc. cbn [app].
    destruct (r_until r); rewrite <- ?app_assoc; reflexivity.
  - cbn [app join]. rewrite <- !app_assoc. cbn [app].
    destruct (r_until r); rewrite <- ?app_assoc; reflexivity.
  - destruct l as [|w l]; cbn [map app join]; rewrite <- !app_assoc; cbn [app].
    + destruct (r_until r); rewrite <- ?app_assoc; reflexivity.
    + rewrite map_id'. destruct (r_until r); rewrite <- ?app_assoc; reflexivity.
Qed.
