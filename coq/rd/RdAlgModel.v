(* C16 additions to the relativedelta model (rd/RdModel.v is owned by the C03/C09 builder and
   covers integer-valued arguments only).  Here:
     - the keyword constructor called with RATIONAL years / months (a float or a Fraction):
       relativedelta.py 171-178
           if any(x is not None and x != int(x) for x in (years, months)): raise ValueError
           self.years = int(years); self.months = int(months)
     - __mul__ / __rmul__ / __div__ by an integer-valued or rational scalar, as far as the result
       is exact (the float products themselves are supplied by the harness, see RdModel.mul_with).
   No proofs in this file. *)
From Coq Require Import ZArith List Bool.
From V Require Import base.Cal gen.RdTables rd.RdBase rd.RdModel.
Import ListNotations.
Open Scope Z_scope.

(* a rational argument p/q with q > 0 (Fraction(p, q), or the float p/q when that is exact) *)
(* int(x): truncation toward zero *)
Definition py_int_q (p : Z) (q : positive) : Z := Z.quot p (Z.pos q).

(* x == int(x) *)
Definition q_is_int (p : Z) (q : positive) : bool := Z.pos q * py_int_q p q =? p.

Definition set_ym (k : kwargs) (y m : Z) : kwargs :=
  let r := k_rel k in
  mkkw (mkrel y m (f_days r) (f_hours r) (f_minutes r) (f_seconds r) (f_us r))
       (k_leapdays k) (k_weeks k) (k_abs k) (k_wd k) (k_yearday k) (k_nlyearday k).

(* relativedelta(years=yn/yd, months=mn/md, **k)  -- the years/months of [k] are ignored *)
Definition mk_frac (yn : Z) (yd : positive) (mn : Z) (md : positive) (k : kwargs) : res rd :=
  if negb (q_is_int yn yd) || negb (q_is_int mn md) then Err EValue
  else mk (set_ym k (py_int_q yn yd) (py_int_q mn md)).

(* the fields handed back to the constructor by "constructing one from its own fields":
   relativedelta(years=d.years, ..., leapdays=d.leapdays, year=d.year, ..., weekday=d.weekday) *)
Definition fields_of (d : rd) : kwargs := kw_of_rd d.


(* d + datetime.timedelta (relativedelta.py 345-361): days / seconds / microseconds of the
   (normalised) timedelta are added to the like-named fields, everything else is kept *)
Definition add_td (d : rd) (days secs us : Z) : rd :=
  let r := rel d in
  build (mkrd (mkrel (f_years r) (f_months r) (f_days r + days) (f_hours r) (f_minutes r)
                     (f_seconds r + secs) (f_us r + us))
              (leapdays d) (ab d) (wd d)).

(* d * (p/q) for a scalar whose float value is exactly p/q (an int, a dyadic float, a Fraction
   with a power-of-two denominator) and products that are exact in double arithmetic:
   every relative field becomes int(field * p/q), int() truncating toward zero *)
Definition mul_q (d : rd) (p : Z) (q : positive) : rd :=
  mul_with d (map_rel (fun x => Z.quot (x * p) (Z.pos q)) (rel d)).
