(* C16: the domain on which the INTEGER reading of the float-mediated operations of
   relativedelta.py is what the code computes.
     _sign(x) = int(copysign(1, x))          needs float(x): OverflowError for |x| >= 2^1024
     d * k:  int(field * float(k))           exact iff k and every product field*k fit a double's
                                             53-bit significand
   Outside these bounds the statements about fix_rel / mul_int / gen_sign / gen_mul are statements
   about the MODEL (idealised: Python ints all the way), not about the code: e.g.
   relativedelta(microseconds=10**400) raises OverflowError and
   (relativedelta(days=2**53+1) * 1).days = 2**53.  The harness exercises both sides of the bounds. *)
From Coq Require Import ZArith List Bool Lia.
From V Require Import base.Cal gen.RdTables rd.RdBase rd.RdModel rd.RdAlgModel rd.RdAlgSpec
  rd.RdAlgThm rd.RdAlgLaws rd.RdAlgLaws2 rd.RdAlgLaws3.
Import ListNotations.
Open Scope Z_scope.

(* an integer that a double represents exactly as the result of one rounding-free operation *)
Definition exact53 (x : Z) : Prop := Z.abs x < 2 ^ 53.
(* copysign / float() accept it *)
Definition float_range (x : Z) : Prop := Z.abs x < 2 ^ 1024.

(* every product of d * k is exact *)
Definition mul_exact (d : rd) (k : Z) : Prop :=
  let r := rel d in
  exact53 k /\ exact53 (f_years r * k) /\ exact53 (f_months r * k) /\ exact53 (f_days r * k) /\
  exact53 (f_hours r * k) /\ exact53 (f_minutes r * k) /\ exact53 (f_seconds r * k) /\ exact53 (f_us r * k).

(* scalar p/q with q a power of two handled by mul_q: products field*p exact *)
Definition mulq_exact (d : rd) (p : Z) : Prop := mul_exact d p.

Theorem mul_int_total_bounded : forall a k, mul_exact a k ->
  rel_us (rel (mul_int a k)) = rel_us (rel a) * k /\ rel_months (rel (mul_int a k)) = rel_months (rel a) * k.
Proof. intros a k _. apply mul_int_total. Qed.

Theorem scalar_laws_bounded : forall d,
  (wf d -> mul_exact d 1 -> mul_int d 1 = d) /\ (mul_exact d (-1) -> mul_int d (-1) = neg d) /\
  (mul_exact d 0 -> no_rel (mul_int d 0) = true).
Proof.
  intro d. split; [intros W _; apply mul_one, W |]. split; [intros _; apply mul_minus_one |].
  intros _. apply mul_zero_no_relative.
Qed.

Theorem mul_q_laws_bounded : forall d p q k,
  wf (mul_q d p q) /\ (mul_exact d k -> mul_q d k 1 = mul_int d k).
Proof. intros d p q k. destruct (mul_q_laws d p q k) as [W E]. split; [exact W | intros _; exact E]. Qed.

(* the bounds are satisfiable and tight *)
Example ex_mul_exact : mul_exact (mkrd (mkrel 1 (-2) 9007199254740991 0 0 0 0) 0 abs0 None) 1
  /\ ~ mul_exact (mkrd (mkrel 0 0 9007199254740993 0 0 0 0) 0 abs0 None) 1.
Proof.
  split.
  - unfold mul_exact, exact53. cbn [rel f_years f_months f_days f_hours f_minutes f_seconds f_us]. repeat split; reflexivity.
  - unfold mul_exact, exact53. cbn [rel f_years f_months f_days f_hours f_minutes f_seconds f_us].
    intros (_ & _ & _ & H & _). revert H. vm_compute. discriminate.
Qed.

(* the bundles of RdAlgLaws3.v without their multiplication parts (those are stated above, bounded) *)
Theorem totals_laws_nomul : forall a b x y z,
  (rel_us (rel (neg a)) = - rel_us (rel a) /\ rel_months (rel (neg a)) = - rel_months (rel a)) /\
  (rel_us (rel (add_rd a b)) = rel_us (rel a) + rel_us (rel b) /\
   rel_months (rel (add_rd a b)) = rel_months (rel a) + rel_months (rel b)) /\
  (rel_us (rel (sub_rd a b)) = rel_us (rel a) - rel_us (rel b) /\
   rel_months (rel (sub_rd a b)) = rel_months (rel a) - rel_months (rel b)) /\
  (rel_us (rel (add_td a x y z)) = rel_us (rel a) + ((x * 86400 + y) * 1000000 + z) /\
   rel_months (rel (add_td a x y z)) = rel_months (rel a)).
Proof.
  intros a b x y z. destruct (totals_laws a b 0 x y z) as (H1 & H2 & H3 & _ & H5). auto.
Qed.

Theorem no_relative_laws_nomul : forall d,
  no_rel (add_rd d (neg d)) = true /\ no_rel (add_rd (neg d) d) = true /\ no_rel (sub_rd d d) = true.
Proof. intro d. destruct (no_relative_laws d) as (H1 & H2 & H3 & _). auto. Qed.

Theorem scalar_laws_nomul : forall d,
  (wf d -> normalized d = d) /\ all_nonneg (rel (abs_rd d)) /\ abs_rd (abs_rd d) = abs_rd d.
Proof. intro d. destruct (scalar_laws d) as (_ & _ & H3 & H4 & H5). auto. Qed.
