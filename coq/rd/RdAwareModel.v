(* relativedelta(dt1, dt2) for two AWARE datetimes whose tzinfo attributes are DISTINCT objects
   (e.g. two tz.tzlocal() instances, or two tz.tzrange(...) of the same rules).  CPython then
   compares and subtracts the operands as UTC instants (wall value minus utcoffset), while
   relativedelta.__add__ (self.__radd__(dt2), and the final dt2 + d) is wall-clock arithmetic on
   dt2's zone.  The zone enters only through its utcoffset, a function of the wall value
   ([off], microseconds; None = not supplied).  With ONE shared tzinfo object CPython ignores the
   zone altogether and RdModel.mk_diff applies.  No proofs in this file. *)
From Coq Require Import ZArith List Bool.
From V Require Import base.Cal gen.RdTables rd.RdBase rd.RdModel.
Import ListNotations.
Open Scope Z_scope.

Definition offfun : Type := Z -> option Z.

(* position of an aware value on the UTC time line *)
Definition ulin (off : offfun) (o : pydt) : res Z :=
  match off (lin o) with Some f => Ok (lin o - f) | None => Err EIndex end.

Fixpoint diff_loop_aw (fuel : nat) (off : offfun) (lt : bool) (dt1 dt2 : pydt) (months : Z) (dtm : pydt)
  : res (Z * pydt) :=
  match fuel with
  | O => Err EFuel
  | S f =>
      bind (ulin off dt1) (fun u1 =>
      bind (ulin off dtm) (fun um =>
      let again := if lt then um <? u1 else u1 <? um in
      if again then
        let months := months + (if lt then 1 else -1) in
        bind (add_dt (set_months rd0 months) dt2) (fun dtm => diff_loop_aw f off lt dt1 dt2 months dtm)
      else Ok (months, dtm)))
  end.

Definition mk_diff_aware (off : offfun) (dt1 dt2 : pydt) : res rd :=
  match dt1, dt2 with
  | PDT y1 m1 _ _ _ _ _, PDT y2 m2 _ _ _ _ _ =>
      let months := (y1 - y2) * 12 + (m1 - m2) in
      bind (add_dt (set_months rd0 months) dt2) (fun dtm =>
      bind (ulin off dt1) (fun u1 =>
      bind (ulin off dt2) (fun u2 =>
      bind (diff_loop_aw diff_fuel off (u1 <? u2) dt1 dt2 months dtm) (fun md =>
      let '(months, dtm) := md in
      bind (ulin off dtm) (fun um =>
      let d := set_months rd0 months in
      let delta := u1 - um in
      let days := delta / us_day in
      let rest := delta mod us_day in
      let r := rel d in
      Ok (fix_rd (mkrd (mkrel (f_years r) (f_months r) 0 0 0 (rest / us_sec + days * 86400) (rest mod us_sec))
                       0 abs0 None)))))))
  | _, _ => Err EValue      (* a date operand is naive: outside this model *)
  end.

(* a finite utcoffset table (wall position -> offset), as supplied by the harness *)
Fixpoint off_lookup (t : list (Z * Z)) (l : Z) : option Z :=
  match t with
  | [] => None
  | (k, f) :: rest => if k =? l then Some f else off_lookup rest l
  end.
