(* Executable SPECIFICATION of C16 ("relativedelta is a well-behaved value"), written from the
   property text and the class docstring, independently of the algorithm of relativedelta.py:
     - carries are TRUNCATING divisions (Z.quot / Z.rem: quotient rounded toward zero, remainder
       with the sign of the dividend) applied unconditionally, instead of the code's
       "if abs(v) > limit: s = sign(v); divmod(v*s, base) ..." ;
     - equality is "same canonical form", the canonical weekday being (weekday, n) with an absent
       or zero n read as +1, instead of the code's chain of early exits;
     - the predicates "normalised", "no relative part", "no field set".
   No proofs in this file. *)
From Coq Require Import ZArith List Bool.
From V Require Import base.Cal rd.RdBase.
Import ListNotations.
Open Scope Z_scope.

(* ---------------------------------------------------------------- normalisation *)
(* |months| < 12, |hours| < 24, |minutes| < 60, |seconds| < 60, |microseconds| < 10^6 *)
Definition normal (r : relf) : Prop :=
  Z.abs (f_months r) < 12 /\ Z.abs (f_hours r) < 24 /\ Z.abs (f_minutes r) < 60 /\
  Z.abs (f_seconds r) < 60 /\ Z.abs (f_us r) < 1000000.

Definition normal_b (r : relf) : bool :=
  (Z.abs (f_months r) <? 12) && (Z.abs (f_hours r) <? 24) && (Z.abs (f_minutes r) <? 60) &&
  (Z.abs (f_seconds r) <? 60) && (Z.abs (f_us r) <? 1000000).

(* well-formed delta = what every constructor / operator must return *)
Definition wf (d : rd) : Prop := normal (rel d).
Definition wf_b (d : rd) : bool := normal_b (rel d).

(* sign-preserving carry of [v] (unit = 1/base of the next field) into [up] *)
Definition tcarry (base v up : Z) : Z * Z := (Z.rem v base, up + Z.quot v base).

Definition spec_fix_rel (r : relf) : relf :=
  let '(us, s) := tcarry 1000000 (f_us r) (f_seconds r) in
  let '(s, mi) := tcarry 60 s (f_minutes r) in
  let '(mi, h) := tcarry 60 mi (f_hours r) in
  let '(h, d) := tcarry 24 h (f_days r) in
  let '(mo, y) := tcarry 12 (f_months r) (f_years r) in
  mkrel y mo d h mi s us.

(* all relative fields have one sign *)
Definition all_nonneg (r : relf) : Prop :=
  0 <= f_years r /\ 0 <= f_months r /\ 0 <= f_days r /\ 0 <= f_hours r /\
  0 <= f_minutes r /\ 0 <= f_seconds r /\ 0 <= f_us r.
Definition all_nonpos (r : relf) : Prop :=
  f_years r <= 0 /\ f_months r <= 0 /\ f_days r <= 0 /\ f_hours r <= 0 /\
  f_minutes r <= 0 /\ f_seconds r <= 0 /\ f_us r <= 0.

(* ---------------------------------------------------------------- equality / hashing *)
Definition canon_n (n : option Z) : Z :=
  match n with None => 1 | Some v => if v =? 0 then 1 else v end.

Definition canon_wd (w : option wdv) : option (Z * Z) :=
  match w with None => None | Some (k, n) => Some (k, canon_n n) end.

(* the canonical form: equal deltas are exactly those with the same canonical form *)
Definition canon (d : rd) : option (Z * Z) * relf * Z * absf :=
  (canon_wd (wd d), rel d, leapdays d, ab d).

Definition oz_eqb (a b : option Z) : bool :=
  match a, b with Some x, Some y => x =? y | None, None => true | _, _ => false end.

Definition spec_eqb (a b : rd) : bool :=
  match canon_wd (wd a), canon_wd (wd b) with
  | None, None => true
  | Some (k1, n1), Some (k2, n2) => (k1 =? k2) && (n1 =? n2)
  | _, _ => false
  end &&
  (f_years (rel a) =? f_years (rel b)) && (f_months (rel a) =? f_months (rel b)) &&
  (f_days (rel a) =? f_days (rel b)) && (f_hours (rel a) =? f_hours (rel b)) &&
  (f_minutes (rel a) =? f_minutes (rel b)) && (f_seconds (rel a) =? f_seconds (rel b)) &&
  (f_us (rel a) =? f_us (rel b)) && (leapdays a =? leapdays b) &&
  oz_eqb (a_year (ab a)) (a_year (ab b)) && oz_eqb (a_month (ab a)) (a_month (ab b)) &&
  oz_eqb (a_day (ab a)) (a_day (ab b)) && oz_eqb (a_hour (ab a)) (a_hour (ab b)) &&
  oz_eqb (a_minute (ab a)) (a_minute (ab b)) && oz_eqb (a_second (ab a)) (a_second (ab b)) &&
  oz_eqb (a_us (ab a)) (a_us (ab b)).

(* ---------------------------------------------------------------- predicates of the laws *)
Definition no_rel (d : rd) : bool :=
  let r := rel d in
  (f_years r =? 0) && (f_months r =? 0) && (f_days r =? 0) && (f_hours r =? 0) &&
  (f_minutes r =? 0) && (f_seconds r =? 0) && (f_us r =? 0).

(* "d has no field set" *)
Definition empty (d : rd) : Prop := d = rd0.

Definition empty_b (d : rd) : bool :=
  no_rel d && (leapdays d =? 0) &&
  match wd d with None => true | Some _ => false end &&
  match a_year (ab d), a_month (ab d), a_day (ab d), a_hour (ab d), a_minute (ab d),
        a_second (ab d), a_us (ab d) with
  | None, None, None, None, None, None, None => true
  | _, _, _, _, _, _, _ => false
  end.

(* a rational p/q (q > 0) is an integer *)
Definition q_integral (p : Z) (q : positive) : Prop := (Z.pos q | p).
