(* Theorems for C03: the model's __add__ (RdModel.add_dt) equals the documented four-step
   specification (RdSpec.spec_add) for every well-formed delta and every valid operand. *)
From Coq Require Import ZArith List Bool Lia ZifyBool.
From V Require Import base.Cal gen.RdTables rd.RdBase rd.RdModel rd.RdSpec.
Import ListNotations.
Open Scope Z_scope.
Ltac Zify.zify_post_hook ::= Z.to_euclidean_division_equations.

(* ---------------------------------------------------------------- promotion *)
Lemma has_time_carries_time d : has_time d = carries_time d.
Proof.
  unfold has_time, carries_time, nz, is_some.
  destruct (a_hour (ab d)), (a_minute (ab d)), (a_second (ab d)), (a_us (ab d));
  destruct (f_hours (rel d) =? 0), (f_minutes (rel d) =? 0), (f_seconds (rel d) =? 0),
           (f_us (rel d) =? 0); reflexivity.
Qed.
