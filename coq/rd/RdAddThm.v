(* Theorems for C03: the model's __add__ (RdModel.add_dt) equals the documented four-step
   specification (RdSpec.spec_add) for every well-formed delta and every valid operand. *)
From Coq Require Import ZArith List Bool Lia ZifyBool.
From V Require Import base.Cal gen.RdTables rd.RdBase rd.RdModel rd.RdSpec.
Import ListNotations.
Open Scope Z_scope.
Ltac Zify.zify_post_hook ::= Z.to_euclidean_division_equations.

(* ---------------------------------------------------------------- promotion *)
Lemma has_time_carries_time d : has_time d = carries_time d.
Proof.
  unfold has_time, carries_time, nz, is_some.
  destruct (a_hour (ab d)), (a_minute (ab d)), (a_second (ab d)), (a_us (ab d));
  destruct (f_hours (rel d) =? 0), (f_minutes (rel d) =? 0), (f_seconds (rel d) =? 0),
           (f_us (rel d) =? 0); reflexivity.
Qed.

(* ---------------------------------------------------------------- the time line *)
Lemma lin_date_of_ord n : lin (date_of_ord n) = n.
Proof.
  unfold date_of_ord. pose proof (ord_of_ymd_of_ord n) as H.
  destruct (ymd_of_ord n) as [[y m] d]. cbn [lin]. lia.
Qed.

Lemma ord_of_date_of_ord n : ord_of (date_of_ord n) = n.
Proof.
  unfold date_of_ord. pose proof (ord_of_ymd_of_ord n) as H.
  destruct (ymd_of_ord n) as [[y m] d]. cbn [ord_of]. lia.
Qed.

Lemma tod_split t : 0 <= t ->
  tod (t / 3600000000) ((t / 60000000) mod 60) ((t / us_sec) mod 60) (t mod us_sec) = t.
Proof. intros H. unfold tod, us_sec. lia. Qed.

Lemma lin_dt_of_lin l : lin (dt_of_lin l) = l.
Proof.
  unfold dt_of_lin. pose proof (ord_of_ymd_of_ord (l / us_day + 1)) as H.
  destruct (ymd_of_ord (l / us_day + 1)) as [[y m] d]. cbn [lin].
  rewrite tod_split by (unfold us_day; lia).
  destruct H as [H _]. rewrite H. unfold us_day. lia.
Qed.

Lemma ord_of_dt_of_lin l : ord_of (dt_of_lin l) = l / us_day + 1.
Proof.
  unfold dt_of_lin. pose proof (ord_of_ymd_of_ord (l / us_day + 1)) as H.
  destruct (ymd_of_ord (l / us_day + 1)) as [[y m] d]. cbn [ord_of]. tauto.
Qed.

Lemma is_datetime_date_of_ord n : is_datetime (date_of_ord n) = false.
Proof. unfold date_of_ord. destruct (ymd_of_ord n) as [[y m] d]. reflexivity. Qed.

Lemma is_datetime_dt_of_lin l : is_datetime (dt_of_lin l) = true.
Proof. unfold dt_of_lin. destruct (ymd_of_ord _) as [[y m] d]. reflexivity. Qed.

(* ---------------------------------------------------------------- step 4: counting = the % 7 formula *)
Lemma walk_fwd fuel : forall o w k, 0 <= w <= 6 -> 1 <= k ->
  (w - weekday_of_ord o) mod 7 + 7 * (k - 1) + 1 <= Z.of_nat fuel ->
  walk fuel 1 o w k = Some (o + ((w - weekday_of_ord o) mod 7 + 7 * (k - 1))).
Proof.
  induction fuel as [|f IH]; intros o w k Hw Hk Hf.
  - exfalso. change (Z.of_nat 0) with 0 in Hf. lia.
  - cbn [walk]. rewrite Nat2Z.inj_succ in Hf.
    destruct (weekday_of_ord o =? w) eqn:E.
    + destruct (k <=? 1) eqn:K.
      * f_equal. unfold weekday_of_ord in *. lia.
      * rewrite IH; [f_equal | lia | lia |]; unfold weekday_of_ord in *; lia.
    + rewrite IH; [f_equal | lia | lia |]; unfold weekday_of_ord in *; lia.
Qed.

Lemma walk_bwd fuel : forall o w k, 0 <= w <= 6 -> 1 <= k ->
  (weekday_of_ord o - w) mod 7 + 7 * (k - 1) + 1 <= Z.of_nat fuel ->
  walk fuel (-1) o w k = Some (o - ((weekday_of_ord o - w) mod 7 + 7 * (k - 1))).
Proof.
  induction fuel as [|f IH]; intros o w k Hw Hk Hf.
  - exfalso. change (Z.of_nat 0) with 0 in Hf. lia.
  - cbn [walk]. rewrite Nat2Z.inj_succ in Hf.
    destruct (weekday_of_ord o =? w) eqn:E.
    + destruct (k <=? 1) eqn:K.
      * f_equal. unfold weekday_of_ord in *. lia.
      * rewrite IH; [f_equal | lia | lia |]; unfold weekday_of_ord in *; lia.
    + rewrite IH; [f_equal | lia | lia |]; unfold weekday_of_ord in *; lia.
Qed.

(* the signed number of days the code jumps *)
Definition jump_days (wdret w nth : Z) : Z :=
  if 0 <? nth then (Z.abs nth - 1) * 7 + (7 - wdret + w) mod 7
  else ((Z.abs nth - 1) * 7 + (wdret - w) mod 7) * -1.

Lemma nth_weekday_jump o w n : 0 <= w <= 6 -> n <> 0 ->
  nth_weekday o w n = Some (o + jump_days (weekday_of_ord o) w n).
Proof.
  intros Hw Hn. unfold nth_weekday, jump_days. destruct (0 <? n) eqn:E.
  - rewrite walk_fwd; [f_equal | lia | lia |]; pose proof (weekday_of_ord_range o); lia.
  - rewrite walk_bwd; [f_equal | lia | lia |]; pose proof (weekday_of_ord_range o); lia.
Qed.

Lemma eff_n_py_or n : eff_n n = py_or n 1.
Proof. destruct n; reflexivity. Qed.

Lemma eff_n_nonzero n : eff_n n <> 0.
Proof. unfold eff_n. destruct n as [v|]; [destruct (v =? 0) eqn:E|]; lia. Qed.

(* ---------------------------------------------------------------- values on the time line *)
Definition on_line (o : pydt) : Prop :=
  match o with
  | PD _ _ _ => 1 <= lin o <= max_ord
  | PDT _ _ _ _ _ _ _ => 0 <= lin o < lin_max_dt
  end.

Lemma tod_range hh mi ss us : valid_time hh mi ss us = true -> 0 <= tod hh mi ss us < us_day.
Proof. unfold valid_time, tod, us_sec, us_day. lia. Qed.

Lemma valid_on_line o : valid_dt o = true -> on_line o.
Proof.
  destruct o as [y m d | y m d hh mi ss us]; cbn [valid_dt on_line lin]; intros V.
  - apply ord_of_ymd_range; exact V.
  - apply andb_prop in V. destruct V as [V1 V2].
    pose proof (ord_of_ymd_range _ _ _ V1). pose proof (tod_range _ _ _ _ V2).
    unfold lin_max_dt, max_ord, us_day in *. lia.
Qed.

Lemma at_lin_on_line like l r : at_lin like l = Some r ->
  on_line r /\ lin r = l /\ is_datetime r = is_datetime like.
Proof.
  unfold at_lin. destruct like as [y m d | y m d hh mi ss us].
  - destruct (_ && _) eqn:E; [|discriminate]. intros H; injection H as <-.
    unfold on_line. pose proof (lin_date_of_ord l) as L. pose proof (is_datetime_date_of_ord l) as K.
    destruct (date_of_ord l); [|discriminate]. cbn [is_datetime]. lia.
  - destruct (_ && _) eqn:E; [|discriminate]. intros H; injection H as <-.
    unfold on_line. pose proof (lin_dt_of_lin l) as L. pose proof (is_datetime_dt_of_lin l) as K.
    destruct (dt_of_lin l); [discriminate|]. cbn [is_datetime]. lia.
Qed.

(* one exact duration: [timedelta] construction + [date/datetime + timedelta] = a move on the line *)
Lemma add_dur base U : on_line base ->
  res_opt (bind (mk_timedelta U) (dt_add_us base)) =
  at_lin base (lin base + match base with PD _ _ _ => U / us_day | PDT _ _ _ _ _ _ _ => U end).
Proof.
  intros L. unfold mk_timedelta.
  destruct ((-999999999 <=? U / us_day) && (U / us_day <=? 999999999)) eqn:E; cbn [bind].
  - unfold dt_add_us, at_lin. destruct base;
    match goal with |- context [if ?c then Ok _ else _] => destruct c end; reflexivity.
  - cbn [res_opt]. symmetry. unfold at_lin, on_line in *.
    destruct base; unfold lin_max_dt, max_ord, us_day in *;
    match goal with |- (if ?c then _ else _) = _ => destruct c eqn:E2 end; try reflexivity; exfalso; lia.
Qed.

(* ---------------------------------------------------------------- step 4 of the model *)
Definition spec_wd (d : rd) (ret : pydt) : option pydt :=
  match wd d with
  | None => Some ret
  | Some (w, n) =>
      match nth_weekday (ord_of ret) w (eff_n n) with
      | None => None
      | Some target => at_lin ret (lin ret + (target - ord_of ret) * day_unit ret)
      end
  end.

Lemma stage_wd_spec d ret : on_line ret ->
  match wd d with Some (w, _) => (0 <=? w) && (w <=? 6) | None => true end = true ->
  res_opt (stage_wd d ret) = spec_wd d ret.
Proof.
  intros L W. unfold stage_wd, spec_wd. destruct (wd d) as [[w n]|]; [|reflexivity].
  rewrite nth_weekday_jump by (try apply eff_n_nonzero; lia).
  rewrite eff_n_py_or.
  set (J := jump_days (weekday_of_ord (ord_of ret)) w (py_or n 1)).
  assert (EJ : (let nth := py_or n 1 in
                let jump := (Z.abs nth - 1) * 7 in
                if 0 <? nth then jump + (7 - py_weekday ret + w) mod 7
                else (jump + (py_weekday ret - w) mod 7) * -1) = J).
  { unfold J, jump_days, py_weekday. cbv zeta. reflexivity. }
  cbv zeta in EJ |- *. rewrite EJ. rewrite add_dur by exact L.
  f_equal. destruct ret; cbn [day_unit]; unfold us_day; lia.
Qed.

(* ---------------------------------------------------------------- steps 1-2 of the model *)
Definition nonzero (v : Z) : bool := negb (v =? 0).
Definition is_month (v : Z) : bool := (1 <=? v) && (v <=? 12).

Lemma py_or_oget a b : opt_ok (fun v => negb (v =? 0)) a = true -> py_or a b = oget a b.
Proof. destruct a as [v|]; cbn; [|reflexivity]. intros H. destruct (v =? 0); [discriminate|reflexivity]. Qed.

Lemma py_or_month a b : opt_ok (fun v => (1 <=? v) && (v <=? 12)) a = true -> 1 <= b <= 12 ->
  py_or a b = oget a b /\ 1 <= oget a b <= 12.
Proof.
  destruct a as [v|]; cbn; [|auto]. intros H Hb. destruct (v =? 0) eqn:E; [lia|]. split; [reflexivity|lia].
Qed.

Lemma stage_ym_ok d oy om :
  Z.abs (f_months (rel d)) <= 11 ->
  opt_ok (fun v => negb (v =? 0)) (a_year (ab d)) = true ->
  opt_ok (fun v => (1 <=? v) && (v <=? 12)) (a_month (ab d)) = true ->
  1 <= om <= 12 ->
  stage_ym d oy om =
  Ok ((12 * oget (a_year (ab d)) oy + (oget (a_month (ab d)) om - 1)
       + 12 * f_years (rel d) + f_months (rel d)) / 12,
      (12 * oget (a_year (ab d)) oy + (oget (a_month (ab d)) om - 1)
       + 12 * f_years (rel d) + f_months (rel d)) mod 12 + 1).
Proof.
  intros Hm Hy Hmo Hom. unfold stage_ym.
  rewrite (py_or_oget _ _ Hy). destruct (py_or_month _ _ Hmo Hom) as [-> Hr].
  set (y0 := oget (a_year (ab d)) oy) in *. set (m0 := oget (a_month (ab d)) om) in *.
  set (mo := f_months (rel d)) in *. set (ys := f_years (rel d)) in *.
  destruct (mo =? 0) eqn:E0.
  - f_equal. f_equal; lia.
  - destruct (negb _) eqn:EA; [exfalso; lia|].
    destruct (12 <? m0 + mo) eqn:E1; [f_equal; f_equal; lia|].
    destruct (m0 + mo <? 1) eqn:E2; f_equal; f_equal; lia.
Qed.

Definition day_of (o : pydt) : Z :=
  match o with PD _ _ d => d | PDT _ _ d _ _ _ _ => d end.

Definition spec_base (d : rd) (o : pydt) (y1 m1 : Z) : pydt :=
  let a := ab d in
  let d1 := Z.min (oget (a_day a) (day_of o)) (dim y1 m1) in
  match o with
  | PD _ _ _ => PD y1 m1 d1
  | PDT _ _ _ hh mi ss us =>
      PDT y1 m1 d1 (oget (a_hour a) hh) (oget (a_minute a) mi) (oget (a_second a) ss) (oget (a_us a) us)
  end.

Lemma get_oget a b : get a b = oget a b.
Proof. reflexivity. Qed.

Lemma stage_replace_spec d o year month :
  1 <= month <= 12 -> opt_ok (fun v => negb (v =? 0)) (a_day (ab d)) = true ->
  res_opt (stage_replace d o year month) =
  if valid_dt (spec_base d o year month) then Some (spec_base d o year month) else None.
Proof.
  intros Hm Hd. unfold stage_replace, spec_base.
  destruct ((1 <=? month) && (month <=? 12)) eqn:EM; [|exfalso; lia]. cbn [negb].
  destruct o as [oy om od | oy om od hh mi ss us]; cbn [day_of valid_dt];
  rewrite (py_or_oget _ _ Hd); rewrite (Z.min_comm (dim year month)).
  - set (day := Z.min _ _).
    destruct (in_c_int year && in_c_int day) eqn:EC; cbn [negb].
    + destruct (valid_ymd year month day); reflexivity.
    + cbn [res_opt]. destruct (valid_ymd year month day) eqn:EV; [|reflexivity].
      exfalso. pose proof (dim_pos year month). unfold valid_ymd, in_c_int in *. lia.
  - set (day := Z.min _ _). rewrite !get_oget.
    destruct (in_c_int year && in_c_int day && opt_in_c_int (a_hour (ab d)) &&
              opt_in_c_int (a_minute (ab d)) && opt_in_c_int (a_second (ab d)) &&
              opt_in_c_int (a_us (ab d))) eqn:EC; cbn [negb].
    + destruct (valid_ymd year month day && valid_time _ _ _ _); reflexivity.
    + cbn [res_opt].
      destruct (valid_ymd year month day && valid_time _ _ _ _) eqn:EV; [|reflexivity].
      exfalso. pose proof (dim_pos year month).
      apply andb_prop in EV. destruct EV as [EV1 EV2].
      assert (C1 : in_c_int year && in_c_int day = true) by (unfold valid_ymd, in_c_int in *; lia).
      rewrite C1 in EC. cbn [andb] in EC.
      unfold valid_time in EV2.
      destruct (a_hour (ab d)) as [v1|], (a_minute (ab d)) as [v2|], (a_second (ab d)) as [v3|],
               (a_us (ab d)) as [v4|]; cbn [opt_in_c_int oget andb] in *; unfold in_c_int in *; lia.
Qed.

(* ---------------------------------------------------------------- the main theorem *)
Lemma wf_rd_inv d : wf_rd d = true ->
  norm_rel (rel d) = true /\
  opt_ok (fun v => negb (v =? 0)) (a_year (ab d)) = true /\
  opt_ok (fun v => (1 <=? v) && (v <=? 12)) (a_month (ab d)) = true /\
  opt_ok (fun v => negb (v =? 0)) (a_day (ab d)) = true /\
  match wd d with Some (w, _) => (0 <=? w) && (w <=? 6) | None => true end = true.
Proof.
  unfold wf_rd. intros H. do 4 (apply andb_prop in H; destruct H as [H ?]).
  repeat split; assumption.
Qed.

Lemma res_opt_bind {A B} (x : res A) (f : A -> res B) :
  res_opt (bind x f) = match res_opt x with Some a => res_opt (f a) | None => None end.
Proof. destruct x; reflexivity. Qed.

Lemma bind_assoc {A B C} (x : res A) (f : A -> res B) (g : B -> res C) :
  bind x (fun a => bind (f a) g) = bind (bind x f) g.
Proof. destruct x; reflexivity. Qed.

Definition ym_of (o : pydt) : Z * Z :=
  match o with PD y m _ => (y, m) | PDT y m _ _ _ _ _ => (y, m) end.

Definition spec_dur (d : rd) (o : pydt) (y1 m1 : Z) : Z :=
  let r := rel d in
  let leap := if (2 <? m1) && is_leap y1 then leapdays d else 0 in
  match o with
  | PD _ _ _ => f_days r + leap
  | PDT _ _ _ _ _ _ _ =>
      (f_days r + leap) * us_day + f_hours r * 3600000000 + f_minutes r * 60000000
      + f_seconds r * us_sec + f_us r
  end.

(* spec_add, cut into the same pieces as the model *)
Definition spec_body (d : rd) (o : pydt) : option pydt :=
  let t := 12 * oget (a_year (ab d)) (fst (ym_of o)) + (oget (a_month (ab d)) (snd (ym_of o)) - 1)
           + 12 * f_years (rel d) + f_months (rel d) in
  let base := spec_base d o (t / 12) (t mod 12 + 1) in
  if valid_dt base then
    match at_lin base (lin base + spec_dur d o (t / 12) (t mod 12 + 1)) with
    | None => None
    | Some ret => spec_wd d ret
    end
  else None.

Lemma spec_add_body d o :
  spec_add d o = spec_body d (if carries_time d then promote o else o).
Proof.
  unfold spec_add, spec_body. cbv zeta.
  destruct (if carries_time d then promote o else o) as [y m dd | y m dd hh mi ss us];
  cbn [ym_of fst snd spec_base day_of spec_dur];
  match goal with |- (if negb ?c then _ else _) = _ => destruct c end; reflexivity.
Qed.

Definition add_body (d : rd) (o : pydt) : res pydt :=
  bind (stage_ym d (fst (ym_of o)) (snd (ym_of o))) (fun ym =>
  bind (stage_replace d o (fst ym) (snd ym)) (fun repl =>
  bind (stage_td d (fst ym) (snd ym)) (fun t =>
  bind (dt_add_us repl t) (fun ret => stage_wd d ret)))).

Lemma add_dt_body d o : add_dt d o = add_body d (if has_time d then promote o else o).
Proof.
  unfold add_dt, add_body. cbv zeta.
  destruct (if has_time d then promote o else o); cbn [ym_of fst snd];
  destruct (stage_ym d y m) as [[yy mm]|]; reflexivity.
Qed.

Lemma valid_promote o : valid_dt o = true -> valid_dt (promote o) = true.
Proof. destruct o; cbn; [|auto]. intros ->. reflexivity. Qed.

Lemma valid_month o : valid_dt o = true -> 1 <= snd (ym_of o) <= 12.
Proof.
  destruct o; cbn [valid_dt ym_of snd]; unfold valid_ymd; lia.
Qed.

Lemma no_time_fields d : carries_time d = false ->
  f_hours (rel d) = 0 /\ f_minutes (rel d) = 0 /\ f_seconds (rel d) = 0 /\ f_us (rel d) = 0.
Proof.
  unfold carries_time. intros H. apply orb_false_elim in H. destruct H as [H _].
  apply negb_false_iff in H. lia.
Qed.

Lemma body_spec d o : wf_rd d = true -> valid_dt o = true ->
  (is_datetime o = false -> carries_time d = false) ->
  res_opt (add_body d o) = spec_body d o.
Proof.
  intros W V NT. destruct (wf_rd_inv d W) as (Wn & Wy & Wm & Wd & Ww).
  unfold add_body, spec_body. cbv zeta.
  rewrite stage_ym_ok; [| unfold norm_rel in Wn; lia | exact Wy | exact Wm | apply valid_month; exact V].
  cbn [bind fst snd].
  set (t := 12 * oget (a_year (ab d)) (fst (ym_of o)) + (oget (a_month (ab d)) (snd (ym_of o)) - 1)
            + 12 * f_years (rel d) + f_months (rel d)).
  assert (Hm1 : 1 <= t mod 12 + 1 <= 12) by lia.
  rewrite res_opt_bind, (stage_replace_spec d o (t / 12) (t mod 12 + 1) Hm1 Wd).
  set (base := spec_base d o (t / 12) (t mod 12 + 1)).
  destruct (valid_dt base) eqn:VB; [|reflexivity].
  unfold stage_td. rewrite bind_assoc, res_opt_bind.
  rewrite add_dur by (apply valid_on_line; exact VB).
  set (U := rel_us _).
  assert (EU : match base with PD _ _ _ => U / us_day | PDT _ _ _ _ _ _ _ => U end
               = spec_dur d o (t / 12) (t mod 12 + 1)).
  { unfold U, spec_dur, rel_us, nz. cbn [f_days f_hours f_minutes f_seconds f_us].
    destruct o as [oy om od | oy om od hh mi ss us]; cbn [base spec_base].
    - destruct (no_time_fields d (NT eq_refl)) as (-> & -> & -> & ->).
      destruct (negb (leapdays d =? 0)) eqn:EL; destruct (2 <? t mod 12 + 1); destruct (is_leap (t / 12));
      cbn [andb]; unfold us_day, us_sec; lia.
    - destruct (negb (leapdays d =? 0)) eqn:EL; destruct (2 <? t mod 12 + 1); destruct (is_leap (t / 12));
      cbn [andb]; unfold us_day, us_sec; lia. }
  rewrite EU.
  destruct (at_lin base _) as [ret|] eqn:ER; [|reflexivity].
  apply at_lin_on_line in ER. destruct ER as (L & _ & _).
  apply stage_wd_spec; assumption.
Qed.

Theorem add_dt_spec d o : wf_rd d = true -> valid_dt o = true ->
  res_opt (add_dt d o) = spec_add d o.
Proof.
  intros W V. rewrite add_dt_body, spec_add_body, has_time_carries_time.
  apply body_spec; [exact W | |].
  - destruct (carries_time d); [apply valid_promote|]; exact V.
  - destruct (carries_time d) eqn:E; [|reflexivity].
    destruct o; cbn; discriminate.
Qed.

(* non-vacuity: a delta with a month shift that clips, a time replacement, a carry-sized duration
   and a backwards weekday satisfies the guard, and the theorem's two sides compute to the
   documented value: 2000-01-31 12:00 + (months=+1, hour=23, minutes=+59, days=+1, TU(-2))
   = Feb 29 23:00 -> +1 day 59 min = Mar 1 23:59 (Wed) -> second Tuesday on or before = Feb 22 *)
Definition ex_delta : rd :=
  mkrd (mkrel 0 1 1 0 59 0 0) 0 (mkabs None None None (Some 23) None None None) (Some (1, Some (-2))).
Example add_dt_spec_nonvacuous :
  wf_rd ex_delta = true /\ valid_dt (PDT 2000 1 31 12 0 0 0) = true /\
  add_dt ex_delta (PDT 2000 1 31 12 0 0 0) = Ok (PDT 2000 2 22 23 59 0 0) /\
  spec_add ex_delta (PDT 2000 1 31 12 0 0 0) = Some (PDT 2000 2 22 23 59 0 0).
Proof. vm_compute. repeat split; reflexivity. Qed.

(* the guard is needed: with year=0 the code's [self.year or other.year] keeps the operand's year,
   the documented replacement would produce the invalid year 0 *)
Example add_dt_spec_guard_needed :
  let d := mkrd rel0 0 (mkabs (Some 0) None None None None None None) None in
  wf_rd d = false /\ add_dt d (PD 2000 1 31) = Ok (PD 2000 1 31) /\ spec_add d (PD 2000 1 31) = None.
Proof. vm_compute. repeat split; reflexivity. Qed.

(* ---------------------------------------------------------------- operators *)
Lemma radd_eq_add d o : radd d o = add_dt d o.
Proof. reflexivity. Qed.

Lemma sub_is_add_neg d o : rsub d o = add_dt (neg d) o.
Proof. reflexivity. Qed.

(* ---------------------------------------------------------------- promotion *)
Lemma stage_replace_kind d o y m r : stage_replace d o y m = Ok r -> is_datetime r = is_datetime o.
Proof.
  unfold stage_replace. destruct (negb _); [discriminate|].
  destruct o; destruct (negb _); try discriminate;
  match goal with |- (if ?c then _ else _) = _ -> _ => destruct c end; try discriminate;
  intros H; injection H as <-; reflexivity.
Qed.

Lemma dt_add_us_kind o t r : dt_add_us o t = Ok r -> is_datetime r = is_datetime o.
Proof.
  unfold dt_add_us. destruct o;
  match goal with |- (if ?c then _ else _) = _ -> _ => destruct c end; try discriminate;
  intros H; injection H as <-; [apply is_datetime_date_of_ord | apply is_datetime_dt_of_lin].
Qed.

Lemma bind_ok {A B} (r : res A) (f : A -> res B) b :
  bind r f = Ok b -> exists a, r = Ok a /\ f a = Ok b.
Proof. destruct r; cbn; [eauto | discriminate]. Qed.

Lemma stage_wd_kind d o r : stage_wd d o = Ok r -> is_datetime r = is_datetime o.
Proof.
  unfold stage_wd. destruct (wd d) as [[w n]|].
  - intros H. apply bind_ok in H. destruct H as (t & _ & H). eapply dt_add_us_kind; exact H.
  - intros H; injection H as <-; reflexivity.
Qed.

(* a date operand is promoted to a datetime exactly when the delta carries time information *)
Theorem promotion_iff_has_time d o r : add_dt d o = Ok r ->
  is_datetime r = carries_time d || is_datetime o.
Proof.
  rewrite add_dt_body, has_time_carries_time. unfold add_body. intros H.
  apply bind_ok in H. destruct H as (ym & _ & H).
  apply bind_ok in H. destruct H as (repl & H1 & H).
  apply bind_ok in H. destruct H as (t & _ & H).
  apply bind_ok in H. destruct H as (ret & H2 & H3).
  rewrite (stage_wd_kind _ _ _ H3), (dt_add_us_kind _ _ _ H2), (stage_replace_kind _ _ _ _ _ H1).
  destruct (carries_time d); destruct o; reflexivity.
Qed.
