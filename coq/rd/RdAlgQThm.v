(* Theorems about the rational idealisation of float-valued fields (rd/RdAlgQModel.v). *)
From Coq Require Import ZArith List Bool Lia ZifyBool.
From V Require Import base.Cal gen.RdTables rd.RdBase rd.RdModel rd.RdAlgModel rd.RdAlgSpec
  rd.RdAlgThm rd.RdAlgLaws rd.RdAlgQModel.
Import ListNotations.
Open Scope Z_scope.

Lemma carry_q_total : forall D b n u, 0 < D -> 0 < b ->
  snd (carry_q D b n u) * b + fst (carry_q D b n u) = u * b + n.
Proof.
  intros D b n u HD Hb. unfold carry_q, sgn.
  destruct ((b - 1) * D <? Z.abs n); [| reflexivity].
  assert (0 < b * D) by nia.
  destruct (n <? 0); cbn [fst snd].
  - pose proof (Z.div_mod (n * -1) (b * D) ltac:(lia)). nia.
  - pose proof (Z.div_mod (n * 1) (b * D) ltac:(lia)). nia.
Qed.

Lemma carry_q_bound : forall D b n u, 0 < D -> 0 < b -> Z.abs (fst (carry_q D b n u)) < b * D.
Proof.
  intros D b n u HD Hb. unfold carry_q, sgn.
  assert (0 < b * D) by nia.
  destruct ((b - 1) * D <? Z.abs n) eqn:E; cbn [fst snd]; [| nia].
  destruct (n <? 0); cbn [fst snd].
  - pose proof (Z.mod_pos_bound (n * -1) (b * D) ltac:(lia)). lia.
  - pose proof (Z.mod_pos_bound (n * 1) (b * D) ltac:(lia)). lia.
Qed.

Lemma carry_q_one : forall b n u, carry_q 1 b n u = carry b n u.
Proof.
  intros b n u. unfold carry_q, carry. rewrite !Z.mul_1_r.
  destruct (b - 1 <? Z.abs n); reflexivity.
Qed.

Definition q1 D (r : relf) := carry_q D 1000000 (f_us r) (f_seconds r).
Definition q2 D (r : relf) := carry_q D 60 (snd (q1 D r)) (f_minutes r).
Definition q3 D (r : relf) := carry_q D 60 (snd (q2 D r)) (f_hours r).
Definition q4 D (r : relf) := carry_q D 24 (snd (q3 D r)) (f_days r).

Lemma fix_q_unfold : forall D r,
  fix_q D r = mkrel (snd (c5 r)) (fst (c5 r)) (snd (q4 D r)) (fst (q4 D r)) (fst (q3 D r))
                    (fst (q2 D r)) (fst (q1 D r)).
Proof.
  intros D r. unfold fix_q, c5, q4, q3, q2, q1.
  destruct (carry_q D 1000000 (f_us r) (f_seconds r)) as [us s]. cbn [fst snd].
  destruct (carry_q D 60 s (f_minutes r)) as [s' mi]. cbn [fst snd].
  destruct (carry_q D 60 mi (f_hours r)) as [mi' h]. cbn [fst snd].
  destruct (carry_q D 24 h (f_days r)) as [h' d]. cbn [fst snd].
  destruct (carry 12 (f_months r) (f_years r)) as [mo y]. reflexivity.
Qed.

(* float-valued fields are normalised by _fix as well: |value| < base, i.e. |numerator| < base*D *)
Theorem fix_q_normalised : forall D r, 0 < D ->
  Z.abs (f_months (fix_q D r)) < 12 /\ Z.abs (f_hours (fix_q D r)) < 24 * D /\
  Z.abs (f_minutes (fix_q D r)) < 60 * D /\ Z.abs (f_seconds (fix_q D r)) < 60 * D /\
  Z.abs (f_us (fix_q D r)) < 1000000 * D.
Proof.
  intros D r HD. rewrite fix_q_unfold. cbn [f_months f_hours f_minutes f_seconds f_us].
  unfold c5, q4, q3, q2, q1.
  repeat split; first [apply carry_bound; lia | apply carry_q_bound; lia].
Qed.

(* ... with the total (numerator of the duration in microseconds, and months) preserved *)
Theorem fix_q_total : forall D r, 0 < D ->
  rel_us (fix_q D r) = rel_us r /\ rel_months (fix_q D r) = rel_months r.
Proof.
  intros D r HD. rewrite fix_q_unfold. unfold rel_us, rel_months, us_sec.
  cbn [f_years f_months f_days f_hours f_minutes f_seconds f_us].
  pose proof (carry_q_total D 1000000 (f_us r) (f_seconds r) HD ltac:(lia)) as H1.
  pose proof (carry_q_total D 60 (snd (q1 D r)) (f_minutes r) HD ltac:(lia)) as H2.
  pose proof (carry_q_total D 60 (snd (q2 D r)) (f_hours r) HD ltac:(lia)) as H3.
  pose proof (carry_q_total D 24 (snd (q3 D r)) (f_days r) HD ltac:(lia)) as H4.
  pose proof (carry_total 12 (f_months r) (f_years r) ltac:(lia)) as H5.
  fold (q1 D r) in H1. fold (q2 D r) in H2. fold (q3 D r) in H3. fold (q4 D r) in H4. fold (c5 r) in H5.
  split; lia.
Qed.

(* with denominator 1 the rational model IS the integer model *)
Theorem fix_q_one : forall r, fix_q 1 r = fix_rel r.
Proof.
  intro r. unfold fix_q, fix_rel. rewrite carry_q_one.
  destruct (carry 1000000 (f_us r) (f_seconds r)) as [us s]. rewrite carry_q_one.
  destruct (carry 60 s (f_minutes r)) as [s' mi]. rewrite carry_q_one.
  destruct (carry 60 mi (f_hours r)) as [mi' h]. rewrite carry_q_one. reflexivity.
Qed.

Lemma round_half_even_spec : forall n D, 0 < D -> 2 * Z.abs (round_half_even n D * D - n) <= D.
Proof.
  intros n D HD. unfold round_half_even.
  pose proof (Z.div_mod n D ltac:(lia)). pose proof (Z.mod_pos_bound n D HD).
  destruct (2 * (n mod D) <? D) eqn:E1; [nia |].
  destruct (D <? 2 * (n mod D)) eqn:E2; [nia |].
  destruct (Z.even (n / D)); nia.
Qed.

Lemma round_half_even_exact : forall k D, 0 < D -> round_half_even (k * D) D = k.
Proof.
  intros k D HD. unfold round_half_even. rewrite Z.div_mul, Z.mod_mul by lia.
  destruct (2 * 0 <? D) eqn:E; [reflexivity | lia].
Qed.

Theorem normalized_q_wf : forall D d, wf (normalized_q D d).
Proof. intros. apply build_wf. Qed.

(* normalized() preserves the total duration up to the final rounding to a whole microsecond
   (half a microsecond at most), and the months exactly *)
Theorem normalized_q_total : forall D d, 0 < D ->
  2 * Z.abs (rel_us (rel (normalized_q D d)) * D - rel_us (rel d)) <= D /\
  rel_months (rel (normalized_q D d)) = rel_months (rel d).
Proof.
  intros D d HD. unfold normalized_q, build, fix_rd. cbn [rel].
  match goal with |- context [fix_rel ?r] => destruct (fix_total r) as [T1 T2]; rewrite T1, T2 end.
  destruct (rel d) as [y mo nd nh nmi ns nus].
  cbn [f_years f_months f_days f_hours f_minutes f_seconds f_us].
  set (days := Z.quot nd D).
  set (hours_f := nh + 24 * (nd - days * D)).
  set (hours := Z.quot hours_f D).
  set (minutes_f := nmi + 60 * (hours_f - hours * D)).
  set (minutes := Z.quot minutes_f D).
  set (seconds_f := ns + 60 * (minutes_f - minutes * D)).
  set (seconds := Z.quot seconds_f D).
  set (x := nus + 1000000 * (seconds_f - seconds * D)).
  pose proof (round_half_even_spec x D HD) as R.
  unfold rel_us, rel_months, us_sec. cbn [f_years f_months f_days f_hours f_minutes f_seconds f_us].
  split; [| reflexivity].
  assert (E : ((((days * 24 + hours) * 60 + minutes) * 60 + seconds) * 1000000 + round_half_even x D) * D
              - ((((nd * 24 + nh) * 60 + nmi) * 60 + ns) * 1000000 + nus)
              = round_half_even x D * D - x).
  { unfold x, seconds_f, minutes_f, hours_f. ring. }
  rewrite E. exact R.
Qed.

(* the result of normalized() has integer fields by construction (it is a delta of the integer
   model); on integer-valued input (every numerator a multiple of D) nothing is rounded *)
Theorem normalized_q_integral : forall D d, 0 < D ->
  normalized_q D (mkrd (scale_rel D (rel d)) (leapdays d) (ab d) (wd d)) = normalized d.
Proof.
  intros D [[y mo dd h mi s us] l a w] HD. unfold normalized_q, normalized, scale_rel.
  cbn [rel leapdays ab wd f_years f_months f_days f_hours f_minutes f_seconds f_us].
  rewrite (Z.quot_mul dd D) by lia.
  replace (h * D + 24 * (dd * D - dd * D)) with (h * D) by lia. rewrite (Z.quot_mul h D) by lia.
  replace (mi * D + 60 * (h * D - h * D)) with (mi * D) by lia. rewrite (Z.quot_mul mi D) by lia.
  replace (s * D + 60 * (mi * D - mi * D)) with (s * D) by lia. rewrite (Z.quot_mul s D) by lia.
  replace (us * D + 1000000 * (s * D - s * D)) with (us * D) by lia.
  rewrite round_half_even_exact by lia. reflexivity.
Qed.

(* relativedelta(days=1.5, hours=2).normalized() = relativedelta(days=+1, hours=+14)  (docstring) *)
Example ex_normalized_q :
  normalized_q 2 (ctor_q 2 (mkrd (mkrel 0 0 3 4 0 0 0) 0 abs0 None)) = mkrd (mkrel 0 0 1 14 0 0 0) 0 abs0 None.
Proof. vm_compute. reflexivity. Qed.

(* rounding really happens: seconds = 1/8 us-units ... 0.0000005 s = half a microsecond, ties to even *)
Example ex_round : round_half_even 1 2 = 0 /\ round_half_even 3 2 = 2 /\ round_half_even (-1) 2 = 0
  /\ round_half_even 5 4 = 1 /\ round_half_even 7 4 = 2.
Proof. repeat split. Qed.

Theorem normalized_q_laws : forall D d, 0 < D ->
  wf (normalized_q D d) /\
  2 * Z.abs (rel_us (rel (normalized_q D d)) * D - rel_us (rel d)) <= D /\
  rel_months (rel (normalized_q D d)) = rel_months (rel d).
Proof. intros D d H. split; [apply normalized_q_wf | apply normalized_q_total; exact H]. Qed.
