(* Executable SPECIFICATIONS for C03 / C09 / C16, written from the documented behaviour
   (class docstring of relativedelta + the property statements), independently of the
   algorithm in relativedelta.py:
     - the month shift is total-month arithmetic (one divmod), not year/month fields + carry;
     - the duration is one number of microseconds on the time line, no timedelta object;
     - the weekday step is defined by COUNTING days, not by a [% 7] formula;
     - the difference of two datetimes is characterised by what it must satisfy, not computed.
   No proofs in this file. *)
From Coq Require Import ZArith List Bool.
From V Require Import base.Cal rd.RdBase.
Import ListNotations.
Open Scope Z_scope.

Definition oget (a : option Z) (b : Z) : Z := match a with Some v => v | None => b end.

(* "the delta carries time information" *)
Definition carries_time (d : rd) : bool :=
  let r := rel d in let a := ab d in
  negb ((f_hours r =? 0) && (f_minutes r =? 0) && (f_seconds r =? 0) && (f_us r =? 0))
  || negb (match a_hour a, a_minute a, a_second a, a_us a with
           | None, None, None, None => true | _, _, _, _ => false end).

(* ---- step 4: the n-th day of weekday w, counting from day o in direction step (+1 / -1),
   o itself included.  Pure counting; [fuel] bounds the walk. *)
Fixpoint walk (fuel : nat) (step o w k : Z) : option Z :=
  match fuel with
  | O => None
  | S f =>
      if weekday_of_ord o =? w
      then (if k <=? 1 then Some o else walk f step (o + step) w (k - 1))
      else walk f step (o + step) w k
  end.

(* n > 0: n-th such weekday on or after o;  n < 0: |n|-th on or before o *)
Definition nth_weekday (o w n : Z) : option Z :=
  if 0 <? n then walk (Z.to_nat (7 * n)) 1 o w n
  else walk (Z.to_nat (7 * - n)) (-1) o w (- n).

(* weekday n: absent or 0 is the same as +1 *)
Definition eff_n (n : option Z) : Z :=
  match n with Some v => if v =? 0 then 1 else v | None => 1 end.

(* move a value by whole days / by microseconds along the time line; None outside
   0001-01-01 .. 9999-12-31 *)
Definition at_lin (like : pydt) (l : Z) : option pydt :=
  match like with
  | PD _ _ _ => if (1 <=? l) && (l <=? max_ord) then Some (date_of_ord l) else None
  | PDT _ _ _ _ _ _ _ => if (0 <=? l) && (l <? lin_max_dt) then Some (dt_of_lin l) else None
  end.

Definition day_unit (like : pydt) : Z :=
  match like with PD _ _ _ => 1 | PDT _ _ _ _ _ _ _ => us_day end.

Definition spec_add (d : rd) (o : pydt) : option pydt :=
  let o := if carries_time d then promote o else o in
  let r := rel d in let a := ab d in
  let '(oy, om, od) := match o with PD y m dd => (y, m, dd) | PDT y m dd _ _ _ _ => (y, m, dd) end in
  (* 1. absolute fields replace *)
  let y0 := oget (a_year a) oy in
  let m0 := oget (a_month a) om in
  let d0 := oget (a_day a) od in
  (* 2. shift by whole months, clip the day to the target month *)
  let t := 12 * y0 + (m0 - 1) + 12 * f_years r + f_months r in
  let y1 := t / 12 in
  let m1 := t mod 12 + 1 in
  let d1 := Z.min d0 (dim y1 m1) in
  let base :=
    match o with
    | PD _ _ _ => PD y1 m1 d1
    | PDT _ _ _ hh mi ss us =>
        PDT y1 m1 d1 (oget (a_hour a) hh) (oget (a_minute a) mi) (oget (a_second a) ss) (oget (a_us a) us)
    end in
  if negb (valid_dt base) then None
  else
    (* 3. the remaining relative fields (+ leapdays after February of a leap year) are one
          exact duration *)
    let leap := if (2 <? m1) && is_leap y1 then leapdays d else 0 in
    let dur :=
      match o with
      | PD _ _ _ => f_days r + leap         (* a date that is not promoted: whole days *)
      | PDT _ _ _ _ _ _ _ =>
          (f_days r + leap) * us_day + f_hours r * 3600000000 + f_minutes r * 60000000
          + f_seconds r * us_sec + f_us r
      end in
    match at_lin base (lin base + dur) with
    | None => None
    | Some ret =>
        (* 4. weekday *)
        match wd d with
        | None => Some ret
        | Some (w, n) =>
            match nth_weekday (ord_of ret) w (eff_n n) with
            | None => None
            | Some target => at_lin ret (lin ret + (target - ord_of ret) * day_unit ret)
            end
        end
    end.

(* guard of the C03 theorem: the delta is normalised (as every constructed delta is), absolute
   year/month/day are not 0 (the code's [self.year or other.year] treats 0 as absent; the
   documented replacement would make the date invalid), absolute month is a month, the weekday
   is one of MO..SU *)
Definition norm_rel (r : relf) : bool :=
  (Z.abs (f_months r) <=? 11) && (Z.abs (f_hours r) <=? 23) && (Z.abs (f_minutes r) <=? 59) &&
  (Z.abs (f_seconds r) <=? 59) && (Z.abs (f_us r) <=? 999999).

Definition opt_ok (p : Z -> bool) (a : option Z) : bool :=
  match a with Some v => p v | None => true end.

Definition wf_rd (d : rd) : bool :=
  norm_rel (rel d) &&
  opt_ok (fun v => negb (v =? 0)) (a_year (ab d)) &&
  opt_ok (fun v => (1 <=? v) && (v <=? 12)) (a_month (ab d)) &&
  opt_ok (fun v => negb (v =? 0)) (a_day (ab d)) &&
  match wd d with Some (w, _) => (0 <=? w) && (w <=? 6) | None => true end.

(* ---------------------------------------------------------------- C09 *)
(* shift by k whole months with clipping = steps 1-2 of spec_add for a months-only delta *)
Definition month_shift (o : pydt) (k : Z) : option pydt :=
  spec_add (mkrd (mkrel 0 k 0 0 0 0 0) 0 abs0 None) o.

Definition coerce_pair (dt1 dt2 : pydt) : pydt * pydt :=
  if Bool.eqb (is_datetime dt1) (is_datetime dt2) then (dt1, dt2) else (promote dt1, promote dt2).

Definition only_relative (d : rd) : bool :=
  (leapdays d =? 0) &&
  match wd d with None => true | Some _ => false end &&
  match a_year (ab d), a_month (ab d), a_day (ab d), a_hour (ab d), a_minute (ab d),
        a_second (ab d), a_us (ab d) with
  | None, None, None, None, None, None, None => true
  | _, _, _, _, _, _, _ => false
  end.

(* |months| < 12, |hours| < 24, |minutes| < 60, |seconds| < 60, |microseconds| < 10^6 *)
Definition diff_normalised_b (d : rd) : bool := norm_rel (rel d).

Definition pydt_eqb (a b : pydt) : bool :=
  match a, b with
  | PD y m d, PD y' m' d' => (y =? y') && (m =? m') && (d =? d')
  | PDT y m d hh mi ss us, PDT y' m' d' hh' mi' ss' us' =>
      (y =? y') && (m =? m') && (d =? d') && (hh =? hh') && (mi =? mi') && (ss =? ss') && (us =? us')
  | _, _ => false
  end.

(* the years/months part is the largest whole-month shift of dt2 that does not pass dt1 *)
Definition months_maximal (dt1 dt2 : pydt) (d : rd) : bool :=
  let m := rel_months (rel d) in
  (0 <=? f_years (rel d) * f_months (rel d)) &&
  if lin dt2 <=? lin dt1 then
    (0 <=? m) &&
    match month_shift dt2 m with Some x => lin x <=? lin dt1 | None => false end &&
    match month_shift dt2 (m + 1) with Some x => lin dt1 <? lin x | None => true end
  else
    (m <=? 0) &&
    match month_shift dt2 m with Some x => lin dt1 <=? lin x | None => false end &&
    match month_shift dt2 (m - 1) with Some x => lin x <? lin dt1 | None => true end.

Definition diff_ok (dt1 dt2 : pydt) (d : rd) : bool :=
  let '(c1, c2) := coerce_pair dt1 dt2 in
  only_relative d && diff_normalised_b d &&
  match spec_add d c2 with Some x => pydt_eqb x c1 | None => false end &&
  months_maximal c1 c2 d.

(* ---------------------------------------------------------------- C16 *)
(* "no field set" *)
Definition rd_empty (d : rd) : bool :=
  let r := rel d in
  (f_years r =? 0) && (f_months r =? 0) && (f_days r =? 0) && (f_hours r =? 0) &&
  (f_minutes r =? 0) && (f_seconds r =? 0) && (f_us r =? 0) && (leapdays d =? 0) &&
  only_relative d.

Definition no_relative (d : rd) : bool :=
  let r := rel d in
  (f_years r =? 0) && (f_months r =? 0) && (f_days r =? 0) && (f_hours r =? 0) &&
  (f_minutes r =? 0) && (f_seconds r =? 0) && (f_us r =? 0).

(* ---------------------------------------------------------------- yearday / nlyearday (C03) *)
(* yearday = N: the N-th day of the year the result falls in *)
Definition spec_yearday_date (y n : Z) : option (Z * Z * Z) :=
  if (1 <=? n) && (n <=? year_len y) then Some (ymd_of_ord (ord_of_ymd y 1 1 + n - 1)) else None.

(* nlyearday = N: month and day that day N has in a non-leap year ("jump leap days") *)
Definition spec_nlyearday_date (y n : Z) : option (Z * Z * Z) :=
  if (1 <=? n) && (n <=? 365) then
    let m := month_of_yday 2001 n in Some (y, m, n - dbm 2001 m)
  else None.

(* ---------------------------------------------------------------- C03 from raw keyword values *)
(* The documented result computed from field values that need NOT be normalised (the raw keyword
   arguments of the constructor, weeks already folded into days): years/months count as one number
   of months, the remaining relative fields as one number of microseconds; the delta "carries time
   information" when that duration is not a whole number of days or an absolute time field is
   given.  (For a normalised delta this coincides with spec_add: theorem spec_add_raw_norm.) *)
Definition sub_day_us (r : relf) : Z :=
  f_hours r * 3600000000 + f_minutes r * 60000000 + f_seconds r * us_sec + f_us r.

Definition carries_time_total (d : rd) : bool :=
  let a := ab d in
  negb (sub_day_us (rel d) mod us_day =? 0)
  || negb (match a_hour a, a_minute a, a_second a, a_us a with
           | None, None, None, None => true | _, _, _, _ => false end).

Definition spec_add_raw (d : rd) (o : pydt) : option pydt :=
  let o := if carries_time_total d then promote o else o in
  let r := rel d in let a := ab d in
  let '(oy, om, od) := match o with PD y m dd => (y, m, dd) | PDT y m dd _ _ _ _ => (y, m, dd) end in
  let y0 := oget (a_year a) oy in
  let m0 := oget (a_month a) om in
  let d0 := oget (a_day a) od in
  let t := 12 * y0 + (m0 - 1) + 12 * f_years r + f_months r in
  let y1 := t / 12 in
  let m1 := t mod 12 + 1 in
  let d1 := Z.min d0 (dim y1 m1) in
  let base :=
    match o with
    | PD _ _ _ => PD y1 m1 d1
    | PDT _ _ _ hh mi ss us =>
        PDT y1 m1 d1 (oget (a_hour a) hh) (oget (a_minute a) mi) (oget (a_second a) ss) (oget (a_us a) us)
    end in
  if negb (valid_dt base) then None
  else
    let leap := if (2 <? m1) && is_leap y1 then leapdays d else 0 in
    let total := (f_days r + leap) * us_day + sub_day_us r in
    let dur := match o with PD _ _ _ => total / us_day | PDT _ _ _ _ _ _ _ => total end in
    match at_lin base (lin base + dur) with
    | None => None
    | Some ret =>
        match wd d with
        | None => Some ret
        | Some (w, n) =>
            match nth_weekday (ord_of ret) w (eff_n n) with
            | None => None
            | Some target => at_lin ret (lin ret + (target - ord_of ret) * day_unit ret)
            end
        end
    end.
