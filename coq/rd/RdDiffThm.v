(* Theorems for C09: relativedelta(dt1, dt2) (RdModel.mk_diff) carries dt2 onto dt1. *)
From Coq Require Import ZArith List Bool Lia ZifyBool.
From V Require Import base.Cal gen.RdTables rd.RdBase rd.RdModel rd.RdSpec rd.RdAddThm.
Import ListNotations.
Open Scope Z_scope.
Ltac Zify.zify_post_hook ::= Z.to_euclidean_division_equations.

(* ---------------------------------------------------------------- the time line is faithful *)
Lemma date_of_ord_lin y m d : valid_ymd y m d = true -> date_of_ord (ord_of_ymd y m d) = PD y m d.
Proof.
  intros V. unfold date_of_ord. rewrite ymd_of_ord_of_ymd; [reflexivity | |]; unfold valid_ymd in V; lia.
Qed.

Lemma dt_of_lin_lin y m d hh mi ss us : valid_dt (PDT y m d hh mi ss us) = true ->
  dt_of_lin (lin (PDT y m d hh mi ss us)) = PDT y m d hh mi ss us.
Proof.
  cbn [valid_dt]. intros V. apply andb_prop in V. destruct V as [V1 V2].
  pose proof (tod_range _ _ _ _ V2) as T. unfold dt_of_lin. cbn [lin].
  set (t := tod hh mi ss us) in *.
  replace (((ord_of_ymd y m d - 1) * us_day + t) / us_day + 1) with (ord_of_ymd y m d)
    by (unfold us_day in *; lia).
  replace (((ord_of_ymd y m d - 1) * us_day + t) mod us_day) with t by (unfold us_day in *; lia).
  rewrite ymd_of_ord_of_ymd by (unfold valid_ymd in V1; lia).
  unfold valid_time in V2. unfold t, tod, us_sec. f_equal; lia.
Qed.

Lemma at_lin_self b : valid_dt b = true -> at_lin b (lin b) = Some b.
Proof.
  intros V. pose proof (valid_on_line b V) as L. unfold at_lin, on_line in *.
  destruct b as [y m d | y m d hh mi ss us].
  - destruct (_ && _) eqn:E; [|exfalso; lia]. f_equal. apply date_of_ord_lin. exact V.
  - destruct (_ && _) eqn:E; [|exfalso; lia]. f_equal. apply dt_of_lin_lin. exact V.
Qed.

Lemma at_lin_to like b : valid_dt b = true -> is_datetime b = is_datetime like ->
  at_lin like (lin b) = Some b.
Proof.
  intros V K. rewrite <- (at_lin_self b V). destruct like, b; try discriminate; reflexivity.
Qed.

(* ---------------------------------------------------------------- month index and shifts *)
Definition mi (o : pydt) : Z := 12 * fst (ym_of o) + (snd (ym_of o) - 1).

(* o moved by k whole months, day clipped, time of day kept *)
Definition shifted (o : pydt) (k : Z) : pydt :=
  spec_base rd0 o ((mi o + k) / 12) ((mi o + k) mod 12 + 1).

Lemma shifted_kind o k : is_datetime (shifted o k) = is_datetime o.
Proof. destruct o; reflexivity. Qed.

Lemma mi_shifted o k : mi (shifted o k) = mi o + k.
Proof. destruct o; unfold shifted, mi; cbn [spec_base ym_of fst snd]; lia. Qed.

Lemma shifted_valid o k : valid_dt o = true -> 1 <= (mi o + k) / 12 <= 9999 ->
  valid_dt (shifted o k) = true.
Proof.
  intros V Hy. unfold shifted. set (y1 := (mi o + k) / 12) in *. set (m1 := (mi o + k) mod 12 + 1).
  assert (Hm : 1 <= m1 <= 12) by (unfold m1; lia). pose proof (dim_pos y1 m1).
  destruct o as [y m d | y m d hh mi0 ss us]; cbn [spec_base rd0 ab a_day a_hour a_minute a_second a_us abs0 oget day_of valid_dt] in *.
  - unfold valid_ymd in *. lia.
  - apply andb_prop in V. destruct V as [V1 V2]. rewrite V2. unfold valid_ymd in *. lia.
Qed.

Lemma shifted_valid_year o k : valid_dt (shifted o k) = true -> 1 <= (mi o + k) / 12 <= 9999.
Proof.
  destruct o; unfold shifted; cbn [spec_base valid_dt]; unfold valid_ymd; lia.
Qed.

Lemma shifted_0 o : valid_dt o = true -> shifted o 0 = o.
Proof.
  intros V. destruct o as [y m d | y m d hh mi0 ss us]; unfold shifted, mi;
  cbn [spec_base rd0 ab a_day a_hour a_minute a_second a_us abs0 oget day_of ym_of fst snd valid_dt] in *.
  - unfold valid_ymd in V.
    replace ((12 * y + (m - 1) + 0) / 12) with y by lia.
    replace ((12 * y + (m - 1) + 0) mod 12 + 1) with m by lia. f_equal. lia.
  - apply andb_prop in V. destruct V as [V _]. unfold valid_ymd in V.
    replace ((12 * y + (m - 1) + 0) / 12) with y by lia.
    replace ((12 * y + (m - 1) + 0) mod 12 + 1) with m by lia. f_equal. lia.
Qed.

(* dates of a later month are later *)
Lemma ord_month_mono y m d y' m' d' :
  1 <= m <= 12 -> 1 <= d <= dim y m -> 1 <= m' <= 12 -> 1 <= d' ->
  12 * y + m < 12 * y' + m' -> ord_of_ymd y m d < ord_of_ymd y' m' d'.
Proof.
  intros Hm Hd Hm' Hd' H. unfold ord_of_ymd.
  pose proof (dbm_succ y m Hm) as S.
  destruct (Z.eq_dec y y') as [->|Ny].
  - pose proof (dbm_mono y' (m + 1) m'). lia.
  - assert (Hy : y < y') by lia.
    pose proof (days_before_year_mono (y + 1) y' ltac:(lia)) as M.
    rewrite days_before_year_succ in M.
    pose proof (dbm_mono y (m + 1) 13 ltac:(lia) ltac:(lia) ltac:(lia)) as M2. rewrite dbm_13 in M2.
    pose proof (dbm_mono y' 1 m' ltac:(lia) ltac:(lia) ltac:(lia)) as M3. rewrite dbm_1 in M3.
    lia.
Qed.

Lemma lin_mi_mono a b : valid_dt a = true -> valid_dt b = true -> is_datetime a = is_datetime b ->
  mi a < mi b -> lin a < lin b.
Proof.
  intros Va Vb K H.
  destruct a as [y m d | y m d hh mi0 ss us]; destruct b as [y' m' d' | y' m' d' hh' mi' ss' us'];
  try discriminate; unfold mi in H; cbn [ym_of fst snd valid_dt lin] in *.
  - unfold valid_ymd in *. apply ord_month_mono; lia.
  - apply andb_prop in Va. destruct Va as [Va Ta]. apply andb_prop in Vb. destruct Vb as [Vb Tb].
    pose proof (tod_range _ _ _ _ Ta). pose proof (tod_range _ _ _ _ Tb).
    assert (ord_of_ymd y m d < ord_of_ymd y' m' d') by (unfold valid_ymd in *; apply ord_month_mono; lia).
    unfold us_day in *. lia.
Qed.

Lemma valid_mi_year o : valid_dt o = true -> 1 <= mi o / 12 <= 9999 /\ 12 <= mi o <= 12 * 9999 + 11.
Proof.
  destruct o; unfold mi; cbn [valid_dt ym_of fst snd]; unfold valid_ymd; lia.
Qed.

(* ---------------------------------------------------------------- _set_months *)
Lemma set_months_shape k : exists y mo,
  set_months rd0 k = mkrd (mkrel y mo 0 0 0 0 0) 0 abs0 None /\
  12 * y + mo = k /\ Z.abs mo <= 11 /\ 0 <= y * mo.
Proof.
  unfold set_months, rd0, rel0, sgn. cbn [rel f_days f_hours f_minutes f_seconds f_us leapdays ab wd].
  destruct (11 <? Z.abs k) eqn:E.
  - destruct (k <? 0) eqn:S; eexists; eexists; (split; [reflexivity|]); split; try lia; split; try lia; nia.
  - exists 0, k. split; [reflexivity|]. lia.
Qed.

(* the documented result of adding a months-only delta: the shifted value, if it exists *)
Lemma spec_add_months y mo o : valid_dt o = true ->
  spec_add (mkrd (mkrel y mo 0 0 0 0 0) 0 abs0 None) o =
  if valid_dt (shifted o (12 * y + mo)) then Some (shifted o (12 * y + mo)) else None.
Proof.
  intros V. rewrite spec_add_body.
  change (carries_time (mkrd (mkrel y mo 0 0 0 0 0) 0 abs0 None)) with false. cbv iota.
  unfold spec_body. cbv zeta.
  cbn [rel ab wd leapdays f_years f_months a_year a_month abs0 oget].
  replace (12 * fst (ym_of o) + (snd (ym_of o) - 1) + 12 * y + mo) with (mi o + (12 * y + mo))
    by (unfold mi; lia).
  set (k := 12 * y + mo).
  change (spec_base (mkrd (mkrel y mo 0 0 0 0 0) 0 abs0 None) o ((mi o + k) / 12) ((mi o + k) mod 12 + 1))
    with (shifted o k).
  destruct (valid_dt (shifted o k)) eqn:VS; [|reflexivity].
  assert (D0 : spec_dur (mkrd (mkrel y mo 0 0 0 0 0) 0 abs0 None) o ((mi o + k) / 12) ((mi o + k) mod 12 + 1) = 0).
  { unfold spec_dur. cbn [rel leapdays f_days f_hours f_minutes f_seconds f_us].
    destruct ((2 <? _) && _); destruct o; lia. }
  rewrite D0, Z.add_0_r, (at_lin_self _ VS). reflexivity.
Qed.

Lemma month_shift_shifted o k : valid_dt o = true ->
  month_shift o k = if valid_dt (shifted o k) then Some (shifted o k) else None.
Proof. intros V. unfold month_shift. rewrite spec_add_months by exact V. reflexivity. Qed.

Lemma wf_months y mo : Z.abs mo <= 11 -> wf_rd (mkrd (mkrel y mo 0 0 0 0 0) 0 abs0 None) = true.
Proof. intros H. unfold wf_rd, norm_rel. cbn. lia. Qed.

(* the model's months-only addition ( self.__radd__(dt2) inside the constructor ) *)
Lemma add_set_months k o : valid_dt o = true ->
  res_opt (add_dt (set_months rd0 k) o) =
  if valid_dt (shifted o k) then Some (shifted o k) else None.
Proof.
  intros V. destruct (set_months_shape k) as (y & mo & -> & Hk & Hmo & _).
  rewrite add_dt_spec by (try apply wf_months; assumption).
  rewrite spec_add_months by exact V. rewrite Hk. reflexivity.
Qed.

Lemma res_opt_some {A} (r : res A) a : res_opt r = Some a -> r = Ok a.
Proof. destruct r; cbn; congruence. Qed.

(* ---------------------------------------------------------------- _fix *)
Lemma carry_spec base v up v' up' :
  base = 1000000 \/ base = 60 \/ base = 24 \/ base = 12 ->
  carry base v up = (v', up') ->
  Z.abs v' <= base - 1 /\ v' + base * up' = v + base * up.
Proof.
  intros B. unfold carry, sgn.
  destruct B as [ -> | [ -> | [ -> | -> ] ] ];
  (destruct (_ <? Z.abs v) eqn:E; [destruct (v <? 0) eqn:S|]; intros H; injection H as <- <-; lia).
Qed.

Lemma carry_id base v up : Z.abs v <= base - 1 -> carry base v up = (v, up).
Proof. intros H. unfold carry. destruct (base - 1 <? Z.abs v) eqn:E; [lia|reflexivity]. Qed.

Lemma fix_rel_spec r :
  norm_rel (fix_rel r) = true /\ rel_us (fix_rel r) = rel_us r /\
  rel_months (fix_rel r) = rel_months r /\
  (Z.abs (f_months r) <= 11 -> f_years (fix_rel r) = f_years r /\ f_months (fix_rel r) = f_months r).
Proof.
  unfold fix_rel.
  destruct (carry 1000000 (f_us r) (f_seconds r)) as [us s] eqn:C1.
  destruct (carry 60 s (f_minutes r)) as [s' mi] eqn:C2.
  destruct (carry 60 mi (f_hours r)) as [mi' h] eqn:C3.
  destruct (carry 24 h (f_days r)) as [h' d] eqn:C4.
  destruct (carry 12 (f_months r) (f_years r)) as [mo y] eqn:C5.
  apply carry_spec in C1; [|auto]. apply carry_spec in C2; [|auto]. apply carry_spec in C3; [|auto].
  apply carry_spec in C4; [|auto].
  split; [|split; [|split]].
  - apply carry_spec in C5; [|auto 6]. unfold norm_rel. cbn [f_months f_hours f_minutes f_seconds f_us]. lia.
  - unfold rel_us, us_sec. cbn [f_days f_hours f_minutes f_seconds f_us]. lia.
  - apply carry_spec in C5; [|auto 6]. unfold rel_months. cbn [f_years f_months]. lia.
  - intros H. rewrite carry_id in C5 by lia. injection C5 as <- <-. split; reflexivity.
Qed.

(* the residual of two DATES is a whole number of days: every carry is exact *)
Lemma fix_days_only y mo delta : Z.abs mo <= 11 ->
  fix_rel (mkrel y mo 0 0 0 (delta * 86400) 0) = mkrel y mo delta 0 0 0 0.
Proof.
  intros H. unfold fix_rel. cbn [f_years f_months f_days f_hours f_minutes f_seconds f_us].
  assert (C1 : carry 1000000 0 (delta * 86400) = (0, delta * 86400)) by reflexivity.
  assert (C2 : carry 60 (delta * 86400) 0 = (0, delta * 1440)).
  { unfold carry, sgn. destruct (_ <? Z.abs _) eqn:E; [destruct (_ <? 0) eqn:S|]; f_equal; lia. }
  assert (C3 : carry 60 (delta * 1440) 0 = (0, delta * 24)).
  { unfold carry, sgn. destruct (_ <? Z.abs _) eqn:E; [destruct (_ <? 0) eqn:S|]; f_equal; lia. }
  assert (C4 : carry 24 (delta * 24) 0 = (0, delta)).
  { unfold carry, sgn. destruct (_ <? Z.abs _) eqn:E; [destruct (_ <? 0) eqn:S|]; f_equal; lia. }
  rewrite C1, C2, C3, C4, carry_id by lia. reflexivity.
Qed.

(* ---------------------------------------------------------------- adding the difference back *)
Lemma spec_add_final r c2 c1 months :
  valid_dt c1 = true -> valid_dt c2 = true -> is_datetime c1 = is_datetime c2 ->
  12 * f_years r + f_months r = months -> valid_dt (shifted c2 months) = true ->
  match c2 with
  | PD _ _ _ => f_hours r = 0 /\ f_minutes r = 0 /\ f_seconds r = 0 /\ f_us r = 0 /\
                f_days r = lin c1 - lin (shifted c2 months)
  | PDT _ _ _ _ _ _ _ => rel_us r = lin c1 - lin (shifted c2 months)
  end ->
  spec_add (mkrd r 0 abs0 None) c2 = Some c1.
Proof.
  intros V1 V2 K Hm VS HR. rewrite spec_add_body.
  assert (EP : (if carries_time (mkrd r 0 abs0 None) then promote c2 else c2) = c2).
  { destruct c2; [|destruct (carries_time _); reflexivity].
    destruct HR as (H1 & H2 & H3 & H4 & _). unfold carries_time. cbn [rel ab abs0 a_hour a_minute a_second a_us].
    rewrite H1, H2, H3, H4. reflexivity. }
  rewrite EP. unfold spec_body. cbv zeta.
  cbn [rel ab wd leapdays a_year a_month abs0 oget].
  replace (12 * fst (ym_of c2) + (snd (ym_of c2) - 1) + 12 * f_years r + f_months r) with (mi c2 + months)
    by (unfold mi; lia).
  change (spec_base (mkrd r 0 abs0 None) c2 ((mi c2 + months) / 12) ((mi c2 + months) mod 12 + 1))
    with (shifted c2 months).
  rewrite VS.
  assert (ED : lin (shifted c2 months) +
               spec_dur (mkrd r 0 abs0 None) c2 ((mi c2 + months) / 12) ((mi c2 + months) mod 12 + 1) = lin c1).
  { unfold spec_dur. cbn [rel leapdays]. destruct ((2 <? _) && _);
    (destruct c2; [destruct HR as (H1 & H2 & H3 & H4 & H5); lia |
                   unfold rel_us, us_day, us_sec in *; lia]). }
  rewrite ED, (at_lin_to _ c1 V1) by (rewrite shifted_kind; exact K).
  reflexivity.
Qed.

(* ---------------------------------------------------------------- the overshoot loop *)
Lemma diff_loop_S f lt c1 c2 months dtm :
  diff_loop (S f) lt c1 c2 months dtm =
  if (if lt then lin dtm <? lin c1 else lin c1 <? lin dtm) then
    bind (add_dt (set_months rd0 (months + (if lt then 1 else -1))) c2)
         (fun dtm' => diff_loop f lt c1 c2 (months + (if lt then 1 else -1)) dtm')
  else Ok (months, dtm).
Proof. reflexivity. Qed.

Lemma add_set_months_ok k o : valid_dt o = true -> valid_dt (shifted o k) = true ->
  add_dt (set_months rd0 k) o = Ok (shifted o k).
Proof.
  intros V VS. apply res_opt_some. rewrite add_set_months by exact V. rewrite VS. reflexivity.
Qed.

(* one correction always suffices: the loop ends within the fuel, at the month count that is
   maximal in the direction of dt1 *)
Lemma diff_loop_result c1 c2 :
  valid_dt c1 = true -> valid_dt c2 = true -> is_datetime c1 = is_datetime c2 ->
  exists months,
    diff_loop diff_fuel (lin c1 <? lin c2) c1 c2 (mi c1 - mi c2) (shifted c2 (mi c1 - mi c2))
      = Ok (months, shifted c2 months) /\
    valid_dt (shifted c2 months) = true /\
    if lin c1 <? lin c2 then
      months <= 0 /\ lin c1 <= lin (shifted c2 months) /\
      (valid_dt (shifted c2 (months - 1)) = true -> lin (shifted c2 (months - 1)) < lin c1)
    else
      0 <= months /\ lin (shifted c2 months) <= lin c1 /\
      (valid_dt (shifted c2 (months + 1)) = true -> lin c1 < lin (shifted c2 (months + 1))).
Proof.
  intros V1 V2 K.
  set (m0 := mi c1 - mi c2).
  pose proof (valid_mi_year c1 V1) as [Y1 R1]. pose proof (valid_mi_year c2 V2) as [Y2 R2].
  assert (V0 : valid_dt (shifted c2 m0) = true).
  { apply shifted_valid; [exact V2|]. unfold m0. replace (mi c2 + (mi c1 - mi c2)) with (mi c1) by lia. exact Y1. }
  assert (M0 : mi (shifted c2 m0) = mi c1) by (rewrite mi_shifted; unfold m0; lia).
  assert (KS : forall k, is_datetime (shifted c2 k) = is_datetime c1)
    by (intros k; rewrite shifted_kind; symmetry; exact K).
  (* a shifted value in an earlier / later month than c1 is earlier / later *)
  assert (EARLY : forall k, valid_dt (shifted c2 k) = true -> mi c2 + k < mi c1 -> lin (shifted c2 k) < lin c1).
  { intros k Vk Hk. apply lin_mi_mono; [exact Vk | exact V1 | apply KS | rewrite mi_shifted; exact Hk]. }
  assert (LATE : forall k, valid_dt (shifted c2 k) = true -> mi c1 < mi c2 + k -> lin c1 < lin (shifted c2 k)).
  { intros k Vk Hk. apply lin_mi_mono; [exact V1 | exact Vk | symmetry; apply KS | rewrite mi_shifted; exact Hk]. }
  assert (SAME : mi c1 = mi c2 -> shifted c2 m0 = c2).
  { intros E. unfold m0. replace (mi c1 - mi c2) with 0 by lia. apply shifted_0. exact V2. }
  unfold diff_fuel. rewrite diff_loop_S.
  destruct (lin c1 <? lin c2) eqn:LT.
  - (* dt1 < dt2 *)
    assert (LE : mi c1 <= mi c2).
    { destruct (Z_le_gt_dec (mi c1) (mi c2)) as [H|H]; [exact H|].
      assert (lin c2 < lin c1) by (apply lin_mi_mono; [exact V2 | exact V1 | symmetry; exact K | lia]). lia. }
    destruct (lin (shifted c2 m0) <? lin c1) eqn:A.
    + assert (LT' : mi c1 < mi c2).
      { destruct (Z.eq_dec (mi c1) (mi c2)) as [E|E]; [|lia]. rewrite (SAME E) in A. lia. }
      assert (V1' : valid_dt (shifted c2 (m0 + 1)) = true).
      { apply shifted_valid; [exact V2|]. unfold m0. lia. }
      rewrite (add_set_months_ok _ _ V2 V1'). cbn [bind]. rewrite diff_loop_S.
      pose proof (LATE (m0 + 1) V1' ltac:(unfold m0; lia)) as L1.
      destruct (lin (shifted c2 (m0 + 1)) <? lin c1) eqn:B; [lia|].
      exists (m0 + 1). split; [reflexivity|]. split; [exact V1'|]. split; [unfold m0; lia|]. split; [lia|].
      intros _. replace (m0 + 1 - 1) with m0 by lia. lia.
    + exists m0. split; [reflexivity|]. split; [exact V0|]. split; [unfold m0; lia|]. split; [lia|].
      intros Vp. apply EARLY; [exact Vp | unfold m0; lia].
  - (* dt1 >= dt2 *)
    assert (GE : mi c2 <= mi c1).
    { destruct (Z_le_gt_dec (mi c2) (mi c1)) as [H|H]; [exact H|].
      assert (lin c1 < lin c2) by (apply lin_mi_mono; [exact V1 | exact V2 | exact K | lia]). lia. }
    destruct (lin c1 <? lin (shifted c2 m0)) eqn:A.
    + assert (GT' : mi c2 < mi c1).
      { destruct (Z.eq_dec (mi c1) (mi c2)) as [E|E]; [|lia]. rewrite (SAME E) in A. lia. }
      assert (V1' : valid_dt (shifted c2 (m0 + -1)) = true).
      { apply shifted_valid; [exact V2|]. unfold m0. lia. }
      rewrite (add_set_months_ok _ _ V2 V1'). cbn [bind]. rewrite diff_loop_S.
      pose proof (EARLY (m0 + -1) V1' ltac:(unfold m0; lia)) as L1.
      destruct (lin c1 <? lin (shifted c2 (m0 + -1))) eqn:B; [lia|].
      exists (m0 + -1). split; [reflexivity|]. split; [exact V1'|]. split; [unfold m0; lia|]. split; [lia|].
      intros _. replace (m0 + -1 + 1) with m0 by lia. lia.
    + exists m0. split; [reflexivity|]. split; [exact V0|]. split; [unfold m0; lia|]. split; [lia|].
      intros Vp. apply LATE; [exact Vp | unfold m0; lia].
Qed.

(* ---------------------------------------------------------------- relativedelta(dt1, dt2) *)
Definition residual (c1 dtm : pydt) : Z * Z :=
  match c1 with
  | PD _ _ _ => ((lin c1 - lin dtm) * 86400, 0)
  | PDT _ _ _ _ _ _ _ =>
      let delta := lin c1 - lin dtm in
      let days := delta / us_day in
      let rest := delta mod us_day in
      (rest / us_sec + days * 86400, rest mod us_sec)
  end.

Definition mk_diff_core (c1 c2 : pydt) : res rd :=
  bind (add_dt (set_months rd0 ((fst (ym_of c1) - fst (ym_of c2)) * 12 + (snd (ym_of c1) - snd (ym_of c2)))) c2)
  (fun dtm =>
  bind (diff_loop diff_fuel (lin c1 <? lin c2) c1 c2
          ((fst (ym_of c1) - fst (ym_of c2)) * 12 + (snd (ym_of c1) - snd (ym_of c2))) dtm) (fun md =>
  Ok (fix_rd (mkrd (mkrel (f_years (rel (set_months rd0 (fst md)))) (f_months (rel (set_months rd0 (fst md))))
                          0 0 0 (fst (residual c1 (snd md))) (snd (residual c1 (snd md)))) 0 abs0 None)))).

Lemma bind_ext {A B} (x : res A) (f g : A -> res B) : (forall a, f a = g a) -> bind x f = bind x g.
Proof. intros H. destruct x; cbn; [apply H | reflexivity]. Qed.

Lemma mk_diff_core_eq dt1 dt2 :
  mk_diff dt1 dt2 = mk_diff_core (fst (coerce_pair dt1 dt2)) (snd (coerce_pair dt1 dt2)).
Proof.
  unfold mk_diff, coerce_pair, mk_diff_core.
  destruct (Bool.eqb (is_datetime dt1) (is_datetime dt2)); cbn [fst snd].
  - destruct dt1, dt2; cbv beta iota zeta delta [ym_of fst snd]; apply bind_ext; intros dtm;
    apply bind_ext; intros [months dtm']; cbv beta iota zeta delta [fst snd residual]; reflexivity.
  - destruct dt1, dt2; cbv beta iota zeta delta [promote ym_of fst snd]; apply bind_ext; intros dtm;
    apply bind_ext; intros [months dtm']; cbv beta iota zeta delta [fst snd residual]; reflexivity.
Qed.

Lemma coerce_pair_valid dt1 dt2 : valid_dt dt1 = true -> valid_dt dt2 = true ->
  valid_dt (fst (coerce_pair dt1 dt2)) = true /\ valid_dt (snd (coerce_pair dt1 dt2)) = true /\
  is_datetime (fst (coerce_pair dt1 dt2)) = is_datetime (snd (coerce_pair dt1 dt2)).
Proof.
  intros V1 V2. unfold coerce_pair.
  destruct (Bool.eqb (is_datetime dt1) (is_datetime dt2)) eqn:E; cbn [fst snd].
  - apply eqb_prop in E. auto.
  - split; [apply valid_promote; exact V1|]. split; [apply valid_promote; exact V2|].
    destruct dt1, dt2; reflexivity.
Qed.

Lemma pydt_eqb_refl a : pydt_eqb a a = true.
Proof. destruct a; cbn; lia. Qed.

Lemma diff_core_correct c1 c2 :
  valid_dt c1 = true -> valid_dt c2 = true -> is_datetime c1 = is_datetime c2 ->
  exists d, mk_diff_core c1 c2 = Ok d /\
    only_relative d = true /\ diff_normalised_b d = true /\
    spec_add d c2 = Some c1 /\ add_dt d c2 = Ok c1 /\ months_maximal c1 c2 d = true.
Proof.
  intros V1 V2 K. unfold mk_diff_core.
  replace ((fst (ym_of c1) - fst (ym_of c2)) * 12 + (snd (ym_of c1) - snd (ym_of c2)))
    with (mi c1 - mi c2) by (unfold mi; lia).
  assert (V0 : valid_dt (shifted c2 (mi c1 - mi c2)) = true).
  { apply shifted_valid; [exact V2|]. replace (mi c2 + (mi c1 - mi c2)) with (mi c1) by lia.
    apply (valid_mi_year c1 V1). }
  rewrite (add_set_months_ok _ _ V2 V0). cbn [bind].
  destruct (diff_loop_result c1 c2 V1 V2 K) as (months & EL & VS & HM).
  rewrite EL. cbn [bind fst snd].
  destruct (set_months_shape months) as (y & mo & ES & Hk & Hmo & Hsign). rewrite ES.
  cbn [rel f_years f_months].
  set (r := mkrel y mo 0 0 0 (fst (residual c1 (shifted c2 months))) (snd (residual c1 (shifted c2 months)))).
  eexists. split; [reflexivity|].
  unfold fix_rd. cbn [rel leapdays ab wd].
  destruct (fix_rel_spec r) as (N & U & _ & YM).
  destruct (YM Hmo) as [EY EM]. cbn [r f_years f_months] in EY, EM.
  assert (SA : spec_add (mkrd (fix_rel r) 0 abs0 None) c2 = Some c1).
  { apply (spec_add_final _ _ _ months V1 V2 K); [rewrite EY, EM; exact Hk | exact VS |].
    destruct c2 as [y2 m2 d2 | y2 m2 d2 hh2 mi2 ss2 us2]; destruct c1 as [y1 m1 d1 | y1 m1 d1 hh1 mi1 ss1 us1];
    try discriminate.
    - unfold r. cbn [residual fst snd]. rewrite fix_days_only by exact Hmo.
      cbn [f_days f_hours f_minutes f_seconds f_us]. repeat split; reflexivity.
    - rewrite U. unfold r, rel_us. cbn [residual fst snd f_days f_hours f_minutes f_seconds f_us].
      unfold us_day, us_sec. lia. }
  assert (WF : wf_rd (mkrd (fix_rel r) 0 abs0 None) = true).
  { unfold wf_rd. cbn [rel ab wd abs0 a_year a_month a_day opt_ok]. rewrite N. reflexivity. }
  split; [reflexivity|]. split; [exact N|]. split; [exact SA|].
  split; [apply res_opt_some; rewrite add_dt_spec by assumption; exact SA|].
  unfold months_maximal. cbn [rel]. unfold rel_months. rewrite EY, EM.
  replace (y * 12 + mo) with months by lia.
  rewrite !month_shift_shifted by exact V2. rewrite VS.
  destruct (lin c1 <? lin c2) eqn:LT; destruct (lin c2 <=? lin c1) eqn:LE; try (exfalso; lia).
  - destruct HM as (H1 & H2 & H3).
    destruct (valid_dt (shifted c2 (months - 1))) eqn:VP; [specialize (H3 eq_refl)|]; lia.
  - destruct HM as (H1 & H2 & H3).
    destruct (valid_dt (shifted c2 (months + 1))) eqn:VP; [specialize (H3 eq_refl)|]; lia.
Qed.

(* C09, everything at once: the constructor succeeds (the overshoot loop never runs out of fuel),
   the result has only relative fields, is normalised, carries dt2 onto dt1 both by the documented
   semantics (spec_add) and by the model of __add__, and its months part is maximal. *)
Theorem diff_correct dt1 dt2 : valid_dt dt1 = true -> valid_dt dt2 = true ->
  exists d, mk_diff dt1 dt2 = Ok d /\ diff_ok dt1 dt2 d = true /\
    add_dt d (snd (coerce_pair dt1 dt2)) = Ok (fst (coerce_pair dt1 dt2)).
Proof.
  intros V1 V2. rewrite mk_diff_core_eq.
  destruct (coerce_pair_valid dt1 dt2 V1 V2) as (W1 & W2 & K).
  destruct (diff_core_correct _ _ W1 W2 K) as (d & E & OR & NO & SA & AD & MM).
  exists d. split; [exact E|]. split; [|exact AD].
  unfold diff_ok. destruct (coerce_pair dt1 dt2) as [c1 c2]. cbn [fst snd] in *.
  rewrite OR, NO, SA, MM, pydt_eqb_refl. reflexivity.
Qed.

Theorem diff_inverse dt1 dt2 : valid_dt dt1 = true -> valid_dt dt2 = true ->
  exists d, mk_diff dt1 dt2 = Ok d /\
    add_dt d (snd (coerce_pair dt1 dt2)) = Ok (fst (coerce_pair dt1 dt2)).
Proof.
  intros V1 V2. destruct (diff_correct dt1 dt2 V1 V2) as (d & E & _ & A). eauto.
Qed.

(* OutOfFuel is unreachable *)
Theorem diff_loop_terminates dt1 dt2 : valid_dt dt1 = true -> valid_dt dt2 = true ->
  mk_diff dt1 dt2 <> Err EFuel.
Proof.
  intros V1 V2 H. destruct (diff_correct dt1 dt2 V1 V2) as (d & E & _). congruence.
Qed.

Theorem diff_normalised dt1 dt2 d : valid_dt dt1 = true -> valid_dt dt2 = true ->
  mk_diff dt1 dt2 = Ok d -> diff_normalised_b d = true.
Proof.
  intros V1 V2 H. destruct (diff_correct dt1 dt2 V1 V2) as (d' & E & OK & _).
  assert (d' = d) by congruence. subst d'. unfold diff_ok in OK.
  destruct (coerce_pair dt1 dt2). do 3 (apply andb_prop in OK; destruct OK as [OK ?]). assumption.
Qed.

Theorem diff_months_maximal dt1 dt2 d : valid_dt dt1 = true -> valid_dt dt2 = true ->
  mk_diff dt1 dt2 = Ok d ->
  months_maximal (fst (coerce_pair dt1 dt2)) (snd (coerce_pair dt1 dt2)) d = true.
Proof.
  intros V1 V2 H. destruct (diff_correct dt1 dt2 V1 V2) as (d' & E & OK & _).
  assert (d' = d) by congruence. subst d'. unfold diff_ok in OK.
  destruct (coerce_pair dt1 dt2). cbn [fst snd]. apply andb_prop in OK. destruct OK as [_ OK]. exact OK.
Qed.

(* the result has only relative fields -- for ALL operands, valid or not *)
Lemma diff_only_relative dt1 dt2 d : mk_diff dt1 dt2 = Ok d -> only_relative d = true.
Proof.
  rewrite mk_diff_core_eq. unfold mk_diff_core. intros H.
  apply bind_ok in H. destruct H as (dtm & _ & H). apply bind_ok in H.
  destruct H as (md & _ & H). injection H as <-. reflexivity.
Qed.

(* relativedelta(dt, dt) is empty (also for a date and its own midnight) *)
Lemma diff_core_self c : valid_dt c = true ->
  exists d, mk_diff_core c c = Ok d /\ rd_empty d = true.
Proof.
  intros V. unfold mk_diff_core.
  replace ((fst (ym_of c) - fst (ym_of c)) * 12 + (snd (ym_of c) - snd (ym_of c))) with 0 by lia.
  assert (V0 : valid_dt (shifted c 0) = true) by (rewrite shifted_0; assumption).
  rewrite (add_set_months_ok _ _ V V0), (shifted_0 _ V). cbn [bind].
  unfold diff_fuel. rewrite diff_loop_S, Z.ltb_irrefl. cbn [bind fst snd].
  eexists. split; [reflexivity|].
  assert (R : residual c c = (0, 0)).
  { unfold residual. rewrite Z.sub_diag. destruct c; reflexivity. }
  rewrite R. reflexivity.
Qed.

Theorem diff_self_empty dt1 dt2 : valid_dt dt1 = true -> valid_dt dt2 = true ->
  fst (coerce_pair dt1 dt2) = snd (coerce_pair dt1 dt2) ->
  exists d, mk_diff dt1 dt2 = Ok d /\ rd_empty d = true.
Proof.
  intros V1 V2 E. rewrite mk_diff_core_eq, E. apply diff_core_self.
  apply (coerce_pair_valid dt1 dt2 V1 V2).
Qed.

(* non-vacuity: a pair on which the overshoot correction runs (Jan 31 + 2 months = Mar 31 passes
   Mar 30, so one month is taken back: Feb 29 + 30 days), a mixed date/datetime pair in the other
   direction, and the empty difference *)
Example diff_example_overshoot :
  valid_dt (PD 2000 3 30) = true /\ valid_dt (PD 2000 1 31) = true /\
  mk_diff (PD 2000 3 30) (PD 2000 1 31) = Ok (mkrd (mkrel 0 1 30 0 0 0 0) 0 abs0 None) /\
  add_dt (mkrd (mkrel 0 1 30 0 0 0 0) 0 abs0 None) (PD 2000 1 31) = Ok (PD 2000 3 30).
Proof. vm_compute. repeat split; reflexivity. Qed.

Example diff_example_mixed_backwards :
  mk_diff (PD 1999 12 31) (PDT 2001 3 31 12 30 0 5)
  = Ok (mkrd (mkrel (-1) (-3) 0 (-12) (-30) (-1) 999995) 0 abs0 None) /\
  diff_ok (PD 1999 12 31) (PDT 2001 3 31 12 30 0 5)
          (mkrd (mkrel (-1) (-3) 0 (-12) (-30) (-1) 999995) 0 abs0 None) = true.
Proof. vm_compute. split; reflexivity. Qed.

Example diff_example_self :
  fst (coerce_pair (PD 2000 2 29) (PDT 2000 2 29 0 0 0 0)) = snd (coerce_pair (PD 2000 2 29) (PDT 2000 2 29 0 0 0 0)) /\
  mk_diff (PD 2000 2 29) (PDT 2000 2 29 0 0 0 0) = Ok rd0.
Proof. vm_compute. split; reflexivity. Qed.

(* ---------------------------------------------------------------- the inverse law on the ORIGINAL operands *)
(* dt2 + relativedelta(dt1, dt2) with dt2 as given (a date stays a date unless the difference
   carries time): the result equals dt1, dates being compared with datetimes at midnight *)
Lemma dt_of_lin_midnight n : dt_of_lin ((n - 1) * us_day) = promote (date_of_ord n).
Proof.
  unfold dt_of_lin, date_of_ord.
  replace ((n - 1) * us_day / us_day + 1) with n by (unfold us_day; lia).
  replace (((n - 1) * us_day) mod us_day) with 0 by (unfold us_day; lia).
  destruct (ymd_of_ord n) as [[y m] d]. reflexivity.
Qed.

Lemma only_relative_inv d : only_relative d = true ->
  leapdays d = 0 /\ wd d = None /\ ab d = abs0.
Proof.
  unfold only_relative. destruct d as [r l [a1 a2 a3 a4 a5 a6 a7] w]. cbn [leapdays wd ab a_year a_month a_day a_hour a_minute a_second a_us].
  destruct w; destruct a1, a2, a3, a4, a5, a6, a7; cbn; intros H; try discriminate;
  repeat split; try reflexivity; lia.
Qed.

Lemma spec_body_promote d y m dd :
  carries_time d = false -> wd d = None -> ab d = abs0 ->
  spec_body d (PDT y m dd 0 0 0 0) = option_map promote (spec_body d (PD y m dd)).
Proof.
  destruct d as [r l a w]. cbn [wd ab]. intros CT -> ->.
  destruct (no_time_fields _ CT) as (H1 & H2 & H3 & H4). cbn [rel] in H1, H2, H3, H4.
  unfold spec_body, spec_wd, spec_base, spec_dur. cbv zeta.
  cbn [rel ab wd leapdays ym_of fst snd abs0 a_year a_month a_day a_hour a_minute a_second a_us oget day_of].
  rewrite H1, H2, H3, H4.
  set (t := 12 * y + (m - 1) + 12 * f_years r + f_months r).
  set (d1 := Z.min dd (dim (t / 12) (t mod 12 + 1))).
  set (lp := if (2 <? t mod 12 + 1) && is_leap (t / 12) then l else 0).
  unfold valid_dt at 1. change (valid_time 0 0 0 0) with true. rewrite andb_true_r.
  change (valid_dt (PD (t / 12) (t mod 12 + 1) d1)) with (valid_ymd (t / 12) (t mod 12 + 1) d1).
  destruct (valid_ymd (t / 12) (t mod 12 + 1) d1) eqn:VB; [|reflexivity].
  unfold at_lin, lin. change (tod 0 0 0 0) with 0.
  set (n := ord_of_ymd (t / 12) (t mod 12 + 1) d1 + (f_days r + lp)).
  replace ((ord_of_ymd (t / 12) (t mod 12 + 1) d1 - 1) * us_day + 0 +
           ((f_days r + lp) * us_day + 0 * 3600000000 + 0 * 60000000 + 0 * us_sec + 0))
    with ((n - 1) * us_day) by (unfold n, us_day, us_sec; lia).
  destruct ((1 <=? n) && (n <=? max_ord)) eqn:C1;
  destruct ((0 <=? (n - 1) * us_day) && ((n - 1) * us_day <? lin_max_dt)) eqn:C2;
  try (exfalso; unfold lin_max_dt, max_ord, us_day in *; lia); [|reflexivity].
  unfold option_map. f_equal. apply dt_of_lin_midnight.
Qed.

Lemma promote_idem o : promote (promote o) = promote o.
Proof. destruct o; reflexivity. Qed.

Theorem diff_inverse_uncoerced dt1 dt2 : valid_dt dt1 = true -> valid_dt dt2 = true ->
  exists d r, mk_diff dt1 dt2 = Ok d /\ add_dt d dt2 = Ok r /\ promote r = promote dt1.
Proof.
  intros V1 V2. destruct (diff_correct dt1 dt2 V1 V2) as (d & E & OK & A).
  exists d.
  assert (F : only_relative d = true /\ norm_rel (rel d) = true).
  { unfold diff_ok in OK. destruct (coerce_pair dt1 dt2).
    do 3 (apply andb_prop in OK; destruct OK as [OK ?]). auto. }
  destruct F as [OR NO]. destruct (only_relative_inv d OR) as (HL & HW & HA).
  assert (WF : wf_rd d = true).
  { unfold wf_rd. rewrite NO, HW, HA. reflexivity. }
  destruct dt1 as [y1 m1 d1 | y1 m1 d1 hh1 mi1 ss1 us1];
  destruct dt2 as [y2 m2 d2 | y2 m2 d2 hh2 mi2 ss2 us2];
  [ change (add_dt d (PD y2 m2 d2) = Ok (PD y1 m1 d1)) in A
  | change (add_dt d (PDT y2 m2 d2 hh2 mi2 ss2 us2) = Ok (PDT y1 m1 d1 0 0 0 0)) in A
  | change (add_dt d (PDT y2 m2 d2 0 0 0 0) = Ok (PDT y1 m1 d1 hh1 mi1 ss1 us1)) in A
  | change (add_dt d (PDT y2 m2 d2 hh2 mi2 ss2 us2) = Ok (PDT y1 m1 d1 hh1 mi1 ss1 us1)) in A ].
  - eexists. split; [exact E|]. split; [exact A | reflexivity].
  - eexists. split; [exact E|]. split; [exact A | reflexivity].
  - (* dt1 a datetime, dt2 a date *)
    destruct (carries_time d) eqn:CT.
    + exists (PDT y1 m1 d1 hh1 mi1 ss1 us1). split; [exact E|]. split; [|reflexivity].
      rewrite add_dt_body, has_time_carries_time, CT. rewrite add_dt_body, has_time_carries_time, CT in A.
      exact A.
    + pose proof (add_dt_spec d (PDT y2 m2 d2 0 0 0 0) WF ltac:(apply (valid_promote (PD y2 m2 d2)); exact V2)) as S1.
      rewrite A, spec_add_body, CT in S1. cbn [res_opt] in S1.
      rewrite (spec_body_promote d y2 m2 d2 CT HW HA) in S1.
      pose proof (add_dt_spec d (PD y2 m2 d2) WF V2) as S2.
      rewrite spec_add_body, CT in S2.
      destruct (spec_body d (PD y2 m2 d2)) as [r|]; [|discriminate].
      exists r. split; [exact E|]. split; [apply res_opt_some; exact S2|].
      cbn [option_map] in S1. injection S1 as <-. reflexivity.
  - eexists. split; [exact E|]. split; [exact A | reflexivity].
Qed.

Example diff_inverse_uncoerced_example :
  (* a datetime at midnight minus a date: the difference has no time, the date stays a date *)
  mk_diff (PDT 2001 3 1 0 0 0 0) (PD 2000 2 29) = Ok (mkrd (mkrel 1 0 1 0 0 0 0) 0 abs0 None) /\
  add_dt (mkrd (mkrel 1 0 1 0 0 0 0) 0 abs0 None) (PD 2000 2 29) = Ok (PD 2001 3 1).
Proof. vm_compute. split; reflexivity. Qed.

(* ---------------------------------------------------------------- the model's order is Python's *)
(* date/datetime comparison in CPython is lexicographic on (year, month, day[, hour, minute,
   second, microsecond]); the model compares positions on the time line.  They agree. *)
Definition lex_lt_ymd (y m d y' m' d' : Z) : Prop :=
  y < y' \/ (y = y' /\ (m < m' \/ (m = m' /\ d < d'))).

Lemma ord_lt_lex y m d y' m' d' : valid_ymd y m d = true -> valid_ymd y' m' d' = true ->
  (ord_of_ymd y m d < ord_of_ymd y' m' d' <-> lex_lt_ymd y m d y' m' d').
Proof.
  intros V V'. unfold valid_ymd, lex_lt_ymd in *.
  assert (A : 12 * y + m < 12 * y' + m' -> ord_of_ymd y m d < ord_of_ymd y' m' d')
    by (intros; apply ord_month_mono; lia).
  assert (B : 12 * y' + m' < 12 * y + m -> ord_of_ymd y' m' d' < ord_of_ymd y m d)
    by (intros; apply ord_month_mono; lia).
  destruct (Z.lt_trichotomy (12 * y + m) (12 * y' + m')) as [L | [E | G]].
  - specialize (A L). lia.
  - assert (y = y' /\ m = m') as [-> ->] by lia. unfold ord_of_ymd. lia.
  - specialize (B G). lia.
Qed.

Theorem lin_lt_lex_date y m d y' m' d' :
  valid_dt (PD y m d) = true -> valid_dt (PD y' m' d') = true ->
  (lin (PD y m d) < lin (PD y' m' d') <-> lex_lt_ymd y m d y' m' d').
Proof. cbn [valid_dt lin]. apply ord_lt_lex. Qed.

Theorem lin_lt_lex_datetime y m d hh mi ss us y' m' d' hh' mi' ss' us' :
  valid_dt (PDT y m d hh mi ss us) = true -> valid_dt (PDT y' m' d' hh' mi' ss' us') = true ->
  (lin (PDT y m d hh mi ss us) < lin (PDT y' m' d' hh' mi' ss' us') <->
   lex_lt_ymd y m d y' m' d' \/
   ((y, m, d) = (y', m', d') /\
    (hh < hh' \/ (hh = hh' /\ (mi < mi' \/ (mi = mi' /\ (ss < ss' \/ (ss = ss' /\ us < us')))))))).
Proof.
  cbn [valid_dt lin]. intros V V'.
  apply andb_prop in V. destruct V as [V T]. apply andb_prop in V'. destruct V' as [V' T'].
  pose proof (ord_lt_lex _ _ _ _ _ _ V V') as L. pose proof (ord_lt_lex _ _ _ _ _ _ V' V) as L'.
  pose proof (tod_range _ _ _ _ T) as R. pose proof (tod_range _ _ _ _ T') as R'.
  assert (TL : tod hh mi ss us < tod hh' mi' ss' us' <->
               (hh < hh' \/ (hh = hh' /\ (mi < mi' \/ (mi = mi' /\ (ss < ss' \/ (ss = ss' /\ us < us'))))))).
  { unfold valid_time, tod, us_sec in *. lia. }
  unfold lex_lt_ymd in *. unfold us_day in *.
  destruct (Z.lt_trichotomy (ord_of_ymd y m d) (ord_of_ymd y' m' d')) as [A | [A | A]].
  - split; [intros _; left; apply L; exact A | intros _; lia].
  - assert (E : (y, m, d) = (y', m', d')).
    { assert (~ lex_lt_ymd y m d y' m' d') by (unfold lex_lt_ymd; intros X; apply L in X; lia).
      assert (~ lex_lt_ymd y' m' d' y m d) by (unfold lex_lt_ymd; intros X; apply L' in X; lia).
      unfold lex_lt_ymd in *. assert (y = y' /\ m = m' /\ d = d') as (-> & -> & ->) by lia. reflexivity. }
    split.
    + intros H. right. split; [exact E|]. apply TL. lia.
    + intros [H | [_ H]]; [apply L in H; lia | apply TL in H; lia].
  - split; [intros H; lia|].
    intros [H | [E _]]; [apply L in H; lia | injection E as -> -> ->; lia].
Qed.
