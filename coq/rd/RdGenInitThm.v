(* C16: the WHOLE keyword path of relativedelta.__init__, as translated from /repo's source, equals
   the hand model's constructor [mk] / [mk_frac] (weeks, weekday argument forms incl. IndexError,
   ValueError for non-integer years / months, yearday / nlyearday conversion, _fix).
   Three translated parts in source order:
     gen_init_head     (harness/gen_rd_methods.py)  statements before `yday = 0`
     gen_init_yearday  (harness/gen_rd_add.py, C03) `yday = 0` ... end of the keyword branch
     gen_fix           (harness/gen_rd_methods.py)  the final `self._fix()`
   (check_init_shape of the translator checks that __init__ is `if dt1 and dt2: ... else: <branch>`
   followed by `self._fix()`). *)
From Coq Require Import ZArith List Bool Lia ZifyBool.
From V Require Import base.Cal gen.RdTables rd.RdBase rd.RdModel rd.RdAlgModel rd.RdAlgSpec rd.RdAlgThm
  rd.RdAlgLaws rd.RdAlgLaws2 rd.RdGenBase gen.RdMethodsGen rd.RdGenThm rd.RdAddGenBase gen.RdAddGen rd.RdAddGenThm.
Import ListNotations.
Open Scope Z_scope.

(* ---------------------------------------------------------------- __init__, keyword path up to `yday = 0` *)
(* the attribute record after the plain assignments (weeks folded into days, weekday as stored) *)
Definition head_obj (a : iargs) (w : option wdv) : obj :=
  mkobj (rat_int (ia_years a)) (rat_int (ia_months a)) (ia_days a + ia_weeks a * 7) (ia_leapdays a)
        (ia_hours a) (ia_minutes a) (ia_seconds a) (ia_microseconds a)
        (ia_year a) (ia_month a) (ia_day a) (ia_hour a) (ia_minute a) (ia_second a) (ia_microsecond a) w 0.

Lemma obj_ext : forall o o',
  o_years o = o_years o' -> o_months o = o_months o' -> o_days o = o_days o' -> o_leapdays o = o_leapdays o' ->
  o_hours o = o_hours o' -> o_minutes o = o_minutes o' -> o_seconds o = o_seconds o' ->
  o_microseconds o = o_microseconds o' -> o_year o = o_year o' -> o_month o = o_month o' -> o_day o = o_day o' ->
  o_hour o = o_hour o' -> o_minute o = o_minute o' -> o_second o = o_second o' ->
  o_microsecond o = o_microsecond o' -> o_weekday o = o_weekday o' -> o_has_time o = o_has_time o' -> o = o'.
Proof. intros [] []; cbn; intros; subst; reflexivity. Qed.

Theorem gen_init_head_correct : forall a,
  gen_init_head a =
  if negb (q_is_int (fst (ia_years a)) (snd (ia_years a))) || negb (q_is_int (fst (ia_months a)) (snd (ia_months a)))
  then Err EValue
  else bind (conv_wd (ia_weekday a)) (fun w => Ok (head_obj a w)).
Proof.
  intros [[yn yd] [mn md] d l wk h mi s us ay am ad ah ami asec aus w].
  unfold gen_init_head, head_obj, rat_ne_int, rat_int, q_is_int, py_int_q, obj_blank.
  cbv beta iota zeta delta [ia_years ia_months ia_days ia_leapdays ia_weeks ia_hours ia_minutes ia_seconds
    ia_microseconds ia_year ia_month ia_day ia_hour ia_minute ia_second ia_microsecond ia_weekday fst snd].
  rewrite !negb_involutive. cbn [andb].
  destruct (negb (Z.pos yd * Z.quot yn (Z.pos yd) =? yn) || negb (Z.pos md * Z.quot mn (Z.pos md) =? mn));
    [reflexivity |].
  destruct w as [|k|k n]; cbn [wdarg_is_int wdarg_int wdarg_obj conv_wd bind]; unfold weekdays_getitem;
    try destruct ((-7 <=? k) && (k <? 7)); cbn [bind];
    first [ reflexivity
          | f_equal; apply obj_ext;
            cbv beta iota zeta delta [set_o_years set_o_months set_o_days set_o_leapdays set_o_hours set_o_minutes
              set_o_seconds set_o_microseconds set_o_has_time put_o_year put_o_month put_o_day put_o_hour put_o_minute
              put_o_second put_o_microsecond put_o_weekday o_years o_months o_days o_leapdays o_hours o_minutes
              o_seconds o_microseconds o_year o_month o_day o_hour o_minute o_second o_microsecond o_weekday
              o_has_time];
            first [ reflexivity | lia ] ].
Qed.


(* ---------------------------------------------------------------- the three parts composed *)
Definition gen_init_kw (a : iargs) (yearday nlyearday : option Z) : res obj :=
  bind (gen_init_head a) (fun o =>
  bind (gen_init_yearday o yearday nlyearday) (fun o => of_gres (gen_fix o))).

(* the model's keyword record for the same call *)
Definition kw_of_iargs (a : iargs) (yearday nlyearday : option Z) : kwargs :=
  mkkw (mkrel (rat_int (ia_years a)) (rat_int (ia_months a)) (ia_days a) (ia_hours a) (ia_minutes a)
              (ia_seconds a) (ia_microseconds a))
       (ia_leapdays a) (ia_weeks a)
       (mkabs (ia_year a) (ia_month a) (ia_day a) (ia_hour a) (ia_minute a) (ia_second a) (ia_microsecond a))
       (ia_weekday a) yearday nlyearday.

Theorem gen_init_kw_correct : forall a yearday nlyearday,
  gen_init_kw a yearday nlyearday =
  lift_rd (mk_frac (fst (ia_years a)) (snd (ia_years a)) (fst (ia_months a)) (snd (ia_months a))
                   (kw_of_iargs a yearday nlyearday)).
Proof.
  intros a yearday nlyearday. unfold gen_init_kw, mk_frac. rewrite gen_init_head_correct.
  destruct (negb (q_is_int (fst (ia_years a)) (snd (ia_years a)))
            || negb (q_is_int (fst (ia_months a)) (snd (ia_months a)))); [reflexivity |].
  set (k := set_ym (kw_of_iargs a yearday nlyearday) (py_int_q (fst (ia_years a)) (snd (ia_years a)))
                   (py_int_q (fst (ia_months a)) (snd (ia_months a)))).
  assert (Kw : k_wd k = ia_weekday a) by reflexivity.
  destruct (conv_wd (ia_weekday a)) as [w|e] eqn:E.
  - cbn [bind]. rewrite <- (gen_mk_correct k w) by (rewrite Kw; exact E).
    destruct a as [[yn yd] [mn md] d l wk h mi s us ay am ad ah ami asec aus wa]. reflexivity.
  - cbn [bind]. unfold mk. rewrite Kw, E. reflexivity.
Qed.

(* integer years / months (denominator 1): the integer constructor of the model *)
Corollary gen_init_kw_int : forall a yearday nlyearday,
  snd (ia_years a) = 1%positive -> snd (ia_months a) = 1%positive ->
  gen_init_kw a yearday nlyearday =
  lift_rd (mk (set_ym (kw_of_iargs a yearday nlyearday) (fst (ia_years a)) (fst (ia_months a)))).
Proof.
  intros a yearday nlyearday H1 H2. rewrite gen_init_kw_correct.
  rewrite int_years_months_accepted; rewrite ?H1, ?H2; try (exists (fst (ia_years a)); lia);
    try (exists (fst (ia_months a)); lia).
  rewrite !Z.div_1_r. reflexivity.
Qed.

(* the constructor calls made by the operators (self.__class__(years=..., ...): integer relative
   values, weekday object or None, no weeks / yearday / nlyearday) run exactly gen_init = _fix on the
   passed fields: what C16_gen_neg ... C16_gen_normalized use is the whole translated __init__ *)
Definition iargs_of_obj (o : obj) : iargs :=
  mkia (o_years o, 1%positive) (o_months o, 1%positive) (o_days o) (o_leapdays o) 0
       (o_hours o) (o_minutes o) (o_seconds o) (o_microseconds o)
       (o_year o) (o_month o) (o_day o) (o_hour o) (o_minute o) (o_second o) (o_microsecond o)
       (match o_weekday o with Some (k, n) => WObj k n | None => WNone end).

Theorem gen_init_is_kw : forall o, gen_init_kw (iargs_of_obj o) None None = of_gres (gen_init o).
Proof.
  intros [y mo dd l h mi s us ay am ad ah ami asec aus w ht].
  rewrite gen_init_kw_int by reflexivity. unfold gen_init. rewrite gen_fix_correct. cbn [of_gres].
  unfold mk, kw_of_iargs, set_ym, iargs_of_obj, rd_of_obj.
  cbn [k_rel k_leapdays k_weeks k_abs k_wd k_yearday k_nlyearday truthy fst snd
       ia_years ia_months ia_days ia_leapdays ia_weeks ia_hours ia_minutes ia_seconds ia_microseconds
       ia_year ia_month ia_day ia_hour ia_minute ia_second ia_microsecond ia_weekday
       f_years f_months f_days f_hours f_minutes f_seconds f_us
       o_years o_months o_days o_leapdays o_hours o_minutes o_seconds o_microseconds
       o_year o_month o_day o_hour o_minute o_second o_microsecond o_weekday].
  replace (dd + 0 * 7) with dd by lia.
  destruct w as [[k n]|]; reflexivity.
Qed.
