(* Run-time library of the source translator harness/gen_rd_methods.py (-> gen/RdMethodsGen.v).
   The translated methods of relativedelta work on [obj], a flat record with one field per
   instance attribute; attribute reads are the projections, attribute writes the [set_o_*]
   functions.  Reading [.weekday] / [.n] of an attribute that holds None raises AttributeError in
   Python: that is [GErr]; every translated method returns a [gres].
   Hand-written, no proofs.  *)
From Coq Require Import ZArith List Bool.
From V Require Import base.Cal rd.RdBase rd.RdModel.
Import ListNotations.
Open Scope Z_scope.

Record obj := mkobj {
  o_years : Z; o_months : Z; o_days : Z; o_leapdays : Z;
  o_hours : Z; o_minutes : Z; o_seconds : Z; o_microseconds : Z;
  o_year : option Z; o_month : option Z; o_day : option Z;
  o_hour : option Z; o_minute : option Z; o_second : option Z; o_microsecond : option Z;
  o_weekday : option wdv;
  o_has_time : Z }.

Definition set_o_years (o : obj) (v : Z) : obj :=
  mkobj v (o_months o) (o_days o) (o_leapdays o) (o_hours o) (o_minutes o) (o_seconds o) (o_microseconds o)
        (o_year o) (o_month o) (o_day o) (o_hour o) (o_minute o) (o_second o) (o_microsecond o) (o_weekday o) (o_has_time o).
Definition set_o_months (o : obj) (v : Z) : obj :=
  mkobj (o_years o) v (o_days o) (o_leapdays o) (o_hours o) (o_minutes o) (o_seconds o) (o_microseconds o)
        (o_year o) (o_month o) (o_day o) (o_hour o) (o_minute o) (o_second o) (o_microsecond o) (o_weekday o) (o_has_time o).
Definition set_o_days (o : obj) (v : Z) : obj :=
  mkobj (o_years o) (o_months o) v (o_leapdays o) (o_hours o) (o_minutes o) (o_seconds o) (o_microseconds o)
        (o_year o) (o_month o) (o_day o) (o_hour o) (o_minute o) (o_second o) (o_microsecond o) (o_weekday o) (o_has_time o).
Definition set_o_leapdays (o : obj) (v : Z) : obj :=
  mkobj (o_years o) (o_months o) (o_days o) v (o_hours o) (o_minutes o) (o_seconds o) (o_microseconds o)
        (o_year o) (o_month o) (o_day o) (o_hour o) (o_minute o) (o_second o) (o_microsecond o) (o_weekday o) (o_has_time o).
Definition set_o_hours (o : obj) (v : Z) : obj :=
  mkobj (o_years o) (o_months o) (o_days o) (o_leapdays o) v (o_minutes o) (o_seconds o) (o_microseconds o)
        (o_year o) (o_month o) (o_day o) (o_hour o) (o_minute o) (o_second o) (o_microsecond o) (o_weekday o) (o_has_time o).
Definition set_o_minutes (o : obj) (v : Z) : obj :=
  mkobj (o_years o) (o_months o) (o_days o) (o_leapdays o) (o_hours o) v (o_seconds o) (o_microseconds o)
        (o_year o) (o_month o) (o_day o) (o_hour o) (o_minute o) (o_second o) (o_microsecond o) (o_weekday o) (o_has_time o).
Definition set_o_seconds (o : obj) (v : Z) : obj :=
  mkobj (o_years o) (o_months o) (o_days o) (o_leapdays o) (o_hours o) (o_minutes o) v (o_microseconds o)
        (o_year o) (o_month o) (o_day o) (o_hour o) (o_minute o) (o_second o) (o_microsecond o) (o_weekday o) (o_has_time o).
Definition set_o_microseconds (o : obj) (v : Z) : obj :=
  mkobj (o_years o) (o_months o) (o_days o) (o_leapdays o) (o_hours o) (o_minutes o) (o_seconds o) v
        (o_year o) (o_month o) (o_day o) (o_hour o) (o_minute o) (o_second o) (o_microsecond o) (o_weekday o) (o_has_time o).
Definition set_o_has_time (o : obj) (v : Z) : obj :=
  mkobj (o_years o) (o_months o) (o_days o) (o_leapdays o) (o_hours o) (o_minutes o) (o_seconds o) (o_microseconds o)
        (o_year o) (o_month o) (o_day o) (o_hour o) (o_minute o) (o_second o) (o_microsecond o) (o_weekday o) v.

Definition put_o_year (o : obj) (v : option Z) : obj :=
  mkobj (o_years o) (o_months o) (o_days o) (o_leapdays o) (o_hours o) (o_minutes o) (o_seconds o) (o_microseconds o)
        v (o_month o) (o_day o) (o_hour o) (o_minute o) (o_second o) (o_microsecond o) (o_weekday o) (o_has_time o).
Definition put_o_month (o : obj) (v : option Z) : obj :=
  mkobj (o_years o) (o_months o) (o_days o) (o_leapdays o) (o_hours o) (o_minutes o) (o_seconds o) (o_microseconds o)
        (o_year o) v (o_day o) (o_hour o) (o_minute o) (o_second o) (o_microsecond o) (o_weekday o) (o_has_time o).
Definition put_o_day (o : obj) (v : option Z) : obj :=
  mkobj (o_years o) (o_months o) (o_days o) (o_leapdays o) (o_hours o) (o_minutes o) (o_seconds o) (o_microseconds o)
        (o_year o) (o_month o) v (o_hour o) (o_minute o) (o_second o) (o_microsecond o) (o_weekday o) (o_has_time o).
Definition put_o_hour (o : obj) (v : option Z) : obj :=
  mkobj (o_years o) (o_months o) (o_days o) (o_leapdays o) (o_hours o) (o_minutes o) (o_seconds o) (o_microseconds o)
        (o_year o) (o_month o) (o_day o) v (o_minute o) (o_second o) (o_microsecond o) (o_weekday o) (o_has_time o).
Definition put_o_minute (o : obj) (v : option Z) : obj :=
  mkobj (o_years o) (o_months o) (o_days o) (o_leapdays o) (o_hours o) (o_minutes o) (o_seconds o) (o_microseconds o)
        (o_year o) (o_month o) (o_day o) (o_hour o) v (o_second o) (o_microsecond o) (o_weekday o) (o_has_time o).
Definition put_o_second (o : obj) (v : option Z) : obj :=
  mkobj (o_years o) (o_months o) (o_days o) (o_leapdays o) (o_hours o) (o_minutes o) (o_seconds o) (o_microseconds o)
        (o_year o) (o_month o) (o_day o) (o_hour o) (o_minute o) v (o_microsecond o) (o_weekday o) (o_has_time o).
Definition put_o_microsecond (o : obj) (v : option Z) : obj :=
  mkobj (o_years o) (o_months o) (o_days o) (o_leapdays o) (o_hours o) (o_minutes o) (o_seconds o) (o_microseconds o)
        (o_year o) (o_month o) (o_day o) (o_hour o) (o_minute o) (o_second o) v (o_weekday o) (o_has_time o).
Definition put_o_weekday (o : obj) (v : option wdv) : obj :=
  mkobj (o_years o) (o_months o) (o_days o) (o_leapdays o) (o_hours o) (o_minutes o) (o_seconds o) (o_microseconds o)
        (o_year o) (o_month o) (o_day o) (o_hour o) (o_minute o) (o_second o) (o_microsecond o) v (o_has_time o).

(* an instance before __init__ has assigned anything *)
Definition obj_blank : obj := mkobj 0 0 0 0 0 0 0 0 None None None None None None None None 0.

(* ---- the arguments of the keyword constructor.  years / months may be non-integers: an exact
   rational p/q (a Fraction, or a float whose value is exactly p/q); int() truncates, != is exact *)
Definition ratv : Type := (Z * positive)%type.
Definition rat_int (r : ratv) : Z := Z.quot (fst r) (Z.pos (snd r)).
Definition rat_ne_int (r : ratv) (i : Z) : bool := negb (Z.pos (snd r) * i =? fst r).

Record iargs := mkia {
  ia_years : ratv; ia_months : ratv; ia_days : Z; ia_leapdays : Z; ia_weeks : Z;
  ia_hours : Z; ia_minutes : Z; ia_seconds : Z; ia_microseconds : Z;
  ia_year : option Z; ia_month : option Z; ia_day : option Z; ia_hour : option Z;
  ia_minute : option Z; ia_second : option Z; ia_microsecond : option Z;
  ia_weekday : wdarg }.

(* the weekday= argument: None, an int, or a weekday object *)
Definition wdarg_is_int (w : wdarg) : bool := match w with WInt _ => true | _ => false end.
Definition wdarg_int (w : wdarg) : Z := match w with WInt k => k | _ => 0 end.
Definition wdarg_obj (w : wdarg) : option wdv := match w with WObj k n => Some (k, n) | _ => None end.
(* weekdays[k] for the module tuple weekdays = tuple(weekday(x) for x in range(7)): Python tuple
   indexing (negative indices count from the end, IndexError outside -7 .. 6) *)
Definition weekdays_getitem (k : Z) : res wdv :=
  if (-7 <=? k) && (k <? 7) then Ok (k mod 7, None) else Err EIndex.

(* a weekday instance before its __init__ ran *)
Definition wd_blank : wdv := (0, None).

(* ---- results: a value, or AttributeError *)
Inductive gres (A : Type) : Type := GOk (a : A) | GErr.
Arguments GOk {A} a.
Arguments GErr {A}.
Definition gbind {A B : Type} (r : gres A) (f : A -> gres B) : gres B :=
  match r with GOk a => f a | GErr => GErr end.

(* the value of an `if` statement (the variables that survive it) handed to the rest of the method *)
Definition blet {A B : Type} (x : A) (f : A -> B) : B := f x.

(* x.weekday / x.n where x is an attribute that holds a weekday object or None *)
Definition wd_weekday (w : option wdv) : gres Z :=
  match w with Some (k, _) => GOk k | None => GErr end.
Definition wd_n (w : option wdv) : gres (option Z) :=
  match w with Some (_, n) => GOk n | None => GErr end.

(* a datetime.timedelta operand: its (days, seconds, microseconds) attributes *)
Definition tdv : Type := (Z * Z * Z)%type.
Definition td_days (t : tdv) : Z := fst (fst t).
Definition td_seconds (t : tdv) : Z := snd (fst t).
Definition td_microseconds (t : tdv) : Z := snd t.

(* ---- Python truthiness and value-returning or / and *)
Definition truth_z (x : Z) : bool := negb (x =? 0).
Definition truth_oz (a : option Z) : bool := match a with Some v => negb (v =? 0) | None => false end.
Definition truth_opt {A : Type} (a : option A) : bool := match a with Some _ => true | None => false end.
(* [a or b] for ints; for an int-or-None [a] and an int [b] *)
Definition or_zz (a b : Z) : Z := if truth_z a then a else b.
Definition or_ozz (a : option Z) (b : Z) : Z :=
  match a with Some v => if v =? 0 then b else v | None => b end.
(* == between int-or-None values *)
Definition ozeqb (a b : option Z) : bool :=
  match a, b with Some x, Some y => x =? y | None, None => true | _, _ => false end.

(* ---- the hand model's records <-> obj *)
Definition b2z (b : bool) : Z := if b then 1 else 0.

Definition rd_of_obj (o : obj) : rd :=
  mkrd (mkrel (o_years o) (o_months o) (o_days o) (o_hours o) (o_minutes o) (o_seconds o) (o_microseconds o))
       (o_leapdays o)
       (mkabs (o_year o) (o_month o) (o_day o) (o_hour o) (o_minute o) (o_second o) (o_microsecond o))
       (o_weekday o).

Definition obj_with_flag (d : rd) (flag : Z) : obj :=
  let r := rel d in let a := ab d in
  mkobj (f_years r) (f_months r) (f_days r) (leapdays d) (f_hours r) (f_minutes r) (f_seconds r) (f_us r)
        (a_year a) (a_month a) (a_day a) (a_hour a) (a_minute a) (a_second a) (a_us a) (wd d) flag.
