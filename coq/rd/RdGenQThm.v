(* C16, float-valued fields: the source of relativedelta._fix, re-read by harness/gen_rd_methods.py
   on day/hour/minute/second/microsecond values that are exact rationals numerator / D
   (gen/RdMethodsGen.v: gen_fix_q), equals the hand-written rational idealisation fix_q / ctor_q of
   rd/RdAlgQModel.v for ALL inputs and all D.  So the C16_float_* theorems are theorems about the
   code the translator read (in that rational reading; IEEE rounding is still outside). *)
From Coq Require Import ZArith List Bool Lia ZifyBool.
From V Require Import base.Cal gen.RdTables rd.RdBase rd.RdModel rd.RdAlgModel rd.RdAlgSpec rd.RdAlgThm
  rd.RdAlgLaws rd.RdAlgQModel rd.RdAlgQThm rd.RdGenBase gen.RdMethodsGen rd.RdGenThm.
Import ListNotations.
Open Scope Z_scope.

Definition stepq (D : Z) (get getup : obj -> Z) (set setup : obj -> Z -> obj) (base : Z) (o : obj) : obj :=
  let c := carry_q D base (get o) (getup o) in setup (set o (fst c)) (snd c).

Definition stepq_us D := stepq D o_microseconds o_seconds set_o_microseconds set_o_seconds 1000000.
Definition stepq_s D := stepq D o_seconds o_minutes set_o_seconds set_o_minutes 60.
Definition stepq_mi D := stepq D o_minutes o_hours set_o_minutes set_o_hours 60.
Definition stepq_h D := stepq D o_hours o_days set_o_hours set_o_days 24.

Ltac blkq expected cur :=
  lazymatch goal with |- blet ?X ?R = ?rhs =>
    let H := fresh "H" in
    assert (H : X = expected);
    [ generalize cur; clear; intros [y mo dd l h mi s us ay am ad ah ami asec aus w ht];
      unfold stepq_us, stepq_s, stepq_mi, stepq_h, stepq, carry_q, step_mo, step_flag, flag_of, step, carry, b2z;
      rewrite ?gen_sign_is_sgn; unfold sgn; unf_obj; split_ifs; try lia; try reflexivity
    | refine (eq_trans (f_equal (fun x => blet x R) H) _); clear H; unfold blet at 1; cbv beta ] end.

Theorem gen_fix_q_steps : forall D o,
  gen_fix_q D o = GOk (step_flag (step_mo (stepq_h D (stepq_mi D (stepq_s D (stepq_us D o)))))).
Proof.
  intros D o. cbv beta delta [gen_fix_q].
  blkq (stepq_us D o) o.
  blkq (stepq_s D (stepq_us D o)) (stepq_us D o).
  blkq (stepq_mi D (stepq_s D (stepq_us D o))) (stepq_s D (stepq_us D o)).
  blkq (stepq_h D (stepq_mi D (stepq_s D (stepq_us D o)))) (stepq_mi D (stepq_s D (stepq_us D o))).
  blkq (step_mo (stepq_h D (stepq_mi D (stepq_s D (stepq_us D o))))) (stepq_h D (stepq_mi D (stepq_s D (stepq_us D o)))).
  blkq (step_flag (step_mo (stepq_h D (stepq_mi D (stepq_s D (stepq_us D o))))))
       (step_mo (stepq_h D (stepq_mi D (stepq_s D (stepq_us D o))))).
  reflexivity.
Qed.

Theorem gen_fix_q_correct : forall D o, gen_fix_q D o = GOk (obj_of_rd (ctor_q D (rd_of_obj o))).
Proof.
  intros D o. rewrite gen_fix_q_steps. f_equal.
  destruct o as [y mo dd l h mi s us ay am ad ah ami asec aus w ht].
  unfold obj_of_rd, obj_with_flag, ctor_q, fix_q, rd_of_obj, has_time.
  cbn [rel leapdays ab wd f_years f_months f_days f_hours f_minutes f_seconds f_us].
  unfold step_flag, flag_of, step_mo, step, stepq_h, stepq_mi, stepq_s, stepq_us, stepq. unf_obj.
  destruct (carry_q D 1000000 us s) as [us' s1]. cbn [fst snd].
  destruct (carry_q D 60 s1 mi) as [s' mi1]. cbn [fst snd].
  destruct (carry_q D 60 mi1 h) as [mi' h1]. cbn [fst snd].
  destruct (carry_q D 24 h1 dd) as [h' d']. cbn [fst snd].
  destruct (carry 12 mo y) as [mo' y']. cbn [fst snd].
  cbn [rel ab f_years f_months f_days f_hours f_minutes f_seconds f_us
       a_year a_month a_day a_hour a_minute a_second a_us].
  reflexivity.
Qed.

(* denominator 1: the two readings of the same source coincide *)
Theorem gen_fix_q_one : forall o, gen_fix_q 1 o = gen_fix o.
Proof.
  intro o. rewrite gen_fix_q_correct, gen_fix_correct. do 2 f_equal.
  unfold ctor_q, fix_rd. rewrite fix_q_one. reflexivity.
Qed.

(* ---------------------------------------------------------------- normalized(), rational reading *)
Definition scale_rd (D : Z) (d : rd) : rd := mkrd (scale_rel D (rel d)) (leapdays d) (ab d) (wd d).

(* the integer fields normalized() hands to the constructor (RdAlgQModel.normalized_q = build of it) *)
Definition normalized_q_pre (D : Z) (d : rd) : rd :=
  let r := rel d in
  let days := Z.quot (f_days r) D in
  let hours_f := f_hours r + 24 * (f_days r - days * D) in
  let hours := Z.quot hours_f D in
  let minutes_f := f_minutes r + 60 * (hours_f - hours * D) in
  let minutes := Z.quot minutes_f D in
  let seconds_f := f_seconds r + 60 * (minutes_f - minutes * D) in
  let seconds := Z.quot seconds_f D in
  let us := round_half_even (f_us r + 1000000 * (seconds_f - seconds * D)) D in
  mkrd (mkrel (f_years r) (f_months r) days hours minutes seconds us) (leapdays d) (ab d) (wd d).

Lemma normalized_q_is_build : forall D d, normalized_q D d = build (normalized_q_pre D d).
Proof. reflexivity. Qed.

Theorem gen_normalized_q_correct : forall D o,
  gen_normalized_q D o = GOk (obj_of_rd (ctor_q D (scale_rd D (normalized_q_pre D (rd_of_obj o))))).
Proof.
  intros D [y mo dd l h mi s us ay am ad ah ami asec aus w ht].
  unfold gen_normalized_q, gen_init_q. cbv zeta. rewrite gen_fix_q_correct. do 3 f_equal.
Qed.

(* integers read as rationals: _fix commutes with the scaling, so the result of normalized() in the
   rational reading is the integer-model delta normalized_q D d, scaled *)
Lemma sgn_scale : forall D n, 0 < D -> sgn (n * D) = sgn n.
Proof. intros D n HD. unfold sgn. destruct (Z.ltb_spec (n * D) 0), (Z.ltb_spec n 0); try reflexivity; nia. Qed.

Lemma carry_q_scale : forall D b n u, 0 < D -> 0 < b ->
  carry_q D b (n * D) (u * D) = (fst (carry b n u) * D, snd (carry b n u) * D).
Proof.
  intros D b n u HD Hb. unfold carry_q, carry. rewrite sgn_scale by exact HD.
  assert (A : Z.abs (n * D) = Z.abs n * D) by (rewrite Z.abs_mul, (Z.abs_eq D) by lia; reflexivity).
  rewrite A.
  destruct (Z.ltb_spec ((b - 1) * D) (Z.abs n * D)), (Z.ltb_spec (b - 1) (Z.abs n)); try nia; cbn [fst snd].
  - replace (n * D * sgn n) with (n * sgn n * D) by ring.
    rewrite Z.mul_mod_distr_r, Z.div_mul_cancel_r by lia. f_equal; ring.
  - reflexivity.
Qed.

Lemma fix_q_scale : forall D r, 0 < D -> fix_q D (scale_rel D r) = scale_rel D (fix_rel r).
Proof.
  intros D [y mo d h mi s us] HD. unfold fix_q, fix_rel, scale_rel.
  cbn [f_years f_months f_days f_hours f_minutes f_seconds f_us].
  rewrite (carry_q_scale D 1000000 us s) by lia.
  destruct (carry 1000000 us s) as [us' s1]. cbn [fst snd].
  rewrite (carry_q_scale D 60 s1 mi) by lia.
  destruct (carry 60 s1 mi) as [s' mi1]. cbn [fst snd].
  rewrite (carry_q_scale D 60 mi1 h) by lia.
  destruct (carry 60 mi1 h) as [mi' h1]. cbn [fst snd].
  rewrite (carry_q_scale D 24 h1 d) by lia.
  destruct (carry 24 h1 d) as [h' d']. cbn [fst snd].
  destruct (carry 12 mo y) as [mo' y']. reflexivity.
Qed.

Theorem gen_normalized_q_scaled : forall D o, 0 < D ->
  gen_normalized_q D o = GOk (obj_of_rd (scale_rd D (normalized_q D (rd_of_obj o)))).
Proof.
  intros D o HD. rewrite gen_normalized_q_correct, normalized_q_is_build. do 2 f_equal.
  unfold ctor_q, scale_rd, build, fix_rd. cbn [rel leapdays ab wd]. rewrite fix_q_scale by exact HD. reflexivity.
Qed.
