(* C16: the definitions REGENERATED from /repo's source on every run (gen/RdMethodsGen.v, by
   harness/gen_rd_methods.py) equal the hand-written model (rd/RdModel.v) for ALL inputs, and
   never raise AttributeError.  The proofs go through normal forms (one semantic step per source
   block, then one comparison with the model), so renaming locals or reordering independent
   assignments inside a block does not disturb them; a changed constant, operator, field, sign or
   block order does. *)
From Coq Require Import ZArith List Bool Lia ZifyBool.
From V Require Import base.Cal gen.RdTables rd.RdBase rd.RdModel rd.RdAlgModel rd.RdAlgSpec rd.RdAlgThm
  rd.RdGenBase gen.RdMethodsGen.
Import ListNotations.
Open Scope Z_scope.

Definition obj_of_rd (d : rd) : obj := obj_with_flag d (b2z (has_time d)).

Lemma rd_of_obj_of_rd : forall d, rd_of_obj (obj_of_rd d) = d.
Proof. intros [[y mo dd h mi s us] l [ay am ad ah ami asec aus] w]. reflexivity. Qed.

Ltac unf_obj :=
  cbv beta iota zeta delta [set_o_years set_o_months set_o_days set_o_leapdays set_o_hours set_o_minutes
    set_o_seconds set_o_microseconds set_o_has_time o_years o_months o_days o_leapdays o_hours o_minutes
    o_seconds o_microseconds o_year o_month o_day o_hour o_minute o_second o_microsecond o_weekday
    o_has_time fst snd].

Ltac split_ifs :=
  repeat match goal with |- context [if ?c then _ else _] =>
    lazymatch c with context [if _ then _ else _] => fail | _ => destruct c eqn:? end end.

(* equality of two conjunction chains over the same atoms, whatever their order / nesting *)
Ltac and_chain :=
  first [ reflexivity
        | rewrite <- ?andb_assoc; reflexivity
        | apply eq_true_iff_eq; rewrite ?andb_true_iff; tauto ].

Lemma gen_sign_is_sgn : forall x, gen_sign x = sgn x.
Proof. reflexivity. Qed.

(* ---------------------------------------------------------------- _fix, block by block *)
(* the semantic content of one `if abs(self.lo) > base-1: ...` block *)
Definition step (get getup : obj -> Z) (set setup : obj -> Z -> obj) (base : Z) (o : obj) : obj :=
  let c := carry base (get o) (getup o) in setup (set o (fst c)) (snd c).

Definition step_us := step o_microseconds o_seconds set_o_microseconds set_o_seconds 1000000.
Definition step_s := step o_seconds o_minutes set_o_seconds set_o_minutes 60.
Definition step_mi := step o_minutes o_hours set_o_minutes set_o_hours 60.
Definition step_h := step o_hours o_days set_o_hours set_o_days 24.
Definition step_mo := step o_months o_years set_o_months set_o_years 12.
Definition flag_of (o : obj) : bool :=
  truth_z (o_hours o) || truth_z (o_minutes o) || truth_z (o_seconds o) || truth_z (o_microseconds o)
  || truth_opt (o_hour o) || truth_opt (o_minute o) || truth_opt (o_second o) || truth_opt (o_microsecond o).
Definition step_flag (o : obj) : obj := set_o_has_time o (b2z (flag_of o)).

(* goal  blet X R = rhs : replace the block X by its semantic step *)
Ltac blk expected cur :=
  lazymatch goal with |- blet ?X ?R = ?rhs =>
    let H := fresh "H" in
    assert (H : X = expected);
    [ generalize cur; clear; intros [y mo dd l h mi s us ay am ad ah ami asec aus w ht];
      unfold step_us, step_s, step_mi, step_h, step_mo, step_flag, flag_of, step, carry, b2z;
      rewrite ?gen_sign_is_sgn; unfold sgn; unf_obj; split_ifs; try lia; try reflexivity
    | refine (eq_trans (f_equal (fun x => blet x R) H) _); clear H; unfold blet at 1; cbv beta ] end.

Theorem gen_fix_steps : forall o,
  gen_fix o = GOk (step_flag (step_mo (step_h (step_mi (step_s (step_us o)))))).
Proof.
  intro o. cbv beta delta [gen_fix].
  blk (step_us o) o.
  blk (step_s (step_us o)) (step_us o).
  blk (step_mi (step_s (step_us o))) (step_s (step_us o)).
  blk (step_h (step_mi (step_s (step_us o)))) (step_mi (step_s (step_us o))).
  blk (step_mo (step_h (step_mi (step_s (step_us o))))) (step_h (step_mi (step_s (step_us o)))).
  blk (step_flag (step_mo (step_h (step_mi (step_s (step_us o))))))
      (step_mo (step_h (step_mi (step_s (step_us o))))).
  reflexivity.
Qed.

Theorem gen_fix_correct : forall o, gen_fix o = GOk (obj_of_rd (fix_rd (rd_of_obj o))).
Proof.
  intro o. rewrite gen_fix_steps. f_equal.
  destruct o as [y mo dd l h mi s us ay am ad ah ami asec aus w ht].
  unfold obj_of_rd, obj_with_flag, fix_rd, rd_of_obj. cbn [rel leapdays ab wd]. rewrite fix_rel_unfold.
  unfold has_time, c5, c4, c3, c2, c1, step_flag, flag_of, step_mo, step_h, step_mi, step_s, step_us, step.
  cbn [rel ab f_years f_months f_days f_hours f_minutes f_seconds f_us
       a_year a_month a_day a_hour a_minute a_second a_us].
  unf_obj. reflexivity.
Qed.

Theorem gen_init_correct : forall o, gen_init o = GOk (obj_of_rd (fix_rd (rd_of_obj o))).
Proof. exact gen_fix_correct. Qed.

(* ---------------------------------------------------------------- _set_months *)
Theorem gen_set_months_correct : forall o m,
  gen_set_months o m = GOk (obj_with_flag (set_months (rd_of_obj o) m) (o_has_time o)).
Proof.
  intros [y mo dd l h mi s us ay am ad ah ami asec aus w ht] m.
  unfold gen_set_months, set_months, obj_with_flag, rd_of_obj, blet. rewrite ?gen_sign_is_sgn.
  cbn [rel leapdays ab wd f_years f_months f_days f_hours f_minutes f_seconds f_us
       a_year a_month a_day a_hour a_minute a_second a_us].
  unf_obj. split_ifs; try lia; reflexivity.
Qed.

(* ---------------------------------------------------------------- operators *)
Lemma if_truth_first_some : forall (A : Type) (x y : option A),
  (if truth_opt x then x else y) = first_some x y.
Proof. intros A [a|] y; reflexivity. Qed.

Ltac via_fix :=
  unfold gen_init; rewrite gen_fix_correct; do 2 f_equal;
  try (unfold neg, abs_rd, add_rd, sub_rd, mul_int, mul_with, build, fix_rd, rd_of_obj, map_rel, zip_rel,
              zip_abs, nz, or_zz, truth_z;
       cbn [rel leapdays ab wd f_years f_months f_days f_hours f_minutes f_seconds f_us
            a_year a_month a_day a_hour a_minute a_second a_us];
       unf_obj; repeat first [ reflexivity | lia | progress f_equal ]).

Theorem gen_neg_correct : forall o, gen_neg o = GOk (obj_of_rd (neg (rd_of_obj o))).
Proof.
  intros [y mo dd l h mi s us ay am ad ah ami asec aus w ht]. unfold gen_neg. via_fix.
Qed.

Theorem gen_abs_correct : forall o, gen_abs o = GOk (obj_of_rd (abs_rd (rd_of_obj o))).
Proof.
  intros [y mo dd l h mi s us ay am ad ah ami asec aus w ht]. unfold gen_abs. via_fix.
Qed.

Theorem gen_mul_correct : forall o k, gen_mul o k = GOk (obj_of_rd (mul_int (rd_of_obj o) k)).
Proof.
  intros [y mo dd l h mi s us ay am ad ah ami asec aus w ht] k. unfold gen_mul. cbv zeta. via_fix.
Qed.

Theorem gen_add_correct : forall a b,
  gen_add a b = GOk (obj_of_rd (add_rd (rd_of_obj a) (rd_of_obj b))).
Proof.
  intros [y mo dd l h mi s us ay am ad ah ami asec aus w ht]
         [y' mo' dd' l' h' mi' s' us' ay' am' ad' ah' ami' asec' aus' w' ht'].
  unfold gen_add. unf_obj. rewrite !if_truth_first_some. via_fix.
Qed.

Theorem gen_sub_correct : forall a b,
  gen_sub a b = GOk (obj_of_rd (sub_rd (rd_of_obj a) (rd_of_obj b))).
Proof.
  intros [y mo dd l h mi s us ay am ad ah ami asec aus w ht]
         [y' mo' dd' l' h' mi' s' us' ay' am' ad' ah' ami' asec' aus' w' ht'].
  unfold gen_sub. unf_obj. rewrite !if_truth_first_some. via_fix.
Qed.

Theorem gen_add_td_correct : forall o t,
  gen_add_td o t = GOk (obj_of_rd (add_td (rd_of_obj o) (td_days t) (td_seconds t) (td_microseconds t))).
Proof.
  intros [y mo dd l h mi s us ay am ad ah ami asec aus w ht] [[td ts] tu].
  unfold gen_add_td, add_td, td_days, td_seconds, td_microseconds. unf_obj. via_fix.
Qed.

(* normalized() read on integer fields: int(), round(x, k), round(x) of an integer are the integer *)
Theorem gen_normalized_correct : forall o, gen_normalized o = GOk (obj_of_rd (normalized (rd_of_obj o))).
Proof.
  intros [y mo dd l h mi s us ay am ad ah ami asec aus w ht]. unfold gen_normalized, normalized. cbv zeta.
  unf_obj. via_fix.
Qed.

(* ---------------------------------------------------------------- __bool__, __eq__, __hash__ *)
Theorem gen_bool_correct : forall o, gen_bool o = GOk (rd_bool (rd_of_obj o)).
Proof.
  intros [y mo dd l h mi s us ay am ad ah ami asec aus w ht]. unfold gen_bool, rd_bool, rd_of_obj.
  cbn [rel leapdays ab wd f_years f_months f_days f_hours f_minutes f_seconds f_us
       a_year a_month a_day a_hour a_minute a_second a_us].
  unf_obj. f_equal; first [ reflexivity | f_equal; and_chain ].
Qed.

Theorem gen_eq_correct : forall a b, gen_eq a b = GOk (eqb (rd_of_obj a) (rd_of_obj b)).
Proof.
  intros [y mo dd l h mi s us ay am ad ah ami asec aus w ht]
         [y' mo' dd' l' h' mi' s' us' ay' am' ad' ah' ami' asec' aus' w' ht'].
  unfold gen_eq, eqb, rel_eqb, abs_eqb, wd_eqb, rd_of_obj.
  cbn [rel leapdays ab wd f_years f_months f_days f_hours f_minutes f_seconds f_us
       a_year a_month a_day a_hour a_minute a_second a_us].
  unf_obj.
  destruct w as [[k1 [n1|]]|], w' as [[k2 [n2|]]|];
    cbn [truth_opt orb negb wd_weekday wd_n gbind opt_eqb ozeqb n_is_default truth_oz andb];
    split_ifs;
    cbn [truth_opt orb negb wd_weekday wd_n gbind opt_eqb ozeqb n_is_default truth_oz andb];
    try (f_equal; and_chain);
    try (exfalso; lia).
Qed.

Theorem gen_ne_correct : forall a b, gen_ne a b = GOk (negb (eqb (rd_of_obj a) (rd_of_obj b))).
Proof. intros a b. unfold gen_ne. rewrite gen_eq_correct. reflexivity. Qed.

(* the tuple handed to hash(), in the order of the source *)
Definition tuple_of_key (k : option (Z * Z) * relf * Z * absf) :=
  let '(w, r, l, a) := k in
  (w, f_years r, f_months r, f_days r, f_hours r, f_minutes r, f_seconds r, f_us r, l,
   a_year a, a_month a, a_day a, a_hour a, a_minute a, a_second a, a_us a).

Theorem gen_hash_correct : forall o, gen_hash o = GOk (tuple_of_key (hash_key (rd_of_obj o))).
Proof.
  intros [y mo dd l h mi s us ay am ad ah ami asec aus w ht]. unfold gen_hash.
  destruct w as [[k [n|]]|]; reflexivity.
Qed.

Lemma tuple_of_key_inj : forall k k', tuple_of_key k = tuple_of_key k' -> k = k'.
Proof.
  intros [[[w [y mo d h mi s us]] l] [ay am ad ah ami asec aus]]
         [[[w' [y' mo' d' h' mi' s' us']] l'] [ay' am' ad' ah' ami' asec' aus']].
  cbn. intro H. inversion H. reflexivity.
Qed.

(* ---------------------------------------------------------------- _common.weekday *)
Theorem gen_wd_eq_correct : forall a b, gen_wd_eq a b = GOk true <-> a = b.
Proof.
  intros [k1 n1] [k2 n2]. unfold gen_wd_eq. cbn [fst snd].
  destruct (Z.eqb_spec k1 k2) as [E|E]; cbn [negb orb].
  - destruct n1 as [v1|], n2 as [v2|]; cbn [ozeqb negb];
      try destruct (Z.eqb_spec v1 v2); cbn [negb]; split; intro H;
      try discriminate; try reflexivity; try (inversion H; congruence); try congruence.
  - split; intro H; [discriminate | inversion H; contradiction].
Qed.

Theorem gen_wd_eq_total : forall a b, exists r, gen_wd_eq a b = GOk r.
Proof. intros a b. unfold gen_wd_eq. destruct (_ || _); eexists; reflexivity. Qed.

Theorem gen_wd_init_correct : forall w k n, gen_wd_init w k n = GOk (k, n).
Proof. intros [k0 n0] k n. reflexivity. Qed.

(* MO(n): the same weekday with that n (the very object when n is unchanged) *)
Theorem gen_wd_call_correct : forall w n, gen_wd_call w n = GOk (fst w, n).
Proof.
  intros [k n0] n. unfold gen_wd_call. cbn [fst snd].
  destruct (ozeqb n n0) eqn:E; [| reflexivity].
  destruct n as [v|], n0 as [v0|]; cbn [ozeqb] in E; try discriminate; try reflexivity.
  apply Z.eqb_eq in E. subst. reflexivity.
Qed.

Theorem gen_wd_hash_correct : forall a, gen_wd_hash a = GOk a.
Proof. intros [k n]. reflexivity. Qed.
