(* C03 / C09: the definitions REGENERATED from /repo's source on every run (gen/RdAddGen.v, by
   harness/gen_rd_add.py) equal the hand-written model (rd/RdModel.v) for ALL inputs. *)
From Coq Require Import ZArith List Bool Lia ZifyBool.
From V Require Import base.Cal gen.RdTables rd.RdBase rd.RdModel rd.RdSpec rd.RdAddThm rd.RdDiffThm rd.RdAddThm2
  rd.RdAlgModel rd.RdAlgSpec rd.RdAlgThm rd.RdGenBase gen.RdMethodsGen rd.RdGenThm rd.RdAddGenBase gen.RdAddGen.
Import ListNotations.
Open Scope Z_scope.

Ltac unf_obj2 :=
  cbv beta iota zeta delta [set_o_years set_o_months set_o_days set_o_leapdays set_o_hours set_o_minutes
    set_o_seconds set_o_microseconds set_o_has_time set_o_year set_o_month set_o_day set_o_hour set_o_minute
    set_o_second set_o_microsecond set_o_weekday o_years o_months o_days o_leapdays o_hours o_minutes
    o_seconds o_microseconds o_year o_month o_day o_hour o_minute o_second o_microsecond o_weekday
    o_has_time obj_of_rd obj_with_flag obj0 rel ab wd leapdays f_years f_months f_days f_hours f_minutes
    f_seconds f_us a_year a_month a_day a_hour a_minute a_second a_us].

Lemma truth_b2z b : truth_z (b2z b) = b.
Proof. destruct b; reflexivity. Qed.

Lemma if_ok_bind {A B} (c : bool) (a b : A) (K : A -> res B) :
  bind (if c then Ok a else Ok b) K = K (if c then a else b).
Proof. destruct c; reflexivity. Qed.

Lemma opt_set_bind {B} (a : option Z) (r : replv) (setf : replv -> Z -> replv) (K : replv -> res B) :
  bind (match a with Some v => Ok (setf r v) | None => Ok r end) K
  = K (match a with Some v => setf r v | None => r end).
Proof. destruct a; reflexivity. Qed.

Lemma bind_ok_id {A} (x : res A) : bind x (fun a => Ok a) = x.
Proof. destruct x; reflexivity. Qed.

Lemma dt_year_ym o : dt_year o = fst (ym_of o).
Proof. destruct o; reflexivity. Qed.
Lemma dt_month_ym o : dt_month o = snd (ym_of o).
Proof. destruct o; reflexivity. Qed.

(* x.replace( **repl) with the dictionary __add__ builds = the model's replace stage *)
Lemma py_replace_stage o yy mm day ah ami asec aus :
  (1 <=? mm) && (mm <=? 12) = true ->
  (is_datetime o = false -> ah = None /\ ami = None /\ asec = None /\ aus = None) ->
  py_replace o (mkrepl (Some yy) (Some mm) (Some day) ah ami asec aus) =
  match o with
  | PD _ _ _ =>
      if negb (in_c_int yy && in_c_int day) then Err EOverflow
      else if valid_ymd yy mm day then Ok (PD yy mm day) else Err EValue
  | PDT _ _ _ hh mi ss us =>
      if negb (in_c_int yy && in_c_int day && opt_in_c_int ah && opt_in_c_int ami
               && opt_in_c_int asec && opt_in_c_int aus) then Err EOverflow
      else
        if valid_ymd yy mm day && valid_time (get ah hh) (get ami mi) (get asec ss) (get aus us)
        then Ok (PDT yy mm day (get ah hh) (get ami mi) (get asec ss) (get aus us)) else Err EValue
  end.
Proof.
  intros Hm HP. assert (Cm : in_c_int mm = true) by (unfold in_c_int; lia).
  destruct o as [oy om od | oy om od hh mi ss us].
  - destruct (HP eq_refl) as (-> & -> & -> & ->). unfold py_replace.
    cbn [r_year r_month r_day r_hour r_minute r_second r_microsecond get opt_in_c_int].
    rewrite Cm, andb_true_r. reflexivity.
  - unfold py_replace. cbn [r_year r_month r_day r_hour r_minute r_second r_microsecond get opt_in_c_int].
    rewrite Cm, andb_true_r. reflexivity.
Qed.

Lemma repl_chain yy mm day ah ami asec aus :
  match aus with
  | Some v => set_r_microsecond
      match asec with
      | Some v0 => set_r_second
          match ami with
          | Some v1 => set_r_minute
              match ah with
              | Some v2 => set_r_hour (set_r_day (set_r_month (set_r_year repl_empty yy) mm) day) v2
              | None => set_r_day (set_r_month (set_r_year repl_empty yy) mm) day
              end v1
          | None => match ah with
              | Some v2 => set_r_hour (set_r_day (set_r_month (set_r_year repl_empty yy) mm) day) v2
              | None => set_r_day (set_r_month (set_r_year repl_empty yy) mm) day
              end
          end v0
      | None => match ami with
          | Some v1 => set_r_minute
              match ah with
              | Some v2 => set_r_hour (set_r_day (set_r_month (set_r_year repl_empty yy) mm) day) v2
              | None => set_r_day (set_r_month (set_r_year repl_empty yy) mm) day
              end v1
          | None => match ah with
              | Some v2 => set_r_hour (set_r_day (set_r_month (set_r_year repl_empty yy) mm) day) v2
              | None => set_r_day (set_r_month (set_r_year repl_empty yy) mm) day
              end
          end
      end v
  | None => match asec with
      | Some v0 => set_r_second
          match ami with
          | Some v1 => set_r_minute
              match ah with
              | Some v2 => set_r_hour (set_r_day (set_r_month (set_r_year repl_empty yy) mm) day) v2
              | None => set_r_day (set_r_month (set_r_year repl_empty yy) mm) day
              end v1
          | None => match ah with
              | Some v2 => set_r_hour (set_r_day (set_r_month (set_r_year repl_empty yy) mm) day) v2
              | None => set_r_day (set_r_month (set_r_year repl_empty yy) mm) day
              end
          end v0
      | None => match ami with
          | Some v1 => set_r_minute
              match ah with
              | Some v2 => set_r_hour (set_r_day (set_r_month (set_r_year repl_empty yy) mm) day) v2
              | None => set_r_day (set_r_month (set_r_year repl_empty yy) mm) day
              end v1
          | None => match ah with
              | Some v2 => set_r_hour (set_r_day (set_r_month (set_r_year repl_empty yy) mm) day) v2
              | None => set_r_day (set_r_month (set_r_year repl_empty yy) mm) day
              end
          end
      end
  end = mkrepl (Some yy) (Some mm) (Some day) ah ami asec aus.
Proof. destruct ah, ami, asec, aus; reflexivity. Qed.

Lemma bind_inner_id {A B} (x : res A) (F : A -> res B) :
  bind x (fun t => bind (F t) (fun r => Ok r)) = bind x F.
Proof. destruct x; cbn [bind]; [apply bind_ok_id | reflexivity]. Qed.

Lemma py_timedelta_days j : py_timedelta j 0 0 0 0 = mk_timedelta (j * us_day).
Proof. unfold py_timedelta. f_equal. unfold us_sec, us_day. lia. Qed.

Lemma py_timedelta_rel d h mi s us :
  py_timedelta d h mi s us = mk_timedelta (rel_us (mkrel 0 0 d h mi s us)).
Proof. reflexivity. Qed.

Ltac step :=
  match goal with |- bind ?X _ = bind ?X _ => destruct X; cbn [bind]; [|reflexivity] end.

Theorem gen_add_dt_correct d o : gen_add_dt (obj_of_rd d) o = add_dt d o.
Proof.
  rewrite add_dt_body. unfold add_body, gen_add_dt, stage_ym, stage_replace, stage_td, stage_wd.
  destruct d as [[y mo dd h mi s us] l [ay am ad ah ami asec aus] w].
  unf_obj2. rewrite truth_b2z.
  set (ht := has_time _).
  (* promotion *)
  assert (E0 : (if ht && negb (is_datetime o) then Ok (promote o) else Ok o) = Ok (if ht then promote o else o))
    by (destruct ht, o; reflexivity).
  rewrite E0. cbn [bind].
  assert (HP : is_datetime (if ht then promote o else o) = false ->
               ah = None /\ ami = None /\ asec = None /\ aus = None).
  { intros K. assert (Hf : ht = false) by (destruct ht; [destruct o; discriminate | reflexivity]).
    unfold ht, has_time in Hf. cbn [rel ab a_hour a_minute a_second a_us] in Hf.
    destruct ah, ami, asec, aus; try (rewrite ?orb_true_r in Hf; discriminate). auto. }
  set (o' := if ht then promote o else o) in *. clearbody o' ht.
  rewrite !dt_year_ym, !dt_month_ym.
  change py_or with or_ozz.
  (* year / month with the single carry *)
  match goal with |- bind ?G ?KG = bind ?H ?KH =>
    assert (EG : G = bind H (fun ym => Ok (snd ym, fst ym))) end.
  { unfold truth_z, py_assert. destruct (mo =? 0); cbn [negb bind fst snd]; [reflexivity|].
    destruct ((1 <=? Z.abs mo) && (Z.abs mo <=? 12)); cbn [negb bind]; [|reflexivity].
    destruct (12 <? or_ozz am (snd (ym_of o')) + mo); cbn [bind fst snd]; [reflexivity|].
    destruct (or_ozz am (snd (ym_of o')) + mo <? 1); reflexivity. }
  rewrite EG, <- bind_assoc. clear EG.
  match goal with |- bind ?H _ = _ => destruct H as [[yy mm]|e] end; cbn [bind fst snd]; [|reflexivity].
  (* monthrange, the keyword dictionary, replace *)
  unfold py_monthrange_ndays. destruct ((1 <=? mm) && (mm <=? 12)) eqn:EM; cbn [negb bind]; [|reflexivity].
  rewrite !opt_set_bind, repl_chain, if_ok_bind.
  rewrite (py_replace_stage o' yy mm _ ah ami asec aus EM HP).
  destruct o' as [oy om od | oy om od ohh omi oss ous]; cbn [dt_day]; step.
  - (* date *)
    rewrite py_timedelta_rel. unfold nz, truth_z. step.
    unfold py_dt_add. step.
    destruct w as [[w0 n]|]; cbn [truth_opt bind fst snd]; [|reflexivity].
    rewrite bind_ok_id, if_ok_bind, bind_inner_id, py_timedelta_days. reflexivity.
  - rewrite py_timedelta_rel. unfold nz, truth_z. step.
    unfold py_dt_add. step.
    destruct w as [[w0 n]|]; cbn [truth_opt bind fst snd]; [|reflexivity].
    rewrite bind_ok_id, if_ok_bind, bind_inner_id, py_timedelta_days. reflexivity.
Qed.

Theorem gen_radd_dt_correct d o : gen_radd_dt (obj_of_rd d) o = radd d o.
Proof. unfold gen_radd_dt, radd. rewrite bind_ok_id. apply gen_add_dt_correct. Qed.

Theorem gen_rsub_dt_correct d o : gen_rsub_dt (obj_of_rd d) o = rsub d o.
Proof.
  unfold gen_rsub_dt, rsub. rewrite gen_neg_correct, rd_of_obj_of_rd. cbn [of_gres bind].
  rewrite bind_ok_id. apply gen_radd_dt_correct.
Qed.

(* ---------------------------------------------------------------- relativedelta(dt1, dt2) *)
Definition lift_rd (r : res rd) : res obj :=
  match r with Ok d => Ok (obj_of_rd d) | Err e => Err e end.

Lemma has_time_set_months k : has_time (set_months rd0 k) = false.
Proof. unfold set_months. destruct (11 <? Z.abs k); reflexivity. Qed.

Lemma set_months_twice k k' : set_months (set_months rd0 k) k' = set_months rd0 k'.
Proof. unfold set_months. destruct (11 <? Z.abs k); destruct (11 <? Z.abs k'); reflexivity. Qed.

Lemma obj_of_set_months k : obj_with_flag (set_months rd0 k) 0 = obj_of_rd (set_months rd0 k).
Proof. unfold obj_of_rd. rewrite has_time_set_months. reflexivity. Qed.

Lemma gen_set_months_on_shifted k k' :
  of_gres (gen_set_months (obj_of_rd (set_months rd0 k)) k') = Ok (obj_of_rd (set_months rd0 k')).
Proof.
  rewrite gen_set_months_correct, rd_of_obj_of_rd, set_months_twice.
  unfold obj_of_rd at 1. cbn [obj_with_flag o_has_time]. rewrite has_time_set_months. cbn [b2z of_gres].
  rewrite obj_of_set_months. reflexivity.
Qed.

Lemma gen_loop_correct fuel : forall (lt : bool) c1 c2 months dtm,
  gen_init_diff_loop fuel (if lt then CmpGt else CmpLt) c1 (if lt then 1 else -1) c2 months
                     (obj_of_rd (set_months rd0 months)) dtm
  = match diff_loop fuel lt c1 c2 months dtm with
    | Ok (m, x) => Ok (m, obj_of_rd (set_months rd0 m), x)
    | Err e => Err e
    end.
Proof.
  induction fuel as [|n IH]; intros lt c1 c2 months dtm; [reflexivity|].
  cbn [gen_init_diff_loop diff_loop].
  assert (EC : py_compare (if lt then CmpGt else CmpLt) c1 dtm
               = (if lt then lin dtm <? lin c1 else lin c1 <? lin dtm)) by (destruct lt; reflexivity).
  rewrite EC. destruct (if lt then lin dtm <? lin c1 else lin c1 <? lin dtm); [|reflexivity].
  rewrite gen_set_months_on_shifted. cbn [bind]. rewrite gen_radd_dt_correct. unfold radd.
  destruct (add_dt (set_months rd0 (months + (if lt then 1 else -1))) c2) as [x|e]; cbn [bind]; [|reflexivity].
  apply IH.
Qed.

Lemma tdz_date_residual a : 
  tdz_seconds (a * us_day) + tdz_days (a * us_day) * 86400 = a * 86400 /\ tdz_microseconds (a * us_day) = 0.
Proof. unfold tdz_seconds, tdz_days, tdz_microseconds, us_day, us_sec. lia. Qed.

Theorem gen_init_diff_correct dt1 dt2 : gen_init_diff dt1 dt2 = lift_rd (mk_diff dt1 dt2).
Proof.
  rewrite mk_diff_core_eq. unfold gen_init_diff.
  (* the date/datetime coercion *)
  match goal with |- bind ?G _ = _ => assert (EG : G = Ok (coerce_pair dt1 dt2)) end.
  { unfold coerce_pair. destruct dt1, dt2; reflexivity. }
  rewrite EG. clear EG. cbn [bind].
  destruct (coerce_pair dt1 dt2) as [c1 c2]. cbn [fst snd].
  unfold mk_diff_core. rewrite <- !dt_year_ym, <- !dt_month_ym.
  set (m0 := (dt_year c1 - dt_year c2) * 12 + (dt_month c1 - dt_month c2)).
  (* self after the 17 assignments is the empty delta *)
  unf_obj2. change (mkobj 0 0 0 0 0 0 0 0 None None None None None None None None 0) with (obj_of_rd (set_months rd0 0)).
  rewrite gen_set_months_on_shifted. cbn [bind]. rewrite gen_radd_dt_correct. unfold radd.
  destruct (add_dt (set_months rd0 m0) c2) as [dtm|e]; cbn [bind lift_rd]; [|reflexivity].
  rewrite if_ok_bind.
  assert (EP : (if py_dt_lt c1 c2 then (CmpGt, 1) else (CmpLt, -1))
               = ((if lin c1 <? lin c2 then CmpGt else CmpLt), (if lin c1 <? lin c2 then 1 else -1)))
    by (unfold py_dt_lt; destruct (lin c1 <? lin c2); reflexivity).
  rewrite EP. cbv iota beta. rewrite gen_loop_correct.
  destruct (diff_loop diff_fuel (lin c1 <? lin c2) c1 c2 m0 dtm) as [[m x]|e]; cbn [bind lift_rd fst snd]; [|reflexivity].
  rewrite gen_fix_correct. cbn [of_gres bind]. do 3 f_equal.
  destruct (set_months_shape m) as (y & mo & -> & _).
  unfold rd_of_obj, obj_of_rd, obj_with_flag.
  cbn [o_years o_months o_days o_leapdays o_hours o_minutes o_seconds o_microseconds o_year o_month o_day
       o_hour o_minute o_second o_microsecond o_weekday rel ab wd leapdays f_years f_months f_days f_hours
       f_minutes f_seconds f_us a_year a_month a_day a_hour a_minute a_second a_us abs0].
  unfold py_dt_sub. destruct c1 as [cy cm cd | cy cm cd chh cmi css cus].
  - destruct (tdz_date_residual (lin (PD cy cm cd) - lin x)) as [-> ->]. reflexivity.
  - reflexivity.
Qed.

(* ---------------------------------------------------------------- yearday / nlyearday *)
(* the part of the keyword constructor between `yday = 0` and `self._fix()`, as the hand model
   (RdModel.mk) computes it, on the attribute record *)
Definition hand_yearday (o : obj) (yearday nlyearday : option Z) : res obj :=
  let '(yday, leap) :=
    match truthy nlyearday with
    | Some v => (v, o_leapdays o)
    | None =>
        match truthy yearday with
        | Some v => (v, if (59 <? v) && (v <? 366) then -1 else o_leapdays o)
        | None => (0, o_leapdays o)
        end
    end in
  if yday =? 0 then Ok (set_o_leapdays o leap)
  else
    match yday_lookup ydayidx 0 0 yday with
    | None => Err EValue
    | Some (mo, dd) => Ok (set_o_day (set_o_month (set_o_leapdays o leap) (Some mo)) (Some dd))
    end.

Theorem gen_init_yearday_correct o yearday nlyearday :
  gen_init_yearday o yearday nlyearday = hand_yearday o yearday nlyearday.
Proof.
  destruct o as [y mo dd l h mi s us ay am ad ah ami asec aus w ht].
  unfold gen_init_yearday, hand_yearday, truthy, truth_z.
  destruct nlyearday as [nl|]; [destruct (nl =? 0) eqn:ENL|];
  (destruct yearday as [yd|]; [destruct (yd =? 0) eqn:EYD|]);
  cbn [negb bind]; unf_obj2;
  try (destruct ((59 <? yd) && (yd <? 366)); cbn [bind]);
  rewrite ?ENL, ?EYD; cbn [negb Z.eqb];
  try reflexivity;
  unfold ydayidx; cbn [yday_lookup];
  repeat match goal with |- context [?a <=? ?b] => destruct (a <=? b) end;
  reflexivity.
Qed.

(* the keyword constructor: the attribute record after the plain assignments of __init__ (their
   shape is checked by gen_rd_methods.check_init_shape), then the translated yearday conversion,
   then the translated _fix = the hand model's mk *)
Definition raw_obj (k : kwargs) (w : option wdv) : obj :=
  let r := k_rel k in
  obj_with_flag (mkrd (mkrel (f_years r) (f_months r) (f_days r + k_weeks k * 7) (f_hours r)
                             (f_minutes r) (f_seconds r) (f_us r)) (k_leapdays k) (k_abs k) w) 0.

Theorem gen_mk_correct k w : conv_wd (k_wd k) = Ok w ->
  bind (gen_init_yearday (raw_obj k w) (k_yearday k) (k_nlyearday k)) (fun o => of_gres (gen_fix o))
  = lift_rd (mk k).
Proof.
  intros Hw. rewrite gen_init_yearday_correct. unfold mk, hand_yearday. rewrite Hw. cbn [bind].
  change (o_leapdays (raw_obj k w)) with (k_leapdays k).
  destruct (match truthy (k_nlyearday k) with Some _ => _ | None => _ end) as [yday leap].
  destruct (yday =? 0).
  - cbn [bind lift_rd]. rewrite gen_fix_correct. reflexivity.
  - destruct (yday_lookup ydayidx 0 0 yday) as [[mo dd]|]; [|reflexivity].
    cbn [bind lift_rd]. rewrite gen_fix_correct. reflexivity.
Qed.

(* ---------------------------------------------------------------- end to end, on the translated source *)
(* the code translated from /repo satisfies the C03 specification ... *)
Theorem gen_add_dt_spec d o : wf_rd d = true -> valid_dt o = true ->
  res_opt (gen_add_dt (obj_of_rd d) o) = spec_add d o.
Proof. intros W V. rewrite gen_add_dt_correct. apply add_dt_spec; assumption. Qed.

(* ... and the C09 inverse law: the translated two-datetime constructor followed by the translated
   __add__ carries dt2 onto dt1, and the result satisfies the full predicate diff_ok *)
Theorem gen_diff_inverse dt1 dt2 : valid_dt dt1 = true -> valid_dt dt2 = true ->
  exists d, gen_init_diff dt1 dt2 = Ok (obj_of_rd d) /\ diff_ok dt1 dt2 d = true /\
    gen_add_dt (obj_of_rd d) (snd (coerce_pair dt1 dt2)) = Ok (fst (coerce_pair dt1 dt2)).
Proof.
  intros V1 V2. destruct (diff_correct dt1 dt2 V1 V2) as (d & E & OK & A).
  exists d. rewrite gen_init_diff_correct, E, gen_add_dt_correct. auto.
Qed.
