(* Run-time library of the source translator harness/gen_rd_add.py (-> gen/RdAddGen.v): the
   vocabulary into which relativedelta.__add__ (date / datetime operand), __radd__, __rsub__, the
   two-datetime branch of __init__ and the yearday / nlyearday conversion are translated.
   It extends rd/RdGenBase.v (obj = one field per instance attribute) with the CALL TABLE: every
   library call the translator accepts is mapped to exactly one definition of this file (or of
   base/Cal.v, rd/RdBase.v, rd/RdModel.v).  CPython's datetime / calendar are MODELLED by these
   definitions (trusted base), as in the hand model.  Hand-written, no proofs. *)
From Coq Require Import ZArith List Bool.
From V Require Import base.Cal rd.RdBase rd.RdModel rd.RdGenBase.
Import ListNotations.
Open Scope Z_scope.

(* a method translated by gen_rd_methods.py returns [gres] (GErr = AttributeError); here every
   exception class has its constructor of RdBase.err; AttributeError and TypeError, which no
   translated path can raise, share EIndex *)
Definition of_gres {A : Type} (r : gres A) : res A :=
  match r with GOk a => Ok a | GErr => Err EIndex end.

(* ---- attribute writes of the option-valued attributes (RdGenBase has the integer ones) *)
Definition set_o_year (o : obj) (v : option Z) : obj :=
  mkobj (o_years o) (o_months o) (o_days o) (o_leapdays o) (o_hours o) (o_minutes o) (o_seconds o) (o_microseconds o)
        v (o_month o) (o_day o) (o_hour o) (o_minute o) (o_second o) (o_microsecond o) (o_weekday o) (o_has_time o).
Definition set_o_month (o : obj) (v : option Z) : obj :=
  mkobj (o_years o) (o_months o) (o_days o) (o_leapdays o) (o_hours o) (o_minutes o) (o_seconds o) (o_microseconds o)
        (o_year o) v (o_day o) (o_hour o) (o_minute o) (o_second o) (o_microsecond o) (o_weekday o) (o_has_time o).
Definition set_o_day (o : obj) (v : option Z) : obj :=
  mkobj (o_years o) (o_months o) (o_days o) (o_leapdays o) (o_hours o) (o_minutes o) (o_seconds o) (o_microseconds o)
        (o_year o) (o_month o) v (o_hour o) (o_minute o) (o_second o) (o_microsecond o) (o_weekday o) (o_has_time o).
Definition set_o_hour (o : obj) (v : option Z) : obj :=
  mkobj (o_years o) (o_months o) (o_days o) (o_leapdays o) (o_hours o) (o_minutes o) (o_seconds o) (o_microseconds o)
        (o_year o) (o_month o) (o_day o) v (o_minute o) (o_second o) (o_microsecond o) (o_weekday o) (o_has_time o).
Definition set_o_minute (o : obj) (v : option Z) : obj :=
  mkobj (o_years o) (o_months o) (o_days o) (o_leapdays o) (o_hours o) (o_minutes o) (o_seconds o) (o_microseconds o)
        (o_year o) (o_month o) (o_day o) (o_hour o) v (o_second o) (o_microsecond o) (o_weekday o) (o_has_time o).
Definition set_o_second (o : obj) (v : option Z) : obj :=
  mkobj (o_years o) (o_months o) (o_days o) (o_leapdays o) (o_hours o) (o_minutes o) (o_seconds o) (o_microseconds o)
        (o_year o) (o_month o) (o_day o) (o_hour o) (o_minute o) v (o_microsecond o) (o_weekday o) (o_has_time o).
Definition set_o_microsecond (o : obj) (v : option Z) : obj :=
  mkobj (o_years o) (o_months o) (o_days o) (o_leapdays o) (o_hours o) (o_minutes o) (o_seconds o) (o_microseconds o)
        (o_year o) (o_month o) (o_day o) (o_hour o) (o_minute o) (o_second o) v (o_weekday o) (o_has_time o).
Definition set_o_weekday (o : obj) (v : option wdv) : obj :=
  mkobj (o_years o) (o_months o) (o_days o) (o_leapdays o) (o_hours o) (o_minutes o) (o_seconds o) (o_microseconds o)
        (o_year o) (o_month o) (o_day o) (o_hour o) (o_minute o) (o_second o) (o_microsecond o) v (o_has_time o).

(* [self] at the start of __init__: no attribute exists yet.  The translator refuses any read of
   an attribute (and any method call on self) before the source has assigned it, so the values
   below are never observed. *)
Definition obj0 : obj := mkobj 0 0 0 0 0 0 0 0 None None None None None None None None 0.

(* ---- CALL TABLE ---------------------------------------------------------------------- *)
(* x.year / x.month / x.day of a date or datetime *)
Definition dt_year (o : pydt) : Z := match o with PD y _ _ => y | PDT y _ _ _ _ _ _ => y end.
Definition dt_month (o : pydt) : Z := match o with PD _ m _ => m | PDT _ m _ _ _ _ _ => m end.
Definition dt_day (o : pydt) : Z := match o with PD _ _ d => d | PDT _ _ d _ _ _ _ => d end.

(* isinstance(x, datetime.datetime)                      -> RdBase.is_datetime
   datetime.datetime.fromordinal(x.toordinal())          -> RdBase.promote
   x.weekday()                                           -> RdBase.py_weekday
   calendar.isleap(y)                                    -> Cal.is_leap
   min(a, b) / abs(a)                                    -> Z.min / Z.abs;   a % b (b a literal) -> Z.modulo
   x < y on dates / datetimes of one kind                -> py_dt_lt *)
Definition py_dt_lt (a b : pydt) : bool := lin a <? lin b.

(* calendar.monthrange(year, month)[1]: IllegalMonthError (a ValueError) unless 1 <= month <= 12 *)
Definition py_monthrange_ndays (year month : Z) : res Z :=
  if (1 <=? month) && (month <=? 12) then Ok (dim year month) else Err EValue.

(* assert c *)
Definition py_assert (c : bool) : res unit := if c then Ok tt else Err EAssert.

(* the keyword dictionary handed to x.replace( **repl): a key is present (Some) or absent (None) *)
Record replv := mkrepl {
  r_year : option Z; r_month : option Z; r_day : option Z;
  r_hour : option Z; r_minute : option Z; r_second : option Z; r_microsecond : option Z }.
Definition repl_empty : replv := mkrepl None None None None None None None.
Definition set_r_year (r : replv) (v : Z) : replv :=
  mkrepl (Some v) (r_month r) (r_day r) (r_hour r) (r_minute r) (r_second r) (r_microsecond r).
Definition set_r_month (r : replv) (v : Z) : replv :=
  mkrepl (r_year r) (Some v) (r_day r) (r_hour r) (r_minute r) (r_second r) (r_microsecond r).
Definition set_r_day (r : replv) (v : Z) : replv :=
  mkrepl (r_year r) (r_month r) (Some v) (r_hour r) (r_minute r) (r_second r) (r_microsecond r).
Definition set_r_hour (r : replv) (v : Z) : replv :=
  mkrepl (r_year r) (r_month r) (r_day r) (Some v) (r_minute r) (r_second r) (r_microsecond r).
Definition set_r_minute (r : replv) (v : Z) : replv :=
  mkrepl (r_year r) (r_month r) (r_day r) (r_hour r) (Some v) (r_second r) (r_microsecond r).
Definition set_r_second (r : replv) (v : Z) : replv :=
  mkrepl (r_year r) (r_month r) (r_day r) (r_hour r) (r_minute r) (Some v) (r_microsecond r).
Definition set_r_microsecond (r : replv) (v : Z) : replv :=
  mkrepl (r_year r) (r_month r) (r_day r) (r_hour r) (r_minute r) (r_second r) (Some v).

(* x.replace( **repl): the values PASSED are converted to C ints first (OverflowError), then the
   new value is validated (ValueError); date.replace() rejects time keywords (TypeError -> EIndex) *)
Definition py_replace (o : pydt) (r : replv) : res pydt :=
  match o with
  | PD y m d =>
      match r_hour r, r_minute r, r_second r, r_microsecond r with
      | None, None, None, None =>
          if negb (opt_in_c_int (r_year r) && opt_in_c_int (r_month r) && opt_in_c_int (r_day r)) then Err EOverflow
          else
            let y := get (r_year r) y in let m := get (r_month r) m in let d := get (r_day r) d in
            if valid_ymd y m d then Ok (PD y m d) else Err EValue
      | _, _, _, _ => Err EIndex
      end
  | PDT y m d hh mi ss us =>
      if negb (opt_in_c_int (r_year r) && opt_in_c_int (r_month r) && opt_in_c_int (r_day r) &&
               opt_in_c_int (r_hour r) && opt_in_c_int (r_minute r) && opt_in_c_int (r_second r) &&
               opt_in_c_int (r_microsecond r))
      then Err EOverflow
      else
        let y := get (r_year r) y in let m := get (r_month r) m in let d := get (r_day r) d in
        let hh := get (r_hour r) hh in let mi := get (r_minute r) mi in
        let ss := get (r_second r) ss in let us := get (r_microsecond r) us in
        if valid_ymd y m d && valid_time hh mi ss us then Ok (PDT y m d hh mi ss us) else Err EValue
  end.

(* datetime.timedelta(days=, hours=, minutes=, seconds=, microseconds=) for integers: a timedelta is
   its total in microseconds; OverflowError when |days| > 999999999 (RdModel.mk_timedelta) *)
Definition py_timedelta (days hours minutes seconds microseconds : Z) : res Z :=
  mk_timedelta ((((days * 24 + hours) * 60 + minutes) * 60 + seconds) * us_sec + microseconds).
(* t.days / t.seconds / t.microseconds of a (normalised) timedelta *)
Definition tdz_days (t : Z) : Z := t / us_day.
Definition tdz_seconds (t : Z) : Z := (t mod us_day) / us_sec.
Definition tdz_microseconds (t : Z) : Z := (t mod us_day) mod us_sec.

(* x + t (date: only t.days counts; OverflowError outside 0001-01-01 .. 9999-12-31) *)
Definition py_dt_add (o : pydt) (t : Z) : res pydt := dt_add_us o t.
(* x - y for two dates / two datetimes *)
Definition py_dt_sub (a b : pydt) : Z :=
  match a with
  | PD _ _ _ => (lin a - lin b) * us_day
  | PDT _ _ _ _ _ _ _ => lin a - lin b
  end.

(* operator.gt / operator.lt as values, and their application to two dates / datetimes *)
Inductive cmpop := CmpGt | CmpLt.
Definition py_compare (c : cmpop) (a b : pydt) : bool :=
  match c with CmpGt => py_dt_lt b a | CmpLt => py_dt_lt a b end.
