(* Theorems of C16, part 5: the constructor's argument forms.  weekday given as an int, as a
   weekday object, as weekday(n) with n absent / 0 / +1 all construct EQUAL deltas; weeks are
   seven days. *)
From Coq Require Import ZArith List Bool Lia ZifyBool.
From V Require Import base.Cal gen.RdTables rd.RdBase rd.RdModel rd.RdAlgModel rd.RdAlgSpec
  rd.RdAlgThm rd.RdAlgLaws rd.RdAlgLaws2 rd.RdAlgLaws3.
Import ListNotations.
Open Scope Z_scope.

Definition set_wd (k : kwargs) (w : wdarg) : kwargs :=
  mkkw (k_rel k) (k_leapdays k) (k_weeks k) (k_abs k) w (k_yearday k) (k_nlyearday k).

Definition set_days_weeks (k : kwargs) (days weeks : Z) : kwargs :=
  let r := k_rel k in
  mkkw (mkrel (f_years r) (f_months r) days (f_hours r) (f_minutes r) (f_seconds r) (f_us r))
       (k_leapdays k) weeks (k_abs k) (k_wd k) (k_yearday k) (k_nlyearday k).

(* weekday=<int i> is weekday=weekdays[i] (Python index: -7 <= i < 7), an IndexError otherwise *)
Theorem mk_weekday_int_form : forall k i,
  mk (set_wd k (WInt i)) =
  if (-7 <=? i) && (i <? 7) then mk (set_wd k (WObj (i mod 7) None)) else Err EIndex.
Proof.
  intros k i. unfold mk, set_wd. cbn [k_wd k_rel k_leapdays k_weeks k_abs k_yearday k_nlyearday conv_wd].
  destruct ((-7 <=? i) && (i <? 7)); reflexivity.
Qed.

(* weekday(n) with n absent, 0 or +1: the constructed deltas are equal (and both constructions
   succeed or fail together).  The proof does not spell out the yearday / nlyearday part of the
   constructor: it is the same term on both sides. *)
Lemma default_n_same_key : forall n1 n2, n_is_default n1 = true -> n_is_default n2 = true ->
  py_or n1 1 = py_or n2 1.
Proof.
  intros [v1|] [v2|]; cbn [n_is_default py_or]; intros H1 H2; try reflexivity.
  - destruct (Z.eqb_spec v1 0), (Z.eqb_spec v2 0), (Z.eqb_spec v1 1), (Z.eqb_spec v2 1);
      cbn [orb] in *; try discriminate; lia.
  - destruct (Z.eqb_spec v1 0), (Z.eqb_spec v1 1); cbn [orb] in *; try discriminate; lia.
  - destruct (Z.eqb_spec v2 0), (Z.eqb_spec v2 1); cbn [orb] in *; try discriminate; lia.
Qed.

Theorem mk_weekday_n_forms : forall k w n1 n2,
  n_is_default n1 = true -> n_is_default n2 = true ->
  match mk (set_wd k (WObj w n1)), mk (set_wd k (WObj w n2)) with
  | Ok d1, Ok d2 => eqb d1 d2 = true
  | Err e1, Err e2 => e1 = e2
  | _, _ => False
  end.
Proof.
  intros k w n1 n2 H1 H2. pose proof (default_n_same_key n1 n2 H1 H2) as K.
  unfold mk, set_wd, bind.
  cbn [k_wd k_rel k_leapdays k_weeks k_abs k_yearday k_nlyearday conv_wd].
  match goal with |- context [match ?m with pair _ _ => _ end] => destruct m as [yday leap] end.
  destruct (yday =? 0).
  - apply eqb_iff_hash_key, key_of_parts; unfold fix_rd; cbn [rel leapdays ab wd hash_wd];
      try reflexivity. rewrite K. reflexivity.
  - destruct (yday_lookup ydayidx 0 0 yday) as [[mo dd]|]; [| reflexivity].
    apply eqb_iff_hash_key, key_of_parts; unfold fix_rd; cbn [rel leapdays ab wd hash_wd];
      try reflexivity. rewrite K. reflexivity.
Qed.

(* weeks=w is days=7*w *)
Theorem mk_weeks : forall k days weeks,
  mk (set_days_weeks k days weeks) = mk (set_days_weeks k (days + weeks * 7) 0).
Proof.
  intros k days weeks. unfold mk, set_days_weeks.
  cbn [k_wd k_rel k_leapdays k_weeks k_abs k_yearday k_nlyearday
       f_years f_months f_days f_hours f_minutes f_seconds f_us].
  replace (days + weeks * 7 + 0 * 7) with (days + weeks * 7) by lia. reflexivity.
Qed.

Example ex_weekday_forms :
  mk (set_wd kw0 (WInt (-1))) = mk (set_wd kw0 (WObj 6 None)) /\
  mk (set_wd kw0 (WInt 7)) = Err EIndex /\
  (exists d, mk (set_wd kw0 (WObj 6 (Some 1))) = Ok d /\ wd d = Some (6, Some 1)).
Proof. repeat split. eexists. split; vm_compute; reflexivity. Qed.

(* d + (-d) is exactly the non-relative part of d (leapdays, absolute fields, weekday kept) *)
Lemma first_some_self : forall (A : Type) (x : option A), first_some x x = x.
Proof. intros A [a|]; reflexivity. Qed.

Lemma zip_abs_self : forall a, zip_abs a a = a.
Proof. intros [y mo d h mi s us]. unfold zip_abs.
  cbn [a_year a_month a_day a_hour a_minute a_second a_us]. rewrite !first_some_self. reflexivity. Qed.

Theorem add_neg_exact : forall d, add_rd d (neg d) = mkrd rel0 (leapdays d) (ab d) (wd d).
Proof.
  intro d. pose proof (add_neg_no_relative d) as H. apply no_rel_iff in H.
  destruct (add_rd d (neg d)) as [r l a w] eqn:E. cbn [rel] in H. subst r.
  unfold add_rd, neg, build, fix_rd in E. cbn [rel leapdays ab wd] in E.
  rewrite zip_abs_self, first_some_self in E.
  destruct (nz (leapdays d)); inversion E; reflexivity.
Qed.

(* ---------------------------------------------------------------- declarative reading of a carry *)
(* "sign-preserving carry that preserves the total" determines the result: any (lo', up') with the
   same total, |lo'| < base and lo' not of the opposite sign of lo IS what the code computes *)
Theorem carry_unique : forall b lo up lo' up', 0 < b ->
  up' * b + lo' = up * b + lo -> Z.abs lo' < b -> 0 <= lo' * lo ->
  carry b lo up = (lo', up').
Proof.
  intros b lo up lo' up' Hb Htot Hbd Hsg.
  destruct (Z.eq_dec lo 0) as [Z0|NZ].
  { subst lo. rewrite carry_small by lia.
    assert (up' = up) by nia. subst up'. f_equal. lia. }
  pose proof (carry_total b lo up Hb) as T. pose proof (carry_bound b lo up Hb) as B.
  destruct (Z.le_gt_cases 0 lo) as [H|H].
  - destruct (carry_nonneg b lo up Hb H) as [X _].
    destruct (carry b lo up) as [x y]. cbn [fst snd] in *.
    assert (0 <= lo') by nia.
    assert (E : (y - up') * b = lo' - x) by lia.
    assert (y = up') by nia. subst y. f_equal. lia.
  - destruct (carry_nonpos b lo up Hb ltac:(lia)) as [X _].
    destruct (carry b lo up) as [x y]. cbn [fst snd] in *.
    assert (lo' <= 0) by nia.
    assert (E : (y - up') * b = lo' - x) by lia.
    assert (y = up') by nia. subst y. f_equal. lia.
Qed.

(* the relative part of a sum does not depend on the order of the operands *)
Theorem add_rel_comm : forall a b, rel (add_rd a b) = rel (add_rd b a).
Proof.
  intros a b. unfold add_rd, build, fix_rd. cbn [rel]. f_equal.
  destruct (rel a) as [y mo d h mi s us], (rel b) as [y' mo' d' h' mi' s' us']. unfold zip_rel.
  cbn [f_years f_months f_days f_hours f_minutes f_seconds f_us]. f_equal; lia.
Qed.

Example ex_carry_unique : carry 60 (-125) 3 = (-5, 1).
Proof. apply carry_unique; lia. Qed.

(* bool(d) is false exactly when d == relativedelta() *)
Theorem bool_iff_eq_empty : forall d, rd_bool d = negb (eqb d rd0).
Proof.
  intro d. destruct (eqb d rd0) eqn:E; cbn [negb].
  - apply bool_false_iff_empty. apply eqb_iff_hash_key in E.
    destruct d as [r l a w]. unfold hash_key, rd0 in E. cbn [rel leapdays ab wd hash_wd] in E.
    inversion E as [[Hw Hr Hl Ha]]. destruct w as [[k n]|]; [discriminate Hw | reflexivity].
  - destruct (rd_bool d) eqn:B; [reflexivity |].
    apply bool_false_iff_empty in B. subst d. rewrite eqb_refl in E. discriminate E.
Qed.
