(* More theorems for C03: constructed deltas are normalised, subtraction, month shift exactness
   (clip never spills, time of day untouched), weekday no-op, the raw-keyword specification. *)
From Coq Require Import ZArith List Bool Lia ZifyBool.
From V Require Import base.Cal gen.RdTables rd.RdBase rd.RdModel rd.RdSpec rd.RdAddThm rd.RdDiffThm.
Import ListNotations.
Open Scope Z_scope.
Ltac Zify.zify_post_hook ::= Z.to_euclidean_division_equations.

(* ---------------------------------------------------------------- constructed deltas *)
Lemma fix_rel_id r : norm_rel r = true -> fix_rel r = r.
Proof.
  unfold norm_rel. intros H. unfold fix_rel.
  rewrite !carry_id by lia. destruct r; reflexivity.
Qed.

(* every delta the keyword constructor returns has normalised relative fields *)
Theorem mk_normalised k d : mk k = Ok d -> norm_rel (rel d) = true.
Proof.
  unfold mk. intros H. apply bind_ok in H. destruct H as (w & _ & H).
  destruct (match truthy (k_nlyearday k) with Some _ => _ | None => _ end) as [yday leap].
  destruct (yday =? 0).
  - injection H as <-. apply fix_rel_spec.
  - destruct (yday_lookup ydayidx 0 0 yday) as [[mo dd]|]; [|discriminate].
    injection H as <-. apply fix_rel_spec.
Qed.

(* ... and so has every result of an operator (they all go through the constructor, [build]) *)
Lemma build_normalised d : norm_rel (rel (build d)) = true.
Proof. apply fix_rel_spec. Qed.

(* ---------------------------------------------------------------- subtraction *)
(* the negation the property speaks of: every relative field negated *)
Definition negated (d : rd) : rd := mkrd (map_rel Z.opp (rel d)) (leapdays d) (ab d) (wd d).

Lemma negated_wf d : wf_rd d = true -> wf_rd (negated d) = true.
Proof.
  unfold wf_rd, negated, norm_rel, map_rel. cbn [rel ab wd f_months f_hours f_minutes f_seconds f_us].
  rewrite !Z.abs_opp. auto.
Qed.

Lemma neg_negated d : norm_rel (rel d) = true -> neg d = negated d.
Proof.
  intros H. unfold neg, build, fix_rd, negated. cbn [rel leapdays ab wd]. f_equal.
  apply fix_rel_id. unfold norm_rel, map_rel in *. cbn [f_months f_hours f_minutes f_seconds f_us].
  rewrite !Z.abs_opp. exact H.
Qed.

(* dt - delta = the documented addition of the negated delta *)
Theorem sub_spec d o : wf_rd d = true -> valid_dt o = true ->
  res_opt (rsub d o) = spec_add (negated d) o.
Proof.
  intros W V. unfold rsub. rewrite neg_negated by (apply wf_rd_inv; exact W).
  apply add_dt_spec; [apply negated_wf; exact W | exact V].
Qed.

(* ---------------------------------------------------------------- month shift *)
(* what [shifted] is, field by field: the month index moves by exactly k, the day is clipped to
   the length of the target month, the time of day is untouched *)
Definition time_of (o : pydt) : option (Z * Z * Z * Z) :=
  match o with PD _ _ _ => None | PDT _ _ _ hh mi ss us => Some (hh, mi, ss, us) end.

Lemma shifted_fields o k :
  ym_of (shifted o k) = ((mi o + k) / 12, (mi o + k) mod 12 + 1) /\
  day_of (shifted o k) = Z.min (day_of o) (dim ((mi o + k) / 12) ((mi o + k) mod 12 + 1)) /\
  time_of (shifted o k) = time_of o.
Proof. destruct o; unfold shifted; cbn; auto. Qed.

(* a delta with only years and months: the result is the operand moved by 12*years + months
   whole months -- the same calendar month index arithmetic for every operand, day clipped (never
   spilling into the next month), time of day unchanged; an error exactly when that month lies
   outside years 1..9999 *)
Theorem month_shift_exact y mo o : Z.abs mo <= 11 -> valid_dt o = true ->
  res_opt (add_dt (mkrd (mkrel y mo 0 0 0 0 0) 0 abs0 None) o) =
  if valid_dt (shifted o (12 * y + mo)) then Some (shifted o (12 * y + mo)) else None.
Proof.
  intros H V. rewrite add_dt_spec by (try apply wf_months; assumption).
  apply spec_add_months. exact V.
Qed.

Theorem clip_never_spills y mo o r : Z.abs mo <= 11 -> valid_dt o = true ->
  add_dt (mkrd (mkrel y mo 0 0 0 0 0) 0 abs0 None) o = Ok r ->
  mi r = mi o + (12 * y + mo) /\
  day_of r = Z.min (day_of o) (dim (fst (ym_of r)) (snd (ym_of r))) /\
  time_of r = time_of o.
Proof.
  intros H V E. pose proof (month_shift_exact y mo o H V) as M. rewrite E in M. change (res_opt (Ok r)) with (Some r) in M.
  destruct (valid_dt (shifted o (12 * y + mo))); [|discriminate].
  assert (R : r = shifted o (12 * y + mo)) by congruence. subst r.
  destruct (shifted_fields o (12 * y + mo)) as (F1 & F2 & F3).
  split; [apply mi_shifted|]. split; [|exact F3]. rewrite F1. exact F2.
Qed.

(* ---------------------------------------------------------------- weekday *)
Definition no_wd (d : rd) : rd := mkrd (rel d) (leapdays d) (ab d) None.

Lemma res_bind_id {A} (x : res A) : bind x (fun a => Ok a) = x.
Proof. destruct x; reflexivity. Qed.

Lemma add_dt_wd_split d o : add_dt d o = bind (add_dt (no_wd d) o) (stage_wd d).
Proof.
  rewrite !add_dt_body. unfold add_body.
  change (has_time (no_wd d)) with (has_time d).
  set (o' := if has_time d then promote o else o).
  change (stage_ym (no_wd d)) with (stage_ym d).
  destruct (stage_ym d (fst (ym_of o')) (snd (ym_of o'))) as [ym|]; [|reflexivity]. cbn [bind].
  change (stage_replace (no_wd d)) with (stage_replace d).
  destruct (stage_replace d o' (fst ym) (snd ym)) as [repl|]; [|reflexivity]. cbn [bind].
  change (stage_td (no_wd d)) with (stage_td d).
  destruct (stage_td d (fst ym) (snd ym)) as [t|]; [|reflexivity]. cbn [bind].
  destruct (dt_add_us repl t) as [ret|]; [|reflexivity]. cbn [bind].
  reflexivity.
Qed.

Lemma dt_add_us_self_date n : 1 <= n <= max_ord -> dt_add_us (date_of_ord n) 0 = Ok (date_of_ord n).
Proof.
  intros H. pose proof (lin_date_of_ord n) as L. pose proof (is_datetime_date_of_ord n) as K.
  destruct (date_of_ord n) as [y m d|] eqn:E; [|discriminate].
  unfold dt_add_us. replace (0 / us_day) with 0 by reflexivity. rewrite Z.add_0_r, L, E.
  destruct ((1 <=? n) && (n <=? max_ord)) eqn:C; [reflexivity | lia].
Qed.

Lemma dt_add_us_self_dt l : 0 <= l < lin_max_dt -> dt_add_us (dt_of_lin l) 0 = Ok (dt_of_lin l).
Proof.
  intros H. pose proof (lin_dt_of_lin l) as L. pose proof (is_datetime_dt_of_lin l) as K.
  destruct (dt_of_lin l) as [|y m d hh mi ss us] eqn:E; [discriminate|].
  unfold dt_add_us. rewrite Z.add_0_r, L, E.
  destruct ((0 <=? l) && (l <? lin_max_dt)) eqn:C; [reflexivity | lia].
Qed.

Lemma dt_add_us_idem o t r : dt_add_us o t = Ok r -> dt_add_us r 0 = Ok r.
Proof.
  unfold dt_add_us at 1. destruct o;
  match goal with |- (if ?c then _ else _) = _ -> _ => destruct c eqn:E end; try discriminate;
  intros H; injection H as <-; [apply dt_add_us_self_date | apply dt_add_us_self_dt];
  cbn [lin] in E; lia.
Qed.

(* a weekday with n = +1 / -1 (or n absent / 0) leaves the result of steps 1-3 unchanged when it
   already falls on that weekday *)
Theorem weekday_noop_when_on_day d o ret w n :
  add_dt (no_wd d) o = Ok ret -> wd d = Some (w, n) -> (eff_n n = 1 \/ eff_n n = -1) ->
  py_weekday ret = w -> add_dt d o = Ok ret.
Proof.
  intros H Hw Hn Hd. rewrite add_dt_wd_split, H. cbn [bind].
  assert (I : dt_add_us ret 0 = Ok ret).
  { rewrite add_dt_body in H. unfold add_body in H.
    apply bind_ok in H. destruct H as (ym & _ & H).
    apply bind_ok in H. destruct H as (repl & _ & H).
    apply bind_ok in H. destruct H as (t & _ & H).
    apply bind_ok in H. destruct H as (ret' & H2 & H3).
    unfold stage_wd in H3. cbn [no_wd wd] in H3. injection H3 as <-.
    eapply dt_add_us_idem; exact H2. }
  unfold stage_wd. rewrite Hw. rewrite eff_n_py_or in Hn. cbv zeta.
  assert (J : (if 0 <? py_or n 1
               then (Z.abs (py_or n 1) - 1) * 7 + (7 - py_weekday ret + w) mod 7
               else ((Z.abs (py_or n 1) - 1) * 7 + (py_weekday ret - w) mod 7) * -1) = 0).
  { rewrite Hd. destruct Hn as [-> | ->]; cbn [Z.ltb Z.compare Z.abs]; lia. }
  rewrite J. cbn [Z.mul]. unfold mk_timedelta. cbn [bind Z.div]. exact I.
Qed.

Example weekday_noop_example :
  let d := mkrd (mkrel 0 0 1 0 0 0 0) 0 abs0 (Some (2, Some (-1))) in
  add_dt (no_wd d) (PD 2024 1 2) = Ok (PD 2024 1 3) /\ py_weekday (PD 2024 1 3) = 2 /\
  add_dt d (PD 2024 1 2) = Ok (PD 2024 1 3).
Proof. vm_compute. repeat split; reflexivity. Qed.

(* ---------------------------------------------------------------- the specification from raw keyword values *)
Definition spec_tail (d : rd) (base : pydt) (dur : Z) : option pydt :=
  match at_lin base (lin base + dur) with None => None | Some ret => spec_wd d ret end.

Definition raw_dur (d : rd) (o : pydt) (y1 m1 : Z) : Z :=
  let r := rel d in
  let leap := if (2 <? m1) && is_leap y1 then leapdays d else 0 in
  match o with
  | PD _ _ _ => ((f_days r + leap) * us_day + sub_day_us r) / us_day
  | PDT _ _ _ _ _ _ _ => (f_days r + leap) * us_day + sub_day_us r
  end.

Definition spec_body_with (dur : rd -> pydt -> Z -> Z -> Z) (d : rd) (o : pydt) : option pydt :=
  let t := 12 * oget (a_year (ab d)) (fst (ym_of o)) + (oget (a_month (ab d)) (snd (ym_of o)) - 1)
           + 12 * f_years (rel d) + f_months (rel d) in
  let base := spec_base d o (t / 12) (t mod 12 + 1) in
  if valid_dt base then spec_tail d base (dur d o (t / 12) (t mod 12 + 1)) else None.

Lemma spec_body_is_with d o : spec_body d o = spec_body_with spec_dur d o.
Proof. reflexivity. Qed.

Lemma spec_add_raw_body d o :
  spec_add_raw d o = spec_body_with raw_dur d (if carries_time_total d then promote o else o).
Proof.
  unfold spec_add_raw, spec_body_with, spec_tail, spec_wd. cbv zeta.
  destruct (if carries_time_total d then promote o else o) as [y m dd | y m dd hh mi ss us];
  cbn [ym_of fst snd spec_base day_of raw_dur];
  match goal with |- (if negb ?c then _ else _) = _ => destruct c end; reflexivity.
Qed.

Lemma carries_time_total_norm d : norm_rel (rel d) = true -> carries_time_total d = carries_time d.
Proof.
  intros N. unfold carries_time_total, carries_time. f_equal. f_equal.
  unfold norm_rel, sub_day_us, us_day, us_sec in *.
  apply Bool.eq_iff_eq_true. split; intros H; lia.
Qed.

(* for a normalised delta the raw-value specification is the field-wise one *)
Theorem spec_add_raw_norm d o : norm_rel (rel d) = true -> spec_add_raw d o = spec_add d o.
Proof.
  intros N. rewrite spec_add_raw_body, spec_add_body, carries_time_total_norm, spec_body_is_with by exact N.
  unfold spec_body_with. cbv zeta.
  set (o' := if carries_time d then promote o else o).
  match goal with |- (if ?c then _ else _) = _ => destruct c end; [|reflexivity].
  f_equal. unfold raw_dur, spec_dur, sub_day_us.
  destruct o' as [y m dd | y m dd hh mi ss us] eqn:EO.
  - assert (CT : carries_time d = false).
    { destruct (carries_time d); [|reflexivity]. unfold o' in EO. destruct o; discriminate. }
    destruct (no_time_fields d CT) as (-> & -> & -> & ->).
    match goal with |- context [if ?c then leapdays d else 0] => destruct c end; unfold us_day, us_sec; lia.
  - match goal with |- context [if ?c then leapdays d else 0] => destruct c end; unfold us_day, us_sec; lia.
Qed.

(* the raw-value specification only sees the month total, the microsecond total, leapdays, the
   absolute fields and the weekday *)
Lemma spec_add_raw_ext d1 d2 o :
  ab d1 = ab d2 -> wd d1 = wd d2 -> leapdays d1 = leapdays d2 ->
  rel_months (rel d1) = rel_months (rel d2) -> rel_us (rel d1) = rel_us (rel d2) ->
  spec_add_raw d1 o = spec_add_raw d2 o.
Proof.
  destruct d1 as [r1 l1 a1 w1], d2 as [r2 l2 a2 w2]. cbn [rel ab wd leapdays].
  intros <- <- <- HM HU.
  assert (E1 : forall a, a + 12 * f_years r1 + f_months r1 = a + 12 * f_years r2 + f_months r2)
    by (intros a; unfold rel_months in HM; lia).
  assert (E2 : sub_day_us r1 mod us_day = sub_day_us r2 mod us_day)
    by (unfold rel_us, sub_day_us, us_day, us_sec in *; lia).
  assert (E3 : forall leap, (f_days r1 + leap) * us_day + sub_day_us r1
                            = (f_days r2 + leap) * us_day + sub_day_us r2)
    by (intros leap; unfold rel_us, sub_day_us, us_day, us_sec in *; lia).
  rewrite !spec_add_raw_body.
  unfold carries_time_total. cbn [rel ab]. rewrite E2.
  match goal with |- context [if ?c then promote o else o] => set (o' := if c then promote o else o) end.
  unfold spec_body_with, raw_dur. cbv zeta. cbn [rel ab leapdays]. rewrite !E1, !E3.
  reflexivity.
Qed.

Theorem spec_add_raw_fix d o : spec_add_raw (fix_rd d) o = spec_add_raw d o.
Proof.
  destruct (fix_rel_spec (rel d)) as (_ & U & M & _).
  apply spec_add_raw_ext; try reflexivity; assumption.
Qed.

(* the constructor normalises (fix_rd) whatever field values it is given; adding the result to a
   date is the documented outcome for the ORIGINAL values: month total, microsecond total,
   promotion exactly when the sub-day part of the duration is not a whole number of days *)
Theorem add_fix_spec_raw raw o : wf_rd (fix_rd raw) = true -> valid_dt o = true ->
  res_opt (add_dt (fix_rd raw) o) = spec_add_raw raw o.
Proof.
  intros W V. rewrite add_dt_spec by assumption.
  rewrite <- spec_add_raw_norm by apply fix_rel_spec. apply spec_add_raw_fix.
Qed.

(* the keyword constructor without yearday / nlyearday *)
Definition raw_of_kw (k : kwargs) (w : option wdv) : rd :=
  let r := k_rel k in
  mkrd (mkrel (f_years r) (f_months r) (f_days r + k_weeks k * 7) (f_hours r)
              (f_minutes r) (f_seconds r) (f_us r)) (k_leapdays k) (k_abs k) w.

Theorem mk_add_spec_raw k d o :
  k_yearday k = None -> k_nlyearday k = None -> mk k = Ok d ->
  wf_rd d = true -> valid_dt o = true ->
  exists w, conv_wd (k_wd k) = Ok w /\ res_opt (add_dt d o) = spec_add_raw (raw_of_kw k w) o.
Proof.
  intros HY HN H W V. unfold mk in H. rewrite HY, HN in H. cbn [truthy] in H.
  apply bind_ok in H. destruct H as (w & Hw & H). cbn [Z.eqb] in H. injection H as <-.
  exists w. split; [exact Hw|]. apply add_fix_spec_raw; assumption.
Qed.

Example add_fix_spec_raw_example :
  (* hours=+49 on a date: 2 days and 1 hour -> promoted; hours=+48: whole days -> stays a date *)
  let raw h := mkrd (mkrel 0 0 0 h 0 0 0) 0 abs0 None in
  wf_rd (fix_rd (raw 49)) = true /\
  add_dt (fix_rd (raw 49)) (PD 2000 2 28) = Ok (PDT 2000 3 1 1 0 0 0) /\
  spec_add_raw (raw 49) (PD 2000 2 28) = Some (PDT 2000 3 1 1 0 0 0) /\
  add_dt (fix_rd (raw 48)) (PD 2000 2 28) = Ok (PD 2000 3 1) /\
  spec_add_raw (raw 48) (PD 2000 2 28) = Some (PD 2000 3 1).
Proof. vm_compute. repeat split; reflexivity. Qed.

(* ---------------------------------------------------------------- the assert in __add__ is unreachable *)
(* [assert 1 <= abs(self.months) <= 12] can only fail for |months| > 12, which _fix excludes: for
   every delta with normalised fields (every constructed one) and EVERY operand the model raises
   at most ValueError / OverflowError *)
Definition benign (e : err) : Prop := e = EValue \/ e = EOverflow.

Lemma stage_ym_no_assert d oy om : Z.abs (f_months (rel d)) <= 11 -> exists ym, stage_ym d oy om = Ok ym.
Proof.
  intros H. unfold stage_ym. destruct (f_months (rel d) =? 0) eqn:E; [eauto|].
  destruct (negb _) eqn:A; [exfalso; lia|].
  destruct (12 <? _); [eauto|]. destruct (_ <? 1); eauto.
Qed.

Theorem add_dt_errors_benign d o e : norm_rel (rel d) = true -> add_dt d o = Err e -> benign e.
Proof.
  intros N. rewrite add_dt_body. unfold add_body.
  set (o' := if has_time d then promote o else o).
  destruct (stage_ym_no_assert d (fst (ym_of o')) (snd (ym_of o'))) as (ym & ->);
    [unfold norm_rel in N; lia|]. cbn [bind].
  unfold benign.
  destruct (stage_replace d o' (fst ym) (snd ym)) as [repl|e1] eqn:E1; cbn [bind].
  - assert (TD : forall x, stage_td d (fst ym) (snd ym) = Err x -> x = EOverflow).
    { unfold stage_td, mk_timedelta. intros x. destruct (_ && _); [discriminate|]. intros H; injection H as <-; reflexivity. }
    destruct (stage_td d (fst ym) (snd ym)) as [t|e2] eqn:E2; cbn [bind].
    + assert (AD : forall a u x, dt_add_us a u = Err x -> x = EOverflow).
      { intros a u x. unfold dt_add_us. destruct a; destruct (_ && _); try discriminate;
        intros H; injection H as <-; reflexivity. }
      destruct (dt_add_us repl t) as [ret|e3] eqn:E3; cbn [bind].
      * unfold stage_wd. destruct (wd d) as [[w n]|]; [|discriminate].
        cbv zeta. unfold mk_timedelta. destruct (_ && _); cbn [bind].
        -- intros H. right. eapply AD; exact H.
        -- intros H; injection H as <-; auto.
      * intros H; injection H as <-. right. eapply AD; exact E3.
    + intros H; injection H as <-. right. apply TD. reflexivity.
  - intros H; injection H as <-. unfold stage_replace in E1.
    destruct (negb ((1 <=? snd ym) && (snd ym <=? 12))); [injection E1 as <-; auto|].
    destruct o'.
    + destruct (negb _); [injection E1 as <-; auto|]. destruct (valid_ymd _ _ _); [discriminate|].
      injection E1 as <-; auto.
    + destruct (negb _); [injection E1 as <-; auto|]. destruct (_ && _); [discriminate|].
      injection E1 as <-; auto.
Qed.

(* ---------------------------------------------------------------- results stay in the domain *)
Lemma ymd_of_ord_valid n : 1 <= n <= max_ord ->
  valid_ymd (fst (fst (ymd_of_ord n))) (snd (fst (ymd_of_ord n))) (snd (ymd_of_ord n)) = true.
Proof.
  intros H. pose proof (ord_of_ymd_of_ord n) as O. unfold ymd_of_ord in *.
  pose proof (year_of_ord_spec n) as S. set (y := year_of_ord n) in *.
  cbn [fst snd] in *. destruct O as (_ & Hm & Hd).
  assert (Hy : 1 <= y <= 9999).
  { split.
    - destruct (Z_le_gt_dec 1 y) as [G|G]; [exact G|].
      pose proof (days_before_year_mono (y + 1) 1 ltac:(lia)). change (days_before_year 1) with 0 in *. lia.
    - destruct (Z_le_gt_dec y 9999) as [G|G]; [exact G|].
      pose proof (days_before_year_mono 10000 y ltac:(lia)).
      change (days_before_year 10000) with 3652059 in *. unfold max_ord in H. lia. }
  unfold valid_ymd. lia.
Qed.

Lemma valid_date_of_ord n : 1 <= n <= max_ord -> valid_dt (date_of_ord n) = true.
Proof.
  intros H. pose proof (ymd_of_ord_valid n H) as V. unfold date_of_ord.
  destruct (ymd_of_ord n) as [[y m] d]. exact V.
Qed.

Lemma valid_dt_of_lin l : 0 <= l < lin_max_dt -> valid_dt (dt_of_lin l) = true.
Proof.
  intros H. unfold dt_of_lin.
  assert (R : 1 <= l / us_day + 1 <= max_ord) by (unfold lin_max_dt, max_ord, us_day in *; lia).
  pose proof (ymd_of_ord_valid _ R) as V.
  destruct (ymd_of_ord (l / us_day + 1)) as [[y m] d]. cbn [fst snd] in V. cbn [valid_dt]. rewrite V.
  unfold valid_time, us_day, us_sec. lia.
Qed.

Lemma dt_add_us_valid o t r : dt_add_us o t = Ok r -> valid_dt r = true.
Proof.
  unfold dt_add_us. destruct o;
  match goal with |- (if ?c then _ else _) = _ -> _ => destruct c eqn:E end; try discriminate;
  intros H; injection H as <-; [apply valid_date_of_ord | apply valid_dt_of_lin];
  cbn [lin] in E |- *; lia.
Qed.

(* whatever the model of __add__ returns is again a valid date / datetime *)
Theorem add_dt_valid d o r : add_dt d o = Ok r -> valid_dt r = true.
Proof.
  rewrite add_dt_body. unfold add_body. intros H.
  apply bind_ok in H. destruct H as (ym & _ & H).
  apply bind_ok in H. destruct H as (repl & _ & H).
  apply bind_ok in H. destruct H as (t & _ & H).
  apply bind_ok in H. destruct H as (ret & H2 & H3).
  unfold stage_wd in H3. destruct (wd d) as [[w n]|].
  - apply bind_ok in H3. destruct H3 as (t' & _ & H3). eapply dt_add_us_valid; exact H3.
  - injection H3 as <-. eapply dt_add_us_valid; exact H2.
Qed.

(* the time line used by model and spec is a faithful coordinate system *)
Theorem timeline_faithful :
  (forall l, lin (dt_of_lin l) = l) /\ (forall n, lin (date_of_ord n) = n) /\
  (forall o, valid_dt o = true -> at_lin o (lin o) = Some o).
Proof. split; [exact lin_dt_of_lin|]. split; [exact lin_date_of_ord | exact at_lin_self]. Qed.

(* ---------------------------------------------------------------- the counting specification, declaratively *)
(* the n-th day of weekday w on or after o is THE day of weekday w in the window
   [o + 7(n-1), o + 7(n-1) + 6] (any 7 consecutive days contain exactly one), symmetrically for
   n < 0: so the counting definition of step 4 means what the documentation says *)
Theorem nth_weekday_char o w n t : 0 <= w <= 6 -> n <> 0 -> nth_weekday o w n = Some t ->
  weekday_of_ord t = w /\
  (0 < n -> o + 7 * (n - 1) <= t <= o + 7 * (n - 1) + 6) /\
  (n < 0 -> o - 7 * (- n - 1) - 6 <= t <= o - 7 * (- n - 1)).
Proof.
  intros Hw Hn H. rewrite nth_weekday_jump in H by assumption. injection H as <-.
  unfold jump_days, weekday_of_ord. destruct (0 <? n) eqn:E; lia.
Qed.

Lemma weekday_unique_in_window a t1 t2 :
  a <= t1 <= a + 6 -> a <= t2 <= a + 6 -> weekday_of_ord t1 = weekday_of_ord t2 -> t1 = t2.
Proof. unfold weekday_of_ord. lia. Qed.

(* ---------------------------------------------------------------- finding F-C03-zero-absolute *)
Theorem zero_absolute_refuted :
  exists d1 d2 d3 o,
    a_year (ab d1) = Some 0 /\ a_month (ab d2) = Some 0 /\ a_day (ab d3) = Some 0 /\
    add_dt d1 o = Ok o /\ add_dt d2 o = Ok o /\ add_dt d3 o = Ok o /\
    spec_add d1 o = None /\ spec_add d2 o <> Some o /\ spec_add d3 o = None.
Proof.
  exists (mkrd rel0 0 (mkabs (Some 0) None None None None None None) None),
         (mkrd rel0 0 (mkabs None (Some 0) None None None None None) None),
         (mkrd rel0 0 (mkabs None None (Some 0) None None None None) None),
         (PD 2000 1 31).
  vm_compute. repeat split; try reflexivity. discriminate.
Qed.
