(* Theorems of C16, part 2: well-formedness of every constructor / operator, constructor round
   trip, equality = same canonical form (hence an equivalence, consistent with the hash key),
   negation, d + (-d), bool, equal deltas act equally on dates, rational years / months. *)
From Coq Require Import ZArith List Bool Lia ZifyBool.
From V Require Import base.Cal gen.RdTables rd.RdBase rd.RdModel rd.RdAlgModel rd.RdAlgSpec rd.RdAlgThm.
Import ListNotations.
Open Scope Z_scope.

(* ---------------------------------------------------------------- well-formedness *)
Lemma fix_rd_wf : forall d, wf (fix_rd d).
Proof. intro d. unfold wf, fix_rd. cbn [rel]. apply fix_normalised. Qed.

Theorem build_wf : forall d, wf (build d).
Proof. exact fix_rd_wf. Qed.

Theorem neg_wf : forall d, wf (neg d).
Proof. intro; apply build_wf. Qed.
Theorem abs_wf : forall d, wf (abs_rd d).
Proof. intro; apply build_wf. Qed.
Theorem add_wf : forall a b, wf (add_rd a b).
Proof. intros; apply build_wf. Qed.
Theorem sub_wf : forall a b, wf (sub_rd a b).
Proof. intros; apply build_wf. Qed.
Theorem mul_with_wf : forall d p, wf (mul_with d p).
Proof. intros; apply build_wf. Qed.
Theorem mul_int_wf : forall d k, wf (mul_int d k).
Proof. intros; apply build_wf. Qed.
Theorem normalized_wf : forall d, wf (normalized d).
Proof. intro; apply build_wf. Qed.
Theorem add_td_wf : forall d a b c, wf (add_td d a b c).
Proof. intros; apply build_wf. Qed.

Theorem mk_wf : forall k d, mk k = Ok d -> wf d.
Proof.
  intros k d. unfold mk, bind.
  destruct (conv_wd (k_wd k)) as [w|]; [| discriminate].
  match goal with |- context [match ?m with pair _ _ => _ end] => destruct m as [yday leap] end.
  destruct (yday =? 0).
  - intro H; inversion H; apply fix_rd_wf.
  - destruct (yday_lookup ydayidx 0 0 yday) as [[mo dd]|]; [| discriminate].
    intro H; inversion H; apply fix_rd_wf.
Qed.

Theorem mk_frac_wf : forall yn yd mn md k d, mk_frac yn yd mn md k = Ok d -> wf d.
Proof.
  intros yn yd mn md k d. unfold mk_frac.
  destruct (negb (q_is_int yn yd) || negb (q_is_int mn md)); [discriminate |]. apply mk_wf.
Qed.

(* ---------------------------------------------------------------- constructor round trip *)
Lemma fix_rd_wf_id : forall d, wf d -> fix_rd d = d.
Proof.
  intros [r l a w] H. unfold wf in H. cbn [rel] in H. unfold fix_rd. cbn [rel leapdays ab wd].
  rewrite fix_normal_id by assumption. reflexivity.
Qed.

Theorem mk_fields : forall d, mk (fields_of d) = Ok (fix_rd d).
Proof.
  intros [[y mo dd h mi s us] l a w]. unfold fields_of, kw_of_rd, mk, bind.
  cbn [k_rel k_leapdays k_weeks k_abs k_wd k_yearday k_nlyearday rel leapdays ab wd
       f_years f_months f_days f_hours f_minutes f_seconds f_us truthy].
  destruct w as [[k n]|]; cbn [conv_wd]; rewrite Z.eqb_refl;
    replace (dd + 0 * 7) with dd by lia; reflexivity.
Qed.

Theorem mk_fields_id : forall d, wf d -> mk (fields_of d) = Ok d.
Proof. intros d H. rewrite mk_fields, fix_rd_wf_id by assumption. reflexivity. Qed.

(* ---------------------------------------------------------------- equality and the hash key *)
Lemma opt_eqb_iff : forall a b, opt_eqb a b = true <-> a = b.
Proof.
  intros [x|] [y|]; cbn [opt_eqb]; split; intro H; try discriminate; try reflexivity.
  - f_equal. lia.
  - inversion H. lia.
Qed.

Lemma rel_eqb_iff : forall a b, rel_eqb a b = true <-> a = b.
Proof.
  intros [y mo d h mi s us] [y' mo' d' h' mi' s' us']. unfold rel_eqb.
  cbn [f_years f_months f_days f_hours f_minutes f_seconds f_us]. split.
  - intro H. f_equal; lia.
  - intro H. inversion H. lia.
Qed.

Lemma abs_eqb_iff : forall a b, abs_eqb a b = true <-> a = b.
Proof.
  intros [y mo d h mi s us] [y' mo' d' h' mi' s' us']. unfold abs_eqb.
  cbn [a_year a_month a_day a_hour a_minute a_second a_us].
  rewrite !andb_true_iff, !opt_eqb_iff. split.
  - intros [[[[[[? ?] ?] ?] ?] ?] ?]. subst. reflexivity.
  - intro H. inversion H. repeat split.
Qed.

Lemma hash_wd_is_canon : forall w, hash_wd w = canon_wd w.
Proof. intros [[k [n|]]|]; reflexivity. Qed.

Lemma wd_eqb_iff : forall a b, wd_eqb a b = true <-> hash_wd a = hash_wd b.
Proof.
  intros [[w1 n1]|] [[w2 n2]|]; cbn [wd_eqb hash_wd]; try (split; [discriminate | discriminate]);
    try (split; reflexivity).
  destruct (Z.eqb_spec w1 w2) as [Hw|Hw]; cbn [negb].
  2:{ split; [discriminate | intro H; inversion H; contradiction]. }
  subst w2.
  destruct n1 as [v1|], n2 as [v2|]; cbn [opt_eqb n_is_default py_or negb andb orb].
  - destruct (Z.eqb_spec v1 v2), (Z.eqb_spec v1 0), (Z.eqb_spec v2 0), (Z.eqb_spec v1 1), (Z.eqb_spec v2 1);
      cbn [negb andb orb]; split; intro H; try discriminate; try reflexivity;
      try (inversion H; lia); try (f_equal; f_equal; lia).
  - destruct (Z.eqb_spec v1 0), (Z.eqb_spec v1 1);
      cbn [negb andb orb]; split; intro H; try discriminate; try reflexivity;
      try (inversion H; lia); try (f_equal; f_equal; lia).
  - destruct (Z.eqb_spec v2 0), (Z.eqb_spec v2 1);
      cbn [negb andb orb]; split; intro H; try discriminate; try reflexivity;
      try (inversion H; lia); try (f_equal; f_equal; lia).
  - split; reflexivity.
Qed.

(* equality is exactly "same hash key" *)
Theorem eqb_iff_hash_key : forall a b, eqb a b = true <-> hash_key a = hash_key b.
Proof.
  intros [ra la aa wa] [rb lb ab2 wb]. unfold eqb, hash_key. cbn [rel leapdays ab wd].
  rewrite !andb_true_iff, wd_eqb_iff, rel_eqb_iff, abs_eqb_iff, Z.eqb_eq. split.
  - intros [[[Hw Hr] Hl] Ha]. subst. rewrite Hw. reflexivity.
  - intro H. inversion H. repeat split.
Qed.

Theorem eqb_hash : forall a b, eqb a b = true -> hash_key a = hash_key b.
Proof. intros a b. apply eqb_iff_hash_key. Qed.

Theorem eqb_refl : forall a, eqb a a = true.
Proof. intro a. apply eqb_iff_hash_key. reflexivity. Qed.

Theorem eqb_sym : forall a b, eqb a b = eqb b a.
Proof.
  intros a b. apply eq_true_iff_eq. rewrite !eqb_iff_hash_key. split; intro H; symmetry; exact H.
Qed.

Theorem eqb_trans : forall a b c, eqb a b = true -> eqb b c = true -> eqb a c = true.
Proof.
  intros a b c. rewrite !eqb_iff_hash_key. intros H1 H2. rewrite H1. exact H2.
Qed.

Lemma hash_key_is_canon : forall d, hash_key d = canon d.
Proof. intro d. unfold hash_key, canon. rewrite hash_wd_is_canon. reflexivity. Qed.

Lemma oz_eqb_iff : forall a b, oz_eqb a b = true <-> a = b.
Proof.
  intros [x|] [y|]; cbn [oz_eqb]; split; intro H; try discriminate; try reflexivity.
  - f_equal. lia.
  - inversion H. lia.
Qed.

Lemma spec_eqb_iff : forall a b, spec_eqb a b = true <-> canon a = canon b.
Proof.
  intros [[y mo d h mi s us] la [ay am ad ah ami asec aus] wa]
         [[y' mo' d' h' mi' s' us'] lb [by' bm bd bh bmi bsec bus] wb].
  unfold spec_eqb, canon.
  cbn [rel leapdays ab wd f_years f_months f_days f_hours f_minutes f_seconds f_us
       a_year a_month a_day a_hour a_minute a_second a_us].
  rewrite !andb_true_iff, !oz_eqb_iff, !Z.eqb_eq.
  destruct (canon_wd wa) as [[k1 n1]|], (canon_wd wb) as [[k2 n2]|].
  - rewrite andb_true_iff, !Z.eqb_eq. split.
    + intro H. decompose [and] H. subst. reflexivity.
    + intro H. inversion H. repeat split.
  - split; [intro H; decompose [and] H; discriminate | intro H; inversion H].
  - split; [intro H; decompose [and] H; discriminate | intro H; inversion H].
  - split.
    + intro H. decompose [and] H. subst. reflexivity.
    + intro H. inversion H. repeat split.
Qed.

(* the code's __eq__ computes the specification's equality *)
Theorem eqb_is_spec : forall a b, eqb a b = spec_eqb a b.
Proof.
  intros a b. apply eq_true_iff_eq.
  rewrite eqb_iff_hash_key, spec_eqb_iff, !hash_key_is_canon. reflexivity.
Qed.
