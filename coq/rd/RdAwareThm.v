(* C09 for aware operands with DISTINCT tzinfo objects of one zone (RdAwareModel):
   - a zone with a constant utcoffset (two distinct tzoffset / tzutc-like objects): the result is
     exactly that of the naive constructor, so every C09 theorem applies;
   - a zone whose utcoffset changes between the operands: the inverse law FAILS (refuted). *)
From Coq Require Import ZArith List Bool Lia ZifyBool.
From V Require Import base.Cal gen.RdTables rd.RdBase rd.RdModel rd.RdSpec rd.RdAddThm rd.RdDiffThm
  rd.RdAwareModel.
Import ListNotations.
Open Scope Z_scope.
Ltac Zify.zify_post_hook ::= Z.to_euclidean_division_equations.

Lemma ltb_shift a b f : (a - f <? b - f) = (a <? b).
Proof. apply Bool.eq_iff_eq_true. lia. Qed.

Lemma diff_loop_aw_const off f : (forall l, off l = Some f) ->
  forall fuel lt dt1 dt2 months dtm,
  diff_loop_aw fuel off lt dt1 dt2 months dtm = diff_loop fuel lt dt1 dt2 months dtm.
Proof.
  intros H. induction fuel as [|n IH]; intros lt dt1 dt2 months dtm; [reflexivity|].
  cbn [diff_loop_aw diff_loop]. unfold ulin. rewrite !H. cbn [bind]. rewrite !ltb_shift.
  destruct (if lt then lin dtm <? lin dt1 else lin dt1 <? lin dtm); [|reflexivity].
  apply bind_ext. intros dtm'. apply IH.
Qed.

(* guard: the utcoffset is the same wherever the zone is consulted (fixed-offset zones) *)
Theorem mk_diff_aware_const off f y1 m1 d1 hh1 mi1 ss1 us1 y2 m2 d2 hh2 mi2 ss2 us2 :
  (forall l, off l = Some f) ->
  mk_diff_aware off (PDT y1 m1 d1 hh1 mi1 ss1 us1) (PDT y2 m2 d2 hh2 mi2 ss2 us2)
  = mk_diff (PDT y1 m1 d1 hh1 mi1 ss1 us1) (PDT y2 m2 d2 hh2 mi2 ss2 us2).
Proof.
  intros H. unfold mk_diff_aware, mk_diff. cbv beta iota zeta delta [is_datetime Bool.eqb].
  apply bind_ext. intros dtm. unfold ulin. rewrite !H. cbn [bind]. rewrite ltb_shift.
  rewrite (diff_loop_aw_const off f H). apply bind_ext. intros [months dtm'].
  rewrite H. cbn [bind].
  replace (lin (PDT y1 m1 d1 hh1 mi1 ss1 us1) - f - (lin dtm' - f))
    with (lin (PDT y1 m1 d1 hh1 mi1 ss1 us1) - lin dtm') by lia.
  reflexivity.
Qed.

Example mk_diff_aware_const_example :
  (* two distinct +01:00 objects *)
  mk_diff_aware (fun _ => Some 3600000000) (PDT 2020 3 9 12 0 0 0) (PDT 2020 1 31 12 0 0 0)
  = Ok (mkrd (mkrel 0 1 9 0 0 0 0) 0 abs0 None).
Proof. vm_compute. reflexivity. Qed.

(* America/New_York, 2020: EST (-5 h) until 8 March 02:00, then EDT (-4 h).  dt2 = 7 March 12:00,
   dt1 = 9 March 12:00, held in two distinct tzinfo objects: the difference is taken between the
   UTC instants (47 h), but added back as wall-clock time: 9 March 11:00, not 12:00. *)
Definition ny2020 : offfun := fun l =>
  if l <? lin (PDT 2020 3 8 2 0 0 0) then Some (-18000000000) else Some (-14400000000).

Theorem diff_inverse_distinct_tzinfo_refuted :
  exists off dt1 dt2 d r,
    valid_dt dt1 = true /\ valid_dt dt2 = true /\
    mk_diff_aware off dt1 dt2 = Ok d /\ add_dt d dt2 = Ok r /\ r <> dt1.
Proof.
  exists ny2020, (PDT 2020 3 9 12 0 0 0), (PDT 2020 3 7 12 0 0 0),
         (mkrd (mkrel 0 0 1 23 0 0 0) 0 abs0 None), (PDT 2020 3 9 11 0 0 0).
  split; [reflexivity|]. split; [reflexivity|]. split; [vm_compute; reflexivity|].
  split; [vm_compute; reflexivity | discriminate].
Qed.

(* ---------------------------------------------------------------- a sharper guard *)
(* It is enough that the utcoffset is the same at dt1, at dt2 and at the whole-month shifts of dt2
   the constructor can reach (the initial month count m0 and at most 3 steps around it): then the
   distinct-tzinfo computation coincides with the naive one, for every zone. *)
Lemma add_set_months_shape k o x : valid_dt o = true ->
  add_dt (set_months rd0 k) o = Ok x -> x = shifted o k.
Proof.
  intros V H. pose proof (add_set_months k o V) as A. rewrite H in A. cbn [res_opt] in A.
  destruct (valid_dt (shifted o k)); congruence.
Qed.

Lemma diff_loop_aw_local off f lt dt1 dt2 : valid_dt dt2 = true -> off (lin dt1) = Some f ->
  forall fuel months,
  (forall k, Z.abs (k - months) <= Z.of_nat fuel -> off (lin (shifted dt2 k)) = Some f) ->
  diff_loop_aw fuel off lt dt1 dt2 months (shifted dt2 months)
  = diff_loop fuel lt dt1 dt2 months (shifted dt2 months).
Proof.
  intros V H1. induction fuel as [|n IH]; intros months HK; [reflexivity|].
  cbn [diff_loop_aw diff_loop]. unfold ulin. rewrite H1, (HK months) by lia. cbn [bind].
  rewrite !ltb_shift.
  destruct (if lt then lin (shifted dt2 months) <? lin dt1 else lin dt1 <? lin (shifted dt2 months));
    [|reflexivity].
  set (months' := months + (if lt then 1 else -1)).
  destruct (add_dt (set_months rd0 months') dt2) as [x|e] eqn:E; [|reflexivity]. cbn [bind].
  rewrite (add_set_months_shape _ _ _ V E). apply IH.
  intros k Hk. apply HK. rewrite Nat2Z.inj_succ. unfold months' in Hk. destruct lt; lia.
Qed.

Lemma diff_loop_shape lt dt1 dt2 : valid_dt dt2 = true ->
  forall fuel months m' x,
  diff_loop fuel lt dt1 dt2 months (shifted dt2 months) = Ok (m', x) ->
  x = shifted dt2 m' /\ Z.abs (m' - months) <= Z.of_nat fuel.
Proof.
  intros V. induction fuel as [|n IH]; intros months m' x H; [discriminate|].
  cbn [diff_loop] in H. rewrite Nat2Z.inj_succ.
  destruct (if lt then lin (shifted dt2 months) <? lin dt1 else lin dt1 <? lin (shifted dt2 months)).
  - set (months' := months + (if lt then 1 else -1)) in *.
    destruct (add_dt (set_months rd0 months') dt2) as [y|e] eqn:E; [|discriminate]. cbn [bind] in H.
    rewrite (add_set_months_shape _ _ _ V E) in H. apply IH in H. destruct H as [H1 H2].
    split; [exact H1|]. unfold months' in H2. destruct lt; lia.
  - injection H as <- <-. split; [reflexivity | lia].
Qed.

Theorem mk_diff_aware_local off f y1 m1 d1 hh1 mi1 ss1 us1 y2 m2 d2 hh2 mi2 ss2 us2 :
  let dt1 := PDT y1 m1 d1 hh1 mi1 ss1 us1 in
  let dt2 := PDT y2 m2 d2 hh2 mi2 ss2 us2 in
  valid_dt dt2 = true -> off (lin dt1) = Some f -> off (lin dt2) = Some f ->
  (forall k, Z.abs (k - (mi dt1 - mi dt2)) <= 3 -> off (lin (shifted dt2 k)) = Some f) ->
  mk_diff_aware off dt1 dt2 = mk_diff dt1 dt2.
Proof.
  intros dt1 dt2 V H1 H2 HK.
  unfold mk_diff_aware, mk_diff, dt1, dt2. cbv beta iota zeta delta [is_datetime Bool.eqb].
  fold dt1 dt2.
  replace ((y1 - y2) * 12 + (m1 - m2)) with (mi dt1 - mi dt2)
    by (unfold mi, dt1, dt2; cbn [ym_of fst snd]; lia).
  set (m0 := mi dt1 - mi dt2) in *.
  destruct (add_dt (set_months rd0 m0) dt2) as [dtm|e] eqn:E; [|reflexivity]. cbn [bind].
  rewrite (add_set_months_shape _ _ _ V E).
  unfold ulin at 1 2. rewrite H1, H2. cbn [bind]. rewrite ltb_shift.
  rewrite (diff_loop_aw_local off f _ dt1 dt2 V H1 diff_fuel m0)
    by (intros k Hk; apply HK; unfold diff_fuel in Hk; lia).
  destruct (diff_loop diff_fuel (lin dt1 <? lin dt2) dt1 dt2 m0 (shifted dt2 m0)) as [[m' x]|e] eqn:EL;
    [|reflexivity]. cbn [bind].
  destruct (diff_loop_shape _ dt1 dt2 V _ _ _ _ EL) as [-> HB].
  unfold ulin. rewrite (HK m') by (unfold diff_fuel in HB; lia). cbn [bind].
  replace (lin dt1 - f - (lin (shifted dt2 m') - f)) with (lin dt1 - lin (shifted dt2 m')) by lia.
  reflexivity.
Qed.

Example mk_diff_aware_local_example :
  (* New York again, both operands after the DST start: same offset at every consulted point *)
  mk_diff_aware ny2020 (PDT 2020 5 31 8 0 0 0) (PDT 2020 4 30 12 0 0 0)
  = mk_diff (PDT 2020 5 31 8 0 0 0) (PDT 2020 4 30 12 0 0 0).
Proof. vm_compute. reflexivity. Qed.
