(* C09 for aware operands with DISTINCT tzinfo objects of one zone (RdAwareModel):
   - a zone with a constant utcoffset (two distinct tzoffset / tzutc-like objects): the result is
     exactly that of the naive constructor, so every C09 theorem applies;
   - a zone whose utcoffset changes between the operands: the inverse law FAILS (refuted). *)
From Coq Require Import ZArith List Bool Lia ZifyBool.
From V Require Import base.Cal gen.RdTables rd.RdBase rd.RdModel rd.RdSpec rd.RdAddThm rd.RdDiffThm rd.RdAddThm2
  rd.RdAwareModel.
Import ListNotations.
Open Scope Z_scope.
Ltac Zify.zify_post_hook ::= Z.to_euclidean_division_equations.

Lemma ltb_shift a b f : (a - f <? b - f) = (a <? b).
Proof. apply Bool.eq_iff_eq_true. lia. Qed.

Lemma diff_loop_aw_const off f : (forall l, off l = Some f) ->
  forall fuel lt dt1 dt2 months dtm,
  diff_loop_aw fuel off lt dt1 dt2 months dtm = diff_loop fuel lt dt1 dt2 months dtm.
Proof.
  intros H. induction fuel as [|n IH]; intros lt dt1 dt2 months dtm; [reflexivity|].
  cbn [diff_loop_aw diff_loop]. unfold ulin. rewrite !H. cbn [bind]. rewrite !ltb_shift.
  destruct (if lt then lin dtm <? lin dt1 else lin dt1 <? lin dtm); [|reflexivity].
  apply bind_ext. intros dtm'. apply IH.
Qed.

(* guard: the utcoffset is the same wherever the zone is consulted (fixed-offset zones) *)
Theorem mk_diff_aware_const off f y1 m1 d1 hh1 mi1 ss1 us1 y2 m2 d2 hh2 mi2 ss2 us2 :
  (forall l, off l = Some f) ->
  mk_diff_aware off (PDT y1 m1 d1 hh1 mi1 ss1 us1) (PDT y2 m2 d2 hh2 mi2 ss2 us2)
  = mk_diff (PDT y1 m1 d1 hh1 mi1 ss1 us1) (PDT y2 m2 d2 hh2 mi2 ss2 us2).
Proof.
  intros H. unfold mk_diff_aware, mk_diff. cbv beta iota zeta delta [is_datetime Bool.eqb].
  apply bind_ext. intros dtm. unfold ulin. rewrite !H. cbn [bind]. rewrite ltb_shift.
  rewrite (diff_loop_aw_const off f H). apply bind_ext. intros [months dtm'].
  rewrite H. cbn [bind].
  replace (lin (PDT y1 m1 d1 hh1 mi1 ss1 us1) - f - (lin dtm' - f))
    with (lin (PDT y1 m1 d1 hh1 mi1 ss1 us1) - lin dtm') by lia.
  reflexivity.
Qed.

Example mk_diff_aware_const_example :
  (* two distinct +01:00 objects *)
  mk_diff_aware (fun _ => Some 3600000000) (PDT 2020 3 9 12 0 0 0) (PDT 2020 1 31 12 0 0 0)
  = Ok (mkrd (mkrel 0 1 9 0 0 0 0) 0 abs0 None).
Proof. vm_compute. reflexivity. Qed.

(* America/New_York, 2020: EST (-5 h) until 8 March 02:00, then EDT (-4 h).  dt2 = 7 March 12:00,
   dt1 = 9 March 12:00, held in two distinct tzinfo objects: the difference is taken between the
   UTC instants (47 h), but added back as wall-clock time: 9 March 11:00, not 12:00. *)
Definition ny2020 : offfun := fun l =>
  if l <? lin (PDT 2020 3 8 2 0 0 0) then Some (-18000000000) else Some (-14400000000).

Theorem diff_inverse_distinct_tzinfo_refuted :
  exists off dt1 dt2 d r,
    valid_dt dt1 = true /\ valid_dt dt2 = true /\
    mk_diff_aware off dt1 dt2 = Ok d /\ add_dt d dt2 = Ok r /\ r <> dt1.
Proof.
  exists ny2020, (PDT 2020 3 9 12 0 0 0), (PDT 2020 3 7 12 0 0 0),
         (mkrd (mkrel 0 0 1 23 0 0 0) 0 abs0 None), (PDT 2020 3 9 11 0 0 0).
  split; [reflexivity|]. split; [reflexivity|]. split; [vm_compute; reflexivity|].
  split; [vm_compute; reflexivity | discriminate].
Qed.

(* ---------------------------------------------------------------- a sharper guard *)
(* It is enough that the utcoffset is the same at dt1, at dt2 and at the whole-month shifts of dt2
   the constructor can reach (the initial month count m0 and at most 3 steps around it): then the
   distinct-tzinfo computation coincides with the naive one, for every zone. *)
Lemma add_set_months_shape k o x : valid_dt o = true ->
  add_dt (set_months rd0 k) o = Ok x -> x = shifted o k.
Proof.
  intros V H. pose proof (add_set_months k o V) as A. rewrite H in A. cbn [res_opt] in A.
  destruct (valid_dt (shifted o k)); congruence.
Qed.

Lemma diff_loop_aw_local off f lt dt1 dt2 : valid_dt dt2 = true -> off (lin dt1) = Some f ->
  forall fuel months,
  (forall k, Z.abs (k - months) <= Z.of_nat fuel -> off (lin (shifted dt2 k)) = Some f) ->
  diff_loop_aw fuel off lt dt1 dt2 months (shifted dt2 months)
  = diff_loop fuel lt dt1 dt2 months (shifted dt2 months).
Proof.
  intros V H1. induction fuel as [|n IH]; intros months HK; [reflexivity|].
  cbn [diff_loop_aw diff_loop]. unfold ulin. rewrite H1, (HK months) by lia. cbn [bind].
  rewrite !ltb_shift.
  destruct (if lt then lin (shifted dt2 months) <? lin dt1 else lin dt1 <? lin (shifted dt2 months));
    [|reflexivity].
  set (months' := months + (if lt then 1 else -1)).
  destruct (add_dt (set_months rd0 months') dt2) as [x|e] eqn:E; [|reflexivity]. cbn [bind].
  rewrite (add_set_months_shape _ _ _ V E). apply IH.
  intros k Hk. apply HK. rewrite Nat2Z.inj_succ. unfold months' in Hk. destruct lt; lia.
Qed.

Lemma diff_loop_shape lt dt1 dt2 : valid_dt dt2 = true ->
  forall fuel months m' x,
  diff_loop fuel lt dt1 dt2 months (shifted dt2 months) = Ok (m', x) ->
  x = shifted dt2 m' /\ Z.abs (m' - months) <= Z.of_nat fuel.
Proof.
  intros V. induction fuel as [|n IH]; intros months m' x H; [discriminate|].
  cbn [diff_loop] in H. rewrite Nat2Z.inj_succ.
  destruct (if lt then lin (shifted dt2 months) <? lin dt1 else lin dt1 <? lin (shifted dt2 months)).
  - set (months' := months + (if lt then 1 else -1)) in *.
    destruct (add_dt (set_months rd0 months') dt2) as [y|e] eqn:E; [|discriminate]. cbn [bind] in H.
    rewrite (add_set_months_shape _ _ _ V E) in H. apply IH in H. destruct H as [H1 H2].
    split; [exact H1|]. unfold months' in H2. destruct lt; lia.
  - injection H as <- <-. split; [reflexivity | lia].
Qed.

Theorem mk_diff_aware_local off f y1 m1 d1 hh1 mi1 ss1 us1 y2 m2 d2 hh2 mi2 ss2 us2 :
  let dt1 := PDT y1 m1 d1 hh1 mi1 ss1 us1 in
  let dt2 := PDT y2 m2 d2 hh2 mi2 ss2 us2 in
  valid_dt dt2 = true -> off (lin dt1) = Some f -> off (lin dt2) = Some f ->
  (forall k, Z.abs (k - (mi dt1 - mi dt2)) <= 3 -> off (lin (shifted dt2 k)) = Some f) ->
  mk_diff_aware off dt1 dt2 = mk_diff dt1 dt2.
Proof.
  intros dt1 dt2 V H1 H2 HK.
  unfold mk_diff_aware, mk_diff, dt1, dt2. cbv beta iota zeta delta [is_datetime Bool.eqb].
  fold dt1 dt2.
  replace ((y1 - y2) * 12 + (m1 - m2)) with (mi dt1 - mi dt2)
    by (unfold mi, dt1, dt2; cbn [ym_of fst snd]; lia).
  set (m0 := mi dt1 - mi dt2) in *.
  destruct (add_dt (set_months rd0 m0) dt2) as [dtm|e] eqn:E; [|reflexivity]. cbn [bind].
  rewrite (add_set_months_shape _ _ _ V E).
  unfold ulin at 1 2. rewrite H1, H2. cbn [bind]. rewrite ltb_shift.
  rewrite (diff_loop_aw_local off f _ dt1 dt2 V H1 diff_fuel m0)
    by (intros k Hk; apply HK; unfold diff_fuel in Hk; lia).
  destruct (diff_loop diff_fuel (lin dt1 <? lin dt2) dt1 dt2 m0 (shifted dt2 m0)) as [[m' x]|e] eqn:EL;
    [|reflexivity]. cbn [bind].
  destruct (diff_loop_shape _ dt1 dt2 V _ _ _ _ EL) as [-> HB].
  unfold ulin. rewrite (HK m') by (unfold diff_fuel in HB; lia). cbn [bind].
  replace (lin dt1 - f - (lin (shifted dt2 m') - f)) with (lin dt1 - lin (shifted dt2 m')) by lia.
  reflexivity.
Qed.

Example mk_diff_aware_local_example :
  (* New York again, both operands after the DST start: same offset at every consulted point *)
  mk_diff_aware ny2020 (PDT 2020 5 31 8 0 0 0) (PDT 2020 4 30 12 0 0 0)
  = mk_diff (PDT 2020 5 31 8 0 0 0) (PDT 2020 4 30 12 0 0 0).
Proof. vm_compute. reflexivity. Qed.

(* ---------------------------------------------------------------- guard = complement of the finding *)
(* The inverse law for distinct tzinfo objects holds EXACTLY when the utcoffset at dt1 equals the
   utcoffset at dt2 shifted by the result's years/months (the value `dtm` the residual is taken
   from): then the UTC residual is the wall-clock residual.  This is the negation of the matcher
   of finding F-C09-distinct-tzinfo (check_C09.py m_distinct_tzinfo_offset_change); nothing is
   assumed about the offsets at dt2 or at the other month shifts the loop visits. *)
Lemma diff_loop_aw_shape off lt dt1 dt2 : valid_dt dt2 = true ->
  forall fuel months m' x,
  diff_loop_aw fuel off lt dt1 dt2 months (shifted dt2 months) = Ok (m', x) ->
  x = shifted dt2 m'.
Proof.
  intros V. induction fuel as [|n IH]; intros months m' x H; [discriminate|].
  cbn [diff_loop_aw] in H.
  destruct (ulin off dt1) as [u1|e]; [|discriminate]. cbn [bind] in H.
  destruct (ulin off (shifted dt2 months)) as [um|e]; [|discriminate]. cbn [bind] in H.
  destruct (if lt then um <? u1 else u1 <? um).
  - set (months' := months + (if lt then 1 else -1)) in *.
    destruct (add_dt (set_months rd0 months') dt2) as [y|e] eqn:E; [|discriminate]. cbn [bind] in H.
    rewrite (add_set_months_shape _ _ _ V E) in H. apply IH in H. exact H.
  - injection H as <- <-. reflexivity.
Qed.

Theorem mk_diff_aware_inverse off f y1 m1 d1 hh1 mi1 ss1 us1 y2 m2 d2 hh2 mi2 ss2 us2 d :
  let dt1 := PDT y1 m1 d1 hh1 mi1 ss1 us1 in
  let dt2 := PDT y2 m2 d2 hh2 mi2 ss2 us2 in
  valid_dt dt1 = true -> valid_dt dt2 = true ->
  mk_diff_aware off dt1 dt2 = Ok d ->
  off (lin dt1) = Some f -> off (lin (shifted dt2 (rel_months (rel d)))) = Some f ->
  add_dt d dt2 = Ok dt1.
Proof.
  intros dt1 dt2 V1 V2 H F1 Fm.
  unfold mk_diff_aware in H. fold dt1 dt2 in H.
  apply bind_ok in H. destruct H as (dtm0 & E0 & H).
  rewrite (add_set_months_shape _ _ _ V2 E0) in H.
  apply bind_ok in H. destruct H as (u1 & EU1 & H).
  apply bind_ok in H. destruct H as (u2 & _ & H).
  apply bind_ok in H. destruct H as ([months dtm] & EL & H).
  pose proof (diff_loop_aw_shape off _ dt1 dt2 V2 _ _ _ _ EL) as ->.
  apply bind_ok in H. destruct H as (um & EUM & H).
  destruct (set_months_shape months) as (y & mo & ES & Hk & Hmo & _). rewrite ES in H.
  cbn [rel f_years f_months] in H. injection H as <-.
  set (delta := u1 - um) in *.
  set (r := mkrel y mo 0 0 0 (delta mod us_day / us_sec + delta / us_day * 86400) (delta mod us_day mod us_sec)).
  destruct (fix_rel_spec r) as (N & U & RM & YM). destruct (YM Hmo) as [EY EM]. cbn [r f_years f_months] in EY, EM.
  unfold fix_rd in Fm |- *. cbn [rel leapdays ab wd] in Fm |- *. fold r in Fm |- *.
  assert (EMo : rel_months (fix_rel r) = months) by (unfold rel_months; rewrite EY, EM; lia).
  rewrite EMo in Fm.
  (* the value the residual was taken from is a valid datetime: it was produced by the model of __add__ *)
  assert (VS : valid_dt (shifted dt2 months) = true).
  { destruct (Z.eq_dec months ((y1 - y2) * 12 + (m1 - m2))) as [->|NE].
    - eapply add_dt_valid. rewrite <- (add_set_months_shape _ _ _ V2 E0). exact E0.
    - (* after at least one loop step: the last add_dt produced it *)
      clear - EL V2 NE. unfold diff_fuel in EL.
      assert (G : forall fuel m0, m0 <> months ->
                  diff_loop_aw fuel off (u1 <? u2) dt1 dt2 m0 (shifted dt2 m0) = Ok (months, shifted dt2 months) ->
                  valid_dt (shifted dt2 months) = true).
      { induction fuel as [|n IH]; intros m0 Hne H; [discriminate|].
        cbn [diff_loop_aw] in H.
        destruct (ulin off dt1) as [a|e]; [|discriminate]. cbn [bind] in H.
        destruct (ulin off (shifted dt2 m0)) as [b|e]; [|discriminate]. cbn [bind] in H.
        destruct (if u1 <? u2 then b <? a else a <? b).
        - set (m0' := m0 + (if u1 <? u2 then 1 else -1)) in *.
          destruct (add_dt (set_months rd0 m0') dt2) as [yv|e] eqn:E; [|discriminate]. cbn [bind] in H.
          pose proof (add_set_months_shape _ _ _ V2 E) as ->.
          destruct (Z.eq_dec m0' months) as [<-|N2]; [eapply add_dt_valid; exact E|].
          apply (IH m0' N2 H).
        - injection H as E1 _. contradiction. }
      apply (G 3%nat ((y1 - y2) * 12 + (m1 - m2))); [congruence | exact EL]. }
  unfold ulin in EU1, EUM. rewrite F1 in EU1. rewrite Fm in EUM.
  assert (Eu1 : u1 = lin dt1 - f) by congruence.
  assert (Eum : um = lin (shifted dt2 months) - f) by congruence. clear EU1 EUM.
  assert (SA : spec_add (mkrd (fix_rel r) 0 abs0 None) dt2 = Some dt1).
  { apply (spec_add_final _ _ _ months V1 V2 eq_refl); [rewrite EY, EM; exact Hk | exact VS |].
    unfold dt2 at 1. rewrite U. unfold r, rel_us. cbn [f_days f_hours f_minutes f_seconds f_us].
    unfold delta, us_day, us_sec. lia. }
  assert (WF : wf_rd (mkrd (fix_rel r) 0 abs0 None) = true).
  { unfold wf_rd. cbn [rel ab wd abs0 a_year a_month a_day opt_ok]. rewrite N. reflexivity. }
  apply res_opt_some. rewrite add_dt_spec by assumption. exact SA.
Qed.
