(* Theorems of C16, part 4: every operator respects equality (equal operands give equal
   results), and concrete examples showing that the hypotheses of the C16 theorems are satisfiable
   and that the statements are not vacuous. *)
From Coq Require Import ZArith List Bool Lia ZifyBool.
From V Require Import base.Cal gen.RdTables rd.RdBase rd.RdModel rd.RdAlgModel rd.RdAlgSpec
  rd.RdAlgThm rd.RdAlgLaws rd.RdAlgLaws2.
Import ListNotations.
Open Scope Z_scope.

Lemma hash_wd_first_some : forall a a' b b',
  hash_wd a = hash_wd a' -> hash_wd b = hash_wd b' ->
  hash_wd (first_some a b) = hash_wd (first_some a' b').
Proof.
  intros [[w n]|] [[w' n']|] b b' H1 H2; cbn [first_some hash_wd] in *; try discriminate; auto.
Qed.

Lemma key_parts : forall a b, hash_key a = hash_key b ->
  hash_wd (wd a) = hash_wd (wd b) /\ rel a = rel b /\ leapdays a = leapdays b /\ ab a = ab b.
Proof. intros a b H. unfold hash_key in H. inversion H. auto. Qed.

Lemma key_of_parts : forall a b,
  hash_wd (wd a) = hash_wd (wd b) -> rel a = rel b -> leapdays a = leapdays b -> ab a = ab b ->
  hash_key a = hash_key b.
Proof. intros a b H1 H2 H3 H4. unfold hash_key. rewrite H1, H2, H3, H4. reflexivity. Qed.

Theorem neg_respects_eqb : forall a b, eqb a b = true -> eqb (neg a) (neg b) = true.
Proof. intros a b. rewrite !eqb_iff_hash_key. apply neg_key. Qed.

Theorem abs_respects_eqb : forall a b, eqb a b = true -> eqb (abs_rd a) (abs_rd b) = true.
Proof.
  intros a b. rewrite !eqb_iff_hash_key. intro H. destruct (key_parts a b H) as (Hw & Hr & Hl & Ha).
  apply key_of_parts; unfold abs_rd, build, fix_rd; cbn [rel leapdays ab wd]; congruence.
Qed.

Theorem add_respects_eqb : forall a a' b b',
  eqb a a' = true -> eqb b b' = true -> eqb (add_rd a b) (add_rd a' b') = true.
Proof.
  intros a a' b b'. rewrite !eqb_iff_hash_key. intros H1 H2.
  destruct (key_parts a a' H1) as (Hw & Hr & Hl & Ha).
  destruct (key_parts b b' H2) as (Hw' & Hr' & Hl' & Ha').
  apply key_of_parts; unfold add_rd, build, fix_rd; cbn [rel leapdays ab wd];
    rewrite ?Hr, ?Hr', ?Hl, ?Hl', ?Ha, ?Ha'; try reflexivity. apply hash_wd_first_some; assumption.
Qed.

Theorem sub_respects_eqb : forall a a' b b',
  eqb a a' = true -> eqb b b' = true -> eqb (sub_rd a b) (sub_rd a' b') = true.
Proof.
  intros a a' b b'. rewrite !eqb_iff_hash_key. intros H1 H2.
  destruct (key_parts a a' H1) as (Hw & Hr & Hl & Ha).
  destruct (key_parts b b' H2) as (Hw' & Hr' & Hl' & Ha').
  apply key_of_parts; unfold sub_rd, build, fix_rd; cbn [rel leapdays ab wd];
    rewrite ?Hr, ?Hr', ?Hl, ?Hl', ?Ha, ?Ha'; try reflexivity. apply hash_wd_first_some; assumption.
Qed.

Theorem mul_respects_eqb : forall a b k, eqb a b = true -> eqb (mul_int a k) (mul_int b k) = true.
Proof.
  intros a b k. rewrite !eqb_iff_hash_key. intro H. destruct (key_parts a b H) as (Hw & Hr & Hl & Ha).
  apply key_of_parts; unfold mul_int, mul_with, build, fix_rd; cbn [rel leapdays ab wd]; congruence.
Qed.

(* ---------------------------------------------------------------- examples (non-vacuity) *)
(* relativedelta(hours=+49, minutes=-61, seconds=3661, microseconds=-1500000, months=-25) *)
Definition ex_raw : relf := mkrel 0 (-25) 0 49 (-61) 3661 (-1500000).
Example ex_fix : fix_rel ex_raw = mkrel (-2) (-1) 2 1 0 0 (-500000).
Proof. vm_compute. reflexivity. Qed.
Example ex_fix_changes : fix_rel ex_raw <> ex_raw.
Proof. vm_compute. discriminate. Qed.

(* a well-formed delta with every kind of field: months=-1, days=40, hours=-3, seconds=59,
   leapdays=1, year=2000, day=31, weekday=FR(-2) *)
Definition ex_d : rd :=
  mkrd (mkrel 0 (-1) 40 (-3) 0 59 0) 1 (mkabs (Some 2000) None (Some 31) None None None None)
       (Some (4, Some (-2))).
Example ex_d_wf : wf ex_d.
Proof. unfold wf, normal. vm_compute. repeat split; discriminate. Qed.
Example ex_d_roundtrip : mk (fields_of ex_d) = Ok ex_d.
Proof. vm_compute. reflexivity. Qed.
Example ex_d_neg : neg ex_d <> ex_d /\ neg (neg ex_d) = ex_d.
Proof. split; [vm_compute; discriminate | vm_compute; reflexivity]. Qed.

(* the historical defect D16: MO, MO(0), MO(+1) are equal and share one hash key, MO(+2) differs *)
Definition ex_mo (n : option Z) : rd := mkrd rel0 0 abs0 (Some (0, n)).
Example ex_eq_weekday : eqb (ex_mo None) (ex_mo (Some 1)) = true /\ eqb (ex_mo (Some 0)) (ex_mo (Some 1)) = true
  /\ ex_mo None <> ex_mo (Some 1) /\ hash_key (ex_mo None) = hash_key (ex_mo (Some 1))
  /\ eqb (ex_mo None) (ex_mo (Some 2)) = false.
Proof. repeat split; try (vm_compute; reflexivity). vm_compute. discriminate. Qed.

(* equal but not identical deltas move a date identically: 2024-02-28 + MO / MO(+1) = 2024-03-04 *)
Example ex_eq_add : add_dt (ex_mo None) (PD 2024 2 28) = Ok (PD 2024 3 4)
  /\ add_dt (ex_mo (Some 1)) (PD 2024 2 28) = Ok (PD 2024 3 4).
Proof. split; vm_compute; reflexivity. Qed.

(* d + (-d) keeps the absolute part: it has no relative part but is not empty *)
Example ex_add_neg : no_rel (add_rd ex_d (neg ex_d)) = true /\ rd_bool (add_rd ex_d (neg ex_d)) = true.
Proof. split; vm_compute; reflexivity. Qed.

Example ex_bool : rd_bool rd0 = false /\ rd_bool (mkrd rel0 0 (mkabs (Some 0) None None None None None None) None) = true.
Proof. split; vm_compute; reflexivity. Qed.

(* years=3/2 is rejected, years=4/2 with months=-26/2 is years=+2 months=-13 -> years=+1, months=-1 *)
Definition kw0 : kwargs := mkkw rel0 0 0 abs0 WNone None None.
Example ex_frac_rejected : mk_frac 3 2 0 1 kw0 = Err EValue /\ ~ q_integral 3 2.
Proof. split; [vm_compute; reflexivity |]. intros [z Hz]. lia. Qed.
Example ex_frac_accepted : q_integral 4 2 /\ q_integral (-26) 2 /\
  mk_frac 4 2 (-26) 2 kw0 = Ok (mkrd (mkrel 1 (-1) 0 0 0 0 0) 0 abs0 None).
Proof. split; [exists 2; lia |]. split; [exists (-13); lia |]. vm_compute. reflexivity. Qed.

(* sign rule: one-signed arguments keep their sign through every carry *)
Example ex_sign : all_nonpos (mkrel 0 (-13) 0 (-25) 0 (-61) 0) /\
  fix_rel (mkrel 0 (-13) 0 (-25) 0 (-61) 0) = mkrel (-1) (-1) (-1) (-1) (-1) (-1) 0.
Proof. split; [unfold all_nonpos; cbn; lia | vm_compute; reflexivity]. Qed.

(* ---------------------------------------------------------------- bundled statements for props/C16.v *)
Theorem ops_preserve_wf : forall a b k p x y z,
  wf (neg a) /\ wf (abs_rd a) /\ wf (add_rd a b) /\ wf (sub_rd a b) /\ wf (mul_int a k) /\
  wf (mul_with a p) /\ wf (normalized a) /\ wf (add_td a x y z).
Proof.
  intros. repeat split; first [apply neg_wf | apply abs_wf | apply add_wf | apply sub_wf
    | apply mul_int_wf | apply mul_with_wf | apply normalized_wf | apply add_td_wf].
Qed.

Theorem fix_sign : forall r,
  (all_nonneg r -> all_nonneg (fix_rel r)) /\ (all_nonpos r -> all_nonpos (fix_rel r)).
Proof. intro r. split; [apply fix_nonneg | apply fix_nonpos]. Qed.

Theorem no_relative_laws : forall d,
  no_rel (add_rd d (neg d)) = true /\ no_rel (add_rd (neg d) d) = true /\
  no_rel (sub_rd d d) = true /\ no_rel (mul_int d 0) = true.
Proof.
  intro d. repeat split; [apply add_neg_no_relative | apply neg_add_no_relative
    | apply sub_self_no_relative | apply mul_zero_no_relative].
Qed.

Theorem ops_respect_eqb : forall a a' b b' k,
  eqb a a' = true -> eqb b b' = true ->
  eqb (neg a) (neg a') = true /\ eqb (abs_rd a) (abs_rd a') = true /\
  eqb (add_rd a b) (add_rd a' b') = true /\ eqb (sub_rd a b) (sub_rd a' b') = true /\
  eqb (mul_int a k) (mul_int a' k) = true.
Proof.
  intros a a' b b' k H1 H2. repeat split;
    [apply neg_respects_eqb | apply abs_respects_eqb | apply add_respects_eqb
     | apply sub_respects_eqb | apply mul_respects_eqb]; assumption.
Qed.

Theorem eqb_acts_equally : forall a b o, eqb a b = true ->
  add_dt a o = add_dt b o /\ radd a o = radd b o /\ rsub a o = rsub b o.
Proof.
  intros a b o H. repeat split; [apply eqb_add_dt | apply eqb_add_dt | apply eqb_rsub]; exact H.
Qed.

Theorem totals_laws : forall a b k x y z,
  (rel_us (rel (neg a)) = - rel_us (rel a) /\ rel_months (rel (neg a)) = - rel_months (rel a)) /\
  (rel_us (rel (add_rd a b)) = rel_us (rel a) + rel_us (rel b) /\
   rel_months (rel (add_rd a b)) = rel_months (rel a) + rel_months (rel b)) /\
  (rel_us (rel (sub_rd a b)) = rel_us (rel a) - rel_us (rel b) /\
   rel_months (rel (sub_rd a b)) = rel_months (rel a) - rel_months (rel b)) /\
  (rel_us (rel (mul_int a k)) = rel_us (rel a) * k /\
   rel_months (rel (mul_int a k)) = rel_months (rel a) * k) /\
  (rel_us (rel (add_td a x y z)) = rel_us (rel a) + ((x * 86400 + y) * 1000000 + z) /\
   rel_months (rel (add_td a x y z)) = rel_months (rel a)).
Proof.
  intros. split; [apply neg_total |]. split; [apply add_total |]. split; [apply sub_total |].
  split; [apply mul_int_total | apply add_td_total].
Qed.

Theorem scalar_laws : forall d,
  (wf d -> mul_int d 1 = d) /\ mul_int d (-1) = neg d /\ (wf d -> normalized d = d) /\
  all_nonneg (rel (abs_rd d)) /\ abs_rd (abs_rd d) = abs_rd d.
Proof.
  intro d. split; [apply mul_one |]. split; [apply mul_minus_one |]. split; [apply normalized_id |].
  split; [apply abs_nonneg | apply abs_idempotent].
Qed.

(* relativedelta(dt1, dt2), the other constructor form, returns a normalised delta as well *)
Theorem mk_diff_wf : forall dt1 dt2 d, mk_diff dt1 dt2 = Ok d -> wf d.
Proof.
  intros dt1 dt2 d. unfold mk_diff.
  destruct (if Bool.eqb (is_datetime dt1) (is_datetime dt2) then (dt1, dt2) else (promote dt1, promote dt2)) as [a b].
  destruct (match a with PD y m _ => (y, m) | PDT y m _ _ _ _ _ => (y, m) end) as [y1 m1].
  destruct (match b with PD y m _ => (y, m) | PDT y m _ _ _ _ _ => (y, m) end) as [y2 m2].
  unfold bind.
  destruct (add_dt _ b) as [dtm|]; [| discriminate].
  destruct (diff_loop _ _ _ _ _ _) as [[months dtm']|]; [| discriminate].
  destruct (match a with PD _ _ _ => _ | PDT _ _ _ _ _ _ _ => _ end) as [secs us].
  intro H. inversion H. apply fix_rd_wf.
Qed.

(* scalar multiplication by an exact rational p/q: normalised result; q = 1 is mul_int *)
Theorem mul_q_laws : forall d p q k, wf (mul_q d p q) /\ mul_q d k 1 = mul_int d k.
Proof.
  intros d p q k. split; [apply mul_with_wf |].
  unfold mul_q, mul_int. f_equal. destruct (rel d) as [y mo dd h mi s us]. unfold map_rel.
  cbn [f_years f_months f_days f_hours f_minutes f_seconds f_us]. rewrite !Z.quot_1_r. reflexivity.
Qed.
