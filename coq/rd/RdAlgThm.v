(* Theorems of C16 about the relativedelta model (rd/RdModel.v + rd/RdAlgModel.v) and the
   executable spec rd/RdAlgSpec.v.  Part 1: carries / _fix. *)
From Coq Require Import ZArith List Bool Lia ZifyBool.
From V Require Import base.Cal gen.RdTables rd.RdBase rd.RdModel rd.RdAlgModel rd.RdAlgSpec.
Import ListNotations.
Open Scope Z_scope.

(* ---------------------------------------------------------------- one carry step *)
Lemma carry_small : forall b v u, Z.abs v <= b - 1 -> carry b v u = (v, u).
Proof.
  intros b v u H. unfold carry.
  destruct (b - 1 <? Z.abs v) eqn:E; [lia | reflexivity].
Qed.

Lemma carry_total : forall b v u, 0 < b ->
  snd (carry b v u) * b + fst (carry b v u) = u * b + v.
Proof.
  intros b v u Hb. unfold carry, sgn.
  destruct (b - 1 <? Z.abs v); [| reflexivity].
  destruct (v <? 0); cbn [fst snd].
  - pose proof (Z.div_mod (v * -1) b ltac:(lia)). nia.
  - pose proof (Z.div_mod (v * 1) b ltac:(lia)). nia.
Qed.

Lemma carry_bound : forall b v u, 0 < b -> Z.abs (fst (carry b v u)) < b.
Proof.
  intros b v u Hb. unfold carry, sgn.
  destruct (b - 1 <? Z.abs v) eqn:E; cbn [fst snd]; [| lia].
  destruct (v <? 0); cbn [fst snd].
  - pose proof (Z.mod_pos_bound (v * -1) b Hb). lia.
  - pose proof (Z.mod_pos_bound (v * 1) b Hb). lia.
Qed.

Lemma carry_nonneg : forall b v u, 0 < b -> 0 <= v ->
  0 <= fst (carry b v u) /\ u <= snd (carry b v u).
Proof.
  intros b v u Hb Hv. unfold carry, sgn.
  destruct (b - 1 <? Z.abs v) eqn:E; cbn [fst snd]; [| lia].
  destruct (v <? 0) eqn:E2; [lia |]. cbn [fst snd].
  pose proof (Z.mod_pos_bound (v * 1) b Hb).
  pose proof (Z.div_pos (v * 1) b ltac:(lia) Hb). lia.
Qed.

Lemma carry_nonpos : forall b v u, 0 < b -> v <= 0 ->
  fst (carry b v u) <= 0 /\ snd (carry b v u) <= u.
Proof.
  intros b v u Hb Hv. unfold carry, sgn.
  destruct (b - 1 <? Z.abs v) eqn:E; cbn [fst snd]; [| lia].
  destruct (v <? 0) eqn:E2; cbn [fst snd].
  - pose proof (Z.mod_pos_bound (v * -1) b Hb).
    pose proof (Z.div_pos (v * -1) b ltac:(lia) Hb). lia.
  - lia.
Qed.

(* the code's conditional sign-and-divmod carry IS the truncating division of the spec *)
Lemma quot_rem_neg : forall b v, 0 < b -> v < 0 ->
  Z.rem v b = - ((- v) mod b) /\ Z.quot v b = - ((- v) / b).
Proof.
  intros b v Hb Hv.
  pose proof (Z.rem_opp_l' (- v) b) as H1. rewrite Z.opp_involutive in H1.
  pose proof (Z.quot_opp_l (- v) b ltac:(lia)) as H2. rewrite Z.opp_involutive in H2.
  rewrite H1, H2. rewrite Z.rem_mod_nonneg, Z.quot_div_nonneg by lia. auto.
Qed.

Lemma carry_is_tcarry : forall b v u, 0 < b -> carry b v u = tcarry b v u.
Proof.
  intros b v u Hb. unfold carry, tcarry, sgn.
  destruct (b - 1 <? Z.abs v) eqn:E.
  - destruct (v <? 0) eqn:E2.
    + destruct (quot_rem_neg b v Hb ltac:(lia)) as [R Q]. rewrite R, Q.
      replace (v * -1) with (- v) by lia. f_equal; ring.
    + rewrite !Z.mul_1_r. assert (0 <= v) by lia. rewrite Z.rem_mod_nonneg, Z.quot_div_nonneg by assumption. reflexivity.
  - destruct (Z.le_gt_cases 0 v).
    + rewrite Z.rem_small, Z.quot_small by lia. f_equal; ring.
    + destruct (quot_rem_neg b v Hb ltac:(lia)) as [R Q]. rewrite R, Q.
      rewrite Z.mod_small, Z.div_small by lia. f_equal; ring.
Qed.

(* ---------------------------------------------------------------- _fix on the relative fields *)
Definition c1 (r : relf) := carry 1000000 (f_us r) (f_seconds r).
Definition c2 (r : relf) := carry 60 (snd (c1 r)) (f_minutes r).
Definition c3 (r : relf) := carry 60 (snd (c2 r)) (f_hours r).
Definition c4 (r : relf) := carry 24 (snd (c3 r)) (f_days r).
Definition c5 (r : relf) := carry 12 (f_months r) (f_years r).

Lemma fix_rel_unfold : forall r,
  fix_rel r = mkrel (snd (c5 r)) (fst (c5 r)) (snd (c4 r)) (fst (c4 r)) (fst (c3 r)) (fst (c2 r)) (fst (c1 r)).
Proof.
  intro r. unfold fix_rel, c5, c4, c3, c2, c1.
  destruct (carry 1000000 (f_us r) (f_seconds r)) as [us s]. cbn [fst snd].
  destruct (carry 60 s (f_minutes r)) as [s' mi]. cbn [fst snd].
  destruct (carry 60 mi (f_hours r)) as [mi' h]. cbn [fst snd].
  destruct (carry 24 h (f_days r)) as [h' d]. cbn [fst snd].
  destruct (carry 12 (f_months r) (f_years r)) as [mo y]. reflexivity.
Qed.

Theorem fix_normalised : forall r, normal (fix_rel r).
Proof.
  intro r. rewrite fix_rel_unfold. unfold normal. cbn [f_months f_hours f_minutes f_seconds f_us].
  unfold c5, c4, c3, c2, c1.
  repeat split; apply carry_bound; lia.
Qed.

Theorem fix_total : forall r,
  rel_us (fix_rel r) = rel_us r /\ rel_months (fix_rel r) = rel_months r.
Proof.
  intro r. rewrite fix_rel_unfold. unfold rel_us, rel_months, us_sec.
  cbn [f_years f_months f_days f_hours f_minutes f_seconds f_us].
  pose proof (carry_total 1000000 (f_us r) (f_seconds r) ltac:(lia)) as H1.
  pose proof (carry_total 60 (snd (c1 r)) (f_minutes r) ltac:(lia)) as H2.
  pose proof (carry_total 60 (snd (c2 r)) (f_hours r) ltac:(lia)) as H3.
  pose proof (carry_total 24 (snd (c3 r)) (f_days r) ltac:(lia)) as H4.
  pose proof (carry_total 12 (f_months r) (f_years r) ltac:(lia)) as H5.
  fold (c1 r) in H1. fold (c2 r) in H2. fold (c3 r) in H3. fold (c4 r) in H4. fold (c5 r) in H5.
  split; lia.
Qed.

Theorem fix_is_spec : forall r, fix_rel r = spec_fix_rel r.
Proof.
  intro r. unfold fix_rel, spec_fix_rel.
  rewrite (carry_is_tcarry 1000000) by lia.
  destruct (tcarry 1000000 (f_us r) (f_seconds r)) as [us s].
  rewrite (carry_is_tcarry 60) by lia.
  destruct (tcarry 60 s (f_minutes r)) as [s' mi].
  rewrite (carry_is_tcarry 60) by lia.
  destruct (tcarry 60 mi (f_hours r)) as [mi' h].
  rewrite (carry_is_tcarry 24) by lia.
  destruct (tcarry 24 h (f_days r)) as [h' d].
  rewrite (carry_is_tcarry 12) by lia.
  reflexivity.
Qed.

Theorem fix_nonneg : forall r, all_nonneg r -> all_nonneg (fix_rel r).
Proof.
  intros r (Hy & Hmo & Hd & Hh & Hmi & Hs & Hus). rewrite fix_rel_unfold. unfold all_nonneg.
  cbn [f_years f_months f_days f_hours f_minutes f_seconds f_us].
  pose proof (carry_nonneg 1000000 (f_us r) (f_seconds r) ltac:(lia) Hus) as H1. fold (c1 r) in H1.
  pose proof (carry_nonneg 60 (snd (c1 r)) (f_minutes r) ltac:(lia) ltac:(lia)) as H2. fold (c2 r) in H2.
  pose proof (carry_nonneg 60 (snd (c2 r)) (f_hours r) ltac:(lia) ltac:(lia)) as H3. fold (c3 r) in H3.
  pose proof (carry_nonneg 24 (snd (c3 r)) (f_days r) ltac:(lia) ltac:(lia)) as H4. fold (c4 r) in H4.
  pose proof (carry_nonneg 12 (f_months r) (f_years r) ltac:(lia) Hmo) as H5. fold (c5 r) in H5.
  lia.
Qed.

Theorem fix_nonpos : forall r, all_nonpos r -> all_nonpos (fix_rel r).
Proof.
  intros r (Hy & Hmo & Hd & Hh & Hmi & Hs & Hus). rewrite fix_rel_unfold. unfold all_nonpos.
  cbn [f_years f_months f_days f_hours f_minutes f_seconds f_us].
  pose proof (carry_nonpos 1000000 (f_us r) (f_seconds r) ltac:(lia) Hus) as H1. fold (c1 r) in H1.
  pose proof (carry_nonpos 60 (snd (c1 r)) (f_minutes r) ltac:(lia) ltac:(lia)) as H2. fold (c2 r) in H2.
  pose proof (carry_nonpos 60 (snd (c2 r)) (f_hours r) ltac:(lia) ltac:(lia)) as H3. fold (c3 r) in H3.
  pose proof (carry_nonpos 24 (snd (c3 r)) (f_days r) ltac:(lia) ltac:(lia)) as H4. fold (c4 r) in H4.
  pose proof (carry_nonpos 12 (f_months r) (f_years r) ltac:(lia) Hmo) as H5. fold (c5 r) in H5.
  lia.
Qed.

(* a normalised record is a fixed point; hence _fix is idempotent *)
Theorem fix_normal_id : forall r, normal r -> fix_rel r = r.
Proof.
  intros r (Hmo & Hh & Hmi & Hs & Hus). unfold fix_rel.
  rewrite (carry_small 1000000) by lia.
  rewrite (carry_small 60) by lia.
  rewrite (carry_small 60) by lia.
  rewrite (carry_small 24) by lia.
  rewrite (carry_small 12) by lia.
  destruct r; reflexivity.
Qed.

Theorem fix_idempotent : forall r, fix_rel (fix_rel r) = fix_rel r.
Proof. intro r. apply fix_normal_id, fix_normalised. Qed.

(* a record whose totals are zero normalises to the zero record *)
Lemma carry_zero_total : forall b v u, 0 < b -> u * b + v = 0 -> carry b v u = (0, 0).
Proof.
  intros b v u Hb H.
  pose proof (carry_total b v u Hb) as T. pose proof (carry_bound b v u Hb) as B.
  destruct (carry b v u) as [x y]. cbn [fst snd] in *.
  assert (y = 0) by nia. subst y. f_equal. lia.
Qed.

Lemma normal_b_iff : forall r, normal_b r = true <-> normal r.
Proof. intro r. unfold normal_b, normal. lia. Qed.
