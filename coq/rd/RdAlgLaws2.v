(* Theorems of C16, part 3: negation, d + (-d), d - d, totals under the operators, abs, scalar
   multiplication by an integer, bool, equal deltas act equally on dates, rational years/months. *)
From Coq Require Import ZArith List Bool Lia ZifyBool.
From V Require Import base.Cal gen.RdTables rd.RdBase rd.RdModel rd.RdAlgModel rd.RdAlgSpec
  rd.RdAlgThm rd.RdAlgLaws.
Import ListNotations.
Open Scope Z_scope.

(* ---------------------------------------------------------------- totals are linear *)
Lemma rel_us_zip_add : forall a b, rel_us (zip_rel Z.add a b) = rel_us a + rel_us b.
Proof. intros [y mo d h mi s us] [y' mo' d' h' mi' s' us']. unfold rel_us, zip_rel, us_sec. cbn [f_days f_hours f_minutes f_seconds f_us]. lia. Qed.
Lemma rel_us_zip_sub : forall a b, rel_us (zip_rel Z.sub a b) = rel_us a - rel_us b.
Proof. intros [y mo d h mi s us] [y' mo' d' h' mi' s' us']. unfold rel_us, zip_rel, us_sec. cbn [f_days f_hours f_minutes f_seconds f_us]. lia. Qed.
Lemma rel_us_opp : forall a, rel_us (map_rel Z.opp a) = - rel_us a.
Proof. intros [y mo d h mi s us]. unfold rel_us, map_rel, us_sec. cbn [f_days f_hours f_minutes f_seconds f_us]. lia. Qed.
Lemma rel_us_scale : forall a k, rel_us (map_rel (fun x => x * k) a) = rel_us a * k.
Proof. intros [y mo d h mi s us] k. unfold rel_us, map_rel, us_sec. cbn [f_days f_hours f_minutes f_seconds f_us]. lia. Qed.
Lemma rel_mo_zip_add : forall a b, rel_months (zip_rel Z.add a b) = rel_months a + rel_months b.
Proof. intros [y mo d h mi s us] [y' mo' d' h' mi' s' us']. unfold rel_months, zip_rel. cbn [f_years f_months]. lia. Qed.
Lemma rel_mo_zip_sub : forall a b, rel_months (zip_rel Z.sub a b) = rel_months a - rel_months b.
Proof. intros [y mo d h mi s us] [y' mo' d' h' mi' s' us']. unfold rel_months, zip_rel. cbn [f_years f_months]. lia. Qed.
Lemma rel_mo_opp : forall a, rel_months (map_rel Z.opp a) = - rel_months a.
Proof. intros [y mo d h mi s us]. unfold rel_months, map_rel. cbn [f_years f_months]. lia. Qed.
Lemma rel_mo_scale : forall a k, rel_months (map_rel (fun x => x * k) a) = rel_months a * k.
Proof. intros [y mo d h mi s us] k. unfold rel_months, map_rel. cbn [f_years f_months]. lia. Qed.

Definition tot (d : rd) : Z * Z := (rel_us (rel d), rel_months (rel d)).

Theorem neg_total : forall d,
  rel_us (rel (neg d)) = - rel_us (rel d) /\ rel_months (rel (neg d)) = - rel_months (rel d).
Proof.
  intro d. unfold neg, build, fix_rd. cbn [rel].
  destruct (fix_total (map_rel Z.opp (rel d))) as [H1 H2]. rewrite H1, H2, rel_us_opp, rel_mo_opp. auto.
Qed.

Theorem add_total : forall a b,
  rel_us (rel (add_rd a b)) = rel_us (rel a) + rel_us (rel b) /\
  rel_months (rel (add_rd a b)) = rel_months (rel a) + rel_months (rel b).
Proof.
  intros a b. unfold add_rd, build, fix_rd. cbn [rel].
  destruct (fix_total (zip_rel Z.add (rel b) (rel a))) as [H1 H2].
  rewrite H1, H2, rel_us_zip_add, rel_mo_zip_add. lia.
Qed.

Theorem sub_total : forall a b,
  rel_us (rel (sub_rd a b)) = rel_us (rel a) - rel_us (rel b) /\
  rel_months (rel (sub_rd a b)) = rel_months (rel a) - rel_months (rel b).
Proof.
  intros a b. unfold sub_rd, build, fix_rd. cbn [rel].
  destruct (fix_total (zip_rel Z.sub (rel a) (rel b))) as [H1 H2].
  rewrite H1, H2, rel_us_zip_sub, rel_mo_zip_sub. lia.
Qed.

Theorem mul_int_total : forall d k,
  rel_us (rel (mul_int d k)) = rel_us (rel d) * k /\
  rel_months (rel (mul_int d k)) = rel_months (rel d) * k.
Proof.
  intros d k. unfold mul_int, mul_with, build, fix_rd. cbn [rel].
  destruct (fix_total (map_rel (fun x => x * k) (rel d))) as [H1 H2].
  rewrite H1, H2, rel_us_scale, rel_mo_scale. auto.
Qed.

Theorem add_td_total : forall d a b c,
  rel_us (rel (add_td d a b c)) = rel_us (rel d) + ((a * 86400 + b) * 1000000 + c) /\
  rel_months (rel (add_td d a b c)) = rel_months (rel d).
Proof.
  intros d a b c. unfold add_td, build, fix_rd. cbn [rel].
  match goal with |- context [fix_rel ?r] => destruct (fix_total r) as [H1 H2]; rewrite H1, H2 end.
  destruct (rel d) as [y mo dd h mi s us]. unfold rel_us, rel_months, us_sec.
  cbn [f_years f_months f_days f_hours f_minutes f_seconds f_us]. lia.
Qed.

(* ---------------------------------------------------------------- zero totals *)
Lemma normal_zero_total : forall r, normal r -> rel_us r = 0 -> rel_months r = 0 -> r = rel0.
Proof.
  intros [y mo d h mi s us] (Hmo & Hh & Hmi & Hs & Hus). unfold rel_us, rel_months, us_sec, rel0.
  cbn [f_years f_months f_days f_hours f_minutes f_seconds f_us] in *. intros H1 H2.
  assert (us = 0) by lia. subst us.
  assert (s = 0) by lia. subst s.
  assert (mi = 0) by lia. subst mi.
  assert (h = 0) by lia. subst h.
  assert (d = 0) by lia. subst d.
  assert (mo = 0) by lia. subst mo.
  assert (y = 0) by lia. subst y. reflexivity.
Qed.

Lemma fix_zero_total : forall r, rel_us r = 0 -> rel_months r = 0 -> fix_rel r = rel0.
Proof.
  intros r H1 H2. apply normal_zero_total; [apply fix_normalised | |];
    destruct (fix_total r) as [T1 T2]; congruence.
Qed.

Lemma no_rel_iff : forall d, no_rel d = true <-> rel d = rel0.
Proof.
  intros [[y mo dd h mi s us] l a w]. unfold no_rel, rel0.
  cbn [rel f_years f_months f_days f_hours f_minutes f_seconds f_us]. split.
  - intro H. f_equal; lia.
  - intro H. inversion H. reflexivity.
Qed.

(* ---------------------------------------------------------------- negation *)
Lemma tcarry_opp : forall b v u, b <> 0 ->
  tcarry b (- v) (- u) = (- fst (tcarry b v u), - snd (tcarry b v u)).
Proof.
  intros b v u Hb. unfold tcarry. cbn [fst snd].
  rewrite Z.rem_opp_l', Z.quot_opp_l by assumption. f_equal. ring.
Qed.

Lemma fix_opp : forall r, fix_rel (map_rel Z.opp r) = map_rel Z.opp (fix_rel r).
Proof.
  intros [y mo d h mi s us]. rewrite !fix_is_spec. unfold spec_fix_rel, map_rel.
  cbn [f_years f_months f_days f_hours f_minutes f_seconds f_us].
  rewrite (tcarry_opp 1000000 us s) by lia.
  destruct (tcarry 1000000 us s) as [us' s1]. cbn [fst snd].
  rewrite (tcarry_opp 60 s1 mi) by lia.
  destruct (tcarry 60 s1 mi) as [s' mi1]. cbn [fst snd].
  rewrite (tcarry_opp 60 mi1 h) by lia.
  destruct (tcarry 60 mi1 h) as [mi' h1]. cbn [fst snd].
  rewrite (tcarry_opp 24 h1 d) by lia.
  destruct (tcarry 24 h1 d) as [h' d']. cbn [fst snd].
  rewrite (tcarry_opp 12 mo y) by lia.
  destruct (tcarry 12 mo y) as [mo' y']. cbn [fst snd]. reflexivity.
Qed.

Lemma map_opp_opp : forall r, map_rel Z.opp (map_rel Z.opp r) = r.
Proof. intros [y mo d h mi s us]. unfold map_rel. cbn [f_years f_months f_days f_hours f_minutes f_seconds f_us].
  rewrite !Z.opp_involutive. reflexivity. Qed.

(* -(-d) is d after normalisation, for every record ... *)
Theorem neg_neg : forall d, neg (neg d) = fix_rd d.
Proof.
  intros [r l a w]. unfold neg, build, fix_rd. cbn [rel leapdays ab wd].
  rewrite !fix_opp, map_opp_opp, fix_idempotent. reflexivity.
Qed.

(* ... hence d itself for every delta that can exist *)
Theorem neg_involutive : forall d, wf d -> neg (neg d) = d.
Proof. intros d H. rewrite neg_neg. apply fix_rd_wf_id, H. Qed.

Theorem add_neg_no_relative : forall d, no_rel (add_rd d (neg d)) = true.
Proof.
  intro d. apply no_rel_iff. destruct (add_total d (neg d)) as [H1 H2].
  destruct (neg_total d) as [N1 N2].
  unfold add_rd, build, fix_rd in *. cbn [rel] in *.
  apply normal_zero_total; [apply fix_normalised | lia | lia].
Qed.

Theorem neg_add_no_relative : forall d, no_rel (add_rd (neg d) d) = true.
Proof.
  intro d. apply no_rel_iff. destruct (add_total (neg d) d) as [H1 H2].
  destruct (neg_total d) as [N1 N2].
  unfold add_rd, build, fix_rd in *. cbn [rel] in *.
  apply normal_zero_total; [apply fix_normalised | lia | lia].
Qed.

Theorem sub_self_no_relative : forall d, no_rel (sub_rd d d) = true.
Proof.
  intro d. apply no_rel_iff. destruct (sub_total d d) as [H1 H2].
  unfold sub_rd, build, fix_rd in *. cbn [rel] in *.
  apply normal_zero_total; [apply fix_normalised | lia | lia].
Qed.

(* ---------------------------------------------------------------- abs *)
Lemma map_abs_nonneg : forall r, all_nonneg (map_rel Z.abs r).
Proof. intros [y mo d h mi s us]. unfold all_nonneg, map_rel.
  cbn [f_years f_months f_days f_hours f_minutes f_seconds f_us]. lia. Qed.

Theorem abs_nonneg : forall d, all_nonneg (rel (abs_rd d)).
Proof. intro d. unfold abs_rd, build, fix_rd. cbn [rel]. apply fix_nonneg, map_abs_nonneg. Qed.

Lemma map_abs_id : forall r, all_nonneg r -> map_rel Z.abs r = r.
Proof. intros [y mo d h mi s us] H. unfold all_nonneg, map_rel in *.
  cbn [f_years f_months f_days f_hours f_minutes f_seconds f_us] in *.
  f_equal; lia. Qed.

Theorem abs_idempotent : forall d, abs_rd (abs_rd d) = abs_rd d.
Proof.
  intro d. pose proof (abs_nonneg d) as H. pose proof (abs_wf d) as W.
  destruct (abs_rd d) as [r l a w] eqn:E. cbn [rel] in H. unfold wf in W. cbn [rel] in W.
  unfold abs_rd, build, fix_rd. cbn [rel leapdays ab wd].
  rewrite map_abs_id by assumption. rewrite fix_normal_id by assumption. reflexivity.
Qed.

(* ---------------------------------------------------------------- integer scalars *)
Lemma map_mul_1 : forall r, map_rel (fun x => x * 1) r = r.
Proof. intros [y mo d h mi s us]. unfold map_rel. cbn [f_years f_months f_days f_hours f_minutes f_seconds f_us].
  rewrite !Z.mul_1_r. reflexivity. Qed.

Theorem mul_one : forall d, wf d -> mul_int d 1 = d.
Proof.
  intros [r l a w] H. unfold mul_int, mul_with, build. cbn [rel leapdays ab wd].
  rewrite map_mul_1. apply fix_rd_wf_id, H.
Qed.

Theorem mul_zero_no_relative : forall d, no_rel (mul_int d 0) = true.
Proof.
  intro d. apply no_rel_iff. destruct (mul_int_total d 0) as [H1 H2].
  unfold mul_int, mul_with, build, fix_rd in *. cbn [rel] in *.
  apply normal_zero_total; [apply fix_normalised | lia | lia].
Qed.

Lemma map_mul_m1 : forall r, map_rel (fun x => x * -1) r = map_rel Z.opp r.
Proof. intros [y mo d h mi s us]. unfold map_rel. cbn [f_years f_months f_days f_hours f_minutes f_seconds f_us].
  f_equal; lia. Qed.

Theorem mul_minus_one : forall d, mul_int d (-1) = neg d.
Proof. intro d. unfold mul_int, mul_with, neg. rewrite map_mul_m1. reflexivity. Qed.

Theorem normalized_id : forall d, wf d -> normalized d = d.
Proof. intros d H. apply fix_rd_wf_id, H. Qed.

(* ---------------------------------------------------------------- bool *)
Lemma negb_nz : forall x, negb (nz x) = true <-> x = 0.
Proof. intro x. unfold nz. rewrite negb_involutive. lia. Qed.

Lemma negb_is_some : forall (A : Type) (a : option A), negb (is_some a) = true <-> a = None.
Proof. intros A [x|]; cbn; split; intro H; try discriminate; reflexivity. Qed.

Theorem bool_false_iff_empty : forall d, rd_bool d = false <-> d = rd0.
Proof.
  intros [[y mo dd h mi s us] l [ay am ad ah ami asec aus] w]. unfold rd_bool, rd0, rel0, abs0.
  cbn [rel leapdays ab wd f_years f_months f_days f_hours f_minutes f_seconds f_us
       a_year a_month a_day a_hour a_minute a_second a_us].
  rewrite negb_false_iff, !andb_true_iff, !negb_nz, !negb_is_some. split.
  - intro H. decompose [and] H. subst. reflexivity.
  - intro H. inversion H. repeat split.
Qed.

Lemma empty_b_iff : forall d, empty_b d = true <-> d = rd0.
Proof.
  intro d. split.
  - intro H. unfold empty_b in H. rewrite !andb_true_iff in H. destruct H as [[[H1 H2] H3] H4].
    apply no_rel_iff in H1. destruct d as [r l [ay am ad ah ami asec aus] w].
    cbn [rel leapdays ab wd a_year a_month a_day a_hour a_minute a_second a_us] in *.
    destruct w; [discriminate H3 |].
    destruct ay, am, ad, ah, ami, asec, aus; try discriminate H4.
    subst r. assert (l = 0) by lia. subst l. reflexivity.
  - intro H. subst d. reflexivity.
Qed.

Theorem bool_is_not_empty : forall d, rd_bool d = negb (empty_b d).
Proof.
  intro d. destruct (empty_b d) eqn:E; cbn [negb].
  - apply bool_false_iff_empty, empty_b_iff, E.
  - destruct (rd_bool d) eqn:B; [reflexivity |].
    apply bool_false_iff_empty, empty_b_iff in B. congruence.
Qed.

(* ---------------------------------------------------------------- equal deltas act equally *)
Lemma bind_ext : forall (A B : Type) (r : res A) (f g : A -> res B),
  (forall x, f x = g x) -> bind r f = bind r g.
Proof. intros A B [a|e] f g H; cbn; auto. Qed.

Lemma stage_wd_ext : forall d d', hash_wd (wd d) = hash_wd (wd d') -> stage_wd d = stage_wd d'.
Proof.
  intros d d'. unfold stage_wd, hash_wd.
  destruct (wd d) as [[w n]|], (wd d') as [[w' n']|]; intro H; try discriminate; try reflexivity.
  inversion H. subst. rewrite H2. reflexivity.
Qed.

Lemma has_time_ext : forall d d', rel d = rel d' -> ab d = ab d' -> has_time d = has_time d'.
Proof. intros d d' H1 H2. unfold has_time. rewrite H1, H2. reflexivity. Qed.
Lemma stage_ym_ext : forall d d', rel d = rel d' -> ab d = ab d' -> stage_ym d = stage_ym d'.
Proof. intros d d' H1 H2. unfold stage_ym. rewrite H1, H2. reflexivity. Qed.
Lemma stage_replace_ext : forall d d', ab d = ab d' -> stage_replace d = stage_replace d'.
Proof. intros d d' H. unfold stage_replace. rewrite H. reflexivity. Qed.
Lemma stage_td_ext : forall d d', rel d = rel d' -> leapdays d = leapdays d' -> stage_td d = stage_td d'.
Proof. intros d d' H1 H2. unfold stage_td. rewrite H1, H2. reflexivity. Qed.

Lemma add_dt_key : forall a b o, hash_key a = hash_key b -> add_dt a o = add_dt b o.
Proof.
  intros a b o H. unfold hash_key in H. inversion H as [[Hw Hr Hl Ha]].
  unfold add_dt.
  rewrite (has_time_ext a b Hr Ha), (stage_ym_ext a b Hr Ha), (stage_replace_ext a b Ha),
          (stage_td_ext a b Hr Hl), (stage_wd_ext a b Hw).
  reflexivity.
Qed.

Theorem eqb_add_dt : forall a b o, eqb a b = true -> add_dt a o = add_dt b o.
Proof. intros a b o H. apply add_dt_key, eqb_iff_hash_key, H. Qed.

Lemma neg_key : forall a b, hash_key a = hash_key b -> hash_key (neg a) = hash_key (neg b).
Proof.
  intros [ra la aa wa] [rb lb ab2 wb] H. unfold hash_key in *. cbn [rel leapdays ab wd] in H.
  inversion H as [[Hw Hr Hl Ha]]. unfold neg, build, fix_rd. cbn [rel leapdays ab wd]. rewrite Hw. reflexivity.
Qed.

Theorem eqb_rsub : forall a b o, eqb a b = true -> rsub a o = rsub b o.
Proof. intros a b o H. unfold rsub. apply add_dt_key, neg_key, eqb_iff_hash_key, H. Qed.

(* ---------------------------------------------------------------- rational years / months *)
Lemma q_is_int_iff : forall p q, q_is_int p q = true <-> q_integral p q.
Proof.
  intros p q. unfold q_is_int, py_int_q, q_integral. rewrite Z.eqb_eq. split.
  - intro H. exists (Z.quot p (Z.pos q)). lia.
  - intros [z Hz]. subst p. rewrite Z.quot_mul by lia. lia.
Qed.

Theorem nonint_years_months_rejected : forall yn yd mn md k,
  ~ q_integral yn yd \/ ~ q_integral mn md -> mk_frac yn yd mn md k = Err EValue.
Proof.
  intros yn yd mn md k H. unfold mk_frac.
  destruct (q_is_int yn yd) eqn:E1; [| reflexivity].
  destruct (q_is_int mn md) eqn:E2; [| reflexivity].
  apply q_is_int_iff in E1. apply q_is_int_iff in E2. tauto.
Qed.

Theorem int_years_months_accepted : forall yn yd mn md k,
  q_integral yn yd -> q_integral mn md ->
  mk_frac yn yd mn md k = mk (set_ym k (yn / Z.pos yd) (mn / Z.pos md)).
Proof.
  intros yn yd mn md k H1 H2. unfold mk_frac.
  rewrite (proj2 (q_is_int_iff yn yd) H1), (proj2 (q_is_int_iff mn md) H2). cbn [negb orb].
  destruct H1 as [a Ha], H2 as [b Hb]. subst. unfold py_int_q.
  rewrite !Z.quot_mul, !Z.div_mul by lia. reflexivity.
Qed.

Theorem mk_frac_error_iff : forall yn yd mn md k d,
  mk_frac yn yd mn md k = Ok d -> q_integral yn yd /\ q_integral mn md.
Proof.
  intros yn yd mn md k d. unfold mk_frac.
  destruct (q_is_int yn yd) eqn:E1; [| discriminate].
  destruct (q_is_int mn md) eqn:E2; [| discriminate].
  intros _. split; apply q_is_int_iff; assumption.
Qed.
