(* Executable model of dateutil.relativedelta (src/dateutil/relativedelta.py) and of
   _common.weekday, mirroring the code branch for branch.  Integer-valued fields only
   (float-valued fields are differential-tested by the harness, not modelled).
   No proofs in this file. *)
From Coq Require Import ZArith List Bool.
From V Require Import base.Cal gen.RdTables rd.RdBase.
Import ListNotations.
Open Scope Z_scope.

(* ---------------------------------------------------------------- _sign, _fix *)
(* _sign(x) = int(copysign(1, x)); 0 -> +1 *)
Definition sgn (x : Z) : Z := if x <? 0 then -1 else 1.

(* one carry step of _fix:
     if abs(v) > base-1: s = _sign(v); div, mod = divmod(v*s, base); v = mod*s; up += div*s *)
Definition carry (base v up : Z) : Z * Z :=
  if base - 1 <? Z.abs v then
    let s := sgn v in
    (((v * s) mod base) * s, up + ((v * s) / base) * s)
  else (v, up).

Definition fix_rel (r : relf) : relf :=
  let '(us, s) := carry 1000000 (f_us r) (f_seconds r) in
  let '(s, mi) := carry 60 s (f_minutes r) in
  let '(mi, h) := carry 60 mi (f_hours r) in
  let '(h, d) := carry 24 h (f_days r) in
  let '(mo, y) := carry 12 (f_months r) (f_years r) in
  mkrel y mo d h mi s us.

Definition fix_rd (d : rd) : rd := mkrd (fix_rel (rel d)) (leapdays d) (ab d) (wd d).

(* _has_time as computed at the end of _fix *)
Definition has_time (d : rd) : bool :=
  nz (f_hours (rel d)) || nz (f_minutes (rel d)) || nz (f_seconds (rel d)) || nz (f_us (rel d))
  || is_some (a_hour (ab d)) || is_some (a_minute (ab d))
  || is_some (a_second (ab d)) || is_some (a_us (ab d)).

(* ---------------------------------------------------------------- keyword constructor *)
Inductive wdarg :=
| WNone
| WInt (k : Z)                 (* weekday=<int>: weekdays[k] *)
| WObj (w : Z) (n : option Z). (* weekday=<weekday object> *)

Record kwargs := mkkw {
  k_rel : relf; k_leapdays : Z; k_weeks : Z; k_abs : absf; k_wd : wdarg;
  k_yearday : option Z; k_nlyearday : option Z }.

(* [if x:] for an optional integer *)
Definition truthy (a : option Z) : option Z :=
  match a with
  | Some v => if v =? 0 then None else Some v
  | None => None
  end.

(* for idx, ydays in enumerate(ydayidx): if yday <= ydays: month = idx+1;
     day = yday if idx == 0 else yday - ydayidx[idx-1]; break   else: ValueError *)
Fixpoint yday_lookup (tbl : list Z) (idx prev yday : Z) : option (Z * Z) :=
  match tbl with
  | [] => None
  | t :: rest =>
      if yday <=? t then Some (idx + 1, if idx =? 0 then yday else yday - prev)
      else yday_lookup rest (idx + 1) t yday
  end.

Definition conv_wd (w : wdarg) : res (option wdv) :=
  match w with
  | WNone => Ok None
  | WInt k => if (-7 <=? k) && (k <? 7) then Ok (Some (k mod 7, None)) else Err EIndex
  | WObj w n => Ok (Some (w, n))
  end.

Definition mk (k : kwargs) : res rd :=
  let r := k_rel k in
  let r := mkrel (f_years r) (f_months r) (f_days r + k_weeks k * 7) (f_hours r)
                 (f_minutes r) (f_seconds r) (f_us r) in
  bind (conv_wd (k_wd k)) (fun w =>
  let '(yday, leap) :=
    match truthy (k_nlyearday k) with
    | Some v => (v, k_leapdays k)
    | None =>
        match truthy (k_yearday k) with
        | Some v => (v, if (59 <? v) && (v <? 366) then -1 else k_leapdays k)   (* if 59 < yearday < 366: leapdays = -1 *)
        | None => (0, k_leapdays k)
        end
    end in
  if yday =? 0 then Ok (fix_rd (mkrd r leap (k_abs k) w))
  else
    match yday_lookup ydayidx 0 0 yday with
    | None => Err EValue
    | Some (mo, dd) =>
        let a := k_abs k in
        Ok (fix_rd (mkrd r leap
              (mkabs (a_year a) (Some mo) (Some dd) (a_hour a) (a_minute a) (a_second a) (a_us a)) w))
    end).

(* the constructor call made by every operator: all fields given explicitly, weekday as an
   object, no weeks / yearday / nlyearday -- it cannot raise *)
Definition kw_of_rd (d : rd) : kwargs :=
  mkkw (rel d) (leapdays d) 0 (ab d)
       (match wd d with Some (w, n) => WObj w n | None => WNone end) None None.

Definition build (d : rd) : rd := fix_rd d.

(* ---------------------------------------------------------------- __add__ on a date/datetime *)
Definition in_c_int (x : Z) : bool := (-2147483648 <=? x) && (x <=? 2147483647).

Definition opt_in_c_int (a : option Z) : bool :=
  match a with Some v => in_c_int v | None => true end.

(* year = (self.year or other.year) + self.years; month = self.month or other.month;
   if self.months: assert 1 <= abs(self.months) <= 12; month += self.months; single carry *)
Definition stage_ym (d : rd) (oy om : Z) : res (Z * Z) :=
  let year := py_or (a_year (ab d)) oy + f_years (rel d) in
  let month := py_or (a_month (ab d)) om in
  let mo := f_months (rel d) in
  if mo =? 0 then Ok (year, month)
  else if negb ((1 <=? Z.abs mo) && (Z.abs mo <=? 12)) then Err EAssert
  else
    let month := month + mo in
    if 12 <? month then Ok (year + 1, month - 12)
    else if month <? 1 then Ok (year - 1, month + 12)
    else Ok (year, month).

Definition get (a : option Z) (b : Z) : Z := match a with Some v => v | None => b end.

(* day = min(calendar.monthrange(year, month)[1], self.day or other.day);
   other.replace(year=, month=, day=, [hour=, minute=, second=, microsecond=]) *)
Definition stage_replace (d : rd) (o : pydt) (year month : Z) : res pydt :=
  if negb ((1 <=? month) && (month <=? 12)) then Err EValue   (* calendar.IllegalMonthError *)
  else
    let a := ab d in
    match o with
    | PD _ _ od =>
        let day := Z.min (dim year month) (py_or (a_day a) od) in
        if negb (in_c_int year && in_c_int day) then Err EOverflow
        else if valid_ymd year month day then Ok (PD year month day) else Err EValue
    | PDT _ _ od hh mi ss us =>
        let day := Z.min (dim year month) (py_or (a_day a) od) in
        if negb (in_c_int year && in_c_int day && opt_in_c_int (a_hour a) && opt_in_c_int (a_minute a)
                 && opt_in_c_int (a_second a) && opt_in_c_int (a_us a)) then Err EOverflow
        else
          let hh := get (a_hour a) hh in let mi := get (a_minute a) mi in
          let ss := get (a_second a) ss in let us := get (a_us a) us in
          if valid_ymd year month day && valid_time hh mi ss us
          then Ok (PDT year month day hh mi ss us) else Err EValue
    end.

(* datetime.timedelta(days=, hours=, minutes=, seconds=, microseconds=) for integers: the
   total in microseconds, OverflowError when the normalised day count exceeds 999999999 *)
Definition mk_timedelta (us : Z) : res Z :=
  let days := us / us_day in
  if (-999999999 <=? days) && (days <=? 999999999) then Ok us else Err EOverflow.

(* days = self.days; if self.leapdays and month > 2 and calendar.isleap(year): days += self.leapdays *)
Definition stage_td (d : rd) (year month : Z) : res Z :=
  let r := rel d in
  let days := f_days r in
  let days := if nz (leapdays d) && (2 <? month) && is_leap year then days + leapdays d else days in
  mk_timedelta (rel_us (mkrel 0 0 days (f_hours r) (f_minutes r) (f_seconds r) (f_us r))).

(* date + timedelta uses only timedelta.days; datetime + timedelta is exact;
   OverflowError outside 0001-01-01 .. 9999-12-31 *)
Definition dt_add_us (o : pydt) (us : Z) : res pydt :=
  match o with
  | PD _ _ _ =>
      let n := lin o + us / us_day in
      if (1 <=? n) && (n <=? max_ord) then Ok (date_of_ord n) else Err EOverflow
  | PDT _ _ _ _ _ _ _ =>
      let l := lin o + us in
      if (0 <=? l) && (l <? lin_max_dt) then Ok (dt_of_lin l) else Err EOverflow
  end.

(* if self.weekday: weekday, nth = self.weekday.weekday, self.weekday.n or 1 ... *)
Definition stage_wd (d : rd) (ret : pydt) : res pydt :=
  match wd d with
  | None => Ok ret
  | Some (w, n) =>
      let nth := py_or n 1 in
      let jump := (Z.abs nth - 1) * 7 in
      let jump :=
        if 0 <? nth then jump + (7 - py_weekday ret + w) mod 7
        else (jump + (py_weekday ret - w) mod 7) * -1 in
      bind (mk_timedelta (jump * us_day)) (fun t => dt_add_us ret t)
  end.

Definition add_dt (d : rd) (o : pydt) : res pydt :=
  let o := if has_time d then promote o else o in
  let '(oy, om) := match o with PD y m _ => (y, m) | PDT y m _ _ _ _ _ => (y, m) end in
  bind (stage_ym d oy om) (fun ym =>
  let '(year, month) := ym in
  bind (stage_replace d o year month) (fun repl =>
  bind (stage_td d year month) (fun t =>
  bind (dt_add_us repl t) (fun ret =>
  stage_wd d ret)))).

(* ---------------------------------------------------------------- operators between deltas *)
Definition map_rel (f : Z -> Z) (r : relf) : relf :=
  mkrel (f (f_years r)) (f (f_months r)) (f (f_days r)) (f (f_hours r))
        (f (f_minutes r)) (f (f_seconds r)) (f (f_us r)).

Definition zip_rel (f : Z -> Z -> Z) (a b : relf) : relf :=
  mkrel (f (f_years a) (f_years b)) (f (f_months a) (f_months b)) (f (f_days a) (f_days b))
        (f (f_hours a) (f_hours b)) (f (f_minutes a) (f_minutes b))
        (f (f_seconds a) (f_seconds b)) (f (f_us a) (f_us b)).

(* x if x is not None else y *)
Definition first_some {A : Type} (x y : option A) : option A :=
  match x with Some _ => x | None => y end.

Definition zip_abs (x y : absf) : absf :=
  mkabs (first_some (a_year x) (a_year y)) (first_some (a_month x) (a_month y))
        (first_some (a_day x) (a_day y)) (first_some (a_hour x) (a_hour y))
        (first_some (a_minute x) (a_minute y)) (first_some (a_second x) (a_second y))
        (first_some (a_us x) (a_us y)).

Definition neg (d : rd) : rd := build (mkrd (map_rel Z.opp (rel d)) (leapdays d) (ab d) (wd d)).
Definition abs_rd (d : rd) : rd := build (mkrd (map_rel Z.abs (rel d)) (leapdays d) (ab d) (wd d)).

(* self + other: relative fields add; leapdays = other.leapdays or self.leapdays; absolute
   fields and weekday: other's if not None else self's *)
Definition add_rd (self other : rd) : rd :=
  build (mkrd (zip_rel Z.add (rel other) (rel self))
              (if nz (leapdays other) then leapdays other else leapdays self)
              (zip_abs (ab other) (ab self))
              (first_some (wd other) (wd self))).

(* self - other: leapdays = self.leapdays or other.leapdays; self's absolute fields win *)
Definition sub_rd (self other : rd) : rd :=
  build (mkrd (zip_rel Z.sub (rel self) (rel other))
              (if nz (leapdays self) then leapdays self else leapdays other)
              (zip_abs (ab self) (ab other))
              (first_some (wd self) (wd other))).

(* __mul__ / __div__: every relative field becomes int(field * f); the harness supplies the
   seven truncated products (exact k*field for an integer k), the model builds the result *)
Definition mul_with (d : rd) (products : relf) : rd :=
  build (mkrd products (leapdays d) (ab d) (wd d)).

Definition mul_int (d : rd) (k : Z) : rd := mul_with d (map_rel (fun x => x * k) (rel d)).

(* normalized() on integer-valued fields: every remainder is 0, the constructor runs again *)
Definition normalized (d : rd) : rd := build d.

(* dt - delta *)
Definition rsub (d : rd) (o : pydt) : res pydt := add_dt (neg d) o.
Definition radd (d : rd) (o : pydt) : res pydt := add_dt d o.

(* ---------------------------------------------------------------- __eq__, __hash__, __bool__ *)
Definition opt_eqb (a b : option Z) : bool :=
  match a, b with
  | Some x, Some y => x =? y
  | None, None => true
  | _, _ => false
  end.

(* [not n or n == 1] *)
Definition n_is_default (n : option Z) : bool :=
  match n with None => true | Some v => (v =? 0) || (v =? 1) end.

Definition wd_eqb (a b : option wdv) : bool :=
  match a, b with
  | None, None => true
  | Some (w1, n1), Some (w2, n2) =>
      if negb (w1 =? w2) then false
      else if negb (opt_eqb n1 n2) && negb (n_is_default n1 && n_is_default n2) then false
      else true
  | _, _ => false
  end.

Definition rel_eqb (a b : relf) : bool :=
  (f_years a =? f_years b) && (f_months a =? f_months b) && (f_days a =? f_days b) &&
  (f_hours a =? f_hours b) && (f_minutes a =? f_minutes b) && (f_seconds a =? f_seconds b) &&
  (f_us a =? f_us b).

Definition abs_eqb (a b : absf) : bool :=
  opt_eqb (a_year a) (a_year b) && opt_eqb (a_month a) (a_month b) && opt_eqb (a_day a) (a_day b) &&
  opt_eqb (a_hour a) (a_hour b) && opt_eqb (a_minute a) (a_minute b) &&
  opt_eqb (a_second a) (a_second b) && opt_eqb (a_us a) (a_us b).

Definition eqb (a b : rd) : bool :=
  wd_eqb (wd a) (wd b) && rel_eqb (rel a) (rel b) && (leapdays a =? leapdays b)
  && abs_eqb (ab a) (ab b).

(* the tuple handed to hash(): weekday as (weekday.weekday, weekday.n or 1) or None *)
Definition hash_wd (w : option wdv) : option (Z * Z) :=
  match w with Some (k, n) => Some (k, py_or n 1) | None => None end.

Definition hash_key (d : rd) : option (Z * Z) * relf * Z * absf :=
  (hash_wd (wd d), rel d, leapdays d, ab d).

Definition rd_bool (d : rd) : bool :=
  let r := rel d in let a := ab d in
  negb (negb (nz (f_years r)) && negb (nz (f_months r)) && negb (nz (f_days r)) &&
        negb (nz (f_hours r)) && negb (nz (f_minutes r)) && negb (nz (f_seconds r)) &&
        negb (nz (f_us r)) && negb (nz (leapdays d)) &&
        negb (is_some (a_year a)) && negb (is_some (a_month a)) && negb (is_some (a_day a)) &&
        negb (is_some (wd d)) &&
        negb (is_some (a_hour a)) && negb (is_some (a_minute a)) && negb (is_some (a_second a)) &&
        negb (is_some (a_us a))).

(* ---------------------------------------------------------------- relativedelta(dt1, dt2) *)
(* _set_months *)
Definition set_months (d : rd) (months : Z) : rd :=
  let r := rel d in
  let '(mo, y) :=
    if 11 <? Z.abs months then
      let s := sgn months in (((months * s) mod 12) * s, ((months * s) / 12) * s)
    else (months, 0) in
  mkrd (mkrel y mo (f_days r) (f_hours r) (f_minutes r) (f_seconds r) (f_us r))
       (leapdays d) (ab d) (wd d).

(* while compare(dt1, dtm): months += increment; self._set_months(months); dtm = self.__radd__(dt2)
   [lt = true]: dt1 < dt2, compare = gt, increment = +1; otherwise compare = lt, increment = -1.
   fuel counts evaluations of the loop condition. *)
Fixpoint diff_loop (fuel : nat) (lt : bool) (dt1 dt2 : pydt) (months : Z) (dtm : pydt)
  : res (Z * pydt) :=
  match fuel with
  | O => Err EFuel
  | S f =>
      let again := if lt then lin dtm <? lin dt1 else lin dt1 <? lin dtm in
      if again then
        let months := months + (if lt then 1 else -1) in
        bind (add_dt (set_months rd0 months) dt2) (fun dtm => diff_loop f lt dt1 dt2 months dtm)
      else Ok (months, dtm)
  end.

Definition diff_fuel : nat := 3.

Definition mk_diff (dt1 dt2 : pydt) : res rd :=
  (* coerce a date/datetime pair to two datetimes *)
  let '(dt1, dt2) :=
    if Bool.eqb (is_datetime dt1) (is_datetime dt2) then (dt1, dt2)
    else (promote dt1, promote dt2) in
  let '(y1, m1) := match dt1 with PD y m _ => (y, m) | PDT y m _ _ _ _ _ => (y, m) end in
  let '(y2, m2) := match dt2 with PD y m _ => (y, m) | PDT y m _ _ _ _ _ => (y, m) end in
  let months := (y1 - y2) * 12 + (m1 - m2) in
  bind (add_dt (set_months rd0 months) dt2) (fun dtm =>
  bind (diff_loop diff_fuel (lin dt1 <? lin dt2) dt1 dt2 months dtm) (fun md =>
  let '(months, dtm) := md in
  let d := set_months rd0 months in
  (* delta = dt1 - dtm; seconds = delta.seconds + delta.days*86400; microseconds = delta.microseconds *)
  let '(secs, us) :=
    match dt1 with
    | PD _ _ _ => ((lin dt1 - lin dtm) * 86400, 0)
    | PDT _ _ _ _ _ _ _ =>
        let delta := lin dt1 - lin dtm in
        let days := delta / us_day in
        let rest := delta mod us_day in
        (rest / us_sec + days * 86400, rest mod us_sec)
    end in
  let r := rel d in
  Ok (fix_rd (mkrd (mkrel (f_years r) (f_months r) 0 0 0 secs us) 0 abs0 None)))).
