(* Shared vocabulary of the relativedelta area: result type with one constructor per
   exception class, Python date/datetime values on top of base/Cal.v (CPython's datetime is
   MODELLED here, not verified), and the record of relativedelta fields.
   No proofs in this file. *)
From Coq Require Import ZArith List Bool.
From V Require Import base.Cal.
Import ListNotations.
Open Scope Z_scope.

(* ---------------------------------------------------------------- results *)
Inductive err := EValue | EOverflow | EAssert | EIndex | EFuel.

Inductive res (A : Type) : Type :=
| Ok (a : A)
| Err (e : err).
Arguments Ok {A} a.
Arguments Err {A} e.

Definition bind {A B : Type} (r : res A) (f : A -> res B) : res B :=
  match r with Ok a => f a | Err e => Err e end.

Definition res_opt {A : Type} (r : res A) : option A :=
  match r with Ok a => Some a | Err _ => None end.

(* ---------------------------------------------------------------- date / datetime *)
(* datetime.date and (naive) datetime.datetime.  An aware datetime behaves like the naive
   one for every operation of relativedelta (tzinfo is carried untouched); that is exercised
   by the correspondence only. *)
Inductive pydt :=
| PD (y m d : Z)
| PDT (y m d hh mi ss us : Z).

Definition us_sec : Z := 1000000.
Definition us_day : Z := 86400000000.

Definition valid_time (hh mi ss us : Z) : bool :=
  (0 <=? hh) && (hh <=? 23) && (0 <=? mi) && (mi <=? 59) &&
  (0 <=? ss) && (ss <=? 59) && (0 <=? us) && (us <=? 999999).

Definition valid_dt (o : pydt) : bool :=
  match o with
  | PD y m d => valid_ymd y m d
  | PDT y m d hh mi ss us => valid_ymd y m d && valid_time hh mi ss us
  end.

Definition is_datetime (o : pydt) : bool :=
  match o with PD _ _ _ => false | PDT _ _ _ _ _ _ _ => true end.

(* datetime.datetime.fromordinal(d.toordinal()) *)
Definition promote (o : pydt) : pydt :=
  match o with PD y m d => PDT y m d 0 0 0 0 | _ => o end.

Definition tod (hh mi ss us : Z) : Z := ((hh * 60 + mi) * 60 + ss) * us_sec + us.

(* position on the time line: a date counts days (its proleptic ordinal), a datetime counts
   microseconds since 0001-01-01T00:00 *)
Definition lin (o : pydt) : Z :=
  match o with
  | PD y m d => ord_of_ymd y m d
  | PDT y m d hh mi ss us => (ord_of_ymd y m d - 1) * us_day + tod hh mi ss us
  end.

Definition date_of_ord (o : Z) : pydt :=
  let '(y, m, d) := ymd_of_ord o in PD y m d.

Definition dt_of_lin (l : Z) : pydt :=
  let o := l / us_day + 1 in
  let t := l mod us_day in
  let '(y, m, d) := ymd_of_ord o in
  PDT y m d (t / 3600000000) ((t / 60000000) mod 60) ((t / us_sec) mod 60) (t mod us_sec).

Definition lin_max_dt : Z := max_ord * us_day.

(* ordinal of the calendar day and weekday (Monday = 0) of a value *)
Definition ord_of (o : pydt) : Z :=
  match o with PD y m d => ord_of_ymd y m d | PDT y m d _ _ _ _ => ord_of_ymd y m d end.

Definition py_weekday (o : pydt) : Z := weekday_of_ord (ord_of o).

(* ---------------------------------------------------------------- relativedelta fields *)
Record relf := mkrel {
  f_years : Z; f_months : Z; f_days : Z; f_hours : Z;
  f_minutes : Z; f_seconds : Z; f_us : Z }.

Record absf := mkabs {
  a_year : option Z; a_month : option Z; a_day : option Z; a_hour : option Z;
  a_minute : option Z; a_second : option Z; a_us : option Z }.

(* a _common.weekday object: (weekday, n) with n = None allowed *)
Definition wdv : Type := (Z * option Z)%type.

Record rd := mkrd {
  rel : relf;
  leapdays : Z;
  ab : absf;
  wd : option wdv }.

Definition rel0 : relf := mkrel 0 0 0 0 0 0 0.
Definition abs0 : absf := mkabs None None None None None None None.
Definition rd0 : rd := mkrd rel0 0 abs0 None.

(* Python's [a or b] for an optional integer [a] *)
Definition py_or (a : option Z) (b : Z) : Z :=
  match a with
  | Some v => if v =? 0 then b else v
  | None => b
  end.

Definition is_some {A : Type} (a : option A) : bool :=
  match a with Some _ => true | None => false end.

Definition nz (x : Z) : bool := negb (x =? 0).

(* total of the exact-duration fields, in microseconds *)
Definition rel_us (r : relf) : Z :=
  (((f_days r * 24 + f_hours r) * 60 + f_minutes r) * 60 + f_seconds r) * us_sec + f_us r.

Definition rel_months (r : relf) : Z := f_years r * 12 + f_months r.
