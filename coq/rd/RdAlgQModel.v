(* C16: float-valued relative fields (relativedelta(days=1.5, hours=0.25 ...)) and normalized(),
   IDEALISED as exact rationals.  A value is numerator / D for one common denominator D > 0 of
   all day/hour/minute/second/microsecond fields (years and months are always integers: the
   constructor applies int() to them).  The float arithmetic of CPython is exact on such values
   as long as they are dyadic and small (the harness restricts the comparison with this model to
   denominators 2^j <= 256 and moderate magnitudes); round(x, 11), round(x, 10), round(x, 8) in
   normalized() are the identity there and are modelled as the identity.  What float rounding does
   beyond that domain is NOT modelled (differential-tested only).
   No proofs in this file. *)
From Coq Require Import ZArith List Bool.
From V Require Import base.Cal gen.RdTables rd.RdBase rd.RdModel.
Import ListNotations.
Open Scope Z_scope.

(* one carry step of _fix on numerators: the value is n/D, the next field is up/D
     if abs(v) > base-1: s = _sign(v); div, mod = divmod(v*s, base); v = mod*s; up += div*s *)
Definition carry_q (D base n up : Z) : Z * Z :=
  if (base - 1) * D <? Z.abs n then
    let s := sgn n in
    (((n * s) mod (base * D)) * s, up + ((n * s) / (base * D)) * s * D)
  else (n, up).

(* _fix: days .. microseconds are numerators over D, months / years plain integers *)
Definition fix_q (D : Z) (r : relf) : relf :=
  let '(us, s) := carry_q D 1000000 (f_us r) (f_seconds r) in
  let '(s, mi) := carry_q D 60 s (f_minutes r) in
  let '(mi, h) := carry_q D 60 mi (f_hours r) in
  let '(h, d) := carry_q D 24 h (f_days r) in
  let '(mo, y) := carry 12 (f_months r) (f_years r) in
  mkrel y mo d h mi s us.

(* relativedelta(years=, months=, days=nd/D, hours=nh/D, ..., leapdays=, absolute..., weekday=) *)
Definition ctor_q (D : Z) (d : rd) : rd := mkrd (fix_q D (rel d)) (leapdays d) (ab d) (wd d).

(* Python's round(n/D) to an integer: nearest, ties to even *)
Definition round_half_even (n D : Z) : Z :=
  let q := n / D in
  let r := n mod D in
  if 2 * r <? D then q
  else if D <? 2 * r then q + 1
  else if Z.even q then q else q + 1.

(* normalized() (relativedelta.py 282-315) on a delta whose fields are numerators over D; the
   result has integer fields (a delta of the integer model) *)
Definition normalized_q (D : Z) (d : rd) : rd :=
  let r := rel d in
  let days := Z.quot (f_days r) D in                                   (* int(self.days) *)
  let hours_f := f_hours r + 24 * (f_days r - days * D) in             (* numerator over D *)
  let hours := Z.quot hours_f D in
  let minutes_f := f_minutes r + 60 * (hours_f - hours * D) in
  let minutes := Z.quot minutes_f D in
  let seconds_f := f_seconds r + 60 * (minutes_f - minutes * D) in
  let seconds := Z.quot seconds_f D in
  let us := round_half_even (f_us r + 1000000 * (seconds_f - seconds * D)) D in
  build (mkrd (mkrel (f_years r) (f_months r) days hours minutes seconds us)
              (leapdays d) (ab d) (wd d)).

(* the value of an integer-model delta as numerators over D *)
Definition scale_rel (D : Z) (r : relf) : relf :=
  mkrel (f_years r) (f_months r) (f_days r * D) (f_hours r * D) (f_minutes r * D)
        (f_seconds r * D) (f_us r * D).

(* operators on float-valued deltas: field-wise on the numerators (one common denominator D),
   then the constructor's _fix *)
Definition neg_q (D : Z) (d : rd) : rd :=
  ctor_q D (mkrd (map_rel Z.opp (rel d)) (leapdays d) (ab d) (wd d)).
Definition abs_q (D : Z) (d : rd) : rd :=
  ctor_q D (mkrd (map_rel Z.abs (rel d)) (leapdays d) (ab d) (wd d)).
Definition add_q (D : Z) (self other : rd) : rd :=
  ctor_q D (mkrd (zip_rel Z.add (rel other) (rel self))
                 (if nz (leapdays other) then leapdays other else leapdays self)
                 (zip_abs (ab other) (ab self)) (first_some (wd other) (wd self))).
Definition sub_q (D : Z) (self other : rd) : rd :=
  ctor_q D (mkrd (zip_rel Z.sub (rel self) (rel other))
                 (if nz (leapdays self) then leapdays self else leapdays other)
                 (zip_abs (ab self) (ab other)) (first_some (wd self) (wd other))).

(* |value| < base for every carried field, as numerators *)
Definition normal_q (D : Z) (r : relf) : Prop :=
  Z.abs (f_months r) < 12 /\ Z.abs (f_hours r) < 24 * D /\ Z.abs (f_minutes r) < 60 * D /\
  Z.abs (f_seconds r) < 60 * D /\ Z.abs (f_us r) < 1000000 * D.
