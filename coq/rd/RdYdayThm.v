(* C03, yearday / nlyearday: the conversion through the ydayidx table (regenerated from /repo into
   gen/RdTables.v on every run) followed by __add__ selects the n-th day of the operand's year
   (yearday) resp. the date that day n has in a non-leap year (nlyearday).
   yearday = 366 in a leap year used to give 30 December (finding F-C03-yearday366); fixed in /repo
   by f29aa05 (`if 59 < yearday < 366: leapdays = -1`), the model mirrors the fixed code and the
   theorem now covers every day 1..year_len of the operand's year. *)
From Coq Require Import ZArith List Bool Lia ZifyBool.
From V Require Import base.Cal gen.RdTables rd.RdBase rd.RdModel rd.RdSpec rd.RdAddThm rd.RdDiffThm rd.RdAddThm2.
Import ListNotations.
Open Scope Z_scope.
Ltac Zify.zify_post_hook ::= Z.to_euclidean_division_equations.

Definition kw_yearday (n : Z) : kwargs := mkkw rel0 0 0 abs0 WNone (Some n) None.
Definition kw_nlyearday (n : Z) : kwargs := mkkw rel0 0 0 abs0 WNone None (Some n).

(* ---- the table, checked entry by entry against the calendar (finite: the 366 year days) *)
Definition yd_ok (n : Z) : bool :=
  match yday_lookup ydayidx 0 0 n with
  | Some (mo, dd) =>
      (1 <=? mo) && (mo <=? 12) && (dbm 2001 mo + dd =? n) && (1 <=? dd) &&
      ((366 <=? n) || (dd <=? dim 2001 mo)) && Bool.eqb (59 <? n) (2 <? mo)
  | None => false
  end.

Lemma yd_ok_all n : 1 <= n <= 366 -> yd_ok n = true.
Proof.
  intros H.
  assert (A : forallb yd_ok (map Z.of_nat (seq 1 366)) = true) by (vm_compute; reflexivity).
  rewrite forallb_forall in A. apply A. apply in_map_iff. exists (Z.to_nat n).
  split; [lia|]. apply in_seq. lia.
Qed.

Lemma yd_lookup_facts n : 1 <= n <= 365 ->
  exists mo dd, yday_lookup ydayidx 0 0 n = Some (mo, dd) /\
    1 <= mo <= 12 /\ dbm 2001 mo + dd = n /\ 1 <= dd <= dim 2001 mo /\ (59 < n <-> 2 < mo).
Proof.
  intros H. pose proof (yd_ok_all n ltac:(lia)) as K. unfold yd_ok in K.
  destruct (yday_lookup ydayidx 0 0 n) as [[mo dd]|]; [|discriminate].
  exists mo, dd. split; [reflexivity|].
  destruct (59 <? n) eqn:E1; destruct (2 <? mo) eqn:E2; cbn [Bool.eqb] in K; lia.
Qed.

(* ---- calendar facts relating any year to the non-leap reference year of the table *)
Lemma dbm_vs_nonleap y mo : 1 <= mo <= 12 ->
  dbm y mo = dbm 2001 mo + (if (2 <? mo) && is_leap y then 1 else 0).
Proof.
  intros H. unfold dbm. change (is_leap 2001) with false.
  destruct (mo <=? 2) eqn:E; destruct (2 <? mo) eqn:E2; try lia; destruct (is_leap y); cbn [andb]; lia.
Qed.

Lemma dim_ge_nonleap y mo : dim 2001 mo <= dim y mo.
Proof. unfold dim. change (is_leap 2001) with false. destruct (mo =? 2); [destruct (is_leap y); lia | lia]. Qed.

Lemma mk_yearday n mo dd : n <> 0 -> yday_lookup ydayidx 0 0 n = Some (mo, dd) ->
  mk (kw_yearday n) = Ok (mkrd rel0 (if (59 <? n) && (n <? 366) then -1 else 0)
                               (mkabs None (Some mo) (Some dd) None None None None) None).
Proof.
  intros Hn L. unfold mk, kw_yearday.
  cbn [k_rel k_weeks k_wd k_nlyearday k_yearday k_leapdays k_abs conv_wd bind truthy].
  destruct (n =? 0) eqn:E; [lia|]. rewrite E, L. reflexivity.
Qed.

Lemma mk_nlyearday n mo dd : n <> 0 -> yday_lookup ydayidx 0 0 n = Some (mo, dd) ->
  mk (kw_nlyearday n) = Ok (mkrd rel0 0 (mkabs None (Some mo) (Some dd) None None None None) None).
Proof.
  intros Hn L. unfold mk, kw_nlyearday.
  cbn [k_rel k_weeks k_wd k_nlyearday k_yearday k_leapdays k_abs conv_wd bind truthy].
  destruct (n =? 0) eqn:E; [lia|]. rewrite E, L. reflexivity.
Qed.

(* adding a delta that only sets month and day (and possibly leapdays) to a DATE *)
Lemma add_month_day_clip lp mo dd y m0 d0 :
  valid_ymd y m0 d0 = true -> 1 <= mo <= 12 -> 1 <= dd ->
  1 <= ord_of_ymd y mo (Z.min dd (dim y mo)) + (if (2 <? mo) && is_leap y then lp else 0) <= max_ord ->
  add_dt (mkrd rel0 lp (mkabs None (Some mo) (Some dd) None None None None) None) (PD y m0 d0)
  = Ok (date_of_ord (ord_of_ymd y mo (Z.min dd (dim y mo)) + (if (2 <? mo) && is_leap y then lp else 0))).
Proof.
  intros V Hmo Hdd Hr. pose proof (dim_pos y mo) as DP. apply res_opt_some.
  set (d := mkrd rel0 lp (mkabs None (Some mo) (Some dd) None None None None) None).
  assert (W : wf_rd d = true).
  { unfold wf_rd, norm_rel, d.
    cbn [rel ab wd rel0 f_months f_hours f_minutes f_seconds f_us a_year a_month a_day opt_ok].
    change (Z.abs 0) with 0. lia. }
  rewrite add_dt_spec by (try exact W; exact V).
  rewrite spec_add_body. change (carries_time d) with false. cbv iota.
  unfold spec_body. cbv zeta. clear W. subst d.
  cbn [rel ab wd leapdays rel0 f_years f_months a_year a_month oget ym_of fst snd].
  replace ((12 * y + (mo - 1) + 12 * 0 + 0) / 12) with y by lia.
  replace ((12 * y + (mo - 1) + 12 * 0 + 0) mod 12 + 1) with mo by lia.
  unfold spec_base. cbn [ab a_day oget day_of].
  set (dc := Z.min dd (dim y mo)) in *.
  assert (VB : valid_dt (PD y mo dc) = true) by (cbn [valid_dt]; unfold valid_ymd, dc in *; lia).
  rewrite VB. unfold spec_dur, spec_wd. cbn [rel rel0 f_days leapdays lin wd]. rewrite Z.add_0_l.
  unfold at_lin.
  match goal with |- context [if (1 <=? ?a) && (?a <=? max_ord) then _ else _] =>
    destruct ((1 <=? a) && (a <=? max_ord)) eqn:C end; [|exfalso; lia].
  reflexivity.
Qed.

Lemma add_month_day lp mo dd y m0 d0 :
  valid_ymd y m0 d0 = true -> 1 <= mo <= 12 -> 1 <= dd <= dim y mo ->
  1 <= ord_of_ymd y mo dd + (if (2 <? mo) && is_leap y then lp else 0) <= max_ord ->
  add_dt (mkrd rel0 lp (mkabs None (Some mo) (Some dd) None None None None) None) (PD y m0 d0)
  = Ok (date_of_ord (ord_of_ymd y mo dd + (if (2 <? mo) && is_leap y then lp else 0))).
Proof.
  intros V Hmo Hdd Hr. rewrite add_month_day_clip; rewrite ?Z.min_l by lia; try assumption; try lia.
  reflexivity.
Qed.

(* ---- yearday = n: the n-th day of the operand's year *)
Theorem yearday_spec n y m0 d0 : 1 <= n <= 365 -> valid_ymd y m0 d0 = true ->
  exists d yy mm dd,
    mk (kw_yearday n) = Ok d /\ spec_yearday_date y n = Some (yy, mm, dd) /\
    add_dt d (PD y m0 d0) = Ok (PD yy mm dd).
Proof.
  intros Hn V. destruct (yd_lookup_facts n Hn) as (mo & dd & L & Hmo & Hsum & Hdd & H59).
  pose proof (dim_ge_nonleap y mo) as DG. pose proof (dbm_vs_nonleap y mo Hmo) as DB.
  assert (Hy : 1 <= y <= 9999) by (unfold valid_ymd in V; lia).
  set (lp := if (59 <? n) && (n <? 366) then -1 else 0).
  assert (EO : ord_of_ymd y mo dd + (if (2 <? mo) && is_leap y then lp else 0) = days_before_year y + n).
  { unfold ord_of_ymd, lp. rewrite DB.
    destruct (59 <? n) eqn:E1; destruct (n <? 366) eqn:E3; destruct (2 <? mo) eqn:E2; destruct (is_leap y);
    cbn [andb]; lia. }
  assert (RG : 1 <= days_before_year y + n <= max_ord).
  { assert (days_before_year 1 <= days_before_year y) by (apply days_before_year_mono; lia).
    assert (days_before_year (y + 1) <= days_before_year 10000) by (apply days_before_year_mono; lia).
    rewrite days_before_year_succ in *. unfold year_len in *.
    change (days_before_year 1) with 0 in *. change (days_before_year 10000) with 3652059 in *.
    unfold max_ord. destruct (is_leap y); lia. }
  eexists. exists (fst (fst (ymd_of_ord (days_before_year y + n)))),
                  (snd (fst (ymd_of_ord (days_before_year y + n)))),
                  (snd (ymd_of_ord (days_before_year y + n))).
  split; [apply (mk_yearday n mo dd); [lia | exact L]|]. split.
  - unfold spec_yearday_date.
    destruct ((1 <=? n) && (n <=? year_len y)) eqn:C; [|unfold year_len in C; destruct (is_leap y); lia].
    replace (ord_of_ymd y 1 1 + n - 1) with (days_before_year y + n) by (unfold ord_of_ymd; rewrite dbm_1; lia).
    destruct (ymd_of_ord _) as [[a b] c]. reflexivity.
  - fold lp. rewrite add_month_day; [| exact V | exact Hmo | lia | rewrite EO; exact RG].
    rewrite EO. unfold date_of_ord. destruct (ymd_of_ord _) as [[a b] c]. reflexivity.
Qed.

(* ---- nlyearday = n: the month and day that day n has in a non-leap year, in the operand's year *)
Theorem nlyearday_spec n y m0 d0 : 1 <= n <= 365 -> valid_ymd y m0 d0 = true ->
  exists d mm dd,
    mk (kw_nlyearday n) = Ok d /\ spec_nlyearday_date y n = Some (y, mm, dd) /\
    add_dt d (PD y m0 d0) = Ok (PD y mm dd).
Proof.
  intros Hn V. destruct (yd_lookup_facts n Hn) as (mo & dd & L & Hmo & Hsum & Hdd & H59).
  pose proof (dim_ge_nonleap y mo) as DG.
  assert (Hy : 1 <= y <= 9999) by (unfold valid_ymd in V; lia).
  assert (VB : valid_ymd y mo dd = true) by (unfold valid_ymd; lia).
  exists (mkrd rel0 0 (mkabs None (Some mo) (Some dd) None None None None) None), mo, dd.
  split; [apply mk_nlyearday; [lia | exact L]|]. split.
  - unfold spec_nlyearday_date. destruct ((1 <=? n) && (n <=? 365)) eqn:C; [|lia].
    assert (EM : month_of_yday 2001 n = mo).
    { apply month_of_yday_unique; [exact Hmo|]. rewrite (dbm_succ 2001 mo Hmo). lia. }
    rewrite EM. do 3 f_equal. lia.
  - pose proof (ord_of_ymd_range _ _ _ VB) as RG.
    rewrite add_month_day; [| exact V | exact Hmo | lia | destruct ((2 <? mo) && is_leap y); lia].
    replace (ord_of_ymd y mo dd + (if (2 <? mo) && is_leap y then 0 else 0)) with (ord_of_ymd y mo dd)
      by (destruct ((2 <? mo) && is_leap y); lia).
    apply f_equal. apply date_of_ord_lin. exact VB.
Qed.

(* ---- yearday = 366 in a leap year: 31 December (was 30 December before /repo f29aa05) *)
Theorem yearday_366_leap y m0 d0 : is_leap y = true -> valid_ymd y m0 d0 = true ->
  exists d, mk (kw_yearday 366) = Ok d /\ spec_yearday_date y 366 = Some (y, 12, 31) /\
            add_dt d (PD y m0 d0) = Ok (PD y 12 31).
Proof.
  intros L V. assert (Hy : 1 <= y <= 9999) by (unfold valid_ymd in V; lia).
  assert (D12 : dim y 12 = 31) by reflexivity.
  assert (V31 : valid_ymd y 12 31 = true) by (unfold valid_ymd; rewrite D12; lia).
  assert (O : ord_of_ymd y 12 31 = days_before_year y + 366).
  { unfold ord_of_ymd, dbm. rewrite L. change (12 <=? 2) with false. cbv iota. lia. }
  eexists. split; [apply (mk_yearday 366 12 32); [lia | vm_compute; reflexivity]|]. split.
  - unfold spec_yearday_date, year_len. rewrite L. cbn [Z.leb Z.compare andb].
    replace (ord_of_ymd y 1 1 + 366 - 1) with (ord_of_ymd y 12 31) by (rewrite O; unfold ord_of_ymd; rewrite dbm_1; lia).
    rewrite ymd_of_ord_of_ymd by (rewrite ?D12; lia). reflexivity.
  - change ((59 <? 366) && (366 <? 366)) with false. cbv iota.
    pose proof (ord_of_ymd_range _ _ _ V31) as RG.
    rewrite add_month_day_clip; rewrite ?D12; try assumption; try lia;
      change (Z.min 32 31) with 31; destruct ((2 <? 12) && is_leap y); rewrite ?Z.add_0_r; try lia.
    + apply f_equal. apply date_of_ord_lin. exact V31.
    + apply f_equal. apply date_of_ord_lin. exact V31.
Qed.

(* every day of the operand's year *)
Theorem yearday_spec_full n y m0 d0 : 1 <= n <= year_len y -> valid_ymd y m0 d0 = true ->
  exists d yy mm dd,
    mk (kw_yearday n) = Ok d /\ spec_yearday_date y n = Some (yy, mm, dd) /\
    add_dt d (PD y m0 d0) = Ok (PD yy mm dd).
Proof.
  intros Hn V. destruct (Z_le_gt_dec n 365) as [H|H].
  - apply yearday_spec; [lia | exact V].
  - assert (n = 366 /\ is_leap y = true) as [-> L].
    { unfold year_len in Hn. destruct (is_leap y); [split; [lia | reflexivity] | lia]. }
    destruct (yearday_366_leap y m0 d0 L V) as (d & A & B & C). exists d, y, 12, 31. auto.
Qed.

Example yearday_spec_example :
  (* yearday=60: 29 February in a leap year, 1 March otherwise *)
  exists d, mk (kw_yearday 60) = Ok d /\ add_dt d (PD 2024 7 4) = Ok (PD 2024 2 29) /\
            add_dt d (PD 2023 7 4) = Ok (PD 2023 3 1).
Proof. eexists. split; [vm_compute; reflexivity|]. split; vm_compute; reflexivity. Qed.

(* ---- the whole table at once: any yearday the lookup accepts lands in a month 1..12 on a day >= 1,
   and anything above the last entry is the ValueError *)
Lemma yday_lookup_range n mo dd : yday_lookup ydayidx 0 0 n = Some (mo, dd) ->
  1 <= mo <= 12 /\ (1 <= n -> 1 <= dd).
Proof.
  unfold ydayidx. cbn [yday_lookup].
  repeat (match goal with |- (if ?c then _ else _) = _ -> _ => destruct c eqn:? end;
          [intros H; injection H as <- <-; cbn; lia|]).
  discriminate.
Qed.

Theorem yearday_too_large n : 366 < n -> mk (kw_yearday n) = Err EValue /\ mk (kw_nlyearday n) = Err EValue.
Proof.
  intros H.
  assert (L : yday_lookup ydayidx 0 0 n = None).
  { unfold ydayidx. cbn [yday_lookup].
    repeat (match goal with |- (if ?c then _ else _) = _ => destruct c eqn:? end; [exfalso; lia|]).
    reflexivity. }
  unfold mk, kw_yearday, kw_nlyearday.
  cbn [k_rel k_weeks k_wd k_nlyearday k_yearday k_leapdays k_abs conv_wd bind truthy].
  destruct (n =? 0) eqn:E; [lia|]. rewrite E, L. split; reflexivity.
Qed.

(* ---- the guard of add_dt_spec in terms of the keyword arguments *)
Definition kw_guard (k : kwargs) : bool :=
  opt_ok (fun v => negb (v =? 0)) (a_year (k_abs k)) &&
  opt_ok (fun v => (1 <=? v) && (v <=? 12)) (a_month (k_abs k)) &&
  opt_ok (fun v => negb (v =? 0)) (a_day (k_abs k)) &&
  match k_wd k with WObj w _ => (0 <=? w) && (w <=? 6) | _ => true end &&
  opt_ok (fun v => 0 <=? v) (k_yearday k) && opt_ok (fun v => 0 <=? v) (k_nlyearday k).

Theorem mk_wf k d : mk k = Ok d -> kw_guard k = true -> wf_rd d = true.
Proof.
  unfold kw_guard. intros H G.
  apply andb_prop in G; destruct G as [G GN]. apply andb_prop in G; destruct G as [G GY].
  apply andb_prop in G; destruct G as [G GW]. apply andb_prop in G; destruct G as [G GD].
  apply andb_prop in G; destruct G as [G GM].
  pose proof (mk_normalised k d H) as N.
  unfold mk in H. apply bind_ok in H. destruct H as (w & Hw & H).
  assert (WW : match w with Some (w0, _) => (0 <=? w0) && (w0 <=? 6) | None => true end = true).
  { unfold conv_wd in Hw. destruct (k_wd k) as [|k'|w0 n0].
    - injection Hw as <-. reflexivity.
    - destruct ((-7 <=? k') && (k' <? 7)) eqn:C; [|discriminate]. injection Hw as <-. lia.
    - injection Hw as <-. exact GW. }
  destruct (match truthy (k_nlyearday k) with Some _ => _ | None => _ end) as [yday leap] eqn:EY.
  destruct (yday =? 0) eqn:E0.
  - injection H as <-. unfold wf_rd in *. cbn [fix_rd rel ab wd] in *. rewrite N, G, GM, GD, WW. reflexivity.
  - destruct (yday_lookup ydayidx 0 0 yday) as [[mo dd]|] eqn:L; [|discriminate].
    injection H as <-. unfold wf_rd in *. cbn [fix_rd rel ab wd a_year a_month a_day opt_ok] in *.
    destruct (yday_lookup_range _ _ _ L) as [Hmo Hdd].
    assert (Y1 : 1 <= yday).
    { unfold truthy in EY.
      destruct (k_nlyearday k) as [v|]; cbn [opt_ok] in *.
      - destruct (v =? 0) eqn:Ev.
        + destruct (k_yearday k) as [v'|]; cbn [opt_ok] in *.
          * destruct (v' =? 0) eqn:Ev'; injection EY as <- _; lia.
          * injection EY as <- _. lia.
        + injection EY as <- _. lia.
      - destruct (k_yearday k) as [v'|]; cbn [opt_ok] in *.
        + destruct (v' =? 0) eqn:Ev'; injection EY as <- _; lia.
        + injection EY as <- _. lia. }
    rewrite N, G, WW. specialize (Hdd Y1). cbn [andb]. lia.
Qed.

(* ---- the same for datetime operands: the time of day is kept *)
Lemma dt_of_lin_parts n hh mi ss us : valid_time hh mi ss us = true ->
  dt_of_lin ((n - 1) * us_day + tod hh mi ss us) =
  let '(y, m, d) := ymd_of_ord n in PDT y m d hh mi ss us.
Proof.
  intros T. pose proof (tod_range _ _ _ _ T) as R. unfold dt_of_lin.
  set (t := tod hh mi ss us) in *.
  replace (((n - 1) * us_day + t) / us_day + 1) with n by (unfold us_day in *; lia).
  replace (((n - 1) * us_day + t) mod us_day) with t by (unfold us_day in *; lia).
  destruct (ymd_of_ord n) as [[y m] d].
  unfold valid_time in T. unfold t, tod, us_sec. f_equal; lia.
Qed.

Lemma add_month_day_dt_clip lp mo dd y m0 d0 hh mi ss us :
  valid_dt (PDT y m0 d0 hh mi ss us) = true -> 1 <= mo <= 12 -> 1 <= dd ->
  1 <= ord_of_ymd y mo (Z.min dd (dim y mo)) + (if (2 <? mo) && is_leap y then lp else 0) <= max_ord ->
  add_dt (mkrd rel0 lp (mkabs None (Some mo) (Some dd) None None None None) None) (PDT y m0 d0 hh mi ss us)
  = Ok (let '(yy, mm, d') := ymd_of_ord (ord_of_ymd y mo (Z.min dd (dim y mo)) +
                                        (if (2 <? mo) && is_leap y then lp else 0))
        in PDT yy mm d' hh mi ss us).
Proof.
  intros V Hmo Hdd Hr. pose proof (dim_pos y mo) as DP. apply res_opt_some.
  set (d := mkrd rel0 lp (mkabs None (Some mo) (Some dd) None None None None) None).
  assert (W : wf_rd d = true).
  { unfold wf_rd, norm_rel, d.
    cbn [rel ab wd rel0 f_months f_hours f_minutes f_seconds f_us a_year a_month a_day opt_ok].
    change (Z.abs 0) with 0. lia. }
  rewrite add_dt_spec by (try exact W; exact V).
  rewrite spec_add_body. change (carries_time d) with false. cbv iota.
  unfold spec_body. cbv zeta. clear W. subst d.
  cbn [rel ab wd leapdays rel0 f_years f_months a_year a_month oget ym_of fst snd].
  replace ((12 * y + (mo - 1) + 12 * 0 + 0) / 12) with y by lia.
  replace ((12 * y + (mo - 1) + 12 * 0 + 0) mod 12 + 1) with mo by lia.
  unfold spec_base. cbn [ab a_day a_hour a_minute a_second a_us oget day_of].
  set (dc := Z.min dd (dim y mo)) in *.
  cbn [valid_dt] in V. apply andb_prop in V. destruct V as [V T].
  assert (VB : valid_dt (PDT y mo dc hh mi ss us) = true)
    by (cbn [valid_dt]; rewrite T; unfold valid_ymd, dc in *; lia).
  rewrite VB. unfold spec_dur, spec_wd. cbn [rel rel0 f_days f_hours f_minutes f_seconds f_us leapdays lin wd].
  set (adj := if (2 <? mo) && is_leap y then lp else 0) in *.
  pose proof (tod_range _ _ _ _ T) as R.
  replace ((ord_of_ymd y mo dc - 1) * us_day + tod hh mi ss us +
           ((0 + adj) * us_day + 0 * 3600000000 + 0 * 60000000 + 0 * us_sec + 0))
    with ((ord_of_ymd y mo dc + adj - 1) * us_day + tod hh mi ss us) by (unfold us_day, us_sec; lia).
  unfold at_lin.
  match goal with |- context [if ?c then Some _ else None] => destruct c eqn:C end;
    [|exfalso; unfold lin_max_dt, max_ord, us_day in *; lia].
  rewrite dt_of_lin_parts by exact T. reflexivity.
Qed.

Lemma add_month_day_dt lp mo dd y m0 d0 hh mi ss us :
  valid_dt (PDT y m0 d0 hh mi ss us) = true -> 1 <= mo <= 12 -> 1 <= dd <= dim y mo ->
  1 <= ord_of_ymd y mo dd + (if (2 <? mo) && is_leap y then lp else 0) <= max_ord ->
  add_dt (mkrd rel0 lp (mkabs None (Some mo) (Some dd) None None None None) None) (PDT y m0 d0 hh mi ss us)
  = Ok (let '(yy, mm, d') := ymd_of_ord (ord_of_ymd y mo dd + (if (2 <? mo) && is_leap y then lp else 0))
        in PDT yy mm d' hh mi ss us).
Proof.
  intros V Hmo Hdd Hr. rewrite add_month_day_dt_clip; rewrite ?Z.min_l by lia; try assumption; try lia.
  reflexivity.
Qed.

Theorem yearday_spec_datetime n y m0 d0 hh mi ss us :
  1 <= n <= 365 -> valid_dt (PDT y m0 d0 hh mi ss us) = true ->
  exists d yy mm dd,
    mk (kw_yearday n) = Ok d /\ spec_yearday_date y n = Some (yy, mm, dd) /\
    add_dt d (PDT y m0 d0 hh mi ss us) = Ok (PDT yy mm dd hh mi ss us).
Proof.
  intros Hn V. destruct (yd_lookup_facts n Hn) as (mo & dd & L & Hmo & Hsum & Hdd & H59).
  pose proof (dim_ge_nonleap y mo) as DG. pose proof (dbm_vs_nonleap y mo Hmo) as DB.
  assert (Hy : 1 <= y <= 9999) by (cbn [valid_dt] in V; unfold valid_ymd in V; lia).
  set (lp := if (59 <? n) && (n <? 366) then -1 else 0).
  assert (EO : ord_of_ymd y mo dd + (if (2 <? mo) && is_leap y then lp else 0) = days_before_year y + n).
  { unfold ord_of_ymd, lp. rewrite DB.
    destruct (59 <? n) eqn:E1; destruct (n <? 366) eqn:E3; destruct (2 <? mo) eqn:E2; destruct (is_leap y);
    cbn [andb]; lia. }
  assert (RG : 1 <= days_before_year y + n <= max_ord).
  { assert (days_before_year 1 <= days_before_year y) by (apply days_before_year_mono; lia).
    assert (days_before_year (y + 1) <= days_before_year 10000) by (apply days_before_year_mono; lia).
    rewrite days_before_year_succ in *. unfold year_len in *.
    change (days_before_year 1) with 0 in *. change (days_before_year 10000) with 3652059 in *.
    unfold max_ord. destruct (is_leap y); lia. }
  eexists. exists (fst (fst (ymd_of_ord (days_before_year y + n)))),
                  (snd (fst (ymd_of_ord (days_before_year y + n)))),
                  (snd (ymd_of_ord (days_before_year y + n))).
  split; [apply (mk_yearday n mo dd); [lia | exact L]|]. split.
  - unfold spec_yearday_date.
    destruct ((1 <=? n) && (n <=? year_len y)) eqn:C; [|unfold year_len in C; destruct (is_leap y); lia].
    replace (ord_of_ymd y 1 1 + n - 1) with (days_before_year y + n) by (unfold ord_of_ymd; rewrite dbm_1; lia).
    destruct (ymd_of_ord _) as [[a b] c]. reflexivity.
  - fold lp. rewrite add_month_day_dt; [| exact V | exact Hmo | lia | rewrite EO; exact RG].
    rewrite EO. destruct (ymd_of_ord _) as [[a b] c]. reflexivity.
Qed.

(* ---- datetime operands, every day of the year *)
Theorem yearday_spec_datetime_full n y m0 d0 hh mi ss us :
  1 <= n <= year_len y -> valid_dt (PDT y m0 d0 hh mi ss us) = true ->
  exists d yy mm dd,
    mk (kw_yearday n) = Ok d /\ spec_yearday_date y n = Some (yy, mm, dd) /\
    add_dt d (PDT y m0 d0 hh mi ss us) = Ok (PDT yy mm dd hh mi ss us).
Proof.
  intros Hn V. destruct (Z_le_gt_dec n 365) as [H|H].
  - apply yearday_spec_datetime; [lia | exact V].
  - assert (n = 366 /\ is_leap y = true) as [-> L].
    { unfold year_len in Hn. destruct (is_leap y); [split; [lia | reflexivity] | lia]. }
    assert (Vy : valid_ymd y m0 d0 = true) by (cbn [valid_dt] in V; apply andb_prop in V; tauto).
    destruct (yearday_366_leap y m0 d0 L Vy) as (d & A & B & _).
    assert (Hy : 1 <= y <= 9999) by (unfold valid_ymd in Vy; lia).
    assert (D12 : dim y 12 = 31) by reflexivity.
    assert (V31 : valid_ymd y 12 31 = true) by (unfold valid_ymd; rewrite D12; lia).
    pose proof (ord_of_ymd_range _ _ _ V31) as RG.
    exists d, y, 12, 31. split; [exact A|]. split; [exact B|].
    rewrite (mk_yearday 366 12 32) in A by (try lia; vm_compute; reflexivity). injection A as <-.
    change ((59 <? 366) && (366 <? 366)) with false. cbv iota.
    rewrite add_month_day_dt_clip; rewrite ?D12; try assumption; try lia;
      change (Z.min 32 31) with 31; destruct ((2 <? 12) && is_leap y); rewrite ?Z.add_0_r; try lia;
      rewrite ymd_of_ord_of_ymd by (rewrite ?D12; lia); reflexivity.
Qed.
