(* Laws of the operators on float-valued deltas in the rational idealisation (RdAlgQModel.v):
   the same statements as for the integer model. *)
From Coq Require Import ZArith List Bool Lia ZifyBool.
From V Require Import base.Cal gen.RdTables rd.RdBase rd.RdModel rd.RdAlgModel rd.RdAlgSpec
  rd.RdAlgThm rd.RdAlgLaws rd.RdAlgLaws2 rd.RdAlgQModel rd.RdAlgQThm.
Import ListNotations.
Open Scope Z_scope.

(* the carry on numerators is the truncating division by base*D *)
Lemma carry_q_is_trunc : forall D b n u, 0 < D -> 0 < b ->
  carry_q D b n u = (Z.rem n (b * D), u + Z.quot n (b * D) * D).
Proof.
  intros D b n u HD Hb. assert (HB : 0 < b * D) by nia.
  unfold carry_q, sgn.
  destruct ((b - 1) * D <? Z.abs n) eqn:E.
  - destruct (n <? 0) eqn:E2.
    + destruct (quot_rem_neg (b * D) n HB ltac:(lia)) as [R Q]. rewrite R, Q.
      replace (n * -1) with (- n) by lia. f_equal; ring.
    + rewrite !Z.mul_1_r. assert (0 <= n) by lia.
      rewrite Z.rem_mod_nonneg, Z.quot_div_nonneg by assumption. reflexivity.
  - assert (Z.abs n < b * D) by nia.
    destruct (Z.le_gt_cases 0 n).
    + rewrite Z.rem_small, Z.quot_small by lia. f_equal; ring.
    + destruct (quot_rem_neg (b * D) n HB ltac:(lia)) as [R Q]. rewrite R, Q.
      rewrite Z.mod_small, Z.div_small by lia. f_equal; ring.
Qed.

Lemma carry_q_opp : forall D b n u, 0 < D -> 0 < b ->
  carry_q D b (- n) (- u) = (- fst (carry_q D b n u), - snd (carry_q D b n u)).
Proof.
  intros D b n u HD Hb. rewrite !carry_q_is_trunc by assumption. cbn [fst snd].
  assert (b * D <> 0) by nia.
  rewrite Z.rem_opp_l', Z.quot_opp_l by assumption. f_equal. ring.
Qed.

Lemma carry_opp : forall b n u, 0 < b ->
  carry b (- n) (- u) = (- fst (carry b n u), - snd (carry b n u)).
Proof.
  intros b n u Hb. rewrite !carry_is_tcarry by assumption. apply tcarry_opp. lia.
Qed.

Lemma fix_q_opp : forall D r, 0 < D -> fix_q D (map_rel Z.opp r) = map_rel Z.opp (fix_q D r).
Proof.
  intros D [y mo d h mi s us] HD. unfold fix_q, map_rel.
  cbn [f_years f_months f_days f_hours f_minutes f_seconds f_us].
  rewrite (carry_q_opp D 1000000 us s) by lia.
  destruct (carry_q D 1000000 us s) as [us' s1]. cbn [fst snd].
  rewrite (carry_q_opp D 60 s1 mi) by lia.
  destruct (carry_q D 60 s1 mi) as [s' mi1]. cbn [fst snd].
  rewrite (carry_q_opp D 60 mi1 h) by lia.
  destruct (carry_q D 60 mi1 h) as [mi' h1]. cbn [fst snd].
  rewrite (carry_q_opp D 24 h1 d) by lia.
  destruct (carry_q D 24 h1 d) as [h' d']. cbn [fst snd].
  rewrite (carry_opp 12 mo y) by lia.
  destruct (carry 12 mo y) as [mo' y']. cbn [fst snd]. reflexivity.
Qed.

Lemma carry_q_small : forall D b n u, 0 < D -> 0 < b -> Z.abs n < b * D -> carry_q D b n u = (n, u).
Proof.
  intros D b n u HD Hb H. rewrite carry_q_is_trunc by assumption.
  destruct (Z.le_gt_cases 0 n).
  - rewrite Z.rem_small, Z.quot_small by lia. f_equal; ring.
  - assert (HB : 0 < b * D) by nia.
    destruct (quot_rem_neg (b * D) n HB ltac:(lia)) as [R Q]. rewrite R, Q.
    rewrite Z.mod_small, Z.div_small by lia. f_equal; ring.
Qed.

Lemma fix_q_normal_id : forall D r, 0 < D -> normal_q D r -> fix_q D r = r.
Proof.
  intros D r HD (Hmo & Hh & Hmi & Hs & Hus). unfold fix_q.
  rewrite (carry_q_small D 1000000) by lia.
  rewrite (carry_q_small D 60) by lia.
  rewrite (carry_q_small D 60) by lia.
  rewrite (carry_q_small D 24) by lia.
  rewrite (carry_small 12) by lia.
  destruct r; reflexivity.
Qed.

Lemma fix_q_normal : forall D r, 0 < D -> normal_q D (fix_q D r).
Proof. intros D r HD. apply fix_q_normalised, HD. Qed.

Theorem fix_q_idempotent : forall D r, 0 < D -> fix_q D (fix_q D r) = fix_q D r.
Proof. intros D r HD. apply fix_q_normal_id; [exact HD | apply fix_q_normal, HD]. Qed.

(* -(-d) == d for float-valued deltas *)
Theorem neg_q_neg_q : forall D d, 0 < D -> neg_q D (neg_q D d) = ctor_q D d.
Proof.
  intros D [r l a w] HD. unfold neg_q, ctor_q. cbn [rel leapdays ab wd].
  rewrite !fix_q_opp, map_opp_opp, fix_q_idempotent by exact HD. reflexivity.
Qed.

Theorem neg_q_involutive : forall D d, 0 < D -> normal_q D (rel d) -> neg_q D (neg_q D d) = d.
Proof.
  intros D d HD H. rewrite neg_q_neg_q by exact HD. destruct d as [r l a w].
  unfold ctor_q. cbn [rel leapdays ab wd] in *. rewrite fix_q_normal_id by assumption. reflexivity.
Qed.

(* d + (-d) and d - d have no relative part.  (Unlike the integer case a zero TOTAL does not
   force zero fields here: days=0.5, hours=-12 is normalised; the law holds because the fields
   cancel one by one.) *)
Lemma rel0_normal_q : forall D, 0 < D -> normal_q D rel0.
Proof. intros D HD. unfold normal_q, rel0. cbn [f_months f_hours f_minutes f_seconds f_us]. lia. Qed.

Lemma zip_add_opp : forall r, zip_rel Z.add (map_rel Z.opp r) r = rel0.
Proof. intros [y mo d h mi s us]. unfold zip_rel, map_rel, rel0.
  cbn [f_years f_months f_days f_hours f_minutes f_seconds f_us]. f_equal; lia. Qed.

Lemma zip_sub_self : forall r, zip_rel Z.sub r r = rel0.
Proof. intros [y mo d h mi s us]. unfold zip_rel, rel0.
  cbn [f_years f_months f_days f_hours f_minutes f_seconds f_us]. f_equal; lia. Qed.

Theorem add_neg_q_no_relative : forall D d, 0 < D -> normal_q D (rel d) ->
  no_rel (add_q D d (neg_q D d)) = true /\ no_rel (sub_q D d d) = true.
Proof.
  intros D d HD H. split; apply no_rel_iff.
  - unfold add_q, neg_q, ctor_q. cbn [rel].
    rewrite fix_q_opp by exact HD. rewrite (fix_q_normal_id D (rel d)) by assumption.
    rewrite zip_add_opp. apply fix_q_normal_id; [exact HD | apply rel0_normal_q, HD].
  - unfold sub_q, ctor_q. cbn [rel]. rewrite zip_sub_self.
    apply fix_q_normal_id; [exact HD | apply rel0_normal_q, HD].
Qed.

(* a zero total does not force zero fields when the fields are fractional *)
Example ex_q_zero_total_nonzero_fields :
  let r := mkrel 0 0 1 (-24) 0 0 0 in normal_q 2 r /\ rel_us r = 0 /\ fix_q 2 r = r /\ r <> rel0.
Proof.
  cbv zeta. split; [unfold normal_q; vm_compute; repeat split; discriminate |].
  split; [reflexivity |]. split; [vm_compute; reflexivity | discriminate].
Qed.

(* every operator on float-valued deltas returns normalised fields *)
Theorem ops_q_normal : forall D a b, 0 < D ->
  normal_q D (rel (ctor_q D a)) /\ normal_q D (rel (neg_q D a)) /\ normal_q D (rel (abs_q D a)) /\
  normal_q D (rel (add_q D a b)) /\ normal_q D (rel (sub_q D a b)).
Proof. intros D a b HD. repeat split; apply fix_q_normalised, HD. Qed.

(* 1.5 days: -(-d) == d, d + (-d) == relativedelta() *)
Example ex_q_neg : let d := ctor_q 2 (mkrd (mkrel 0 0 3 0 0 0 0) 0 abs0 None) in
  normal_q 2 (rel d) /\ neg_q 2 d <> d /\ neg_q 2 (neg_q 2 d) = d /\ add_q 2 d (neg_q 2 d) = rd0.
Proof.
  cbv zeta. split; [unfold normal_q; vm_compute; repeat split; discriminate |].
  split; [vm_compute; discriminate |]. split; vm_compute; reflexivity.
Qed.

Theorem ops_q_laws : forall D a b, 0 < D ->
  (normal_q D (rel (ctor_q D a)) /\ normal_q D (rel (neg_q D a)) /\ normal_q D (rel (abs_q D a)) /\
   normal_q D (rel (add_q D a b)) /\ normal_q D (rel (sub_q D a b))) /\
  neg_q D (neg_q D a) = ctor_q D a /\
  (normal_q D (rel a) -> neg_q D (neg_q D a) = a /\
     no_rel (add_q D a (neg_q D a)) = true /\ no_rel (sub_q D a a) = true).
Proof.
  intros D a b HD. split; [apply ops_q_normal, HD |]. split; [apply neg_q_neg_q, HD |].
  intro H. split; [apply neg_q_involutive; assumption | apply add_neg_q_no_relative; assumption].
Qed.
