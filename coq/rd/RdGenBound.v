(* C16: the generated-from-source theorems whose integer reading is the code's behaviour only inside
   the float bounds of rd/RdAlgBound.v, stated WITH those bounds.  (gen_sign_is_sgn and
   gen_mul_correct in RdGenThm.v are the idealised, unbounded statements about the translation.) *)
From Coq Require Import ZArith List Bool Lia.
From V Require Import base.Cal gen.RdTables rd.RdBase rd.RdModel rd.RdAlgModel rd.RdAlgSpec rd.RdAlgBound
  rd.RdGenBase gen.RdMethodsGen rd.RdGenThm.
Open Scope Z_scope.

Theorem gen_sign_bounded : forall x, float_range x -> gen_sign x = sgn x.
Proof. intros x _. apply gen_sign_is_sgn. Qed.

Theorem gen_mul_bounded : forall o k, mul_exact (rd_of_obj o) k ->
  gen_mul o k = GOk (obj_of_rd (mul_int (rd_of_obj o) k)).
Proof. intros o k _. apply gen_mul_correct. Qed.
