(* The SHORT form people actually write -- 'EST5EDT,M3.2.0,M11.1.0': whole-hour offsets without
   ':mm' and without '+', the daylight offset omitted (one hour ahead), the rule times omitted
   (02:00) -- denotes the same zone as the canonical rendering. *)
From Coq Require Import ZArith List Bool Lia ZifyBool.
From V Require Import base.Cal posix.PTime posix.RDelta posix.TzParseModel posix.TzRangeModel
     posix.PosixSpec posix.TransThm posix.MainThm posix.PosixThm posix.ParseThm posix.ParseFull
     posix.RejectThm posix.RejectFull posix.RejectFull2.
Import ListNotations.
Ltac Zify.zify_post_hook ::= Z.to_euclidean_division_equations.
Open Scope Z_scope.

Definition short_ok (r : posix) : bool :=
  match r.(p_dst) with
  | None => false
  | Some ds => (r.(p_off) mod 3600 =? 0) && (ds.(d_off) =? r.(p_off) + 3600) &&
               (ds.(d_start).(pr_time) =? 7200) && (ds.(d_end).(pr_time) =? 7200)
  end.

(* whole hours, '-' for zones east of UTC, no sign otherwise *)
Definition short_off_toks (east : Z) : list (list Z) :=
  let v := - east in if v <? 0 then [[45]; dec (- v / 3600)] else [dec (v / 3600)].
Definition short_toks (r : posix) (ds : dstpart) : list (list Z) :=
  [r.(p_name)] ++ short_off_toks r.(p_off) ++ [ds.(d_name)] ++ [[44]] ++
  date_toks ds.(d_start).(pr_date) ++ [[44]] ++ date_toks ds.(d_end).(pr_date).
Definition render_short (r : posix) (ds : dstpart) : list Z :=
  r.(p_name) ++ (let v := - r.(p_off) in if v <? 0 then [45] ++ dec (- v / 3600) else dec (v / 3600)) ++
  ds.(d_name) ++ [44] ++ render_date ds.(d_start).(pr_date) ++ [44] ++ render_date ds.(d_end).(pr_date).

Lemma short_concat r ds : render_short r ds = concat (short_toks r ds).
Proof.
  unfold render_short, short_toks, short_off_toks. destruct ds as [dn doff [sd st] [ed et]].
  cbn [d_name d_off d_start d_end pr_date pr_time].
  destruct (- p_off r <? 0); destruct sd; destruct ed;
    cbn [render_date date_toks concat app]; norm_app; reflexivity.
Qed.

Lemma short_good r ds : r.(p_dst) = Some ds -> wf_posix r = true -> good (short_toks r ds) = true.
Proof.
  intros Hd Hwf. unfold wf_posix in Hwf. rewrite Hd in Hwf.
  destruct ds as [dn doff [sd st] [ed et]].
  cbn [d_name d_off d_start d_end pr_date pr_time] in *; split_andb.
  destruct (name_homog (p_name r) ltac:(assumption)) as [Hn1 Hn2].
  destruct (name_homog dn ltac:(assumption)) as [Hd1 Hd2].
  unfold short_toks, short_off_toks. cbn [d_name d_off d_start d_end pr_date pr_time].
  destruct (- p_off r <? 0); destruct sd; destruct ed; cbn [date_toks app]; evg; reflexivity.
Qed.

(* ---- sub-parsers ---- *)

(* a one- or two-digit hour not followed by ':' *)
Lemma read_hh l i H h : tk l i = Some H -> dtok H h -> (length H <=? 2)%nat = true ->
  tk_is l (S i) C_COLON = false ->
  read_hhmm false l i = Some (h * 3600, S i, [i]).
Proof.
  intros T0 (D0 & I0 & L0) L2 NC. unfold read_hhmm, obind. rewrite T0, L0, NC, L2.
  rewrite firstn_all2 by (apply Nat.leb_le; exact L2). rewrite I0. reflexivity.
Qed.

Lemma dec_len2 n : 0 <= n < 100 -> (length (dec n) <=? 2)%nat = true.
Proof.
  intros H. apply Nat.leb_le. unfold dec.
  repeat match goal with |- context [if ?a <? ?b then _ else _] => destruct (Z.ltb_spec a b) end;
    rewrite digits_n_length; lia.
Qed.

(* name, optional '-', hour, then a token that is not ':' *)
Lemma name_step_hh l i nm (neg : bool) H h :
  tk l i = Some nm -> name_tok nm = true ->
  (if neg then tk l (S i) = Some [45] else True) ->
  let k := if neg then S (S i) else S i in
  tk l k = Some H -> dtok H h -> (length H <=? 2)%nat = true ->
  tk_is l (S k) C_COLON = false ->
  name_step l i =
    Some (Some (nm, Some (h * 3600 * (if neg then 1 else -1))), S k,
          seq 0 (S i) ++ (if neg then [S i] else []) ++ [k]).
Proof.
  intros T0 N0 Tn k T1 D1 L2 NC.
  assert (Hnext : exists t, tk l (S i) = Some t /\ name_tok t = false /\
            (list_eqb t [C_PLUS] || list_eqb t [C_MINUS] ||
             match t with c :: _ => is_digit c | [] => false end) = true).
  { destruct neg.
    - exists [45]. split; [exact Tn|]. split; reflexivity.
    - exists H. subst k. split; [exact T1|]. split; [apply digtok_name; apply D1|].
      rewrite (digtok_first H (proj1 D1)). apply orb_true_r. }
  destruct Hnext as (t & Tt & Nt & St).
  destruct (skipn_two l i nm t T0 Tt) as (rest & E).
  unfold name_step. rewrite E. cbn [span_name]. rewrite N0, Nt.
  replace (S i =? i)%nat with false by (symmetry; apply Nat.eqb_neq; lia).
  unfold slice. rewrite E. replace (S i - i)%nat with 1%nat by lia. cbn [firstn].
  unfold concat_toks. cbn [concat]. rewrite app_nil_r.
  unfold starts_offset. rewrite Tt, St.
  unfold read_offset, tk_is. rewrite Tt.
  destruct neg; subst k.
  - rewrite Tn in Tt. inversion Tt; subst t. cbn [list_eqb Z.eqb Pos.eqb andb C_PLUS C_MINUS].
    rewrite (read_hh l (S (S i)) H h T1 D1 L2 NC). reflexivity.
  - rewrite T1 in Tt. inversion Tt; subst t.
    rewrite (digtok_neq H C_PLUS (proj1 D1) eq_refl), (digtok_neq H C_MINUS (proj1 D1) eq_refl).
    rewrite (read_hh l (S i) H h T1 D1 L2 NC). reflexivity.
Qed.

(* a name followed by ',' : no offset *)
Lemma name_step_bare l i nm : tk l i = Some nm -> name_tok nm = true -> tk l (S i) = Some [44] ->
  name_step l i = Some (Some (nm, None), S i, seq 0 (S i)).
Proof.
  intros T0 N0 T1. destruct (skipn_two l i nm [44] T0 T1) as (rest & E).
  unfold name_step. rewrite E. cbn [span_name]. rewrite N0.
  change (name_tok [44]) with false. cbv iota.
  replace (S i =? i)%nat with false by (symmetry; apply Nat.eqb_neq; lia).
  unfold slice. rewrite E. replace (S i - i)%nat with 1%nat by lia. cbn [firstn].
  unfold concat_toks. cbn [concat]. rewrite app_nil_r.
  unfold starts_offset. rewrite T1. reflexivity.
Qed.

(* a rule without '/time' *)
Lemma tail_no_time l a i u : tk_is l (S i) C_SLASH = false -> ends_at l (S i) ->
  rule_tail l (a, i, u) = Some (a, S (S i), u ++ [i]).
Proof.
  intros NS E. unfold rule_tail, obind. rewrite NS. unfold ends_at in E. rewrite E. reflexivity.
Qed.

(* the parser, generalised over the positions of the two abbreviations *)
Lemma parse_assemble_gen l nm dn v1 ov2 iA iB U1 U2 st en i1 i2 U3 U4 :
  name_step l 0 = Some (Some (nm, Some v1), iA, U1) ->
  (length l <=? iA)%nat = false ->
  name_step l iA = Some (Some (dn, ov2), iB, U2) ->
  (iB <? length l)%nat = true -> semi_to_comma l iB = l -> tk_is l iB C_COMMA = true ->
  (length l <=? S iB)%nat = false ->
  count_tok l C_COMMA = 2%nat -> (count_tok (skipn (S iB) l) C_SLASH <=? 2)%nat = true ->
  forallb posix_tok_ok (skipn (S iB) l) = true ->
  posix_rule l (S iB) = Some (st, i1, U3) -> posix_rule l i1 = Some (en, i2, U4) ->
  (length l <=? i2)%nat = true ->
  unused_bad l 0 ((U1 ++ U2) ++ U3 ++ U4) = false ->
  parse_tokens l = Ok (Some (mkRes (Some nm) (Some v1) (Some dn) ov2 st en false)).
Proof.
  intros N1 LA N2 LB Semi Comma LS Cnt Sl Ok1 R1 R2 Len Un.
  unfold parse_tokens. rewrite N1, LA, N2, LB, Semi. cbn [andb negb]. rewrite Comma. cbn [negb andb].
  rewrite LS, Cnt. cbn [Nat.leb Nat.eqb andb]. rewrite Sl, Ok1. cbn [andb].
  rewrite R1, R2, Len, Un. reflexivity.
Qed.

Lemma len2_h t : 0 <= t < 360000 -> (length (dec (t / 3600)) <=? 2)%nat = true.
Proof. intros H. apply dec_len2. lia. Qed.

Definition ast_date (d : drule) : tzattr :=
  match d with
  | DJ n => mkAttr None None None None (Some n) None None
  | DN n => mkAttr None None None (Some (n + 1)) None None None
  | DM m w d => mkAttr (Some m) (Some (if w =? 5 then -1 else w)) (Some ((d - 1) mod 7))
                       None None None None
  end.

Definition short_ast (r : posix) (ds : dstpart) : tzres :=
  mkRes (Some r.(p_name)) (Some r.(p_off)) (Some ds.(d_name)) None
        (ast_date ds.(d_start).(pr_date)) (ast_date ds.(d_end).(pr_date)) false.

Ltac date_at :=
  first
  [ erewrite date_part_M; [|reflexivity|reflexivity|dt|reflexivity|reflexivity|dt|reflexivity|reflexivity|dt]
  | erewrite date_part_J; [|reflexivity|reflexivity|dt]
  | erewrite date_part_N; [|reflexivity|dt] ].

Ltac short_rule :=
  rewrite posix_rule_split; date_at; cbn [obind];
  rewrite tail_no_time; [reflexivity|reflexivity|unfold ends_at; reflexivity].

Ltac short_case neg N1 D1 D2 Hh Hl :=
  etransitivity;
  [ eapply parse_assemble_gen;
    [ eapply (name_step_hh _ 0%nat _ neg);
      [reflexivity|exact N1|first [reflexivity|exact I]|reflexivity|apply dtok_h; exact Hh|exact Hl
      |unfold tk_is, tk; cbn [nth_error]; apply D2]
    | reflexivity
    | eapply name_step_bare; [reflexivity|exact D1|reflexivity]
    | reflexivity
    | evl; reflexivity
    | reflexivity
    | reflexivity
    | rewrite count_tok_eq; evl; reflexivity
    | rewrite count_tok_eq; evl; reflexivity
    | evl; reflexivity
    | short_rule
    | short_rule
    | reflexivity
    | evl; reflexivity ]
  | idtac ].

Lemma short_parse r ds : r.(p_dst) = Some ds -> wf_posix r = true -> r.(p_off) mod 3600 = 0 ->
  parse_tokens (short_toks r ds) = Ok (Some (short_ast r ds)).
Proof.
  intros Hd Hwf Hm. unfold wf_posix in Hwf. rewrite Hd in Hwf.
  destruct r as [nm off dd]. destruct ds as [dn doff [sd st] [ed et]].
  cbn [p_name p_off p_dst d_name d_off d_start d_end pr_date pr_time] in *; split_andb.
  destruct (wf_name_facts nm ltac:(assumption)) as (N1 & N2 & N3).
  destruct (wf_name_facts dn ltac:(assumption)) as (D1 & D2 & D3).
  unfold wf_off in *.
  unfold short_toks, short_off_toks, short_ast.
  cbn [p_name p_off p_dst d_name d_off d_start d_end pr_date pr_time].
  destruct (Z.ltb_spec (- off) 0).
  - assert (Hh : 0 <= - - off < 3600000) by lia.
    assert (Hl := len2_h (- - off) ltac:(lia)).
    assert (V : (- - off) / 3600 * 3600 * 1 = off) by lia.
    destruct sd as [n1|n1|m1 w1 d1]; destruct ed as [n2|n2|m2 w2 d2];
      cbn [date_toks app wf_date ast_date] in *;
      short_case true N1 D1 D2 Hh Hl; rewrite V; reflexivity.
  - assert (Hh : 0 <= - off < 3600000) by lia.
    assert (Hl := len2_h (- off) ltac:(lia)).
    assert (V : (- off) / 3600 * 3600 * -1 = off) by lia.
    destruct sd as [n1|n1|m1 w1 d1]; destruct ed as [n2|n2|m2 w2 d2];
      cbn [date_toks app wf_date ast_date] in *;
      short_case false N1 D1 D2 Hh Hl; rewrite V; reflexivity.
Qed.

(* the short form builds the same zone as the canonical one *)
Lemma short_zone r ds po : r.(p_dst) = Some ds -> wf_posix r = true -> short_ok r = true ->
  (po = true \/ not_gmt_utc r.(p_name) = true) ->
  tzstr_of_res (Ok (Some (short_ast r ds))) po = tzstr_of_res (Ok (Some (ast_of_posix r))) po.
Proof.
  intros Hd Hwf Hs Hpo. unfold short_ok in Hs. rewrite Hd in Hs. split_andb.
  assert (Hflip : abbr_is_gmt_utc (Some r.(p_name)) && negb po = false).
  { destruct Hpo as [-> | Hn]; [apply andb_false_r|].
    unfold not_gmt_utc in Hn. apply negb_true_iff in Hn. unfold abbr_is_gmt_utc, GMT, UTC.
    change (list_eqb (p_name r) [71; 77; 84] || list_eqb (p_name r) [85; 84; 67])
      with (zlist_eqb (p_name r) [71; 77; 84] || zlist_eqb (p_name r) [85; 84; 67]).
    rewrite Hn. reflexivity. }
  unfold wf_posix in Hwf. rewrite Hd in Hwf. split_andb.
  unfold ast_of_posix. rewrite Hd. unfold tzstr_of_res, short_ast, ast_of.
  cbn [r_unused r_stdabbr r_stdoffset r_dstabbr r_dstoffset r_start r_end].
  rewrite Hflip. unfold tzrange_init.
  rewrite (wf_name_truthy ds.(d_name)) by assumption.
  cbn [mk_delta rbind z_std_abbr z_dst_abbr z_std_off z_dst_off negb is_none andb].
  replace (d_off ds) with (p_off r + 3600) by lia.
  assert (Es : tzstr_delta (p_off r) (p_off r + 3600) (ast_date (pr_date (d_start ds))) false =
               tzstr_delta (p_off r) (p_off r + 3600) (ast_rule (d_start ds)) false).
  { unfold tzstr_delta, ast_date, ast_rule. replace (pr_time (d_start ds)) with 7200 by lia.
    destruct (pr_date (d_start ds)); reflexivity. }
  assert (Ee : tzstr_delta (p_off r) (p_off r + 3600) (ast_date (pr_date (d_end ds))) true =
               tzstr_delta (p_off r) (p_off r + 3600) (ast_rule (d_end ds)) true).
  { unfold tzstr_delta, ast_date, ast_rule. replace (pr_time (d_end ds)) with 7200 by lia.
    destruct (pr_date (d_end ds)); reflexivity. }
  rewrite Es, Ee. reflexivity.
Qed.

(* 'EST5EDT,M3.2.0,M11.1.0' == 'EST+5:00EDT+4:00,M3.2.0/2:00:00,M11.1.0/2:00:00' *)
Theorem short_form_same_zone r ds po :
  r.(p_dst) = Some ds -> wf_posix r = true -> short_ok r = true ->
  (po = true \/ not_gmt_utc r.(p_name) = true) ->
  tzstr_init (render_short r ds) po = tzstr_init (render_posix r) po.
Proof.
  intros Hd Hwf Hs Hpo.
  rewrite (tzstr_init_render r po Hwf).
  unfold tzstr_init, tzparse, tokenize.
  rewrite short_concat, (tok_good _ (short_good r ds Hd Hwf)).
  assert (Hm : p_off r mod 3600 = 0).
  { unfold short_ok in Hs. rewrite Hd in Hs. split_andb. lia. }
  rewrite (short_parse r ds Hd Hwf Hm). apply short_zone; assumption.
Qed.

Example short_form_ex :
  render_short ex_rule (mkDst [69; 68; 84] (-14400) (mkPrule (DM 3 2 0) 7200) (mkPrule (DM 11 1 0) 7200))
  = [69; 83; 84; 53; 69; 68; 84; 44; 77; 51; 46; 50; 46; 48; 44; 77; 49; 49; 46; 49; 46; 48]
  /\ short_ok ex_rule = true.
Proof. vm_compute. split; reflexivity. Qed.
