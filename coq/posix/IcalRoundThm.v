(* tzical._parse_rfc on a well-formed single-zone VTIMEZONE text: the state machine delivers
   exactly the component records (offsets, isdst, names, collected recurrence lines) the text
   states -- for ALL TZIDs, names, offsets and DTSTART / RRULE values. *)
From Coq Require Import String Ascii.
From Coq Require Import ZArith List Bool Lia ZifyBool.
From V Require Import posix.RDelta posix.TzParseModel posix.PosixSpec posix.ParseThm posix.IcalModel.
Import ListNotations.
Ltac Zify.zify_post_hook ::= Z.to_euclidean_division_equations.
Open Scope Z_scope.

(* ---- str.strip on text without blanks at its ends ---- *)
Lemma lstrip_nonspace c t : is_space c = false -> lstrip (c :: t) = c :: t.
Proof. intros H. cbn [lstrip]. rewrite H. reflexivity. Qed.

Lemma lstrip_app_last x c : is_space c = false -> exists p, lstrip (x ++ [c]) = p ++ [c].
Proof.
  intros H. induction x as [|a x IH].
  - exists []. cbn. rewrite H. reflexivity.
  - cbn [app lstrip]. destruct (is_space a); [exact IH|]. exists (a :: x). reflexivity.
Qed.

(* rstrip keeps a non-blank first character *)
Lemma rstrip_head c t : is_space c = false -> exists t', rstrip (c :: t) = c :: t'.
Proof.
  intros H. unfold rstrip. cbn [rev].
  destruct (lstrip_app_last (rev t) c H) as (p & E). rewrite E, rev_app_distr. cbn. eauto.
Qed.

(* rstrip of text whose last character is not blank is the identity *)
Lemma rstrip_last x c : is_space c = false -> rstrip (x ++ [c]) = x ++ [c].
Proof.
  intros H. unfold rstrip. rewrite rev_app_distr. cbn [rev app]. rewrite (lstrip_nonspace c _ H).
  cbn [rev]. rewrite rev_involutive. reflexivity.
Qed.

(* ---- rendering of an offset as [+-]hhmm[ss] and _parse_offset ---- *)
Definition render_ioff (o : Z) : list Z :=
  let a := Z.abs o in
  (if o <? 0 then [45] else [43]) ++ digits_n 2 (a / 3600) ++ digits_n 2 ((a / 60) mod 60) ++
  (if a mod 60 =? 0 then [] else digits_n 2 (a mod 60)).

Lemma digits2_shape n : exists a b, digits_n 2 n = [a; b] /\ is_digit a = true /\ is_digit b = true.
Proof.
  exists (48 + (n / 10) mod 10), (48 + n mod 10). split; [reflexivity|].
  unfold is_digit. lia.
Qed.

Lemma digit_not_space a : is_digit a = true -> is_space a = false.
Proof. unfold is_digit, is_space. lia. Qed.

Lemma strip_digits2 n : strip (digits_n 2 n) = digits_n 2 n.
Proof.
  destruct (digits2_shape n) as (a & b & E & Ha & Hb). rewrite E.
  unfold strip. rewrite (lstrip_nonspace a [b] (digit_not_space a Ha)).
  change [a; b] with ([a] ++ [b]). apply rstrip_last. apply digit_not_space. exact Hb.
Qed.

Lemma py_int_d2 n : 0 <= n < 100 -> py_int_simple (digits_n 2 n) = Some n.
Proof.
  intros H. unfold py_int_simple. rewrite strip_digits2.
  destruct (digits2_shape n) as (a & b & E & Ha & Hb).
  assert (I : int_tok (digits_n 2 n) = Some n) by (apply int_tok_digits; [lia|cbn; lia]).
  rewrite E in *. unfold is_digit in Ha.
  destruct (Z.eq_dec a 43) as [->|N1]; [lia|]. destruct (Z.eq_dec a 45) as [->|N2]; [lia|].
  destruct a as [|p|p]; try lia.
  (* a is a positive literal different from 43 and 45: the sign match falls through *)
  repeat (destruct p as [p|p|]; try exact I; try lia).
Qed.

Theorem parse_offset_render o : -360000 < o < 360000 -> parse_offset (render_ioff o) = Ok o.
Proof.
  intros H. unfold render_ioff.
  set (a := Z.abs o) in *.
  destruct (digits2_shape (a / 3600)) as (h1 & h2 & Eh & Hh1 & Hh2).
  destruct (digits2_shape ((a / 60) mod 60)) as (m1 & m2 & Em & Hm1 & Hm2).
  destruct (digits2_shape (a mod 60)) as (s1 & s2 & Es & Hs1 & Hs2).
  pose proof (py_int_d2 (a / 3600) ltac:(lia)) as Ih.
  pose proof (py_int_d2 ((a / 60) mod 60) ltac:(lia)) as Im.
  pose proof (py_int_d2 (a mod 60) ltac:(lia)) as Is.
  rewrite Eh, Em, Es in *.
  unfold parse_offset.
  destruct (Z.eqb_spec (a mod 60) 0) as [Z0 | NZ].
  - (* hhmm *)
    assert (St : forall sg, sg = 43 \/ sg = 45 ->
              strip ([sg] ++ [h1; h2] ++ [m1; m2] ++ []) = sg :: [h1; h2; m1; m2]).
    { intros sg Hs. unfold strip. cbn [app].
      rewrite lstrip_nonspace by (destruct Hs as [-> | ->]; reflexivity).
      change (sg :: [h1; h2; m1; m2]) with ([sg; h1; h2; m1] ++ [m2]).
      apply rstrip_last. apply digit_not_space. exact Hm2. }
    destruct (Z.ltb_spec o 0).
    + rewrite (St 45 (or_intror eq_refl)). cbn [Z.eqb Pos.eqb length Nat.eqb firstn skipn].
      rewrite Ih, Im. f_equal. subst a. lia.
    + rewrite (St 43 (or_introl eq_refl)). cbn [Z.eqb Pos.eqb length Nat.eqb firstn skipn].
      rewrite Ih, Im. f_equal. subst a. lia.
  - (* hhmmss *)
    assert (St : forall sg, sg = 43 \/ sg = 45 ->
              strip ([sg] ++ [h1; h2] ++ [m1; m2] ++ [s1; s2]) = sg :: [h1; h2; m1; m2; s1; s2]).
    { intros sg Hs. unfold strip. cbn [app].
      rewrite lstrip_nonspace by (destruct Hs as [-> | ->]; reflexivity).
      change (sg :: [h1; h2; m1; m2; s1; s2]) with ([sg; h1; h2; m1; m2; s1] ++ [s2]).
      apply rstrip_last. apply digit_not_space. exact Hs2. }
    destruct (Z.ltb_spec o 0).
    + rewrite (St 45 (or_intror eq_refl)). cbn [Z.eqb Pos.eqb length Nat.eqb firstn skipn].
      rewrite Ih, Im, Is. f_equal. subst a. lia.
    + rewrite (St 43 (or_introl eq_refl)). cbn [Z.eqb Pos.eqb length Nat.eqb firstn skipn].
      rewrite Ih, Im, Is. f_equal. subst a. lia.
Qed.

(* ---- the whole definition ---- *)
Definition vtz_lines (tzid n1 n2 v1 v2 v3 v4 : list Z) (a b : Z) : list (list Z) :=
  [ zs "BEGIN:VTIMEZONE"; zs "TZID:" ++ tzid;
    zs "BEGIN:DAYLIGHT"; zs "DTSTART:" ++ v1; zs "RRULE:" ++ v2;
    zs "TZOFFSETFROM:" ++ render_ioff a; zs "TZOFFSETTO:" ++ render_ioff b; zs "TZNAME:" ++ n1;
    zs "END:DAYLIGHT";
    zs "BEGIN:STANDARD"; zs "DTSTART:" ++ v3; zs "RRULE:" ++ v4;
    zs "TZOFFSETFROM:" ++ render_ioff b; zs "TZOFFSETTO:" ++ render_ioff a; zs "TZNAME:" ++ n2;
    zs "END:STANDARD";
    zs "END:VTIMEZONE" ].

Arguments parse_offset : simpl never.

Theorem run_lines_vtimezone tzid n1 n2 v1 v2 v3 v4 a b :
  tzid <> [] -> -360000 < a < 360000 -> -360000 < b < 360000 ->
  exists st, run_lines ps0 (vtz_lines tzid n1 n2 v1 v2 v3 v4 a b) = Ok st /\
    st.(ps_vtz) =
      [(tzid, [mkPcomp a b true (Some n1) [zs "DTSTART:" ++ v1; zs "RRULE:" ++ v2];
               mkPcomp b a false (Some n2) [zs "DTSTART:" ++ v3; zs "RRULE:" ++ v4]])].
Proof.
  intros Ht Ha Hb. destruct tzid as [|c0 tz]; [congruence|].
  pose proof (parse_offset_render a Ha) as Pa. pose proof (parse_offset_render b Hb) as Pb.
  unfold vtz_lines.
  set (ra := render_ioff a) in *. set (rb := render_ioff b) in *. clearbody ra rb.
  (* one line at a time: evaluating under the continuation with an unknown state would branch on
     every later line *)
  repeat (
    match goal with
    | |- context [run_lines ?s (?l :: ?t)] =>
        change (run_lines s (l :: t)) with (rbind (step s l) (fun st' => run_lines st' t));
        let v := eval cbn in (step s l) in change (step s l) with v;
        rewrite ?Pa, ?Pb; cbn [rbind]
    end).
  cbn [run_lines]. eexists. split; reflexivity.
Qed.

(* no continuation lines: every line starts with a non-blank character *)
Lemma unfold_keep c t raw out : is_space c = false ->
  unfold_lines ((c :: t) :: raw) out = unfold_lines raw (out ++ [c :: t]).
Proof.
  intros H. cbn [unfold_lines]. destruct (rstrip_head c t H) as (t' & E). rewrite E.
  destruct out as [|o out']; [reflexivity|].
  replace (c =? 32) with false; [reflexivity|].
  symmetry. apply Z.eqb_neq. intros ->. discriminate.
Qed.

Theorem parse_rfc_vtimezone tzid n1 n2 v1 v2 v3 v4 a b :
  tzid <> [] -> -360000 < a < 360000 -> -360000 < b < 360000 ->
  parse_rfc (vtz_lines tzid n1 n2 v1 v2 v3 v4 a b) =
    Ok [(tzid, [mkPcomp a b true (Some n1) [zs "DTSTART:" ++ v1; zs "RRULE:" ++ v2];
                mkPcomp b a false (Some n2) [zs "DTSTART:" ++ v3; zs "RRULE:" ++ v4]])].
Proof.
  intros Ht Ha Hb.
  destruct (run_lines_vtimezone tzid n1 n2 v1 v2 v3 v4 a b Ht Ha Hb) as (st & R & V).
  unfold parse_rfc.
  assert (U : unfold_lines (vtz_lines tzid n1 n2 v1 v2 v3 v4 a b) [] =
              vtz_lines tzid n1 n2 v1 v2 v3 v4 a b).
  { unfold vtz_lines. cbn [zs app].
    repeat (rewrite unfold_keep by reflexivity; cbn [app]). reflexivity. }
  unfold vtz_lines at 1. rewrite U, R. cbn [rbind]. rewrite V. reflexivity.
Qed.

(* and the single zone is returned without naming it, or by its TZID *)
Corollary get_vtimezone tzid n1 n2 v1 v2 v3 v4 a b :
  tzid <> [] -> -360000 < a < 360000 -> -360000 < b < 360000 ->
  exists cs, parse_rfc (vtz_lines tzid n1 n2 v1 v2 v3 v4 a b) = Ok [(tzid, cs)] /\
    ical_get [(tzid, cs)] None = Ok (Some cs) /\ length cs = 2%nat.
Proof.
  intros Ht Ha Hb. eexists. split; [apply parse_rfc_vtimezone; assumption|]. split; reflexivity.
Qed.
