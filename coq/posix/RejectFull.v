(* Malformed TZ strings, for EVERY well-formed rule: missing end rule, surplus /time, unknown
   character -- tzstr raises ValueError (both posix_offset values). *)
From Coq Require Import ZArith List Bool Lia ZifyBool.
From V Require Import base.Cal posix.PTime posix.RDelta posix.TzParseModel posix.TzRangeModel
     posix.PosixSpec posix.TransThm posix.MainThm posix.PosixThm posix.ParseThm posix.ParseFull
     posix.RejectThm.
Import ListNotations.
Open Scope Z_scope.

(* the parser when neither rule branch is taken: everything after the first ',' stays unused *)
Lemma parse_assemble_norule l nm dn v1 v2 U1 U2 :
  name_step l 0 = Some (Some (nm, Some v1), 5%nat, U1) ->
  name_step l 5 = Some (Some (dn, Some v2), 10%nat, U2) ->
  dn <> [] ->
  (10 <? length l)%nat = true -> semi_to_comma l 10 = l -> tk_is l 10 C_COMMA = true ->
  (length l <=? 11)%nat = false ->
  (8 <=? count_tok l C_COMMA)%nat && (count_tok l C_COMMA <=? 9)%nat && dep_filter (skipn 11 l) = false ->
  (count_tok l C_COMMA =? 2)%nat && (count_tok (skipn 11 l) C_SLASH <=? 2)%nat &&
    forallb posix_tok_ok (skipn 11 l) = false ->
  parse_tokens l =
    Ok (Some (mkRes (Some nm) (Some v1) (Some dn) (Some v2) attr0 attr0 (unused_bad l 0 (U1 ++ U2)))).
Proof.
  intros N1 N2 Hdn L10 Semi Comma L11 B1 B2.
  unfold parse_tokens. rewrite N1.
  assert (L5 : (length l <=? 5)%nat = false).
  { apply Nat.leb_gt. apply Nat.ltb_lt in L10. lia. }
  rewrite L5, N2, L10, Semi. cbn [andb negb]. rewrite Comma. cbn [negb andb].
  rewrite L11, B1, B2. reflexivity.
Qed.

Lemma tzstr_unused_err p po : p.(r_unused) = true -> tzstr_of_res (Ok (Some p)) po = Err EValue.
Proof. intros H. unfold tzstr_of_res. rewrite H. reflexivity. Qed.

(* the ten tokens of  name offset name offset *)
Definition pre_toks (r : posix) (ds : dstpart) : list (list Z) :=
  [r.(p_name)] ++ off_toks r.(p_off) ++ [ds.(d_name)] ++ off_toks ds.(d_off).

Definition toks_missing_end (r : posix) (ds : dstpart) : list (list Z) :=
  pre_toks r ds ++ [[44]] ++ rule_toks ds.(d_start).
Definition toks_surplus_time (r : posix) (ds : dstpart) : list (list Z) :=
  pre_toks r ds ++ [[44]] ++ rule_toks ds.(d_start) ++ [[44]] ++ rule_toks ds.(d_end) ++ [[47]; [50]].
Definition toks_unknown_char (r : posix) (ds : dstpart) : list (list Z) :=
  pre_toks r ds ++ [[44]; [35]] ++ rule_toks ds.(d_start) ++ [[44]] ++ rule_toks ds.(d_end).

Definition str_missing_end (r : posix) (ds : dstpart) : list Z :=
  head_of r ds ++ [44] ++ render_rule ds.(d_start).
Definition str_surplus_time (r : posix) (ds : dstpart) : list Z :=
  head_of r ds ++ [44] ++ render_rule ds.(d_start) ++ [44] ++ render_rule ds.(d_end) ++ [47; 50].
Definition str_unknown_char (r : posix) (ds : dstpart) : list Z :=
  head_of r ds ++ [44; 35] ++ render_rule ds.(d_start) ++ [44] ++ render_rule ds.(d_end).

Ltac norm_app :=
  repeat first [rewrite <- app_assoc | rewrite app_nil_r | progress cbn [app concat]].

Lemma concat_variants r ds :
  str_missing_end r ds = concat (toks_missing_end r ds) /\
  str_surplus_time r ds = concat (toks_surplus_time r ds) /\
  str_unknown_char r ds = concat (toks_unknown_char r ds).
Proof.
  unfold str_missing_end, str_surplus_time, str_unknown_char, toks_missing_end, toks_surplus_time,
         toks_unknown_char, pre_toks, head_of, render_off, off_toks, render_rule, rule_toks,
         render_hm, hm_toks, render_hms, hms_toks.
  destruct ds as [dn doff [sd st] [ed et]]. cbn [d_name d_off d_start d_end pr_date pr_time].
  destruct (- p_off r <? 0); destruct (- doff <? 0); destruct sd; destruct ed;
    cbn [render_date date_toks concat app]; repeat split; norm_app; reflexivity.
Qed.

Ltac tokfacts3 :=
  repeat match goal with
  | |- context [homog (dec ?n)] => rewrite (proj1 (digtok_homog _ (dec_digtok n)))
  | |- context [homog (digits_n 2 ?n)] => rewrite (proj1 (digtok_homog _ (d2_digtok n)))
  | |- context [tclass (dec ?n)] => rewrite (proj2 (digtok_homog _ (dec_digtok n)))
  | |- context [tclass (digits_n 2 ?n)] => rewrite (proj2 (digtok_homog _ (d2_digtok n)))
  | H : homog ?t = true |- context [homog ?t] => rewrite H
  | H : tclass ?t = 1 |- context [tclass ?t] => rewrite H
  end.
Ltac evg :=
  repeat (cbn [good homog tclass cls is_alpha is_sep is_digit andb orb negb Z.eqb Pos.eqb Z.leb
               Z.compare Pos.compare Pos.compare_cont forallb];
          tokfacts3).

Lemma good_variants r ds : r.(p_dst) = Some ds -> wf_posix r = true ->
  good (toks_missing_end r ds) = true /\ good (toks_surplus_time r ds) = true /\
  good (toks_unknown_char r ds) = true.
Proof.
  intros Hd Hwf. unfold wf_posix in Hwf. rewrite Hd in Hwf.
  destruct ds as [dn doff [sd st] [ed et]].
  cbn [d_name d_off d_start d_end pr_date pr_time] in *; split_andb.
  destruct (name_homog (p_name r) ltac:(assumption)) as [Hn1 Hn2].
  destruct (name_homog dn ltac:(assumption)) as [Hd1 Hd2].
  unfold toks_missing_end, toks_surplus_time, toks_unknown_char, pre_toks, off_toks, rule_toks,
         hm_toks, hms_toks.
  cbn [d_name d_off d_start d_end pr_date pr_time].
  destruct (- p_off r <? 0); destruct (- doff <? 0); destruct sd; destruct ed;
    cbn [date_toks app]; repeat split; evg; reflexivity.
Qed.

Ltac norule_case N1 D1 D3 R1 R2 :=
  etransitivity;
  [ eapply parse_assemble_norule;
    [ eapply name_step_off; [reflexivity|exact N1|reflexivity|apply off_sign_cases|reflexivity
                            |apply dtok_h; exact R1|reflexivity|reflexivity|apply dtok_m]
    | eapply name_step_off; [reflexivity|exact D1|reflexivity|apply off_sign_cases|reflexivity
                            |apply dtok_h; exact R2|reflexivity|reflexivity|apply dtok_m]
    | exact D3
    | reflexivity
    | evl; reflexivity
    | reflexivity
    | reflexivity
    | rewrite !count_tok_eq; evl; reflexivity
    | rewrite !count_tok_eq; evl; reflexivity ]
  | idtac ].

(* in each of the three classes the parser leaves a token other than ',' / ':' unused *)
Lemma parse_variants_unused r ds : r.(p_dst) = Some ds -> wf_posix r = true ->
  (exists p, parse_tokens (toks_missing_end r ds) = Ok (Some p) /\ p.(r_unused) = true) /\
  (exists p, parse_tokens (toks_surplus_time r ds) = Ok (Some p) /\ p.(r_unused) = true) /\
  (exists p, parse_tokens (toks_unknown_char r ds) = Ok (Some p) /\ p.(r_unused) = true).
Proof.
  intros Hd Hwf. unfold wf_posix in Hwf. rewrite Hd in Hwf.
  destruct r as [nm off dd]. destruct ds as [dn doff [sd st] [ed et]].
  cbn [p_name p_off p_dst d_name d_off d_start d_end pr_date pr_time] in *; split_andb.
  destruct (wf_name_facts nm ltac:(assumption)) as (N1 & N2 & N3).
  destruct (wf_name_facts dn ltac:(assumption)) as (D1 & D2 & D3).
  unfold wf_off, wf_time in *.
  assert (R1 := off_mag_range off ltac:(lia)). assert (R2 := off_mag_range doff ltac:(lia)).
  unfold toks_missing_end, toks_surplus_time, toks_unknown_char, pre_toks, rule_toks.
  cbn [p_name p_off p_dst d_name d_off d_start d_end pr_date pr_time].
  rewrite !off_toks_eq. unfold hm_toks, hms_toks.
  destruct sd as [n1|n1|m1 w1 d1]; destruct ed as [n2|n2|m2 w2 d2];
    cbn [date_toks app wf_date] in *;
    (split; [|split]); eexists; (split; [norule_case N1 D1 D3 R1 R2; reflexivity|]);
    cbn [r_unused]; evl; reflexivity.
Qed.

Theorem tzstr_rejects_classes r ds po : r.(p_dst) = Some ds -> wf_posix r = true ->
  tzstr_init (str_missing_end r ds) po = Err EValue /\
  tzstr_init (str_surplus_time r ds) po = Err EValue /\
  tzstr_init (str_unknown_char r ds) po = Err EValue.
Proof.
  intros Hd Hwf.
  destruct (concat_variants r ds) as (C1 & C2 & C3).
  destruct (good_variants r ds Hd Hwf) as (G1 & G2 & G3).
  destruct (parse_variants_unused r ds Hd Hwf) as ((p1 & P1 & U1) & (p2 & P2 & U2) & (p3 & P3 & U3)).
  unfold tzstr_init, tzparse, tokenize.
  rewrite C1, C2, C3, (tok_good _ G1), (tok_good _ G2), (tok_good _ G3), P1, P2, P3.
  repeat split; apply tzstr_unused_err; assumption.
Qed.
