(* tzstr / tzrange model = POSIX specification at every UTC instant (inside the guards). *)
From Coq Require Import ZArith List Bool Lia ZifyBool.
From V Require Import base.Cal posix.PTime posix.RDelta posix.TzParseModel posix.TzRangeModel
     posix.PosixSpec posix.TransThm.
Import ListNotations.
Ltac Zify.zify_post_hook ::= Z.to_euclidean_division_equations.
Open Scope Z_scope.

(* decide every integer comparison in the goal that lia can decide *)
Ltac leb_lia :=
  repeat match goal with
  | |- context [?a <=? ?b] =>
      first [ rewrite (proj2 (Z.leb_le a b)) by lia | rewrite (proj2 (Z.leb_gt a b)) by lia ]
  | |- context [?a <? ?b] =>
      first [ rewrite (proj2 (Z.ltb_lt a b)) by lia | rewrite (proj2 (Z.ltb_ge a b)) by lia ]
  end.

Ltac split_andb :=
  repeat match goal with H : _ && _ = true |- _ => apply andb_prop in H; destruct H end.

(* ------------------------------------------------------------------------------------ *)
(* the specification's "latest event" over three years, when the events of each year lie
   inside that year and keep their order                                                 *)

Lemma latest_north sm em s e sp ep u :
  sm < em -> em < s -> s < e -> e < sp -> sp < ep -> em <= u -> u < sp ->
  match latest [(sm, true); (em, false); (s, true); (e, false); (sp, true); (ep, false)] u None with
  | Some (_, b) => b | None => false end = ((s <=? u) && (u <? e)).
Proof.
  intros. cbn [latest].
  destruct (Z.leb_spec s u); destruct (Z.ltb_spec u e); try (exfalso; lia); leb_lia; reflexivity.
Qed.

Lemma latest_south sm em s e sp ep u :
  em < sm -> sm < e -> e < s -> s < ep -> ep < sp -> sm <= u -> u < ep ->
  match latest [(sm, true); (em, false); (s, true); (e, false); (sp, true); (ep, false)] u None with
  | Some (_, b) => b | None => false end = negb ((e <=? u) && (u <? s)).
Proof.
  intros. cbn [latest].
  destruct (Z.leb_spec e u); destruct (Z.ltb_spec u s); try (exfalso; lia); leb_lia; reflexivity.
Qed.

Section Rule.
  Variable r : posix.
  Variable ds : dstpart.
  Hypothesis Hdst : r.(p_dst) = Some ds.
  Hypothesis Hwf : wf_posix r = true.
  Hypothesis Hap : guard_apart r = true.

  Let off := r.(p_off).
  Let doff := ds.(d_off).
  Let sv := doff - off.
  Let a := Z.abs off + Z.abs doff.
  (* local readings of the two events: start in standard time, end in daylight time *)
  Definition RS (y : Z) : Z := date_of ds.(d_start).(pr_date) y * DAY + ds.(d_start).(pr_time).
  Definition RE (y : Z) : Z := date_of ds.(d_end).(pr_date) y * DAY + ds.(d_end).(pr_time).

  Lemma wf_parts :
    wf_date ds.(d_start).(pr_date) = true /\ wf_date ds.(d_end).(pr_date) = true.
  Proof.
    pose proof Hwf as W. unfold wf_posix in W. rewrite Hdst in W. split_andb. auto.
  Qed.

  Lemma a_bound : 0 <= a < 2 * DAY /\ Z.abs off <= a /\ Z.abs doff <= a.
  Proof.
    pose proof Hwf as W. unfold wf_posix in W. rewrite Hdst in W. split_andb.
    unfold wf_off in *. subst a off doff. unfold DAY. lia.
  Qed.

  Lemma sv_range : 0 < sv <= DAY.
  Proof.
    unfold guard_apart in Hap. rewrite Hdst in Hap. cbv zeta in Hap.
    subst sv doff off. unfold DAY in *. lia.
  Qed.

  Lemma RS_bounds y :
    ystart y + MARGIN + a <= RS y /\ RS y + MARGIN + a <= ystart y + 365 * DAY.
  Proof.
    destruct wf_parts as [W1 W2].
    pose proof (date_of_bounds _ y W1) as B.
    unfold guard_apart in Hap. rewrite Hdst in Hap. cbv zeta in Hap.
    unfold RS, ystart. fold (jan1 y). subst a off doff. unfold MARGIN, DAY in *. lia.
  Qed.

  Lemma RE_bounds y :
    ystart y + MARGIN + a <= RE y /\ RE y + MARGIN + a <= ystart y + 365 * DAY.
  Proof.
    destruct wf_parts as [W1 W2].
    pose proof (date_of_bounds _ y W2) as B.
    unfold guard_apart in Hap. rewrite Hdst in Hap. cbv zeta in Hap.
    unfold RE, ystart. fold (jan1 y). subst a off doff. unfold MARGIN, DAY in *. lia.
  Qed.

  Lemma order :
    (forall y, RS y + 28 * DAY + a <= RE y) \/ (forall y, RE y + 28 * DAY + a <= RS y).
  Proof.
    destruct wf_parts as [W1 W2].
    unfold guard_apart in Hap. rewrite Hdst in Hap. cbv zeta in Hap.
    pose proof Hap as G. clear Hap. split_andb.
    match goal with H : (_ || _) = true |- _ => apply orb_prop in H; destruct H as [H | H] end.
    - left. intros y. pose proof (date_of_bounds _ y W1). pose proof (date_of_bounds _ y W2).
      unfold RS, RE. subst a off doff. unfold DAY in *. lia.
    - right. intros y. pose proof (date_of_bounds _ y W1). pose proof (date_of_bounds _ y W2).
      unfold RS, RE. subst a off doff. unfold DAY in *. lia.
  Qed.

  Lemma start_utc_RS y : start_utc r.(p_off) ds y = RS y - off.
  Proof. reflexivity. Qed.
  Lemma end_utc_RE y : end_utc ds y = RE y - doff.
  Proof. reflexivity. Qed.

  (* the specification, for an instant of UTC year y, only looks at year y's two events *)
  Lemma spec_isdst_year u y :
    ystart y <= u < ystart (y + 1) ->
    posix_isdst r u = naive_isdst u (RS y - off) (RE y - doff).
  Proof.
    intros Hu. unfold posix_isdst. rewrite Hdst.
    rewrite (year_of_secs_unique u y Hu).
    unfold events. cbn [app]. rewrite !start_utc_RS, !end_utc_RE.
    pose proof (RS_bounds (y - 1)) as [A1 A2]. pose proof (RE_bounds (y - 1)) as [A3 A4].
    pose proof (RS_bounds y) as [B1 B2]. pose proof (RE_bounds y) as [B3 B4].
    pose proof (RS_bounds (y + 1)) as [C1 C2]. pose proof (RE_bounds (y + 1)) as [C3 C4].
    pose proof (ystart_succ (y - 1)) as Y1. replace (y - 1 + 1) with y in Y1 by lia.
    pose proof (ystart_succ y) as Y2.
    pose proof (year_len_bounds (y - 1)). pose proof (year_len_bounds y).
    assert (Ha : Z.abs off <= a /\ Z.abs doff <= a) by (subst a; lia).
    unfold naive_isdst.
    destruct order as [N | S].
    - pose proof (N (y - 1)). pose proof (N y). pose proof (N (y + 1)).
      pose proof sv_range. subst sv.
      rewrite latest_north by (unfold MARGIN, DAY in *; lia).
      replace (RS y - off <? RE y - doff) with true by (unfold DAY in *; lia). reflexivity.
    - pose proof (S (y - 1)). pose proof (S y). pose proof (S (y + 1)).
      pose proof sv_range. subst sv.
      rewrite latest_south by (unfold MARGIN, DAY in *; lia).
      replace (RS y - off <? RE y - doff) with false by (unfold DAY in *; lia). reflexivity.
  Qed.

  (* ---------------------------------------------------------------------------------- *)
  (* any zone object whose attributes and yearly transitions are those of the rule      *)

  Definition zone_for (z : zone) : Prop :=
    z.(z_std_abbr) = Some r.(p_name) /\ z.(z_dst_abbr) = Some ds.(d_name) /\
    z.(z_std_off) = off /\ z.(z_dst_off) = doff /\ z.(z_hasdst) = true /\
    forall y, transitions z y = Ok (Some (RS y, RE y - sv)).

  (* ambiguity test and DST decision of tzrangebase for a wall reading, with year y's events *)
  Definition AMB (y w : Z) : bool := (RE y - sv <=? w) && (w <? RE y).
  Definition LI (y w : Z) (f : bool) : bool :=
    let d := naive_isdst w (RS y) (RE y - sv) in
    if negb d then (if AMB y w then negb f else false) else true.

  Lemma is_ambiguous_model z w : zone_for z ->
    is_ambiguous z w = Ok (AMB (year_of_secs w) w).
  Proof.
    intros (_ & _ & Hso & Hdo & Hh & Ht). unfold is_ambiguous, AMB, dst_base.
    rewrite Hh, Ht, Hso, Hdo. cbn [negb rbind]. subst sv.
    replace (RE (year_of_secs w) - (doff - off) + (doff - off)) with (RE (year_of_secs w)) by lia.
    reflexivity.
  Qed.

  Lemma isdst_model z w f : zone_for z ->
    isdst z w f = Ok (LI (year_of_secs w) w f).
  Proof.
    intros Hz. pose proof (is_ambiguous_model z w Hz) as Ha.
    destruct Hz as (_ & _ & Hso & Hdo & Hh & Ht). unfold isdst, LI.
    rewrite Hh, Ht. cbn [negb rbind].
    destruct (naive_isdst w (RS (year_of_secs w)) (RE (year_of_secs w) - sv)); cbn [negb].
    - reflexivity.
    - rewrite Ha. cbn [rbind]. destruct (AMB (year_of_secs w) w); reflexivity.
  Qed.

  (* the year used for a wall reading does not matter as long as the reading is close to it *)
  Lemma near_years w y y' :
    ystart y' <= w < ystart (y' + 1) ->
    ystart y - MARGIN - a <= w < ystart (y + 1) + MARGIN + a ->
    y' = y - 1 \/ y' = y \/ y' = y + 1.
  Proof.
    intros H1 H2. pose proof a_bound as (Ha & _ & _).
    destruct (Z_lt_le_dec y' (y - 1)) as [L | L].
    - pose proof (ystart_strict (y' + 1) y ltac:(lia)). unfold MARGIN, DAY in *. lia.
    - destruct (Z_lt_le_dec (y + 1) y') as [G | G]; [|lia].
      pose proof (ystart_strict (y + 1) y' ltac:(lia)). unfold MARGIN, DAY in *. lia.
  Qed.

  Lemma transport w y y' f :
    ystart y' <= w < ystart (y' + 1) ->
    ystart y - a - DAY <= w < ystart (y + 1) + a + DAY ->
    AMB y' w = AMB y w /\ LI y' w f = LI y w f.
  Proof.
    intros H1 H2.
    pose proof a_bound as (Ha & Ha1 & Ha2).
    pose proof (RS_bounds y) as [B1 B2]. pose proof (RE_bounds y) as [B3 B4].
    pose proof (ystart_succ y) as Y2. pose proof (year_len_bounds y).
    pose proof sv_range as Hsv.
    assert (Hm : ystart y - MARGIN - a <= w < ystart (y + 1) + MARGIN + a).
    { unfold MARGIN, DAY in *. lia. }
    destruct (near_years w y y' H1 Hm) as [E | [E | E]]; subst y'.
    - (* w belongs to the previous year, within a + DAY of year y *)
      pose proof (RS_bounds (y - 1)) as [A1 A2]. pose proof (RE_bounds (y - 1)) as [A3 A4].
      pose proof (ystart_succ (y - 1)) as Y1. replace (y - 1 + 1) with y in * by lia.
      pose proof (year_len_bounds (y - 1)).
      unfold LI, AMB, naive_isdst.
      destruct order as [N | S].
      + pose proof (N (y - 1)). pose proof (N y).
        unfold MARGIN, DAY in *; split; leb_lia; reflexivity.
      + pose proof (S (y - 1)). pose proof (S y).
        unfold MARGIN, DAY in *; split; leb_lia; reflexivity.
    - auto.
    - pose proof (RS_bounds (y + 1)) as [C1 C2]. pose proof (RE_bounds (y + 1)) as [C3 C4].
      unfold LI, AMB, naive_isdst.
      destruct order as [N | S].
      + pose proof (N (y + 1)). pose proof (N y).
        unfold MARGIN, DAY in *; split; leb_lia; reflexivity.
      + pose proof (S (y + 1)). pose proof (S y).
        unfold MARGIN, DAY in *; split; leb_lia; reflexivity.
  Qed.

  Lemma LI_dst u y : ystart y <= u < ystart (y + 1) ->
    naive_isdst u (RS y - off) (RE y - doff) = true -> LI y (u + doff) false = true.
  Proof.
    intros Hy D.
    pose proof a_bound as (Ha & Ha1 & Ha2). pose proof sv_range as Hsv.
    pose proof (RS_bounds y) as [B1 B2]. pose proof (RE_bounds y) as [B3 B4].
    unfold LI, AMB, naive_isdst in *.
    destruct order as [N | S].
    - pose proof (N y).
      replace (RS y - off <? RE y - doff) with true in D by (unfold DAY in *; lia).
      apply andb_prop in D. destruct D as [D1 D2].
      destruct (Z.ltb_spec (u + doff) (RE y - sv)); unfold DAY in *; try (exfalso; lia); leb_lia; reflexivity.
    - pose proof (S y).
      replace (RS y - off <? RE y - doff) with false in D by (unfold DAY in *; lia).
      destruct (Z.leb_spec (RE y - doff) u); destruct (Z.ltb_spec u (RS y - off));
        cbn [andb negb] in D; try discriminate;
        destruct (Z.ltb_spec (u + doff) (RE y - sv)); unfold DAY in *; try (exfalso; lia); leb_lia; reflexivity.
  Qed.

  Lemma LI_std u y : ystart y <= u < ystart (y + 1) ->
    naive_isdst u (RS y - off) (RE y - doff) = false -> LI y (u + off) (AMB y (u + off)) = false.
  Proof.
    intros Hy D.
    pose proof a_bound as (Ha & Ha1 & Ha2). pose proof sv_range as Hsv.
    pose proof (RS_bounds y) as [B1 B2]. pose proof (RE_bounds y) as [B3 B4].
    unfold LI, AMB, naive_isdst in *.
    destruct order as [N | S].
    - pose proof (N y).
      replace (RS y - off <? RE y - doff) with true in D by (unfold DAY in *; lia).
      destruct (Z.leb_spec (RS y - off) u); destruct (Z.ltb_spec u (RE y - doff));
        cbn [andb] in D; try discriminate;
        destruct (Z.ltb_spec (u + off) (RE y)); unfold DAY in *; try (exfalso; lia); leb_lia; reflexivity.
    - pose proof (S y).
      replace (RS y - off <? RE y - doff) with false in D by (unfold DAY in *; lia).
      destruct (Z.leb_spec (RE y - doff) u); destruct (Z.ltb_spec u (RS y - off));
        cbn [andb negb] in D; try discriminate;
        destruct (Z.ltb_spec (u + off) (RE y)); unfold DAY in *; try (exfalso; lia); leb_lia; reflexivity.
  Qed.

  (* MAIN: at every UTC instant the zone reports what POSIX prescribes *)
  Theorem observe_utc_posix z u : zone_for z ->
    exists f, observe_utc z u =
      Ok (let '(o, d, n) := posix_observe r u in mkObs (u + o) f o d (Some n)).
  Proof.
    intros Hz.
    pose proof (year_of_secs_spec u) as Hy. set (y := year_of_secs u) in *.
    pose proof (spec_isdst_year u y Hy) as HP.
    pose proof a_bound as (Ha & Ha1 & Ha2). pose proof sv_range as Hsv.
    unfold posix_observe. rewrite Hdst, HP.
    unfold observe_utc, fromutc, utcoffset, dst, tzname.
    pose proof Hz as (Hsa & Hda & Hso & Hdo & Hh & Ht).
    rewrite Ht. fold y. cbn [rbind]. rewrite Hso, Hdo.
    replace (RE y - sv - off) with (RE y - doff) by (unfold sv; lia).
    destruct (naive_isdst u (RS y - off) (RE y - doff)) eqn:D; cbn [negb].
    - (* daylight time at u *)
      exists false. cbn [rbind].
      rewrite (isdst_model z (u + doff) false Hz).
      pose proof (year_of_secs_spec (u + doff)) as Hy'.
      destruct (transport (u + doff) y (year_of_secs (u + doff)) false Hy'
                  ltac:(unfold DAY in *; lia)) as [_ T].
      rewrite T, (LI_dst u y Hy D). cbn [rbind]. unfold dst_base. rewrite Hso, Hdo, Hda. reflexivity.
    - (* standard time at u *)
      rewrite (is_ambiguous_model z (u + off) Hz). cbn [rbind].
      pose proof (year_of_secs_spec (u + off)) as Hy'.
      set (y' := year_of_secs (u + off)) in *.
      exists (AMB y' (u + off)). cbn [rbind].
      rewrite (isdst_model z (u + off) _ Hz). fold y'.
      destruct (transport (u + off) y y' (AMB y' (u + off)) Hy'
                  ltac:(unfold DAY in *; lia)) as [TA T].
      rewrite T, TA, (LI_std u y Hy D). cbn [rbind]. rewrite Hsa. reflexivity.
  Qed.

  (* ---------------------------------------------------------------------------------- *)
  (* tzstr built from the parsed rule is such a zone                                    *)

  Definition ast_of : tzres :=
    mkRes (Some r.(p_name)) (Some off) (Some ds.(d_name)) (Some doff)
          (ast_rule ds.(d_start)) (ast_rule ds.(d_end)) false.

  Hypothesis Hd8 : guard_d8 r = true.

  Lemma rule_ok_start : rule_ok ds.(d_start).(pr_date) ds.(d_start).(pr_time) = true.
  Proof.
    destruct wf_parts as [W1 W2]. pose proof (RS_bounds 1) as [B1 B2].
    pose proof (date_of_bounds _ 1 W1) as B. pose proof a_bound as (Ha & _).
    pose proof Hwf as W. unfold wf_posix in W. rewrite Hdst in W. split_andb. unfold wf_time in *.
    unfold guard_d8 in Hd8. rewrite Hdst in Hd8. cbv zeta in Hd8.
    unfold RS, ystart in *. fold (jan1 1) in *.
    destruct (pr_date (d_start ds)) as [n | n | m w wd]; cbn [rule_ok is_M yday_hi yday_lo date_of] in *.
    - reflexivity.
    - unfold MARGIN, DAY in *. lia.
    - unfold DAY in *. lia.
  Qed.

  Lemma rule_ok_end : rule_ok ds.(d_end).(pr_date) (ds.(d_end).(pr_time) - (doff - off)) = true.
  Proof.
    destruct wf_parts as [W1 W2]. pose proof (RE_bounds 1) as [B1 B2].
    pose proof (date_of_bounds _ 1 W2) as B. pose proof a_bound as (Ha & _).
    pose proof Hwf as W. unfold wf_posix in W. rewrite Hdst in W. split_andb. unfold wf_time in *.
    unfold guard_d8 in Hd8. rewrite Hdst in Hd8. cbv zeta in Hd8.
    unfold RE, ystart in *. fold (jan1 1) in *.
    destruct (pr_date (d_end ds)) as [n | n | m w wd]; cbn [rule_ok is_M yday_hi yday_lo date_of] in *.
    - reflexivity.
    - unfold MARGIN, DAY in *. lia.
    - unfold DAY in *. subst doff off. lia.
  Qed.

  Lemma zlist_eqb_list_eqb x y : zlist_eqb x y = list_eqb x y.
  Proof. reflexivity. Qed.

  Lemma wf_name_truthy n : wf_name n = true -> truthy_str (Some n) = true.
  Proof. unfold wf_name. destruct n; cbn; [discriminate|reflexivity]. Qed.

  Theorem tzstr_zone_for (po : bool) :
    po = true \/ not_gmt_utc r.(p_name) = true ->
    exists z, tzstr_of_res (Ok (Some ast_of)) po = Ok z /\ zone_for z.
  Proof.
    intros Hpo.
    pose proof Hwf as W. unfold wf_posix in W. rewrite Hdst in W. split_andb.
    destruct wf_parts as [W1 W2].
    destruct (delta_ok off doff _ ds.(d_start).(pr_time) false W1 rule_ok_start) as (sd & Es & Bs & Ts).
    destruct (delta_ok off doff _ ds.(d_end).(pr_time) true W2 rule_ok_end) as (ed & Ee & Be & Te).
    assert (Hflip : abbr_is_gmt_utc (Some r.(p_name)) && negb po = false).
    { destruct Hpo as [-> | Hn]; [apply andb_false_r|].
      unfold not_gmt_utc in Hn. apply negb_true_iff in Hn.
      unfold abbr_is_gmt_utc, GMT, UTC.
      change (list_eqb (p_name r) [71; 77; 84] || list_eqb (p_name r) [85; 84; 67])
        with (zlist_eqb (p_name r) [71; 77; 84] || zlist_eqb (p_name r) [85; 84; 67]).
      rewrite Hn. reflexivity. }
    unfold tzstr_of_res, ast_of. cbn [r_unused r_stdabbr r_stdoffset r_dstabbr r_dstoffset r_start r_end].
    rewrite Hflip. unfold tzrange_init.
    rewrite (wf_name_truthy ds.(d_name)) by assumption.
    cbn [mk_delta rbind z_std_abbr z_dst_abbr z_std_off z_dst_off negb is_none].
    replace (mkPrule (pr_date (d_start ds)) (pr_time (d_start ds))) with (d_start ds) in Es
      by (destruct (d_start ds); reflexivity).
    replace (mkPrule (pr_date (d_end ds)) (pr_time (d_end ds))) with (d_end ds) in Ee
      by (destruct (d_end ds); reflexivity).
    rewrite Es. cbn [rbind]. rewrite Bs, Ee. cbn [rbind].
    eexists. split; [reflexivity|].
    unfold zone_for. cbn [z_std_abbr z_dst_abbr z_std_off z_dst_off z_hasdst].
    repeat split.
    intros y. unfold transitions. cbn [z_hasdst negb z_start z_end add_delta].
    rewrite Ts, Te. cbn [rbind]. unfold RS, RE, sv. do 3 f_equal. lia.
  Qed.
End Rule.
