(* C17: a VTIMEZONE whose DAYLIGHT / STANDARD onsets are the start / end events of a POSIX rule
   observes, for wall readings, exactly what the tzrange / tzstr model observes. *)
From Coq Require Import ZArith List Bool Lia ZifyBool.
From V Require Import base.Cal posix.PTime posix.RDelta posix.TzParseModel posix.TzRangeModel
     posix.PosixSpec posix.TransThm posix.MainThm posix.PosixThm posix.IcalModel.
Import ListNotations.
Ltac Zify.zify_post_hook ::= Z.to_euclidean_division_equations.
Open Scope Z_scope.

(* rrule.before(dt, inc=True) over the onsets g(lo), g(lo+1), ..., g(lo+n-1) of an increasing g *)
Lemma before_inc_head_gt l x last i : x < i -> before_inc (i :: l) x last = last.
Proof. intros H. cbn [before_inc]. replace (x <? i) with true by lia. reflexivity. Qed.

Lemma before_inc_zrange (g : Z -> Z) x :
  (forall i j, i < j -> g i < g j) ->
  forall n lo last k,
    lo <= k < lo + Z.of_nat n -> g k <= x -> (k + 1 < lo + Z.of_nat n -> x < g (k + 1)) ->
    before_inc (map g (zrange n lo)) x last = Some (g k).
Proof.
  intros Hg. induction n as [|n IH]; intros lo last k Hk Hx Hn; [lia|].
  cbn [zrange map before_inc].
  assert (g lo <= g k).
  { destruct (Z.eq_dec lo k) as [->|N]; [lia|]. pose proof (Hg lo k ltac:(lia)). lia. }
  replace (x <? g lo) with false by lia.
  destruct (Z.eq_dec lo k) as [->|N].
  - destruct n as [|n'].
    + reflexivity.
    + cbn [zrange map]. apply before_inc_head_gt. apply Hn. lia.
  - apply IH; lia.
Qed.

Lemma before_inc_none (g : Z -> Z) x :
  (forall i j, i < j -> g i < g j) ->
  forall n lo, x < g lo -> before_inc (map g (zrange n lo)) x None = None.
Proof.
  intros Hg n lo H. destruct n as [|n]; [reflexivity|].
  cbn [zrange map]. apply before_inc_head_gt. exact H.
Qed.

Section Ical.
  Variable r : posix.
  Variable ds : dstpart.
  Hypothesis Hdst : r.(p_dst) = Some ds.
  Hypothesis Hwf : wf_posix r = true.
  Hypothesis Hap : guard_apart r = true.

  Local Notation off := (p_off r).
  Local Notation doff := (d_off ds).
  Local Notation sv := (d_off ds - p_off r).
  Local Notation RSy := (RS ds).
  Local Notation REy := (RE ds).

  (* first year y0, number of years n: the DAYLIGHT component's onsets are the start events in
     local standard time, the STANDARD component's the end events in local daylight time *)
  Variable y0 : Z.
  Variable n : nat.

  Definition comp_daylight : comp :=
    mkComp (map RSy (zrange n y0)) off doff true (Some ds.(d_name)).
  Definition comp_standard : comp :=
    mkComp (map REy (zrange n y0)) doff off false (Some r.(p_name)).

  Lemma RS_incr i j : i < j -> RSy i < RSy j.
  Proof.
    intros H.
    pose proof (RS_bounds r ds Hdst Hwf Hap i) as [_ B]. pose proof (RS_bounds r ds Hdst Hwf Hap j) as [C _].
    pose proof (ystart_succ i). pose proof (year_len_bounds i).
    pose proof (ystart_mono (i + 1) j ltac:(lia)).
    pose proof (a_bound r ds Hdst Hwf) as (Ha & _). unfold MARGIN, DAY in *. lia.
  Qed.

  Lemma RE_incr i j : i < j -> REy i < REy j.
  Proof.
    intros H.
    pose proof (RE_bounds r ds Hdst Hwf Hap i) as [_ B]. pose proof (RE_bounds r ds Hdst Hwf Hap j) as [C _].
    pose proof (ystart_succ i). pose proof (year_len_bounds i).
    pose proof (ystart_mono (i + 1) j ltac:(lia)).
    pose proof (a_bound r ds Hdst Hwf) as (Ha & _). unfold MARGIN, DAY in *. lia.
  Qed.

  (* the latest onset of a yearly series g at or before x, for x inside year y *)
  Lemma latest_onset (g : Z -> Z) x y :
    (forall i j, i < j -> g i < g j) ->
    y0 < y < y0 + Z.of_nat n ->
    g (y - 1) <= x -> x < g (y + 1) ->
    before_inc (map g (zrange n y0)) x None = Some (if g y <=? x then g y else g (y - 1)).
  Proof.
    intros Hg Hy H1 H2. destruct (Z.leb_spec (g y) x).
    - apply before_inc_zrange; try assumption; lia.
    - apply before_inc_zrange; try assumption; try lia.
      intros _. replace (y - 1 + 1) with y by lia. lia.
  Qed.

  (* the DST decision of the VTIMEZONE lookup, for either component order *)
  Definition ical_isdst (cs : list comp) (w : Z) (f : bool) : option bool :=
    match find_comp_pure cs w f with
    | Some i => match nth_error cs i with Some c => Some c.(c_isdst) | None => None end
    | None => None
    end.

  Lemma ical_decision w f y :
    ystart y <= w < ystart (y + 1) -> y0 < y < y0 + Z.of_nat n ->
    ical_isdst [comp_daylight; comp_standard] w f = Some (LI r ds y w f) /\
    ical_isdst [comp_standard; comp_daylight] w f = Some (LI r ds y w f).
  Proof.
    intros Hw Hy.
    pose proof (a_bound r ds Hdst Hwf) as (Ha & Ha1 & Ha2).
    pose proof (sv_range r ds Hdst Hap) as Hsv.
    pose proof (RS_bounds r ds Hdst Hwf Hap (y - 1)) as [A1 A2].
    pose proof (RE_bounds r ds Hdst Hwf Hap (y - 1)) as [A3 A4].
    pose proof (RS_bounds r ds Hdst Hwf Hap y) as [B1 B2].
    pose proof (RE_bounds r ds Hdst Hwf Hap y) as [B3 B4].
    pose proof (RS_bounds r ds Hdst Hwf Hap (y + 1)) as [C1 C2].
    pose proof (RE_bounds r ds Hdst Hwf Hap (y + 1)) as [C3 C4].
    pose proof (ystart_succ (y - 1)) as Y1. replace (y - 1 + 1) with y in Y1 by lia.
    pose proof (ystart_succ y) as Y2.
    pose proof (year_len_bounds (y - 1)). pose proof (year_len_bounds y).
    (* the two lookups *)
    assert (LS : find_compdt comp_daylight w f =
                 Some (if RSy y <=? w then RSy y else RSy (y - 1))).
    { unfold find_compdt, comp_daylight, c_diff. cbn [c_to c_from c_onsets].
      replace (doff - off <? 0) with false by lia. cbn [andb].
      apply latest_onset; try assumption; [apply RS_incr| |]; unfold MARGIN, DAY in *; lia. }
    set (w' := if f then w + sv else w).
    assert (LE : find_compdt comp_standard w f =
                 Some (if REy y <=? w' then REy y else REy (y - 1))).
    { unfold find_compdt, comp_standard, c_diff. cbn [c_to c_from c_onsets].
      replace (off - doff <? 0) with true by lia. cbn [andb].
      replace (if f then w - (off - doff) else w) with w' by (subst w'; destruct f; lia).
      apply latest_onset; try assumption; [apply RE_incr| |]; subst w';
        destruct f; unfold MARGIN, DAY in *; lia. }
    unfold ical_isdst, find_comp_pure, find_comp_nocache.
    cbn [scan_comps]. rewrite LS, LE.
    unfold LI, AMB, naive_isdst.
    destruct (order r ds Hdst Hwf Hap) as [N | S].
    - pose proof (N (y - 1)). pose proof (N y).
      destruct (Z.leb_spec (RS ds y) w); destruct (Z.leb_spec (RE ds y) w');
        subst w'; destruct f; unfold MARGIN, DAY in *; try (exfalso; lia);
        split; leb_lia; cbn [nth_error c_isdst comp_daylight comp_standard andb negb];
        repeat (match goal with
                | |- context [?x <? ?y] => destruct (Z.ltb_spec x y)
                | |- context [?x <=? ?y] => destruct (Z.leb_spec x y)
                end; try (exfalso; lia); leb_lia);
        cbn [andb negb]; reflexivity.
    - pose proof (S (y - 1)). pose proof (S y).
      destruct (Z.leb_spec (RS ds y) w); destruct (Z.leb_spec (RE ds y) w');
        subst w'; destruct f; unfold MARGIN, DAY in *; try (exfalso; lia);
        split; leb_lia; cbn [nth_error c_isdst comp_daylight comp_standard andb negb];
        repeat (match goal with
                | |- context [?x <? ?y] => destruct (Z.ltb_spec x y)
                | |- context [?x <=? ?y] => destruct (Z.leb_spec x y)
                end; try (exfalso; lia); leb_lia);
        cbn [andb negb]; reflexivity.
  Qed.

  (* the first year: readings at or after the first onset of the zone *)
  Lemma first_onset (g : Z -> Z) x :
    (forall i j, i < j -> g i < g j) -> (0 < n)%nat -> x < g (y0 + 1) ->
    before_inc (map g (zrange n y0)) x None = if g y0 <=? x then Some (g y0) else None.
  Proof.
    intros Hg Hn H2. destruct (Z.leb_spec (g y0) x).
    - apply before_inc_zrange; try assumption; lia.
    - apply before_inc_none; assumption.
  Qed.

  Lemma ical_decision_first w f :
    ystart y0 <= w < ystart (y0 + 1) -> (0 < n)%nat ->
    Z.min (RSy y0) (REy y0) <= w ->
    ical_isdst [comp_daylight; comp_standard] w f = Some (LI r ds y0 w f) /\
    ical_isdst [comp_standard; comp_daylight] w f = Some (LI r ds y0 w f).
  Proof.
    intros Hw Hn Hmin.
    pose proof (a_bound r ds Hdst Hwf) as (Ha & Ha1 & Ha2).
    pose proof (sv_range r ds Hdst Hap) as Hsv.
    pose proof (RS_bounds r ds Hdst Hwf Hap y0) as [B1 B2].
    pose proof (RE_bounds r ds Hdst Hwf Hap y0) as [B3 B4].
    pose proof (RS_bounds r ds Hdst Hwf Hap (y0 + 1)) as [C1 C2].
    pose proof (RE_bounds r ds Hdst Hwf Hap (y0 + 1)) as [C3 C4].
    pose proof (ystart_succ y0) as Y2. pose proof (year_len_bounds y0).
    assert (LS : find_compdt comp_daylight w f = if RSy y0 <=? w then Some (RSy y0) else None).
    { unfold find_compdt, comp_daylight, c_diff. cbn [c_to c_from c_onsets].
      replace (doff - off <? 0) with false by lia. cbn [andb].
      apply first_onset; [apply RS_incr|exact Hn|]. unfold MARGIN, DAY in *; lia. }
    set (w' := if f then w + sv else w).
    assert (LE : find_compdt comp_standard w f = if REy y0 <=? w' then Some (REy y0) else None).
    { unfold find_compdt, comp_standard, c_diff. cbn [c_to c_from c_onsets].
      replace (off - doff <? 0) with true by lia. cbn [andb].
      replace (if f then w - (off - doff) else w) with w' by (subst w'; destruct f; lia).
      apply first_onset; [apply RE_incr|exact Hn|]. subst w'; destruct f; unfold MARGIN, DAY in *; lia. }
    unfold ical_isdst, find_comp_pure, find_comp_nocache.
    cbn [scan_comps]. rewrite LS, LE.
    unfold LI, AMB, naive_isdst.
    destruct (order r ds Hdst Hwf Hap) as [N | S].
    - pose proof (N y0).
      destruct (Z.leb_spec (RS ds y0) w); destruct (Z.leb_spec (RE ds y0) w');
        subst w'; destruct f; unfold MARGIN, DAY in *; try (exfalso; lia);
        split; leb_lia; cbn [nth_error c_isdst comp_daylight comp_standard andb negb first_std];
        repeat (match goal with
                | |- context [?x <? ?y] => destruct (Z.ltb_spec x y)
                | |- context [?x <=? ?y] => destruct (Z.leb_spec x y)
                end; try (exfalso; lia); leb_lia);
        cbn [andb negb]; reflexivity.
    - pose proof (S y0).
      destruct (Z.leb_spec (RS ds y0) w); destruct (Z.leb_spec (RE ds y0) w');
        subst w'; destruct f; unfold MARGIN, DAY in *; try (exfalso; lia);
        split; leb_lia; cbn [nth_error c_isdst comp_daylight comp_standard andb negb first_std];
        repeat (match goal with
                | |- context [?x <? ?y] => destruct (Z.ltb_spec x y)
                | |- context [?x <=? ?y] => destruct (Z.leb_spec x y)
                end; try (exfalso; lia); leb_lia);
        cbn [andb negb]; reflexivity.
  Qed.

  Lemma comp_at_of_isdst cs w f b :
    cs = [comp_daylight; comp_standard] \/ cs = [comp_standard; comp_daylight] ->
    ical_isdst cs w f = Some b ->
    comp_at cs w f = Ok (if b then comp_daylight else comp_standard).
  Proof.
    intros Hcs H. unfold ical_isdst, comp_at, get_comp in *.
    destruct (find_comp_pure cs w f) as [i|]; [|discriminate].
    destruct Hcs as [-> | ->]; destruct i as [|[|[|i]]]; cbn [nth_error] in *;
      try discriminate; cbn [c_isdst comp_daylight comp_standard] in H;
      injection H as <-; reflexivity.
  Qed.

  (* C17 MAIN: from the year after the first onsets on, wall-time queries (either fold) on the
     VTIMEZONE zone give what the tzrange / tzstr zone of the same rule gives: offset, dst,
     abbreviation -- gaps and folds included; component order is irrelevant *)
  Theorem ical_equiv_wall z w f cs :
    zone_for r ds z ->
    cs = [comp_daylight; comp_standard] \/ cs = [comp_standard; comp_daylight] ->
    y0 < year_of_secs w < y0 + Z.of_nat n ->
    ic_observe_wall cs w f = observe_wall z w f.
  Proof.
    intros Hz Hcs Hy.
    pose proof (year_of_secs_spec w) as Hw. set (y := year_of_secs w) in *.
    destruct (ical_decision w f y Hw Hy) as [D1 D2].
    assert (D : ical_isdst cs w f = Some (LI r ds y w f)) by (destruct Hcs as [-> | ->]; assumption).
    pose proof (comp_at_of_isdst cs w f _ Hcs D) as C.
    unfold ic_observe_wall, ic_utcoffset, ic_dst, ic_tzname. rewrite C. cbn [rbind].
    unfold observe_wall, utcoffset, dst, tzname.
    rewrite (isdst_model r ds z w f Hz). fold y. cbn [rbind].
    destruct Hz as (Hsa & Hda & Hso & Hdo & Hh & Ht). unfold dst_base. rewrite Hso, Hdo, Hsa, Hda.
    destruct (LI r ds y w f); reflexivity.
  Qed.
  (* ... and already in the first year, from the zone's first onset on *)
  Theorem ical_equiv_wall_first z w f cs :
    zone_for r ds z ->
    cs = [comp_daylight; comp_standard] \/ cs = [comp_standard; comp_daylight] ->
    (0 < n)%nat -> year_of_secs w = y0 -> Z.min (RSy y0) (REy y0) <= w ->
    ic_observe_wall cs w f = observe_wall z w f.
  Proof.
    intros Hz Hcs Hn Hy Hmin.
    pose proof (year_of_secs_spec w) as Hw. rewrite Hy in Hw.
    destruct (ical_decision_first w f Hw Hn Hmin) as [D1 D2].
    assert (D : ical_isdst cs w f = Some (LI r ds y0 w f)) by (destruct Hcs as [-> | ->]; assumption).
    pose proof (comp_at_of_isdst cs w f _ Hcs D) as C.
    unfold ic_observe_wall, ic_utcoffset, ic_dst, ic_tzname. rewrite C. cbn [rbind].
    unfold observe_wall, utcoffset, dst, tzname.
    rewrite (isdst_model r ds z w f Hz). rewrite Hy. cbn [rbind].
    destruct Hz as (Hsa & Hda & Hso & Hdo & Hh & Ht). unfold dst_base. rewrite Hso, Hdo, Hsa, Hda.
    destruct (LI r ds y0 w f); reflexivity.
  Qed.
End Ical.

(* before the first onset of every component: the first STANDARD component, else the first *)
Lemma scan_none cs w f : forall idx,
  (forall c, In c cs -> find_compdt c w f = None) -> scan_comps cs idx w f None = None.
Proof.
  induction cs as [|c t IH]; intros idx H; [reflexivity|].
  cbn [scan_comps]. rewrite (H c (or_introl eq_refl)). apply IH.
  intros c' Hc'. apply H. right. exact Hc'.
Qed.

Lemma before_first_onset_lemma cs w f :
  (forall c, In c cs -> find_compdt c w f = None) ->
  find_comp_nocache cs w f =
    match first_std cs 0 with
    | Some i => Some i
    | None => match cs with [] => None | _ => Some O end
    end.
Proof. intros H. unfold find_comp_nocache. rewrite (scan_none cs w f 0%nat H). reflexivity. Qed.

Lemma first_std_spec cs : forall idx i,
  first_std cs idx = Some i ->
  exists c, nth_error cs (i - idx) = Some c /\ c.(c_isdst) = false /\ (idx <= i)%nat /\
            forall j c', (j < i - idx)%nat -> nth_error cs j = Some c' -> c'.(c_isdst) = true.
Proof.
  induction cs as [|c t IH]; intros idx i H; [discriminate|].
  cbn [first_std] in H. destruct (c_isdst c) eqn:E; cbn [negb] in H.
  - destruct (IH (S idx) i H) as (c0 & N & D & L & A).
    exists c0. replace (i - idx)%nat with (S (i - S idx)) by lia. cbn [nth_error].
    repeat split; try assumption; try lia.
    intros j c' Hj Hn. destruct j as [|j]; cbn [nth_error] in Hn.
    + inversion Hn; subst c'. exact E.
    + apply (A j c'); [lia|exact Hn].
  - inversion H; subst i. exists c. replace (idx - idx)%nat with O by lia. cbn [nth_error].
    repeat split; try assumption; try lia.
Qed.

(* with the zone tzstr builds from the same rule *)
Lemma ical_equiv_tzstr_lemma r ds po y0 n w f cs :
  r.(p_dst) = Some ds -> guard r = true -> (po = true \/ not_gmt_utc r.(p_name) = true) ->
  cs = [comp_daylight r ds y0 n; comp_standard r ds y0 n] \/
  cs = [comp_standard r ds y0 n; comp_daylight r ds y0 n] ->
  y0 < year_of_secs w < y0 + Z.of_nat n ->
  exists z, tzstr_of_res (Ok (Some (ast_of_posix r))) po = Ok z /\
            ic_observe_wall cs w f = observe_wall z w f.
Proof.
  intros Hdst G Hpo Hcs Hy. unfold guard in G. apply andb_prop in G. destruct G as [G Hd8].
  apply andb_prop in G. destruct G as [Hwf Hap].
  destruct (tzstr_zone_for r ds Hdst Hwf Hap Hd8 po Hpo) as (z & Ez & Hz).
  exists z. split.
  - unfold ast_of_posix. rewrite Hdst. exact Ez.
  - apply (ical_equiv_wall r ds Hdst Hwf Hap y0 n z w f cs Hz Hcs Hy).
Qed.

(* non-vacuity: a concrete rule, ten years of onsets *)
Example ical_equiv_ex :
  let cs := [comp_daylight ex_rule
               (mkDst [69; 68; 84] (-14400) (mkPrule (DM 3 2 0) 7200) (mkPrule (DM 11 1 0) 7200))
               1996 10;
             comp_standard ex_rule
               (mkDst [69; 68; 84] (-14400) (mkPrule (DM 3 2 0) 7200) (mkPrule (DM 11 1 0) 7200))
               1996 10] in
  (* 2000-11-05 01:30 local, ambiguous: fold 0 = EDT, fold 1 = EST *)
  ic_observe_wall cs 63109071000 false = Ok (-14400, 3600, Some [69; 68; 84]) /\
  ic_observe_wall cs 63109071000 true = Ok (-18000, 0, Some [69; 83; 84]) /\
  year_of_secs 63109071000 = 2000.
Proof. vm_compute. repeat split. Qed.
