(* MODEL of tz.tzstr.__init__ / _delta, tz.tzrange.__init__ / transitions and
   tz._common.tzrangebase (utcoffset, dst, tzname, fromutc, is_ambiguous, _isdst, _naive_isdst).
   Naive datetimes are integer seconds (PTime.v); offsets are integer seconds east of UTC. *)
From Coq Require Import ZArith List Bool.
From V Require Import base.Cal posix.PTime posix.RDelta posix.TzParseModel.
Import ListNotations.
Open Scope Z_scope.

(* _start_delta / _end_delta: None, False, or a relativedelta *)
Inductive delta :=
| DNone
| DFalse
| DRd (r : rdelta).

Record zone := mkZone {
  z_std_abbr : option (list Z);
  z_dst_abbr : option (list Z);
  z_std_off : Z;
  z_dst_off : Z;
  z_start : delta;
  z_end : delta;
  z_hasdst : bool }.

Definition delta_bool (d : delta) : bool :=
  match d with DRd r => rd_bool r | _ => false end.

(* arguments of tzrange(...): start / end are None or relativedelta keyword sets *)
Definition default_start : rdargs :=
  mkArgs 0 2 0 0 (Some 4) (Some 1) (Some (6, 1)) None None.
Definition default_end : rdargs :=
  mkArgs 0 1 0 0 (Some 10) (Some 31) (Some (6, -1)) None None.

Inductive darg :=
| ANone                 (* None *)
| AFalse                (* False (what tzstr passes) *)
| AArgs (a : rdargs).   (* relativedelta of keyword set a *)

Definition mk_delta (a : darg) (dflt : rdargs) (dstabbr : bool) : res delta :=
  match a with
  | ANone => if dstabbr then rbind (rd_mk dflt) (fun r => Ok (DRd r)) else Ok DNone
  | AFalse => Ok DFalse
  | AArgs x => rbind (rd_mk x) (fun r => Ok (DRd r))
  end.

(* tzrange.__init__ (integer offsets) *)
Definition tzrange_init (stdabbr : option (list Z)) (stdoffset : option Z)
           (dstabbr : option (list Z)) (dstoffset : option Z) (start end_ : darg) : res zone :=
  let std := match stdoffset with Some v => v | None => 0 end in
  let dst := match dstoffset with
             | Some v => v
             | None => if truthy_str dstabbr && negb (is_none stdoffset) then std + 3600 else 0
             end in
  rbind (mk_delta start default_start (truthy_str dstabbr)) (fun sd =>
  rbind (mk_delta end_ default_end (truthy_str dstabbr)) (fun ed =>
  Ok (mkZone stdabbr dstabbr std dst sd ed (delta_bool sd)))).

(* tzstr._delta *)
Definition some_or (o : option Z) (d : Z) : Z := match o with Some v => v | None => d end.

Definition tzstr_delta (std_off dst_off : Z) (x : tzattr) (isend : bool) : res rdelta :=
  let '(month, day, wd, yearday, nlyearday) :=
    match x.(x_month) with
    | Some m =>
        match x.(x_weekday) with
        | Some w =>
            let week := some_or x.(x_week) 0 in
            (Some m, Some (if 0 <? week then 1 else 31), Some (w, week), None, None)
        | None =>
            if truthy_oz x.(x_day) then (Some m, x.(x_day), None, None, None)
            else (Some m, None, None, None, None)
        end
    | None =>
        match x.(x_yday) with
        | Some y => (None, None, None, Some y, None)
        | None =>
            match x.(x_jyday) with
            | Some j => (None, None, None, None, Some j)
            | None =>
                (* not kwargs: first Sunday of April / last Sunday of October *)
                if isend then (Some 10, Some 31, Some (6, -1), None, None)
                else (Some 4, Some 1, Some (6, 1), None, None)
            end
        end
    end in
  let seconds := some_or x.(x_time) 7200 in
  let seconds := if isend then seconds - (dst_off - std_off) else seconds in
  rd_mk (mkArgs 0 0 0 seconds month day wd yearday nlyearday).

Definition GMT : list Z := [71; 77; 84].
Definition UTC : list Z := [85; 84; 67].

Definition abbr_is_gmt_utc (o : option (list Z)) : bool :=
  match o with Some a => list_eqb a GMT || list_eqb a UTC | None => false end.

(* tzstr.__init__ on an already parsed string *)
Definition tzstr_of_res (p : res (option tzres)) (posix_offset : bool) : res zone :=
  match p with
  | Err e => Err e
  | Ok None => Err EValue
  | Ok (Some r) =>
      if r.(r_unused) then Err EValue
      else
        (* if res.stdabbr in ("GMT","UTC") and not posix_offset and res.stdoffset is not None:
               res.stdoffset *= -1                      (code after fix edf5097) *)
        let stdoffset :=
          match r.(r_stdoffset) with
          | None => None
          | Some v => if abbr_is_gmt_utc r.(r_stdabbr) && negb posix_offset then Some (v * -1)
                      else Some v
          end in
        rbind (tzrange_init r.(r_stdabbr) stdoffset r.(r_dstabbr) r.(r_dstoffset) AFalse AFalse)
        (fun z =>
          if negb (truthy_str r.(r_dstabbr)) then
            Ok (mkZone z.(z_std_abbr) z.(z_dst_abbr) z.(z_std_off) z.(z_dst_off) DNone DNone false)
          else
            rbind (tzstr_delta z.(z_std_off) z.(z_dst_off) r.(r_start) false) (fun sd =>
              if rd_bool sd then
                rbind (tzstr_delta z.(z_std_off) z.(z_dst_off) r.(r_end) true) (fun ed =>
                  Ok (mkZone z.(z_std_abbr) z.(z_dst_abbr) z.(z_std_off) z.(z_dst_off)
                             (DRd sd) (DRd ed) true))
              else
                Ok (mkZone z.(z_std_abbr) z.(z_dst_abbr) z.(z_std_off) z.(z_dst_off)
                           (DRd sd) DFalse false)))
  end.

Definition tzstr_init (s : list Z) (posix_offset : bool) : res zone :=
  tzstr_of_res (tzparse s) posix_offset.

(* ---------------------------------------------------------------------------------- *)
(* tzrange.transitions(year): None when not hasdst, else (start, end) in standard time *)

Definition add_delta (d : delta) (year : Z) : res Z :=
  match d with
  | DRd r => rd_add_jan1 r year
  | _ => Err EType                   (* datetime + None / False *)
  end.

Definition transitions (z : zone) (year : Z) : res (option (Z * Z)) :=
  if negb z.(z_hasdst) then Ok None
  else rbind (add_delta z.(z_start) year) (fun s =>
       rbind (add_delta z.(z_end) year) (fun e => Ok (Some (s, e)))).

(* tzrangebase._naive_isdst *)
Definition naive_isdst (dt dston dstoff : Z) : bool :=
  if dston <? dstoff then (dston <=? dt) && (dt <? dstoff)
  else negb ((dstoff <=? dt) && (dt <? dston)).

Definition dst_base (z : zone) : Z := z.(z_dst_off) - z.(z_std_off).

(* tzrangebase.is_ambiguous *)
Definition is_ambiguous (z : zone) (w : Z) : res bool :=
  if negb z.(z_hasdst) then Ok false
  else rbind (transitions z (year_of_secs w)) (fun t =>
    match t with
    | None => Err EType                                   (* start, end = None *)
    | Some (_, e) => Ok ((e <=? w) && (w <? e + dst_base z))
    end).

(* tzrangebase._isdst (dt not None) *)
Definition isdst (z : zone) (w : Z) (fold : bool) : res bool :=
  if negb z.(z_hasdst) then Ok false
  else rbind (transitions z (year_of_secs w)) (fun t =>
    match t with
    | None => Ok false
    | Some (s, e) =>
        let d := naive_isdst w s e in
        if negb d then
          rbind (is_ambiguous z w) (fun amb => if amb then Ok (negb fold) else Ok d)
        else Ok d
    end).

Definition utcoffset (z : zone) (w : Z) (fold : bool) : res Z :=
  rbind (isdst z w fold) (fun d => Ok (if d then z.(z_dst_off) else z.(z_std_off))).

Definition dst (z : zone) (w : Z) (fold : bool) : res Z :=
  rbind (isdst z w fold) (fun d => Ok (if d then dst_base z else 0)).

Definition tzname (z : zone) (w : Z) (fold : bool) : res (option (list Z)) :=
  rbind (isdst z w fold) (fun d => Ok (if d then z.(z_dst_abbr) else z.(z_std_abbr))).

(* tzrangebase.fromutc: UTC reading u -> (wall reading, fold) *)
Definition fromutc (z : zone) (u : Z) : res (Z * bool) :=
  rbind (transitions z (year_of_secs u)) (fun t =>
    match t with
    | None => rbind (utcoffset z u false) (fun off => Ok (u + off, false))
    | Some (s, e) =>
        let d := naive_isdst u (s - z.(z_std_off)) (e - z.(z_std_off)) in
        let w := if d then u + z.(z_dst_off) else u + z.(z_std_off) in
        if negb d then rbind (is_ambiguous z w) (fun amb => Ok (w, amb))
        else Ok (w, false)
    end).

(* what a caller observes for a UTC instant: datetime(u, tzinfo=UTC).astimezone(z) and then
   .utcoffset() / .dst() / .tzname() of the result *)
Record obs := mkObs { o_wall : Z; o_fold : bool; o_off : Z; o_dst : Z; o_name : option (list Z) }.

Definition observe_utc (z : zone) (u : Z) : res obs :=
  rbind (fromutc z u) (fun '(w, f) =>
  rbind (utcoffset z w f) (fun off =>
  rbind (dst z w f) (fun d =>
  rbind (tzname z w f) (fun n => Ok (mkObs w f off d n))))).

(* wall-time query: datetime(w, fold=f, tzinfo=z).utcoffset() / dst() / tzname() *)
Definition observe_wall (z : zone) (w : Z) (f : bool) : res (Z * Z * option (list Z)) :=
  rbind (utcoffset z w f) (fun off =>
  rbind (dst z w f) (fun d =>
  rbind (tzname z w f) (fun n => Ok (off, d, n)))).
