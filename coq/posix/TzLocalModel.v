(* MODEL of tz.tzlocal (utcoffset / dst / tzname / is_ambiguous / _isdst / _naive_is_dst and the
   generic _tzinfo.fromutc) over an abstract C library: `libc_isdst t` stands for
   time.localtime(t).tm_isdst at the UTC reading t (PTime seconds), and std_off / dst_off / names
   for what tzlocal.__init__ captured from time.timezone / altzone / daylight / tzname. *)
From Coq Require Import ZArith List Bool.
From V Require Import base.Cal posix.PTime posix.PosixSpec.
Import ListNotations.
Open Scope Z_scope.

Section TzLocal.
  Variable libc_isdst : Z -> bool.
  Variables std_off alt_off : Z.
  Variable daylight : bool.
  Variables std_name dst_name : list Z.

  Definition l_dst_off : Z := if daylight then alt_off else std_off.
  Definition l_dst_saved : Z := l_dst_off - std_off.
  Definition l_hasdst : bool := negb (l_dst_saved =? 0).

  (* _naive_is_dst: time.localtime(timestamp(dt) + time.timezone).tm_isdst *)
  Definition l_naive_is_dst (w : Z) : bool := libc_isdst (w - std_off).

  Definition l_is_ambiguous (w : Z) : bool :=
    let nd := l_naive_is_dst w in
    negb nd && negb (Bool.eqb nd (l_naive_is_dst (w - l_dst_saved))).

  Definition l_isdst (w : Z) (fold : bool) : bool :=
    if negb l_hasdst then false
    else if l_is_ambiguous w then negb fold
    else l_naive_is_dst w.

  Definition l_utcoffset (w : Z) (fold : bool) : Z :=
    if l_isdst w fold then l_dst_off else std_off.
  Definition l_dst (w : Z) (fold : bool) : Z :=
    if l_isdst w fold then l_dst_off - std_off else 0.
  Definition l_tzname (w : Z) (fold : bool) : list Z :=
    if l_isdst w fold then dst_name else std_name.

  (* _tzinfo._fromutc / fromutc / _fold_status / is_ambiguous (the generic ones) *)
  Definition l_gen_ambiguous (w : Z) : bool :=
    negb (l_utcoffset w false =? l_utcoffset w true).

  Definition l_fromutc (u : Z) : Z * bool :=
    let dtoff := l_utcoffset u false in
    let dtdst := l_dst u false in
    let dt := u + (dtoff - dtdst) in
    let wall := dt + l_dst dt true in
    if l_gen_ambiguous wall then (wall, (wall - u =? dtoff - dtdst)) else (wall, false).

  Definition l_observe_wall (w : Z) (f : bool) : Z * Z * list Z :=
    (l_utcoffset w f, l_dst w f, l_tzname w f).

  Definition l_observe_utc (u : Z) : Z * bool * Z * Z * list Z :=
    let '(w, f) := l_fromutc u in (w, f, l_utcoffset w f, l_dst w f, l_tzname w f).
End TzLocal.

(* the C library instantiated by the POSIX specification itself.  What tzlocal.__init__ captures
   comes from CPython's time module, which fills (timezone, altzone) and tzname with the pair
   (smaller UTC offset, larger UTC offset) -- it compares the January and July zones and swaps
   them "for the southern hemisphere" -- NOT with the (tm_isdst = 0, tm_isdst = 1) pair: for a
   negative saving the two are exchanged. *)
Definition tzlocal_of (r : posix) :=
  match r.(p_dst) with
  | None => (r.(p_off), r.(p_off), false, r.(p_name), r.(p_name))
  | Some ds =>
      if r.(p_off) <=? ds.(d_off) then (r.(p_off), ds.(d_off), true, r.(p_name), ds.(d_name))
      else (ds.(d_off), r.(p_off), true, ds.(d_name), r.(p_name))
  end.

Definition tzlocal_observe_wall (r : posix) (w : Z) (f : bool) : Z * Z * list Z :=
  let '(so, ao, dl, sn, dn) := tzlocal_of r in
  l_observe_wall (posix_isdst r) so ao dl sn dn w f.

Definition tzlocal_observe_utc (r : posix) (u : Z) : Z * bool * Z * Z * list Z :=
  let '(so, ao, dl, sn, dn) := tzlocal_of r in
  l_observe_utc (posix_isdst r) so ao dl sn dn u.
