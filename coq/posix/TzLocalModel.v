(* MODEL of tz.tzlocal (utcoffset / dst / tzname / is_ambiguous / _isdst / _naive_is_dst and the
   generic _tzinfo.fromutc) over an abstract C library: `libc_isdst t` stands for
   time.localtime(t).tm_isdst at the UTC reading t (PTime seconds), and std_off / dst_off / names
   for what tzlocal.__init__ captured from time.timezone / altzone / daylight / tzname. *)
From Coq Require Import ZArith List Bool.
From V Require Import base.Cal posix.PTime posix.PosixSpec.
Import ListNotations.
Open Scope Z_scope.

Section TzLocal.
  Variable libc_isdst : Z -> bool.
  Variables std_off alt_off : Z.
  Variable daylight : bool.
  Variables std_name dst_name : list Z.

  Definition l_dst_off : Z := if daylight then alt_off else std_off.
  Definition l_dst_saved : Z := l_dst_off - std_off.
  Definition l_hasdst : bool := negb (l_dst_saved =? 0).

  (* _naive_is_dst: time.localtime(timestamp(dt) + time.timezone).tm_isdst *)
  Definition l_naive_is_dst (w : Z) : bool := libc_isdst (w - std_off).

  Definition l_is_ambiguous (w : Z) : bool :=
    let nd := l_naive_is_dst w in
    negb nd && negb (Bool.eqb nd (l_naive_is_dst (w - l_dst_saved))).

  Definition l_isdst (w : Z) (fold : bool) : bool :=
    if negb l_hasdst then false
    else if l_is_ambiguous w then negb fold
    else l_naive_is_dst w.

  Definition l_utcoffset (w : Z) (fold : bool) : Z :=
    if l_isdst w fold then l_dst_off else std_off.
  Definition l_dst (w : Z) (fold : bool) : Z :=
    if l_isdst w fold then l_dst_off - std_off else 0.
  Definition l_tzname (w : Z) (fold : bool) : list Z :=
    if l_isdst w fold then dst_name else std_name.

  (* _tzinfo._fromutc / fromutc / _fold_status / is_ambiguous (the generic ones) *)
  Definition l_gen_ambiguous (w : Z) : bool :=
    negb (l_utcoffset w false =? l_utcoffset w true).

  Definition l_fromutc (u : Z) : Z * bool :=
    let dtoff := l_utcoffset u false in
    let dtdst := l_dst u false in
    let dt := u + (dtoff - dtdst) in
    let wall := dt + l_dst dt true in
    if l_gen_ambiguous wall then (wall, (wall - u =? dtoff - dtdst)) else (wall, false).

  Definition l_observe_wall (w : Z) (f : bool) : Z * Z * list Z :=
    (l_utcoffset w f, l_dst w f, l_tzname w f).

  Definition l_observe_utc (u : Z) : Z * bool * Z * Z * list Z :=
    let '(w, f) := l_fromutc u in (w, f, l_utcoffset w f, l_dst w f, l_tzname w f).
End TzLocal.

(* ---- the C library and CPython's time module -------------------------------------------------
   A C library is what localtime() reports at a UTC reading: tm_isdst, tm_gmtoff (seconds EAST) and
   tm_zone. *)
Record libc := mkLibc { lc_isdst : Z -> bool; lc_off : Z -> Z; lc_name : Z -> list Z }.

(* CPython, Modules/timemodule.c init_timezone(): localtime() is SAMPLED at two instants,
   tj = (time() / YEAR) * YEAR  ("January", YEAR = 365.25 days) and tl = tj + YEAR / 2 ("July"):
       janzone = -gmtoff(tj); julyzone = -gmtoff(tl);
       if (janzone < julyzone)  { timezone = julyzone; altzone = janzone; tzname = (julyname, janname) }
       else                     { timezone = janzone;  altzone = julyzone; tzname = (janname, julyname) }
       daylight = janzone != julyzone
   Result, in seconds EAST: (-timezone, -altzone, daylight, tzname[0], tzname[1]).  time.timezone is
   therefore the SMALLER of the two sampled offsets, not "the offset while tm_isdst = 0", and
   daylight is 0 whenever the two samples agree. *)
Definition time_module (c : libc) (tj tl : Z) : Z * Z * bool * list Z * list Z :=
  let jo := lc_off c tj in
  let lo := lc_off c tl in
  if lo <? jo then (lo, jo, negb (jo =? lo), lc_name c tl, lc_name c tj)
  else (jo, lo, negb (jo =? lo), lc_name c tj, lc_name c tl).

(* tz.tzlocal.__init__ reads exactly these five values (tz.py: _std_offset = -time.timezone;
   _dst_offset = -time.altzone if time.daylight else _std_offset; _tznames = time.tzname), and every
   later call asks the C library for tm_isdst *)
Definition tzlocal_c_observe_wall (c : libc) (tj tl : Z) (w : Z) (f : bool) : Z * Z * list Z :=
  let '(so, ao, dl, sn, dn) := time_module c tj tl in
  l_observe_wall (lc_isdst c) so ao dl sn dn w f.

Definition tzlocal_c_observe_utc (c : libc) (tj tl : Z) (u : Z) : Z * bool * Z * Z * list Z :=
  let '(so, ao, dl, sn, dn) := time_module c tj tl in
  l_observe_utc (lc_isdst c) so ao dl sn dn u.

(* "the C library implements the POSIX rule r": the hypothesis of the _partial theorems *)
Definition posix_off_at (r : posix) (t : Z) : Z :=
  match r.(p_dst) with Some ds => if posix_isdst r t then ds.(d_off) else r.(p_off) | None => r.(p_off) end.
Definition posix_name_at (r : posix) (t : Z) : list Z :=
  match r.(p_dst) with Some ds => if posix_isdst r t then ds.(d_name) else r.(p_name) | None => r.(p_name) end.

Definition libc_implements (c : libc) (r : posix) : Prop :=
  forall t, lc_isdst c t = posix_isdst r t /\ lc_off c t = posix_off_at r t /\ lc_name c t = posix_name_at r t.

(* the executable instance used by the correspondence: the specification itself as C library *)
Definition posix_libc (r : posix) : libc := mkLibc (posix_isdst r) (posix_off_at r) (posix_name_at r).

Definition tzlocal_of (r : posix) (tj tl : Z) := time_module (posix_libc r) tj tl.
Definition tzlocal_observe_wall (r : posix) (tj tl : Z) := tzlocal_c_observe_wall (posix_libc r) tj tl.
Definition tzlocal_observe_utc (r : posix) (tj tl : Z) := tzlocal_c_observe_utc (posix_libc r) tj tl.
