(* The remaining malformed classes, for EVERY well-formed rule: surplus rule, unknown character
   after the start rule, empty end rule, '/' without a time, surplus '.1' field, missing weekday
   field of an M date. *)
From Coq Require Import ZArith List Bool Lia ZifyBool.
From V Require Import base.Cal posix.PTime posix.RDelta posix.TzParseModel posix.TzRangeModel
     posix.PosixSpec posix.TransThm posix.MainThm posix.PosixThm posix.ParseThm posix.ParseFull
     posix.RejectThm posix.RejectFull.
Import ListNotations.
Open Scope Z_scope.

(* posix_rule = date part, then tail (optional /time and the end test) *)
Definition date_part (l : list (list Z)) (i : nat) : option (tzattr * nat * list nat) :=
  obind (tk l i) (fun t =>
    if list_eqb t [C_J] then
      obind (tk l (S i)) (fun t1 => obind (int_tok t1) (fun n =>
        Some (mkAttr None None None None (Some n) None None, S i, [i])))
    else if list_eqb t [C_M] then
      let i1 := S i in
      obind (tk l i1) (fun t1 => obind (int_tok t1) (fun month =>
      let i2 := S i1 in
      if negb (is_dash_or_dot l i2) then None else
      let i3 := S i2 in
      obind (tk l i3) (fun t3 => obind (int_tok t3) (fun week =>
      let week := if week =? 5 then -1 else week in
      let i4 := S i3 in
      if negb (is_dash_or_dot l i4) then None else
      let i5 := S i4 in
      obind (tk l i5) (fun t5 => obind (int_tok t5) (fun wd =>
      Some (mkAttr (Some month) (Some week) (Some ((wd - 1) mod 7)) None None None None,
            i5, [i; i1; i2; i3; i4])))))))
    else
      obind (int_tok t) (fun n =>
        Some (mkAttr None None None (Some (n + 1)) None None None, i, []))).

Definition rule_tail (l : list (list Z)) (x : tzattr * nat * list nat)
  : option (tzattr * nat * list nat) :=
  let '(a, i, u) := x in
  let u := u ++ [i] in
  let i := S i in
  obind (if tk_is l i C_SLASH then
           obind (read_hhmm true l (S i)) (fun '(v, i2, u2) =>
             Some (mkAttr a.(x_month) a.(x_week) a.(x_weekday) a.(x_yday) a.(x_jyday) a.(x_day) (Some v),
                   i2, u ++ [i] ++ u2))
         else Some (a, i, u))
        (fun '(a, i, u) =>
           if (i =? length l)%nat || tk_is l i C_COMMA then Some (a, S i, u)
           else if (length l <? i)%nat then None else None).

Lemma posix_rule_split l i : posix_rule l i = obind (date_part l i) (rule_tail l).
Proof.
  unfold posix_rule, date_part, rule_tail, obind.
  destruct (tk l i) as [t|]; [|reflexivity].
  destruct (list_eqb t [C_J]).
  - destruct (tk l (S i)) as [t1|]; [|reflexivity]. destruct (int_tok t1); reflexivity.
  - destruct (list_eqb t [C_M]).
    + cbv zeta. destruct (tk l (S i)) as [t1|]; [|reflexivity]. destruct (int_tok t1); [|reflexivity].
      destruct (negb (is_dash_or_dot l (S (S i)))); [reflexivity|].
      destruct (tk l (S (S (S i)))) as [t3|]; [|reflexivity]. destruct (int_tok t3); [|reflexivity].
      destruct (negb (is_dash_or_dot l (S (S (S (S i)))))); [reflexivity|].
      destruct (tk l (S (S (S (S (S i)))))) as [t5|]; [|reflexivity]. destruct (int_tok t5); reflexivity.
    + destruct (int_tok t); reflexivity.
Qed.

(* the date part of the three forms: attribute, index of the last date token, used indices *)
Lemma date_part_J l i Nn n : tk l i = Some [74] -> tk l (S i) = Some Nn -> dtok Nn n ->
  date_part l i = Some (mkAttr None None None None (Some n) None None, S i, [i]).
Proof.
  intros T0 T1 (D1 & I1 & _). unfold date_part, obind. rewrite T0.
  cbn [list_eqb Z.eqb Pos.eqb andb C_J]. rewrite T1, I1. reflexivity.
Qed.

Lemma date_part_N l i Nn n : tk l i = Some Nn -> dtok Nn n ->
  date_part l i = Some (mkAttr None None None (Some (n + 1)) None None None, i, []).
Proof.
  intros T0 D0. destruct (not_JM Nn n D0) as [NJ NM]. destruct D0 as (D0 & I0 & _).
  unfold date_part, obind. rewrite T0, NJ, NM, I0. reflexivity.
Qed.

Lemma date_part_M l i Mo mo W w Wd wd :
  tk l i = Some [77] -> tk l (S i) = Some Mo -> dtok Mo mo -> tk l (S (S i)) = Some [46] ->
  tk l (S (S (S i))) = Some W -> dtok W w -> tk l (S (S (S (S i)))) = Some [46] ->
  tk l (S (S (S (S (S i))))) = Some Wd -> dtok Wd wd ->
  date_part l i =
    Some (mkAttr (Some mo) (Some (if w =? 5 then -1 else w)) (Some ((wd - 1) mod 7)) None None None None,
          S (S (S (S (S i)))), [i; S i; S (S i); S (S (S i)); S (S (S (S i)))]).
Proof.
  intros T0 T1 (D1 & I1 & _) T2 T3 (D3 & I3 & _) T4 T5 (D5 & I5 & _).
  unfold date_part, obind. rewrite T0. cbn [list_eqb Z.eqb Pos.eqb andb C_J C_M]. cbv zeta.
  rewrite T1, I1. unfold is_dash_or_dot.
  rewrite (tk_is_eq l (S (S i)) C_DOT T2), orb_true_r. cbn [negb].
  rewrite T3, I3. rewrite (tk_is_eq l (S (S (S (S i)))) C_DOT T4), orb_true_r. cbn [negb].
  rewrite T5, I5. reflexivity.
Qed.

(* an M date whose weekday field is missing: 'Mm.w' followed by ',' *)
Lemma date_part_M_short l i Mo mo W w :
  tk l i = Some [77] -> tk l (S i) = Some Mo -> dtok Mo mo -> tk l (S (S i)) = Some [46] ->
  tk l (S (S (S i))) = Some W -> dtok W w -> tk l (S (S (S (S i)))) = Some [44] ->
  date_part l i = None.
Proof.
  intros T0 T1 (D1 & I1 & _) T2 T3 (D3 & I3 & _) T4.
  unfold date_part, obind. rewrite T0. cbn [list_eqb Z.eqb Pos.eqb andb C_J C_M]. cbv zeta.
  rewrite T1, I1. unfold is_dash_or_dot.
  rewrite (tk_is_eq l (S (S i)) C_DOT T2), orb_true_r. cbn [negb].
  rewrite T3, I3. unfold tk_is. rewrite T4. reflexivity.
Qed.

(* tails that fail *)
Lemma tail_slash_then_comma l a i u x :
  tk l (S i) = Some [47] -> tk l (S (S i)) = Some [44] ->
  tk l (S (S (S i))) = Some x -> (forall c, list_eqb x [c] = false \/ c <> 58) ->
  rule_tail l (a, i, u) = None.
Proof.
  intros T1 T2 T3 Hx. unfold rule_tail, obind. rewrite (tk_is_eq l (S i) C_SLASH T1).
  unfold read_hhmm, obind. rewrite T2. cbn [length Nat.eqb].
  unfold tk_is at 1. rewrite T3.
  destruct (Hx 58) as [E | N]; [|congruence]. change C_COLON with 58. rewrite E.
  cbn [Nat.leb firstn int_tok int_acc is_digit Z.leb Z.compare Pos.compare Pos.compare_cont andb].
  reflexivity.
Qed.

Lemma tail_then_dot l a i u : tk l (S i) = Some [46] -> (S i <? length l)%nat = true ->
  rule_tail l (a, i, u) = None.
Proof.
  intros T1 L. unfold rule_tail, obind. unfold tk_is. rewrite T1.
  cbn [list_eqb Z.eqb Pos.eqb andb C_SLASH C_COMMA orb].
  apply Nat.ltb_lt in L.
  replace (S i =? length l)%nat with false by (symmetry; apply Nat.eqb_neq; lia).
  replace (length l <? S i)%nat with false by (symmetry; apply Nat.ltb_ge; lia).
  rewrite ?T1. cbn [list_eqb Z.eqb Pos.eqb andb C_COMMA orb]. reflexivity.
Qed.

(* the whole parser when one of the two rules does not parse *)
Lemma parse_assemble_none l nm dn v1 v2 U1 U2 :
  name_step l 0 = Some (Some (nm, Some v1), 5%nat, U1) ->
  name_step l 5 = Some (Some (dn, Some v2), 10%nat, U2) ->
  dn <> [] ->
  (10 <? length l)%nat = true -> semi_to_comma l 10 = l -> tk_is l 10 C_COMMA = true ->
  (length l <=? 11)%nat = false ->
  count_tok l C_COMMA = 2%nat -> (count_tok (skipn 11 l) C_SLASH <=? 2)%nat = true ->
  forallb posix_tok_ok (skipn 11 l) = true ->
  (posix_rule l 11 = None \/
   exists st i1 U3, posix_rule l 11 = Some (st, i1, U3) /\ posix_rule l i1 = None) ->
  parse_tokens l = Ok None.
Proof.
  intros N1 N2 Hdn L10 Semi Comma L11 Cnt Sl Ok1 R.
  unfold parse_tokens. rewrite N1.
  assert (L5 : (length l <=? 5)%nat = false).
  { apply Nat.leb_gt. apply Nat.ltb_lt in L10. lia. }
  rewrite L5, N2, L10, Semi. cbn [andb negb]. rewrite Comma. cbn [negb andb].
  rewrite L11, Cnt. cbn [Nat.leb Nat.eqb andb]. rewrite Sl, Ok1. cbn [andb].
  destruct R as [R | (st & i1 & U3 & R1 & R2)]; [rewrite R; reflexivity|rewrite R1, R2; reflexivity].
Qed.

Lemma posix_rule_past_end l i : (length l <=? i)%nat = true -> posix_rule l i = None.
Proof.
  intros H. apply Nat.leb_le in H. unfold posix_rule, obind, tk.
  rewrite (proj2 (nth_error_None l i) H). reflexivity.
Qed.

(* ------------------------------------------------------------------------------------ *)
(* token lists and strings of the six classes (the strings are those of
   RejectThm.malformed_variants)                                                         *)

Definition toks_surplus_rule (r : posix) (ds : dstpart) : list (list Z) :=
  pre_toks r ds ++ [[44]] ++ rule_toks ds.(d_start) ++ [[44]] ++ rule_toks ds.(d_end) ++
  [[44]] ++ rule_toks ds.(d_end).
Definition toks_dollar (r : posix) (ds : dstpart) : list (list Z) :=
  pre_toks r ds ++ [[44]] ++ rule_toks ds.(d_start) ++ [[36]] ++ [[44]] ++ rule_toks ds.(d_end).
Definition toks_slash_no_time (r : posix) (ds : dstpart) : list (list Z) :=
  pre_toks r ds ++ [[44]] ++ date_toks ds.(d_start).(pr_date) ++ [[47]] ++ [[44]] ++
  rule_toks ds.(d_end).
Definition toks_surplus_field (r : posix) (ds : dstpart) : list (list Z) :=
  pre_toks r ds ++ [[44]] ++ date_toks ds.(d_start).(pr_date) ++ [[46]; [49]] ++ [[44]] ++
  rule_toks ds.(d_end).
Definition toks_empty_end (r : posix) (ds : dstpart) : list (list Z) :=
  pre_toks r ds ++ [[44]] ++ rule_toks ds.(d_start) ++ [[44]].
Definition toks_missing_weekday (r : posix) (ds : dstpart) (m w : Z) : list (list Z) :=
  pre_toks r ds ++ [[44]; [77]; dec m; [46]; dec w; [44]] ++ rule_toks ds.(d_end).

Definition str_surplus_rule (r : posix) (ds : dstpart) : list Z :=
  head_of r ds ++ [44] ++ render_rule ds.(d_start) ++ [44] ++ render_rule ds.(d_end) ++ [44] ++
  render_rule ds.(d_end).
Definition str_dollar (r : posix) (ds : dstpart) : list Z :=
  head_of r ds ++ [44] ++ render_rule ds.(d_start) ++ [36] ++ [44] ++ render_rule ds.(d_end).
Definition str_slash_no_time (r : posix) (ds : dstpart) : list Z :=
  head_of r ds ++ [44] ++ render_date ds.(d_start).(pr_date) ++ [47] ++ [44] ++ render_rule ds.(d_end).
Definition str_surplus_field (r : posix) (ds : dstpart) : list Z :=
  head_of r ds ++ [44] ++ render_date ds.(d_start).(pr_date) ++ [46; 49] ++ [44] ++
  render_rule ds.(d_end).
Definition str_empty_end (r : posix) (ds : dstpart) : list Z :=
  head_of r ds ++ [44] ++ render_rule ds.(d_start) ++ [44].
Definition str_missing_weekday (r : posix) (ds : dstpart) (m w : Z) : list Z :=
  head_of r ds ++ [44] ++ [77] ++ dec m ++ [46] ++ dec w ++ [44] ++ render_rule ds.(d_end).

Lemma concat_variants2 r ds :
  str_surplus_rule r ds = concat (toks_surplus_rule r ds) /\
  str_dollar r ds = concat (toks_dollar r ds) /\
  str_slash_no_time r ds = concat (toks_slash_no_time r ds) /\
  str_surplus_field r ds = concat (toks_surplus_field r ds) /\
  str_empty_end r ds = concat (toks_empty_end r ds) /\
  (forall m w, str_missing_weekday r ds m w = concat (toks_missing_weekday r ds m w)).
Proof.
  unfold str_surplus_rule, str_dollar, str_slash_no_time, str_surplus_field, str_empty_end,
         str_missing_weekday, toks_surplus_rule, toks_dollar, toks_slash_no_time,
         toks_surplus_field, toks_empty_end, toks_missing_weekday,
         pre_toks, head_of, render_off, off_toks, render_rule, rule_toks,
         render_hm, hm_toks, render_hms, hms_toks.
  destruct ds as [dn doff [sd st] [ed et]]. cbn [d_name d_off d_start d_end pr_date pr_time].
  destruct (- p_off r <? 0); destruct (- doff <? 0); destruct sd; destruct ed;
    cbn [render_date date_toks concat app]; repeat split; intros; norm_app; reflexivity.
Qed.

Lemma good_variants2 r ds : r.(p_dst) = Some ds -> wf_posix r = true ->
  good (toks_surplus_rule r ds) = true /\ good (toks_dollar r ds) = true /\
  good (toks_slash_no_time r ds) = true /\ good (toks_surplus_field r ds) = true /\
  good (toks_empty_end r ds) = true /\
  (forall m w, good (toks_missing_weekday r ds m w) = true).
Proof.
  intros Hd Hwf. unfold wf_posix in Hwf. rewrite Hd in Hwf.
  destruct ds as [dn doff [sd st] [ed et]].
  cbn [d_name d_off d_start d_end pr_date pr_time] in *; split_andb.
  destruct (name_homog (p_name r) ltac:(assumption)) as [Hn1 Hn2].
  destruct (name_homog dn ltac:(assumption)) as [Hd1 Hd2].
  unfold toks_surplus_rule, toks_dollar, toks_slash_no_time, toks_surplus_field, toks_empty_end,
         toks_missing_weekday, pre_toks, off_toks, rule_toks, hm_toks, hms_toks.
  cbn [d_name d_off d_start d_end pr_date pr_time].
  destruct (- p_off r <? 0); destruct (- doff <? 0); destruct sd; destruct ed;
    cbn [date_toks app]; repeat split; intros; evg; reflexivity.
Qed.
