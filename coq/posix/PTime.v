(* Naive datetimes as integer seconds.
     secs (dt) = dt.toordinal() * 86400 + hour*3600 + minute*60 + second
   (proleptic Gregorian ordinal, 0001-01-01 = 1).  Sub-second parts are not modelled:
   every transition of a rule zone is a whole second, so comparing floor(dt) is equivalent. *)
From Coq Require Import ZArith List Bool Lia ZifyBool.
From V Require Import base.Cal.
Ltac Zify.zify_post_hook ::= Z.to_euclidean_division_equations.
Open Scope Z_scope.

Definition DAY : Z := 86400.

(* datetime(y, m, d, 0, 0, 0) *)
Definition secs_of_ymd (y m d : Z) : Z := ord_of_ymd y m d * DAY.

(* first second of year y : datetime(y, 1, 1) *)
Definition ystart (y : Z) : Z := (days_before_year y + 1) * DAY.

(* dt.year *)
Definition year_of_secs (w : Z) : Z := year_of_ord (w / DAY).

(* dt.weekday() *)
Definition weekday_of_secs (w : Z) : Z := weekday_of_ord (w / DAY).

(* ------------------------------------------------------------------ *)

Lemma ystart_jan1 y : ystart y = secs_of_ymd y 1 1.
Proof. unfold ystart, secs_of_ymd, ord_of_ymd. rewrite dbm_1. lia. Qed.

Lemma ystart_succ y : ystart (y + 1) = ystart y + year_len y * DAY.
Proof. unfold ystart. rewrite days_before_year_succ. lia. Qed.

Lemma ystart_mono y1 y2 : y1 <= y2 -> ystart y1 <= ystart y2.
Proof. intros H. unfold ystart, DAY. pose proof (days_before_year_mono y1 y2 H). lia. Qed.

Lemma ystart_strict y1 y2 : y1 < y2 -> ystart y1 + 365 * DAY <= ystart y2.
Proof. intros H. unfold ystart, DAY. pose proof (days_before_year_strict y1 y2 H). lia. Qed.

Lemma year_len_bounds y : 365 <= year_len y <= 366.
Proof. unfold year_len. destruct (is_leap y); lia. Qed.

Lemma year_of_secs_spec w :
  ystart (year_of_secs w) <= w < ystart (year_of_secs w + 1).
Proof.
  unfold year_of_secs, ystart, DAY.
  pose proof (year_of_ord_spec (w / 86400)). lia.
Qed.

Lemma year_of_secs_unique w y : ystart y <= w < ystart (y + 1) -> year_of_secs w = y.
Proof.
  intros H. unfold year_of_secs. apply year_of_ord_unique.
  unfold ystart, DAY in *. lia.
Qed.

Lemma year_of_secs_iff w y : year_of_secs w = y <-> ystart y <= w < ystart (y + 1).
Proof.
  split; [intros <-; apply year_of_secs_spec | apply year_of_secs_unique].
Qed.

(* a reading less than a year away from year y's span lies in y-1, y or y+1 *)
Lemma year_of_secs_near w y d :
  ystart y <= w < ystart (y + 1) -> 0 <= d <= 365 * DAY ->
  (year_of_secs (w + d) = y \/ year_of_secs (w + d) = y + 1).
Proof.
  intros H Hd.
  destruct (Z_lt_ge_dec (w + d) (ystart (y + 1))) as [L | G].
  - left. apply year_of_secs_unique. lia.
  - right. apply year_of_secs_unique. split; [lia|].
    pose proof (ystart_succ (y + 1)). pose proof (year_len_bounds (y + 1)).
    replace (y + 1 + 1) with (y + 1 + 1) in * by lia. unfold DAY in *. lia.
Qed.

Lemma year_of_secs_near_neg w y d :
  ystart y <= w < ystart (y + 1) -> 0 <= d <= 365 * DAY ->
  (year_of_secs (w - d) = y \/ year_of_secs (w - d) = y - 1).
Proof.
  intros H Hd.
  destruct (Z_lt_ge_dec (w - d) (ystart y)) as [L | G].
  - right. apply year_of_secs_unique. replace (y - 1 + 1) with y by lia. split; [|lia].
    pose proof (ystart_succ (y - 1)). pose proof (year_len_bounds (y - 1)).
    replace (y - 1 + 1) with y in * by lia. unfold DAY in *. lia.
  - left. apply year_of_secs_unique. lia.
Qed.

Lemma weekday_of_secs_range w : 0 <= weekday_of_secs w <= 6.
Proof. apply weekday_of_ord_range. Qed.
