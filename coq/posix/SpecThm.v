(* The executable specification (latest event among the three surrounding years) is the
   declarative one: "daylight time is in force at u iff the latest event, over ALL years, at or
   before u is a start event". *)
From Coq Require Import ZArith List Bool Lia ZifyBool.
From V Require Import base.Cal posix.PTime posix.RDelta posix.TzParseModel posix.TzRangeModel
     posix.PosixSpec posix.TransThm posix.MainThm.
Import ListNotations.
Ltac Zify.zify_post_hook ::= Z.to_euclidean_division_equations.
Open Scope Z_scope.

Section Decl.
  Variable r : posix.
  Variable ds : dstpart.
  Hypothesis Hdst : r.(p_dst) = Some ds.
  Hypothesis Hwf : wf_posix r = true.
  Hypothesis Hap : guard_apart r = true.

  Local Notation off := (p_off r).
  Local Notation doff := (d_off ds).

  (* (t, b) is an event of some year: b = true for a start, false for an end *)
  Definition is_event (t : Z) (b : bool) : Prop := exists y, In (t, b) (events off ds y).

  (* (t, b) is the latest event at or before u, over all years *)
  Definition latest_event (u t : Z) (b : bool) : Prop :=
    is_event t b /\ t <= u /\ forall t' b', is_event t' b' -> t' <= u -> t' <= t.

  Lemma event_cases t b y : In (t, b) (events off ds y) ->
    (t = RS ds y - off /\ b = true) \/ (t = RE ds y - doff /\ b = false).
  Proof.
    unfold events. cbn [In]. intros [H | [H | []]]; inversion H; subst; [left|right]; split; reflexivity.
  Qed.

  (* events of a year lie inside that year *)
  Lemma event_in_year t b y : In (t, b) (events off ds y) ->
    ystart y + MARGIN <= t /\ t + MARGIN <= ystart (y + 1).
  Proof.
    intros H. pose proof (a_bound r ds Hdst Hwf) as (Ha & Ha1 & Ha2).
    pose proof (RS_bounds r ds Hdst Hwf Hap y) as [B1 B2].
    pose proof (RE_bounds r ds Hdst Hwf Hap y) as [B3 B4].
    pose proof (ystart_succ y). pose proof (year_len_bounds y).
    destruct (event_cases t b y H) as [[-> _] | [-> _]]; unfold MARGIN, DAY in *; lia.
  Qed.

  Theorem spec_is_declarative u :
    exists t b, latest_event u t b /\ posix_isdst r u = b.
  Proof.
    pose proof (year_of_secs_spec u) as Hy. set (y := year_of_secs u) in *.
    rewrite (spec_isdst_year r ds Hdst Hwf Hap u y Hy).
    pose proof (a_bound r ds Hdst Hwf) as (Ha & Ha1 & Ha2).
    pose proof (sv_range r ds Hdst Hap) as Hsv.
    pose proof (RS_bounds r ds Hdst Hwf Hap y) as [B1 B2].
    pose proof (RE_bounds r ds Hdst Hwf Hap y) as [B3 B4].
    pose proof (RS_bounds r ds Hdst Hwf Hap (y - 1)) as [A1 A2].
    pose proof (RE_bounds r ds Hdst Hwf Hap (y - 1)) as [A3 A4].
    pose proof (ystart_succ (y - 1)) as Y1. replace (y - 1 + 1) with y in Y1 by lia.
    pose proof (ystart_succ y) as Y2.
    pose proof (year_len_bounds (y - 1)). pose proof (year_len_bounds y).
    (* every event at or before u belongs to a year <= y, and events of years < y - 1 precede
       those of year y - 1 *)
    assert (Hyear : forall t' b' y', In (t', b') (events off ds y') -> t' <= u ->
              y' <= y /\ (y' < y - 1 -> t' <= ystart (y - 1))).
    { intros t' b' y' Hin Hle. pose proof (event_in_year t' b' y' Hin) as [E1 E2]. split.
      - destruct (Z_le_gt_dec y' y) as [L | G]; [exact L|].
        pose proof (ystart_mono (y + 1) y' ltac:(lia)). unfold MARGIN, DAY in *. lia.
      - intros L. pose proof (ystart_mono (y' + 1) (y - 1) ltac:(lia)). unfold MARGIN, DAY in *. lia. }
    (* a candidate (t, b) that dominates the events of years y-1 and y at or before u is the latest *)
    assert (Hdom : forall t b, is_event t b -> t <= u -> ystart (y - 1) <= t ->
              (forall t' b' y', (y' = y - 1 \/ y' = y) -> In (t', b') (events off ds y') -> t' <= u -> t' <= t) ->
              latest_event u t b).
    { intros t b He Hle Hlo Hd. split; [exact He|]. split; [exact Hle|].
      intros t' b' [y' Hin] Hle'. destruct (Hyear t' b' y' Hin Hle') as [L1 L2].
      destruct (Z_lt_le_dec y' (y - 1)) as [Lt | Ge].
      - specialize (L2 Lt). lia.
      - apply (Hd t' b' y'); [lia|exact Hin|exact Hle']. }
    unfold naive_isdst.
    destruct (order r ds Hdst Hwf Hap) as [N | S].
    - pose proof (N (y - 1)). pose proof (N y).
      replace (RS ds y - off <? RE ds y - doff) with true by (unfold DAY in *; lia).
      destruct (Z.leb_spec (RS ds y - off) u) as [L1 | L1]; destruct (Z.ltb_spec u (RE ds y - doff)) as [L2 | L2];
        cbn [andb].
      + exists (RS ds y - off), true. split; [|reflexivity].
        apply Hdom; [exists y; left; reflexivity|lia|unfold MARGIN, DAY in *; lia|].
        intros t' b' y' [-> | ->] Hin Hle; destruct (event_cases _ _ _ Hin) as [[-> _] | [-> _]];
          unfold MARGIN, DAY in *; lia.
      + exists (RE ds y - doff), false. split; [|reflexivity].
        apply Hdom; [exists y; right; left; reflexivity|lia|unfold MARGIN, DAY in *; lia|].
        intros t' b' y' [-> | ->] Hin Hle; destruct (event_cases _ _ _ Hin) as [[-> _] | [-> _]];
          unfold MARGIN, DAY in *; lia.
      + exists (RE ds (y - 1) - doff), false. split; [|reflexivity].
        apply Hdom; [exists (y - 1); right; left; reflexivity|unfold MARGIN, DAY in *; lia
                    |unfold MARGIN, DAY in *; lia|].
        intros t' b' y' [-> | ->] Hin Hle; destruct (event_cases _ _ _ Hin) as [[-> _] | [-> _]];
          unfold MARGIN, DAY in *; lia.
      + exfalso. unfold DAY in *. lia.
    - pose proof (S (y - 1)). pose proof (S y).
      replace (RS ds y - off <? RE ds y - doff) with false by (unfold DAY in *; lia).
      destruct (Z.leb_spec (RE ds y - doff) u) as [L1 | L1]; destruct (Z.ltb_spec u (RS ds y - off)) as [L2 | L2];
        cbn [andb negb].
      + exists (RE ds y - doff), false. split; [|reflexivity].
        apply Hdom; [exists y; right; left; reflexivity|lia|unfold MARGIN, DAY in *; lia|].
        intros t' b' y' [-> | ->] Hin Hle; destruct (event_cases _ _ _ Hin) as [[-> _] | [-> _]];
          unfold MARGIN, DAY in *; lia.
      + exists (RS ds y - off), true. split; [|reflexivity].
        apply Hdom; [exists y; left; reflexivity|lia|unfold MARGIN, DAY in *; lia|].
        intros t' b' y' [-> | ->] Hin Hle; destruct (event_cases _ _ _ Hin) as [[-> _] | [-> _]];
          unfold MARGIN, DAY in *; lia.
      + exists (RS ds (y - 1) - off), true. split; [|reflexivity].
        apply Hdom; [exists (y - 1); left; reflexivity|unfold MARGIN, DAY in *; lia
                    |unfold MARGIN, DAY in *; lia|].
        intros t' b' y' [-> | ->] Hin Hle; destruct (event_cases _ _ _ Hin) as [[-> _] | [-> _]];
          unfold MARGIN, DAY in *; lia.
      + exfalso. unfold DAY in *. lia.
  Qed.
End Decl.
