(* The yearly transitions the tzstr model computes are the POSIX rule dates (inside guard D8). *)
From Coq Require Import ZArith List Bool Lia ZifyBool.
From V Require Import base.Cal posix.PTime posix.RDelta posix.TzParseModel posix.TzRangeModel
     posix.PosixSpec.
Import ListNotations.
Ltac Zify.zify_post_hook ::= Z.to_euclidean_division_equations.
Open Scope Z_scope.

(* _fix keeps the total *)
Lemma fix_carry_total lo hi lim : 0 < lim ->
  fst (fix_carry lo hi lim) + snd (fix_carry lo hi lim) * lim = lo + hi * lim.
Proof.
  intros Hl. unfold fix_carry, py_sign.
  destruct (lim - 1 <? Z.abs lo); [|reflexivity].
  destruct (lo <? 0); cbn [fst snd].
  - pose proof (Z.div_mod (lo * -1) lim ltac:(lia)) as E.
    set (q := (lo * -1) / lim) in *. set (m := (lo * -1) mod lim) in *. nia.
  - pose proof (Z.div_mod (lo * 1) lim ltac:(lia)) as E.
    set (q := (lo * 1) / lim) in *. set (m := (lo * 1) mod lim) in *. nia.
Qed.

(* the cascade seconds -> minutes -> hours -> days of rd_mk keeps the duration *)
Lemma fix_cascade secs :
  let '(sec, mi) := fix_carry secs 0 60 in
  let '(mi, ho) := fix_carry mi 0 60 in
  let '(ho, da) := fix_carry ho 0 24 in
  da * DAY + ho * 3600 + mi * 60 + sec = secs.
Proof.
  pose proof (fix_carry_total secs 0 60 ltac:(lia)) as H1.
  destruct (fix_carry secs 0 60) as [sec mi]. cbn [fst snd] in H1.
  pose proof (fix_carry_total mi 0 60 ltac:(lia)) as H2.
  destruct (fix_carry mi 0 60) as [mi' ho]. cbn [fst snd] in H2.
  pose proof (fix_carry_total ho 0 24 ltac:(lia)) as H3.
  destruct (fix_carry ho 0 24) as [ho' da]. cbn [fst snd] in H3.
  unfold DAY. lia.
Qed.

(* relativedelta's yearday table: day n (1-based) of a non-leap year is (month, day) *)
Lemma yday_lookup_spec n : 1 <= n <= 365 ->
  exists m d, yday_lookup ydayidx 0 0 n = Some (m, d) /\ 1 <= m <= 12 /\
              1 <= d <= nl_dim m /\ nl_dbm m + d = n /\ (2 < m <-> 59 < n).
Proof.
  intros Hn. unfold ydayidx. cbn [yday_lookup].
  cbn [Z.add Pos.add Pos.succ Pos.add_carry Z.eqb Pos.eqb].
  repeat match goal with
  | |- context [if ?n <=? ?k then _ else _] =>
      destruct (Z.leb_spec n k);
      [ eexists _, _; split; [reflexivity|];
        repeat match goal with
        | |- context [nl_dbm ?k] => let v := eval vm_compute in (nl_dbm k) in change (nl_dbm k) with v
        | |- context [nl_dim ?k] => let v := eval vm_compute in (nl_dim k) in change (nl_dim k) with v
        end; lia |]
  end.
  exfalso; lia.
Qed.

Lemma dbm_nl y m : 1 <= m <= 12 ->
  dbm y m = nl_dbm m + (if (2 <? m) && is_leap y then 1 else 0).
Proof.
  intros Hm. unfold dbm, nl_dbm. destruct (Z.leb_spec m 2); destruct (Z.ltb_spec 2 m); try lia;
  cbn [andb]; destruct (is_leap y); lia.
Qed.

Lemma dim_nl y m : 1 <= m <= 12 -> nl_dim m <= dim y m <= nl_dim m + 1.
Proof.
  intros Hm. unfold dim, nl_dim. destruct (m =? 2); [destruct (is_leap y); lia|].
  destruct ((m =? 4) || (m =? 6) || (m =? 9) || (m =? 11)); lia.
Qed.

Definition ast_rule (p : prule) : tzattr :=
  match p.(pr_date) with
  | DJ n => mkAttr None None None None (Some n) None (Some p.(pr_time))
  | DN n => mkAttr None None None (Some (n + 1)) None None (Some p.(pr_time))
  | DM m w d => mkAttr (Some m) (Some (if w =? 5 then -1 else w)) (Some ((d - 1) mod 7))
                       None None None (Some p.(pr_time))
  end.

(* what a rule needs for the model to place it on the POSIX date:
   D8 for M rules; the zero-based form up to day 364 (n = 365 is clipped wrongly in leap years) *)
Definition rule_ok (d : drule) (secs : Z) : bool :=
  match d with
  | DM _ _ _ => (0 <=? secs) && (secs <? DAY)
  | DN n => n <=? 364
  | DJ _ => true
  end.

Lemma cong7 x y : x mod 7 = y mod 7 -> -7 < x - y < 7 -> x = y.
Proof. lia. Qed.
Lemma last_wd_mod L wd : 0 <= wd <= 6 -> (L - ((L + 6) mod 7 - (wd - 1) mod 7) mod 7) mod 7 = wd.
Proof. intros. lia. Qed.
Lemma first_wd_mod first wd : 0 <= wd <= 6 -> (first + (wd - first mod 7) mod 7) mod 7 = wd.
Proof. intros. lia. Qed.

Lemma secs_div_day o t : 0 <= t < DAY -> (o * DAY + t) / DAY = o.
Proof. unfold DAY. lia. Qed.

Lemma delta_ok off doff d t (isend : bool) :
  wf_date d = true ->
  let secs := if isend then t - (doff - off) else t in
  rule_ok d secs = true ->
  exists rd, tzstr_delta off doff (ast_rule (mkPrule d t)) isend = Ok rd /\ rd_bool rd = true /\
             forall y, rd_add_jan1 rd y = Ok (date_of d y * DAY + secs).
Proof.
  intros Hwf secs Hok.
  destruct d as [n | n | m w wd]; cbn [wf_date rule_ok] in Hwf, Hok.
  - (* Jn : nlyearday *)
    destruct (yday_lookup_spec n ltac:(lia)) as (mo & da & Hl & Hm & Hd & Hs & Hgt).
    unfold tzstr_delta, ast_rule. cbn [pr_date pr_time x_month x_yday x_jyday x_time x_weekday x_week x_day some_or].
    fold secs. unfold rd_mk.
    cbn [a_nlyearday a_yearday a_month a_day a_seconds a_minutes a_hours a_days a_weekday truthy_oz].
    replace (negb (n =? 0)) with true by lia.
    replace (n =? 0) with false by lia. rewrite Hl. cbn [rbind].
    pose proof (fix_cascade secs) as Hc.
    destruct (fix_carry secs 0 60) as [sec mi]. destruct (fix_carry mi 0 60) as [mi' ho].
    destruct (fix_carry ho 0 24) as [ho' dd].
    eexists. split; [reflexivity|]. split.
    + unfold rd_bool. cbn. rewrite !andb_false_r. reflexivity.
    + intros y. unfold rd_add_jan1, rd_duration.
      cbn [rd_month rd_day rd_leapdays rd_days rd_hours rd_minutes rd_seconds rd_weekday py_or wd_jump].
      replace (mo =? 0) with false by lia. replace (da =? 0) with false by lia.
      replace ((1 <=? mo) && (mo <=? 12)) with true by lia. cbn [negb].
      pose proof (dim_nl y mo Hm). rewrite Z.min_r by lia.
      replace (da <? 1) with false by lia.
      cbn [Z.eqb negb andb]. f_equal. unfold secs_of_ymd, ord_of_ymd, date_of, jan1.
      rewrite (dbm_nl y mo Hm).
      destruct (Z.ltb_spec 2 mo); destruct (Z.leb_spec 60 n); try lia;
        cbn [andb]; destruct (is_leap y); cbn [andb]; unfold DAY in *; lia.
  - (* n : yearday = n + 1 *)
    destruct (yday_lookup_spec (n + 1) ltac:(lia)) as (mo & da & Hl & Hm & Hd & Hs & Hgt).
    unfold tzstr_delta, ast_rule. cbn [pr_date pr_time x_month x_yday x_jyday x_time x_weekday x_week x_day some_or].
    fold secs. unfold rd_mk.
    cbn [a_nlyearday a_yearday a_month a_day a_seconds a_minutes a_hours a_days a_weekday truthy_oz].
    replace (negb (n + 1 =? 0)) with true by lia.
    replace (n + 1 =? 0) with false by lia. rewrite Hl. cbn [rbind].
    pose proof (fix_cascade secs) as Hc.
    destruct (fix_carry secs 0 60) as [sec mi]. destruct (fix_carry mi 0 60) as [mi' ho].
    destruct (fix_carry ho 0 24) as [ho' dd].
    eexists. split; [reflexivity|]. split.
    + unfold rd_bool. cbn. rewrite !andb_false_r. reflexivity.
    + intros y. unfold rd_add_jan1, rd_duration.
      cbn [rd_month rd_day rd_leapdays rd_days rd_hours rd_minutes rd_seconds rd_weekday py_or wd_jump].
      replace (mo =? 0) with false by lia. replace (da =? 0) with false by lia.
      replace ((1 <=? mo) && (mo <=? 12)) with true by lia. cbn [negb].
      pose proof (dim_nl y mo Hm). rewrite Z.min_r by lia.
      replace (da <? 1) with false by lia.
      f_equal. unfold secs_of_ymd, ord_of_ymd, date_of, jan1.
      rewrite (dbm_nl y mo Hm).
      replace (n + 1 <? 366) with true by lia. rewrite andb_true_r.
      destruct (Z.ltb_spec 59 (n + 1)); destruct (Z.ltb_spec 2 mo); try lia;
        cbn [andb negb Z.eqb]; destruct (is_leap y); cbn [andb]; unfold DAY in *; lia.
  - (* Mm.w.d *)
    assert (Hs : 0 <= secs < DAY) by lia.
    unfold tzstr_delta, ast_rule.
    cbn [pr_date pr_time x_month x_yday x_jyday x_time x_weekday x_week x_day some_or].
    fold secs. unfold rd_mk.
    cbn [a_nlyearday a_yearday a_month a_day a_seconds a_minutes a_hours a_days a_weekday truthy_oz].
    cbn [Z.eqb rbind].
    pose proof (fix_cascade secs) as Hc.
    destruct (fix_carry secs 0 60) as [sec mi]. destruct (fix_carry mi 0 60) as [mi' ho].
    destruct (fix_carry ho 0 24) as [ho' dd].
    eexists. split; [reflexivity|]. split.
    + unfold rd_bool. cbn. rewrite !andb_false_r. reflexivity.
    + intros y. unfold rd_add_jan1, rd_duration.
      cbn [rd_month rd_day rd_leapdays rd_days rd_hours rd_minutes rd_seconds rd_weekday py_or].
      replace (m =? 0) with false by lia.
      replace ((1 <=? m) && (m <=? 12)) with true by lia. cbn [negb Z.eqb andb].
      pose proof (dim_pos y m) as Hdim.
      destruct (Z.eqb_spec w 5) as [-> | Hw5].
      * (* last weekday of the month *)
        cbn [Z.ltb Z.compare Z.eqb]. rewrite Z.min_l by lia.
        replace (dim y m <? 1) with false by lia.
        f_equal. unfold wd_jump. cbn [Z.eqb Z.abs Z.ltb Z.compare].
        replace (secs_of_ymd y m (dim y m) + 0 * DAY + (dd * DAY + ho' * 3600 + mi' * 60 + sec))
          with (ord_of_ymd y m (dim y m) * DAY + secs) by (unfold secs_of_ymd; lia).
        unfold weekday_of_secs. rewrite (secs_div_day _ _ Hs).
        unfold date_of, weekday_of_ord, wd_sun, ord_of_ymd. change (5 <? 5) with false. cbv iota.
        set (first := days_before_year y + dbm y m + 1).
        replace (days_before_year y + dbm y m + dim y m) with (first + dim y m - 1) by lia.
        clearbody first secs. clear Hc.
        assert (Hwd : 0 <= wd <= 6) by lia.
        pose proof (last_wd_mod (first + dim y m - 1) wd Hwd) as M1.
        pose proof (first_wd_mod first wd Hwd) as M2.
        set (x := first + dim y m - 1 - ((first + dim y m - 1 + 6) mod 7 - (wd - 1) mod 7) mod 7) in *.
        set (fd := first + (wd - first mod 7) mod 7) in *.
        assert (Hx : first + dim y m - 1 - 7 < x <= first + dim y m - 1) by (subst x; lia).
        assert (Hfd : first <= fd <= first + 6) by (subst fd; lia).
        replace ((first + dim y m - 1) * DAY + secs +
                 ((1 - 1) * 7 + ((first + dim y m - 1 + 6) mod 7 - (wd - 1) mod 7) mod 7) * -1 * DAY)
          with (x * DAY + secs) by (subst x; unfold DAY; lia).
        clearbody x fd.
        destruct (Z.ltb_spec (fd + 28) (first + dim y m)); f_equal; f_equal; apply cong7; lia.
      * replace (0 <? w) with true by lia.
        change (if 1 =? 0 then 1 else 1) with 1.
        rewrite Z.min_r by lia. change (1 <? 1) with false. cbv iota.
        f_equal. unfold wd_jump. replace (w =? 0) with false by lia. replace (0 <? w) with true by lia.
        replace (secs_of_ymd y m 1 + 0 * DAY + (dd * DAY + ho' * 3600 + mi' * 60 + sec))
          with (ord_of_ymd y m 1 * DAY + secs) by (unfold secs_of_ymd; lia).
        unfold weekday_of_secs. rewrite (secs_div_day _ _ Hs).
        unfold date_of, weekday_of_ord, wd_sun.
        replace (w <? 5) with true by lia.
        set (first := ord_of_ymd y m 1). clearbody first secs. clear Hc. unfold DAY in *. lia.
Qed.

(* day-of-year range of a rule date, for every year *)
Lemma date_of_bounds d y : wf_date d = true ->
  jan1 y + yday_lo d <= date_of d y <= jan1 y + yday_hi d.
Proof.
  intros Hwf. destruct d as [n | n | m w wd]; cbn [wf_date date_of yday_lo yday_hi] in *.
  - destruct (is_leap y); destruct (Z.leb_spec 60 n); cbn [andb]; lia.
  - lia.
  - assert (Hm : 1 <= m <= 12) by lia.
    unfold ord_of_ymd, jan1, wd_sun. rewrite (dbm_nl y m Hm).
    pose proof (dim_nl y m Hm) as Hd. pose proof (dim_pos y m) as Hp.
    set (lp := if (2 <? m) && is_leap y then 1 else 0).
    assert (Hlp : 0 <= lp <= 1) by (subst lp; destruct ((2 <? m) && is_leap y); lia).
    assert (Hlast : nl_dbm m + lp + dim y m <= nl_dbm m + nl_dim m + 1).
    { subst lp. unfold dim, nl_dim. destruct (Z.eqb_spec m 2).
      - subst m. cbn [Z.ltb Z.compare Pos.compare Pos.compare_cont andb]. destruct (is_leap y); lia.
      - destruct ((m =? 4) || (m =? 6) || (m =? 9) || (m =? 11)); destruct ((2 <? m) && is_leap y); lia. }
    clearbody lp.
    set (first := days_before_year y + (nl_dbm m + lp) + 1) in *.
    set (fd := first + (wd - first mod 7) mod 7).
    assert (Hfd : first <= fd <= first + 6) by (subst fd; lia). clearbody fd.
    destruct (Z.ltb_spec w 5).
    + lia.
    + destruct (Z.ltb_spec (fd + 28) (first + dim y m)); lia.
Qed.
