(* THEOREMS about the tzical._parse_rfc / get model: malformed definitions are ValueError,
   zones are addressable by TZID. *)
From Coq Require Import String Ascii.
From Coq Require Import ZArith List Bool Lia.
From V Require Import posix.RDelta posix.TzParseModel posix.IcalModel.
Import ListNotations.
Open Scope Z_scope.

Lemma list_eqb_refl a : list_eqb a a = true.
Proof. induction a as [|x a IH]; cbn; [reflexivity|]. rewrite Z.eqb_refl. exact IH. Qed.

Lemma list_eqb_eq a : forall b, list_eqb a b = true -> a = b.
Proof.
  induction a as [|x a IH]; destruct b as [|y b]; cbn; intros H; try discriminate; [reflexivity|].
  apply andb_prop in H. destruct H as [H1 H2]. apply Z.eqb_eq in H1. subst y.
  f_equal. apply IH. exact H2.
Qed.

Lemma list_eqb_neq a b : a <> b -> list_eqb a b = false.
Proof.
  intros N. destruct (list_eqb a b) eqn:E; [|reflexivity].
  exfalso. apply N. apply list_eqb_eq. exact E.
Qed.

(* an error at any line makes the whole parse a ValueError *)
Lemma run_lines_err st l1 l l2 e :
  (forall st', run_lines st l1 = Ok st' -> step st' l = Err e) ->
  (exists st', run_lines st l1 = Ok st') ->
  run_lines st (l1 ++ l :: l2) = Err e.
Proof.
  revert st. induction l1 as [|x l1 IH]; intros st H [st' E].
  - cbn in *. rewrite (H st eq_refl). reflexivity.
  - cbn [app run_lines] in *. destruct (step st x) as [s1|e1]; cbn [rbind] in *; [|discriminate].
    apply IH; [exact H|]. exists st'. exact E.
Qed.

(* empty stream *)
Lemma parse_rfc_empty : parse_rfc [] = Err EValue.
Proof. reflexivity. Qed.

(* END:VTIMEZONE without a TZID *)
Lemma end_vtimezone_without_tzid st :
  st.(ps_invtz) = true -> truthy_ostr st.(ps_comptype) = false ->
  truthy_ostr st.(ps_tzid) = false ->
  step st (zs "END:VTIMEZONE") = Err EValue.
Proof.
  intros H1 H2 H3. unfold step.
  change (split_first 58 (zs "END:VTIMEZONE") []) with (Some (zs "END", zs "VTIMEZONE")).
  cbv beta iota. rewrite H1.
  change (seq_eq (upper (hd [] (split_all 59 (zs "END") []))) "BEGIN") with false.
  change (seq_eq (upper (hd [] (split_all 59 (zs "END") []))) "END") with true.
  change (seq_eq (zs "VTIMEZONE") "VTIMEZONE") with true. cbv beta iota.
  rewrite H2, H3. reflexivity.
Qed.

(* END:VTIMEZONE without any component *)
Lemma end_vtimezone_without_component st :
  st.(ps_invtz) = true -> truthy_ostr st.(ps_comptype) = false -> st.(ps_comps) = [] ->
  step st (zs "END:VTIMEZONE") = Err EValue.
Proof.
  intros H1 H2 H3. unfold step.
  change (split_first 58 (zs "END:VTIMEZONE") []) with (Some (zs "END", zs "VTIMEZONE")).
  cbv beta iota. rewrite H1.
  change (seq_eq (upper (hd [] (split_all 59 (zs "END") []))) "BEGIN") with false.
  change (seq_eq (upper (hd [] (split_all 59 (zs "END") []))) "END") with true.
  change (seq_eq (zs "VTIMEZONE") "VTIMEZONE") with true. cbv beta iota.
  rewrite H2, H3. destruct (truthy_ostr (ps_tzid st)); reflexivity.
Qed.

(* closing a STANDARD / DAYLIGHT component that has no DTSTART or lacks an offset *)
Lemma end_component_incomplete st (daylight : bool) :
  let ct := if daylight then zs "DAYLIGHT" else zs "STANDARD" in
  st.(ps_invtz) = true -> st.(ps_comptype) = Some ct ->
  st.(ps_founddtstart) = false \/ st.(ps_from) = None \/ st.(ps_to) = None ->
  step st (zs "END:" ++ ct) = Err EValue.
Proof.
  intros ct H1 H2 H3. unfold step. subst ct.
  destruct daylight.
  - change (split_first 58 (zs "END:" ++ zs "DAYLIGHT") []) with (Some (zs "END", zs "DAYLIGHT")).
    cbv beta iota. rewrite H1.
    change (seq_eq (upper (hd [] (split_all 59 (zs "END") []))) "BEGIN") with false.
    change (seq_eq (upper (hd [] (split_all 59 (zs "END") []))) "END") with true.
    change (seq_eq (zs "DAYLIGHT") "VTIMEZONE") with false. cbv beta iota.
    rewrite H2. change (ostr_eq (Some (zs "DAYLIGHT")) (zs "DAYLIGHT")) with true. cbv beta iota.
    destruct H3 as [-> | [-> | ->]]; cbn [negb]; try reflexivity;
      destruct (ps_founddtstart st); cbn [negb]; try reflexivity;
      destruct (ps_from st); reflexivity.
  - change (split_first 58 (zs "END:" ++ zs "STANDARD") []) with (Some (zs "END", zs "STANDARD")).
    cbv beta iota. rewrite H1.
    change (seq_eq (upper (hd [] (split_all 59 (zs "END") []))) "BEGIN") with false.
    change (seq_eq (upper (hd [] (split_all 59 (zs "END") []))) "END") with true.
    change (seq_eq (zs "STANDARD") "VTIMEZONE") with false. cbv beta iota.
    rewrite H2. change (ostr_eq (Some (zs "STANDARD")) (zs "STANDARD")) with true. cbv beta iota.
    destruct H3 as [-> | [-> | ->]]; cbn [negb]; try reflexivity;
      destruct (ps_founddtstart st); cbn [negb]; try reflexivity;
      destruct (ps_from st); reflexivity.
Qed.

(* an unknown component inside a VTIMEZONE *)
Lemma begin_unknown_component st v :
  st.(ps_invtz) = true -> v <> zs "STANDARD" -> v <> zs "DAYLIGHT" ->
  step st (zs "BEGIN:" ++ v) = Err EValue.
Proof.
  intros H1 N1 N2. unfold step.
  change (zs "BEGIN:" ++ v) with (66 :: 69 :: 71 :: 73 :: 78 :: 58 :: v).
  change (split_first 58 (66 :: 69 :: 71 :: 73 :: 78 :: 58 :: v) []) with (Some (zs "BEGIN", v)).
  cbv beta iota. rewrite H1.
  change (seq_eq (upper (hd [] (split_all 59 (zs "BEGIN") []))) "BEGIN") with true. cbv beta iota.
  unfold seq_eq. rewrite (list_eqb_neq v (zs "STANDARD") N1), (list_eqb_neq v (zs "DAYLIGHT") N2).
  reflexivity.
Qed.

(* zones are addressable by TZID; a single zone is returned without naming it; none or several
   zones without a TZID are a ValueError *)
Lemma get_after_set d k v : ical_get (dict_set d k v) (Some k) = Ok (Some v).
Proof.
  unfold ical_get. induction d as [|[k' v'] t IH]; cbn [dict_set].
  - rewrite list_eqb_refl. reflexivity.
  - destruct (list_eqb k k') eqn:E.
    + rewrite list_eqb_refl. reflexivity.
    + rewrite E. exact IH.
Qed.

Lemma get_other_after_set d k v k' : k' <> k ->
  ical_get (dict_set d k v) (Some k') = ical_get d (Some k').
Proof.
  intros N. unfold ical_get. induction d as [|[k0 v0] t IH]; cbn [dict_set].
  - rewrite (list_eqb_neq k' k N). reflexivity.
  - destruct (list_eqb k k0) eqn:E.
    + apply list_eqb_eq in E. subst k0. rewrite (list_eqb_neq k' k N). reflexivity.
    + destruct (list_eqb k' k0); [reflexivity|]. exact IH.
Qed.

Lemma get_single k v : ical_get [(k, v)] None = Ok (Some v).
Proof. reflexivity. Qed.

Lemma get_none_or_several vtz : length vtz <> 1%nat -> ical_get vtz None = Err EValue.
Proof. destruct vtz as [|[k v] [|p t]]; cbn; intros H; try reflexivity. lia. Qed.

Lemma multi_tzid_addressing_lemma d k v :
  ical_get (dict_set d k v) (Some k) = Ok (Some v) /\
  (forall k', k' <> k -> ical_get (dict_set d k v) (Some k') = ical_get d (Some k')) /\
  ical_get [(k, v)] None = Ok (Some v) /\
  (forall vtz, length vtz <> 1%nat -> ical_get vtz None = Err EValue).
Proof.
  split; [apply get_after_set|]. split; [intros k'; apply get_other_after_set|].
  split; [apply get_single|apply get_none_or_several].
Qed.
