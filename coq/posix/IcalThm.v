(* THEOREMS about the VTIMEZONE model. *)
From Coq Require Import ZArith List Bool Lia ZifyBool.
From V Require Import base.Cal posix.PTime posix.RDelta posix.TzParseModel posix.IcalModel.
Import ListNotations.
Open Scope Z_scope.

(* ------------------------------------------------------------------------------------ *)
(* the 10-entry lookup cache never changes an answer                                     *)

Definition cache_ok (cs : list comp) (st : cache) : Prop :=
  forall w f c, cache_lookup st w f = Some c -> find_comp_nocache cs w f = Some c.

Lemma cache_ok_nil cs : cache_ok cs [].
Proof. intros w f c H. discriminate. Qed.

Lemma cache_lookup_removelast st w f c :
  cache_lookup (removelast st) w f = Some c -> cache_lookup st w f = Some c.
Proof.
  induction st as [|[[k g] d] t IH]; [intros H; exact H|].
  destruct t as [|e t'].
  - cbn. intros H. discriminate.
  - change (removelast ((k, g, d) :: e :: t')) with ((k, g, d) :: removelast (e :: t')).
    cbn [cache_lookup]. destruct ((k =? w) && Bool.eqb g f); [auto|]. exact IH.
Qed.

Lemma cache_ok_insert cs st w f c :
  cache_ok cs st -> find_comp_nocache cs w f = Some c -> cache_ok cs (cache_insert st w f c).
Proof.
  intros Hok Hc. unfold cache_insert.
  assert (Hcons : cache_ok cs ((w, f, c) :: st)).
  { intros w' f' c' H. cbn [cache_lookup] in H.
    destruct ((w =? w') && Bool.eqb f f') eqn:E.
    - apply andb_prop in E. destruct E as [E1 E2].
      apply Z.eqb_eq in E1. apply Bool.eqb_prop in E2. subst. congruence.
    - auto. }
  destruct (10 <? length ((w, f, c) :: st))%nat; [|exact Hcons].
  intros w' f' c' H. apply cache_lookup_removelast in H. auto.
Qed.

(* one lookup through the cache = the stateless lookup, and the invariant is kept *)
Lemma find_comp_cache_transparent cs st w f :
  cache_ok cs st ->
  fst (find_comp cs st w f) = find_comp_pure cs w f /\ cache_ok cs (snd (find_comp cs st w f)).
Proof.
  intros Hok. unfold find_comp, find_comp_pure.
  destruct cs as [|c0 [|c1 cs']].
  - cbn. destruct (cache_lookup st w f) eqn:E; cbn; [|auto].
    split; [|exact Hok]. apply Hok in E. cbn in E. congruence.
  - cbn. auto.
  - destruct (cache_lookup st w f) eqn:E.
    + cbn. split; [|exact Hok]. symmetry. apply Hok. exact E.
    + destruct (find_comp_nocache (c0 :: c1 :: cs') w f) eqn:F; cbn; [|auto].
      split; [reflexivity|]. apply cache_ok_insert; assumption.
Qed.

(* any sequence of utcoffset() calls through the cache, from any consistent cache state, returns
   the stateless answers *)
Lemma run_queries_transparent cs qs : forall st,
  cache_ok cs st ->
  run_queries cs st qs = map (fun '(w, f) => ic_utcoffset cs w f) qs.
Proof.
  induction qs as [|[w f] t IH]; intros st Hok; [reflexivity|].
  cbn [run_queries map]. unfold ical_utcoffset.
  pose proof (find_comp_cache_transparent cs st w f Hok) as [H1 H2].
  destruct (find_comp cs st w f) as [i st'] eqn:E. cbn [fst snd] in *.
  f_equal.
  - unfold ic_utcoffset, comp_at. rewrite H1. reflexivity.
  - apply IH. exact H2.
Qed.

Lemma cache_never_changes_an_answer cs qs :
  run_queries cs [] qs = map (fun '(w, f) => ic_utcoffset cs w f) qs.
Proof. apply run_queries_transparent. apply cache_ok_nil. Qed.

Lemma removelast_len {A} (l : list A) : length (removelast l) = pred (length l).
Proof.
  induction l as [|a [|b t] IH]; [reflexivity|reflexivity|].
  change (removelast (a :: b :: t)) with (a :: removelast (b :: t)).
  cbn [length] in *. rewrite IH. reflexivity.
Qed.

(* the cache never holds more than ten entries *)
Lemma cache_insert_length st w f c :
  (length st <= 10)%nat -> (length (cache_insert st w f c) <= 10)%nat.
Proof.
  intros H. unfold cache_insert.
  destruct (Nat.ltb_spec 10 (length ((w, f, c) :: st))) as [L | L].
  - pose proof (removelast_len ((w, f, c) :: st)) as R. rewrite R. cbn [length] in *. lia.
  - exact L.
Qed.
