(* The fold flag fromutc() attaches to the wall reading of an instant u is exactly PEP 495's:
   fold = 1 iff u is the LATER of two instants showing the same wall reading, i.e. standard time
   is in force at u and daylight time was in force one saving earlier. *)
From Coq Require Import ZArith List Bool Lia ZifyBool.
From V Require Import base.Cal posix.PTime posix.RDelta posix.TzParseModel posix.TzRangeModel
     posix.PosixSpec posix.TransThm posix.MainThm posix.PosixThm posix.WallThm.
Import ListNotations.
Ltac Zify.zify_post_hook ::= Z.to_euclidean_division_equations.
Open Scope Z_scope.

Section Fold.
  Variable r : posix.
  Variable ds : dstpart.
  Hypothesis Hdst : r.(p_dst) = Some ds.
  Hypothesis Hwf : wf_posix r = true.
  Hypothesis Hap : guard_apart r = true.

  Local Notation off := (p_off r).
  Local Notation doff := (d_off ds).
  Local Notation sv := (d_off ds - p_off r).

  (* inside the standard period, the ambiguity window of tzrangebase is "daylight one saving ago" *)
  Lemma AMB_is_fold u y : ystart y <= u < ystart (y + 1) ->
    D r ds y u = false -> AMB r ds y (u + off) = D r ds y (u - sv).
  Proof.
    intros Hy Hd.
    pose proof (a_bound r ds Hdst Hwf) as (Ha & Ha1 & Ha2).
    pose proof (sv_range r ds Hdst Hap) as Hsv.
    pose proof (RS_bounds r ds Hdst Hwf Hap y) as [B1 B2].
    pose proof (RE_bounds r ds Hdst Hwf Hap y) as [B3 B4].
    unfold D, AMB, naive_isdst in *.
    destruct (order r ds Hdst Hwf Hap) as [N | S].
    - pose proof (N y).
      replace (RS ds y - off <? RE ds y - doff) with true in * by (unfold DAY in *; lia).
      destruct (Z.leb_spec (RS ds y - off) u); destruct (Z.ltb_spec u (RE ds y - doff));
        cbn [andb] in Hd; try discriminate;
        destruct (Z.ltb_spec (u + off) (RE ds y)); unfold DAY in *; try (exfalso; lia);
        leb_lia; reflexivity.
    - pose proof (S y).
      replace (RS ds y - off <? RE ds y - doff) with false in * by (unfold DAY in *; lia).
      destruct (Z.leb_spec (RE ds y - doff) u); destruct (Z.ltb_spec u (RS ds y - off));
        cbn [andb negb] in Hd; try discriminate;
        destruct (Z.ltb_spec (u + off) (RE ds y)); unfold DAY in *; try (exfalso; lia);
        leb_lia; reflexivity.
  Qed.

  (* MAIN with the fold pinned *)
  Theorem observe_utc_posix_fold z u : zone_for r ds z ->
    observe_utc z u =
      Ok (let '(o, d, n) := posix_observe r u in mkObs (u + o) (posix_fold r u) o d (Some n)).
  Proof.
    intros Hz.
    destruct (observe_utc_posix r ds Hdst Hwf Hap z u Hz) as (f & E).
    rewrite E. f_equal.
    (* the fold of the result is the one fromutc computed *)
    pose proof (year_of_secs_spec u) as Hy. set (y := year_of_secs u) in *.
    pose proof (spec_isdst_year r ds Hdst Hwf Hap u y Hy) as HP.
    pose proof (a_bound r ds Hdst Hwf) as (Ha & Ha1 & Ha2).
    pose proof (sv_range r ds Hdst Hap) as Hsv.
    pose proof (offs_lt_day r ds Hdst Hwf) as [Ho1 Ho2].
    assert (Hf : f = posix_fold r u).
    { unfold observe_utc, fromutc in E.
      pose proof Hz as (Hsa & Hda & Hso & Hdo & Hh & Ht).
      rewrite Ht in E. fold y in E. cbn [rbind] in E. rewrite Hso, Hdo in E.
      replace (RE ds y - sv - off) with (RE ds y - doff) in E by lia.
      unfold posix_fold. rewrite Hdst, HP.
      destruct (naive_isdst u (RS ds y - off) (RE ds y - doff)) eqn:Dv; cbn [negb andb] in E |- *.
      - (* daylight: fold false *)
        cbn [rbind] in E.
        destruct (utcoffset z (u + doff) false) as [a0|]; cbn [rbind] in E; [|discriminate].
        destruct (dst z (u + doff) false) as [a1|]; cbn [rbind] in E; [|discriminate].
        destruct (tzname z (u + doff) false) as [a2|]; cbn [rbind] in E; [|discriminate].
        unfold posix_observe in E. rewrite Hdst, HP in E. inversion E. reflexivity.
      - rewrite (is_ambiguous_model r ds z (u + off) Hz) in E. cbn [rbind] in E.
        pose proof (year_of_secs_spec (u + off)) as Hy'.
        destruct (transport r ds Hdst Hwf Hap (u + off) y (year_of_secs (u + off)) false Hy'
                    ltac:(unfold DAY in *; lia)) as [TA _].
        rewrite TA in E.
        destruct (utcoffset z (u + off) (AMB r ds y (u + off))) as [a0|]; cbn [rbind] in E; [|discriminate].
        destruct (dst z (u + off) (AMB r ds y (u + off))) as [a1|]; cbn [rbind] in E; [|discriminate].
        destruct (tzname z (u + off) (AMB r ds y (u + off))) as [a2|]; cbn [rbind] in E; [|discriminate].
        unfold posix_observe in E. rewrite Hdst, HP in E.
        assert (Ef : AMB r ds y (u + off) = f) by (inversion E; reflexivity).
        rewrite <- Ef. rewrite (AMB_is_fold u y Hy Dv).
        symmetry. apply (spec_near r ds Hdst Hwf Hap (u - sv) y). unfold DAY in *. lia. }
    rewrite Hf. reflexivity.
  Qed.
End Fold.

Lemma tzstr_posix_fold_lemma r po u :
  guard r = true -> (po = true \/ not_gmt_utc r.(p_name) = true) ->
  exists z, tzstr_of_res (Ok (Some (ast_of_posix r))) po = Ok z /\
    observe_utc z u =
      Ok (let '(o, d, n) := posix_observe r u in mkObs (u + o) (posix_fold r u) o d (Some n)).
Proof.
  intros G Hpo.
  destruct (tzstr_posix_lemma r po u G Hpo) as (z & f & Ez & Eo).
  exists z. split; [exact Ez|].
  unfold guard in G. apply andb_prop in G. destruct G as [G Hd8].
  apply andb_prop in G. destruct G as [Hwf Hap].
  destruct (p_dst r) as [ds|] eqn:Hdst.
  - destruct (tzstr_zone_for r ds Hdst Hwf Hap Hd8 po Hpo) as (z' & Ez' & Hz).
    unfold ast_of_posix in Ez. rewrite Hdst in Ez. rewrite Ez in Ez'. inversion Ez'; subst z'.
    apply (observe_utc_posix_fold r ds Hdst Hwf Hap z u Hz).
  - (* fixed offset: fromutc never sets the fold *)
    unfold posix_fold. rewrite Hdst.
    unfold ast_of_posix in Ez. rewrite Hdst in Ez.
    assert (Hh : z.(z_hasdst) = false).
    { unfold tzstr_of_res in Ez. cbn [r_unused r_stdabbr r_stdoffset r_dstabbr r_dstoffset] in Ez.
      destruct (abbr_is_gmt_utc (Some (p_name r)) && negb po); cbn in Ez; inversion Ez; reflexivity. }
    rewrite (no_dst_fixed_lemma z u Hh) in Eo |- *.
    unfold posix_observe in *. rewrite Hdst in *. inversion Eo. reflexivity.
Qed.
