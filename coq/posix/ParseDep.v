(* The deprecated dateutil-specific comma format 'EST+5:00EDT+4:00,3,2,0,7200,11,1,0,7200'
   (month, week (-1 = last), weekday, seconds) of a rule with two M dates is parsed into the same
   AST as the canonical POSIX string -- hence builds the same zone. *)
From Coq Require Import ZArith List Bool Lia ZifyBool.
From V Require Import base.Cal posix.PTime posix.RDelta posix.TzParseModel posix.TzRangeModel
     posix.PosixSpec posix.TransThm posix.MainThm posix.PosixThm posix.ParseThm posix.ParseFull
     posix.RejectThm posix.RejectFull.
Import ListNotations.
Ltac Zify.zify_post_hook ::= Z.to_euclidean_division_equations.
Open Scope Z_scope.

(* month , week , weekday , seconds *)
Definition dep_toks (m w d t : Z) : list (list Z) :=
  [dec m; [44]] ++ (if w =? 5 then [[45]; dec 1] else [dec w]) ++ [[44]; dec d; [44]; dec t].

Definition dep_all_toks (r : posix) (ds : dstpart) (m1 w1 d1 m2 w2 d2 : Z) : list (list Z) :=
  pre_toks r ds ++ [[44]] ++ dep_toks m1 w1 d1 ds.(d_start).(pr_time) ++ [[44]] ++
  dep_toks m2 w2 d2 ds.(d_end).(pr_time).

Definition dep_text (m w d t : Z) : list Z :=
  dec m ++ [44] ++ (if w =? 5 then [45] ++ dec 1 else dec w) ++ [44] ++ dec d ++ [44] ++ dec t.

Definition render_dep (r : posix) (ds : dstpart) (m1 w1 d1 m2 w2 d2 : Z) : list Z :=
  head_of r ds ++ [44] ++ dep_text m1 w1 d1 ds.(d_start).(pr_time) ++ [44] ++
  dep_text m2 w2 d2 ds.(d_end).(pr_time).

Lemma dep_concat r ds m1 w1 d1 m2 w2 d2 :
  render_dep r ds m1 w1 d1 m2 w2 d2 = concat (dep_all_toks r ds m1 w1 d1 m2 w2 d2).
Proof.
  unfold render_dep, dep_all_toks, dep_text, dep_toks, pre_toks, head_of, render_off, off_toks,
         render_hm, hm_toks.
  destruct (- p_off r <? 0); destruct (- d_off ds <? 0); destruct (w1 =? 5); destruct (w2 =? 5);
    cbn [concat app]; norm_app; reflexivity.
Qed.

Lemma dep_good r ds m1 w1 d1 m2 w2 d2 : wf_name r.(p_name) = true -> wf_name ds.(d_name) = true ->
  good (dep_all_toks r ds m1 w1 d1 m2 w2 d2) = true.
Proof.
  intros Hn Hd.
  destruct (name_homog (p_name r) Hn) as [Hn1 Hn2]. destruct (name_homog (d_name ds) Hd) as [Hd1 Hd2].
  unfold dep_all_toks, dep_toks, pre_toks, off_toks, hm_toks.
  destruct (- p_off r <? 0); destruct (- d_off ds <? 0); destruct (w1 =? 5); destruct (w2 =? 5);
    cbn [app]; evg; reflexivity.
Qed.

(* the deprecated rule reader on  m , w , d , t  and on  m , - 1 , d , t *)
Lemma dep_rule_pos l i Mo mo W w Wd wd Tm tm :
  tk l i = Some Mo -> int_tok Mo = Some mo ->
  tk l (i + 2) = Some W -> digtok W -> int_tok W = Some w -> w <> 0 ->
  tk l (i + 2 + 2) = Some Wd -> int_tok Wd = Some wd ->
  tk l (i + 2 + 2 + 2) = Some Tm -> int_tok Tm = Some tm ->
  dep_rule l i =
    Some (mkAttr (Some mo) (Some w) (Some ((wd - 1) mod 7)) None None None (Some tm),
          (i + 2 + 2 + 2 + 2)%nat,
          [i] ++ [] ++ [(i + 2)%nat] ++ [(i + 2 + 2)%nat] ++ [(i + 2 + 2 + 2)%nat]).
Proof.
  intros T0 I0 T1 D1 I1 Hw T2 I2 T3 I3. unfold dep_rule, obind. rewrite T0, I0. cbv zeta.
  rewrite T1, (digtok_neq W C_MINUS D1 eq_refl), I1. rewrite T2, I2.
  replace (w =? 0) with false by lia. rewrite T3, I3. reflexivity.
Qed.

Lemma dep_rule_last l i Mo mo One Wd wd Tm tm :
  tk l i = Some Mo -> int_tok Mo = Some mo ->
  tk l (i + 2) = Some [45] -> tk l (S (i + 2)) = Some One -> int_tok One = Some 1 ->
  tk l (S (i + 2) + 2) = Some Wd -> int_tok Wd = Some wd ->
  tk l (S (i + 2) + 2 + 2) = Some Tm -> int_tok Tm = Some tm ->
  dep_rule l i =
    Some (mkAttr (Some mo) (Some (-1)) (Some ((wd - 1) mod 7)) None None None (Some tm),
          (S (i + 2) + 2 + 2 + 2)%nat,
          [i] ++ [(i + 2)%nat] ++ [S (i + 2)] ++ [(S (i + 2) + 2)%nat] ++ [(S (i + 2) + 2 + 2)%nat]).
Proof.
  intros T0 I0 T1 T1' I1 T2 I2 T3 I3. unfold dep_rule, obind. rewrite T0, I0. cbv zeta.
  rewrite T1. cbn [list_eqb Z.eqb Pos.eqb andb C_MINUS]. rewrite T1', I1.
  cbn [Z.mul Pos.mul Z.eqb]. rewrite T2, I2, T3, I3. reflexivity.
Qed.

(* the parser in the deprecated branch (no trailing daylight delta) *)
Lemma parse_assemble_dep l nm dn v1 v2 U1 U2 st en i1 i2 U3 U4 :
  name_step l 0 = Some (Some (nm, Some v1), 5%nat, U1) ->
  name_step l 5 = Some (Some (dn, Some v2), 10%nat, U2) ->
  (10 <? length l)%nat = true -> semi_to_comma l 10 = l -> tk_is l 10 C_COMMA = true ->
  (length l <=? 11)%nat = false ->
  count_tok l C_COMMA = 8%nat -> dep_filter (skipn 11 l) = true ->
  dep_rule l 11 = Some (st, i1, U3) -> dep_rule l i1 = Some (en, i2, U4) ->
  (i2 <? length l)%nat = false ->
  unused_bad l 0 ((U1 ++ U2) ++ U3 ++ U4) = false ->
  parse_tokens l = Ok (Some (mkRes (Some nm) (Some v1) (Some dn) (Some v2) st en false)).
Proof.
  intros N1 N2 L10 Semi Comma L11 Cnt Df R1 R2 Len Un.
  unfold parse_tokens. rewrite N1.
  assert (L5 : (length l <=? 5)%nat = false).
  { apply Nat.leb_gt. apply Nat.ltb_lt in L10. lia. }
  rewrite L5, N2, L10, Semi. cbn [andb negb]. rewrite Comma. cbn [negb andb].
  rewrite L11, Cnt. cbn [Nat.leb andb]. rewrite Df. rewrite R1, R2, Len, Un. reflexivity.
Qed.

Lemma digtok_dep t : digtok t -> forallb dep_chars t = true.
Proof.
  intros [_ H]. rewrite forallb_forall in *. intros c Hc. specialize (H c Hc).
  unfold dep_chars. rewrite H. reflexivity.
Qed.

Ltac depfacts :=
  repeat match goal with
  | |- context [forallb dep_chars (dec ?n)] => rewrite (digtok_dep (dec n) (dec_digtok n))
  | |- context [all_chars dep_chars (dec ?n)] =>
      change (all_chars dep_chars (dec n)) with (forallb dep_chars (dec n));
      rewrite (digtok_dep (dec n) (dec_digtok n))
  end.

Ltac evd :=
  repeat (
    cbn [semi_to_comma count_eq forallb skipn unused_bad mem_nat list_eqb Z.eqb Pos.eqb
         andb orb negb Nat.eqb Nat.add Nat.leb Nat.ltb length app seq dep_filter
         C_PLUS C_MINUS C_COMMA C_COLON C_DOT C_SLASH C_SEMI C_J C_M
         dep_chars is_digit Z.leb Z.compare Pos.compare Pos.compare_cont];
    tokfacts2; depfacts).

Ltac itok := first [reflexivity | apply int_tok_dec; lia | apply dec_digtok].
Ltac dep_at :=
  first
  [ eapply dep_rule_pos; [reflexivity|apply int_tok_dec; lia|reflexivity|apply dec_digtok
                         |apply int_tok_dec; lia|lia|reflexivity|apply int_tok_dec; lia
                         |reflexivity|apply int_tok_dec; lia]
  | eapply dep_rule_last; [reflexivity|apply int_tok_dec; lia|reflexivity|reflexivity
                          |apply int_tok_dec; lia|reflexivity|apply int_tok_dec; lia
                          |reflexivity|apply int_tok_dec; lia] ].

Ltac dep_case N1 D1 R1 R2 :=
  etransitivity;
  [ eapply parse_assemble_dep;
    [ eapply name_step_off; [reflexivity|exact N1|reflexivity|apply off_sign_cases|reflexivity
                            |apply dtok_h; exact R1|reflexivity|reflexivity|apply dtok_m]
    | eapply name_step_off; [reflexivity|exact D1|reflexivity|apply off_sign_cases|reflexivity
                            |apply dtok_h; exact R2|reflexivity|reflexivity|apply dtok_m]
    | reflexivity
    | evd; reflexivity
    | reflexivity
    | reflexivity
    | rewrite count_tok_eq; evd; reflexivity
    | evd; reflexivity
    | dep_at
    | dep_at
    | reflexivity
    | evd; reflexivity ]
  | idtac ].

Theorem dep_parse nm off dn doff m1 w1 d1 st m2 w2 d2 et :
  let r := mkPosix nm off (Some (mkDst dn doff (mkPrule (DM m1 w1 d1) st) (mkPrule (DM m2 w2 d2) et))) in
  let ds := mkDst dn doff (mkPrule (DM m1 w1 d1) st) (mkPrule (DM m2 w2 d2) et) in
  wf_posix r = true ->
  parse_tokens (dep_all_toks r ds m1 w1 d1 m2 w2 d2) = Ok (Some (ast_of_posix r)).
Proof.
  intros r ds Hwf. subst r ds. unfold wf_posix in Hwf.
  cbn [p_name p_off p_dst d_name d_off d_start d_end pr_date pr_time wf_date] in *; split_andb.
  destruct (wf_name_facts nm ltac:(assumption)) as (N1 & N2 & N3).
  destruct (wf_name_facts dn ltac:(assumption)) as (D1 & D2 & D3).
  unfold wf_off, wf_time in *.
  assert (R1 := off_mag_range off ltac:(lia)). assert (R2 := off_mag_range doff ltac:(lia)).
  assert (V1 := off_value off ltac:(lia)). assert (V2 := off_value doff ltac:(lia)).
  unfold dep_all_toks, dep_toks, pre_toks.
  cbn [p_name p_off p_dst d_name d_off d_start d_end pr_date pr_time].
  rewrite !off_toks_eq. unfold hm_toks.
  destruct (Z.eqb_spec w1 5) as [-> | N5]; destruct (Z.eqb_spec w2 5) as [-> | N5'];
    cbn [app]; dep_case N1 D1 R1 R2;
    unfold ast_of_posix, ast_of, ast_rule;
    cbn [p_dst p_name p_off d_name d_off d_start d_end pr_date pr_time Z.eqb Pos.eqb];
    rewrite V1, V2;
    repeat match goal with |- context [?w =? 5] => replace (w =? 5) with false by lia end;
    reflexivity.
Qed.

(* the deprecated string and the canonical string build the same zone *)
Theorem dep_form_same_zone nm off dn doff m1 w1 d1 st m2 w2 d2 et po :
  let r := mkPosix nm off (Some (mkDst dn doff (mkPrule (DM m1 w1 d1) st) (mkPrule (DM m2 w2 d2) et))) in
  let ds := mkDst dn doff (mkPrule (DM m1 w1 d1) st) (mkPrule (DM m2 w2 d2) et) in
  wf_posix r = true ->
  tzstr_init (render_dep r ds m1 w1 d1 m2 w2 d2) po = tzstr_init (render_posix r) po.
Proof.
  intros r ds Hwf. pose proof (dep_parse nm off dn doff m1 w1 d1 st m2 w2 d2 et Hwf) as P.
  cbv zeta in P. rewrite (tzstr_init_render r po Hwf).
  unfold tzstr_init, tzparse, tokenize. rewrite dep_concat.
  assert (Hn : wf_name nm = true /\ wf_name dn = true).
  { subst r. unfold wf_posix in Hwf. cbn [p_name p_off p_dst d_name] in Hwf. split_andb. auto. }
  rewrite (tok_good _ (dep_good r ds m1 w1 d1 m2 w2 d2 (proj1 Hn) (proj2 Hn))).
  subst r ds. rewrite P. reflexivity.
Qed.

Example dep_ex :
  render_dep ex_rule (mkDst [69; 68; 84] (-14400) (mkPrule (DM 3 2 0) 7200) (mkPrule (DM 11 1 0) 7200))
             3 2 0 11 1 0
  = [69; 83; 84; 43; 53; 58; 48; 48; 69; 68; 84; 43; 52; 58; 48; 48; 44; 51; 44; 50; 44; 48; 44; 55;
     50; 48; 48; 44; 49; 49; 44; 49; 44; 48; 44; 55; 50; 48; 48].
Proof. vm_compute. reflexivity. Qed.

(* ------------------------------------------------------------------------------------------------
   WITNESSES for the POSIX forms outside wf_posix, on the faithful model of tz.tzstr (each reproduced on
   the real code by the "POSIX forms" stream of check_C08.py):
     '<+03>-3'                      quoted abbreviation (POSIX.1-2001)            -> ValueError  F-C08-quoted-names
     'LMT0:25:21'                   offset with a seconds field                   -> ValueError  F-C08-offset-seconds
     'EST5EDT,M3.2.0/-1,M11.1.0/2'  signed rule time (POSIX.1-2024, glibc)        -> ValueError  F-C08-signed-rule-time
     'xxx,1,2,3,4,5,6,7,8,9'        deprecated format without a standard offset   -> ValueError (a POSITIVE
                                    statement since /repo b3bd589; was TypeError: F-C08-depcomma-typeerror, fixed) *)
Lemma posix_forms_rejected_lemma :
  tzstr_init [60; 43; 48; 51; 62; 45; 51] false = Err EValue /\
  tzstr_init [76; 77; 84; 48; 58; 50; 53; 58; 50; 49] false = Err EValue /\
  tzstr_init [69; 83; 84; 53; 69; 68; 84; 44; 77; 51; 46; 50; 46; 48; 47; 45; 49; 44; 77; 49; 49; 46; 49;
              46; 48; 47; 50] false = Err EValue.
Proof. repeat split; vm_compute; reflexivity. Qed.

(* 'xxx,1,2,3,4,5,6,7,8,9': malformed -> ValueError (positive since /repo b3bd589) *)
Lemma deprecated_without_offset_rejected_lemma :
  tzstr_init [120; 120; 120; 44; 49; 44; 50; 44; 51; 44; 52; 44; 53; 44; 54; 44; 55; 44; 56; 44; 57] false
    = Err EValue.
Proof. vm_compute; reflexivity. Qed.
