(* Parser round trip, parser half, for ALL well-formed rules: general lemmas about the
   sub-parsers in terms of token observations (tk l i = Some ...), then the token list of the
   canonical rendering, whose spine is concrete in each of the 36 shapes. *)
From Coq Require Import ZArith List Bool Lia ZifyBool.
From V Require Import base.Cal posix.PTime posix.RDelta posix.TzParseModel posix.TzRangeModel
     posix.PosixSpec posix.TransThm posix.MainThm posix.PosixThm posix.ParseThm.
Import ListNotations.
Ltac Zify.zify_post_hook ::= Z.to_euclidean_division_equations.
Open Scope Z_scope.

(* a digit token with its value; its length is not 4 (so the hhmm reading is not taken) *)
Definition dtok (t : list Z) (v : Z) : Prop :=
  digtok t /\ int_tok t = Some v /\ (length t =? 4)%nat = false.

Lemma dtok_dec n : 0 <= n < 1000 -> dtok (dec n) n.
Proof. intros H. split; [apply dec_digtok|]. split; [apply int_tok_dec; lia|apply dec_len4; exact H]. Qed.

Lemma dtok_d2 n : 0 <= n < 100 -> dtok (digits_n 2 n) n.
Proof.
  intros H. split; [apply d2_digtok|]. split; [apply int_tok_d2; exact H|].
  rewrite digits_n_length. reflexivity.
Qed.

Lemma tk_is_eq l i c : tk l i = Some [c] -> tk_is l i c = true.
Proof. intros H. unfold tk_is. rewrite H. cbn. rewrite Z.eqb_refl. reflexivity. Qed.

Lemma tk_is_dig l i t v c : tk l i = Some t -> dtok t v -> is_digit c = false -> tk_is l i c = false.
Proof. intros H [D _] Hc. unfold tk_is. rewrite H. apply digtok_neq; assumption. Qed.

(* h:mm:ss after a '/' *)
Lemma read_hms l i H M Sx h m s :
  tk l i = Some H -> dtok H h ->
  tk l (S i) = Some [58] ->
  tk l (i + 2) = Some M -> dtok M m ->
  tk l (S (i + 2)) = Some [58] ->
  tk l (i + 2 + 2) = Some Sx -> dtok Sx s ->
  read_hhmm true l i = Some (h * 3600 + m * 60 + s, S (i + 2 + 2), [i; (i + 2)%nat; (i + 2 + 2)%nat]).
Proof.
  intros T0 (D0 & I0 & L0) T1 T2 (D2 & I2 & _) T3 T4 (D4 & I4 & _).
  unfold read_hhmm, obind. rewrite T0, L0. rewrite (tk_is_eq l (S i) C_COLON T1).
  rewrite I0, T2, I2. cbn [andb]. rewrite (tk_is_eq l (S (i + 2)) C_COLON T3).
  rewrite T4, I4. reflexivity.
Qed.

(* h:mm of an offset *)
Lemma read_hm l i H M h m :
  tk l i = Some H -> dtok H h ->
  tk l (S i) = Some [58] ->
  tk l (i + 2) = Some M -> dtok M m ->
  read_hhmm false l i = Some (h * 3600 + m * 60, S (i + 2), [i; (i + 2)%nat]).
Proof.
  intros T0 (D0 & I0 & L0) T1 T2 (D2 & I2 & _).
  unfold read_hhmm, obind. rewrite T0, L0. rewrite (tk_is_eq l (S i) C_COLON T1).
  rewrite I0, T2, I2. cbn [andb]. reflexivity.
Qed.

(* sign + h:mm *)
Lemma read_off l i sg H M h m :
  tk l i = Some [sg] -> sg = 43 \/ sg = 45 ->
  tk l (S i) = Some H -> dtok H h ->
  tk l (S (S i)) = Some [58] ->
  tk l (S i + 2) = Some M -> dtok M m ->
  read_offset l i = Some ((h * 3600 + m * 60) * (if sg =? 43 then -1 else 1), S (S i + 2),
                          [i; S i; (S i + 2)%nat]).
Proof.
  intros T0 Hs T1 D1 T2 T3 D3. unfold read_offset, tk_is. rewrite T0.
  destruct Hs as [-> | ->]; cbn [list_eqb Z.eqb Pos.eqb andb C_PLUS C_MINUS];
    rewrite (read_hm l (S i) H M h m T1 D1 T2 T3 D3); reflexivity.
Qed.

(* skipn / nth_error *)
Lemma skipn_two {A} (l : list A) i a b :
  nth_error l i = Some a -> nth_error l (S i) = Some b -> exists rest, skipn i l = a :: b :: rest.
Proof.
  revert l. induction i as [|i IH]; intros l Ha Hb.
  - destruct l as [|x [|y t]]; cbn in *; try discriminate. inversion Ha; inversion Hb; subst. eauto.
  - destruct l as [|x t]; [discriminate|]. cbn [nth_error skipn] in *. apply IH; assumption.
Qed.

(* one pass of the abbreviation loop: a name token followed by a signed h:mm offset *)
Lemma name_step_off l i nm sg H M h m :
  tk l i = Some nm -> name_tok nm = true ->
  tk l (S i) = Some [sg] -> sg = 43 \/ sg = 45 ->
  tk l (S (S i)) = Some H -> dtok H h ->
  tk l (S (S (S i))) = Some [58] ->
  tk l (S (S i) + 2) = Some M -> dtok M m ->
  name_step l i =
    Some (Some (nm, Some ((h * 3600 + m * 60) * (if sg =? 43 then -1 else 1))),
          S (S (S i) + 2), seq 0 (S i) ++ [S i; S (S i); (S (S i) + 2)%nat]).
Proof.
  intros T0 N0 T1 Hs T2 D2 T3 T4 D4.
  destruct (skipn_two l i nm [sg] T0 T1) as (rest & E).
  unfold name_step. rewrite E. cbn [span_name]. rewrite N0.
  replace (name_tok [sg]) with false by (destruct Hs as [-> | ->]; reflexivity).
  replace (S i =? i)%nat with false by (symmetry; apply Nat.eqb_neq; lia).
  unfold slice. rewrite E. replace (S i - i)%nat with 1%nat by lia. cbn [firstn].
  unfold concat_toks. cbn [concat]. rewrite app_nil_r.
  unfold starts_offset. rewrite T1.
  replace (list_eqb [sg] [C_PLUS] || list_eqb [sg] [C_MINUS] || is_digit sg) with true
    by (destruct Hs as [-> | ->]; reflexivity).
  rewrite (read_off l (S i) sg H M h m T1 Hs T2 D2 T3 T4 D4). reflexivity.
Qed.

(* the rule parser on  date '/' h ':' mm ':' ss  followed by the end of the list or a ',' *)
Definition ends_at (l : list (list Z)) (i : nat) : Prop :=
  (i =? length l)%nat || tk_is l i C_COMMA = true.

Lemma not_JM t v : dtok t v -> list_eqb t [C_J] = false /\ list_eqb t [C_M] = false.
Proof. intros [D _]. split; apply digtok_neq; try assumption; reflexivity. Qed.

Lemma posix_rule_J l i Nn n H M Sx h m s :
  tk l i = Some [74] ->
  tk l (S i) = Some Nn -> dtok Nn n ->
  tk l (S (S i)) = Some [47] ->
  let k := S (S (S i)) in
  tk l k = Some H -> dtok H h -> tk l (S k) = Some [58] ->
  tk l (k + 2) = Some M -> dtok M m -> tk l (S (k + 2)) = Some [58] ->
  tk l (k + 2 + 2) = Some Sx -> dtok Sx s ->
  ends_at l (S (k + 2 + 2)) ->
  posix_rule l i =
    Some (mkAttr None None None None (Some n) None (Some (h * 3600 + m * 60 + s)),
          S (S (k + 2 + 2)), [i; S i] ++ [S (S i)] ++ [k; (k + 2)%nat; (k + 2 + 2)%nat]).
Proof.
  intros T0 T1 (D1 & I1 & L1) T2 k T3 D3 T4 T5 D5 T6 T7 D7 E. subst k.
  unfold posix_rule, obind. rewrite T0. cbn [list_eqb Z.eqb Pos.eqb andb C_J].
  rewrite T1, I1. cbv zeta. rewrite (tk_is_eq l (S (S i)) C_SLASH T2).
  rewrite (read_hms l _ H M Sx h m s T3 D3 T4 T5 D5 T6 T7 D7).
  unfold ends_at in E. rewrite E. reflexivity.
Qed.

Lemma posix_rule_N l i Nn n H M Sx h m s :
  tk l i = Some Nn -> dtok Nn n ->
  tk l (S i) = Some [47] ->
  let k := S (S i) in
  tk l k = Some H -> dtok H h -> tk l (S k) = Some [58] ->
  tk l (k + 2) = Some M -> dtok M m -> tk l (S (k + 2)) = Some [58] ->
  tk l (k + 2 + 2) = Some Sx -> dtok Sx s ->
  ends_at l (S (k + 2 + 2)) ->
  posix_rule l i =
    Some (mkAttr None None None (Some (n + 1)) None None (Some (h * 3600 + m * 60 + s)),
          S (S (k + 2 + 2)), [i] ++ [S i] ++ [k; (k + 2)%nat; (k + 2 + 2)%nat]).
Proof.
  intros T0 D0 T1 k T3 D3 T4 T5 D5 T6 T7 D7 E. subst k.
  destruct (not_JM Nn n D0) as [NJ NM]. destruct D0 as (D0 & I0 & L0).
  unfold posix_rule, obind. rewrite T0, NJ, NM, I0. cbv zeta.
  rewrite (tk_is_eq l (S i) C_SLASH T1).
  rewrite (read_hms l _ H M Sx h m s T3 D3 T4 T5 D5 T6 T7 D7).
  unfold ends_at in E. rewrite E. reflexivity.
Qed.

Lemma posix_rule_M l i Mo mo W w Wd wd H M Sx h m s :
  tk l i = Some [77] ->
  tk l (S i) = Some Mo -> dtok Mo mo ->
  tk l (S (S i)) = Some [46] ->
  tk l (S (S (S i))) = Some W -> dtok W w ->
  tk l (S (S (S (S i)))) = Some [46] ->
  tk l (S (S (S (S (S i))))) = Some Wd -> dtok Wd wd ->
  tk l (S (S (S (S (S (S i)))))) = Some [47] ->
  let k := S (S (S (S (S (S (S i)))))) in
  tk l k = Some H -> dtok H h -> tk l (S k) = Some [58] ->
  tk l (k + 2) = Some M -> dtok M m -> tk l (S (k + 2)) = Some [58] ->
  tk l (k + 2 + 2) = Some Sx -> dtok Sx s ->
  ends_at l (S (k + 2 + 2)) ->
  posix_rule l i =
    Some (mkAttr (Some mo) (Some (if w =? 5 then -1 else w)) (Some ((wd - 1) mod 7))
                 None None None (Some (h * 3600 + m * 60 + s)),
          S (S (k + 2 + 2)),
          [i; S i; S (S i); S (S (S i)); S (S (S (S i)))] ++ [S (S (S (S (S i))))] ++
          [S (S (S (S (S (S i)))))] ++ [k; (k + 2)%nat; (k + 2 + 2)%nat]).
Proof.
  intros T0 T1 (D1 & I1 & L1) T2 T3 (D3 & I3 & L3) T4 T5 (D5 & I5 & L5) T6 k T7 D7 T8 T9 D9 T10 T11 D11 E. subst k.
  unfold posix_rule, obind. rewrite T0. cbn [list_eqb Z.eqb Pos.eqb andb C_J C_M].
  rewrite T1, I1. unfold is_dash_or_dot.
  rewrite (tk_is_eq l (S (S i)) C_DOT T2), orb_true_r. cbn [negb].
  rewrite T3, I3. rewrite (tk_is_eq l (S (S (S (S i)))) C_DOT T4), orb_true_r. cbn [negb].
  rewrite T5, I5. cbv zeta. rewrite (tk_is_eq l (S (S (S (S (S (S i)))))) C_SLASH T6).
  rewrite (read_hms l _ H M Sx h m s T7 D7 T8 T9 D9 T10 T11 D11).
  unfold ends_at in E. rewrite E. reflexivity.
Qed.

(* the whole parser, given what its parts return *)
Lemma parse_assemble l nm dn v1 v2 U1 U2 st en i1 i2 U3 U4 :
  name_step l 0 = Some (Some (nm, Some v1), 5%nat, U1) ->
  name_step l 5 = Some (Some (dn, Some v2), 10%nat, U2) ->
  dn <> [] ->
  (10 <? length l)%nat = true -> semi_to_comma l 10 = l -> tk_is l 10 C_COMMA = true ->
  count_tok l C_COMMA = 2%nat -> (count_tok (skipn 11 l) C_SLASH <=? 2)%nat = true ->
  forallb posix_tok_ok (skipn 11 l) = true ->
  posix_rule l 11 = Some (st, i1, U3) -> posix_rule l i1 = Some (en, i2, U4) ->
  (length l <=? i2)%nat = true ->
  unused_bad l 0 ((U1 ++ U2) ++ U3 ++ U4) = false ->
  parse_tokens l = Ok (Some (mkRes (Some nm) (Some v1) (Some dn) (Some v2) st en false)).
Proof.
  intros N1 N2 Hdn L10 Semi Comma Cnt Sl Ok1 R1 R2 Len Un.
  unfold parse_tokens. rewrite N1.
  assert (L5 : (length l <=? 5)%nat = false).
  { apply Nat.leb_gt. apply Nat.ltb_lt in L10. lia. }
  rewrite L5, N2, L10, Semi. cbn [andb negb]. rewrite Comma. cbn [negb andb].
  assert (L11 : (length l <=? 11)%nat = false).
  { destruct (length l <=? 11)%nat eqn:E; [|reflexivity].
    (* the rule parser reads l[11] *)
    exfalso. apply Nat.leb_le in E. unfold posix_rule, obind, tk in R1.
    rewrite (proj2 (nth_error_None l 11) E) in R1. discriminate. }
  rewrite L11, Cnt. cbn [Nat.leb Nat.eqb andb]. rewrite Sl, Ok1. cbn [andb].
  rewrite R1, R2, Len, Un. reflexivity.
Qed.

(* digit tokens of the rendered hours / minutes / seconds, and recomposition *)
Lemma dtok_h t : 0 <= t < 3600000 -> dtok (dec (t / 3600)) (t / 3600).
Proof. intros H. apply dtok_dec. lia. Qed.
Lemma dtok_m t : dtok (digits_n 2 ((t / 60) mod 60)) ((t / 60) mod 60).
Proof. apply dtok_d2. lia. Qed.
Lemma dtok_s t : dtok (digits_n 2 (t mod 60)) (t mod 60).
Proof. apply dtok_d2. lia. Qed.
Lemma hms_recompose t : t / 3600 * 3600 + (t / 60) mod 60 * 60 + t mod 60 = t.
Proof. lia. Qed.
Lemma hm_recompose v : v mod 60 = 0 -> v / 3600 * 3600 + (v / 60) mod 60 * 60 = v.
Proof. lia. Qed.

(* the offset value the parser reads back from the rendering of an offset east of UTC *)
Definition off_sign (east : Z) : Z := if - east <? 0 then 45 else 43.
Definition off_mag (east : Z) : Z := if - east <? 0 then - - east else - east.

Lemma off_toks_eq east : off_toks east = [off_sign east] :: hm_toks (off_mag east).
Proof. unfold off_toks, off_sign, off_mag. destruct (- east <? 0); reflexivity. Qed.

Lemma off_value east : east mod 60 = 0 ->
  (off_mag east / 3600 * 3600 + (off_mag east / 60) mod 60 * 60) *
  (if off_sign east =? 43 then -1 else 1) = east.
Proof.
  intros H. unfold off_mag, off_sign. destruct (Z.ltb_spec (- east) 0); cbn [Z.eqb Pos.eqb].
  - rewrite hm_recompose by lia. lia.
  - rewrite hm_recompose by lia. lia.
Qed.

Lemma off_sign_cases east : off_sign east = 43 \/ off_sign east = 45.
Proof. unfold off_sign. destruct (- east <? 0); auto. Qed.

Lemma off_mag_range east : -86400 < east < 86400 -> 0 <= off_mag east < 3600000.
Proof. unfold off_mag. destruct (Z.ltb_spec (- east) 0); lia. Qed.

(* count_tok without the filter (whose symbolic evaluation duplicates the tail at every token) *)
Fixpoint count_eq (l : list (list Z)) (c : Z) : nat :=
  match l with
  | [] => 0
  | t :: r => ((if list_eqb t [c] then 1 else 0) + count_eq r c)%nat
  end.

Lemma count_tok_eq l c : count_tok l c = count_eq l c.
Proof.
  unfold count_tok. induction l as [|t r IH]; [reflexivity|].
  cbn [filter count_eq]. destruct (list_eqb t [c]); cbn [length]; rewrite IH; reflexivity.
Qed.

Lemma off_sign_ne e c : c <> 43 -> c <> 45 -> (off_sign e =? c) = false.
Proof. intros. unfold off_sign. destruct (- e <? 0); lia. Qed.

(* ------------------------------------------------------------------------------------ *)
(* the parser half of the round trip, for every well-formed rule                          *)

Ltac tokfacts2 :=
  repeat match goal with
  | |- context [list_eqb (dec ?n) [?c]] => rewrite (digtok_neq (dec n) c (dec_digtok n)) by reflexivity
  | |- context [list_eqb (digits_n 2 ?n) [?c]] =>
      rewrite (digtok_neq (digits_n 2 n) c (d2_digtok n)) by reflexivity
  | |- context [posix_tok_ok (dec ?n)] => rewrite (digtok_ok (dec n) (dec_digtok n))
  | |- context [posix_tok_ok (digits_n 2 ?n)] => rewrite (digtok_ok _ (d2_digtok n))
  | H : forall c, list_eqb ?t [c] = false |- context [list_eqb ?t [?c]] => rewrite (H c)
  | |- context [off_sign ?e =? ?c] => rewrite (off_sign_ne e c) by discriminate
  end.

Ltac evl :=
  repeat (
    cbn [semi_to_comma count_eq forallb skipn unused_bad mem_nat list_eqb Z.eqb Pos.eqb
         andb orb negb Nat.eqb Nat.add Nat.leb length app seq
         C_PLUS C_MINUS C_COMMA C_COLON C_DOT C_SLASH C_SEMI C_J C_M
         posix_tok_ok all_chars is_digit Z.leb Z.compare Pos.compare Pos.compare_cont];
    tokfacts2).

Ltac dt := first [apply dtok_m | apply dtok_s | apply dtok_h; lia | apply dtok_dec; lia].
Ltac endsat := unfold ends_at; reflexivity.
Ltac rule_at :=
  first
  [ eapply posix_rule_M; [reflexivity|reflexivity|dt|reflexivity|reflexivity|dt|reflexivity|reflexivity|dt|reflexivity
                         |reflexivity|dt|reflexivity|reflexivity|dt|reflexivity|reflexivity|dt|endsat]
  | eapply posix_rule_J; [reflexivity|reflexivity|dt|reflexivity
                         |reflexivity|dt|reflexivity|reflexivity|dt|reflexivity|reflexivity|dt|endsat]
  | eapply posix_rule_N; [reflexivity|dt|reflexivity
                         |reflexivity|dt|reflexivity|reflexivity|dt|reflexivity|reflexivity|dt|endsat] ].

Ltac one_case N1 D1 D3 R1 R2 :=
  etransitivity;
  [ eapply parse_assemble;
    [ eapply name_step_off; [reflexivity|exact N1|reflexivity|apply off_sign_cases|reflexivity
                            |apply dtok_h; exact R1|reflexivity|reflexivity|apply dtok_m]
    | eapply name_step_off; [reflexivity|exact D1|reflexivity|apply off_sign_cases|reflexivity
                            |apply dtok_h; exact R2|reflexivity|reflexivity|apply dtok_m]
    | exact D3
    | reflexivity
    | evl; reflexivity
    | reflexivity
    | rewrite count_tok_eq; evl; reflexivity
    | rewrite count_tok_eq; evl; reflexivity
    | evl; reflexivity
    | rule_at
    | rule_at
    | reflexivity
    | evl; reflexivity ]
  | idtac ].

Lemma parse_toks_dst nm off dn doff sd st ed et :
  wf_posix (mkPosix nm off (Some (mkDst dn doff (mkPrule sd st) (mkPrule ed et)))) = true ->
  parse_tokens (toks (mkPosix nm off (Some (mkDst dn doff (mkPrule sd st) (mkPrule ed et))))) =
  Ok (Some (ast_of_posix (mkPosix nm off (Some (mkDst dn doff (mkPrule sd st) (mkPrule ed et)))))).
Proof.
  intros Hwf. unfold wf_posix in Hwf.
  cbn [p_name p_off p_dst d_name d_off d_start d_end pr_date pr_time] in *; split_andb.
  destruct (wf_name_facts nm ltac:(assumption)) as (N1 & N2 & N3).
  destruct (wf_name_facts dn ltac:(assumption)) as (D1 & D2 & D3).
  unfold wf_off, wf_time in *.
  assert (R1 := off_mag_range off ltac:(lia)). assert (R2 := off_mag_range doff ltac:(lia)).
  assert (V1 := off_value off ltac:(lia)). assert (V2 := off_value doff ltac:(lia)).
  unfold toks, rule_toks. cbn [p_name p_off p_dst d_name d_off d_start d_end pr_date pr_time].
  rewrite !off_toks_eq. unfold hm_toks, hms_toks.
  destruct sd as [n1|n1|m1 w1 d1]; destruct ed as [n2|n2|m2 w2 d2];
    cbn [date_toks app wf_date] in *;
    one_case N1 D1 D3 R1 R2;
    unfold ast_of_posix, ast_of, ast_rule;
    cbn [p_dst p_name p_off d_name d_off d_start d_end pr_date pr_time];
    rewrite V1, V2, !hms_recompose; reflexivity.
Qed.

Lemma parse_toks_std nm off :
  wf_posix (mkPosix nm off None) = true ->
  parse_tokens (toks (mkPosix nm off None)) = Ok (Some (ast_of_posix (mkPosix nm off None))).
Proof.
  intros Hwf. unfold wf_posix in Hwf. cbn [p_name p_off p_dst] in *. split_andb.
  destruct (wf_name_facts nm ltac:(assumption)) as (N1 & N2 & N3).
  unfold wf_off in *.
  assert (R1 := off_mag_range off ltac:(lia)). assert (V1 := off_value off ltac:(lia)).
  unfold toks. cbn [p_name p_off p_dst]. rewrite off_toks_eq, app_nil_r. unfold hm_toks. cbn [app].
  unfold parse_tokens.
  erewrite name_step_off; [|reflexivity|exact N1|reflexivity|apply off_sign_cases|reflexivity
                           |apply dtok_h; exact R1|reflexivity|reflexivity|apply dtok_m].
  cbn [length Nat.leb Nat.ltb andb negb].
  evl. unfold ast_of_posix. cbn [p_dst p_name p_off]. rewrite V1. reflexivity.
Qed.

Theorem parse_toks r : wf_posix r = true -> parse_tokens (toks r) = Ok (Some (ast_of_posix r)).
Proof.
  destruct r as [nm off [[dn doff [sd st] [ed et]]|]].
  - apply parse_toks_dst.
  - apply parse_toks_std.
Qed.

(* ROUND TRIP, full strength *)
Theorem tzparse_render r : wf_posix r = true -> tzparse (render_posix r) = Ok (Some (ast_of_posix r)).
Proof.
  intros Hwf. unfold tzparse. rewrite (tokenize_render r Hwf). apply parse_toks. exact Hwf.
Qed.

(* the MAIN theorems on the STRING: tz.tzstr(render_posix r) *)
Lemma tzstr_init_render r po : wf_posix r = true ->
  tzstr_init (render_posix r) po = tzstr_of_res (Ok (Some (ast_of_posix r))) po.
Proof. intros Hwf. unfold tzstr_init. rewrite (tzparse_render r Hwf). reflexivity. Qed.

Lemma tzstr_string_posix_lemma r po u :
  guard r = true -> (po = true \/ not_gmt_utc r.(p_name) = true) ->
  exists z f, tzstr_init (render_posix r) po = Ok z /\
    observe_utc z u = Ok (let '(o, d, n) := posix_observe r u in mkObs (u + o) f o d (Some n)).
Proof.
  intros G Hpo. assert (Hwf : wf_posix r = true).
  { unfold guard in G. apply andb_prop in G. destruct G as [G _]. apply andb_prop in G. tauto. }
  rewrite (tzstr_init_render r po Hwf). apply tzstr_posix_lemma; assumption.
Qed.
