(* MODEL of _tzicalvtz._find_comp's lookup cache as the code has it: two PARALLEL lists
   (_cachedate, _cachecomp) guarded by _cache_lock, shared by several threads.  A lookup is a
   sequence of steps that are atomic at lock granularity:
     S1 [lock]     idx = _cachedate.index((dt, fold)); return _cachecomp[idx]     (hit)
     S2 [no lock]  scan the components (reads only the immutable component list)    (after a miss)
     S3 [lock]     insert at the front of BOTH lists; pop both when longer than 10; return
   `atomic_hit = false` is the variant in which S1 only holds the lock for the index() search and
   reads _cachecomp[idx] after releasing it (two steps S1a, S1b).  A schedule is a list of thread
   numbers: each entry lets that thread perform its next cstep.  (The len(comps) == 1 shortcut
   does not touch the cache and is left out.) *)
From Coq Require Import ZArith List Bool.
From V Require Import posix.RDelta posix.IcalModel.
Import ListNotations.
Open Scope Z_scope.

Definition key := (Z * bool)%type.
Definition key_eqb (a b : key) : bool := (fst a =? fst b) && Bool.eqb (snd a) (snd b).

Record shared := mkSh { sh_dates : list key; sh_comps : list nat }.

(* list.index: position of the first equal element *)
Fixpoint index_of (l : list key) (k : key) (i : nat) : option nat :=
  match l with
  | [] => None
  | x :: t => if key_eqb x k then Some i else index_of t k (S i)
  end.

Inductive phase :=
| PIdle
| PGotIdx (q : key) (idx : nat)       (* only when atomic_hit = false: index found, lock released *)
| PMiss (q : key)                     (* ValueError caught, about to scan *)
| PIns (q : key) (c : nat).           (* scanned, about to take the lock and insert *)

Record thread := mkTh {
  t_todo : list key;                  (* queries still to be made *)
  t_phase : phase;
  t_out : list (key * res nat) }.     (* answers so far: Ok component index | Err 3 (IndexError) *)

Definition finish (th : thread) (q : key) (a : res nat) : thread :=
  mkTh (tl th.(t_todo)) PIdle (th.(t_out) ++ [(q, a)]).

Definition read_comp (comps : list nat) (i : nat) : res nat :=
  match nth_error comps i with Some c => Ok c | None => Err 3 end.

Definition insert_front (sh : shared) (q : key) (c : nat) : shared :=
  let d := q :: sh.(sh_dates) in
  let m := c :: sh.(sh_comps) in
  if (10 <? length d)%nat then mkSh (removelast d) (removelast m) else mkSh d m.

Definition cstep (cs : list comp) (atomic_hit : bool) (sh : shared) (th : thread) : shared * thread :=
  match th.(t_phase) with
  | PIdle =>
      match th.(t_todo) with
      | [] => (sh, th)
      | q :: _ =>
          match index_of sh.(sh_dates) q 0 with
          | Some i => if atomic_hit then (sh, finish th q (read_comp sh.(sh_comps) i))
                      else (sh, mkTh th.(t_todo) (PGotIdx q i) th.(t_out))
          | None => (sh, mkTh th.(t_todo) (PMiss q) th.(t_out))
          end
      end
  | PGotIdx q i => (sh, finish th q (read_comp sh.(sh_comps) i))
  | PMiss q =>
      match find_comp_nocache cs (fst q) (snd q) with
      | Some c => (sh, mkTh th.(t_todo) (PIns q c) th.(t_out))
      | None => (sh, finish th q (Err 3))
      end
  | PIns q c => (insert_front sh q c, finish th q (Ok c))
  end.

Fixpoint set_nth {A} (l : list A) (i : nat) (x : A) : list A :=
  match l, i with
  | [], _ => []
  | _ :: t, O => x :: t
  | a :: t, S i' => a :: set_nth t i' x
  end.

Fixpoint run (cs : list comp) (atomic_hit : bool) (sched : list nat) (sh : shared)
         (ths : list thread) : shared * list thread :=
  match sched with
  | [] => (sh, ths)
  | i :: rest =>
      match nth_error ths i with
      | None => run cs atomic_hit rest sh ths
      | Some th => let '(sh', th') := cstep cs atomic_hit sh th in
                   run cs atomic_hit rest sh' (set_nth ths i th')
      end
  end.

Definition fresh (todo : list key) : thread := mkTh todo PIdle [].

(* the single-threaded, stateless answer *)
Definition expected (cs : list comp) (q : key) : res nat :=
  match find_comp_nocache cs (fst q) (snd q) with Some c => Ok c | None => Err 3 end.
