(* The six remaining malformed classes are rejected with ValueError, for every well-formed rule. *)
From Coq Require Import ZArith List Bool Lia ZifyBool.
From V Require Import base.Cal posix.PTime posix.RDelta posix.TzParseModel posix.TzRangeModel
     posix.PosixSpec posix.TransThm posix.MainThm posix.PosixThm posix.ParseThm posix.ParseFull
     posix.RejectThm posix.RejectFull posix.RejectFull2.
Import ListNotations.
Open Scope Z_scope.

(* first rule fails: date part parses, the tail fails *)
Ltac date_at :=
  first
  [ erewrite date_part_M; [|reflexivity|reflexivity|dt|reflexivity|reflexivity|dt|reflexivity|reflexivity|dt]
  | erewrite date_part_J; [|reflexivity|reflexivity|dt]
  | erewrite date_part_N; [|reflexivity|dt] ].

Ltac none_case N1 D1 D3 R1 R2 tac :=
  eapply parse_assemble_none;
  [ eapply name_step_off; [reflexivity|exact N1|reflexivity|apply off_sign_cases|reflexivity
                          |apply dtok_h; exact R1|reflexivity|reflexivity|apply dtok_m]
  | eapply name_step_off; [reflexivity|exact D1|reflexivity|apply off_sign_cases|reflexivity
                          |apply dtok_h; exact R2|reflexivity|reflexivity|apply dtok_m]
  | exact D3
  | reflexivity
  | evl; reflexivity
  | reflexivity
  | reflexivity
  | rewrite count_tok_eq; evl; reflexivity
  | rewrite count_tok_eq; evl; reflexivity
  | evl; reflexivity
  | tac ].

Lemma parse_variants2 r ds : r.(p_dst) = Some ds -> wf_posix r = true ->
  (exists p, parse_tokens (toks_surplus_rule r ds) = Ok (Some p) /\ p.(r_unused) = true) /\
  (exists p, parse_tokens (toks_dollar r ds) = Ok (Some p) /\ p.(r_unused) = true) /\
  parse_tokens (toks_slash_no_time r ds) = Ok None /\
  parse_tokens (toks_surplus_field r ds) = Ok None /\
  parse_tokens (toks_empty_end r ds) = Ok None /\
  (forall m w, 0 <= m < 1000 -> 0 <= w < 1000 ->
     parse_tokens (toks_missing_weekday r ds m w) = Ok None).
Proof.
  intros Hd Hwf. unfold wf_posix in Hwf. rewrite Hd in Hwf.
  destruct r as [nm off dd]. destruct ds as [dn doff [sd st] [ed et]].
  cbn [p_name p_off p_dst d_name d_off d_start d_end pr_date pr_time] in *; split_andb.
  destruct (wf_name_facts nm ltac:(assumption)) as (N1 & N2 & N3).
  destruct (wf_name_facts dn ltac:(assumption)) as (D1 & D2 & D3).
  unfold wf_off, wf_time in *.
  assert (R1 := off_mag_range off ltac:(lia)). assert (R2 := off_mag_range doff ltac:(lia)).
  unfold toks_surplus_rule, toks_dollar, toks_slash_no_time, toks_surplus_field, toks_empty_end,
         toks_missing_weekday, pre_toks, rule_toks.
  cbn [p_name p_off p_dst d_name d_off d_start d_end pr_date pr_time].
  rewrite !off_toks_eq. unfold hm_toks, hms_toks.
  destruct sd as [n1|n1|m1 w1 d1]; destruct ed as [n2|n2|m2 w2 d2];
    cbn [date_toks app wf_date] in *;
    (split; [|split; [|split; [|split; [|split]]]]).
  (* each of the 9 date-form pairs produces the same six goals *)
  all: try (eexists; (split; [norule_case N1 D1 D3 R1 R2; reflexivity|]); cbn [r_unused]; evl; reflexivity).
  all: try (intros m w Hm Hw;
            none_case N1 D1 D3 R1 R2
              ltac:(left; rewrite posix_rule_split;
                    erewrite date_part_M_short;
                    [reflexivity|reflexivity|reflexivity|apply dtok_dec; lia|reflexivity|reflexivity
                    |apply dtok_dec; lia|reflexivity])).
  (* '/' without a time *)
  all: try (none_case N1 D1 D3 R1 R2
              ltac:(left; rewrite posix_rule_split; date_at; cbn [obind];
                    eapply tail_slash_then_comma; [reflexivity|reflexivity|reflexivity|];
                    intros c; destruct (Z.eq_dec c 58) as [->|Nc]; [left|right; exact Nc];
                    first [reflexivity | apply digtok_neq; [apply dec_digtok|reflexivity]])).
  (* surplus '.1' field *)
  all: try (none_case N1 D1 D3 R1 R2
              ltac:(left; rewrite posix_rule_split; date_at; cbn [obind];
                    eapply tail_then_dot; reflexivity)).
  (* empty end rule: the first rule parses, the second starts past the end *)
  all: try (none_case N1 D1 D3 R1 R2
              ltac:(right; eexists; eexists; eexists; split; [rule_at|apply posix_rule_past_end; reflexivity])).
Qed.

Lemma tzstr_none_err po : tzstr_of_res (Ok None) po = Err EValue.
Proof. reflexivity. Qed.

Theorem tzstr_rejects_classes2 r ds po : r.(p_dst) = Some ds -> wf_posix r = true ->
  tzstr_init (str_surplus_rule r ds) po = Err EValue /\
  tzstr_init (str_dollar r ds) po = Err EValue /\
  tzstr_init (str_slash_no_time r ds) po = Err EValue /\
  tzstr_init (str_surplus_field r ds) po = Err EValue /\
  tzstr_init (str_empty_end r ds) po = Err EValue /\
  (forall m w, 0 <= m < 1000 -> 0 <= w < 1000 ->
     tzstr_init (str_missing_weekday r ds m w) po = Err EValue).
Proof.
  intros Hd Hwf.
  destruct (concat_variants2 r ds) as (C1 & C2 & C3 & C4 & C5 & C6).
  destruct (good_variants2 r ds Hd Hwf) as (G1 & G2 & G3 & G4 & G5 & G6).
  destruct (parse_variants2 r ds Hd Hwf) as ((p1 & P1 & U1) & (p2 & P2 & U2) & P3 & P4 & P5 & P6).
  unfold tzstr_init, tzparse, tokenize.
  rewrite C1, C2, C3, C4, C5, (tok_good _ G1), (tok_good _ G2), (tok_good _ G3), (tok_good _ G4),
          (tok_good _ G5), P1, P2, P3, P4, P5.
  repeat split; try (apply tzstr_unused_err; assumption); try apply tzstr_none_err.
  intros m w Hm Hw. rewrite C6, (tok_good _ (G6 m w)), (P6 m w Hm Hw). apply tzstr_none_err.
Qed.
