(* The iCalendar definitions REGENERATED from /repo's source on every run (coq/gen/IcalGen.v, by
   harness/gen_posix.py) are the hand models, for ALL inputs. *)
From Coq Require Import ZArith List Bool Lia.
From V Require Import base.Cal posix.PTime posix.RDelta posix.TzParseModel posix.IcalModel
     posix.IcalConcModel gen.IcalGen.
Import ListNotations.
Open Scope Z_scope.

(* ---- tzical._parse_offset ---- *)
Lemma gen_parse_offset_eq s : gen_parse_offset s = parse_offset s.
Proof.
  unfold gen_parse_offset, parse_offset.
  destruct (strip s) as [|c t]; [reflexivity|]. cbn [negb hd]. change (skipn 1 (c :: t)) with t.
  destruct (c =? 43) eqn:E1; [|destruct (c =? 45) eqn:E2]; cbn [orb].
  - destruct (Nat.eqb (length t) 4).
    + destruct (py_int_simple (firstn 2 t)); destruct (py_int_simple (skipn 2 t)); reflexivity.
    + destruct (Nat.eqb (length t) 6); [|reflexivity].
      destruct (py_int_simple (firstn 2 t)); destruct (py_int_simple (firstn 2 (skipn 2 t)));
        destruct (py_int_simple (skipn 4 t)); reflexivity.
  - destruct (Nat.eqb (length t) 4).
    + destruct (py_int_simple (firstn 2 t)); destruct (py_int_simple (skipn 2 t)); reflexivity.
    + destruct (Nat.eqb (length t) 6); [|reflexivity].
      destruct (py_int_simple (firstn 2 t)); destruct (py_int_simple (firstn 2 (skipn 2 t)));
        destruct (py_int_simple (skipn 4 t)); reflexivity.
  - destruct (Nat.eqb (length (c :: t)) 4).
    + destruct (py_int_simple (firstn 2 (c :: t))); destruct (py_int_simple (skipn 2 (c :: t))); reflexivity.
    + destruct (Nat.eqb (length (c :: t)) 6); [|reflexivity].
      destruct (py_int_simple (firstn 2 (c :: t))); destruct (py_int_simple (firstn 2 (skipn 2 (c :: t))));
        destruct (py_int_simple (skipn 4 (c :: t))); reflexivity.
Qed.

(* ---- _tzicalvtz ---- *)
Lemma gen_find_compdt_eq cs c w f : gen_find_compdt cs c w f = find_compdt c w f.
Proof. unfold gen_find_compdt, find_compdt. destruct ((c_diff c <? 0) && f); reflexivity. Qed.

Lemma gen_ic_utcoffset_eq cs w f : gen_ic_utcoffset cs w f = ic_utcoffset cs w f.
Proof. reflexivity. Qed.

Lemma gen_ic_dst_eq cs w f : gen_ic_dst cs w f = ic_dst cs w f.
Proof. reflexivity. Qed.

Lemma gen_ic_tzname_eq cs w f : gen_ic_tzname cs w f = ic_tzname cs w f.
Proof. reflexivity. Qed.

(* the lock discipline the interleaving theorem assumes is the one the source has *)
Lemma gen_lock_discipline : gen_cache_access_under_lock = true.
Proof. reflexivity. Qed.

(* ---- grouped, for coq/props/C17.v ---- *)
Lemma gen_tzicalvtz_lemma : forall cs c w f,
  gen_find_compdt cs c w f = find_compdt c w f /\
  gen_ic_utcoffset cs w f = ic_utcoffset cs w f /\
  gen_ic_dst cs w f = ic_dst cs w f /\
  gen_ic_tzname cs w f = ic_tzname cs w f.
Proof.
  intros. repeat split; first [apply gen_find_compdt_eq | reflexivity].
Qed.

Lemma gen_rrulestr_dtstart_lemma : gen_rrulestr_dtstart_is_onset = true.
Proof. reflexivity. Qed.
