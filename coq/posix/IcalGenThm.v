(* The iCalendar definitions REGENERATED from /repo's source on every run (coq/gen/IcalGen.v, by
   harness/gen_posix.py) are the hand models, for ALL inputs. *)
From Coq Require Import ZArith List Bool Lia.
From V Require Import base.Cal posix.PTime posix.RDelta posix.TzParseModel posix.IcalModel
     posix.IcalConcModel gen.IcalGen.
Import ListNotations.
Open Scope Z_scope.

(* ---- tzical._parse_offset ---- *)
Lemma gen_parse_offset_eq s : gen_parse_offset s = parse_offset s.
Proof.
  unfold gen_parse_offset, parse_offset.
  destruct (strip s) as [|c t]; [reflexivity|]. cbn [negb hd]. change (skipn 1 (c :: t)) with t.
  destruct (c =? 43) eqn:E1; [|destruct (c =? 45) eqn:E2]; cbn [orb].
  - destruct (Nat.eqb (length t) 4).
    + destruct (py_int_simple (firstn 2 t)); destruct (py_int_simple (skipn 2 t)); reflexivity.
    + destruct (Nat.eqb (length t) 6); [|reflexivity].
      destruct (py_int_simple (firstn 2 t)); destruct (py_int_simple (firstn 2 (skipn 2 t)));
        destruct (py_int_simple (skipn 4 t)); reflexivity.
  - destruct (Nat.eqb (length t) 4).
    + destruct (py_int_simple (firstn 2 t)); destruct (py_int_simple (skipn 2 t)); reflexivity.
    + destruct (Nat.eqb (length t) 6); [|reflexivity].
      destruct (py_int_simple (firstn 2 t)); destruct (py_int_simple (firstn 2 (skipn 2 t)));
        destruct (py_int_simple (skipn 4 t)); reflexivity.
  - destruct (Nat.eqb (length (c :: t)) 4).
    + destruct (py_int_simple (firstn 2 (c :: t))); destruct (py_int_simple (skipn 2 (c :: t))); reflexivity.
    + destruct (Nat.eqb (length (c :: t)) 6); [|reflexivity].
      destruct (py_int_simple (firstn 2 (c :: t))); destruct (py_int_simple (firstn 2 (skipn 2 (c :: t))));
        destruct (py_int_simple (skipn 4 (c :: t))); reflexivity.
Qed.

(* ---- _tzicalvtz ---- *)
Lemma gen_find_compdt_eq cs c w f : gen_find_compdt cs c w f = find_compdt c w f.
Proof. unfold gen_find_compdt, find_compdt. destruct ((c_diff c <? 0) && f); reflexivity. Qed.

Lemma gen_ic_utcoffset_eq cs w f : gen_ic_utcoffset cs w f = ic_utcoffset cs w f.
Proof. reflexivity. Qed.

Lemma gen_ic_dst_eq cs w f : gen_ic_dst cs w f = ic_dst cs w f.
Proof. reflexivity. Qed.

Lemma gen_ic_tzname_eq cs w f : gen_ic_tzname cs w f = ic_tzname cs w f.
Proof. reflexivity. Qed.

(* the lock discipline the interleaving theorem assumes is the one the source has *)
Lemma gen_lock_discipline : gen_cache_access_under_lock = true.
Proof. reflexivity. Qed.

(* ---- grouped, for coq/props/C17.v ---- *)
Lemma gen_tzicalvtz_lemma : forall cs c w f,
  gen_find_compdt cs c w f = find_compdt c w f /\
  gen_ic_utcoffset cs w f = ic_utcoffset cs w f /\
  gen_ic_dst cs w f = ic_dst cs w f /\
  gen_ic_tzname cs w f = ic_tzname cs w f.
Proof.
  intros. repeat split; first [apply gen_find_compdt_eq | reflexivity].
Qed.

Lemma gen_rrulestr_dtstart_lemma : gen_rrulestr_dtstart_is_onset = true.
Proof. reflexivity. Qed.

(* ---- the component selection of _find_comp (scan loop + default) ---- *)
Definition sel_rel (cs : list comp) (g : option Z * option comp) (h : option (Z * nat)) : Prop :=
  match h with
  | None => g = (None, None)
  | Some (d, i) => exists c, g = (Some d, Some c) /\ nth_error cs i = Some c
  end.

Lemma scan_fold cs w f : forall rest pre g h,
  cs = pre ++ rest -> sel_rel cs g h ->
  sel_rel cs
    (fold_left (fun '(lastcompdt, lastcomp) comp =>
       let compdt := gen_find_compdt cs comp w f in
       let '(lastcompdt, lastcomp) :=
         if match compdt with
            | Some s0_ => match lastcompdt with Some s1_ => s1_ <? s0_ | None => true end
            | None => false end
         then (let lastcompdt := compdt in let lastcomp := Some comp in (lastcompdt, lastcomp))
         else (lastcompdt, lastcomp) in
       (lastcompdt, lastcomp)) rest g)
    (scan_comps rest (length pre) w f h).
Proof.
  induction rest as [|c rest IH]; intros pre g h Hcs Hr; [exact Hr|].
  cbn [fold_left scan_comps].
  assert (Hn : nth_error cs (length pre) = Some c).
  { rewrite Hcs. rewrite nth_error_app2 by lia. replace (length pre - length pre)%nat with O by lia. reflexivity. }
  replace (S (length pre)) with (length (pre ++ [c])) by (rewrite app_length; cbn; lia).
  apply IH; [rewrite <- app_assoc; exact Hcs|].
  destruct g as [ld lc]. cbv beta iota zeta. rewrite gen_find_compdt_eq.
  destruct (find_compdt c w f) as [d|].
  - destruct h as [[hd hi]|]; cbn [sel_rel] in Hr |- *.
    + destruct Hr as (c0 & E & N). inversion E; subst ld lc.
      destruct (hd <? d); cbn [sel_rel]; [exists c; split; [reflexivity|exact Hn]|exists c0; split; [reflexivity|exact N]].
    + inversion Hr; subst ld lc. cbn [sel_rel]. exists c. split; [reflexivity|exact Hn].
  - destruct h as [[hd hi]|]; cbn [sel_rel] in Hr |- *; exact Hr.
Qed.

Lemma find_first_std cs : forall k,
  match first_std cs k with
  | Some i => exists c, find (fun comp => negb (c_isdst comp)) cs = Some c /\ nth_error cs (i - k) = Some c /\ (k <= i)%nat
  | None => find (fun comp => negb (c_isdst comp)) cs = None
  end.
Proof.
  induction cs as [|c t IH]; intros k; [reflexivity|].
  cbn [first_std find]. destruct (negb (c_isdst c)).
  - exists c. replace (k - k)%nat with O by lia. split; [reflexivity|split; [reflexivity|lia]].
  - specialize (IH (S k)). destruct (first_std t (S k)) as [i|]; [|exact IH].
    destruct IH as (c0 & F & N & L). exists c0. split; [exact F|]. split; [|lia].
    replace (i - k)%nat with (S (i - S k)) by lia. exact N.
Qed.

Lemma gen_select_comp_eq cs w f : gen_select_comp cs w f = get_comp cs (find_comp_nocache cs w f).
Proof.
  unfold gen_select_comp, find_comp_nocache. cbv zeta.
  pose proof (scan_fold cs w f cs [] (None, None) None eq_refl eq_refl) as R. cbn [length] in R.
  destruct (scan_comps cs 0 w f None) as [[d i]|]; cbn [sel_rel] in R.
  - destruct R as (c & E & N). rewrite E. cbn [is_none negb rbind get_comp]. rewrite N. reflexivity.
  - rewrite R. cbn [is_none negb].
    pose proof (find_first_std cs 0) as F.
    destruct (first_std cs 0) as [i|].
    + destruct F as (c & Fc & N & _). rewrite Fc. cbn [rbind get_comp].
      replace (i - 0)%nat with i in N by lia. rewrite N. reflexivity.
    + rewrite F. destruct cs as [|c0 t]; reflexivity.
Qed.

(* ---- the two cache regions of _find_comp against the cache model (IcalConcModel stores the
        INDEX of a component; the code stores the component object: g maps one to the other) ---- *)
Lemma map_removelast {A B} (g : A -> B) (l : list A) : map g (removelast l) = removelast (map g l).
Proof.
  induction l as [|a [|b t] IH]; [reflexivity|reflexivity|].
  change (removelast (a :: b :: t)) with (a :: removelast (b :: t)).
  cbn [map] in *. rewrite IH. reflexivity.
Qed.

Lemma gen_cache_hit_eq (g : nat -> comp) dates idxs w f :
  gen_cache_hit dates (map g idxs) w f =
  match index_of dates (w, f) 0 with
  | Some i => option_map g (nth_error idxs i)
  | None => None
  end.
Proof.
  unfold gen_cache_hit. destruct (index_of dates (w, f) 0) as [i|]; [|reflexivity].
  apply nth_error_map.
Qed.

Lemma gen_cache_insert_eq (g : nat -> comp) dates idxs w f c :
  gen_cache_insert dates (map g idxs) w f (g c) =
  let sh := insert_front (mkSh dates idxs) (w, f) c in (sh_dates sh, map g (sh_comps sh)).
Proof.
  unfold gen_cache_insert, insert_front. cbv zeta. cbn [sh_dates sh_comps map].
  change (length ((w, f) :: dates)) with (S (length dates)).
  destruct (10 <? S (length dates))%nat; cbn [sh_dates sh_comps]; [|reflexivity].
  rewrite map_removelast. reflexivity.
Qed.

Lemma gen_cache_regions_lemma : forall (g : nat -> comp) dates idxs w f c,
  gen_cache_hit dates (map g idxs) w f =
    match index_of dates (w, f) 0 with Some i => option_map g (nth_error idxs i) | None => None end /\
  gen_cache_insert dates (map g idxs) w f (g c) =
    (let sh := insert_front (mkSh dates idxs) (w, f) c in (sh_dates sh, map g (sh_comps sh))).
Proof. intros. split; [apply gen_cache_hit_eq|apply gen_cache_insert_eq]. Qed.
