(* The definitions REGENERATED from /repo's source on every run (coq/gen/PosixGen.v, by
   harness/gen_posix.py) are the hand models, for ALL inputs. *)
From Coq Require Import ZArith List Bool Lia.
From V Require Import base.Cal posix.PTime posix.RDelta posix.TzParseModel posix.TzRangeModel
     posix.PosixSpec posix.TzLocalModel posix.PosixGenBase gen.PosixGen.
Import ListNotations.
Open Scope Z_scope.

Ltac cases :=
  repeat match goal with
  | |- context [match ?x with _ => _ end] => destruct x eqn:?
  end; try reflexivity; try discriminate.

(* ---- tzrangebase / tzrange ---- *)
Lemma gen_dst_base_offset_eq z : gen_dst_base_offset z = dst_base z.
Proof. reflexivity. Qed.

Lemma gen_naive_isdst_eq dt a b : gen_naive_isdst dt (a, b) = naive_isdst dt a b.
Proof. unfold gen_naive_isdst, naive_isdst. destruct (a <? b); reflexivity. Qed.

Lemma gen_transitions_eq z y : gen_transitions z y = transitions z y.
Proof. unfold gen_transitions, transitions. destruct (z_hasdst z); reflexivity. Qed.

Lemma gen_is_ambiguous_eq z w : gen_is_ambiguous z w = is_ambiguous z w.
Proof.
  unfold gen_is_ambiguous, is_ambiguous. rewrite gen_transitions_eq, gen_dst_base_offset_eq.
  destruct (z_hasdst z); cbn [negb]; [|reflexivity].
  destruct (transitions z (year_of_secs w)) as [[[s e]|]|]; reflexivity.
Qed.

Lemma gen_isdst_eq z w f : gen_isdst z w f = isdst z w f.
Proof.
  unfold gen_isdst, isdst. rewrite gen_transitions_eq.
  destruct (z_hasdst z); cbn [negb]; [|reflexivity].
  destruct (transitions z (year_of_secs w)) as [[[s e]|]|]; cbn [rbind]; try reflexivity.
  rewrite gen_naive_isdst_eq, gen_is_ambiguous_eq.
  destruct (naive_isdst w s e); cbn [negb rbind]; [reflexivity|].
  destruct (is_ambiguous z w) as [[|]|]; reflexivity.
Qed.

Lemma gen_utcoffset_eq z w f : gen_utcoffset z w f = utcoffset z w f.
Proof. unfold gen_utcoffset, utcoffset. rewrite gen_isdst_eq. reflexivity. Qed.

Lemma gen_dst_eq z w f : gen_dst z w f = dst z w f.
Proof. unfold gen_dst, dst. rewrite gen_isdst_eq. reflexivity. Qed.

Lemma gen_tzname_eq z w f : gen_tzname z w f = tzname z w f.
Proof.
  unfold gen_tzname, tzname. rewrite gen_isdst_eq.
  destruct (isdst z w f) as [[|]|]; reflexivity.
Qed.

Lemma gen_fromutc_eq z u : gen_fromutc z u = fromutc z u.
Proof.
  unfold gen_fromutc, fromutc. rewrite gen_transitions_eq.
  destruct (transitions z (year_of_secs u)) as [[[s e]|]|]; cbn [rbind]; try reflexivity.
  - rewrite gen_naive_isdst_eq.
    destruct (naive_isdst u (s - z_std_off z) (e - z_std_off z)); cbn [negb rbind]; [reflexivity|].
    rewrite gen_is_ambiguous_eq. reflexivity.
  - rewrite gen_utcoffset_eq. destruct (utcoffset z u false); reflexivity.
Qed.

(* ---- tzstr._delta ---- *)
Lemma gen_tzstr_delta_eq so d x isend : gen_tzstr_delta so d x isend = tzstr_delta so d x isend.
Proof.
  unfold gen_tzstr_delta, tzstr_delta.
  destruct x as [[m|] [wk|] [wd|] [yd|] [jd|] [dy|] [tm|]]; destruct isend;
    cbn [x_month x_week x_weekday x_yday x_jyday x_day x_time some_or truthy_oz is_none andb negb];
    try reflexivity;
    try (repeat match goal with |- context [if ?b then _ else _] => destruct b end; reflexivity).
Qed.

(* ---- tzrange.__init__ / tzstr.__init__ ---- *)
Lemma mk_delta_gen a dflt (dstabbr : bool) :
  mk_delta a dflt dstabbr =
  if dstabbr && darg_is_none a then rbind (rd_mk dflt) (fun r => Ok (DRd r)) else delta_of_darg a.
Proof. destruct a; destruct dstabbr; reflexivity. Qed.

Lemma gen_tzrange_init_eq sa so da do_ st en :
  gen_tzrange_init sa so da do_ st en = tzrange_init sa so da do_ st en.
Proof.
  unfold gen_tzrange_init, tzrange_init. rewrite !mk_delta_gen. unfold default_start, default_end.
  destruct so as [so|]; destruct do_ as [d|]; cbn [is_none negb];
    destruct (truthy_str da); cbn [andb];
    destruct (darg_is_none st); destruct (darg_is_none en);
    repeat match goal with
    | |- context [rd_mk ?x] => destruct (rd_mk x); cbn [rbind]
    | |- context [delta_of_darg ?x] => destruct (delta_of_darg x); cbn [rbind]
    end; try reflexivity; repeat (f_equal; try lia).
Qed.

Lemma gen_tzstr_init_eq s po : gen_tzstr_init s po = tzstr_init s po.
Proof.
  unfold gen_tzstr_init, tzstr_init, tzstr_of_res.
  destruct (tzparse s) as [[r|]|e]; cbn [rbind]; try reflexivity.
  destruct (r_unused r); [reflexivity|]. cbv zeta.
  change (match r_stdabbr r with
          | Some a_ => list_eqb a_ [71; 77; 84] || list_eqb a_ [85; 84; 67]
          | None => false end) with (abbr_is_gmt_utc (r_stdabbr r)).
  rewrite !gen_tzrange_init_eq. change (Z.opp 1) with (-1).
  destruct (r_stdoffset r) as [v|]; [destruct (abbr_is_gmt_utc (r_stdabbr r) && negb po)|];
  (match goal with |- context [tzrange_init ?a ?b ?c ?d AFalse AFalse] =>
     destruct (tzrange_init a b c d AFalse AFalse) as [z|] eqn:Ez end;
   cbn [rbind]; [|reflexivity]).
  all: destruct (truthy_str (r_dstabbr r)); cbn [negb rbind]; [|reflexivity].
  all: rewrite !gen_tzstr_delta_eq.
  all: destruct (tzstr_delta (z_std_off z) (z_dst_off z) (r_start r) false) as [sd|]; cbn [rbind delta_bool];
    [|reflexivity].
  all: destruct (rd_bool sd) eqn:B; cbn [rbind];
    [ destruct (tzstr_delta (z_std_off z) (z_dst_off z) (r_end r) true) as [ed|]; cbn [rbind delta_bool];
      [rewrite ?B|]; reflexivity
    | rewrite ?B; unfold tzrange_init in Ez; cbn [mk_delta rbind] in Ez; inversion Ez as [Hz]; try rewrite <- Hz; cbn [delta_bool]; rewrite ?B; reflexivity ].
Qed.

(* ---- tzlocal ---- *)
Section Local.
  Variable libc : Z -> bool.
  Variables std alt : Z.
  Variable daylight : bool.
  Variables sn dn : list Z.

  Lemma gen_l_naive_is_dst_eq w :
    gen_l_naive_is_dst libc std alt daylight sn dn w = l_naive_is_dst libc std w.
  Proof. unfold gen_l_naive_is_dst, l_naive_is_dst. f_equal; lia. Qed.

  Lemma gen_l_is_ambiguous_eq w :
    gen_l_is_ambiguous libc std alt daylight sn dn w = l_is_ambiguous libc std alt daylight w.
  Proof. unfold gen_l_is_ambiguous, l_is_ambiguous. rewrite !gen_l_naive_is_dst_eq. reflexivity. Qed.

  Lemma gen_l_isdst_eq w f :
    gen_l_isdst libc std alt daylight sn dn w f = l_isdst libc std alt daylight w f.
  Proof.
    unfold gen_l_isdst, l_isdst. rewrite gen_l_is_ambiguous_eq, gen_l_naive_is_dst_eq. reflexivity.
  Qed.

  Lemma gen_l_utcoffset_eq w f :
    gen_l_utcoffset libc std alt daylight sn dn w f = l_utcoffset libc std alt daylight w f.
  Proof. unfold gen_l_utcoffset, l_utcoffset. rewrite gen_l_isdst_eq. reflexivity. Qed.

  Lemma gen_l_dst_eq w f :
    gen_l_dst libc std alt daylight sn dn w f = l_dst libc std alt daylight w f.
  Proof. unfold gen_l_dst, l_dst. rewrite gen_l_isdst_eq. reflexivity. Qed.

  Lemma gen_l_tzname_eq w f :
    gen_l_tzname libc std alt daylight sn dn w f = l_tzname libc std alt daylight sn dn w f.
  Proof. unfold gen_l_tzname, l_tzname. rewrite gen_l_isdst_eq. reflexivity. Qed.
End Local.


(* ---- grouped, for coq/props/C08.v ---- *)
Lemma gen_tzrangebase_lemma :
  (forall z, gen_dst_base_offset z = dst_base z) /\
  (forall dt a b, gen_naive_isdst dt (a, b) = naive_isdst dt a b) /\
  (forall z y, gen_transitions z y = transitions z y) /\
  (forall z w, gen_is_ambiguous z w = is_ambiguous z w) /\
  (forall z w f, gen_isdst z w f = isdst z w f) /\
  (forall z w f, gen_utcoffset z w f = utcoffset z w f) /\
  (forall z w f, gen_dst z w f = dst z w f) /\
  (forall z w f, gen_tzname z w f = tzname z w f) /\
  (forall z u, gen_fromutc z u = fromutc z u).
Proof.
  repeat split; intros;
    first [apply gen_dst_base_offset_eq | apply gen_naive_isdst_eq | apply gen_transitions_eq
          | apply gen_is_ambiguous_eq | apply gen_isdst_eq | apply gen_utcoffset_eq | apply gen_dst_eq
          | apply gen_tzname_eq | apply gen_fromutc_eq].
Qed.

Lemma gen_tzlocal_lemma : forall libc std alt daylight sn dn w f,
  gen_l_naive_is_dst libc std alt daylight sn dn w = l_naive_is_dst libc std w /\
  gen_l_is_ambiguous libc std alt daylight sn dn w = l_is_ambiguous libc std alt daylight w /\
  gen_l_isdst libc std alt daylight sn dn w f = l_isdst libc std alt daylight w f /\
  gen_l_utcoffset libc std alt daylight sn dn w f = l_utcoffset libc std alt daylight w f /\
  gen_l_dst libc std alt daylight sn dn w f = l_dst libc std alt daylight w f /\
  gen_l_tzname libc std alt daylight sn dn w f = l_tzname libc std alt daylight sn dn w f.
Proof.
  intros. repeat split;
    first [apply gen_l_naive_is_dst_eq | apply gen_l_is_ambiguous_eq | apply gen_l_isdst_eq
          | apply gen_l_utcoffset_eq | apply gen_l_dst_eq | apply gen_l_tzname_eq].
Qed.
