(* The definitions REGENERATED from /repo's source on every run (coq/gen/PosixGen.v, by
   harness/gen_posix.py) are the hand models, for ALL inputs. *)
From Coq Require Import ZArith List Bool Lia.
From V Require Import base.Cal posix.PTime posix.RDelta posix.TzParseModel posix.TzRangeModel
     posix.PosixSpec posix.TzLocalModel posix.PosixGenBase gen.PosixGen.
Import ListNotations.
Open Scope Z_scope.

Ltac cases :=
  repeat match goal with
  | |- context [match ?x with _ => _ end] => destruct x eqn:?
  end; try reflexivity; try discriminate.

(* ---- tzrangebase / tzrange ---- *)
Lemma gen_dst_base_offset_eq z : gen_dst_base_offset z = dst_base z.
Proof. reflexivity. Qed.

Lemma gen_naive_isdst_eq dt a b : gen_naive_isdst dt (a, b) = naive_isdst dt a b.
Proof. unfold gen_naive_isdst, naive_isdst. destruct (a <? b); reflexivity. Qed.

Lemma gen_transitions_eq z y : gen_transitions z y = transitions z y.
Proof. unfold gen_transitions, transitions. destruct (z_hasdst z); reflexivity. Qed.

Lemma gen_is_ambiguous_eq z w : gen_is_ambiguous z w = is_ambiguous z w.
Proof.
  unfold gen_is_ambiguous, is_ambiguous. rewrite gen_transitions_eq, gen_dst_base_offset_eq.
  destruct (z_hasdst z); cbn [negb]; [|reflexivity].
  destruct (transitions z (year_of_secs w)) as [[[s e]|]|]; reflexivity.
Qed.

Lemma gen_isdst_eq z w f : gen_isdst z w f = isdst z w f.
Proof.
  unfold gen_isdst, isdst. rewrite gen_transitions_eq.
  destruct (z_hasdst z); cbn [negb]; [|reflexivity].
  destruct (transitions z (year_of_secs w)) as [[[s e]|]|]; cbn [rbind]; try reflexivity.
  rewrite gen_naive_isdst_eq, gen_is_ambiguous_eq.
  destruct (naive_isdst w s e); cbn [negb rbind]; [reflexivity|].
  destruct (is_ambiguous z w) as [[|]|]; reflexivity.
Qed.

Lemma gen_utcoffset_eq z w f : gen_utcoffset z w f = utcoffset z w f.
Proof. unfold gen_utcoffset, utcoffset. rewrite gen_isdst_eq. reflexivity. Qed.

Lemma gen_dst_eq z w f : gen_dst z w f = dst z w f.
Proof. unfold gen_dst, dst. rewrite gen_isdst_eq. reflexivity. Qed.

Lemma gen_tzname_eq z w f : gen_tzname z w f = tzname z w f.
Proof.
  unfold gen_tzname, tzname. rewrite gen_isdst_eq.
  destruct (isdst z w f) as [[|]|]; reflexivity.
Qed.

Lemma gen_fromutc_eq z u : gen_fromutc z u = fromutc z u.
Proof.
  unfold gen_fromutc, fromutc. rewrite gen_transitions_eq.
  destruct (transitions z (year_of_secs u)) as [[[s e]|]|]; cbn [rbind]; try reflexivity.
  - rewrite gen_naive_isdst_eq.
    destruct (naive_isdst u (s - z_std_off z) (e - z_std_off z)); cbn [negb rbind]; [reflexivity|].
    rewrite gen_is_ambiguous_eq. reflexivity.
  - rewrite gen_utcoffset_eq. destruct (utcoffset z u false); reflexivity.
Qed.

(* ---- tzstr._delta ---- *)
Lemma gen_tzstr_delta_eq so d x isend : gen_tzstr_delta so d x isend = tzstr_delta so d x isend.
Proof.
  unfold gen_tzstr_delta, tzstr_delta.
  destruct x as [[m|] [wk|] [wd|] [yd|] [jd|] [dy|] [tm|]]; destruct isend;
    cbn [x_month x_week x_weekday x_yday x_jyday x_day x_time some_or truthy_oz is_none andb negb];
    try reflexivity;
    try (repeat match goal with |- context [if ?b then _ else _] => destruct b end; reflexivity).
Qed.

(* ---- tzrange.__init__ / tzstr.__init__ ---- *)
Lemma mk_delta_gen a dflt (dstabbr : bool) :
  mk_delta a dflt dstabbr =
  if dstabbr && darg_is_none a then rbind (rd_mk dflt) (fun r => Ok (DRd r)) else delta_of_darg a.
Proof. destruct a; destruct dstabbr; reflexivity. Qed.

Lemma gen_tzrange_init_eq sa so da do_ st en :
  gen_tzrange_init sa so da do_ st en = tzrange_init sa so da do_ st en.
Proof.
  unfold gen_tzrange_init, tzrange_init. rewrite !mk_delta_gen. unfold default_start, default_end.
  destruct so as [so|]; destruct do_ as [d|]; cbn [is_none negb];
    destruct (truthy_str da); cbn [andb];
    destruct (darg_is_none st); destruct (darg_is_none en);
    repeat match goal with
    | |- context [rd_mk ?x] => destruct (rd_mk x); cbn [rbind]
    | |- context [delta_of_darg ?x] => destruct (delta_of_darg x); cbn [rbind]
    end; try reflexivity; repeat (f_equal; try lia).
Qed.

Lemma gen_tzstr_init_eq s po : gen_tzstr_init s po = tzstr_init s po.
Proof.
  unfold gen_tzstr_init, tzstr_init, tzstr_of_res.
  destruct (tzparse s) as [[r|]|e]; cbn [rbind]; try reflexivity.
  destruct (r_unused r); [reflexivity|]. cbv zeta.
  change (match r_stdabbr r with
          | Some a_ => list_eqb a_ [71; 77; 84] || list_eqb a_ [85; 84; 67]
          | None => false end) with (abbr_is_gmt_utc (r_stdabbr r)).
  rewrite !gen_tzrange_init_eq. change (Z.opp 1) with (-1).
  destruct (r_stdoffset r) as [v|]; [destruct (abbr_is_gmt_utc (r_stdabbr r) && negb po)|];
  (match goal with |- context [tzrange_init ?a ?b ?c ?d AFalse AFalse] =>
     destruct (tzrange_init a b c d AFalse AFalse) as [z|] eqn:Ez end;
   cbn [rbind]; [|reflexivity]).
  all: destruct (truthy_str (r_dstabbr r)); cbn [negb rbind]; [|reflexivity].
  all: rewrite !gen_tzstr_delta_eq.
  all: destruct (tzstr_delta (z_std_off z) (z_dst_off z) (r_start r) false) as [sd|]; cbn [rbind delta_bool];
    [|reflexivity].
  all: destruct (rd_bool sd) eqn:B; cbn [rbind];
    [ destruct (tzstr_delta (z_std_off z) (z_dst_off z) (r_end r) true) as [ed|]; cbn [rbind delta_bool];
      [rewrite ?B|]; reflexivity
    | rewrite ?B; unfold tzrange_init in Ez; cbn [mk_delta rbind] in Ez; inversion Ez as [Hz]; try rewrite <- Hz; cbn [delta_bool]; rewrite ?B; reflexivity ].
Qed.

(* ---- tzlocal ---- *)
Section Local.
  Variable libc : Z -> bool.
  Variables std alt : Z.
  Variable daylight : bool.
  Variables sn dn : list Z.

  Lemma gen_l_naive_is_dst_eq w :
    gen_l_naive_is_dst libc std alt daylight sn dn w = l_naive_is_dst libc std w.
  Proof. unfold gen_l_naive_is_dst, l_naive_is_dst. f_equal; lia. Qed.

  Lemma gen_l_is_ambiguous_eq w :
    gen_l_is_ambiguous libc std alt daylight sn dn w = l_is_ambiguous libc std alt daylight w.
  Proof. unfold gen_l_is_ambiguous, l_is_ambiguous. rewrite !gen_l_naive_is_dst_eq. reflexivity. Qed.

  Lemma gen_l_isdst_eq w f :
    gen_l_isdst libc std alt daylight sn dn w f = l_isdst libc std alt daylight w f.
  Proof.
    unfold gen_l_isdst, l_isdst. rewrite gen_l_is_ambiguous_eq, gen_l_naive_is_dst_eq. reflexivity.
  Qed.

  Lemma gen_l_utcoffset_eq w f :
    gen_l_utcoffset libc std alt daylight sn dn w f = l_utcoffset libc std alt daylight w f.
  Proof. unfold gen_l_utcoffset, l_utcoffset. rewrite gen_l_isdst_eq. reflexivity. Qed.

  Lemma gen_l_dst_eq w f :
    gen_l_dst libc std alt daylight sn dn w f = l_dst libc std alt daylight w f.
  Proof. unfold gen_l_dst, l_dst. rewrite gen_l_isdst_eq. reflexivity. Qed.

  Lemma gen_l_tzname_eq w f :
    gen_l_tzname libc std alt daylight sn dn w f = l_tzname libc std alt daylight sn dn w f.
  Proof. unfold gen_l_tzname, l_tzname. rewrite gen_l_isdst_eq. reflexivity. Qed.
End Local.


(* ---- grouped, for coq/props/C08.v ---- *)
Lemma gen_tzrangebase_lemma :
  (forall z, gen_dst_base_offset z = dst_base z) /\
  (forall dt a b, gen_naive_isdst dt (a, b) = naive_isdst dt a b) /\
  (forall z y, gen_transitions z y = transitions z y) /\
  (forall z w, gen_is_ambiguous z w = is_ambiguous z w) /\
  (forall z w f, gen_isdst z w f = isdst z w f) /\
  (forall z w f, gen_utcoffset z w f = utcoffset z w f) /\
  (forall z w f, gen_dst z w f = dst z w f) /\
  (forall z w f, gen_tzname z w f = tzname z w f) /\
  (forall z u, gen_fromutc z u = fromutc z u).
Proof.
  repeat split; intros;
    first [apply gen_dst_base_offset_eq | apply gen_naive_isdst_eq | apply gen_transitions_eq
          | apply gen_is_ambiguous_eq | apply gen_isdst_eq | apply gen_utcoffset_eq | apply gen_dst_eq
          | apply gen_tzname_eq | apply gen_fromutc_eq].
Qed.

Lemma gen_tzlocal_lemma : forall libc std alt daylight sn dn w f,
  gen_l_naive_is_dst libc std alt daylight sn dn w = l_naive_is_dst libc std w /\
  gen_l_is_ambiguous libc std alt daylight sn dn w = l_is_ambiguous libc std alt daylight w /\
  gen_l_isdst libc std alt daylight sn dn w f = l_isdst libc std alt daylight w f /\
  gen_l_utcoffset libc std alt daylight sn dn w f = l_utcoffset libc std alt daylight w f /\
  gen_l_dst libc std alt daylight sn dn w f = l_dst libc std alt daylight w f /\
  gen_l_tzname libc std alt daylight sn dn w f = l_tzname libc std alt daylight sn dn w f.
Proof.
  intros. repeat split;
    first [apply gen_l_naive_is_dst_eq | apply gen_l_is_ambiguous_eq | apply gen_l_isdst_eq
          | apply gen_l_utcoffset_eq | apply gen_l_dst_eq | apply gen_l_tzname_eq].
Qed.

(* ---------------------------------------------------------------------------------------------
   _tzparser.parse, the slices regenerated from source (option monad: every IndexError / ValueError /
   AssertionError inside parse() makes it return None):
     gen_read_offset     the offset after an abbreviation   = TzParseModel.read_offset
     gen_read_rule_time  the time of a rule after '/'       = read_hhmm true (one token further)
     gen_posix_rule      one pass of `for x in (res.start, res.end)` of the POSIX branch = posix_rule
   The asserted intermediate shapes are alpha-equivalent copies of the generated text: a change of
   /repo that changes the generated term breaks these proofs. *)
From Coq Require Import Arith.

Lemma tk_lt : forall l i, (i <? length l)%nat = true -> exists t, tk l i = Some t.
Proof.
  intros l i H. apply Nat.ltb_lt in H. unfold tk.
  destruct (nth_error l i) eqn:E; [eauto|]. apply nth_error_None in E. lia.
Qed.
Lemma tk_ge : forall l i, (i <? length l)%nat = false -> tk l i = None.
Proof. intros l i H. apply Nat.ltb_ge in H. unfold tk. now apply nth_error_None. Qed.

Ltac ob := cbn [obind andb orb].
Ltac fin := ob; rewrite ?Nat.add_1_r, <- ?app_assoc; reflexivity.
Lemma gen_read_offset_eq : forall l i, gen_read_offset l i = read_offset l i.
Proof.
  intros. unfold gen_read_offset, read_offset, tk_is, C_PLUS, C_MINUS, C_COLON. cbv zeta.
  destruct (tk l i) as [t|] eqn:Et; [|ob; unfold read_hhmm; rewrite Et; reflexivity].
  ob.
  assert (H : forall j (signal : Z) (used : list nat) r,
    r = (do (v, i2, used1) <- read_hhmm false l j; Some (v * signal, i2, used ++ used1)) ->
    (do t3_ <- tk l j;
      (do (signal, value, i, used, len_li) <-
        (if (length t3_ =? 4)%nat
         then do t4_ <- tk l j; do v5_ <- int_tok (firstn 2 t4_); do t6_ <- tk l j;
              do v7_ <- int_tok (skipn 2 t6_);
              Some (signal, (v5_ * 3600 + v7_ * 60) * signal, j, used, length t3_)
         else do c9_ <- (if (j + 1 <? length l)%nat
                         then do t8_ <- tk l (j + 1); Some (list_eqb t8_ [58]) else Some false);
              (do (signal, value, i, used, len_li) <-
                (if c9_
                 then do t10_ <- tk l j; do v11_ <- int_tok t10_; do t12_ <- tk l (j + 2);
                      do v13_ <- int_tok t12_;
                      Some (signal, (v11_ * 3600 + v13_ * 60) * signal, (j + 2)%nat, used ++ [j], length t3_)
                 else do (signal, value, i, used, len_li) <-
                        (if (length t3_ <=? 2)%nat
                         then do t14_ <- tk l j; do v15_ <- int_tok (firstn 2 t14_);
                              Some (signal, v15_ * 3600 * signal, j, used, length t3_)
                         else None);
                      Some (signal, value, i, used, len_li));
               Some (signal, value, i, used, len_li)));
       Some (value, (i + 1)%nat, used ++ [i]))) = r).
  { clear. intros j signal used r ->. unfold read_hhmm, tk_is, C_COLON.
    destruct (tk l j) as [t|] eqn:Et; [|reflexivity]. ob.
    destruct (length t =? 4)%nat eqn:E4.
    - ob. destruct (int_tok (firstn 2 t)); [|reflexivity]. ob.
      destruct (int_tok (skipn 2 t)); [|reflexivity]. fin.
    - rewrite Nat.add_1_r. destruct (S j <? length l)%nat eqn:El.
      + destruct (tk_lt _ _ El) as [t8 E8]. rewrite E8. ob.
        destruct (list_eqb t8 [58]).
        * ob. destruct (int_tok t); [|reflexivity]. ob.
          destruct (tk l (j + 2)) as [t2|]; [|reflexivity]. ob.
          destruct (int_tok t2); [|reflexivity]. fin.
        * ob. destruct (length t <=? 2)%nat; [|reflexivity]. ob.
          destruct (int_tok (firstn 2 t)); [|reflexivity]. fin.
      + rewrite (tk_ge _ _ El). ob.
        destruct (length t <=? 2)%nat; [|reflexivity]. ob.
        destruct (int_tok (firstn 2 t)); [|reflexivity]. fin. }
  destruct (list_eqb t [43]) eqn:Ep; [|destruct (list_eqb t [45]) eqn:Em]; ob;
    apply H; rewrite ?Nat.add_1_r; reflexivity.
Qed.

Lemma gen_read_rule_time_eq : forall l i,
  gen_read_rule_time l i =
  (do (v, i2, u2) <- read_hhmm true l (S i); Some (v, i2, [i] ++ u2)).
Proof.
  intros. unfold gen_read_rule_time, read_hhmm, tk_is, C_COLON. cbv zeta.
  rewrite !Nat.add_1_r.
  destruct (tk l (S i)) as [t|] eqn:Et; [|reflexivity]. ob.
  destruct (length t =? 4)%nat eqn:E4.
  - ob. destruct (int_tok (firstn 2 t)); [|reflexivity]. ob.
    destruct (int_tok (skipn 2 t)); [|reflexivity]. fin.
  - destruct (S (S i) <? length l)%nat eqn:El.
    + destruct (tk_lt _ _ El) as [t8 E8]. rewrite E8. ob.
      destruct (list_eqb t8 [58]).
      * ob. destruct (int_tok t); [|reflexivity]. ob.
        destruct (tk l (S i + 2)) as [t2|]; [|reflexivity]. ob.
        destruct (int_tok t2); [|reflexivity]. ob.
        destruct (S (S i + 2) <? length l)%nat eqn:El2.
        -- destruct (tk_lt _ _ El2) as [t9 E9]. rewrite E9. ob.
           destruct (list_eqb t9 [58]).
           ++ ob. destruct (tk l (S i + 2 + 2)) as [t3|]; [|reflexivity]. ob.
              destruct (int_tok t3); [|reflexivity]. fin.
           ++ fin.
        -- rewrite (tk_ge _ _ El2). fin.
      * ob. destruct (length t <=? 2)%nat; [|reflexivity]. ob.
        destruct (int_tok (firstn 2 t)); [|reflexivity]. fin.
    + rewrite (tk_ge _ _ El). ob.
      destruct (length t <=? 2)%nat; [|reflexivity]. ob.
      destruct (int_tok (firstn 2 t)); [|reflexivity]. fin.
Qed.

Ltac dtk l j t := destruct (tk l j) as [t|] eqn:?; [|reflexivity]; ob.
Ltac dint t := destruct (int_tok t); [|reflexivity]; ob.
Ltac dintn t n := destruct (int_tok t) as [n|]; [|reflexivity]; ob.

Lemma gen_posix_rule_eq : forall l i, gen_posix_rule l i = posix_rule l i.
Proof.
  intros. unfold gen_posix_rule, posix_rule, is_dash_or_dot, tk_is, C_J, C_M, C_MINUS, C_DOT. cbv zeta.
  destruct (tk l i) as [t|] eqn:Et; [|reflexivity]. ob.
  assert (TAIL : forall i0 used xm xw xwd xy xj xd,
    (let used0 := used ++ [i0] in
     let i1 := (i0 + 1)%nat in
     do c22_ <- (if (i1 <? length l)%nat then do t21_ <- tk l i1; Some (list_eqb t21_ [47]) else Some false);
     do (i2, used1, x_month0, x_week0, x_weekday0, x_yday0, x_jyday0, x_day0, x_time0) <-
     (if c22_ then
       let used1 := used0 ++ [i1] in
       let i2 := (i1 + 1)%nat in
       do t23_ <- tk l i2;
       let len_li := length t23_ in
       do (i3, used2, _, x_month0, x_week0, x_weekday0, x_yday0, x_jyday0, x_day0, x_time0) <-
       (if (len_li =? 4)%nat then
         do t24_ <- tk l i2; do v25_ <- int_tok (firstn 2 t24_); do t26_ <- tk l i2;
         do v27_ <- int_tok (skipn 2 t26_);
         let a28_ := v25_ * 3600 + v27_ * 60 in
         Some (i2, used1, len_li, xm, xw, xwd, xy, xj, xd, Some a28_)
        else
         do c30_ <- (if (i2 + 1 <? length l)%nat then do t29_ <- tk l (i2 + 1); Some (list_eqb t29_ [58]) else Some false);
         do (i3, used2, len_li0, x_month0, x_week0, x_weekday0, x_yday0, x_jyday0, x_day0, x_time0) <-
         (if c30_ then
           do t31_ <- tk l i2; do v32_ <- int_tok t31_; do t33_ <- tk l (i2 + 2); do v34_ <- int_tok t33_;
           let a35_ := v32_ * 3600 + v34_ * 60 in
           let used2 := used1 ++ [i2] in
           let i3 := (i2 + 2)%nat in
           do c37_ <- (if (i3 + 1 <? length l)%nat then do t36_ <- tk l (i3 + 1); Some (list_eqb t36_ [58]) else Some false);
           do (i4, used3, len_li0, x_month0, x_week0, x_weekday0, x_yday0, x_jyday0, x_day0, x_time0) <-
           (if c37_ then
             let used3 := used2 ++ [i3] in
             let i4 := (i3 + 2)%nat in
             do t38_ <- tk l i4; do v39_ <- int_tok t38_;
             let a40_ := a35_ + v39_ in
             Some (i4, used3, len_li, xm, xw, xwd, xy, xj, xd, Some a40_)
            else Some (i3, used2, len_li, xm, xw, xwd, xy, xj, xd, Some a35_));
           Some (i4, used3, len_li0, x_month0, x_week0, x_weekday0, x_yday0, x_jyday0, x_day0, x_time0)
          else
           do (i3, used2, len_li0, x_month0, x_week0, x_weekday0, x_yday0, x_jyday0, x_day0, x_time0) <-
           (if (len_li <=? 2)%nat then
             do t41_ <- tk l i2; do v42_ <- int_tok (firstn 2 t41_);
             let a43_ := v42_ * 3600 in
             Some (i2, used1, len_li, xm, xw, xwd, xy, xj, xd, Some a43_)
            else None);
           Some (i3, used2, len_li0, x_month0, x_week0, x_weekday0, x_yday0, x_jyday0, x_day0, x_time0));
         Some (i3, used2, len_li0, x_month0, x_week0, x_weekday0, x_yday0, x_jyday0, x_day0, x_time0));
       let used3 := used2 ++ [i3] in
       let i4 := (i3 + 1)%nat in
       Some (i4, used3, x_month0, x_week0, x_weekday0, x_yday0, x_jyday0, x_day0, x_time0)
      else Some (i1, used0, xm, xw, xwd, xy, xj, xd, @None Z));
     do c45_ <- (if (i2 =? length l)%nat then Some true else do t44_ <- tk l i2; Some (list_eqb t44_ [44]));
     if c45_ then let i3 := (i2 + 1)%nat in
       Some (mkAttr x_month0 x_week0 x_weekday0 x_yday0 x_jyday0 x_day0 x_time0, i3, used1)
     else None)
    =
    (let a := mkAttr xm xw xwd xy xj xd None in
     let u := used ++ [i0] in let i := S i0 in
     do (a, i, u) <-
      (if tk_is l i C_SLASH then
         do (v, i2, u2) <- read_hhmm true l (S i);
         Some (mkAttr a.(x_month) a.(x_week) a.(x_weekday) a.(x_yday) a.(x_jyday) a.(x_day) (Some v),
               i2, u ++ [i] ++ u2)
       else Some (a, i, u));
     if (i =? length l)%nat || tk_is l i C_COMMA then Some (a, S i, u)
     else if (length l <? i)%nat then None else None)).
  { clear. intros. cbv zeta. unfold read_hhmm, tk_is, C_SLASH, C_COMMA, C_COLON. cbn [x_month x_week x_weekday x_yday x_jyday x_day].
    rewrite !Nat.add_1_r.
    assert (FIN : forall (a : tzattr) j (u : list nat),
      (do c45_ <- (if (j =? length l)%nat then Some true else do t44_ <- tk l j; Some (list_eqb t44_ [44]));
       if c45_ then Some (a, S j, u) else None) =
      (if (j =? length l)%nat || match tk l j with Some t => list_eqb t [44] | None => false end
       then Some (a, S j, u) else if (length l <? j)%nat then None else None)).
    { intros. destruct (j =? length l)%nat; [reflexivity|]. ob.
      destruct (tk l j) as [t|]; ob; [|destruct (length l <? j)%nat; reflexivity].
      destruct (list_eqb t [44]); [reflexivity|]. destruct (length l <? j)%nat; reflexivity. }
    destruct (S i0 <? length l)%nat eqn:El0.
    2:{ rewrite (tk_ge _ _ El0). ob. rewrite <- FIN. rewrite Nat.add_1_r. reflexivity. }
    destruct (tk_lt _ _ El0) as [ts Es]. rewrite Es. ob.
    destruct (list_eqb ts [47]).
    2:{ ob. rewrite <- FIN. rewrite Nat.add_1_r. reflexivity. }
    ob.
    destruct (tk l (S (S i0))) as [t|] eqn:Et; [|reflexivity]. ob.
    destruct (length t =? 4)%nat eqn:E4.
    - ob. dint (firstn 2 t). dint (skipn 2 t). rewrite <- FIN. rewrite !Nat.add_1_r, <- ?app_assoc. reflexivity.
    - destruct (S (S (S i0)) <? length l)%nat eqn:El.
      + destruct (tk_lt _ _ El) as [t8 E8]. rewrite E8. ob.
        destruct (list_eqb t8 [58]).
        * ob. dint t.
          destruct (tk l (S (S i0) + 2)) as [t2|]; [|reflexivity]. ob. dint t2.
          destruct (S (S (S i0) + 2) <? length l)%nat eqn:El2.
          -- destruct (tk_lt _ _ El2) as [t9 E9]. rewrite E9. ob.
             destruct (list_eqb t9 [58]).
             ++ ob. destruct (tk l (S (S i0) + 2 + 2)) as [t3|]; [|reflexivity]. ob. dint t3.
                rewrite <- FIN. rewrite !Nat.add_1_r, <- ?app_assoc. reflexivity.
             ++ ob. rewrite <- FIN. rewrite !Nat.add_1_r, <- ?app_assoc. reflexivity.
          -- rewrite (tk_ge _ _ El2). ob. rewrite <- FIN. rewrite !Nat.add_1_r, <- ?app_assoc. reflexivity.
        * ob. destruct (length t <=? 2)%nat; [|reflexivity]. ob. dint (firstn 2 t).
          rewrite <- FIN. rewrite !Nat.add_1_r, <- ?app_assoc. reflexivity.
      + rewrite (tk_ge _ _ El). ob.
        destruct (length t <=? 2)%nat; [|reflexivity]. ob. dint (firstn 2 t).
        rewrite <- FIN. rewrite !Nat.add_1_r, <- ?app_assoc. reflexivity. }
  destruct (list_eqb t [74]) eqn:EJ.
  - ob. rewrite !Nat.add_1_r. dtk l (S i) t1. dint t1. apply TAIL.
  - ob. destruct (list_eqb t [77]) eqn:EM.
    + ob. rewrite !Nat.add_1_r. dtk l (S i) t1. dintn t1 mo.
      dtk l (S (S i)) t2. destruct (list_eqb t2 [45] || list_eqb t2 [46]); [|reflexivity]. ob.
      dtk l (S (S (S i))) t3. dintn t3 wk.
      destruct (wk =? 5); ob; rewrite ?Nat.add_1_r;
        (destruct (tk l (S (S (S (S i))))) as [t4|]; [|reflexivity]); ob;
        (destruct (list_eqb t4 [45] || list_eqb t4 [46]); [|reflexivity]); ob; rewrite ?Nat.add_1_r;
        (destruct (tk l (S (S (S (S (S i)))))) as [t5|]; [|reflexivity]); ob;
        (destruct (int_tok t5); [|reflexivity]); ob; apply TAIL.
    + ob. dint t. apply TAIL.
Qed.

(* gen_dep_rule: one pass of the rule loop of the deprecated comma format = dep_rule;
   gen_name_tok / gen_span_name: the character class and the span loop of the abbreviation = name_tok / span_name *)
Lemma gen_dep_rule_eq : forall l i, gen_dep_rule l i = dep_rule l i.
Proof.
  intros. unfold gen_dep_rule, dep_rule, C_MINUS. cbv zeta.
  destruct (tk l i) as [t0|]; [|reflexivity]. ob.
  destruct (int_tok t0) as [mo|]; [|reflexivity]. ob.
  destruct (tk l (i + 2)) as [t1|] eqn:E1; [|reflexivity]. ob.
  assert (R : forall (value : Z) (j : nat) (u : list nat),
    (let used := u ++ [j] in let i := (j + 2)%nat in
     do (value, i, used, x_month, x_week, x_weekday, x_yday, x_jyday, x_day, x_time) <-
       (if negb (value =? 0)
        then do t10_ <- tk l i; do v11_ <- int_tok t10_;
             Some (value, i, used, Some mo, Some value, Some ((v11_ - 1) mod 7), @None Z, @None Z, @None Z, @None Z)
        else do t13_ <- tk l i; do v14_ <- int_tok t13_;
             Some (value, i, used, Some mo, @None Z, @None Z, @None Z, @None Z, Some v14_, @None Z));
     let used := used ++ [i] in let i := (i + 2)%nat in
     do t16_ <- tk l i; do v17_ <- int_tok t16_;
     Some (mkAttr x_month x_week x_weekday x_yday x_jyday x_day (Some v17_), (i + 2)%nat, used ++ [i]))
    =
    (let u2 := [j] in let i := (j + 2)%nat in
     do t2 <- tk l i; do n2 <- int_tok t2;
     let a := if value =? 0 then mkAttr (Some mo) None None None None (Some n2) None
              else mkAttr (Some mo) (Some value) (Some ((n2 - 1) mod 7)) None None None None in
     let u3 := [i] in let i := (i + 2)%nat in
     do t3 <- tk l i; do tm <- int_tok t3;
     let a := mkAttr (x_month a) (x_week a) (x_weekday a) (x_yday a) (x_jyday a) (x_day a) (Some tm) in
     Some (a, (i + 2)%nat, (u ++ u2) ++ u3 ++ [i]))).
  { clear. intros. cbv zeta.
    destruct (value =? 0); cbn [negb]; destruct (tk l (j + 2)) as [t2|]; try reflexivity; ob;
      (destruct (int_tok t2) as [n2|]; [|reflexivity]); ob;
      (destruct (tk l (j + 2 + 2)) as [t3|]; [|reflexivity]); ob;
      (destruct (int_tok t3) as [tm|]; [|reflexivity]); ob;
      cbn [x_month x_week x_weekday x_yday x_jyday x_day]; rewrite <- ?app_assoc; reflexivity. }
  destruct (list_eqb t1 [45]).
  - ob. rewrite Nat.add_1_r. destruct (tk l (S (i + 2))) as [t|]; [|reflexivity]. ob.
    destruct (int_tok t) as [v|]; [|reflexivity]. ob.
    etransitivity; [apply R|]. cbv zeta. cbn [app]. rewrite <- ?app_assoc. reflexivity.
  - ob. destruct (int_tok t1) as [v|]; [|reflexivity]. ob.
    etransitivity; [apply R|]. cbv zeta. cbn [app]. rewrite <- ?app_assoc. reflexivity.
Qed.

Lemma in_class_eq : forall c,
  existsb (Z.eqb c) [48; 49; 50; 51; 52; 53; 54; 55; 56; 57; 58; 44; 45; 43] =
  (is_digit c || (c =? 58) || (c =? 44) || (c =? 45) || (c =? 43)).
Proof.
  intros. unfold is_digit. cbn [existsb].
  destruct (48 <=? c) eqn:A; destruct (c <=? 57) eqn:B; cbn [andb orb].
  - apply Z.leb_le in A. apply Z.leb_le in B.
    assert (H : c = 48 \/ c = 49 \/ c = 50 \/ c = 51 \/ c = 52 \/ c = 53 \/ c = 54 \/ c = 55 \/ c = 56 \/ c = 57) by lia.
    repeat (destruct H as [H|H]; [subst c; reflexivity|]). subst c; reflexivity.
  - apply Z.leb_gt in B.
    repeat match goal with |- context [c =? ?k] =>
      lazymatch k with 58 => fail | 44 => fail | 45 => fail | 43 => fail | _ =>
        replace (c =? k) with false by (symmetry; apply Z.eqb_neq; lia) end end.
    destruct (c =? 58), (c =? 44), (c =? 45), (c =? 43); reflexivity.
  - apply Z.leb_gt in A.
    repeat match goal with |- context [c =? ?k] =>
      lazymatch k with 58 => fail | 44 => fail | 45 => fail | 43 => fail | _ =>
        replace (c =? k) with false by (symmetry; apply Z.eqb_neq; lia) end end.
    destruct (c =? 58), (c =? 44), (c =? 45), (c =? 43); reflexivity.
  - apply Z.leb_gt in A. apply Z.leb_gt in B. lia.
Qed.

Lemma gen_name_tok_eq : forall t, gen_name_tok t = name_tok t.
Proof.
  unfold gen_name_tok, name_tok. induction t as [|c t IH]; [reflexivity|].
  cbn [filter forallb]. rewrite in_class_eq.
  destruct (is_digit c || (c =? 58) || (c =? 44) || (c =? 45) || (c =? 43)); cbn [negb andb]; [reflexivity|exact IH].
Qed.

Lemma gen_span_name_eq : forall suffix j, gen_span_name suffix j = span_name suffix j.
Proof.
  induction suffix as [|t rest IH]; intros; [reflexivity|].
  cbn [gen_span_name span_name]. rewrite gen_name_tok_eq, Nat.add_1_r, IH. reflexivity.
Qed.
