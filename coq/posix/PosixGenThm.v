(* The definitions REGENERATED from /repo's source on every run (coq/gen/PosixGen.v, by
   harness/gen_posix.py) are the hand models, for ALL inputs. *)
From Coq Require Import ZArith List Bool Lia.
From V Require Import base.Cal posix.PTime posix.RDelta posix.TzParseModel posix.TzRangeModel
     posix.PosixSpec posix.TzLocalModel posix.IcalModel posix.IcalConcModel gen.PosixGen.
Import ListNotations.
Open Scope Z_scope.

Ltac cases :=
  repeat match goal with
  | |- context [match ?x with _ => _ end] => destruct x eqn:?
  end; try reflexivity; try discriminate.

(* ---- tzrangebase / tzrange ---- *)
Lemma gen_dst_base_offset_eq z : gen_dst_base_offset z = dst_base z.
Proof. reflexivity. Qed.

Lemma gen_naive_isdst_eq dt a b : gen_naive_isdst dt (a, b) = naive_isdst dt a b.
Proof. unfold gen_naive_isdst, naive_isdst. destruct (a <? b); reflexivity. Qed.

Lemma gen_transitions_eq z y : gen_transitions z y = transitions z y.
Proof. unfold gen_transitions, transitions. destruct (z_hasdst z); reflexivity. Qed.

Lemma gen_is_ambiguous_eq z w : gen_is_ambiguous z w = is_ambiguous z w.
Proof.
  unfold gen_is_ambiguous, is_ambiguous. rewrite gen_transitions_eq, gen_dst_base_offset_eq.
  destruct (z_hasdst z); cbn [negb]; [|reflexivity].
  destruct (transitions z (year_of_secs w)) as [[[s e]|]|]; reflexivity.
Qed.

Lemma gen_isdst_eq z w f : gen_isdst z w f = isdst z w f.
Proof.
  unfold gen_isdst, isdst. rewrite gen_transitions_eq.
  destruct (z_hasdst z); cbn [negb]; [|reflexivity].
  destruct (transitions z (year_of_secs w)) as [[[s e]|]|]; cbn [rbind]; try reflexivity.
  rewrite gen_naive_isdst_eq, gen_is_ambiguous_eq.
  destruct (naive_isdst w s e); cbn [negb rbind]; [reflexivity|].
  destruct (is_ambiguous z w) as [[|]|]; reflexivity.
Qed.

Lemma gen_utcoffset_eq z w f : gen_utcoffset z w f = utcoffset z w f.
Proof. unfold gen_utcoffset, utcoffset. rewrite gen_isdst_eq. reflexivity. Qed.

Lemma gen_dst_eq z w f : gen_dst z w f = dst z w f.
Proof. unfold gen_dst, dst. rewrite gen_isdst_eq. reflexivity. Qed.

Lemma gen_tzname_eq z w f : gen_tzname z w f = tzname z w f.
Proof.
  unfold gen_tzname, tzname. rewrite gen_isdst_eq.
  destruct (isdst z w f) as [[|]|]; reflexivity.
Qed.

Lemma gen_fromutc_eq z u : gen_fromutc z u = fromutc z u.
Proof.
  unfold gen_fromutc, fromutc. rewrite gen_transitions_eq.
  destruct (transitions z (year_of_secs u)) as [[[s e]|]|]; cbn [rbind]; try reflexivity.
  - rewrite gen_naive_isdst_eq.
    destruct (naive_isdst u (s - z_std_off z) (e - z_std_off z)); cbn [negb rbind]; [reflexivity|].
    rewrite gen_is_ambiguous_eq. reflexivity.
  - rewrite gen_utcoffset_eq. destruct (utcoffset z u false); reflexivity.
Qed.

(* ---- tzstr._delta ---- *)
Lemma gen_tzstr_delta_eq so d x isend : gen_tzstr_delta so d x isend = tzstr_delta so d x isend.
Proof.
  unfold gen_tzstr_delta, tzstr_delta.
  destruct x as [[m|] [wk|] [wd|] [yd|] [jd|] [dy|] [tm|]]; destruct isend;
    cbn [x_month x_week x_weekday x_yday x_jyday x_day x_time some_or truthy_oz is_none andb negb];
    try reflexivity;
    try (repeat match goal with |- context [if ?b then _ else _] => destruct b end; reflexivity).
Qed.

(* ---- tzlocal ---- *)
Section Local.
  Variable libc : Z -> bool.
  Variables std alt : Z.
  Variable daylight : bool.
  Variables sn dn : list Z.

  Lemma gen_l_naive_is_dst_eq w :
    gen_l_naive_is_dst libc std alt daylight sn dn w = l_naive_is_dst libc std w.
  Proof. unfold gen_l_naive_is_dst, l_naive_is_dst. f_equal. lia. Qed.

  Lemma gen_l_is_ambiguous_eq w :
    gen_l_is_ambiguous libc std alt daylight sn dn w = l_is_ambiguous libc std alt daylight w.
  Proof. unfold gen_l_is_ambiguous, l_is_ambiguous. rewrite !gen_l_naive_is_dst_eq. reflexivity. Qed.

  Lemma gen_l_isdst_eq w f :
    gen_l_isdst libc std alt daylight sn dn w f = l_isdst libc std alt daylight w f.
  Proof.
    unfold gen_l_isdst, l_isdst. rewrite gen_l_is_ambiguous_eq, gen_l_naive_is_dst_eq. reflexivity.
  Qed.

  Lemma gen_l_utcoffset_eq w f :
    gen_l_utcoffset libc std alt daylight sn dn w f = l_utcoffset libc std alt daylight w f.
  Proof. unfold gen_l_utcoffset, l_utcoffset. rewrite gen_l_isdst_eq. reflexivity. Qed.

  Lemma gen_l_dst_eq w f :
    gen_l_dst libc std alt daylight sn dn w f = l_dst libc std alt daylight w f.
  Proof. unfold gen_l_dst, l_dst. rewrite gen_l_isdst_eq. reflexivity. Qed.

  Lemma gen_l_tzname_eq w f :
    gen_l_tzname libc std alt daylight sn dn w f = l_tzname libc std alt daylight sn dn w f.
  Proof. unfold gen_l_tzname, l_tzname. rewrite gen_l_isdst_eq. reflexivity. Qed.
End Local.

(* ---- _tzicalvtz ---- *)
Lemma gen_find_compdt_eq cs c w f : gen_find_compdt cs c w f = find_compdt c w f.
Proof. unfold gen_find_compdt, find_compdt. destruct ((c_diff c <? 0) && f); reflexivity. Qed.

Lemma gen_ic_utcoffset_eq cs w f : gen_ic_utcoffset cs w f = ic_utcoffset cs w f.
Proof. reflexivity. Qed.

Lemma gen_ic_dst_eq cs w f : gen_ic_dst cs w f = ic_dst cs w f.
Proof. reflexivity. Qed.

Lemma gen_ic_tzname_eq cs w f : gen_ic_tzname cs w f = ic_tzname cs w f.
Proof. reflexivity. Qed.

(* the lock discipline the interleaving theorem assumes is the one the source has *)
Lemma gen_lock_discipline : gen_cache_access_under_lock = true.
Proof. reflexivity. Qed.
