(* Under the lock discipline of the code (hit path atomic), any interleaving of any number of
   threads on one zone object returns, for every query, the single-threaded stateless answer.
   With the read moved outside the lock the statement is false. *)
From Coq Require Import ZArith List Bool Lia.
From V Require Import posix.RDelta posix.IcalModel posix.IcalConcModel.
Import ListNotations.
Open Scope Z_scope.

Section Conc.
  Variable cs : list comp.

  Definition key_ok (q : key) (c : nat) : Prop := find_comp_nocache cs (fst q) (snd q) = Some c.

  (* the two lists stay parallel and every entry is correct *)
  Definition sh_ok (sh : shared) : Prop :=
    length sh.(sh_dates) = length sh.(sh_comps) /\
    forall i q, nth_error sh.(sh_dates) i = Some q ->
      exists c, nth_error sh.(sh_comps) i = Some c /\ key_ok q c.

  Definition th_ok (th : thread) : Prop :=
    (forall q a, In (q, a) th.(t_out) -> a = expected cs q) /\
    match th.(t_phase) with PIns q c => key_ok q c | PGotIdx _ _ => False | _ => True end.

  Lemma key_eqb_eq a b : key_eqb a b = true -> a = b.
  Proof.
    destruct a as [x f], b as [y g]. unfold key_eqb. cbn. intros H.
    apply andb_prop in H. destruct H as [H1 H2]. apply Z.eqb_eq in H1. apply Bool.eqb_prop in H2.
    subst. reflexivity.
  Qed.

  Lemma index_of_nth l k : forall i j, index_of l k i = Some j ->
    (i <= j)%nat /\ nth_error l (j - i) = Some k.
  Proof.
    induction l as [|x t IH]; intros i j H; [discriminate|].
    cbn [index_of] in H. destruct (key_eqb x k) eqn:E.
    - inversion H; subst j. apply key_eqb_eq in E. subst x.
      replace (i - i)%nat with O by lia. split; [lia|reflexivity].
    - destruct (IH (S i) j H) as [L N]. split; [lia|].
      replace (j - i)%nat with (S (j - S i)) by lia. exact N.
  Qed.

  Lemma nth_error_removelast {A} (l : list A) i x :
    nth_error (removelast l) i = Some x -> nth_error l i = Some x.
  Proof.
    revert i. induction l as [|a [|b t] IH]; intros i H.
    - destruct i; discriminate.
    - destruct i; discriminate.
    - change (removelast (a :: b :: t)) with (a :: removelast (b :: t)) in H.
      destruct i; [exact H|]. cbn [nth_error] in *. apply IH. exact H.
  Qed.

  Lemma removelast_length {A} (l : list A) : length (removelast l) = pred (length l).
  Proof.
    induction l as [|a [|b t] IH]; [reflexivity|reflexivity|].
    change (removelast (a :: b :: t)) with (a :: removelast (b :: t)).
    cbn [length] in *. rewrite IH. reflexivity.
  Qed.

  Lemma nth_error_removelast_some {A} (l : list A) i x :
    nth_error l i = Some x -> (i < pred (length l))%nat -> nth_error (removelast l) i = Some x.
  Proof.
    revert i. induction l as [|a [|b t] IH]; intros i H L.
    - destruct i; discriminate.
    - cbn in L. lia.
    - change (removelast (a :: b :: t)) with (a :: removelast (b :: t)).
      destruct i; [exact H|]. cbn [nth_error] in *. apply IH; [exact H|]. cbn [length] in *. lia.
  Qed.

  Lemma insert_ok sh q c : sh_ok sh -> key_ok q c -> sh_ok (insert_front sh q c).
  Proof.
    intros [Hl Hn] Hk.
    assert (Hcons : sh_ok (mkSh (q :: sh_dates sh) (c :: sh_comps sh))).
    { split; [cbn; lia|]. intros i q' H. destruct i as [|i]; cbn [nth_error sh_dates sh_comps] in *.
      - inversion H; subst q'. exists c. split; [reflexivity|exact Hk].
      - apply Hn. exact H. }
    unfold insert_front. destruct (10 <? length (q :: sh_dates sh))%nat; [|exact Hcons].
    destruct Hcons as [Cl Cn]. cbn [sh_dates sh_comps] in *.
    split; cbn [sh_dates sh_comps].
    - rewrite !removelast_length. lia.
    - intros i q' H.
      assert (Hi : (i < pred (length (q :: sh_dates sh)))%nat).
      { assert (nth_error (removelast (q :: sh_dates sh)) i <> None) by congruence.
        apply nth_error_Some in H0. rewrite removelast_length in H0. exact H0. }
      apply nth_error_removelast in H. destruct (Cn i q' H) as (c' & N & K).
      exists c'. split; [|exact K]. apply nth_error_removelast_some; [exact N|]. lia.
  Qed.

  Lemma expected_ok q c : key_ok q c -> expected cs q = Ok c.
  Proof. unfold key_ok, expected. intros ->. reflexivity. Qed.

  Lemma finish_ok th q a : th_ok th -> a = expected cs q -> th_ok (finish th q a).
  Proof.
    intros [Ho _] Ha. split; [|exact I]. cbn [finish t_out]. intros q' a' Hin.
    apply in_app_or in Hin. destruct Hin as [Hin | [Hin | []]]; [apply Ho; exact Hin|].
    inversion Hin; subst. reflexivity.
  Qed.

  (* one step of one thread, hit path atomic, keeps both invariants *)
  Lemma cstep_ok sh th : sh_ok sh -> th_ok th ->
    sh_ok (fst (cstep cs true sh th)) /\ th_ok (snd (cstep cs true sh th)).
  Proof.
    intros Hs Ht. unfold cstep. destruct (t_phase th) eqn:Ph.
    - destruct (t_todo th) as [|q rest]; [split; assumption|].
      destruct (index_of (sh_dates sh) q 0) as [i|] eqn:Ix; cbn [fst snd].
      + split; [exact Hs|]. apply finish_ok; [exact Ht|].
        destruct (index_of_nth _ _ _ _ Ix) as [_ N]. replace (i - 0)%nat with i in N by lia.
        destruct Hs as [_ Hn]. destruct (Hn i q N) as (c & Nc & K).
        unfold read_comp. rewrite Nc. symmetry. apply expected_ok. exact K.
      + split; [exact Hs|]. destruct Ht as [Ho _]. split; [exact Ho|exact I].
    - (* PGotIdx does not arise when the hit path is atomic *)
      destruct Ht as [_ F]. rewrite Ph in F. destruct F.
    - (* scan: touches no shared state *)
      destruct (find_comp_nocache cs (fst q) (snd q)) as [c|] eqn:F; cbn [fst snd].
      + split; [exact Hs|]. destruct Ht as [Ho _]. split; [exact Ho|exact F].
      + split; [exact Hs|]. apply finish_ok; [exact Ht|]. unfold expected. rewrite F. reflexivity.
    - (* insert under the lock *)
      cbn [fst snd]. destruct Ht as [Ho K]. rewrite Ph in K. split.
      + apply insert_ok; assumption.
      + apply finish_ok; [split; [exact Ho|rewrite Ph; exact K]|].
        symmetry. apply expected_ok. exact K.
  Qed.

  Lemma set_nth_in {A} (l : list A) i x y : In y (set_nth l i x) -> y = x \/ In y l.
  Proof.
    revert i. induction l as [|a t IH]; intros i H; [destruct H|].
    destruct i; cbn [set_nth In] in *.
    - destruct H as [<- | H]; auto.
    - destruct H as [<- | H]; [auto|]. destruct (IH i H); auto.
  Qed.

  (* any schedule *)
  Lemma run_ok sched : forall sh ths,
    sh_ok sh -> (forall th, In th ths -> th_ok th) ->
    sh_ok (fst (run cs true sched sh ths)) /\
    forall th, In th (snd (run cs true sched sh ths)) -> th_ok th.
  Proof.
    induction sched as [|i rest IH]; intros sh ths Hs Ht; [split; assumption|].
    cbn [run]. destruct (nth_error ths i) as [th|] eqn:N; [|apply IH; assumption].
    pose proof (cstep_ok sh th Hs (Ht th (nth_error_In _ _ N))) as [S1 S2].
    destruct (cstep cs true sh th) as [sh' th']. cbn [fst snd] in *.
    apply IH; [exact S1|]. intros t Hin. destruct (set_nth_in _ _ _ _ Hin) as [-> | Hin']; auto.
  Qed.

  (* MEMO THEOREM for interleaved lookups: whatever the schedule and however many threads share
     the zone object, starting from an empty cache every recorded answer is the stateless one *)
  Theorem interleaved_lookups_are_stateless sched todos :
    forall th, In th (snd (run cs true sched (mkSh [] []) (map fresh todos))) ->
    forall q a, In (q, a) th.(t_out) -> a = expected cs q.
  Proof.
    intros th Hin q a Hq.
    assert (H0 : sh_ok (mkSh [] [])).
    { split; [reflexivity|]. intros i q' H. destruct i; discriminate. }
    assert (H1 : forall t, In t (map fresh todos) -> th_ok t).
    { intros t Ht. apply in_map_iff in Ht. destruct Ht as (td & <- & _). split; [|exact I].
      intros q' a' H. destruct H. }
    destruct (run_ok sched _ _ H0 H1) as [_ R]. destruct (R th Hin) as [Ho _]. apply (Ho q a Hq).
  Qed.
End Conc.

(* REFUTED when the hit path reads _cachecomp[idx] after releasing the lock (seeded change
   C17-2): thread 0 warms the cache with two wall readings and asks for the first again; between
   its index() and its read, thread 1 has a miss and inserts at the front *)
Definition conc_comps : list comp :=
  [mkComp [100] 0 3600 true None; mkComp [200] 3600 0 false None].

Lemma read_outside_lock_refuted :
  exists sched todos th q a,
    In th (snd (run conc_comps false sched (mkSh [] []) (map fresh todos))) /\
    In (q, a) th.(t_out) /\ a <> expected conc_comps q.
Proof.
  exists [0; 0; 0; 0; 0; 0; 0; 1; 1; 1; 0]%nat,
         [[(150, false); (250, false); (150, false)]; [(260, false)]].
  eexists. exists (150, false). eexists.
  split; [vm_compute; left; reflexivity|].
  split; [vm_compute; right; right; left; reflexivity|].
  vm_compute. discriminate.
Qed.
