(* SPECIFICATION of POSIX TZ rule zones, independent of dateutil's algorithm.

   A specification is  std offset [dst [offset] ,start[/time],end[/time]].
   Offsets in this AST are seconds EAST of UTC (the TZ string writes them west-positive).
   Dates:  Jn   1 <= n <= 365, February 29 is never counted;
           n    0 <= n <= 365, zero-based day of the year, leap days counted;
           Mm.w.d  the w-th (1..4; 5 = last) weekday d (0 = Sunday) of month m.
   Each year the START event happens at (start date, start time) read in local STANDARD time and
   the END event at (end date, end time) read in local DAYLIGHT time.  Daylight time is in force at
   an instant u iff the latest event at or before u is a START event -- no hemisphere cases. *)
From Coq Require Import ZArith List Bool.
From V Require Import base.Cal posix.PTime.
Import ListNotations.
Open Scope Z_scope.

Inductive drule :=
| DJ (n : Z)
| DN (n : Z)
| DM (m w d : Z).

Record prule := mkPrule { pr_date : drule; pr_time : Z }.       (* time in seconds *)

Record dstpart := mkDst {
  d_name : list Z; d_off : Z;
  d_start : prule; d_end : prule }.

Record posix := mkPosix { p_name : list Z; p_off : Z; p_dst : option dstpart }.

Definition jan1 (y : Z) : Z := days_before_year y + 1.

(* weekday with Sunday = 0 (ordinal 1 = 0001-01-01 is a Monday) *)
Definition wd_sun (o : Z) : Z := o mod 7.

(* proleptic Gregorian ordinal of the rule's date in year y *)
Definition date_of (d : drule) (y : Z) : Z :=
  match d with
  | DJ n => jan1 y + (n - 1) + (if is_leap y && (60 <=? n) then 1 else 0)
  | DN n => jan1 y + n
  | DM m w d =>
      let first := ord_of_ymd y m 1 in
      let firstd := first + (d - wd_sun first) mod 7 in        (* first weekday d of the month *)
      if w <? 5 then firstd + 7 * (w - 1)
      else if firstd + 28 <? first + dim y m then firstd + 28 else firstd + 21
  end.

(* the two events of year y as UTC readings *)
Definition start_utc (off : Z) (ds : dstpart) (y : Z) : Z :=
  date_of ds.(d_start).(pr_date) y * DAY + ds.(d_start).(pr_time) - off.
Definition end_utc (ds : dstpart) (y : Z) : Z :=
  date_of ds.(d_end).(pr_date) y * DAY + ds.(d_end).(pr_time) - ds.(d_off).

Definition events (off : Z) (ds : dstpart) (y : Z) : list (Z * bool) :=
  [(start_utc off ds y, true); (end_utc ds y, false)].

(* latest event <= u in a list; on equal times the later list element wins (excluded by wf) *)
Fixpoint latest (evs : list (Z * bool)) (u : Z) (best : option (Z * bool)) : option (Z * bool) :=
  match evs with
  | [] => best
  | (t, b) :: rest =>
      let best' := if t <=? u then
                     match best with
                     | Some (t0, _) => if t0 <=? t then Some (t, b) else best
                     | None => Some (t, b)
                     end
                   else best in
      latest rest u best'
  end.

(* events of the years around u's UTC year: enough for every rule whose events stay within
   a year of their own year (lemma latest_window in PosixThm.v) *)
Definition posix_isdst (r : posix) (u : Z) : bool :=
  match r.(p_dst) with
  | None => false
  | Some ds =>
      let y := year_of_secs u in
      match latest (events r.(p_off) ds (y - 1) ++ events r.(p_off) ds y ++
                    events r.(p_off) ds (y + 1)) u None with
      | Some (_, b) => b
      | None => false
      end
  end.

(* (utc offset, dst saving, abbreviation) in force at UTC reading u *)
Definition posix_observe (r : posix) (u : Z) : Z * Z * list Z :=
  match r.(p_dst) with
  | None => (r.(p_off), 0, r.(p_name))
  | Some ds =>
      if posix_isdst r u then (ds.(d_off), ds.(d_off) - r.(p_off), ds.(d_name))
      else (r.(p_off), 0, r.(p_name))
  end.

(* the PEP 495 fold flag of the local reading of instant u: 1 iff u is the LATER of two instants
   showing the same wall reading, i.e. standard time is in force at u and daylight time was in
   force one saving earlier *)
Definition posix_fold (r : posix) (u : Z) : bool :=
  match r.(p_dst) with
  | None => false
  | Some ds => negb (posix_isdst r u) && posix_isdst r (u - (ds.(d_off) - r.(p_off)))
  end.

(* wall reading w: the UTC instants that display w *)
Definition wall_candidates (r : posix) (w : Z) : list Z :=
  match r.(p_dst) with
  | None => [w - r.(p_off)]
  | Some ds =>
      (if posix_isdst r (w - ds.(d_off)) then [w - ds.(d_off)] else []) ++
      (if negb (posix_isdst r (w - r.(p_off))) then [w - r.(p_off)] else [])
  end.

(* 0 = imaginary (gap), 1 = normal, 2 = ambiguous *)
Definition wall_class (r : posix) (w : Z) : Z := Z.of_nat (length (wall_candidates r w)).

(* the instant a wall reading with a fold flag denotes (PEP 495): the earlier candidate for
   fold=0, the later for fold=1; None for imaginary readings *)
Definition wall_instant (r : posix) (w : Z) (fold : bool) : option Z :=
  match wall_candidates r w with
  | [] => None
  | [u] => Some u
  | u1 :: u2 :: _ => Some (if fold then Z.max u1 u2 else Z.min u1 u2)
  end.

(* ---------------------------------------------------------------------------------- *)
(* rendering as a TZ string                                                           *)

Fixpoint digits_n (k : nat) (n : Z) : list Z :=
  match k with
  | O => []
  | S k' => digits_n k' (n / 10) ++ [48 + n mod 10]
  end.

(* decimal digits of n >= 0 without leading zeros, at least one digit (n < 10^6) *)
Definition dec (n : Z) : list Z :=
  if n <? 10 then digits_n 1 n else if n <? 100 then digits_n 2 n
  else if n <? 1000 then digits_n 3 n else if n <? 10000 then digits_n 4 n
  else if n <? 100000 then digits_n 5 n else digits_n 6 n.

(* The canonical rendering always writes every optional part: offsets as [+-]h:mm (dateutil's
   offset grammar has no seconds), rule times as h:mm:ss.  Shorter forms (h, hh, hhmm, omitted
   /time, omitted sign, omitted dst offset) are exercised by the correspondence. *)
Definition render_hms (t : Z) : list Z :=
  dec (t / 3600) ++ [58] ++ digits_n 2 ((t / 60) mod 60) ++ [58] ++ digits_n 2 (t mod 60).

Definition render_hm (t : Z) : list Z :=
  dec (t / 3600) ++ [58] ++ digits_n 2 ((t / 60) mod 60).

(* offset east of UTC -> POSIX west-positive text with explicit sign *)
Definition render_off (east : Z) : list Z :=
  let v := - east in
  if v <? 0 then [45] ++ render_hm (- v) else [43] ++ render_hm v.

Definition render_date (d : drule) : list Z :=
  match d with
  | DJ n => [74] ++ dec n
  | DN n => dec n
  | DM m w d => [77] ++ dec m ++ [46] ++ dec w ++ [46] ++ dec d
  end.

Definition render_rule (p : prule) : list Z :=
  render_date p.(pr_date) ++ [47] ++ render_hms p.(pr_time).

Definition render_posix (r : posix) : list Z :=
  r.(p_name) ++ render_off r.(p_off) ++
  match r.(p_dst) with
  | None => []
  | Some ds => ds.(d_name) ++ render_off ds.(d_off) ++ [44] ++ render_rule ds.(d_start) ++
               [44] ++ render_rule ds.(d_end)
  end.

(* ---------------------------------------------------------------------------------- *)
(* well-formedness and the executable guards of the theorems                          *)

Definition is_alpha_c (c : Z) : bool := ((65 <=? c) && (c <=? 90)) || ((97 <=? c) && (c <=? 122)).

Definition wf_name (n : list Z) : bool := (3 <=? length n)%nat && forallb is_alpha_c n.

Definition wf_date (d : drule) : bool :=
  match d with
  | DJ n => (1 <=? n) && (n <=? 365)
  | DN n => (0 <=? n) && (n <=? 365)
  | DM m w d => (1 <=? m) && (m <=? 12) && (1 <=? w) && (w <=? 5) && (0 <=? d) && (d <=? 6)
  end.

(* offsets: whole minutes (dateutil's offset grammar has no seconds), |off| < 24 h (CPython's
   tzinfo protocol rejects anything else); rule times 0 .. 167:59:59 *)
Definition wf_off (o : Z) : bool := (-86400 <? o) && (o <? 86400) && (o mod 60 =? 0).
Definition wf_time (t : Z) : bool := (0 <=? t) && (t <? 168 * 3600).

Definition wf_posix (r : posix) : bool :=
  wf_name r.(p_name) && wf_off r.(p_off) &&
  match r.(p_dst) with
  | None => true
  | Some ds => wf_name ds.(d_name) && wf_off ds.(d_off) &&
               wf_date ds.(d_start).(pr_date) && wf_time ds.(d_start).(pr_time) &&
               wf_date ds.(d_end).(pr_date) && wf_time ds.(d_end).(pr_time)
  end.

(* zero-based day-of-year range [lo, hi] a rule date can take over all years *)
Definition nl_dbm (m : Z) : Z := (367 * m - 362) / 12 - (if m <=? 2 then 0 else 2).
Definition nl_dim (m : Z) : Z :=
  if m =? 2 then 28 else if (m =? 4) || (m =? 6) || (m =? 9) || (m =? 11) then 30 else 31.

Definition yday_lo (d : drule) : Z :=
  match d with
  | DJ n => n - 1
  | DN n => n
  | DM m w d => if w <? 5 then nl_dbm m + 7 * (w - 1) else nl_dbm m + nl_dim m - 7
  end.
Definition yday_hi (d : drule) : Z :=
  match d with
  | DJ n => if 60 <=? n then n else n - 1
  | DN n => n
  | DM m w d => if w <? 5 then nl_dbm m + 7 * w else nl_dbm m + nl_dim m
  end.

(* "start and end at least a month apart and away from the year boundary", as an executable
   predicate on the rule alone: every year's two events, as UTC readings AND as local readings,
   stay at least two days inside the year, and the later one follows the earlier one by at
   least 28 days, in the same order every year. *)
Definition MARGIN : Z := 2 * DAY.

Definition guard_apart (r : posix) : bool :=
  match r.(p_dst) with
  | None => true
  | Some ds =>
      let s_lo := yday_lo ds.(d_start).(pr_date) * DAY + ds.(d_start).(pr_time) in
      let s_hi := yday_hi ds.(d_start).(pr_date) * DAY + ds.(d_start).(pr_time) in
      let e_lo := yday_lo ds.(d_end).(pr_date) * DAY + ds.(d_end).(pr_time) in
      let e_hi := yday_hi ds.(d_end).(pr_date) * DAY + ds.(d_end).(pr_time) in
      let a := Z.abs r.(p_off) + Z.abs ds.(d_off) in
      (MARGIN + a <=? s_lo) && (MARGIN + a <=? e_lo) &&
      (s_hi + MARGIN + a <=? 365 * DAY) && (e_hi + MARGIN + a <=? 365 * DAY) &&
      ((s_hi + 28 * DAY + a <=? e_lo) || (e_hi + 28 * DAY + a <=? s_lo)) &&
      (0 <? ds.(d_off) - r.(p_off)) && (ds.(d_off) - r.(p_off) <=? DAY)
  end.

(* D8: an M-rule's time of day, expressed in standard time, must lie in [0, 86400): outside,
   tzstr picks the wrong day (relativedelta applies the weekday after the seconds). *)
Definition is_M (d : drule) : bool := match d with DM _ _ _ => true | _ => false end.

Definition guard_d8 (r : posix) : bool :=
  match r.(p_dst) with
  | None => true
  | Some ds =>
      let ts := ds.(d_start).(pr_time) in
      let te := ds.(d_end).(pr_time) - (ds.(d_off) - r.(p_off)) in
      (negb (is_M ds.(d_start).(pr_date)) || ((0 <=? ts) && (ts <? DAY))) &&
      (negb (is_M ds.(d_end).(pr_date)) || ((0 <=? te) && (te <? DAY)))
  end.

Fixpoint zlist_eqb (a b : list Z) : bool :=
  match a, b with
  | [], [] => true
  | x :: a', y :: b' => (x =? y) && zlist_eqb a' b'
  | _, _ => false
  end.

(* the abbreviation is neither "GMT" nor "UTC" (for those tzstr reads the sign the other way
   round unless posix_offset=True) *)
Definition not_gmt_utc (n : list Z) : bool :=
  negb (zlist_eqb n [71; 77; 84] || zlist_eqb n [85; 84; 67]).
