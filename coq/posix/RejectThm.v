(* Malformed TZ strings are rejected with ValueError. *)
From Coq Require Import ZArith List Bool Lia.
From V Require Import base.Cal posix.PTime posix.RDelta posix.TzParseModel posix.TzRangeModel
     posix.PosixSpec posix.TransThm posix.MainThm posix.PosixThm.
Import ListNotations.
Open Scope Z_scope.

(* the mechanism, for ALL strings: whenever the parser gives up (returns None) or leaves a token
   other than ',' / ':' unused, tzstr raises ValueError -- whatever posix_offset is *)
Lemma tzstr_rejects_unparsed_lemma s po :
  tzparse s = Ok None \/ (exists p, tzparse s = Ok (Some p) /\ p.(r_unused) = true) ->
  tzstr_init s po = Err EValue.
Proof.
  intros [H | (p & H & U)]; unfold tzstr_init; rewrite H; cbn; [reflexivity|].
  rewrite U. reflexivity.
Qed.

(* the malformed classes of the property, built from a rule's canonical rendering:
   missing end rule, surplus rule, surplus /time, unknown character, missing time after '/',
   surplus field and missing field of an M date *)
Definition head_of (r : posix) (ds : dstpart) : list Z :=
  r.(p_name) ++ render_off r.(p_off) ++ ds.(d_name) ++ render_off ds.(d_off).

Definition malformed_variants (r : posix) : list (list Z) :=
  match r.(p_dst) with
  | None => []
  | Some ds =>
      let h := head_of r ds in
      let sr := render_rule ds.(d_start) in
      let er := render_rule ds.(d_end) in
      let sd := render_date ds.(d_start).(pr_date) in
      [ h ++ [44] ++ sr;                                         (* missing end rule *)
        h ++ [44] ++ sr ++ [44] ++ er ++ [44] ++ er;             (* surplus rule *)
        h ++ [44] ++ sr ++ [44] ++ er ++ [47; 50];               (* surplus /time *)
        h ++ [44; 35] ++ sr ++ [44] ++ er;                       (* unknown character '#' *)
        h ++ [44] ++ sr ++ [36] ++ [44] ++ er;                   (* unknown character '$' *)
        h ++ [44] ++ sd ++ [47] ++ [44] ++ er;                   (* '/' without a time *)
        h ++ [44] ++ sd ++ [46; 49] ++ [44] ++ er;               (* surplus field '.1' *)
        h ++ [44] ++ sr ++ [44]                                  (* end rule empty *)
      ] ++
      match ds.(d_start).(pr_date) with
      | DM m w _ => [h ++ [44] ++ [77] ++ dec m ++ [46] ++ dec w ++ [44] ++ er]  (* missing weekday *)
      | _ => []
      end
  end.

