(* Malformed TZ strings are rejected with ValueError. *)
From Coq Require Import ZArith List Bool Lia.
From V Require Import base.Cal posix.PTime posix.RDelta posix.TzParseModel posix.TzRangeModel
     posix.PosixSpec posix.TransThm posix.MainThm posix.PosixThm.
Import ListNotations.
Open Scope Z_scope.

(* the mechanism, for ALL strings: whenever the parser gives up (returns None) or leaves a token
   other than ',' / ':' unused, tzstr raises ValueError -- whatever posix_offset is *)
Lemma tzstr_rejects_unparsed_lemma s po :
  tzparse s = Ok None \/ (exists p, tzparse s = Ok (Some p) /\ p.(r_unused) = true) ->
  tzstr_init s po = Err EValue.
Proof.
  intros [H | (p & H & U)]; unfold tzstr_init; rewrite H; cbn; [reflexivity|].
  rewrite U. reflexivity.
Qed.

(* the malformed classes of the property, built from a rule's canonical rendering:
   missing end rule, surplus rule, surplus /time, unknown character, missing time after '/',
   surplus field and missing field of an M date *)
Definition head_of (r : posix) (ds : dstpart) : list Z :=
  r.(p_name) ++ render_off r.(p_off) ++ ds.(d_name) ++ render_off ds.(d_off).

Definition malformed_variants (r : posix) : list (list Z) :=
  match r.(p_dst) with
  | None => []
  | Some ds =>
      let h := head_of r ds in
      let sr := render_rule ds.(d_start) in
      let er := render_rule ds.(d_end) in
      let sd := render_date ds.(d_start).(pr_date) in
      [ h ++ [44] ++ sr;                                         (* missing end rule *)
        h ++ [44] ++ sr ++ [44] ++ er ++ [44] ++ er;             (* surplus rule *)
        h ++ [44] ++ sr ++ [44] ++ er ++ [47; 50];               (* surplus /time *)
        h ++ [44; 35] ++ sr ++ [44] ++ er;                       (* unknown character '#' *)
        h ++ [44] ++ sr ++ [36] ++ [44] ++ er;                   (* unknown character '$' *)
        h ++ [44] ++ sd ++ [47] ++ [44] ++ er;                   (* '/' without a time *)
        h ++ [44] ++ sd ++ [46; 49] ++ [44] ++ er;               (* surplus field '.1' *)
        h ++ [44] ++ sr ++ [44]                                  (* end rule empty *)
      ] ++
      match ds.(d_start).(pr_date) with
      | DM m w _ => [h ++ [44] ++ [77] ++ dec m ++ [46] ++ dec w ++ [44] ++ er]  (* missing weekday *)
      | _ => []
      end
  end.

Definition rejects_all (r : posix) : bool :=
  forallb (fun s =>
    match tzstr_init s false, tzstr_init s true with
    | Err 1, Err 1 => true
    | _, _ => false
    end) (malformed_variants r).

Definition rej_family : list posix :=
  flat_map (fun off =>
    flat_map (fun sv =>
    flat_map (fun sd =>
    flat_map (fun ed =>
    flat_map (fun st =>
    map (fun et => mkPosix [69; 83; 84] off
                     (Some (mkDst [69; 68; 84] (off + sv) (mkPrule sd st) (mkPrule ed et))))
        [7200; 604799]) [0; 9015]) [DJ 1; DJ 300; DN 0; DN 300; DM 1 1 0; DM 11 5 6])
                                   [DJ 60; DJ 365; DN 59; DN 365; DM 3 2 0; DM 12 4 3])
                                   [3600; -1800]) [-18000; 0; 19800].

Lemma rejects_family : forallb rejects_all rej_family = true.
Proof. vm_compute. reflexivity. Qed.

(* FULL STATEMENT (not proved in full): for every well-formed rule r and every s in
   malformed_variants r, tzstr_init s po = Err EValue.  Proved: the mechanism for all strings
   (tzstr_rejects_unparsed_lemma) and the classes for the finite family rej_family (864 rules x
   8-9 malformed strings x both posix_offset values) by computation. *)
Lemma tzparse_rejects_partial_lemma :
  forall r, In r rej_family -> forall s, In s (malformed_variants r) ->
  tzstr_init s false = Err EValue /\ tzstr_init s true = Err EValue.
Proof.
  intros r Hr s Hs. pose proof rejects_family as F. rewrite forallb_forall in F.
  specialize (F r Hr). unfold rejects_all in F. rewrite forallb_forall in F. specialize (F s Hs).
  destruct (tzstr_init s false) as [|e1]; [discriminate|].
  destruct (tzstr_init s true) as [|e2]; [destruct e1 as [|[]|]; discriminate|].
  unfold EValue.
  destruct e1 as [|[p|p|]|]; try discriminate; destruct e2 as [|[q|q|]|]; try discriminate; auto.
Qed.

Example rej_family_nonempty : length rej_family = 864%nat /\
  length (malformed_variants (hd (mkPosix [] 0 None) rej_family)) = 8%nat.
Proof. vm_compute. split; reflexivity. Qed.
