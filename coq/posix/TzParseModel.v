(* MODEL of dateutil.parser._parser._tzparser.parse (the TZ-variable string parser used by
   tz.tzstr), branch for branch.  Strings are lists of code points; the alphabet of the theorems
   and of the correspondence is ASCII (int() of CPython also accepts non-ASCII decimal digits,
   which the regular expression's [0-9] does not: not modelled, see notes/posix.md).

   Every IndexError / ValueError / AssertionError inside parse() is caught there and makes parse()
   return None: the model works in the option monad for them.  The one exception that escapes is
   the TypeError of `res.stdoffset + int(...)` with stdoffset None in the deprecated format. *)
From Coq Require Import ZArith List Bool.
From V Require Import posix.RDelta.
Import ListNotations.
Open Scope Z_scope.

(* ---------------------------------------------------------------------------------- *)
(* tokeniser:  [x for x in re.split(r'([,:.]|[a-zA-Z]+|[0-9]+)', s) if x]             *)

Definition is_digit (c : Z) : bool := (48 <=? c) && (c <=? 57).
Definition is_alpha (c : Z) : bool := ((65 <=? c) && (c <=? 90)) || ((97 <=? c) && (c <=? 122)).
Definition is_sep (c : Z) : bool := (c =? 44) || (c =? 58) || (c =? 46).     (* , : . *)

(* 1 letters, 2 digits, 3 single separator, 0 anything else (text between two matches) *)
Definition cls (c : Z) : Z :=
  if is_alpha c then 1 else if is_digit c then 2 else if is_sep c then 3 else 0.

Definition flush_tok (cur : list Z) : list (list Z) :=
  match cur with [] => [] | _ => [cur] end.

(* cur = characters of the token being collected, k = its class *)
Fixpoint tok (s : list Z) (cur : list Z) (k : Z) : list (list Z) :=
  match s with
  | [] => flush_tok cur
  | c :: t =>
      let kc := cls c in
      if kc =? 3 then flush_tok cur ++ [c] :: tok t [] 0
      else match cur with
           | [] => tok t [c] kc
           | _ => if kc =? k then tok t (cur ++ [c]) k else cur :: tok t [c] kc
           end
  end.

Definition tokenize (s : list Z) : list (list Z) := tok s [] 0.

(* ---------------------------------------------------------------------------------- *)
(* result objects                                                                     *)

Record tzattr := mkAttr {
  x_month : option Z; x_week : option Z; x_weekday : option Z;
  x_yday : option Z; x_jyday : option Z; x_day : option Z; x_time : option Z }.

Definition attr0 : tzattr := mkAttr None None None None None None None.

Record tzres := mkRes {
  r_stdabbr : option (list Z); r_stdoffset : option Z;
  r_dstabbr : option (list Z); r_dstoffset : option Z;
  r_start : tzattr; r_end : tzattr;
  r_unused : bool }.               (* any_unused_tokens *)

(* ---------------------------------------------------------------------------------- *)
(* token helpers                                                                      *)

Definition tk (l : list (list Z)) (i : nat) : option (list Z) := nth_error l i.

Fixpoint list_eqb (a b : list Z) : bool :=
  match a, b with
  | [], [] => true
  | x :: a', y :: b' => (x =? y) && list_eqb a' b'
  | _, _ => false
  end.

Definition tk_is (l : list (list Z)) (i : nat) (c : Z) : bool :=
  match tk l i with Some t => list_eqb t [c] | None => false end.

Definition C_PLUS := 43. Definition C_MINUS := 45. Definition C_COMMA := 44.
Definition C_COLON := 58. Definition C_DOT := 46. Definition C_SLASH := 47.
Definition C_SEMI := 59. Definition C_J := 74. Definition C_M := 77.

(* int(token) for ASCII tokens: succeeds exactly on a non-empty run of digits *)
Fixpoint int_acc (a : Z) (t : list Z) : option Z :=
  match t with
  | [] => Some a
  | c :: t' => if is_digit c then int_acc (a * 10 + (c - 48)) t' else None
  end.
Definition int_tok (t : list Z) : option Z :=
  match t with [] => None | _ => int_acc 0 t end.

Definition obind {A B} (o : option A) (f : A -> option B) : option B :=
  match o with Some a => f a | None => None end.
Notation "'do' x <- a ; b" := (obind a (fun x => b))
  (at level 200, x pattern, a at level 100, b at level 200).

(* not [x for x in tok if x in "0123456789:,-+"] *)
Definition name_tok (t : list Z) : bool :=
  forallb (fun c => negb (is_digit c || (c =? 58) || (c =? 44) || (c =? 45) || (c =? 43))) t.

(* while j < len_l and name_tok(l[j]): j += 1      (suffix = l[j:]) *)
Fixpoint span_name (suffix : list (list Z)) (j : nat) : nat :=
  match suffix with
  | t :: rest => if name_tok t then span_name rest (S j) else j
  | [] => j
  end.

Definition slice (l : list (list Z)) (i j : nat) : list (list Z) := firstn (j - i) (skipn i l).

(* hh[mm] / hh:mm reading shared by the offset and the rule-time branches:
     len_li = len(l[i])
     if len_li == 4:                          value = int(l[i][:2])*3600 + int(l[i][2:])*60
     elif i+1 < len_l and l[i+1] == ':':      value = int(l[i])*3600 + int(l[i+2])*60 ; used i; i += 2
                                              [rule time only: optional  :ss ]
     elif len_li <= 2:                        value = int(l[i][:2])*3600
     else: return None
     used i; i += 1
   returns (value, new i, indices marked used) *)
Definition read_hhmm (with_seconds : bool) (l : list (list Z)) (i : nat)
  : option (Z * nat * list nat) :=
  do t <- tk l i;
  if (length t =? 4)%nat then
    do h <- int_tok (firstn 2 t); do m <- int_tok (skipn 2 t);
    Some (h * 3600 + m * 60, S i, [i])
  else if tk_is l (S i) C_COLON then
    do h <- int_tok t; do t2 <- tk l (i + 2); do m <- int_tok t2;
    let v := h * 3600 + m * 60 in
    let i2 := (i + 2)%nat in
    if with_seconds && tk_is l (S i2) C_COLON then
      do t3 <- tk l (i2 + 2); do s <- int_tok t3;
      Some (v + s, S (i2 + 2), [i; i2; (i2 + 2)%nat])
    else Some (v, S i2, [i; i2])
  else if (length t <=? 2)%nat then
    do h <- int_tok (firstn 2 t); Some (h * 3600, S i, [i])
  else None.

(* the offset after an abbreviation (only entered when l[i] is a sign or starts with a digit) *)
Definition read_offset (l : list (list Z)) (i : nat) : option (Z * nat * list nat) :=
  let '(signal, i1, used0) :=
    if tk_is l i C_PLUS then (-1, S i, [i])
    else if tk_is l i C_MINUS then (1, S i, [i])
    else (-1, i, []) in
  do (v, i2, used1) <- read_hhmm false l i1;
  Some (v * signal, i2, used0 ++ used1).

Definition starts_offset (l : list (list Z)) (i : nat) : bool :=
  match tk l i with
  | Some t => list_eqb t [C_PLUS] || list_eqb t [C_MINUS] ||
              match t with c :: _ => is_digit c | [] => false end
  | None => false
  end.

Definition concat_toks (ts : list (list Z)) : list Z := concat ts.

Definition truthy_str (o : option (list Z)) : bool :=
  match o with Some (_ :: _) => true | _ => false end.

(* one pass of the `while i < len_l` abbreviation loop.  Returns None when parse() returns None;
   otherwise (abbr, offset option, new i, used, took?) ; took? = false means `break` (j == i) *)
Definition name_step (l : list (list Z)) (i : nat)
  : option (option (list Z * option Z) * nat * list nat) :=
  let j := span_name (skipn i l) i in
  if (j =? i)%nat then Some (None, i, [])
  else
    let abbr := concat_toks (slice l i j) in
    let used := seq 0 j in
    if starts_offset l j then
      do (v, i2, u) <- read_offset l j;
      Some (Some (abbr, Some v), i2, used ++ u)
    else Some (Some (abbr, None), j, used).

(* l[j] = ',' for every j >= i with l[j] == ';' *)
Fixpoint semi_to_comma (l : list (list Z)) (i : nat) : list (list Z) :=
  match l with
  | [] => []
  | t :: rest =>
      match i with
      | O => (if list_eqb t [C_SEMI] then [C_COMMA] else t) :: semi_to_comma rest O
      | S i' => t :: semi_to_comma rest i'
      end
  end.

Definition count_tok (l : list (list Z)) (c : Z) : nat :=
  length (filter (fun t => list_eqb t [c]) l).

Definition all_chars (p : Z -> bool) (t : list Z) : bool := forallb p t.

(* ---- deprecated dateutil-specific format  GMT0BST,3,0,30,3600,10,0,26,7200[,3600] ---- *)

Definition dep_chars (c : Z) : bool := is_digit c || (c =? 43) || (c =? 45).

Definition dep_filter (rest : list (list Z)) : bool :=
  forallb (fun t => list_eqb t [C_COMMA] || all_chars dep_chars t) rest.

Definition dep_rule (l : list (list Z)) (i : nat) : option (tzattr * nat * list nat) :=
  do t0 <- tk l i; do month <- int_tok t0;
  let u0 := [i] in let i := (i + 2)%nat in
  do t1 <- tk l i;
  do (value, i, u1) <-
     (if list_eqb t1 [C_MINUS] then
        do t <- tk l (S i); do v <- int_tok t; Some (v * -1, S i, [i])
      else do v <- int_tok t1; Some (v, i, []));
  let u2 := [i] in let i := (i + 2)%nat in
  do t2 <- tk l i; do n2 <- int_tok t2;
  let a := if value =? 0 then mkAttr (Some month) None None None None (Some n2) None
           else mkAttr (Some month) (Some value) (Some ((n2 - 1) mod 7)) None None None None in
  let u3 := [i] in let i := (i + 2)%nat in
  do t3 <- tk l i; do tm <- int_tok t3;
  let a := mkAttr a.(x_month) a.(x_week) a.(x_weekday) a.(x_yday) a.(x_jyday) a.(x_day) (Some tm) in
  Some (a, (i + 2)%nat, u0 ++ u1 ++ u2 ++ u3 ++ [i]).

(* ---- POSIX rules  ,start[/time],end[/time] ---- *)

Definition posix_tok_ok (t : list Z) : bool :=
  list_eqb t [C_COMMA] || list_eqb t [C_SLASH] || list_eqb t [C_J] || list_eqb t [C_M] ||
  list_eqb t [C_DOT] || list_eqb t [C_MINUS] || list_eqb t [C_COLON] || all_chars is_digit t.

Definition is_dash_or_dot (l : list (list Z)) (i : nat) : bool :=
  tk_is l i C_MINUS || tk_is l i C_DOT.

Definition posix_rule (l : list (list Z)) (i : nat) : option (tzattr * nat * list nat) :=
  do t <- tk l i;                                     (* l[i]: IndexError when missing *)
  do (a, i, u) <-
    (if list_eqb t [C_J] then
       do t1 <- tk l (S i); do n <- int_tok t1;
       Some (mkAttr None None None None (Some n) None None, S i, [i])
     else if list_eqb t [C_M] then
       let i1 := S i in
       do t1 <- tk l i1; do month <- int_tok t1;
       let i2 := S i1 in
       if negb (is_dash_or_dot l i2) then None else
       let i3 := S i2 in
       do t3 <- tk l i3; do week <- int_tok t3;
       let week := if week =? 5 then -1 else week in
       let i4 := S i3 in
       if negb (is_dash_or_dot l i4) then None else
       let i5 := S i4 in
       do t5 <- tk l i5; do wd <- int_tok t5;
       Some (mkAttr (Some month) (Some week) (Some ((wd - 1) mod 7)) None None None None,
             i5, [i; i1; i2; i3; i4])
     else
       do n <- int_tok t;
       Some (mkAttr None None None (Some (n + 1)) None None None, i, []));
  let u := u ++ [i] in
  let i := S i in
  do (a, i, u) <-
    (if tk_is l i C_SLASH then
       do (v, i2, u2) <- read_hhmm true l (S i);
       Some (mkAttr a.(x_month) a.(x_week) a.(x_weekday) a.(x_yday) a.(x_jyday) a.(x_day) (Some v),
             i2, u ++ [i] ++ u2)
     else Some (a, i, u));
  (* assert i == len_l or l[i] == ',' *)
  if (i =? length l)%nat || tk_is l i C_COMMA then Some (a, S i, u)
  else if (length l <? i)%nat then None                  (* l[i]: IndexError *)
  else None.

(* any_unused_tokens *)
Fixpoint mem_nat (n : nat) (l : list nat) : bool :=
  match l with [] => false | x :: t => (x =? n)%nat || mem_nat n t end.

Fixpoint unused_bad (l : list (list Z)) (idx : nat) (used : list nat) : bool :=
  match l with
  | [] => false
  | t :: rest =>
      (negb (mem_nat idx used) && negb (list_eqb t [C_COMMA] || list_eqb t [C_COLON]))
      || unused_bad rest (S idx) used
  end.

(* ---------------------------------------------------------------------------------- *)
(* _tzparser.parse over the token list                                                *)

Definition parse_tokens (l0 : list (list Z)) : res (option tzres) :=
  let len_l := length l0 in
  (* abbreviation loop: at most two passes take a name; the second sets dstabbr -> break *)
  match name_step l0 0 with
  | None => Ok None
  | Some (n1, i, used) =>
    let after_names :=
      match n1 with
      | None => Some (None, None, None, None, i, used)
      | Some (sabbr, soff) =>
          (* res.dstabbr is still None: loop again unless i >= len_l *)
          if (len_l <=? i)%nat then Some (Some sabbr, soff, None, None, i, used)
          else match name_step l0 i with
               | None => None
               | Some (None, i2, u2) => Some (Some sabbr, soff, None, None, i2, used ++ u2)
               | Some (Some (dabbr, doff), i2, u2) =>
                   Some (Some sabbr, soff, Some dabbr, doff, i2, used ++ u2)
               end
      end in
    match after_names with
    | None => Ok None
    | Some (sabbr, soff, dabbr, doff, i, used) =>
      (* if i < len_l: ';' -> ',' ; assert l[i] == ',' ; i += 1 *)
      let l := if (i <? len_l)%nat then semi_to_comma l0 i else l0 in
      if (i <? len_l)%nat && negb (tk_is l i C_COMMA) then Ok None
      else
        let i := if (i <? len_l)%nat then S i else i in
        let finish (r : option (tzattr * tzattr * option Z * list nat)) : res (option tzres) :=
          match r with
          | None => Ok None
          | Some (st, en, doff', used') =>
              Ok (Some (mkRes sabbr soff dabbr doff' st en (unused_bad l 0 used')))
          end in
        if (len_l <=? i)%nat then finish (Some (attr0, attr0, doff, used))
        else
          let commas := count_tok l C_COMMA in
          if (8 <=? commas)%nat && (commas <=? 9)%nat && dep_filter (skipn i l) then
            match dep_rule l i with
            | None => Ok None
            | Some (st, i1, u1) =>
              match dep_rule l i1 with
              | None => Ok None
              | Some (en, i2, u2) =>
                if (i2 <? len_l)%nat then
                  let '(signal, i3, u3) :=
                    if tk_is l i2 C_MINUS then (-1, S i2, [i2])
                    else if tk_is l i2 C_PLUS then (1, S i2, [i2])
                    else (1, i2, []) in
                  (* res.dstoffset = res.stdoffset + int(l[i]) * signal *)
                  match tk l i3 with
                  | None => Ok None
                  | Some t =>
                    match int_tok t with
                    | None => Ok None
                    | Some v =>
                      match soff with
                      | None => Ok None       (* None + int: TypeError, caught by parse() since /repo b3bd589 *)
                      | Some so => finish (Some (st, en, Some (so + v * signal),
                                                 used ++ u1 ++ u2 ++ u3 ++ [i3]))
                      end
                    end
                  end
                else finish (Some (st, en, doff, used ++ u1 ++ u2))
              end
            end
          else if (commas =? 2)%nat && (count_tok (skipn i l) C_SLASH <=? 2)%nat &&
                  forallb posix_tok_ok (skipn i l) then
            match posix_rule l i with
            | None => Ok None
            | Some (st, i1, u1) =>
              match posix_rule l i1 with
              | None => Ok None
              | Some (en, i2, u2) =>
                  (* assert i >= len_l *)
                  if (len_l <=? i2)%nat then finish (Some (st, en, doff, used ++ u1 ++ u2))
                  else Ok None
              end
            end
          else finish (Some (attr0, attr0, doff, used))
    end
  end.

Definition tzparse (s : list Z) : res (option tzres) := parse_tokens (tokenize s).
